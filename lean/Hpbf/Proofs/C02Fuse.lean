/-
C02, part 3a: ONE fusion of `zeroing_move_detection` preserves behaviour.

A fusion `(r, m, j)` turns a source operand `mem m` of the instruction at `r` into `memZero m` (read and clear)
and the later zeroing copy `copy (mem m) (imm 0)` at `j` into `noop`.  Between `r` and `j` the original program
has the old value in cell `ptr + m`, the fused program has 0 there; everything else is equal.  The conditions
(`FuseCond`): no instruction strictly between touches `m`, moves the pointer or branches, no branch of the
program lands in `(r, j]`, and the fused operand is the last read of `m` in its instruction (`FuseAt`).
The simulation is step-for-step (`lockstep_run`), so both programs use the same fuel.
-/
import Hpbf.Proofs.C02Strip

namespace Hpbf
namespace C02

open Bc BcWf BcGen C11

variable {w : Nat}

/-! ### states and configurations that differ by one cleared cell -/

/-- `s'` is `s` with the cell at address `a` cleared. -/
structure SCleared (a : Int) (s s' : State w) : Prop where
  io : IoEq s s'
  tape : ∀ t, s'.tape.get t = if t = a then 0#w else s.tape.get t

structure Cleared (a : Int) (x y : Cfg w) : Prop where
  pc : y.pc = x.pc
  temps : y.temps = x.temps
  budget : y.budget = x.budget
  st : SCleared a x.st y.st

theorem sCleared_wr (s : State w) (m : Int) : SCleared (s.ptr + m) s (s.wr m 0#w) :=
  ⟨⟨rfl, rfl, rfl⟩, fun t => by simp only [State.wr, Tape.get_set]⟩

theorem SCleared.wr {s s' : State w} {a : Int} (h : SCleared a s s') {md : Int} (hne : s.ptr + md ≠ a)
    (v : BitVec w) : SCleared a (s.wr md v) (s'.wr md v) := by
  refine ⟨⟨h.io.ptr, h.io.env, h.io.trace⟩, fun t => ?_⟩
  simp only [State.wr, Tape.get_set, ← h.io.ptr, h.tape]
  by_cases h1 : t = s.ptr + md
  · have : ¬ t = a := by omega
    simp [h1]
    omega
  · simp [h1]

theorem SCleared.rd {s s' : State w} {a : Int} (h : SCleared a s s') {md : Int} (hne : s.ptr + md ≠ a) :
    s'.rd md = s.rd md := by
  unfold State.rd
  rw [← h.io.ptr, h.tape]
  simp [hne]

/-- The operand `b` does not refer to the cell at address `a`. -/
def Avoids (s : State w) (a : Int) (b : Loc w) : Prop := ∀ o ∈ locMem b, s.ptr + o ≠ a

theorem avoids_of_not_mem {s : State w} {p0 m : Int} {b : Loc w} (hp : s.ptr = p0) (hb : m ∉ locMem b) :
    Avoids s (p0 + m) b := by
  intro o ho
  have : o ≠ m := fun e => hb (e ▸ ho)
  omega

theorem SCleared.rdSt {s s' : State w} {a : Int} (h : SCleared a s s') {b : Loc w}
    (hb : Avoids s a b) : SCleared a (rdSt s b) (rdSt s' b) := by
  cases b with
  | memZero o => exact h.wr (hb o (by simp [locMem])) _
  | _ => exact h

theorem rdSt_ptr' (s : State w) (b : Loc w) : (rdSt s b).ptr = s.ptr := by cases b <;> rfl

theorem SCleared.rdVal {s s' : State w} {a : Int} (h : SCleared a s s') (c : Cfg w) {b : Loc w}
    (hb : Avoids s a b) : rdVal { c with st := s' } b = rdVal { c with st := s } b := by
  cases b with
  | mem o => exact h.rd (hb o (by simp [locMem]))
  | memZero o => exact h.rd (hb o (by simp [locMem]))
  | _ => rfl

theorem wrCfg_cleared {s s' : State w} {a : Int} (h : SCleared a s s') (c : Cfg w) (v : BitVec w)
    {d : Loc w} (hd : Avoids s a d) :
    Cleared a (wrCfg { c with st := s } v d) (wrCfg { c with st := s' } v d) := by
  cases d with
  | mem o => exact ⟨rfl, rfl, rfl, h.wr (hd o (by simp [locMem])) v⟩
  | tmp i => exact ⟨rfl, rfl, rfl, h⟩
  | memZero o => exact ⟨rfl, rfl, rfl, h⟩
  | imm k => exact ⟨rfl, rfl, rfl, h⟩

/-! ### the fused instruction -/

theorem copy_fuse (c : Cfg w) (d : Loc w) (m : Int) (hd : m ∉ locMem d) :
    Cleared (c.st.ptr + m) (copyCfg c d (.mem m)) (copyCfg c d (.memZero m)) := by
  unfold copyCfg
  exact wrCfg_cleared (sCleared_wr c.st m) c (c.st.rd m) (avoids_of_not_mem rfl hd)

theorem sameDst_false_of_not_mem {d a : Loc w} {m : Int} (hd : m ∉ locMem d) (ha : m ∈ locMem a) :
    sameDst d a = false := by
  cases d <;> cases a <;> simp_all [sameDst, locMem]
  omega

/-- Fusing the SECOND source: the first source carries no read-and-clear operand. -/
theorem binop_fuse_b (f : BitVec w → BitVec w → BitVec w) (c : Cfg w) (d a : Loc w) (m : Int)
    (hd : m ∉ locMem d) (ha : locNoZero a = true) :
    Cleared (c.st.ptr + m) (binopCfg f c d a (.mem m)) (binopCfg f c d a (.memZero m)) := by
  unfold binopCfg
  have h0 := sCleared_wr c.st m
  by_cases hs : sameDst d a = true
  · simp only [hs, if_true]
    have hv : rdVal { c with st := rdSt c.st (Loc.memZero m) } d = rdVal { c with st := rdSt c.st (Loc.mem m) } d :=
      h0.rdVal c (avoids_of_not_mem rfl hd)
    simp only [hv]
    exact wrCfg_cleared (h0.rdSt (avoids_of_not_mem rfl hd)) c _ (avoids_of_not_mem (rdSt_ptr' _ _) hd)
  · simp only [hs]
    simp only [rdSt_noZero _ ha]
    exact wrCfg_cleared h0 c _ (avoids_of_not_mem rfl hd)

/-- Fusing the FIRST source: the second source does not read `m` (it may be another `memZero`). -/
theorem binop_fuse_a (f : BitVec w → BitVec w → BitVec w) (c : Cfg w) (d b : Loc w) (m : Int)
    (hd : m ∉ locMem d) (hb : m ∉ locMem b) :
    Cleared (c.st.ptr + m) (binopCfg f c d (.mem m) b) (binopCfg f c d (.memZero m) b) := by
  unfold binopCfg
  have h1 : sameDst d (.mem m : Loc w) = false := sameDst_false_of_not_mem hd (by simp [locMem])
  have h2 : sameDst d (.memZero m : Loc w) = false := sameDst_false_of_not_mem hd (by simp [locMem])
  simp only [h1, h2, Bool.false_eq_true, if_false]
  have h0 := sCleared_wr c.st m
  have hv : rdVal { c with st := rdSt c.st (Loc.memZero m) } b = rdVal { c with st := rdSt c.st (Loc.mem m) } b :=
    h0.rdVal c (avoids_of_not_mem rfl hb)
  simp only [hv]
  exact wrCfg_cleared (h0.rdSt (avoids_of_not_mem rfl hb)) c _ (avoids_of_not_mem (rdSt_ptr' _ _) hd)

def opFn : BcGen.Op → BitVec w → BitVec w → BitVec w
  | .add => (· + ·)
  | .sub => fun x y => x + (-y)
  | .mul => (· * ·)

theorem stepI_mkArith (p : Program w) (limited : Bool) (c : Cfg w) (op : BcGen.Op) (d a b : Loc w) :
    stepI p limited c (mkArith op d a b) = arith c (opFn op) d a b := by
  cases op <;> rfl

/-- `a'` is `a` with ONE source operand `mem m` turned into `memZero m`, that operand being the last read of
cell `m` by the instruction and the destination being another location. -/
inductive FuseAt (m : Int) : Instr w → Instr w → Prop
  | copy (d : Loc w) : m ∉ locMem d → FuseAt m (.copy d (.mem m)) (.copy d (.memZero m))
  | arithB (op : BcGen.Op) (d a : Loc w) : m ∉ locMem d → locNoZero a = true →
      FuseAt m (mkArith op d a (.mem m)) (mkArith op d a (.memZero m))
  | arithA (op : BcGen.Op) (d b : Loc w) : m ∉ locMem d → m ∉ locMem b →
      FuseAt m (mkArith op d (.mem m) b) (mkArith op d (.memZero m) b)

theorem isDst_noZero {d : Loc w} (h : isDst d = true) : locNoZero d = true := by
  cases d <;> simp_all [isDst, locNoZero]

/-- The two instructions either both fail, or both continue at `pc + 1` with configurations that differ by
the cleared cell. -/
theorem fuse_local (p : Program w) (limited : Bool) (c : Cfg w) {m : Int} {a a' : Instr w}
    (h : FuseAt m a a') :
    (stepI p limited c a = .bad c ∧ stepI p limited c a' = .bad c) ∨
    ∃ x y, stepI p limited c a = .next x ∧ stepI p limited c a' = .next y ∧
      Cleared (c.st.ptr + m) x y ∧ x.pc = c.pc + 1 ∧ x.st.ptr = c.st.ptr := by
  have setPc : ∀ {x y : Cfg w} (k : Nat), Cleared (c.st.ptr + m) x y →
      Cleared (c.st.ptr + m) { x with pc := k } { y with pc := k } :=
    fun k h => ⟨rfl, h.temps, h.budget, h.st⟩
  cases h with
  | copy d hd =>
    simp only [stepI]
    by_cases hdz : isDst d = true
    · simp only [hdz, if_true]
      exact Or.inr ⟨_, _, rfl, rfl, setPc _ (copy_fuse c d m hd), rfl, copyCfg_ptr _ _ _⟩
    · simp only [hdz]
      exact Or.inl ⟨rfl, rfl⟩
  | arithB op d a hd ha =>
    simp only [stepI_mkArith, arith]
    by_cases hdz : isDst d = true
    · simp only [hdz, if_true]
      exact Or.inr ⟨_, _, rfl, rfl, setPc _ (binop_fuse_b _ c d a m hd ha), rfl, binopCfg_ptr _ _ _ _ _⟩
    · simp only [hdz]
      exact Or.inl ⟨rfl, rfl⟩
  | arithA op d b hd hb =>
    simp only [stepI_mkArith, arith]
    by_cases hdz : isDst d = true
    · simp only [hdz, if_true]
      exact Or.inr ⟨_, _, rfl, rfl, setPc _ (binop_fuse_a _ c d b m hd hb), rfl, binopCfg_ptr _ _ _ _ _⟩
    · simp only [hdz]
      exact Or.inl ⟨rfl, rfl⟩

/-! ### instructions that may sit between the read and the zeroing copy -/

/-- Straight-line instruction that does not touch cell `m`. -/
def quiet (m : Int) : Instr w → Bool
  | .scan _ _ => false
  | .mov _ => false
  | .brz _ _ => false
  | .brnz _ _ => false
  | ins => !(memOps ins).contains m

theorem quiet_memOps {m : Int} {ins : Instr w} (h : quiet m ins = true) : m ∉ memOps ins := by
  cases ins <;> simp_all [quiet]

/-- A quiet instruction continues at `pc + 1`, stops or fails; it does not move the pointer. -/
theorem quiet_step (p : Program w) (limited : Bool) (c : Cfg w) {m : Int} {ins : Instr w}
    (h : quiet m ins = true) :
    (stepI p limited c ins).cfg.st.ptr = c.st.ptr ∧
    ((∃ c', stepI p limited c ins = .next c' ∧ c'.pc = c.pc + 1) ∨
     (∃ c', stepI p limited c ins = .stop c') ∨ (∃ c', stepI p limited c ins = .bad c')) := by
  cases ins with
  | scan _ _ => simp [quiet] at h
  | mov _ => simp [quiet] at h
  | brz _ _ => simp [quiet] at h
  | brnz _ _ => simp [quiet] at h
  | noop => exact ⟨rfl, Or.inl ⟨_, rfl, rfl⟩⟩
  | inp dst =>
    refine ⟨by have := input_ptr c.st dst; simp only [stepI]; split <;> exact this, ?_⟩
    simp only [stepI]
    split
    · exact Or.inl ⟨_, rfl, rfl⟩
    · exact Or.inr (Or.inl ⟨_, rfl⟩)
  | out src =>
    refine ⟨by have := output_ptr c.st src; simp only [stepI]; split <;> exact this, ?_⟩
    simp only [stepI]
    split
    · exact Or.inl ⟨_, rfl, rfl⟩
    · exact Or.inr (Or.inl ⟨_, rfl⟩)
  | add d a b =>
    simp only [stepI, arith]
    split
    · exact ⟨binopCfg_ptr _ _ _ _ _, Or.inl ⟨_, rfl, rfl⟩⟩
    · exact ⟨rfl, Or.inr (Or.inr ⟨_, rfl⟩)⟩
  | sub d a b =>
    simp only [stepI, arith]
    split
    · exact ⟨binopCfg_ptr _ _ _ _ _, Or.inl ⟨_, rfl, rfl⟩⟩
    · exact ⟨rfl, Or.inr (Or.inr ⟨_, rfl⟩)⟩
  | mul d a b =>
    simp only [stepI, arith]
    split
    · exact ⟨binopCfg_ptr _ _ _ _ _, Or.inl ⟨_, rfl, rfl⟩⟩
    · exact ⟨rfl, Or.inr (Or.inr ⟨_, rfl⟩)⟩
  | copy d s =>
    simp only [stepI]
    split
    · exact ⟨copyCfg_ptr _ _ _, Or.inl ⟨_, rfl, rfl⟩⟩
    · exact ⟨rfl, Or.inr (Or.inr ⟨_, rfl⟩)⟩

/-! ### the program-level simulation -/

structure FuseCond (P : Program w) (r j : Nat) (m : Int) (a a' : Instr w) : Prop where
  rj : r < j
  hr : P.insts[r]? = some a
  fuse : FuseAt m a a'
  hj : P.insts[j]? = some (.copy (.mem m) (.imm 0#w))
  quiet : ∀ x ins, r < x → x < j → P.insts[x]? = some ins → quiet m ins = true
  targets : TargetsOk P.insts
  noTarget : ∀ (i : Nat) (ins : Instr w) (off : Int), P.insts[i]? = some ins → branchOff? ins = some off →
    ¬ (r < ((i : Int) + off).toNat ∧ ((i : Int) + off).toNat ≤ j)

def fuseInsts (insts : Array (Instr w)) (r j : Nat) (a' : Instr w) : Array (Instr w) :=
  (insts.setIfInBounds r a').setIfInBounds j .noop

theorem fuseInsts_size (insts : Array (Instr w)) (r j : Nat) (a' : Instr w) :
    (fuseInsts insts r j a').size = insts.size := by simp [fuseInsts]

theorem fuseInsts_get_other (insts : Array (Instr w)) {r j x : Nat} (a' : Instr w) (hr : x ≠ r) (hj : x ≠ j) :
    (fuseInsts insts r j a')[x]? = insts[x]? := by
  simp only [fuseInsts, Array.getElem?_setIfInBounds]
  simp [Ne.symm hr, Ne.symm hj]

theorem fuseInsts_get_r (insts : Array (Instr w)) {r j : Nat} (a' : Instr w) (hrj : r ≠ j)
    (hr : r < insts.size) : (fuseInsts insts r j a')[r]? = some a' := by
  simp only [fuseInsts, Array.getElem?_setIfInBounds]
  simp [Ne.symm hrj, hr]

theorem fuseInsts_get_j (insts : Array (Instr w)) {r j : Nat} (a' : Instr w)
    (hj : j < insts.size) : (fuseInsts insts r j a')[j]? = some .noop := by
  simp only [fuseInsts, Array.getElem?_setIfInBounds]
  simp [hj]

/-- The simulation relation of one fusion: inside `(r, j]` the fused program has already cleared `ptr + m`. -/
structure FR (r j : Nat) (m : Int) (c1 c2 : Cfg w) : Prop where
  pc : c1.pc = c2.pc
  temps : c1.temps = c2.temps
  budget : c1.budget = c2.budget
  io : IoEq c1.st c2.st
  tape : if r < c1.pc ∧ c1.pc ≤ j then
      (∀ x, x ≠ c1.st.ptr + m → c1.st.tape.get x = c2.st.tape.get x) ∧ c2.st.tape.get (c1.st.ptr + m) = 0#w
    else ∀ x, c1.st.tape.get x = c2.st.tape.get x

theorem _root_.Hpbf.C11.TapeSim.cfgIo {X : Int → Prop} {c1 c2 : Cfg w} (h : TapeSim X c1 c2) : CfgIo c1 c2 :=
  ⟨⟨h.st.ptr, h.st.env, h.st.trace⟩, h.budget⟩

theorem _root_.Hpbf.C11.TapeSim.cfgEq {X : Int → Prop} {c1 c2 : Cfg w} (h : TapeSim X c1 c2) (hX : ∀ x, X x) : CfgEq c1 c2 :=
  ⟨⟨⟨h.st.ptr, h.st.env, h.st.trace⟩, fun x => h.st.tape x (hX x)⟩, h.budget⟩

theorem stepRel_of_tapeSim {X : Int → Prop} {r1 r2 : StepRes w} {R : Cfg w → Cfg w → Prop}
    (ht : r1.tag = r2.tag) (hs : TapeSim X r1.cfg r2.cfg)
    (hnext : ∀ a b, r1 = .next a → r2 = .next b → R a b)
    (hfin : (r1.tag = 1 ∨ r1.tag = 3) → ∀ x, X x) : StepRel R CfgEq CfgIo r1 r2 := by
  cases r1 <;> cases r2 <;> simp only [StepRes.tag] at ht <;> try omega
  all_goals simp only [StepRel, StepRes.cfg] at hs ⊢
  · exact hnext _ _ rfl rfl
  · exact hs.cfgEq (hfin (Or.inl rfl))
  · exact hs.cfgIo
  · exact hs.cfgEq (hfin (Or.inr rfl))
  · exact hs.cfgIo

theorem fuse_stepRel {P Q : Program w} {r j : Nat} {m : Int} {a a' : Instr w}
    (h : FuseCond P r j m a a') (hQ : Q.insts = fuseInsts P.insts r j a') (limited : Bool)
    (c1 c2 : Cfg w) (hR : FR r j m c1 c2) :
    StepRel (FR r j m) CfgEq CfgIo (step P limited c1) (step Q limited c2) := by
  have hsz : Q.insts.size = P.insts.size := by rw [hQ, fuseInsts_size]
  have hjlt : j < P.insts.size := C07_lt h.hj
  have hrlt : r < P.insts.size := C07_lt h.hr
  have hrj := h.rj
  obtain ⟨hpc, htemps, hbudget, hio, htape⟩ := hR
  cases hi : P.insts[c1.pc]? with
  | none =>
    -- past the end: not inside the region
    have hge : P.insts.size ≤ c1.pc := by rw [Array.getElem?_eq_none_iff] at hi; exact hi
    have hnr : ¬ (r < c1.pc ∧ c1.pc ≤ j) := by omega
    simp only [hnr, if_false] at htape
    have hi2 : Q.insts[c2.pc]? = none := by rw [Array.getElem?_eq_none_iff]; omega
    have hts : TapeSim (fun _ => True) c1 c2 := ⟨hpc, htemps, hbudget, ⟨hio.ptr, hio.env, hio.trace, fun x _ => htape x⟩⟩
    unfold step
    rw [hi, hi2, ← hpc, hsz]
    by_cases he : c1.pc = P.insts.size
    · simp only [he, if_true, StepRel]; exact hts.cfgEq (fun _ => trivial)
    · simp only [he, if_false, StepRel]; exact hts.cfgIo
  | some ins =>
    have hlt : c1.pc < P.insts.size := C07_lt hi
    by_cases hcr : c1.pc = r
    · -- the fused reader
      have hnr : ¬ (r < c1.pc ∧ c1.pc ≤ j) := by omega
      simp only [hnr, if_false] at htape
      have hts : TapeSim (fun _ => True) c1 c2 :=
        ⟨hpc, htemps, hbudget, ⟨hio.ptr, hio.env, hio.trace, fun x _ => htape x⟩⟩
      have hins : ins = a := by rw [hcr, h.hr] at hi; exact (Option.some.inj hi).symm
      subst hins
      have hq : Q.insts[c2.pc]? = some a' := by
        rw [← hpc, hcr, hQ]; exact fuseInsts_get_r _ _ (by omega) hrlt
      rw [step_eq hi, step_eq hq, stepI_size (p := P) hsz]
      obtain ⟨ht, hs⟩ := stepI_tape hts P limited a' (fun _ _ => trivial)
      rcases fuse_local P limited c1 h.fuse with ⟨hb1, hb2⟩ | ⟨x, y, hx, hy, hcl, hxpc, hxptr⟩
      · rw [hb1]
        rw [hb2] at ht hs
        cases h2 : stepI P limited c2 a' <;> rw [h2] at ht hs <;> simp only [StepRes.tag] at ht <;> try omega
        simp only [StepRel, StepRes.cfg] at hs ⊢
        exact hs.cfgIo
      · rw [hx]
        rw [hy] at ht hs
        cases h2 : stepI P limited c2 a' <;> rw [h2] at ht hs <;> simp only [StepRes.tag] at ht <;> try omega
        rename_i y2
        simp only [StepRel, StepRes.cfg] at hs ⊢
        refine ⟨hcl.pc.symm.trans hs.pc, hcl.temps.symm.trans hs.temps, hcl.budget.symm.trans hs.budget,
          hcl.st.io.trans ⟨hs.st.ptr, hs.st.env, hs.st.trace⟩, ?_⟩
        have hin : r < x.pc ∧ x.pc ≤ j := by omega
        simp only [hin, and_self, if_true]
        constructor
        · intro t ht'
          rw [hxptr] at ht'
          rw [← hs.st.tape t trivial, hcl.st.tape t]
          simp [ht']
        · rw [← hs.st.tape _ trivial, hcl.st.tape, hxptr]
          simp
    · by_cases hcj : c1.pc = j
      · -- the blanked zeroing copy
        have hinr : r < c1.pc ∧ c1.pc ≤ j := by omega
        simp only [hinr, and_self, if_true] at htape
        have hins : ins = .copy (.mem m) (.imm 0#w) := by rw [hcj, h.hj] at hi; exact (Option.some.inj hi).symm
        subst hins
        have hq : Q.insts[c2.pc]? = some .noop := by
          rw [← hpc, hcj, hQ]; exact fuseInsts_get_j _ _ hjlt
        rw [step_eq hi, step_eq hq]
        simp only [stepI, isDst, if_true, StepRel, copyCfg, rdVal, rdSt, wrCfg]
        refine ⟨by simp only [hpc], htemps, hbudget, ⟨hio.ptr, hio.env, hio.trace⟩, ?_⟩
        have hnr : ¬ (r < c1.pc + 1 ∧ c1.pc + 1 ≤ j) := by omega
        simp only [hnr, if_false]
        intro x
        simp only [State.wr, Tape.get_set]
        by_cases hx : x = c1.st.ptr + m
        · simp only [hx, if_true]; exact htape.2.symm
        · simp only [hx, if_false]; exact htape.1 x hx
      · have hq : Q.insts[c2.pc]? = some ins := by
          rw [← hpc, hQ, fuseInsts_get_other _ _ hcr hcj]; exact hi
        rw [step_eq hi, step_eq hq, stepI_size (p := P) hsz]
        by_cases hinr : r < c1.pc ∧ c1.pc ≤ j
        · -- strictly inside the region
          simp only [hinr, and_self, if_true] at htape
          have hqu := h.quiet c1.pc ins hinr.1 (by omega) hi
          have hts : TapeSim (fun x => x ≠ c1.st.ptr + m) c1 c2 :=
            ⟨hpc, htemps, hbudget, ⟨hio.ptr, hio.env, hio.trace, fun x hx => htape.1 x hx⟩⟩
          have hmo : ∀ o ∈ memOps ins, c1.st.ptr + o ≠ c1.st.ptr + m := by
            intro o ho
            have : o ≠ m := fun e => quiet_memOps hqu (e ▸ ho)
            omega
          obtain ⟨ht, hs⟩ := stepI_tape hts P limited ins hmo
          obtain ⟨hptr, hkind⟩ := quiet_step P limited c1 hqu
          have hfr : (stepI P limited c2 ins).cfg.st.tape.get (c1.st.ptr + m) = 0#w := by
            rw [stepI_frame P limited c2 ins (x := c1.st.ptr + m)]
            · exact htape.2
            · intro o ho
              have : o ≠ m := fun e => quiet_memOps hqu (e ▸ ho)
              rw [← hio.ptr]; omega
          apply stepRel_of_tapeSim ht hs
          · intro x y hx hy
            rw [hx, hy] at hs
            rw [hx] at hptr
            rw [hy] at hfr
            simp only [StepRes.cfg] at hs hptr hfr
            have hxpc : x.pc = c1.pc + 1 := by
              rcases hkind with ⟨c', hc', hpc'⟩ | ⟨c', hc'⟩ | ⟨c', hc'⟩
              · rw [hx] at hc'; cases hc'; exact hpc'
              · rw [hx] at hc'; cases hc'
              · rw [hx] at hc'; cases hc'
            refine ⟨hs.pc, hs.temps, hs.budget, ⟨hs.st.ptr, hs.st.env, hs.st.trace⟩, ?_⟩
            have hin' : r < x.pc ∧ x.pc ≤ j := by omega
            simp only [hin', and_self, if_true, hptr]
            exact ⟨fun t ht' => hs.st.tape t ht', hfr⟩
          · intro htag
            rcases hkind with ⟨c', hc', _⟩ | ⟨c', hc'⟩ | ⟨c', hc'⟩ <;> rw [hc'] at htag <;>
              simp [StepRes.tag] at htag
        · -- outside the region
          simp only [hinr, if_false] at htape
          have hts : TapeSim (fun _ => True) c1 c2 :=
            ⟨hpc, htemps, hbudget, ⟨hio.ptr, hio.env, hio.trace, fun x _ => htape x⟩⟩
          obtain ⟨ht, hs⟩ := stepI_tape hts P limited ins (fun _ _ => trivial)
          apply stepRel_of_tapeSim ht hs
          · intro x y hx hy
            rw [hx, hy] at hs
            simp only [StepRes.cfg] at hs
            refine ⟨hs.pc, hs.temps, hs.budget, ⟨hs.st.ptr, hs.st.env, hs.st.trace⟩, ?_⟩
            have hout : ¬ (r < x.pc ∧ x.pc ≤ j) := by
              obtain ⟨ss, hss⟩ := Option.isSome_iff_exists.mp (succs_of_targetsOk h.targets hi)
              rcases stepI_pc hss hx with hmem | hsame
              · cases ins <;> simp only [succs, Option.some.injEq, Option.map_eq_some_iff] at hss
                case brz cond off =>
                  obtain ⟨t, ht', rfl⟩ := hss
                  have hnt := h.noTarget _ _ off hi rfl
                  have hT := h.targets _ _ off hi rfl
                  simp only [branchTarget, hT, and_self, if_true, Option.some.injEq] at ht'
                  simp only [List.mem_cons, List.not_mem_nil, or_false] at hmem
                  rcases hmem with e | e
                  · omega
                  · rw [e, ← ht']; exact hnt
                case brnz cond off =>
                  obtain ⟨t, ht', rfl⟩ := hss
                  have hnt := h.noTarget _ _ off hi rfl
                  have hT := h.targets _ _ off hi rfl
                  simp only [branchTarget, hT, and_self, if_true, Option.some.injEq] at ht'
                  simp only [List.mem_cons, List.not_mem_nil, or_false] at hmem
                  rcases hmem with e | e
                  · omega
                  · rw [e, ← ht']; exact hnt
                all_goals (subst hss; simp only [List.mem_cons, List.not_mem_nil, or_false] at hmem; omega)
              · omega
            simp only [hout, if_false]
            exact fun t => hs.st.tape t trivial
          · intro _ _; trivial

/-- One fusion: same fuel, same outcome up to `ObsEqIO`. -/
theorem fuse_run {P Q : Program w} {r j : Nat} {m : Int} {a a' : Instr w}
    (h : FuseCond P r j m a a') (hQ : Q.insts = fuseInsts P.insts r j a') (limited : Bool)
    (b fuel : Nat) (env : Env) : ObsEqIO (Bc.run P limited b fuel env) (Bc.run Q limited b fuel env) := by
  unfold Bc.run
  by_cases hb : (limited && b == 0) = true
  · simp only [hb, if_true]; exact ObsEqIO.refl _
  · simp only [hb]
    apply lockstep_run (R := FR r j m) (fun c1 c2 hR => fuse_stepRel h hQ limited c1 c2 hR)
    · intro c1 c2 hR
      exact ⟨hR.io, hR.budget⟩
    · refine ⟨rfl, rfl, rfl, IoEq.refl _, ?_⟩
      have : ¬ (r < 0 ∧ 0 ≤ j) := by omega
      simp only [this, if_false]
      intro x; trivial

theorem fuse_behEqIO {P Q : Program w} {r j : Nat} {m : Int} {a a' : Instr w}
    (h : FuseCond P r j m a a') (hQ : Q.insts = fuseInsts P.insts r j a') : BehEqIO P Q :=
  ⟨fun limited b fuel env => ⟨fuel, fuse_run h hQ limited b fuel env⟩,
   fun limited b fuel env => ⟨fuel, (fuse_run h hQ limited b fuel env).symm⟩⟩

end C02
end Hpbf
