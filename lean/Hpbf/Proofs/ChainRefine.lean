/-
Chain, part 2: `translate` (all phases) refines the IR: `translate_forward`, `translate_backward`,
`translate_prefix`, bundled as `translate_refines` / `translate_refines_noOnce`.

Observables.  `done`: trace, environment, pointer AND the tape (as a function) agree.  `stopped` (I/O failure):
trace, environment and pointer agree; the tape is NOT compared – `dead_store_elim` (always) and
`zeroing_move_detection` (`fuse = true`) are only `BehEqIO` (`C02.dse_stopped_tape_differs_reachable`,
`C02.zmd_stopped_tape_differs`).  Cut-off runs: the traces agree.
-/
import Hpbf.Proofs.ChainPhases
import Hpbf.Props.C02Emit

namespace Hpbf
namespace Chain

open Bc BcWf BcGen C11 C02

variable {w : Nat}

/-! ### transporting outcomes along `ObsEqIO` / `BehEqIO` -/

theorem obsEqIO_done_left {c : Bc.Cfg w} {o : Bc.Outcome w} (h : ObsEqIO (.done c) o) :
    ∃ c', o = .done c' ∧ StEq c.st c'.st ∧ c.budget = c'.budget := by
  cases o <;> simp only [ObsEqIO, OutRel] at h
  exact ⟨_, rfl, h.1, h.2⟩

theorem obsEqIO_stopped_left {c : Bc.Cfg w} {o : Bc.Outcome w} (h : ObsEqIO (.stopped c) o) :
    ∃ c', o = .stopped c' ∧ IoEq c.st c'.st ∧ c.budget = c'.budget := by
  cases o <;> simp only [ObsEqIO, OutRel] at h
  exact ⟨_, rfl, h.1, h.2⟩

theorem obsEqIO_interrupted_left {c : Bc.Cfg w} {o : Bc.Outcome w} (h : ObsEqIO (.interrupted c) o) :
    ∃ c', o = .interrupted c' ∧ StEq c.st c'.st ∧ c.budget = c'.budget := by
  cases o <;> simp only [ObsEqIO, OutRel] at h
  exact ⟨_, rfl, h.1, h.2⟩

theorem obsEqIO_bad_left {c : Bc.Cfg w} {o : Bc.Outcome w} (h : ObsEqIO (.bad c) o) :
    ∃ c', o = .bad c' ∧ IoEq c.st c'.st ∧ c.budget = c'.budget := by
  cases o <;> simp only [ObsEqIO, OutRel] at h
  exact ⟨_, rfl, h.1, h.2⟩

theorem obsEqIO_outOfFuel_left {c : Bc.Cfg w} {o : Bc.Outcome w} (h : ObsEqIO (.outOfFuel c) o) :
    ∃ c', o = .outOfFuel c' ∧ IoEq c.st c'.st ∧ c.budget = c'.budget := by
  cases o <;> simp only [ObsEqIO, OutRel] at h
  exact ⟨_, rfl, h.1, h.2⟩

theorem obsEqIO_trace {o1 o2 : Bc.Outcome w} (h : ObsEqIO o1 o2) :
    C07.traceOfBc o1 = C07.traceOfBc o2 := by
  cases o1 <;> cases o2 <;> simp only [ObsEqIO, OutRel] at h
  all_goals first | exact h.1.1.trace | exact h.1.trace

/-- What `Beh ObsEqIO p q` gives for the runs of `p` (any mode, any budget). -/
theorem beh_transfer {p q : Bc.Program w} (h : Beh ObsEqIO p q) (l : Bool) (b : Nat) (env : Env) :
    (∀ f c, Bc.run p l b f env = .done c →
      ∃ f' c', Bc.run q l b f' env = .done c' ∧ StEq c.st c'.st ∧ c.budget = c'.budget) ∧
    (∀ f c, Bc.run p l b f env = .stopped c →
      ∃ f' c', Bc.run q l b f' env = .stopped c' ∧ IoEq c.st c'.st ∧ c.budget = c'.budget) ∧
    (∀ f c, Bc.run p l b f env = .interrupted c →
      ∃ f' c', Bc.run q l b f' env = .interrupted c' ∧ StEq c.st c'.st ∧ c.budget = c'.budget) ∧
    (∀ f c, Bc.run p l b f env = .bad c →
      ∃ f' c', Bc.run q l b f' env = .bad c' ∧ IoEq c.st c'.st ∧ c.budget = c'.budget) ∧
    (∀ f c, Bc.run p l b f env = .outOfFuel c →
      ∃ f' c', Bc.run q l b f' env = .outOfFuel c' ∧ IoEq c.st c'.st ∧ c.budget = c'.budget) ∧
    (∀ f, ∃ f', C07.traceOfBc (Bc.run p l b f env) = C07.traceOfBc (Bc.run q l b f' env)) := by
  refine ⟨?_, ?_, ?_, ?_, ?_, ?_⟩
  · intro f c hc
    obtain ⟨f', hf'⟩ := h l b f env
    rw [hc] at hf'
    obtain ⟨c', e, r⟩ := obsEqIO_done_left hf'
    exact ⟨f', c', e, r⟩
  · intro f c hc
    obtain ⟨f', hf'⟩ := h l b f env
    rw [hc] at hf'
    obtain ⟨c', e, r⟩ := obsEqIO_stopped_left hf'
    exact ⟨f', c', e, r⟩
  · intro f c hc
    obtain ⟨f', hf'⟩ := h l b f env
    rw [hc] at hf'
    obtain ⟨c', e, r⟩ := obsEqIO_interrupted_left hf'
    exact ⟨f', c', e, r⟩
  · intro f c hc
    obtain ⟨f', hf'⟩ := h l b f env
    rw [hc] at hf'
    obtain ⟨c', e, r⟩ := obsEqIO_bad_left hf'
    exact ⟨f', c', e, r⟩
  · intro f c hc
    obtain ⟨f', hf'⟩ := h l b f env
    rw [hc] at hf'
    obtain ⟨c', e, r⟩ := obsEqIO_outOfFuel_left hf'
    exact ⟨f', c', e, r⟩
  · intro f
    obtain ⟨f', hf'⟩ := h l b f env
    exact ⟨f', obsEqIO_trace hf'⟩

/-! ### `translate` refines the IR -/

section Refine
variable {blk : Ir.Block w} {numRegs : Nat} {fuse : Bool} {p : Bc.Program w}

/-- Forward: a terminating IR run is reproduced by the translated program. -/
theorem translate_forward (env : Env) (hp : translateE blk numRegs fuse = .ok p) (ho : OnceOk blk env) :
    (∀ f (c : Ir.Cfg w), Ir.run blk false 0 f env = .done c →
      ∃ f' c', Bc.run p false 0 f' env = .done c' ∧ c'.st.trace = c.st.trace ∧
        (∀ i, c'.st.tape.get i = c.st.tape.get i) ∧ c'.st.ptr = c.st.ptr ∧ c'.st.env = c.st.env) ∧
    (∀ f (c : Ir.Cfg w), Ir.run blk false 0 f env = .stopped c →
      ∃ f' c', Bc.run p false 0 f' env = .stopped c' ∧ c'.st.trace = c.st.trace ∧
        c'.st.ptr = c.st.ptr ∧ c'.st.env = c.st.env) := by
  obtain ⟨p0, hp0, hB⟩ := translate_behEqIO hp
  have hE := emit_forward env hp0 ho
  have hT := beh_transfer hB.1 false 0 env
  constructor
  · intro f c hc
    obtain ⟨f0, c0, h0, t0, tp0, pt0, e0⟩ := hE.1 f c hc
    obtain ⟨f', c', h', hs, _⟩ := hT.1 f0 c0 h0
    exact ⟨f', c', h', by rw [← hs.io.trace, t0], fun i => by rw [← hs.tape i, tp0 i],
      by rw [← hs.io.ptr, pt0], by rw [← hs.io.env, e0]⟩
  · intro f c hc
    obtain ⟨f0, c0, h0, t0, _, pt0, e0⟩ := hE.2 f c hc
    obtain ⟨f', c', h', hs, _⟩ := hT.2.1 f0 c0 h0
    exact ⟨f', c', h', by rw [← hs.trace, t0], by rw [← hs.ptr, pt0], by rw [← hs.env, e0]⟩

/-- Backward: the translated program terminates only if the IR does. -/
theorem translate_backward (env : Env) (hp : translateE blk numRegs fuse = .ok p) (ho : OnceOk blk env) :
    (∀ f' (c' : Bc.Cfg w), Bc.run p false 0 f' env = .done c' →
      ∃ f c, Ir.run blk false 0 f env = .done c ∧ c.st.trace = c'.st.trace ∧
        (∀ i, c.st.tape.get i = c'.st.tape.get i) ∧ c.st.ptr = c'.st.ptr ∧ c.st.env = c'.st.env) ∧
    (∀ f' (c' : Bc.Cfg w), Bc.run p false 0 f' env = .stopped c' →
      ∃ f c, Ir.run blk false 0 f env = .stopped c ∧ c.st.trace = c'.st.trace ∧
        c.st.ptr = c'.st.ptr ∧ c.st.env = c'.st.env) := by
  obtain ⟨p0, hp0, hB⟩ := translate_behEqIO hp
  have hE := emit_backward env hp0 ho
  have hT := beh_transfer hB.2 false 0 env
  constructor
  · intro f' c' hc'
    obtain ⟨f0, c0, h0, hs, _⟩ := hT.1 f' c' hc'
    obtain ⟨f, c, h, t, tp, pt, e⟩ := hE.1 f0 c0 h0
    exact ⟨f, c, h, by rw [t, ← hs.io.trace], fun i => by rw [tp i, ← hs.tape i],
      by rw [pt, ← hs.io.ptr], by rw [e, ← hs.io.env]⟩
  · intro f' c' hc'
    obtain ⟨f0, c0, h0, hs, _⟩ := hT.2.1 f' c' hc'
    obtain ⟨f, c, h, t, _, pt, e⟩ := hE.2 f0 c0 h0
    exact ⟨f, c, h, by rw [t, ← hs.trace], by rw [pt, ← hs.ptr], by rw [e, ← hs.env]⟩

/-- Prefix: cut off anywhere, neither machine has emitted anything the other does not emit. -/
theorem translate_prefix (env : Env) (hp : translateE blk numRegs fuse = .ok p) (ho : OnceOk blk env) :
    (∀ f', ∃ f, C01.traceOf (Ir.run blk false 0 f env) = C07.traceOfBc (Bc.run p false 0 f' env)) ∧
    (∀ f, ∃ f', C07.traceOfBc (Bc.run p false 0 f' env) = C01.traceOf (Ir.run blk false 0 f env)) := by
  obtain ⟨p0, hp0, hB⟩ := translate_behEqIO hp
  have hE := emit_prefix env hp0 ho
  constructor
  · intro f'
    obtain ⟨f0, h0⟩ := (beh_transfer hB.2 false 0 env).2.2.2.2.2 f'
    obtain ⟨f, hf⟩ := hE.1 f0
    exact ⟨f, by rw [hf, h0]⟩
  · intro f
    obtain ⟨f0, h0⟩ := hE.2 f
    obtain ⟨f', hf'⟩ := (beh_transfer hB.1 false 0 env).2.2.2.2.2 f0
    exact ⟨f', by rw [← hf', h0]⟩

/-- The unlimited run of the translated program is never interrupted; and once the IR run terminates, the run of
the translated program is never `bad` (malformed bytecode), whatever the fuel.  (For IR runs that do NOT
terminate, `bad` is excluded by the contract checker: `C11.check_run_not_bad` under `BcWf.check p n = true`;
the simulation of the emission phase treats `bad` like divergence.) -/
theorem translate_never_interrupted (p : Bc.Program w) (f' : Nat) (env : Env) (c' : Bc.Cfg w) :
    Bc.run p false 0 f' env ≠ .interrupted c' := emit_never_interrupted p f' env c'

theorem translate_not_bad_of_terminates (env : Env) (hp : translateE blk numRegs fuse = .ok p)
    (ho : OnceOk blk env) {f : Nat} {c : Ir.Cfg w}
    (hc : Ir.run blk false 0 f env = .done c ∨ Ir.run blk false 0 f env = .stopped c)
    (f' : Nat) (c' : Bc.Cfg w) : Bc.run p false 0 f' env ≠ .bad c' := by
  intro hbad
  rw [emit_bc_run_unlimited] at hbad
  rcases hc with hc | hc
  · obtain ⟨f1, c1, h1, _⟩ := (translate_forward env hp ho).1 f c hc
    rw [emit_bc_run_unlimited] at h1
    have := emit_bc_run_det p false hbad h1 (by intro x; simp) (by intro x; simp)
    cases this
  · obtain ⟨f1, c1, h1, _⟩ := (translate_forward env hp ho).2 f c hc
    rw [emit_bc_run_unlimited] at h1
    have := emit_bc_run_det p false hbad h1 (by intro x; simp) (by intro x; simp)
    cases this

theorem translate_refines (env : Env) (hp : translateE blk numRegs fuse = .ok p) (ho : OnceOk blk env) :
    ((∀ f (c : Ir.Cfg w), Ir.run blk false 0 f env = .done c →
      ∃ f' c', Bc.run p false 0 f' env = .done c' ∧ c'.st.trace = c.st.trace ∧
        (∀ i, c'.st.tape.get i = c.st.tape.get i) ∧ c'.st.ptr = c.st.ptr ∧ c'.st.env = c.st.env) ∧
     (∀ f (c : Ir.Cfg w), Ir.run blk false 0 f env = .stopped c →
      ∃ f' c', Bc.run p false 0 f' env = .stopped c' ∧ c'.st.trace = c.st.trace ∧
        c'.st.ptr = c.st.ptr ∧ c'.st.env = c.st.env)) ∧
    ((∀ f' (c' : Bc.Cfg w), Bc.run p false 0 f' env = .done c' →
      ∃ f c, Ir.run blk false 0 f env = .done c ∧ c.st.trace = c'.st.trace ∧
        (∀ i, c.st.tape.get i = c'.st.tape.get i) ∧ c.st.ptr = c'.st.ptr ∧ c.st.env = c'.st.env) ∧
     (∀ f' (c' : Bc.Cfg w), Bc.run p false 0 f' env = .stopped c' →
      ∃ f c, Ir.run blk false 0 f env = .stopped c ∧ c.st.trace = c'.st.trace ∧
        c.st.ptr = c'.st.ptr ∧ c.st.env = c'.st.env)) ∧
    ((∀ f', ∃ f, C01.traceOf (Ir.run blk false 0 f env) = C07.traceOfBc (Bc.run p false 0 f' env)) ∧
     (∀ f, ∃ f', C07.traceOfBc (Bc.run p false 0 f' env) = C01.traceOf (Ir.run blk false 0 f env))) :=
  ⟨translate_forward env hp ho, translate_backward env hp ho, translate_prefix env hp ho⟩

theorem translate_refines_noOnce (env : Env) (hp : translateE blk numRegs fuse = .ok p) (hn : NoOnce blk) :
    ((∀ f (c : Ir.Cfg w), Ir.run blk false 0 f env = .done c →
      ∃ f' c', Bc.run p false 0 f' env = .done c' ∧ c'.st.trace = c.st.trace ∧
        (∀ i, c'.st.tape.get i = c.st.tape.get i) ∧ c'.st.ptr = c.st.ptr ∧ c'.st.env = c.st.env) ∧
     (∀ f (c : Ir.Cfg w), Ir.run blk false 0 f env = .stopped c →
      ∃ f' c', Bc.run p false 0 f' env = .stopped c' ∧ c'.st.trace = c.st.trace ∧
        c'.st.ptr = c.st.ptr ∧ c'.st.env = c.st.env)) ∧
    ((∀ f' (c' : Bc.Cfg w), Bc.run p false 0 f' env = .done c' →
      ∃ f c, Ir.run blk false 0 f env = .done c ∧ c.st.trace = c'.st.trace ∧
        (∀ i, c.st.tape.get i = c'.st.tape.get i) ∧ c.st.ptr = c'.st.ptr ∧ c.st.env = c'.st.env) ∧
     (∀ f' (c' : Bc.Cfg w), Bc.run p false 0 f' env = .stopped c' →
      ∃ f c, Ir.run blk false 0 f env = .stopped c ∧ c.st.trace = c'.st.trace ∧
        c.st.ptr = c'.st.ptr ∧ c.st.env = c'.st.env)) ∧
    ((∀ f', ∃ f, C01.traceOf (Ir.run blk false 0 f env) = C07.traceOfBc (Bc.run p false 0 f' env)) ∧
     (∀ f, ∃ f', C07.traceOfBc (Bc.run p false 0 f' env) = C01.traceOf (Ir.run blk false 0 f env))) :=
  translate_refines env hp (noOnce_onceOk hn env)

end Refine

end Chain
end Hpbf
