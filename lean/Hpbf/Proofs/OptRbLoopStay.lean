/-
Rebuild-round proofs, stage 2: one round of a non-moving child block inside its parent.
The parent's emitted memory `E` and the source memory `S` differ on a set `K` of cells that the child's code does
not read (cells with pending operations of the parent, cells whose pending operation was dropped because the child
overwrites them).  `child_round`: the source body from `S` and the child's code from `E` behave alike
(`ChildRep` at `S`, then the read footprint to move from `S` to `E`); afterwards the memories differ at most on the
cells of `K` that the child has not definitely written, and cells without `written` entry are unchanged on both
sides.
-/
import Hpbf.Proofs.OptRbLoopShift
import Hpbf.Proofs.OptRbPhys

namespace Hpbf
namespace OptProof
open Opt OptSem Ir

variable {w : Nat}

/-- What the parent needs of a non-moving child (after the child's own `emitAll`). -/
structure ChildOk (Gc : State w → Prop) (shP shC : Int) (pc : List (Rebuild w)) (sub0 sub1 : Rebuild w)
    (cS : Int) (bodyS : List (Instr w)) : Prop where
  rep : ChildRep Gc shP shC pc sub0 [] sub1 bodyS
  foot : FootStepV (ValidG Gc shP sub0 pc) sub0 sub1 sub1.insts
  badfoot : FootBadV (ValidG Gc shP sub0 pc) sub0 sub1 sub1.insts
  frame2 : FootFrameV (ValidG Gc shP sub0 pc) sub0 sub1 sub1.insts
  noShift : sub1.subShift = false
  pend : sub1.noReturn = false → sub1.pending = []
  w0 : sub0.written = []
  entry : ∀ σE σS : State w, SameMem shP σS σE → σS.rd cS ≠ 0#w → Gc σS → ∃ M0, RelAt shP sub0 pc M0 σE σS

/-- End-state relation of one round. -/
def RoundQ (shC : Int) (K : Int → Prop) (sub1 : Rebuild w) (σS' σE' : State w) (a b : State w) : Prop :=
  a.trace = b.trace ∧ a.env = b.env ∧ a.ptr = b.ptr + shC ∧ b.ptr = σE'.ptr ∧
  (∀ v, ¬ Rest K sub1 v → memS b a v = memE b v) ∧
  (∀ v, mGet sub1.written v = none → memE b v = memE σE' v ∧ memS b a v = memS σE' σS' v) ∧
  (∀ v e c, mGet sub1.written v = some (.known e) → Expr.constant e = some c → ¬ K v → memE b v = c)

theorem rest_fresh {K : Int → Prop} {sub0 : Rebuild w} (h : sub0.written = []) (v : Int) :
    Rest K sub0 v ↔ K v := by
  unfold Rest DefW
  rw [h]
  simp [mGet]

theorem child_round {Gc : State w → Prop} {shP shC cS : Int} {pc : List (Rebuild w)} {sub0 sub1 : Rebuild w}
    {bodyS : List (Instr w)} (hc : ChildOk Gc shP shC pc sub0 sub1 cS bodyS)
    (K : Int → Prop) (hK : ∀ v, K v → v ∉ sub1.reads) (hKc : ¬ K (cS + shP)) {σS' σE' : State w}
    (htr : σS'.trace = σE'.trace) (henv : σS'.env = σE'.env) (hptr : σS'.ptr = σE'.ptr + shP)
    (hag : ∀ v, ¬ K v → memS σE' σS' v = memE σE' v) (hne : σS'.rd cS ≠ 0#w) (hg : Gc σS') :
    Sim (RoundQ shC K sub1 σS' σE') bodyS sub1.insts σS' σE' ∧ ¬ Bad sub1.insts σE' := by
  -- the source state re-coordinated: same tape, pointer of the emitted program
  have hX : ∃ σX : State w, σX = σS'.mov (-shP) := ⟨_, rfl⟩
  obtain ⟨σX, hσX⟩ := hX
  have hXptr : σX.ptr = σE'.ptr := by
    rw [hσX]; show σS'.ptr + -shP = σE'.ptr; rw [hptr]; omega
  have hXtape : σX.tape = σS'.tape := by rw [hσX]; rfl
  have hsm : SameMem shP σS' σX := by
    refine ⟨by rw [hσX]; rfl, by rw [hσX]; rfl, by rw [hXptr]; exact hptr, ?_⟩
    funext v
    show σS'.tape.get (σX.ptr + v) = σX.tape.get (σX.ptr + v)
    rw [hXtape]
  obtain ⟨M0c, hre⟩ := hc.entry σX σS' hsm hne hg
  obtain ⟨hs1, hnbX⟩ := hc.rep M0c σX σS' hre hg
  have hagX : AgreeOff (Rest K sub0) σX σE' := by
    refine ⟨hXptr, by rw [hσX]; exact henv, by rw [hσX]; exact htr, ?_⟩
    intro v hv
    have hkv : ¬ K v := fun hk => hv ((rest_fresh hc.w0 v).2 hk)
    have := hag v hkv
    show σX.tape.get (σX.ptr + v) = _
    rw [hXtape, hXptr]; exact this
  have hvX : ValidG Gc shP sub0 pc σX := ⟨M0c, σS', hre, hg⟩
  have hs2 := hc.foot hc.noShift K hK σX σE' hvX hagX
  refine ⟨?_, fun hb => hnbX (hc.badfoot hc.noShift K hK σX σE' hvX hagX hb)⟩
  refine (Sim.trans hs1.fin_strengthen hs2.fin_strengthen).mono ?_
  rintro a b ⟨y, ⟨⟨M0', hr', hk'⟩, _, hy⟩, hab, _, hb⟩
  have hp1 : sub1.pending = [] := hc.pend hr'.nr
  have hsm' := hr'.sameMem hp1
  obtain ⟨hM0, pyp⟩ := hk' hc.noShift
  obtain ⟨pb, fb⟩ := hc.frame2 hc.noShift K hK σX σE' hvX hagX b hb
  have hyb : y.ptr = b.ptr := hab.1
  have hmS : ∀ v, memS b a v = memE y v := by
    intro v
    show a.tape.get (b.ptr + v) = _
    rw [← hyb]
    exact congrFun hsm'.2.2.2 v
  -- the valid run leaves cells without `written` entry unchanged
  have fy : ∀ v, mGet sub1.written v = none → memE y v = memE σX v := by
    intro v hv
    have h1 := hr'.inv.writ.absent hv
    have h2 : memE σX v = M0c v := by
      have := hre.inv.writ v
      rw [hc.w0] at this
      exact this
    rw [h1, hM0, h2]
  have hXE : ∀ v, memE σX v = memS σE' σS' v := by
    intro v
    show σX.tape.get (σX.ptr + v) = σS'.tape.get (σE'.ptr + v)
    rw [hXtape, hXptr]
  refine ⟨hr'.tr.trans hab.2.2.1, hr'.env.trans hab.2.1, by rw [← hyb]; exact hr'.ptr, pb, ?_, ?_, ?_⟩
  · intro v hv
    rw [hmS v]; exact hab.2.2.2 v hv
  · intro v hv
    have hyv : memS b a v = memS σE' σS' v := by rw [hmS v, fy v hv, hXE v]
    refine ⟨?_, hyv⟩
    by_cases hr : v ∈ sub1.reads
    · -- read cells agree in both runs
      have hkv : ¬ K v := fun hk => hK v hk hr
      have hnr : ¬ Rest K sub1 v := fun h => hkv h.1
      rw [← hab.2.2.2 v hnr, fy v hv, hXE v]
      exact hag v hkv
    · -- other cells are untouched
      exact fb v ((mGet_none_iff _ _).1 hv) hr
  · intro v e c hv hcst hkv
    have hnr : ¬ Rest K sub1 v := fun h => hkv h.1
    rw [← hab.2.2.2 v hnr, hr'.inv.writ.known hv]
    exact Expr.eval_constant e c _ hcst

/-! ### refinements of `removePending` / `clobber`: nothing is dropped when nothing is pending -/

theorem removePending_of_none {s : Rebuild w} {var : Int} (h : mGet s.pending var = none) :
    (removePending s var).1 = s := by
  rw [removePending_eq, h]

/-- `clobber` of a cell whose pending operation is not dropped (`maybe`, or nothing pending): the invariant
modulo `D` is preserved without adding the cell to `D`. -/
theorem clobber_keep {s : Rebuild w} (ps : List (Rebuild w)) (hwf : Wf s) (var : Int) (maybe : Bool)
    (hkeep : maybe = true ∨ mGet s.pending var = none)
    {os os' : Orders} {s' : Rebuild w} (hr : (clobber s ps var maybe).run os = .ok (s', os')) :
    ∃ comps, s'.insts = s.insts ++ comps.map Ir.Instr.calc ∧
      (∀ (D : Int → Prop) M0 E S, MInvX D s ps M0 E S → MInvX D s' ps M0 (Mem.seq comps E) S) := by
  unfold clobber at hr
  rw [run_bind_ok] at hr
  obtain ⟨⟨s2, toEmit⟩, os1, h1, h2⟩ := hr
  rw [run_pure] at h2
  cases h2
  have hs0 : (if !maybe then (removePending s var).1 else s) = s := by
    rcases hkeep with h | h
    · rw [h]; rfl
    · cases maybe with
      | true => rfl
      | false => exact removePending_of_none h
  rw [hs0] at h1
  obtain ⟨r, _, _⟩ := gatherEmit_res ps hwf var h1
  have hk : ∀ e, (if maybe then OptWrite.maybe else OptWrite.unknown : OptWrite w) ≠ .known e := by
    intro e; split <;> simp
  refine ⟨toEmit, ?_, ?_⟩
  · rw [(insertWritten_same _ var _).2.2.2.2.2.2.2.2.2.1, r.insts]
  · intro D M0 E S hi
    exact (hi.emit r).insertWritten var _ hk

theorem calc_map_inj {a b : List (List (Int × Expr w))} (h : a.map Instr.calc = b.map Instr.calc) : a = b := by
  induction a generalizing b with
  | nil => cases b <;> simp_all
  | cons x a ih =>
    cases b with
    | nil => simp at h
    | cons y b =>
      simp only [List.map_cons, List.cons.injEq, Instr.calc.injEq] at h
      rw [h.1, ih h.2]

/-- What a sequence of `clobber`s (and the like) establishes. -/
structure ClobRes (ps : List (Rebuild w)) (s s' : Rebuild w) (comps : List (List (Int × Expr w))) : Prop where
  wf : Wf s'
  insts : s'.insts = s.insts ++ comps.map Ir.Instr.calc
  nodup : ∀ g ∈ comps, (g.map (·.1)).Nodup
  hdr : SameHdr s s'
  noRet : s'.noReturn = s.noReturn
  subAnal : s'.subAnal = s.subAnal
  sub : ∀ k e, mGet s'.pending k = some e → mGet s.pending k = some e
  dead : ∀ v, Dead s v → Dead s' v

theorem ClobRes.refl (ps : List (Rebuild w)) {s : Rebuild w} (h : Wf s) : ClobRes ps s s [] :=
  ⟨h, by simp, by simp, SameHdr.refl s, rfl, rfl, fun _ _ h => h, fun _ h => h⟩

theorem ClobRes.trans {ps : List (Rebuild w)} {a b c : Rebuild w} {c1 c2 : List (List (Int × Expr w))}
    (h1 : ClobRes ps a b c1) (h2 : ClobRes ps b c c2) : ClobRes ps a c (c1 ++ c2) := by
  refine ⟨h2.wf, by rw [h2.insts, h1.insts]; simp, ?_, h1.hdr.trans h2.hdr, h2.noRet.trans h1.noRet,
    h2.subAnal.trans h1.subAnal, fun k e h => h1.sub k e (h2.sub k e h), fun v h => h2.dead v (h1.dead v h)⟩
  intro g hg
  rcases List.mem_append.1 hg with h | h
  · exact h1.nodup g h
  · exact h2.nodup g h

theorem EmitRes.clobRes {ps : List (Rebuild w)} {s s' : Rebuild w} {comps : List (List (Int × Expr w))}
    (h : EmitRes ps s s' comps) : ClobRes ps s s' comps :=
  ⟨h.wf, h.insts, h.nodup, h.hdr, h.noRet, h.subAnal, h.sub, fun _ hd => Dead.emit h hd⟩

theorem clobber_clobRes {s : Rebuild w} (ps : List (Rebuild w)) (hwf : Wf s) (var : Int) (maybe : Bool)
    {os os' : Orders} {s' : Rebuild w} (hr : (clobber s ps var maybe).run os = .ok (s', os')) :
    ∃ comps, ClobRes ps s s' comps ∧ Dead s' var ∧
      ((maybe = true ∨ mGet s.pending var = none) →
        ∀ (D : Int → Prop) M0 E S, MInvX D s ps M0 E S → MInvX D s' ps M0 (Mem.seq comps E) S) := by
  obtain ⟨comps, c1, c2, c3, c4, c5, c6, c7, c8, c9, _⟩ := clobber_spec ps hwf var maybe hr
  refine ⟨comps, ⟨c1, c2, c3, c4, c5, c6, c7, c9⟩, c8, ?_⟩
  intro hkeep
  obtain ⟨comps', e1, e2⟩ := clobber_keep ps hwf var maybe hkeep hr
  have : comps' = comps := by
    apply calc_map_inj
    have := e1.symm.trans c2
    exact List.append_cancel_left this
  rw [this] at e2
  exact e2

/-- `clobberAll` when no pending operation is dropped any more. -/
theorem clobberAll_res (ps : List (Rebuild w)) (cl : List (Int × Bool)) {s : Rebuild w} (hwf : Wf s)
    (hkeep : ∀ vb ∈ cl, vb.2 = true ∨ mGet s.pending vb.1 = none)
    {os os' : Orders} {s' : Rebuild w} (hr : (clobberAll ps cl s).run os = .ok (s', os')) :
    ∃ comps, ClobRes ps s s' comps ∧ (∀ vb ∈ cl, Dead s' vb.1) ∧
      (∀ (D : Int → Prop) M0 E S, MInvX D s ps M0 E S → MInvX D s' ps M0 (Mem.seq comps E) S) := by
  induction cl generalizing s os with
  | nil =>
    unfold clobberAll at hr
    rw [List.foldlM_nil, run_pure] at hr
    cases hr
    exact ⟨[], ClobRes.refl ps hwf, fun _ h => absurd h (by simp), fun _ _ _ _ h => h⟩
  | cons vb rest ih =>
    unfold clobberAll at hr
    rw [List.foldlM_cons, run_bind_ok] at hr
    obtain ⟨s1, os1, h1, h2⟩ := hr
    obtain ⟨c1, r1, d1, k1⟩ := clobber_clobRes ps hwf vb.1 vb.2 h1
    have hkeep' : ∀ vb' ∈ rest, vb'.2 = true ∨ mGet s1.pending vb'.1 = none := by
      intro vb' hvb'
      rcases hkeep vb' (List.mem_cons_of_mem _ hvb') with h | h
      · exact Or.inl h
      · right
        cases hp : mGet s1.pending vb'.1 with
        | none => rfl
        | some e => rw [r1.sub _ e hp] at h; cases h
    obtain ⟨c2, r2, d2, k2⟩ := ih r1.wf hkeep' (show (clobberAll ps rest s1).run os1 = _ from h2)
    refine ⟨c1 ++ c2, r1.trans r2, ?_, ?_⟩
    · intro vb' hvb'
      rcases List.mem_cons.1 hvb' with rfl | h
      · exact r2.dead _ d1
      · exact d2 vb' h
    · intro D M0 E S hi
      rw [seq_append]
      exact k2 D M0 _ S (k1 (hkeep vb (by simp)) D M0 E S hi)

/-! ### the `clobber` phase of `loopOrIf` -/

/-- The fold of `clobberPhase` over the child's `written` map. -/
def cfold (L : OptLoop w) (C : List Int) (acc : Rebuild w × List (Int × Bool)) (vk : Int × OptWrite w) :
    Rebuild w × List (Int × Bool) :=
  if !C.contains vk.1 then
    if vk.2.isMaybe || !L.atLeastOnce then (acc.1, acc.2 ++ [(vk.1, true)])
    else ((removePending acc.1 vk.1).1, acc.2 ++ [(vk.1, false)])
  else acc

theorem clobberPhase_eq (s : Rebuild w) (ps : List (Rebuild w)) (sub : Rebuild w) (L : OptLoop w) (C : List Int) :
    clobberPhase s ps sub L C =
      if !L.noEffect then
        clobberAll ps (Expr.stableSort (fun (a b : Int × Bool) => decide (a.1 ≤ b.1))
          (sub.written.foldl (cfold L C) (s, [])).2) (sub.written.foldl (cfold L C) (s, [])).1
      else pure s := rfl

/-- The cells whose pending operation the fold drops. -/
def DropL (L : OptLoop w) (C : List Int) (l : List (Int × OptWrite w)) (s0 : Rebuild w) (v : Int) : Prop :=
  ∃ vk ∈ l, vk.1 = v ∧ C.contains v = false ∧ (vk.2.isMaybe || !L.atLeastOnce) = false ∧
    mGet s0.pending v ≠ none

theorem cfold_spec (ps : List (Rebuild w)) (L : OptLoop w) (C : List Int) (l : List (Int × OptWrite w))
    (acc : Rebuild w × List (Int × Bool)) (hwf : Wf acc.1) :
    Wf (l.foldl (cfold L C) acc).1 ∧ SameButPend acc.1 (l.foldl (cfold L C) acc).1 ∧
    (∀ k e, mGet (l.foldl (cfold L C) acc).1.pending k = some e → mGet acc.1.pending k = some e) ∧
    (∀ vb, vb ∈ (l.foldl (cfold L C) acc).2 ↔
      vb ∈ acc.2 ∨ ∃ vk ∈ l, C.contains vk.1 = false ∧ vb = (vk.1, vk.2.isMaybe || !L.atLeastOnce)) ∧
    ((∀ vb ∈ acc.2, vb.2 = true ∨ mGet acc.1.pending vb.1 = none) →
      ∀ vb ∈ (l.foldl (cfold L C) acc).2, vb.2 = true ∨ mGet (l.foldl (cfold L C) acc).1.pending vb.1 = none) ∧
    (∀ (D : Int → Prop) M0 E S, MInvX D acc.1 ps M0 E S →
      MInvX (fun v => D v ∨ DropL L C l acc.1 v) (l.foldl (cfold L C) acc).1 ps M0 E S) ∧
    (∀ v, Dead acc.1 v → Dead (l.foldl (cfold L C) acc).1 v) := by
  induction l generalizing acc with
  | nil =>
    refine ⟨hwf, SameButPend.refl _, fun _ _ h => h, fun vb => by simp, fun h => h, ?_, fun _ h => h⟩
    intro D M0 E S hi
    exact hi.mono (fun v h => Or.inl h)
  | cons vk l ih =>
    simp only [List.foldl_cons]
    -- one step
    have hstep : Wf (cfold L C acc vk).1 ∧ SameButPend acc.1 (cfold L C acc vk).1 ∧
        (∀ k e, mGet (cfold L C acc vk).1.pending k = some e → mGet acc.1.pending k = some e) := by
      unfold cfold
      split
      · split
        · exact ⟨hwf, SameButPend.refl _, fun _ _ h => h⟩
        · refine ⟨removePending_wf hwf _, removePending_same _ _, ?_⟩
          intro k e h
          rw [removePending_get hwf] at h
          split at h
          · cases h
          · exact h
      · exact ⟨hwf, SameButPend.refl _, fun _ _ h => h⟩
    obtain ⟨s1, s2, s3⟩ := hstep
    obtain ⟨i1, i2, i3, i4, i5, i6, i7⟩ := ih (cfold L C acc vk) s1
    refine ⟨i1, s2.trans i2, fun k e h => s3 k e (i3 k e h), ?_, ?_, ?_, ?_⟩
    · intro vb
      rw [i4 vb]
      have hacc2 : vb ∈ (cfold L C acc vk).2 ↔
          vb ∈ acc.2 ∨ (C.contains vk.1 = false ∧ vb = (vk.1, vk.2.isMaybe || !L.atLeastOnce)) := by
        unfold cfold
        cases hC : C.contains vk.1 with
        | true => simp
        | false =>
          simp only [Bool.not_false, if_true]
          cases hm : (vk.2.isMaybe || !L.atLeastOnce) with
          | true => simp
          | false => simp
      rw [hacc2]
      simp only [List.mem_cons, exists_eq_or_imp]
      constructor
      · rintro ((h | h) | h)
        · exact Or.inl h
        · exact Or.inr (Or.inl h)
        · exact Or.inr (Or.inr h)
      · rintro (h | h | h)
        · exact Or.inl (Or.inl h)
        · exact Or.inl (Or.inr h)
        · exact Or.inr h
    · intro hk
      apply i5
      intro vb hvb
      unfold cfold at hvb ⊢
      cases hC : C.contains vk.1 with
      | true =>
        simp only [hC, Bool.not_true, Bool.false_eq_true, if_false] at hvb ⊢
        exact hk vb hvb
      | false =>
        simp only [hC, Bool.not_false, if_true] at hvb ⊢
        cases hm : (vk.2.isMaybe || !L.atLeastOnce) with
        | true =>
          simp only [hm, if_true, List.mem_append, List.mem_singleton] at hvb ⊢
          rcases hvb with h | h
          · exact hk vb h
          · rw [h]; exact Or.inl rfl
        | false =>
          simp only [hm, Bool.false_eq_true, if_false, List.mem_append, List.mem_singleton] at hvb ⊢
          rcases hvb with h | h
          · rcases hk vb h with h' | h'
            · exact Or.inl h'
            · right
              rw [removePending_get hwf, h']; simp
          · rw [h]
            right
            rw [removePending_get hwf]; simp
    · intro D M0 E S hi
      have h1 : MInvX (fun v => D v ∨ DropL L C [vk] acc.1 v) (cfold L C acc vk).1 ps M0 E S := by
        unfold cfold
        cases hC : C.contains vk.1 with
        | true =>
          simp only [Bool.not_true, Bool.false_eq_true, if_false]
          exact hi.mono (fun v h => Or.inl h)
        | false =>
          simp only [Bool.not_false, if_true]
          cases hm : (vk.2.isMaybe || !L.atLeastOnce) with
          | true =>
            simp only [if_true]
            exact hi.mono (fun v h => Or.inl h)
          | false =>
            simp only [Bool.false_eq_true, if_false]
            cases hp : mGet acc.1.pending vk.1 with
            | none =>
              rw [removePending_of_none hp]
              exact hi.mono (fun v h => Or.inl h)
            | some e =>
              refine (hi.removePending hwf vk.1).mono ?_
              rintro v (h | h)
              · exact Or.inl h
              · right
                refine ⟨vk, by simp, h.symm, by rw [h]; exact hC, hm, ?_⟩
                rw [h, hp]; simp
      refine (i6 _ M0 E S h1).mono ?_
      rintro v ((h | ⟨vk', hvk', e1, e2, e3, e4⟩) | ⟨vk', hvk', e1, e2, e3, e4⟩)
      · exact Or.inl h
      · simp only [List.mem_singleton] at hvk'
        subst hvk'
        exact Or.inr ⟨vk', by simp, e1, e2, e3, e4⟩
      · refine Or.inr ⟨vk', by simp [hvk'], e1, e2, e3, ?_⟩
        intro hn
        apply e4
        cases hp : mGet (cfold L C acc vk).1.pending v with
        | none => rfl
        | some e => rw [s3 v e hp] at hn; cases hn
    · intro v hd
      apply i7
      obtain ⟨d1, d2, d3⟩ := hd
      refine ⟨?_, fun u e hu => d2 u e (s3 u e hu), by rw [s2.2.2.2.2.2.2.2.1]; exact d3⟩
      cases hp : mGet (cfold L C acc vk).1.pending v with
      | none => rfl
      | some e => rw [s3 v e hp] at d1; cases d1

theorem clobberPhase_res {s : Rebuild w} (ps : List (Rebuild w)) (sub : Rebuild w) (L : OptLoop w)
    (C : List Int) (hwf : Wf s) {os os' : Orders} {s' : Rebuild w}
    (hr : (clobberPhase s ps sub L C).run os = .ok (s', os')) :
    ∃ comps, ClobRes ps s s' comps ∧
      (L.noEffect = false → ∀ vk ∈ sub.written, C.contains vk.1 = false → Dead s' vk.1) ∧
      (∀ (D : Int → Prop) M0 E S, MInvX D s ps M0 E S →
        MInvX (fun v => D v ∨ (L.noEffect = false ∧ DropL L C sub.written s v)) s' ps M0 (Mem.seq comps E) S) := by
  rw [clobberPhase_eq] at hr
  cases hne : L.noEffect with
  | true =>
    rw [hne] at hr
    simp only [Bool.not_true, Bool.false_eq_true, if_false] at hr
    rw [run_pure] at hr
    cases hr
    refine ⟨[], ClobRes.refl ps hwf, fun h => Bool.noConfusion h, ?_⟩
    intro D M0 E S hi
    exact hi.mono (fun v h => Or.inl h)
  | false =>
    rw [hne] at hr
    simp only [Bool.not_false, if_true] at hr
    obtain ⟨i1, i2, i3, i4, i5, i6, i7⟩ := cfold_spec ps L C sub.written (s, []) hwf
    have hperm := Expr.stableSort_perm (fun (a b : Int × Bool) => decide (a.1 ≤ b.1))
      (sub.written.foldl (cfold L C) (s, [])).2
    have hkeep := i5 (fun vb h => by cases h)
    obtain ⟨comps, r, d, k⟩ := clobberAll_res ps _ i1
      (fun vb hvb => hkeep vb (hperm.mem_iff.1 hvb)) hr
    have r0 : ClobRes ps s (sub.written.foldl (cfold L C) (s, [])).1 [] :=
      ⟨i1, by rw [i2.2.2.2.2.2.2.2.2.1]; simp, by simp, i2.hdr, i2.2.2.2.2.2.1, i2.2.2.2.2.2.2.2.2.2, i3, i7⟩
    refine ⟨comps, by simpa using r0.trans r, ?_, ?_⟩
    · intro _ vk hvk hC
      apply d (vk.1, vk.2.isMaybe || !L.atLeastOnce)
      rw [hperm.mem_iff, i4]
      exact Or.inr ⟨vk, hvk, hC, rfl⟩
    · intro D M0 E S hi
      refine (k _ M0 E S (i6 D M0 E S hi)).mono ?_
      rintro v (h | h)
      · exact Or.inl h
      · exact Or.inr ⟨rfl, h⟩

theorem emitReadAll_pending_none (ps : List (Rebuild w)) (vars : List Int) {s : Rebuild w} (hwf : Wf s)
    {os os' : Orders} {s' : Rebuild w} (hr : (emitReadAll ps vars s).run os = .ok (s', os')) :
    ∃ comps, EmitRes ps s s' comps ∧ ∀ v ∈ vars, mGet s'.pending v = none := by
  induction vars generalizing s os with
  | nil =>
    unfold emitReadAll at hr
    rw [List.foldlM_nil, run_pure] at hr
    cases hr
    exact ⟨[], EmitRes.refl ps hwf, fun _ h => absurd h (by simp)⟩
  | cons v rest ih =>
    unfold emitReadAll at hr
    rw [List.foldlM_cons, run_bind_ok] at hr
    obtain ⟨s1, os1, h1, h2⟩ := hr
    rw [run_bind_ok] at h1
    obtain ⟨s0, os0, h3, h4⟩ := h1
    rw [run_pure] at h4
    cases h4
    obtain ⟨c1, r1', hn1'⟩ := emit_res ps hwf v h3
    have hsr := read_same s0 v
    have r1 : EmitRes ps s (Opt.read s0 v) c1 := r1'.of_sameButReads hsr
    have hn1 : mGet (Opt.read s0 v).pending v = none := by rw [hsr.2.2.2.2.2.2.2.1]; exact hn1'
    obtain ⟨c2, r2, hn2⟩ := ih r1.wf (show (emitReadAll ps rest (Opt.read s0 v)).run os1 = _ from h2)
    refine ⟨c1 ++ c2, r1.trans r2, ?_⟩
    intro v' hv'
    rcases List.mem_cons.1 hv' with rfl | hv'
    · cases hp : mGet s'.pending v' with
      | none => rfl
      | some e => rw [r2.sub v' e hp] at hn1; cases hn1
    · exact hn2 v' hv'

/-- The set of cells whose pending operation was dropped by the parent before a non-moving loop. -/
structure DropOk (L : OptLoop w) (C : List Int) (sub1 : Rebuild w) (cond : Int) (Dx : Int → Prop) : Prop where
  written : ∀ v, Dx v → ∃ k, (v, k) ∈ sub1.written ∧ k.isMaybe = false
  notConst : ∀ v, Dx v → C.contains v = false
  alo : ∀ v, Dx v → L.atLeastOnce = true
  effect : ∀ v, Dx v → L.noEffect = false
  notRead : ∀ v, Dx v → v ∉ sub1.reads ∧ v ≠ cond

/-- The parent's preparation for a non-moving child: everything the child reads is materialized, the cells it
writes are clobbered (constant ones: materialized). -/
theorem loopPrep_stay {s : Rebuild w} {ps : List (Rebuild w)} {sub1 : Rebuild w} {cond : Int} {L : OptLoop w}
    {C : List Int} (hwf : Wf s) (hns : (sub1.subShift || sub1.shift != s.shift) = false)
    {os os' : Orders} {r : Rebuild w × Rebuild w × List Int}
    (hr : (loopPrep s ps sub1 cond L C).run os = .ok (r, os')) :
    ∃ s3 comps Dx,
      r = (condZero s3 { sub1 with reads := sIns sub1.reads cond } cond,
        { sub1 with reads := sIns sub1.reads cond }, (mKeys sub1.written).filter (fun var => !C.contains var)) ∧
      ClobRes ps s s3 comps ∧ DropOk L C sub1 cond Dx ∧
      (∀ v, (v ∈ sub1.reads ∨ v = cond) → mGet s3.pending v = none) ∧
      (∀ v ∈ mKeys sub1.written, C.contains v = true → mGet s3.pending v = none) ∧
      (L.noEffect = false → ∀ vk ∈ sub1.written, C.contains vk.1 = false → Dead s3 vk.1) ∧
      (∀ M0 E S, MInv s ps M0 E S → MInvX Dx s3 ps M0 (Mem.seq comps E) S) := by
  unfold loopPrep at hr
  rw [if_neg (by rw [hns]; simp), run_bind_ok] at hr
  obtain ⟨s1, os1, h1, h2⟩ := hr
  rw [run_bind_ok] at h2
  obtain ⟨s2, os2, h3, h4⟩ := h2
  rw [run_bind_ok] at h4
  obtain ⟨s3, os3, h5, h6⟩ := h4
  rw [run_pure] at h6
  cases h6
  obtain ⟨c1, r1, n1⟩ := emitReadAll_pending_none ps _ hwf h1
  obtain ⟨c2, r2, n2⟩ := emitReadAll_pending_none ps _ r1.wf h3
  obtain ⟨c3, r3, d3, k3⟩ := clobberPhase_res ps { sub1 with reads := sIns sub1.reads cond } L C r2.wf h5
  have hreads : ∀ v, (v ∈ sub1.reads ∨ v = cond) → mGet s2.pending v = none := by
    intro v hv
    have hmem : v ∈ readsSorted { sub1 with reads := sIns sub1.reads cond } s := by
      unfold readsSorted
      rw [(Expr.stableSort_perm _ _).mem_iff]
      show v ∈ sIns sub1.reads cond
      rw [mem_sIns]
      rcases hv with h | h
      · exact Or.inr h
      · exact Or.inl h
    cases hp : mGet s2.pending v with
    | none => rfl
    | some e =>
      have := n1 v hmem
      rw [r2.sub v e hp] at this; cases this
  refine ⟨s3, c1 ++ c2 ++ c3, fun v => L.noEffect = false ∧
      DropL L C sub1.written s2 v, rfl, (r1.clobRes.trans r2.clobRes).trans r3, ?_, ?_, ?_, ?_, ?_⟩
  · refine ⟨?_, ?_, ?_, ?_, ?_⟩
    · rintro v ⟨_, vk, hvk, e1, _, e3, _⟩
      refine ⟨vk.2, by rw [← e1]; exact hvk, ?_⟩
      cases hm : vk.2.isMaybe with
      | false => rfl
      | true => rw [hm] at e3; simp at e3
    · rintro v ⟨_, vk, _, _, e2, _, _⟩; exact e2
    · rintro v ⟨_, vk, _, _, _, e3, _⟩
      cases ha : L.atLeastOnce with
      | true => rfl
      | false => rw [ha] at e3; simp at e3
    · rintro v ⟨h, _⟩; exact h
    · rintro v ⟨_, vk, _, _, _, _, e4⟩
      refine ⟨fun h => e4 (hreads v (Or.inl h)), fun h => e4 (hreads v (Or.inr h))⟩
  · intro v hv
    cases hp : mGet s3.pending v with
    | none => rfl
    | some e =>
      have := hreads v hv
      rw [r3.sub v e hp] at this; cases this
  · intro v hv hC
    have hmem : v ∈ (mKeys sub1.written).filter (fun var => C.contains var) := by
      rw [List.mem_filter]; exact ⟨hv, hC⟩
    cases hp : mGet s3.pending v with
    | none => rfl
    | some e =>
      have := n2 v hmem
      rw [r3.sub v e hp] at this; cases this
  · exact d3
  · intro M0 E S hi
    have h1' := (r1.minv hi)
    have h2' := (r2.minv h1')
    have := k3 (fun _ => False) M0 _ S (h2'.toX _)
    rw [seq_append, seq_append]
    exact this.mono (fun v h => by
      rcases h with h | h
      · exact absurd h id
      · exact h)

end OptProof
end Hpbf
