/-
C03 (control flow), stage 2: `brz` / `brnz`, unlimited and limited (`emit_limit_check`).
-/
import Hpbf.Proofs.C03FlowExit
namespace Hpbf
namespace C03
open Asm JitGen X86Sem X86Prog
variable {w : Nat}

/-! ### The budget check of limited mode -/

theorem step_subRax1 {cfg : Cfg} {code : List X86} {rest : List X86} {s : PState w}
    (hat : At cfg code s.pc (.subRmImm (.reg scr0) 1 :: rest)) :
    ∃ z, step cfg s = .next { s with regs := s.regs.set .rax (s.regs.rax - 1), zf := z,
                                     pc := s.pc + (X86.subRmImm (.reg scr0) 1).size } := by
  rw [step_at hat]
  step_open (show (X86.subRmImm (.reg scr0) 1).fits = true by decide)
  have hexec : exec (.subRmImm (.reg .rax) 1) (view s) =
      some (((view s).setReg .rax (s.regs.rax - 1)).setFlags
        (some (alu .sub 64 (s.regs.rax) (immVal 1)).2.1) s.cf) := by
    have hf : (X86.subRmImm (.reg .rax) 1).fits = true := by decide
    simp only [exec, hf, if_true, execCore, aluRm, X86Sem.resolve, Option.bind_eq_bind, Option.bind_some,
      readPlace, writePlace, writeReg, reduceCtorEq, or_self, if_false, sizedWrite_b64, Size.bits]
    have : (alu Alu.sub 64 ((view s).regs Reg.rax) (immVal 1)).1 = s.regs.rax - 1 := by
      simp only [alu, trunc64, view]
      rfl
    rw [this]
    rfl
  simp only [scr0, reduceCtorEq, RegMem.reg.injEq, if_false, stepPlain, hexec, placeOf, rmOf,
    Option.bind_some, X86Sem.resolve]
  exact ⟨_, rfl⟩

/-- `emit_limit_check`, resolved at byte offset `pos`. -/
def limitCode (d : Int) : List X86 :=
  [mov64 scr0 (.mem (some cxt) none 1 24), .cmpRmImm8 .b64 (.reg scr0) 2, .jccRel32 .below d,
   .subRmImm (.reg scr0) 1, st64 (.mem (some cxt) none 1 24) scr0]

theorem Ctx.resolve_limitCheck (K : Ctx w) {pos : Nat} {its : List Item} {xs : List X86}
    (h : resolveItems (locsOf K.p K.C.body) K.term pos (limitCheck ++ its) = some xs)
    (hpos : pos + itemsSize limitCheck ≤ K.loc K.n) :
    ∃ d ys, xs = limitCode d ++ ys ∧ (pos : Int) + 14 + d = K.term ∧ (X86.jccRel32 .below d).fits = true ∧
      resolveItems (locsOf K.p K.C.body) K.term (pos + itemsSize limitCheck) its = some ys := by
  obtain ⟨a, b, h1, h2, h3⟩ := resolveItems_append _ _ _ h
  unfold limitCheck at h1
  obtain ⟨y1, e1, h1⟩ := resolveItems_plain_cons h1
  obtain ⟨y2, e2, h1⟩ := resolveItems_plain_cons h1
  obtain ⟨y3, y4, h4, h1, e3⟩ := resolveItems_cons _ _ _ h1
  obtain ⟨y5, e5, h1⟩ := resolveItems_plain_cons h1
  obtain ⟨y6, e6, h1⟩ := resolveItems_plain_cons h1
  have e7 := resolveItems_nil' h1
  have hsz : itemsSize limitCheck = 21 := by decide
  have s1 : (mov64 scr0 (.mem (some cxt) none 1 24)).size = 4 := by decide
  have s2 : (X86.cmpRmImm8 .b64 (.reg scr0) 2).size = 4 := by decide
  rw [s1, s2] at h4
  obtain ⟨d, hd, hd', hf⟩ := K.resolve_jccTerm h4 (by omega)
  refine ⟨d, b, ?_, ?_, hf, h2⟩
  · rw [h3, e1, e2, e3, hd, e5, e6, e7]; rfl
  · push_cast at hd'; omega

/-- Outcome of the budget check: with less than two units left the code jumps to the termination label
(the budget cell is left as it is); otherwise it stores the decremented budget. Only `rax` and the flags
change besides. -/
theorem limit_check {cfg : Cfg} {code : List X86} {d : Int} {rest : List X86} {s : PState w}
    (hat : At cfg code s.pc (limitCode d ++ rest)) (hrbx : s.regs.rbx = cfg.cxtAddr)
    (hf : (X86.jccRel32 .below d).fits = true) {t : Nat} (ht : (s.pc : Int) + 14 + d = t) :
    (s.budget.toNat < 2 → ∃ s', steps cfg 3 s = some s' ∧ s'.pc = t ∧ SameTmp s s' ∧ s'.budget = s.budget ∧
        s'.off = s.off) ∧
    (2 ≤ s.budget.toNat → ∃ s', steps cfg 5 s = some s' ∧ s'.pc = s.pc + 21 ∧ SameTmp s s' ∧
        s'.budget = s.budget - 1 ∧ s'.off = s.off) := by
  unfold limitCode at hat
  have hat0 := hat.take
  have h1 := step_loadCxt (v := s.budget) hat0 (by decide) hrbx (by simp [cxtField]) (by omega)
  obtain ⟨s1, hs1, e1⟩ : ∃ s1 : PState w, step cfg s = .next s1 ∧ s1 = _ := ⟨_, h1, rfl⟩
  have hat1 := hat0.tail
  have hp1 : s1.pc = s.pc + 4 := by rw [e1]; rfl
  rw [show s.pc + (mov64 scr0 (.mem (some cxt) none 1 24)).size = s1.pc by rw [hp1]; rfl] at hat1
  have h2 := step_cmpRegImm hat1 (by omega)
  obtain ⟨s2, hs2, e2⟩ : ∃ s2 : PState w, step cfg s1 = .next s2 ∧ s2 = _ := ⟨_, h2, rfl⟩
  have hat2 := hat1.tail
  have hp2 : s2.pc = s.pc + 8 := by rw [e2]; simp [PState.adv, cmpFlags, hp1]; rfl
  rw [show s1.pc + (X86.cmpRmImm8 .b64 (.reg scr0) 2).size = s2.pc by rw [hp2, hp1]; rfl] at hat2
  have hcf : s2.cf = some (decide (s.budget.toNat < 2)) := by
    rw [e2, e1]
    simp [PState.adv, cmpFlags, alu, trunc64, PState.setReg, scr0, immVal]
  have h3 := step_jcc_cf (t := t) hat2 hf hcf (by rw [hp2]; push_cast; omega)
  have k12 : SameTmp s s2 := by
    rw [e2, e1]
    refine ⟨fun r hr _ => ?_, rfl, rfl, rfl, rfl, rfl, rfl, rfl, rfl, rfl⟩
    simp [PState.adv, cmpFlags, PState.setReg, scr0, hr]
  have hb2 : s2.budget = s.budget ∧ s2.off = s.off := by rw [e2, e1]; exact ⟨rfl, rfl⟩
  have hrax2 : s2.regs.rax = s.budget := by
    rw [e2, e1]
    show (s.regs.set .rax s.budget).get .rax = _
    simp
  have hrbx2 : s2.regs.rbx = cfg.cxtAddr := by
    have := k12.regs .rbx (by decide) (by decide)
    exact this.trans hrbx
  constructor
  · intro hlt
    simp only [hlt, decide_true, if_true] at h3
    obtain ⟨s3, hs3, e3⟩ : ∃ s3 : PState w, step cfg s2 = .next s3 ∧ s3 = _ := ⟨_, h3, rfl⟩
    refine ⟨s3, by simp [steps, hs1, hs2, hs3], by rw [e3], k12.trans ?_, by rw [e3]; exact hb2.1,
      by rw [e3]; exact hb2.2⟩
    rw [e3]; exact ⟨fun _ _ _ => rfl, rfl, rfl, rfl, rfl, rfl, rfl, rfl, rfl, rfl⟩
  · intro hge
    have : ¬ s.budget.toNat < 2 := by omega
    simp only [this, decide_false, Bool.false_eq_true, if_false] at h3
    obtain ⟨s3, hs3, e3⟩ : ∃ s3 : PState w, step cfg s2 = .next s3 ∧ s3 = _ := ⟨_, h3, rfl⟩
    have hat3 := hat2.tail
    rw [show s2.pc + (X86.jccRel32 .below d).size = s3.pc by rw [e3]; simp] at hat3
    obtain ⟨z, h4⟩ := step_subRax1 hat3
    obtain ⟨s4, hs4, e4⟩ : ∃ s4 : PState w, step cfg s3 = .next s4 ∧ s4 = _ := ⟨_, h4, rfl⟩
    have hat4 := hat3.tail
    rw [show s3.pc + (X86.subRmImm (.reg scr0) 1).size = s4.pc by rw [e4]] at hat4
    have hrbx4 : s4.regs.rbx = cfg.cxtAddr := by
      rw [e4, e3]
      show (s2.regs.set .rax _).get .rbx = _
      simp; exact hrbx2
    have h5 := step_storeBudget hat4 hrbx4
    obtain ⟨s5, hs5, e5⟩ : ∃ s5 : PState w, step cfg s4 = .next s5 ∧ s5 = _ := ⟨_, h5, rfl⟩
    refine ⟨s5, by simp [steps, hs1, hs2, hs3, hs4, hs5], ?_, ?_, ?_, ?_⟩
    all_goals rw [e5]
    · rw [e4, e3]; simp [PState.adv, hp2]
      rw [show (X86.subRmImm (.reg scr0) 1).size = 3 by decide,
        show (st64 (.mem (some cxt) none 1 24) scr0).size = 4 by decide]
    · refine k12.trans ?_
      rw [e4, e3]
      refine ⟨fun r hr _ => ?_, rfl, rfl, rfl, rfl, rfl, rfl, rfl, rfl, rfl⟩
      simp [PState.adv, hr]
    · rw [e4, e3]
      simp only [PState.adv, scr0]
      show (s2.regs.set .rax (s2.regs.rax - 1)).get .rax = _
      simp [hrax2]
    · rw [e4, e3]; exact hb2.2


/-- The compare-and-branch pair. `taken` is whether the bytecode branch is taken. -/
theorem branch_tail {cfg : Cfg} {code : List X86} {sz : Size} (hsz : sz.bits = w) {idx : Int}
    (hidx : -2147483648 ≤ idx ∧ idx < 2147483648) {pr : JmpPred} {d : Int} {rest : List X86} {s : PState w}
    (hat : At cfg code s.pc ([cmpZero sz idx, .jccRel32 pr d] ++ rest))
    (hf1 : (cmpZero sz idx).fits = true) (hf2 : (X86.jccRel32 pr d).fits = true)
    (hpr : pr = .equal ∨ pr = .notEqual) {t : Nat}
    (ht : (s.pc : Int) + (cmpZero sz idx).size + 6 + d = t) :
    ∃ s', steps cfg 2 s = some s' ∧ SameBut s s' ∧
      s'.pc = if (decide ((view s).tape idx = 0#w) = (pr == .equal)) then t
              else s.pc + (cmpZero sz idx).size + 6 := by
  have hat0 := hat.take
  obtain ⟨s1, hs1, hz1, hp1, k1⟩ := step_cmpZero hsz hidx hat0 hf1
  have hat1 := hat0.tail
  rw [← hp1] at hat1
  have h2 := step_jcc_zf (t := t) hat1 hf2 hz1 hpr (by rw [hp1]; push_cast; omega)
  obtain ⟨s2, hs2, e2⟩ : ∃ s2 : PState w, step cfg s1 = .next s2 ∧ s2 = _ := ⟨_, h2, rfl⟩
  refine ⟨s2, by simp [steps, hs1, hs2], k1.trans ?_, ?_⟩
  · rw [e2]; exact ⟨rfl, rfl, rfl, ⟨rfl, rfl, rfl, rfl, rfl, rfl, rfl, rfl, rfl, rfl⟩⟩
  · rw [e2, hp1]

theorem mem_all_fits {its : List Item} (h : its.all Item.fits = true) {x : X86} (hx : Item.plain x ∈ its) :
    x.fits = true := by
  have := List.all_eq_true.1 h _ hx
  simpa [Item.fits] using this

/-- The branch instructions. -/
def isBr (ins : Bc.Instr w) (nz : Bool) (cond off : Int) : Prop :=
  (nz = false ∧ ins = .brz cond off) ∨ (nz = true ∧ ins = .brnz cond off)

theorem emit_branch {sz : Size} {limited safe : Bool} {minAcc maxAcc : Int} {aE aI aO i live : Nat}
    {ins : Bc.Instr w} {nz : Bool} {cond off : Int} (hbr : isBr ins nz cond off) {its : List Item}
    (h : emitInstr sz limited safe minAcc maxAcc aE aI aO i live ins = some its) :
    its = (if limited then limitCheck else []) ++
      [.plain (cmpZero sz cond), .jccInstr (if nz then .notEqual else .equal) ((i : Int) + off)] ∧
    (cmpZero sz cond).fits = true := by
  obtain ⟨hraw, hfit⟩ := emitInstr_raw h
  have : its = (if limited then limitCheck else []) ++
      [.plain (cmpZero sz cond), .jccInstr (if nz then .notEqual else .equal) ((i : Int) + off)] := by
    rcases hbr with ⟨rfl, rfl⟩ | ⟨rfl, rfl⟩ <;> simp [emitInstrRaw] at hraw <;> exact hraw.symm
  refine ⟨this, mem_all_fits hfit (by rw [this]; simp)⟩

/-- Bytecode side of a branch. -/
theorem step_branch {p : Bc.Program w} {limited : Bool} {c : Bc.Cfg w} {ins : Bc.Instr w} {nz : Bool}
    {cond off : Int} (hi : p.insts[c.pc]? = some ins) (hbr : isBr ins nz cond off) :
    Bc.step p limited c =
      match (if limited then Bc.charge c (some 1) else some c) with
      | none => .interrupted { c with budget := 0 }
      | some c1 =>
        if (decide (c1.st.rd cond = 0#w) = !nz) then
          match Bc.branchTarget c1.pc off p.insts.size with
          | some t => .next { c1 with pc := t }
          | none => .bad c1
        else .next { c1 with pc := c1.pc + 1 } := by
  rcases hbr with ⟨rfl, rfl⟩ | ⟨rfl, rfl⟩
  · simp only [Bc.step, hi]
    generalize (if limited = true then Bc.charge c (some 1) else some c) = o
    cases o with
    | none => simp
    | some c1 => by_cases h : c1.st.rd cond = 0#w <;> simp [h] <;>
        (cases Bc.branchTarget c1.pc off p.insts.size <;> rfl)
  · simp only [Bc.step, hi]
    generalize (if limited = true then Bc.charge c (some 1) else some c) = o
    cases o with
    | none => simp
    | some c1 =>
      by_cases h : c1.st.rd cond = 0#w <;> simp [h] <;>
        (cases Bc.branchTarget c1.pc off p.insts.size <;> rfl)


/-- `Inv` after a control transfer that changed nothing `Rel` or `Inv` look at, except the program
counter and possibly the budget. -/
theorem Inv.move {K : Ctx w} {fr : Frame} {c : Bc.Cfg w} {s s' : PState w} (h : Inv K fr c s)
    (hk : SameTmp s s') (hstk : s'.stk = s.stk) {pc' : Nat} {b' : Nat}
    (hpc : s'.pc = K.loc pc') (hb : s'.budget.toNat = b') :
    Inv K fr { c with pc := pc', budget := b' } s' where
  pc := hpc
  rbx := (hk.regs .rbx (by decide) (by decide)).trans h.rbx
  env := hk.env.trans h.env
  trace := hk.trace.trans h.trace
  budget := hb
  tapeOk := hk.tapeOk.trans h.tapeOk
  rsp := (hk.regs .rsp (by decide) (by decide)).trans h.rsp
  align := h.align
  len := by rw [hstk]; exact h.len
  saved := by rw [hstk]; exact h.saved
  phys := h.phys.of_eq (hk.regs .rbp (by decide) (by decide)) hk.buf hk.lptr hk.base

theorem branchTarget_some {pc : Nat} {off : Int} {n t : Nat} (h : Bc.branchTarget pc off n = some t) :
    0 ≤ (pc : Int) + off ∧ t = ((pc : Int) + off).toNat ∧ t ≤ n := by
  unfold Bc.branchTarget at h
  simp only at h
  split at h
  · cases h; omega
  · cases h

/-- The compare-and-jump pair from a state `s0` that still agrees with `s` on everything `Rel` sees. -/
theorem branch_tail_inv (K : Ctx w) {fr : Frame} {c : Bc.Cfg w} {s : PState w} {nz : Bool} {cond off : Int}
    (hcond : -2147483648 ≤ cond ∧ cond < 2147483648) (hinv : Inv K fr c s) (hrel : Rel c (view s))
    (hfc : (cmpZero K.C.sz cond).fits = true) (hnext : K.loc (c.pc + 1) ≤ K.loc K.n)
    {s0 : PState w} {b : Nat} (hk : SameTmp s s0) (hstk : s0.stk = s.stk) (hb : s0.budget.toNat = b)
    {ys : List X86}
    (hres : resolveItems (locsOf K.p K.C.body) K.term s0.pc
      [.plain (cmpZero K.C.sz cond), .jccInstr (if nz then .notEqual else .equal) ((c.pc : Int) + off)] = some ys)
    (hat : At K.cfg K.code s0.pc ys) (hnx : s0.pc + (cmpZero K.C.sz cond).size + 6 = K.loc (c.pc + 1))
    {c' : Bc.Cfg w}
    (hc' : (if (decide (c.st.rd cond = 0#w) = !nz) then
          match Bc.branchTarget c.pc off K.p.insts.size with
          | some t => Bc.StepRes.next { c with pc := t, budget := b }
          | none => .bad { c with budget := b }
        else .next { c with pc := c.pc + 1, budget := b }) = .next c') :
    ∃ s', steps K.cfg 2 s0 = some s' ∧ Inv K fr c' s' ∧ Rel c' (view s') := by
  have hszb := K.hszb
  have hpr : (if nz then JmpPred.notEqual else JmpPred.equal) = .equal ∨
      (if nz then JmpPred.notEqual else JmpPred.equal) = .notEqual := by cases nz <;> simp
  have hcmpsz : 0 < (cmpZero K.C.sz cond).size := size_pos _
  obtain ⟨y1, e1, hres⟩ := resolveItems_plain_cons hres
  obtain ⟨y2, y3, hj, hres, e2⟩ := resolveItems_cons _ _ _ hres
  have e3 := resolveItems_nil' hres
  obtain ⟨d, hd, h0, hle, hex, hfj⟩ := K.resolve_jccInstr hj (by omega)
  subst e3 hd e2 e1
  have hat' : At K.cfg K.code s0.pc
      ([cmpZero K.C.sz cond, .jccRel32 (if nz then .notEqual else .equal) d] ++ []) := by
    simpa using hat
  obtain ⟨s', hst, hsame, hpc⟩ := branch_tail hszb hcond hat' hfc hfj hpr
    (t := K.loc ((c.pc : Int) + off).toNat) (by push_cast at hex ⊢; omega)
  have hrel0 : Rel c (view s0) := hk.rel hrel
  have htape : (view s0).tape cond = c.st.rd cond := hrel0.2.2 cond
  have hk' : SameTmp s s' := hk.trans hsame.sameTmp
  have hstk' : s'.stk = s.stk := hsame.stk.trans hstk
  have hb' : s'.budget.toNat = b := by rw [hsame.ctl.budget]; exact hb
  rw [htape] at hpc
  have hdec : (decide (c.st.rd cond = 0#w) = ((if nz then JmpPred.notEqual else JmpPred.equal) == .equal)) ↔
      (decide (c.st.rd cond = 0#w) = !nz) := by
    cases nz <;> simp [show (JmpPred.notEqual == JmpPred.equal) = false from rfl]
  by_cases htk : decide (c.st.rd cond = 0#w) = !nz
  · rw [if_pos htk] at hc'
    rw [if_pos (hdec.2 htk)] at hpc
    cases hbt : Bc.branchTarget c.pc off K.p.insts.size with
    | none => rw [hbt] at hc'; cases hc'
    | some t =>
      rw [hbt] at hc'
      simp only [Bc.StepRes.next.injEq] at hc'
      subst hc'
      obtain ⟨_, rfl, _⟩ := branchTarget_some hbt
      exact ⟨s', hst, hinv.move hk' hstk' hpc hb', hk'.rel hrel⟩
  · rw [if_neg htk] at hc'
    rw [if_neg (fun h => htk (hdec.1 h))] at hpc
    simp only [Bc.StepRes.next.injEq] at hc'
    subst hc'
    exact ⟨s', hst, hinv.move hk' hstk' (by rw [hpc, hnx]) hb', hk'.rel hrel⟩

/-- `brz` / `brnz`, the bytecode step continues: matched by the compare-and-jump pair (after the budget
check in limited mode). -/
theorem flow_branch_next (K : Ctx w) {fr : Frame} {c : Bc.Cfg w} {s : PState w} {ins : Bc.Instr w}
    {nz : Bool} {cond off : Int} (hi : K.p.insts[c.pc]? = some ins) (hbr : isBr ins nz cond off)
    (hcond : -2147483648 ≤ cond ∧ cond < 2147483648) (hinv : Inv K fr c s) (hrel : Rel c (view s))
    {c' : Bc.Cfg w} (hstep : Bc.step K.p K.limited c = .next c') :
    ∃ n s', steps K.cfg n s = some s' ∧ Inv K fr c' s' ∧ Rel c' (view s') := by
  obtain ⟨lv, its, xs, hI⟩ := K.instrAt hi
  obtain ⟨hits, hfc⟩ := emit_branch hbr hI.emit
  have hnext : K.loc (c.pc + 1) ≤ K.loc K.n := K.loc_le hI.lt
  have hcmpsz : 0 < (cmpZero K.C.sz cond).size := size_pos _
  rw [step_branch hi hbr] at hstep
  have hres := hI.res
  have hnx := hI.next
  rw [hits] at hres hnx
  cases hlim : K.limited with
  | false =>
    simp only [hlim, Bool.false_eq_true, if_false, List.nil_append] at hres hnx hstep
    obtain ⟨s', h1, h2, h3⟩ := branch_tail_inv K hcond hinv hrel hfc hnext (SameTmp.rfl' s) rfl hinv.budget
      (by rw [hinv.pc]; exact hres) (by rw [hinv.pc]; exact hI.at_)
      (by rw [hinv.pc, hnx]; simp [Item.size]; omega) hstep
    exact ⟨2, s', h1, h2, h3⟩
  | true =>
    simp only [hlim, if_true] at hres hnx hstep
    have hsz21 : itemsSize limitCheck = 21 := by decide
    obtain ⟨d, ys, hxs, hdt, hfd, hres2⟩ := K.resolve_limitCheck hres (by
      rw [itemsSize_append] at hnx; omega)
    have hat : At K.cfg K.code s.pc (limitCode d ++ ys) := by rw [hinv.pc, ← hxs]; exact hI.at_
    obtain ⟨_, hge⟩ := limit_check hat hinv.rbx hfd (t := K.term) (by rw [hinv.pc]; exact hdt)
    unfold Bc.charge at hstep
    simp only at hstep
    by_cases hb : c.budget ≤ 1
    · simp only [hb, if_true] at hstep; cases hstep
    · simp only [hb, if_false] at hstep
      obtain ⟨s5, hst, hpc, hk, hbud, _⟩ := hge (by rw [hinv.budget]; omega)
      have hb5 : s5.budget.toNat = c.budget - 1 := by
        rw [hbud, BitVec.toNat_sub, hinv.budget]
        have := s.budget.isLt
        rw [hinv.budget] at this
        have e1 : (1 : BitVec 64).toNat = 1 := rfl
        rw [e1]
        omega
      have hat5 : At K.cfg K.code s5.pc ys := by
        rw [hpc]; have := hat.drop
        rwa [show sizeAll (limitCode d) = 21 from rfl] at this
      obtain ⟨s', h1, h2, h3⟩ := branch_tail_inv K hcond hinv hrel hfc hnext hk hk.stk hb5
        (by rw [hpc, hinv.pc, ← hsz21]; exact hres2) hat5 (by
          rw [hpc, hinv.pc, hnx]; simp [Item.size, hsz21]; omega) hstep
      exact ⟨5 + 2, s', steps_trans hst h1, h2, h3⟩

/-- `brz` / `brnz` in limited mode with an exhausted budget: the code leaves through the termination label
and the function returns 0. The budget cell keeps its value (0 or 1); the interpreter sets it to 0. -/
theorem flow_branch_interrupted (K : Ctx w) (htemps : alignedTemps K.p.temps * 8 < 2147483648)
    {fr : Frame} (h7 : fr.saved.length = 7) {c : Bc.Cfg w} {s : PState w} {ins : Bc.Instr w}
    {nz : Bool} {cond off : Int} (hi : K.p.insts[c.pc]? = some ins) (hbr : isBr ins nz cond off)
    (hinv : Inv K fr c s) {c' : Bc.Cfg w} (hstep : Bc.step K.p K.limited c = .interrupted c') (k : Nat) :
    ∃ s', run K.cfg (12 + k) s = .ret s' ∧ s'.regs.rax = 0 ∧ Returned fr K.p.temps s s' ∧
      c.budget < 2 ∧ c' = { c with budget := 0 } := by
  obtain ⟨lv, its, xs, hI⟩ := K.instrAt hi
  obtain ⟨hits, hfc⟩ := emit_branch hbr hI.emit
  have hnext : K.loc (c.pc + 1) ≤ K.loc K.n := K.loc_le hI.lt
  rw [step_branch hi hbr] at hstep
  have hres := hI.res
  have hnx := hI.next
  rw [hits] at hres hnx
  cases hlim : K.limited with
  | false =>
    simp only [hlim, Bool.false_eq_true, if_false] at hstep
    split at hstep
    · split at hstep <;> cases hstep
    · cases hstep
  | true =>
    simp only [hlim, if_true] at hres hnx hstep
    obtain ⟨d, ys, hxs, hdt, hfd, hres2⟩ := K.resolve_limitCheck hres (by
      rw [itemsSize_append] at hnx; omega)
    have hat : At K.cfg K.code s.pc (limitCode d ++ ys) := by rw [hinv.pc, ← hxs]; exact hI.at_
    obtain ⟨hlt, _⟩ := limit_check hat hinv.rbx hfd (t := K.term) (by rw [hinv.pc]; exact hdt)
    unfold Bc.charge at hstep
    simp only at hstep
    by_cases hb : c.budget ≤ 1
    · simp only [hb, if_true, Bc.StepRes.interrupted.injEq] at hstep
      obtain ⟨s3, hst, hpc, hk, hbud, _⟩ := hlt (by rw [hinv.budget]; omega)
      obtain ⟨s', hrun, hrax, hret⟩ := exit_term K htemps (fr := fr) hpc
        ((hk.regs .rsp (by decide) (by decide)).trans hinv.rsp) (by rw [hk.stk]; exact hinv.len)
        (by rw [hk.stk]; exact hinv.saved) h7 k
      refine ⟨s', ?_, hrax, ?_, by omega, hstep.symm⟩
      · rw [show 12 + k = 3 + (9 + k) by omega, run_of_steps hst]; exact hrun
      · exact ⟨hret.saved, hret.rsp, hret.stk, hret.lptr.trans hk.lptr, hret.tape.trans hk.tape,
          hret.env.trans hk.env, hret.trace.trans hk.trace, hret.budget.trans hbud, hret.buf.trans hk.buf,
          hret.size.trans hk.size, hret.base.trans hk.base⟩
    · simp only [hb, if_false] at hstep
      split at hstep
      · split at hstep <;> cases hstep
      · cases hstep

end C03
end Hpbf
