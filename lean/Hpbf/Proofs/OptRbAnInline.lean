/-
Rebuild-round proofs, stage 5 (the analysis a round records is sound for the code it emits): `inline`.
The emitted code is the parent's block-free preparation, the child's code, and block-free groups; the new nodes
are the child's nodes.  The child's code starts in a state that mirrors a child-valid state (the state with the
source memory at the emitted program's pointer), so the child's `AStep` transfers by `analInL_mono`.
-/
import Hpbf.Proofs.OptRbAnStraight
import Hpbf.Proofs.OptRbRd4

namespace Hpbf
namespace OptProof
open Opt OptSem Ir

variable {w : Nat}

/-- The child's nodes fit and are sound for the child's code (child started from a state without nodes). -/
theorem AStep.child {V : State w → Prop} {sub0 sub : Rebuild w} (hsa0 : sub0.subAnal = [])
    (h : AStep V sub0 sub sub.insts) :
    ShapeL sub.insts sub.subAnal ∧ AnalInL (MirV V sub0 sub) sub.insts sub.subAnal := by
  obtain ⟨newA, eA, hs, ha⟩ := h.ext
  rw [hsa0, List.nil_append] at eA
  rw [eA]
  exact ⟨hs, ha⟩

/-- Block-free code around a piece of code with nodes. -/
theorem analInL_sandwich {G : State w → Prop} {pre mid post : List (Instr w)} {subs : List (OptAnalysis w)}
    (hpre : ∀ i ∈ pre, C01Dse.isBlock i = false) (hpost : ∀ i ∈ post, C01Dse.isBlock i = false)
    (hs : ShapeL mid subs) (h : AnalInL (AfterG G pre) mid subs) :
    ShapeL (pre ++ (mid ++ post)) subs ∧ AnalInL G (pre ++ (mid ++ post)) subs := by
  have e : subs = [] ++ (subs ++ []) := by simp
  refine ⟨?_, ?_⟩
  · rw [e]
    exact shapeL_append (shapeL_nonblocks hpre) (shapeL_append hs (shapeL_nonblocks hpost))
  · rw [e]
    exact (analInL_append (shapeL_nonblocks hpre)).2
      ⟨analInL_noBlocks hpre, (analInL_append hs).2 ⟨h, analInL_noBlocks hpost⟩⟩

/-- **`inline`**, child does not move the pointer. -/
theorem inline_stay_an {shP shC cS : Int} {bodyS : List (Instr w)}
    {s : Rebuild w} {ps : List (Rebuild w)} {sub : Rebuild w} {pc : List (Rebuild w)} {sub0 : Rebuild w}
    {os os' : Orders} {s' : Rebuild w} {G Gc : State w → Prop}
    (hr : (Opt.inline s ps sub).run os = .ok (s', os'))
    (hwf : Wf s) (hpre : ChildPre Gc shP shC pc sub0 sub cS bodyS)
    (hne : ∀ M0 σE σS, RelAt shP s ps M0 σE σS → G σS → σS.rd cS ≠ 0#w)
    (hGc : ∀ M0 σE σS, RelAt shP s ps M0 σE σS → G σS → Gc σS)
    (hsa0 : sub0.subAnal = [])
    (hcA : AStep (ValidG Gc shP sub0 pc) sub0 sub sub.insts) :
    ∃ new, s'.insts = s.insts ++ new ∧ AStep (ValidG G shP s ps) s s' new := by
  rw [inline_eq, if_neg (by rw [hpre.noShift]; simp), run_bind_ok] at hr
  obtain ⟨s1, os1, h1, h2⟩ := hr
  have n1 := emitReadAll_nstep ps _ h1 hwf
  obtain ⟨ha, _⟩ := inlineRest_subAnal h2 n1.wf
  obtain ⟨s2, os2, s4, h3, h4, rfl⟩ := inlineRest_run h2
  have hcp := inline_clobberPhase h3
  obtain ⟨comps, p1, _, pwf, _, _, _, pfoot, _, _, _⟩ := inline_prep_foot hwf hpre.wf h1 hcp
  obtain ⟨compsS, e1, hsem⟩ := inline_sem_ctx hwf hpre h1 hcp
  have hcS : compsS = comps := calc_map_inj (List.append_cancel_left (e1.symm.trans p1))
  rw [hcS] at hsem
  have hwf3 := writtenCalcs_insts_wf pwf ps (knownsOf sub) (s2.insts ++ sub.insts)
  obtain ⟨w1, w2, _⟩ := writtenCalcs_eq ({ s2 with insts := s2.insts ++ sub.insts } : Rebuild w) ps (knownsOf sub)
  obtain ⟨S3, hS3⟩ : ∃ x, x = writtenCalcs ({ s2 with insts := s2.insts ++ sub.insts } : Rebuild w) ps
    (knownsOf sub) := ⟨_, rfl⟩
  rw [← hS3] at h4 hwf3 w1 w2
  have w2' : S3.reads = s2.reads := w2
  have wss : S3.subShift = s2.subShift := w1.2.2.2.2.1
  have wins : S3.insts = s2.insts ++ sub.insts := w1.2.2.2.2.2.2.2.2.2.1
  obtain ⟨c3, i3, _, f3⟩ := inlineEnd_foot h4 hwf3
  obtain ⟨hshape, hAn⟩ := hcA.child hsa0
  have hinsts : ({ s4 with subAnal := s4.subAnal ++ sub.subAnal } : Rebuild w).insts =
      s.insts ++ (comps.map Instr.calc ++ (sub.insts ++ c3.map Instr.calc)) := by
    show s4.insts = _
    rw [i3, wins, p1]
    simp only [List.append_assoc]
  -- the states in which the child's code starts mirror child-valid states
  have hmir : ∀ τ2, AfterG (MirV (ValidG G shP s ps) s
      ({ s4 with subAnal := s4.subAnal ++ sub.subAnal } : Rebuild w)) (comps.map Instr.calc) τ2 →
      MirV (ValidG Gc shP sub0 pc) sub0 sub τ2 := by
    rintro τ2 ⟨σ2, ⟨σ1, K, hv1, hK, hKs, hag⟩, hex⟩
    rw [exec_calcs_fin hex]
    obtain ⟨M0, σS, hrel, hg⟩ := hv1
    obtain ⟨hvX, _, hXp, hXe, hXt, hXr, _⟩ :=
      hsem M0 σ1 σS hrel (hne M0 σ1 σS hrel hg) (hGc M0 σ1 σS hrel hg)
    have hmir1 : MirV (ValidG Gc shP sub0 pc) sub0 sub (comps.foldl doCalc σ1) := by
      refine ⟨σS.mov (-shP), fun v => memE (σS.mov (-shP)) v ≠ memE (comps.foldl doCalc σ1) v, hvX,
        fun v h hr' => h (hXr v hr'), fun hs => ?_, hXp, hXe, hXt, ?_⟩
      · rw [hpre.noShift] at hs; cases hs
      · intro v hv
        exact Classical.not_not.1 (fun h => hv ((rest_fresh hpre.w0 v).2 h))
    cases hs4 : s4.subShift with
    | false =>
      have hs3 : S3.subShift = false := f3.mono.2 hs4
      have hs2 : s2.subShift = false := by rw [← wss]; exact hs3
      have hK2 : ∀ v, K v → v ∉ s2.reads := fun v hv hr' => hK v hv (f3.mono.1 v (by rw [w2']; exact hr'))
      have hX := pfoot hs2 K hK2 σ1 σ2 hag
      refine MirV.of_agree hpre.w0 hmir1 hX (fun v h => h.1) (fun hs => ?_)
      rw [hpre.noShift] at hs; cases hs
    | true =>
      have he : StEq σ1 σ2 := hag.stEq_of_empty (fun v hv' => hKs hs4 v hv'.1)
      refine MirV.of_agree (X := fun _ => False) hpre.w0 hmir1 (AgreeOff.of_stEq (he.foldl_doCalc comps))
        (fun _ h => h.elim) (fun _ _ h => h)
  obtain ⟨hsh, han⟩ := analInL_sandwich (G := MirV (ValidG G shP s ps) s
      ({ s4 with subAnal := s4.subAnal ++ sub.subAnal } : Rebuild w)) (isBlock_calcs comps) (isBlock_calcs c3)
    hshape (analInL_mono hmir hAn)
  exact ⟨_, hinsts, ⟨sub.subAnal, by rw [ha, n1.subAnal], hsh, han⟩⟩

/-- **`inline`**, child moves the pointer: the parent has emitted everything, the child's code starts in a state
that IS (up to the representation of the tape) child-valid. -/
theorem inline_shift_an {shP cS : Int}
    {s : Rebuild w} {ps : List (Rebuild w)} {sub : Rebuild w} {pc : List (Rebuild w)} {sub0 : Rebuild w}
    {os os' : Orders} {s' : Rebuild w} {G Gc : State w → Prop}
    (hr : (Opt.inline s ps sub).run os = .ok (s', os'))
    (hwf : Wf s) (hss : sub.subShift = true)
    (hentry : ∀ σE σS : State w, SameMem shP σS σE → σS.rd cS ≠ 0#w → Gc σS →
      ∃ M0, RelAt shP sub0 pc M0 σE σS)
    (hne : ∀ M0 σE σS, RelAt shP s ps M0 σE σS → G σS → σS.rd cS ≠ 0#w)
    (hGc : ∀ M0 σE σS, RelAt shP s ps M0 σE σS → G σS → Gc σS)
    (hsa0 : sub0.subAnal = [])
    (hcA : AStep (ValidG Gc shP sub0 pc) sub0 sub sub.insts) :
    ∃ new, s'.insts = s.insts ++ new ∧ AStep (ValidG G shP s ps) s s' new := by
  obtain ⟨hsub', _, _⟩ := inline_shift_void hr hwf hss
  rw [inline_eq, if_pos hss, run_bind_ok] at hr
  obtain ⟨s0, os0, h0, h1⟩ := hr
  rw [run_bind_ok] at h1
  obtain ⟨s1, os1, h1', h2⟩ := h1
  rw [run_pure] at h1'
  cases h1'
  obtain ⟨cP, resP, hclP⟩ := emitAll_clears ps (pendingSorted s s) hwf
    (fun k hk => (Hpbf.OptLoop.mem_pendingSorted s s k).2 hk) h0
  obtain ⟨_, _, _, u4, _, _, _, u8, _, _⟩ := uncertainShift_fields s0
  have hwf1 := uncertainShift_wf resP.wf
  obtain ⟨ha, _⟩ := inlineRest_subAnal h2 hwf1
  obtain ⟨s2, os2, s4, h3, h4, rfl⟩ := inlineRest_run h2
  obtain ⟨i1, i2, i3, _⟩ := cfold_spec ps (OptLoop.unknown true) [] sub.written (uncertainShift s0, []) hwf1
  rw [← ifold_eq] at i1 i2 i3
  have hpf : (sub.written.foldl ifold (uncertainShift s0, [])).1.pending = [] := by
    apply mGet_all_none_nil
    intro k
    cases h : mGet (sub.written.foldl ifold (uncertainShift s0, [])).1.pending k with
    | none => rfl
    | some e =>
      have := i3 k e h
      rw [u4, hclP] at this; simp [mGet] at this
  obtain ⟨c1, _, c3', _⟩ := clobberAll_nopending ps _ i1 hpf h3
  have hwf3 := writtenCalcs_insts_wf c1 ps (knownsOf sub) (s2.insts ++ sub.insts)
  obtain ⟨w1, _, _⟩ := writtenCalcs_eq ({ s2 with insts := s2.insts ++ sub.insts } : Rebuild w) ps (knownsOf sub)
  obtain ⟨c3, i3', _, _⟩ := inlineEnd_foot h4 hwf3
  obtain ⟨hshape, hAn⟩ := hcA.child hsa0
  have hinsts : ({ s4 with subAnal := s4.subAnal ++ sub.subAnal } : Rebuild w).insts =
      s.insts ++ (cP.map Instr.calc ++ (sub.insts ++ c3.map Instr.calc)) := by
    show s4.insts = _
    rw [i3', w1.2.2.2.2.2.2.2.2.2.1]
    show s2.insts ++ sub.insts ++ _ = _
    rw [c3', i2.2.2.2.2.2.2.2.2.1, u8, resP.insts]
    simp only [List.append_assoc]
  have hmir : ∀ τ2, AfterG (MirV (ValidG G shP s ps) s
      ({ s4 with subAnal := s4.subAnal ++ sub.subAnal } : Rebuild w)) (cP.map Instr.calc) τ2 →
      MirV (ValidG Gc shP sub0 pc) sub0 sub τ2 := by
    rintro τ2 ⟨σ2, ⟨σ1, K, hv1, _, hKs, hag⟩, hex⟩
    rw [exec_calcs_fin hex]
    obtain ⟨M0, σS, hrel, hg⟩ := hv1
    have he : StEq σ1 σ2 := hag.stEq_of_empty (fun v hv' => hKs hsub' v hv'.1)
    have hsm : SameMem shP σS (cP.foldl doCalc σ1) := (resP.relAt hrel).sameMem hclP
    obtain ⟨M0c, hre⟩ := hentry _ σS hsm (hne M0 σ1 σS hrel hg) (hGc M0 σ1 σS hrel hg)
    exact ⟨cP.foldl doCalc σ1, fun _ => False, ⟨M0c, σS, hre, hGc M0 σ1 σS hrel hg⟩, fun _ h => h.elim,
      fun _ _ h => h, AgreeOff.of_stEq (he.foldl_doCalc cP)⟩
  obtain ⟨hsh, han⟩ := analInL_sandwich (G := MirV (ValidG G shP s ps) s
      ({ s4 with subAnal := s4.subAnal ++ sub.subAnal } : Rebuild w)) (isBlock_calcs cP) (isBlock_calcs c3)
    hshape (analInL_mono hmir hAn)
  refine ⟨_, hinsts, ⟨sub.subAnal, ?_, hsh, han⟩⟩
  rw [ha]
  show s0.subAnal ++ sub.subAnal = _
  rw [resP.subAnal]

end OptProof
end Hpbf

#print axioms Hpbf.OptProof.inline_stay_an
#print axioms Hpbf.OptProof.inline_shift_an
