/-
C03 (converse direction), part 2: RUNS.  `conv_progress'` (every continuing bytecode step costs the machine at
least one step), determinism of the machine (`run_more`, `run_ret_unique`, `steps_lt_of_run`), accumulation
(`conv_steps_ge`: `f` bytecode steps need at least `f` machine steps), and hence `conv_diverges'` (a bytecode run
that never ends is matched by a machine run that never returns and never faults) and `conv_run'` (a return of the
machine code means the bytecode run has ended, with the corresponding verdict).
-/
import Hpbf.Proofs.C03ConvStep
import Hpbf.Proofs.C03FlowTop
import Hpbf.Proofs.C03FlowFetch
set_option linter.unusedSimpArgs false
namespace Hpbf
namespace C03
open Asm JitGen X86Sem X86Prog
variable {w : Nat}

/-- `conv_progress`: the `.next` clause of `prog_simulation` with at least one machine step. -/
theorem conv_progress' (K : Ctx w) (G : Good K) (hnn : NoNoop K.p) {fr : Frame} (h7 : fr.saved.length = 7)
    {c : Bc.Cfg w} {s : PState w} (hbnd : K.safe = true → Bnd s) (hsh : Sh K fr c s) {c' : Bc.Cfg w}
    (hstep : Bc.step K.p K.limited c = .next c') :
    ∃ n s', 0 < n ∧ steps K.cfg n s = some s' ∧ Sh K fr c' s' := by
  obtain ⟨c2, hsim, hinv, hrel⟩ := hsh
  obtain ⟨htag, hobs, hnext⟩ := C11.live_step G.L G.V (limited := K.limited) hsim
  obtain ⟨o1, o2, o3⟩ := hobs
  cases h2 : Bc.step K.p K.limited c2 with
  | next c2' =>
    obtain ⟨n, s', c3, g0, g1, g2, g3, g4⟩ := conv_sim_next K G hnn h7 hbnd hinv hrel h2
    have hs := hnext c' c2' hstep h2
    have hpc : c2'.pc = c'.pc := by
      simp only [hstep, h2, Bc.StepRes.cfg] at o1; exact o1.symm
    rw [hpc] at g4
    exact ⟨n, s', g0, g1, c3, Sim.trans' hs g4, g2, g3⟩
  | _ => simp [hstep, h2, Bc.StepRes.tag] at htag

/-! ### the machine is deterministic -/

theorem run_more {cfg : Cfg} : ∀ (n : Nat) {s r : PState w} (j : Nat), run cfg n s = .ret r → run cfg (n + j) s = .ret r
  | 0, s, r, j, h => by simp [run] at h
  | n + 1, s, r, j, h => by
    rw [Nat.add_right_comm]
    simp only [run] at h ⊢
    cases hs : step cfg s with
    | next s1 => rw [hs] at h; simp only at h ⊢; exact run_more n j h
    | ret s1 => rw [hs] at h; exact h
    | fault f s1 => rw [hs] at h; cases h

theorem run_ret_unique {cfg : Cfg} {n1 n2 : Nat} {s a b : PState w} (h1 : run cfg n1 s = .ret a)
    (h2 : run cfg n2 s = .ret b) : a = b := by
  have e1 := run_more n1 n2 h1
  have e2 := run_more n2 n1 h2
  rw [Nat.add_comm] at e2
  rw [e1] at e2
  cases e2; rfl

/-- A run that ends (return or fault) within `m` steps cannot make `m` or more `.next` steps. -/
theorem steps_lt_of_run {cfg : Cfg} : ∀ (n : Nat) {m : Nat} {s s' : PState w}, steps cfg n s = some s' →
    (∀ x, run cfg m s ≠ .fuel x) → n < m
  | 0, m, s, s', _, hr => by
    cases m with
    | zero => exact absurd rfl (hr s)
    | succ m => omega
  | n + 1, m, s, s', h, hr => by
    cases m with
    | zero => exact absurd rfl (hr s)
    | succ m =>
      simp only [steps] at h
      cases hs : step cfg s with
      | next s1 =>
        rw [hs] at h
        have : ∀ x, run cfg m s1 ≠ .fuel x := by
          intro x hx; apply hr x; simp only [run, hs]; exact hx
        have := steps_lt_of_run n h this
        omega
      | ret s1 => rw [hs] at h; cases h
      | fault f s1 => rw [hs] at h; cases h

/-- Bytecode steps accumulate machine steps: after `f` continuing bytecode steps the machine has made at least
`f` steps. -/
theorem conv_steps_ge (K : Ctx w) (G : Good K) (hnn : NoNoop K.p) {fr : Frame} (h7 : fr.saved.length = 7) :
    ∀ (f : Nat) {c cf : Bc.Cfg w} {s : PState w}, NoOOM K s → Sh K fr c s →
      Bc.runCfg K.p K.limited f c = .outOfFuel cf →
      ∃ n s', f ≤ n ∧ steps K.cfg n s = some s' ∧ Sh K fr cf s'
  | 0, c, cf, s, _, hsh, h => by
    simp only [Bc.runCfg, Bc.Outcome.outOfFuel.injEq] at h
    subst h
    exact ⟨0, s, Nat.le_refl _, rfl, hsh⟩
  | f + 1, c, cf, s, hoom, hsh, h => by
    simp only [Bc.runCfg] at h
    cases hst : Bc.step K.p K.limited c with
    | next c1 =>
      rw [hst] at h
      obtain ⟨n, s1, hn, h1, hsh1⟩ := conv_progress' K G hnn h7 (fun hs => hoom hs 0 s rfl) hsh hst
      obtain ⟨m, s2, hm, h2, hsh2⟩ := conv_steps_ge K G hnn h7 f (hoom.of_steps h1) hsh1 h
      exact ⟨n + m, s2, by omega, steps_trans h1 h2, hsh2⟩
    | halt c1 => rw [hst] at h; cases h
    | stop c1 => rw [hst] at h; cases h
    | interrupted c1 => rw [hst] at h; cases h
    | bad c1 => rw [hst] at h; cases h


/-- A run of the machine is still going after `n` steps. -/
def Running (cfg : Cfg) (n : Nat) (s : PState w) : Prop := ∃ x, run cfg n s = .fuel x

theorem running_iff {cfg : Cfg} {n : Nat} {s : PState w} :
    Running cfg n s ↔ ((∀ r, run cfg n s ≠ .ret r) ∧ ∀ f r, run cfg n s ≠ .fault f r) := by
  unfold Running
  cases h : run cfg n s with
  | ret r => simp
  | fault f r => simp
  | fuel x => simp

/-- The bytecode run from the shadow configuration of the entry state (arbitrary initial temporaries) and
`Bc.run` (zeroed temporaries) are observationally equal. -/
theorem obs_run (K : Ctx w) (G : Good K) {budget : Nat} (hlim : (K.limited && budget == 0) = false) (env : Env)
    (fuel : Nat) (T : Bc.Temps w) :
    C11.ObsEq (Bc.run K.p K.limited budget fuel env)
      (Bc.runCfg K.p K.limited fuel { pc := 0, temps := T, budget := budget, st := State.init env }) := by
  have hchk := G.check
  simp only [BcWf.check, Bool.and_eq_true] at hchk
  unfold Bc.run
  simp only [hlim]
  exact C11.init_independent G.L (C11.initOk_facts hchk.1.2) K.limited fuel budget _ _ _

/-- `conv_diverges`: if the bytecode run never ends, the machine code never returns (and never faults). -/
theorem conv_diverges' (K : Ctx w) (G : Good K) (hnn : NoNoop K.p) {s0 : PState w} {ra : BitVec 64}
    (hE : Entry K s0 ra) {env : Env} (henv : s0.env = env) (htr : s0.trace = []) {budget : Nat}
    (hb : s0.budget.toNat = budget) (hlim : (K.limited && budget == 0) = false) (hoom : NoOOM K s0)
    (hdiv : ∀ fuel, ∃ c, Bc.run K.p K.limited budget fuel env = .outOfFuel c) (n : Nat) :
    Running K.cfg n s0 := by
  obtain ⟨s, T, hst, hinv, hrel, -⟩ := prologue_run K G.temps K.w_range hE env henv htr
  rw [hb] at hinv hrel
  have hsh : Sh K (frameOf K s0 ra) { pc := 0, temps := T, budget := budget, st := State.init env } s :=
    ⟨_, ⟨rfl, rfl, rfl, fun _ _ => rfl⟩, hinv, hrel⟩
  obtain ⟨c, hc⟩ := hdiv (n + 1)
  obtain ⟨otag, _, _, _⟩ := obs_run K G hlim env (n + 1) T
  rw [hc] at otag
  cases h2 : Bc.runCfg K.p K.limited (n + 1) { pc := 0, temps := T, budget := budget, st := State.init env } with
  | outOfFuel cf =>
    obtain ⟨k, s', hk, hk', _⟩ := conv_steps_ge K G hnn (fr := frameOf K s0 ra) rfl (n + 1) (hoom.of_steps hst) hsh h2
    have hall : steps K.cfg (9 + k) s0 = some s' := steps_trans hst hk'
    rw [running_iff]
    refine ⟨fun r hr => ?_, fun f r hr => ?_⟩
    · have := steps_lt_of_run (9 + k) hall (fun x hx => by rw [hr] at hx; cases hx)
      omega
    · have := steps_lt_of_run (9 + k) hall (fun x hx => by rw [hr] at hx; cases hx)
      omega
  | done c2 => rw [h2] at otag; simp [Bc.Outcome.tag] at otag
  | stopped c2 => rw [h2] at otag; simp [Bc.Outcome.tag] at otag
  | interrupted c2 => rw [h2] at otag; simp [Bc.Outcome.tag] at otag
  | bad c2 => rw [h2] at otag; simp [Bc.Outcome.tag] at otag

/-- `conv_run`: the machine code returns ONLY when the bytecode run ends, and with the corresponding verdict. -/
theorem conv_run' (K : Ctx w) (G : Good K) (hnn : NoNoop K.p) {s0 : PState w} {ra : BitVec 64}
    (hE : Entry K s0 ra) {env : Env} (henv : s0.env = env) (htr : s0.trace = []) {budget : Nat}
    (hb : s0.budget.toNat = budget) (hlim : (K.limited && budget == 0) = false) (hoom : NoOOM K s0)
    {n : Nat} {s' : PState w} (hret : run K.cfg n s0 = .ret s') :
    ∃ fuel c',
      ((Bc.run K.p K.limited budget fuel env = .done c' ∧ s'.regs.rax = 1 ∧ s'.budget.toNat = c'.budget) ∨
       (Bc.run K.p K.limited budget fuel env = .stopped c' ∧ s'.regs.rax = 0 ∧ s'.budget.toNat = c'.budget) ∨
       (Bc.run K.p K.limited budget fuel env = .interrupted c' ∧ s'.regs.rax = 0 ∧ s'.budget.toNat < 2 ∧
          c'.budget = 0)) ∧
      Result s0 s' c' := by
  -- the bytecode run with fuel `n + 1` has ended: otherwise the machine would still be running
  have hp := prog_run' K G hE henv htr hb hlim hoom (n + 1)
  cases h1 : Bc.run K.p K.limited budget (n + 1) env with
  | outOfFuel c =>
    exfalso
    -- redo the accumulation for this fuel
    obtain ⟨s, T, hst, hinv, hrel, -⟩ := prologue_run K G.temps K.w_range hE env henv htr
    rw [hb] at hinv hrel
    have hsh : Sh K (frameOf K s0 ra) { pc := 0, temps := T, budget := budget, st := State.init env } s :=
      ⟨_, ⟨rfl, rfl, rfl, fun _ _ => rfl⟩, hinv, hrel⟩
    obtain ⟨otag, _, _, _⟩ := obs_run K G hlim env (n + 1) T
    rw [h1] at otag
    cases h2 : Bc.runCfg K.p K.limited (n + 1) { pc := 0, temps := T, budget := budget, st := State.init env } with
    | outOfFuel cf =>
      obtain ⟨k, s2, hk, hk', _⟩ := conv_steps_ge K G hnn (fr := frameOf K s0 ra) rfl (n + 1) (hoom.of_steps hst) hsh h2
      have := steps_lt_of_run (9 + k) (steps_trans hst hk') (fun x hx => by rw [hret] at hx; cases hx)
      omega
    | done c2 => rw [h2] at otag; simp [Bc.Outcome.tag] at otag
    | stopped c2 => rw [h2] at otag; simp [Bc.Outcome.tag] at otag
    | interrupted c2 => rw [h2] at otag; simp [Bc.Outcome.tag] at otag
    | bad c2 => rw [h2] at otag; simp [Bc.Outcome.tag] at otag
  | bad c => rw [h1] at hp; exact hp.elim
  | done c =>
    rw [h1] at hp
    obtain ⟨m, r, g1, g2, g3, g4⟩ := hp 0
    have := run_ret_unique hret g1
    subst this
    exact ⟨n + 1, c, Or.inl ⟨h1, g2, g4⟩, g3⟩
  | stopped c =>
    rw [h1] at hp
    obtain ⟨m, r, g1, g2, g3, g4⟩ := hp 0
    have := run_ret_unique hret g1
    subst this
    exact ⟨n + 1, c, Or.inr (Or.inl ⟨h1, g2, g4⟩), g3⟩
  | interrupted c =>
    rw [h1] at hp
    obtain ⟨m, r, g1, g2, g3, g4⟩ := hp 0
    have := run_ret_unique hret g1
    subst this
    exact ⟨n + 1, c, Or.inr (Or.inr ⟨h1, g2, g4.1, g4.2⟩), g3⟩

/-- The context of the whole-program theorems, from their hypotheses. -/
theorem ctx_of_compiled (p : Bc.Program w) (limited safe : Bool) (cfg : Cfg) {code : List X86}
    (hcomp : compileX86 w p limited safe cfg.aE.toNat cfg.aI.toNat cfg.aO.toNat = some code)
    (hfetch : cfg.fetch = fetchFast (fetchTable code)) (hsmall : sizeAll code < 2 ^ 31)
    (hIO : cfg.aI ≠ cfg.aO) (hEI : cfg.aE ≠ cfg.aI) (hEO : cfg.aE ≠ cfg.aO)
    (hchk : BcWf.check p 11 = true) (hwin : -2147483648 < p.minAcc ∧ p.maxAcc < 2147483648)
    (htemps : alignedTemps p.temps * 8 < 2147483648)
    (hshift : ∀ (i : Nat) (sh : Int), p.insts[i]? = some (Bc.Instr.mov sh) → -2147483648 ≤ sh ∧ sh < 2147483648) :
    ∃ K : Ctx w, K.p = p ∧ K.cfg = cfg ∧ K.limited = limited ∧ K.safe = safe ∧ Good K := by
  obtain ⟨C⟩ := compileX86_some hcomp
  have hloc : BcWf.localOk p = true := by
    simp only [BcWf.check, Bool.and_eq_true] at hchk; exact hchk.1.1
  have L := C11.localOk_facts hloc
  have hf : cfg.fetch = fetchList code := by rw [hfetch, fetchFast_eq]
  exact ⟨⟨p, limited, safe, cfg, code, C, hf, hsmall, hIO, hEI, hEO, L.liveSize⟩, rfl, rfl, rfl, rfl,
    ⟨hchk, hwin, htemps, hshift⟩⟩

/-- `conv_run` with every hypothesis spelled out (those of `prog_run`, and `NoNoop`). -/
theorem conv_run_compiled (p : Bc.Program w) (limited safe : Bool) (cfg : Cfg) {code : List X86}
    (hcomp : compileX86 w p limited safe cfg.aE.toNat cfg.aI.toNat cfg.aO.toNat = some code)
    (hfetch : cfg.fetch = fetchFast (fetchTable code)) (hsmall : sizeAll code < 2 ^ 31)
    (hIO : cfg.aI ≠ cfg.aO) (hEI : cfg.aE ≠ cfg.aI) (hEO : cfg.aE ≠ cfg.aO)
    (hchk : BcWf.check p 11 = true) (hwin : -2147483648 < p.minAcc ∧ p.maxAcc < 2147483648)
    (htemps : alignedTemps p.temps * 8 < 2147483648)
    (hshift : ∀ (i : Nat) (sh : Int), p.insts[i]? = some (Bc.Instr.mov sh) → -2147483648 ≤ sh ∧ sh < 2147483648)
    (hnn : NoNoop p)
    (buf0 rsp0 ra : BitVec 64) (hrsp : rsp0.toNat % 16 = 8)
    (budget : Nat) (hb : budget < 2 ^ 64) (hlim : (limited && budget == 0) = false) (env : Env)
    (hoom : safe = true → ∀ n s', steps cfg n (initState (w := w) cfg buf0 rsp0 ra p.minAcc p.maxAcc budget env)
      = some s' → Bnd s')
    {n : Nat} {s' : PState w}
    (hret : run cfg n (initState cfg buf0 rsp0 ra p.minAcc p.maxAcc budget env) = .ret s') :
    ∃ fuel c',
      ((Bc.run p limited budget fuel env = .done c' ∧ s'.regs.rax = 1 ∧ s'.budget.toNat = c'.budget) ∨
       (Bc.run p limited budget fuel env = .stopped c' ∧ s'.regs.rax = 0 ∧ s'.budget.toNat = c'.budget) ∨
       (Bc.run p limited budget fuel env = .interrupted c' ∧ s'.regs.rax = 0 ∧ s'.budget.toNat < 2 ∧
          c'.budget = 0)) ∧
      Result (initState cfg buf0 rsp0 ra p.minAcc p.maxAcc budget env) s' c' := by
  obtain ⟨K, rfl, rfl, rfl, rfl, G⟩ := ctx_of_compiled p limited safe cfg hcomp hfetch hsmall hIO hEI hEO hchk hwin
    htemps hshift
  obtain ⟨hE, henv, htr, hbud⟩ := initState_entry K ⟨G.L.min0, G.L.max0⟩ ⟨Int.le_of_lt hwin.1, hwin.2⟩ buf0 rsp0 ra
    hrsp budget hb env
  exact conv_run' K G hnn hE henv htr hbud hlim hoom hret

/-- `conv_diverges` with every hypothesis spelled out. -/
theorem conv_diverges_compiled (p : Bc.Program w) (limited safe : Bool) (cfg : Cfg) {code : List X86}
    (hcomp : compileX86 w p limited safe cfg.aE.toNat cfg.aI.toNat cfg.aO.toNat = some code)
    (hfetch : cfg.fetch = fetchFast (fetchTable code)) (hsmall : sizeAll code < 2 ^ 31)
    (hIO : cfg.aI ≠ cfg.aO) (hEI : cfg.aE ≠ cfg.aI) (hEO : cfg.aE ≠ cfg.aO)
    (hchk : BcWf.check p 11 = true) (hwin : -2147483648 < p.minAcc ∧ p.maxAcc < 2147483648)
    (htemps : alignedTemps p.temps * 8 < 2147483648)
    (hshift : ∀ (i : Nat) (sh : Int), p.insts[i]? = some (Bc.Instr.mov sh) → -2147483648 ≤ sh ∧ sh < 2147483648)
    (hnn : NoNoop p)
    (buf0 rsp0 ra : BitVec 64) (hrsp : rsp0.toNat % 16 = 8)
    (budget : Nat) (hb : budget < 2 ^ 64) (hlim : (limited && budget == 0) = false) (env : Env)
    (hoom : safe = true → ∀ n s', steps cfg n (initState (w := w) cfg buf0 rsp0 ra p.minAcc p.maxAcc budget env)
      = some s' → Bnd s')
    (hdiv : ∀ fuel, ∃ c, Bc.run p limited budget fuel env = .outOfFuel c) (n : Nat) :
    (∀ r, run cfg n (initState (w := w) cfg buf0 rsp0 ra p.minAcc p.maxAcc budget env) ≠ .ret r) ∧
    (∀ f r, run cfg n (initState (w := w) cfg buf0 rsp0 ra p.minAcc p.maxAcc budget env) ≠ .fault f r) := by
  obtain ⟨K, rfl, rfl, rfl, rfl, G⟩ := ctx_of_compiled p limited safe cfg hcomp hfetch hsmall hIO hEI hEO hchk hwin
    htemps hshift
  obtain ⟨hE, henv, htr, hbud⟩ := initState_entry K ⟨G.L.min0, G.L.max0⟩ ⟨Int.le_of_lt hwin.1, hwin.2⟩ buf0 rsp0 ra
    hrsp budget hb env
  exact running_iff.1 (conv_diverges' K G hnn hE henv htr hbud hlim hoom hdiv n)


end C03
end Hpbf
