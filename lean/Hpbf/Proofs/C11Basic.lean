/-
Soundness of the bytecode contract checker `BcWf.check` with respect to the execution semantics
`Bc.step` (property C11).
Part 1 (this file): list-as-set operations, temporaries, extraction of the facts tested by `localOk` /
`initOk` / `liveOk`.
Part 2 (`Proofs/C11Step.lean`): per-instruction analysis of `Bc.step` (control flow, absence of `.bad`,
tape frame, noninterference in the temporaries).
Part 3 (`Proofs/C11.lean`): reachability, history-instrumented runs, the dataflow invariants and the
run-level theorems.
-/
import Hpbf.BcWf

namespace Hpbf
namespace C11

open Bc BcWf

variable {w : Nat}

/-! ### list-as-set operations -/

theorem subset_iff {a b : List Nat} : subset a b = true ↔ ∀ x ∈ a, x ∈ b := by
  simp [subset]

theorem mem_inter {a b : List Nat} {x : Nat} : x ∈ inter a b ↔ x ∈ a ∧ x ∈ b := by
  simp [inter]

theorem mem_union {a b : List Nat} {x : Nat} : x ∈ union a b ↔ x ∈ a ∨ x ∈ b := by
  simp only [union, List.mem_append, List.mem_filter, Bool.not_eq_true', List.contains_eq_mem,
    decide_eq_false_iff_not]
  by_cases h : x ∈ a <;> simp [h]

theorem mem_diff {a b : List Nat} {x : Nat} : x ∈ diff a b ↔ x ∈ a ∧ x ∉ b := by
  simp [diff]

theorem mem_liveIn {ins : Instr w} {out : List Nat} {x : Nat} :
    x ∈ liveIn ins out ↔ x ∈ uses ins ∨ (x ∈ out ∧ x ∉ defs ins) := by
  simp [liveIn, mem_union, mem_diff]

/-! ### temporaries -/

theorem tget_tset (t : Temps w) (i j : Nat) (v : BitVec w) :
    tget (tset t i v) j = if j = i then v else tget t j := by
  induction t with
  | nil =>
    by_cases h : j = i
    · subst h; simp [tset, tget]
    · have h' : ¬ i = j := fun e => h e.symm
      simp [tset, tget, h, h']
  | cons kv rest ih =>
    obtain ⟨k, v'⟩ := kv
    by_cases hk : k = i
    · subst hk
      by_cases h : j = k
      · subst h; simp [tset, tget]
      · have h' : ¬ k = j := fun e => h e.symm
        simp [tset, tget, h, h']
    · by_cases h : j = i
      · subst h; simp [tset, tget, hk, ih]
      · simp [tset, tget, hk, ih, h]

theorem tget_tset_same (t : Temps w) (i : Nat) (v : BitVec w) : tget (tset t i v) i = v := by
  simp [tget_tset]

theorem tget_tset_ne (t : Temps w) {i j : Nat} (v : BitVec w) (h : j ≠ i) :
    tget (tset t i v) j = tget t j := by
  simp [tget_tset, h]

/-! ### what `localOk` tests -/

theorem range_all {n : Nat} {f : Nat → Bool} (h : (List.range n).all f = true) {i : Nat} (hi : i < n) :
    f i = true := by
  rw [List.all_eq_true] at h
  exact h i (List.mem_range.mpr hi)

theorem getElem?_lt {p : Program w} {i : Nat} {ins : Instr w} (h : p.insts[i]? = some ins) :
    i < p.insts.size := by
  by_cases hi : i < p.insts.size
  · exact hi
  · simp [Array.getElem?_eq_none (Nat.le_of_not_lt hi)] at h

structure LocalFacts (p : Program w) : Prop where
  min0 : p.minAcc ≤ 0
  max0 : 0 ≤ p.maxAcc
  liveSize : p.live.size = p.insts.size
  window : ∀ {i : Nat} {ins : Instr w}, p.insts[i]? = some ins → ∀ o ∈ memOps ins, p.minAcc ≤ o ∧ o ≤ p.maxAcc
  temps : ∀ {i : Nat} {ins : Instr w}, p.insts[i]? = some ins → ∀ t ∈ uses ins ++ defs ins, t < p.temps
  dst : ∀ {i : Nat} {ins : Instr w}, p.insts[i]? = some ins → dstOk ins = true
  succ : ∀ {i : Nat} {ins : Instr w}, p.insts[i]? = some ins → (succs p.insts.size i ins).isSome = true

theorem localOk_facts {p : Program w} (h : localOk p = true) : LocalFacts p := by
  simp only [localOk, Bool.and_eq_true, decide_eq_true_eq, beq_iff_eq] at h
  obtain ⟨⟨⟨h1, h2⟩, h3⟩, h4⟩ := h
  have key : ∀ {i : Nat} {ins : Instr w}, p.insts[i]? = some ins →
      (((∀ o ∈ memOps ins, p.minAcc ≤ o ∧ o ≤ p.maxAcc) ∧ (∀ t ∈ uses ins ++ defs ins, t < p.temps)) ∧
        dstOk ins = true) ∧ (succs p.insts.size i ins).isSome = true := by
    intro i ins hi
    have := range_all h4 (getElem?_lt hi)
    simp only [hi, Bool.and_eq_true, List.all_eq_true, decide_eq_true_eq] at this
    exact this
  exact ⟨h1, h2, h3, fun hi => (key hi).1.1.1, fun hi => (key hi).1.1.2, fun hi => (key hi).1.2,
    fun hi => (key hi).2⟩

/-! ### what `initOk` tests -/

structure InitFacts (p : Program w) (I : Array (List Nat)) : Prop where
  size : I.size = p.insts.size
  entry : BcWf.getD I 0 = []
  uses : ∀ {i : Nat} {ins : Instr w}, p.insts[i]? = some ins → ∀ t ∈ uses ins, t ∈ BcWf.getD I i
  flow : ∀ {i : Nat} {ins : Instr w}, p.insts[i]? = some ins → ∃ ss, succs p.insts.size i ins = some ss ∧
    ∀ j ∈ ss, ∀ t ∈ BcWf.getD I j, t ∈ BcWf.getD I i ∨ t ∈ defs ins

theorem getD_oob {I : Array (List Nat)} {j : Nat} (h : I.size ≤ j) : BcWf.getD I j = [] := by
  simp [BcWf.getD, Array.getElem?_eq_none h]

theorem initOk_facts {p : Program w} {I : Array (List Nat)} (h : initOk p I = true) :
    InitFacts p I := by
  simp only [initOk, Bool.and_eq_true, beq_iff_eq, Bool.or_eq_true] at h
  obtain ⟨⟨h1, h2⟩, h3⟩ := h
  refine ⟨h1, ?_, ?_, ?_⟩
  · rcases h2 with h2 | h2
    · exact getD_oob (by omega)
    · simpa using h2
  · intro i ins hi t ht
    have := range_all h3 (getElem?_lt hi)
    simp only [hi, Bool.and_eq_true] at this
    exact subset_iff.mp this.1 t ht
  · intro i ins hi
    have := range_all h3 (getElem?_lt hi)
    simp only [hi, Bool.and_eq_true] at this
    have h2' := this.2
    cases hs : succs p.insts.size i ins with
    | none => simp [hs] at h2'
    | some ss =>
      refine ⟨ss, rfl, ?_⟩
      intro j hj t ht
      simp only [hs, List.all_eq_true, Bool.or_eq_true, decide_eq_true_eq] at h2'
      rcases h2' j hj with hge | hsub
      · rw [getD_oob (by omega)] at ht
        cases ht
      · exact mem_union.mp (subset_iff.mp hsub t ht)

/-! ### what `liveOk` tests -/

structure LiveFacts (p : Program w) (numRegs : Nat) (O : Array (List Nat)) : Prop where
  size : O.size = p.insts.size
  flow : ∀ {i : Nat} {ins : Instr w}, p.insts[i]? = some ins → ∃ ss, succs p.insts.size i ins = some ss ∧
    ∀ j ∈ ss, ∀ ij, p.insts[j]? = some ij → ∀ t ∈ liveIn ij (BcWf.getD O j), t ∈ BcWf.getD O i
  declared : ∀ {i : Nat} {ins : Instr w}, p.insts[i]? = some ins → isBranch ins = false →
    ∀ t ∈ BcWf.getD O i, t < numRegs → t < 16 → t ∈ defs ins ∨ ((p.live[i]?).getD 0).testBit t = true

theorem liveOk_facts {p : Program w} {numRegs : Nat} {O : Array (List Nat)}
    (h : liveOk p numRegs O = true) : LiveFacts p numRegs O := by
  simp only [liveOk, Bool.and_eq_true, beq_iff_eq] at h
  obtain ⟨h1, h3⟩ := h
  refine ⟨h1, ?_, ?_⟩
  · intro i ins hi
    have := range_all h3 (getElem?_lt hi)
    simp only [hi, Bool.and_eq_true] at this
    have h2' := this.1
    cases hs : succs p.insts.size i ins with
    | none => simp [hs] at h2'
    | some ss =>
      refine ⟨ss, rfl, ?_⟩
      intro j hj ij hij t ht
      simp only [hs, List.all_eq_true] at h2'
      have := h2' j hj
      simp only [hij] at this
      exact subset_iff.mp this t ht
  · intro i ins hi hb t ht hr h16
    have := range_all h3 (getElem?_lt hi)
    simp only [hi, Bool.and_eq_true] at this
    have h2' := this.2
    simp only [hb, Bool.false_or, List.all_eq_true] at h2'
    have := h2' t ht
    simp only [hr, h16, decide_true, Bool.and_self, Bool.not_true, Bool.false_or, Bool.or_eq_true,
      List.contains_eq_mem, decide_eq_true_eq] at this
    exact this

end C11
end Hpbf
