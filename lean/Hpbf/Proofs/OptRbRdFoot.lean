/-
Rebuild-round proofs: the relational footprint from the read-before-write footprint.  `RdAll s s' new` (unary:
what is not in `reads` and not definitely written before is not exposed; what becomes definitely written is
touched) together with `sim_of_unexposed` (`OptRbAgree.lean`) gives `FootStepV` and `FootBadV` for the validity
predicate "the run does not reach a `once` loop with a zero condition" — no semantic validity needed.
-/
import Hpbf.Proofs.OptRbRd5
import Hpbf.Proofs.OptRbAgree

namespace Hpbf
namespace OptProof
open Opt OptSem Ir

variable {w : Nat}

/-- Agreement relative to the pointer, as agreement on absolute addresses. -/
theorem AgreeOff.toAbs {K : Int → Prop} {σ1 σ2 : State w} (h : AgreeOff K σ1 σ2) :
    AgreeAbs (fun a => K (a - σ1.ptr)) σ1 σ2 := by
  refine ⟨h.1, h.2.1, h.2.2.1, ?_⟩
  intro a ha
  have h1 : σ1.tape.get (σ1.ptr + (a - σ1.ptr)) = σ2.tape.get (σ2.ptr + (a - σ1.ptr)) :=
    h.2.2.2 (a - σ1.ptr) ha
  have e1 : σ1.ptr + (a - σ1.ptr) = a := by omega
  have e2 : σ2.ptr + (a - σ1.ptr) = a := by rw [← h.1]; omega
  rw [e1, e2] at h1
  exact h1

/-- **The relational read footprint follows from the unary one**, for every start state whose run is not `Bad`. -/
theorem footStepV_of_rdAll {s s' : Rebuild w} {new : List (Instr w)} (h : RdAll s s' new) :
    FootStepV (fun σ => ¬ Bad new σ) s s' new := by
  intro hs K hK σ1 σ2 hnb hag
  have hagA := hag.toAbs
  have hne : ∀ a, Rest K s (a - σ1.ptr) → ¬ Exposes a new σ1 := by
    intro a hr he
    have e : σ1.ptr + (a - σ1.ptr) = a := by omega
    rw [← e] at he
    exact h.rd hs σ1 hnb _ (hK _ hr.1) hr.2 he
  refine (sim_of_unexposed new σ1 σ2 _ hagA hne).fin_strengthen.mono ?_
  rintro x y ⟨hxy, hex, _⟩
  have hpx : x.ptr = σ1.ptr := (phys_frame hex x rfl (h.ns hs)).1
  refine ⟨hxy.1, hxy.2.1, hxy.2.2.1, ?_⟩
  intro v hv
  show x.tape.get (x.ptr + v) = y.tape.get (y.ptr + v)
  rw [← hxy.1]
  apply hxy.2.2.2
  rintro ⟨hr, ht⟩
  have e : x.ptr + v - σ1.ptr = v := by rw [hpx]; omega
  rw [e] at hr
  rw [hpx] at ht
  by_cases hd : DefW s' v
  · exact h.wr hs σ1 x hnb v hd hr.2 ht
  · exact hv ⟨hr.1, hd⟩

/-- Badness is mirrored (so, from a start state whose run is not `Bad`, the second run is not `Bad` either). -/
theorem footBadV_of_rdAll {s s' : Rebuild w} {new : List (Instr w)} (h : RdAll s s' new)
    (V : State w → Prop) (hV : ∀ σ, V σ → ¬ Bad new σ) : FootBadV V s s' new := by
  intro hs K hK σ1 σ2 hv hag hbad
  have hagA := hag.toAbs
  have hne : ∀ a, Rest K s (a - σ1.ptr) → ¬ Exposes a new σ1 := by
    intro a hr he
    have e : σ1.ptr + (a - σ1.ptr) = a := by omega
    rw [← e] at he
    exact h.rd hs σ1 (hV σ1 hv) _ (hK _ hr.1) hr.2 he
  exact bad_of_unexposed hbad _ σ1 hagA hne

/-- All of `rebuildInsts`: relational read footprint and mirrored badness from not-`Bad` start states, with
`ReadsMono` — purely structural hypotheses. -/
theorem rebuildInsts_footNB {ps : List (Rebuild w)} {l : List (Instr w)} {s : Rebuild w}
    {os os' : Orders} {s' : Rebuild w} {done : Bool}
    (hr : (rebuildInsts ps s l).run os = .ok ((s', done), os')) (hwf : Wf s) (hc : CanonSt s)
    (hcl : CanonL l) :
    ∃ new, s'.insts = s.insts ++ new ∧ FootStepV (fun σ => ¬ Bad new σ) s s' new ∧
      FootBadV (fun σ => ¬ Bad new σ) s s' new ∧ ReadsMono s s' ∧ RdAll s s' new := by
  obtain ⟨newI, _, hi, _, _, hall⟩ := (rebuildInsts_rstep_all l hr hwf hc hcl).ext
  exact ⟨newI, hi, footStepV_of_rdAll hall, footBadV_of_rdAll hall _ (fun _ h => h), hall.mono, hall⟩

theorem rebuildInstr_footNB {ps : List (Rebuild w)} {s : Rebuild w} (i : Instr w) {os os' : Orders}
    {s' : Rebuild w} (hr : (rebuildInstr ps s i).run os = .ok (s', os')) (hwf : Wf s) (hc : CanonSt s)
    (hci : CanonL [i]) :
    ∃ new, s'.insts = s.insts ++ new ∧ FootStepV (fun σ => ¬ Bad new σ) s s' new ∧
      FootBadV (fun σ => ¬ Bad new σ) s s' new ∧ ReadsMono s s' ∧ RdAll s s' new := by
  obtain ⟨newI, _, hi, _, _, hall⟩ := (rebuildInstr_rstep_all i hr hwf hc hci).ext
  exact ⟨newI, hi, footStepV_of_rdAll hall, footBadV_of_rdAll hall _ (fun _ h => h), hall.mono, hall⟩

end OptProof
end Hpbf

#print axioms Hpbf.OptProof.footStepV_of_rdAll
#print axioms Hpbf.OptProof.rebuildInsts_footNB
