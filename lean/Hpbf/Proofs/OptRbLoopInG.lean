/-
Rebuild-round proofs, stage 4: `loopInsideIf` for states whose analysis may make `canAskParentFor` depend on
`shift` (hypothesis `AskStable` instead of `ShiftFree`).  Proofs as in `OptRbLoopIn.lean`.
-/
import Hpbf.Proofs.OptRbLoopIn
import Hpbf.Proofs.OptRbInlineG

namespace Hpbf
namespace OptProof
open Opt OptSem Ir

variable {w : Nat}

/-- The first half of `loopInsideIf`: the block itself. -/
theorem loopInsideIf_first_g {shP shC shS cS : Int} {bodyS : List (Instr w)} {oS : Bool} {isLoop : Bool}
    {s : Rebuild w} {ps : List (Rebuild w)} {sub : Rebuild w} {cond : Int} {L : OptLoop w}
    {C : List Int} {pc : List (Rebuild w)} {sub0 : Rebuild w} {os os' : Orders} {s' : Rebuild w}
    {G Gc : State w → Prop}
    (hr : ((if L.atMostOnce then Opt.inline s ps sub
      else if L.finite && sub.shift == s.shift && sub.insts.isEmpty && sub.pending.length == 1
          && mHas sub.pending cond then performAll s ps 0 [(cond, Expr.val 0#w)]
      else loopOrIf s ps sub cond true L C : M (Rebuild w))).run os = .ok (s', os'))
    (hwf : Wf s) (hsf : sub.subShift = false → AskStable s sub.shift) (hcond : cond = cS + shP)
    (hsh : shC + shS = (sub.shift - s.shift) + shP)
    (hrep : ChildRep Gc shP shC pc sub0 [] sub bodyS)
    (hentry : ∀ σE σS : State w, SameMem shP σS σE → σS.rd cS ≠ 0#w → Gc σS →
      ∃ M0, RelAt shP sub0 pc M0 σE σS)
    (hGc : ∀ M0 σE σS, RelAt shP s ps M0 σE σS → G σS → ∀ k σk, Head cS shS bodyS σS k σk →
      (L.atMostOnce = true → k = 0) → σk.rd cS ≠ 0#w → Gc σk)
    (hwfc : Wf sub)
    (hpre : sub.subShift = false → ChildPre Gc shP shC pc sub0 sub cS bodyS)
    (hkv : sub.subShift = false →
      ∀ v e, mGet sub.written v = some (.known e) → ∀ x ∈ Expr.variables e, x ∈ sub.reads)
    (hF : LoopFacts G shP s ps isLoop cS shS bodyS oS L C)
    (hamoalo : L.atMostOnce = true → L.atLeastOnce = true) :
    Wf s' ∧ s'.anal = s.anal ∧ s'.cond = s.cond ∧
    ∃ shE new, (shE = shP ∨ shE = shC + shS) ∧ (s'.noReturn = false → shE = shP + (s'.shift - s.shift)) ∧
      s'.insts = s.insts ++ new ∧ StepNG G shP shE ps s s' [blockInstr isLoop cS shS bodyS oS] new := by
  split at hr
  · -- inlined
    rename_i hamo
    have hne : ∀ M0 σE σS, RelAt shP s ps M0 σE σS → G σS → σS.rd cS ≠ 0#w := hF.alo (hamoalo hamo)
    have hconv : ∀ {s1 : Rebuild w} {new : List (Instr w)} {M0 : Mem w} {σE σS : State w},
        RelAt shP s ps M0 σE σS → G σS →
        Sim (fun a b => StepQ (shC + shS) ps s1 M0 σE (a.mov shS) b) bodyS new σS σE →
        Sim (StepQ (shC + shS) ps s1 M0 σE) [blockInstr isLoop cS shS bodyS oS] new σS σE := by
      intro s1 new M0 σE σS hrel hG hs
      cases hil : isLoop with
      | true =>
        simp only [blockInstr, if_true]
        exact Sim.of_loop_once (hne M0 σE σS hrel hG)
          (hF.amo hamo hil M0 σE σS hrel hG (hne M0 σE σS hrel hG)) hs
      | false =>
        simp only [blockInstr, Bool.false_eq_true, if_false]
        exact Sim.of_ifnz_once (hne M0 σE σS hrel hG) hs
    cases hss : sub.subShift with
    | true =>
      obtain ⟨w1, w2, w3, w4, w5, w6, new, hi, hcore⟩ := inline_shift_ok (shS := shS) hr hwf hwfc hss hrep hentry hne
        (fun M0 σE σS hrel hG => hGc M0 σE σS hrel hG 0 σS Head.zero (fun _ => rfl) (hne M0 σE σS hrel hG))
      refine ⟨w1, w3, w4, shC + shS, new, Or.inr rfl, ?_, hi, fun h => absurd (w2.symm.trans h) (by simp), ?_⟩
      · intro hnr
        cases hsn : sub.noReturn with
        | true => rw [w5 hsn] at hnr; cases hnr
        | false => rw [w6 hsn, hsh]; omega
      · intro M0 σE σS hrel hG
        obtain ⟨hs, hb⟩ := hcore M0 σE σS hrel hG
        exact ⟨hconv hrel hG hs, hb⟩
    | false =>
      obtain ⟨w1, w2, _, w3, w4, w5, w6, new, hi, hcore⟩ :=
        inline_stay_ok_g (shS := shS) hr hwf (hpre hss) (hsf hss) (hkv hss) hne
          (fun M0 σE σS hrel hG => hGc M0 σE σS hrel hG 0 σS Head.zero (fun _ => rfl) (hne M0 σE σS hrel hG))
      refine ⟨w1, w3, w4, shC + shS, new, Or.inr rfl, ?_, hi, fun h => w2.symm.trans h, ?_⟩
      · intro hnr
        cases hsn : sub.noReturn with
        | true => rw [w5 hsn] at hnr; cases hnr
        | false => rw [w6 hsn, hsh]; omega
      · intro M0 σE σS hrel hG
        obtain ⟨hs, hb⟩ := hcore M0 σE σS hrel hG
        exact ⟨hconv hrel hG hs, hb⟩
  · rename_i hamo
    have hil : isLoop = true := by
      cases h : isLoop with
      | true => rfl
      | false => exact absurd (hF.ifamo h) hamo
    subst hil
    split at hr
    · -- `cond := 0`
      rename_i hc0
      simp only [Bool.and_eq_true, beq_iff_eq, List.isEmpty_iff] at hc0
      obtain ⟨⟨⟨⟨hfin, hshift⟩, hins⟩, hlen⟩, hhas⟩ := hc0
      obtain ⟨w1, w2, new, hi, hst⟩ := cond_zero_ok (shS := shS) (oS := oS) (G := G) hr hwf hins hlen hhas hrep hentry
        (fun M0 σE σS hrel hG k σk hh => hGc M0 σE σS hrel hG k σk hh (fun h => absurd h hamo)) hcond
        (by rw [hsh, hshift]; omega) (hF.fin hfin (by simpa using hamo))
      refine ⟨w1, w2.2.1, w2.2.2.2.1, shP, new, Or.inl rfl, fun _ => by rw [w2.2.2.1]; omega, hi, ?_⟩
      simpa only [blockInstr, if_true] using hst
    · cases hns : (sub.subShift || sub.shift != s.shift) with
      | true =>
        obtain ⟨w1, w2, w3, w4, w5, new, hi, hst⟩ := loopOrIf_shift_ok (oS := oS) hr hwf hwfc hns hcond hsh hrep hentry
          (fun M0 σE σS hrel hG k σk hh _ => hGc M0 σE σS hrel hG k σk hh (fun h => absurd h hamo)) hF.alo hF.nc
        exact ⟨w1, w3, w4, shP, new, Or.inl rfl, fun _ => by rw [w5]; omega, hi, hst⟩
      | false =>
        have hss : sub.subShift = false := by
          simp only [Bool.or_eq_false_iff] at hns; exact hns.1
        have hse : sub.shift = s.shift := by
          simp only [Bool.or_eq_false_iff, bne_eq_false_iff_eq] at hns; exact hns.2
        obtain ⟨w1, w2, new, hi, hst⟩ := loopOrIf_stay_ok' (oS := oS) hr hwf (hpre hss) hns hcond
          (by rw [hsh, hse]; omega)
          (fun M0 σE σS hrel hG k σk hh _ => hGc M0 σE σS hrel hG k σk hh (fun h => absurd h hamo))
          hF.alo hF.nc hF.ne hF.const
        exact ⟨w1, w2.2.1, w2.2.2.2.1, shP, new, Or.inl rfl, fun _ => by rw [w2.2.2.1]; omega, hi, hst⟩

/-- `loopInsideIf`: the block, then the operations moved behind it. -/
theorem loopInsideIf_ok_g {shP shC shS cS : Int} {bodyS : List (Instr w)} {oS : Bool} {isLoop : Bool}
    {s : Rebuild w} {ps : List (Rebuild w)} {sub : Rebuild w} {cond : Int} {L : OptLoop w}
    {after : List (Int × Expr w)}
    {C : List Int} {pc : List (Rebuild w)} {sub0 : Rebuild w} {os os' : Orders} {s' : Rebuild w}
    {G Gc : State w → Prop}
    (hr : (loopInsideIf s ps sub cond L after C).run os = .ok (s', os'))
    (hwf : Wf s) (hsf : sub.subShift = false → AskStable s sub.shift) (hcond : cond = cS + shP)
    (hsh : shC + shS = (sub.shift - s.shift) + shP)
    (hrep : ChildRep Gc shP shC pc sub0 [] sub bodyS)
    (hentry : ∀ σE σS : State w, SameMem shP σS σE → σS.rd cS ≠ 0#w → Gc σS →
      ∃ M0, RelAt shP sub0 pc M0 σE σS)
    (hGc : ∀ M0 σE σS, RelAt shP s ps M0 σE σS → G σS → ∀ k σk, Head cS shS bodyS σS k σk →
      (L.atMostOnce = true → k = 0) → σk.rd cS ≠ 0#w → Gc σk)
    (hwfc : Wf sub)
    (hpre : sub.subShift = false → ChildPre Gc shP shC pc sub0 sub cS bodyS)
    (hkv : sub.subShift = false →
      ∀ v e, mGet sub.written v = some (.known e) → ∀ x ∈ Expr.variables e, x ∈ sub.reads)
    (hF : LoopFacts G shP s ps isLoop cS shS bodyS oS L C)
    (hamoalo : L.atMostOnce = true → L.atLeastOnce = true)
    (hafter : after ≠ [] → shP = 0 ∧ sub.shift = s.shift) :
    Wf s' ∧ s'.anal = s.anal ∧ s'.cond = s.cond ∧
    ∃ shE new, (s'.noReturn = false → shE = shP + (s'.shift - s.shift)) ∧
      s'.insts = s.insts ++ new ∧
      StepNG G shP shE ps s s' ([blockInstr isLoop cS shS bodyS oS] ++ [.calc after]) new := by
  obtain ⟨s1, os1, h1, h2⟩ := loopInsideIf_run hr
  obtain ⟨w1, w2, w3, shE, new1, hE, hEs, hi1, hst1⟩ :=
    loopInsideIf_first_g h1 hwf hsf hcond hsh hrep hentry hGc hwfc hpre hkv hF hamoalo
  have hE0 : after ≠ [] → shE = 0 := by
    intro ha
    obtain ⟨a1, a2⟩ := hafter ha
    rcases hE with h | h
    · rw [h, a1]
    · rw [h, hsh, a1, a2]; omega
  by_cases ha : after = []
  · subst ha
    rw [performAll_nil, run_pure] at h2
    cases h2
    have h2' : (performAll s' ps shE []).run os' = .ok (s', os') := by rw [performAll_nil]; rfl
    obtain ⟨_, _, _, new2, hi2, _, hsub2, hst2⟩ := performAll_stepN w1 h2'
    refine ⟨w1, w2, w3, shE, new1 ++ new2, hEs, by rw [← List.append_assoc, ← hi1, ← hi2], ?_⟩
    exact hst1.trans_un ⟨hsub2, fun M0 σE σS hrel _ => hst2 M0 σE σS hrel⟩
  · have h0 := hE0 ha
    subst h0
    obtain ⟨v1, v2, v3, new2, hi2, _, hsub2, hst2⟩ := performAll_stepN w1 h2
    refine ⟨v1, v2.2.1.trans w2, v2.2.2.2.1.trans w3, 0, new1 ++ new2,
      fun hn => by rw [v2.2.2.1]; exact hEs (v3 ▸ hn), by rw [hi2, hi1, List.append_assoc], ?_⟩
    exact hst1.trans_un ⟨hsub2, fun M0 σE σS hrel _ => hst2 M0 σE σS hrel⟩

end OptProof
end Hpbf
