/-
Rebuild-round proofs: READ-BEFORE-WRITE footprint, part 3: the component `RdAll s s' new` of a rebuild step (in
runs of `new` that do not reach a `once` loop with a zero condition, a cell that is not in `reads` afterwards and
was not definitely written before is not exposed; a cell that becomes definitely written is really touched), its
composition, the state invariant `RdSt`, the step relation `RStep`, trace lemmas for a non-moving `loop` / `ifnz`,
and the non-loop arms of `rebuildInstr`.
-/
import Hpbf.Proofs.OptRbRd2
import Hpbf.Proofs.OptRbShape3

namespace Hpbf
namespace OptProof
open Opt OptSem Ir

variable {w : Nat}

/-! ### the component -/

structure RdAll (s s' : Rebuild w) (new : List (Instr w)) : Prop where
  mono : ReadsMono s s'
  ns : s'.subShift = false → nsL new
  rd : s'.subShift = false → ∀ σ : State w, ¬ Bad new σ → ∀ v, v ∉ s'.reads → ¬ DefW s v →
    ¬ Exposes (σ.ptr + v) new σ
  wr : s'.subShift = false → ∀ σ σ1 : State w, ¬ Bad new σ → ∀ v, DefW s' v → ¬ DefW s v →
    ¬ Thru (σ.ptr + v) new σ σ1

theorem RdAll.refl (s : Rebuild w) : RdAll s s [] :=
  ⟨ReadsMono.refl s, fun _ => by simp [nsL], fun _ σ _ v _ _ h => not_exposes_nil _ σ h,
    fun _ _ _ _ _ h1 h2 _ => h2 h1⟩

/-- After an uncertain move the claims are void. -/
theorem RdAll.void {s s' : Rebuild w} (hs : s'.subShift = true) (hm : ReadsMono s s') (new : List (Instr w)) :
    RdAll s s' new :=
  ⟨hm, fun h => absurd (hs.symm.trans h) (by simp), fun h => absurd (hs.symm.trans h) (by simp),
    fun h => absurd (hs.symm.trans h) (by simp)⟩

theorem RdAll.trans {a b c : Rebuild w} {n1 n2 : List (Instr w)} (h1 : RdAll a b n1) (h2 : RdAll b c n2) :
    RdAll a c (n1 ++ n2) := by
  refine ⟨h1.mono.trans h2.mono, fun hs => (nsL_append _ _).2 ⟨h1.ns (h2.mono.2 hs), h2.ns hs⟩, ?_, ?_⟩
  · intro hs σ hnb v hv hd hex
    have hsb := h2.mono.2 hs
    have hnb1 : ¬ Bad n1 σ := fun h => hnb (bad_append.2 (Or.inl h))
    rcases exposes_append hex with h | ⟨σ1, ht, he⟩
    · exact h1.rd hsb σ hnb1 v (fun h' => hv (h2.mono.1 v h')) hd h
    · have hnb2 : ¬ Bad n2 σ1 := fun h => hnb (bad_append.2 (Or.inr ⟨σ1, thru_exec ht, h⟩))
      by_cases hdb : DefW b v
      · exact h1.wr hsb σ σ1 hnb1 v hdb hd ht
      · have hp := thru_ptr ht (h1.ns hsb)
        rw [← hp] at he
        exact h2.rd hs σ1 hnb2 v hv hdb he
  · intro hs σ σ' hnb v hdc hda ht
    have hsb := h2.mono.2 hs
    have hnb1 : ¬ Bad n1 σ := fun h => hnb (bad_append.2 (Or.inl h))
    obtain ⟨σ1, t1, t2⟩ := thru_append ht
    have hnb2 : ¬ Bad n2 σ1 := fun h => hnb (bad_append.2 (Or.inr ⟨σ1, thru_exec t1, h⟩))
    by_cases hdb : DefW b v
    · exact h1.wr hsb σ σ1 hnb1 v hdb hda t1
    · have hp := thru_ptr t1 (h1.ns hsb)
      rw [← hp] at t2
      exact h2.wr hs σ1 σ' hnb2 v hdc hdb t2

/-- Only `written`, `reads`, `subShift` of the two states matter; the start state's `reads` may shrink, the end
state's may grow. -/
theorem RdAll.congr {s s0 s1 s' : Rebuild w} {new : List (Instr w)} (h : RdAll s0 s1 new)
    (hw0 : s0.written = s.written) (hr0 : ∀ v, v ∈ s.reads → v ∈ s0.reads) (hs0 : s0.subShift = s.subShift)
    (hw1 : s'.written = s1.written) (hr1 : ∀ v, v ∈ s1.reads → v ∈ s'.reads) (hs1 : s'.subShift = s1.subShift) :
    RdAll s s' new := by
  refine ⟨⟨fun v hv => hr1 v (h.mono.1 v (hr0 v hv)), fun hh => by rw [← hs0]; exact h.mono.2 (by rw [← hs1]; exact hh)⟩,
    fun hh => h.ns (by rw [← hs1]; exact hh), ?_, ?_⟩
  · intro hh σ hnb v hv hd
    exact h.rd (by rw [← hs1]; exact hh) σ hnb v (fun h' => hv (hr1 v h')) (fun h' => hd ((DefW.congr hw0 v).1 h'))
  · intro hh σ σ1 hnb v hd' hd
    exact h.wr (by rw [← hs1]; exact hh) σ σ1 hnb v ((DefW.congr hw1 v).1 hd')
      (fun h' => hd ((DefW.congr hw0 v).1 h'))

/-- A step that changes neither `written` nor `subShift`, only grows `reads`, and emits nothing. -/
theorem RdAll.of_same {s s' : Rebuild w} (hw : s'.written = s.written) (hr : ∀ v, v ∈ s.reads → v ∈ s'.reads)
    (hs : s'.subShift = s.subShift) : RdAll s s' [] :=
  (RdAll.refl s).congr rfl (fun _ h => h) rfl hw hr hs

/-- Groups, then more code: the general way to close a `RdC` step whose exceptions `E` are written by the code
that follows. -/
theorem RdAll.calcs_then {E : Int → Prop} {s s1 s' : Rebuild w} {comps : List (List (Int × Expr w))}
    {tail : List (Instr w)} (h : RdC (fun _ => False) E s s1 comps) (hm1 : ReadsMono s s1)
    (hm2 : ReadsMono s1 s') (hns : s'.subShift = false → nsL tail)
    (hT1 : s'.subShift = false → ∀ τ : State w, ¬ Bad tail τ → ∀ v, v ∉ s'.reads → ¬ DefW s v → ThruC v comps →
      ¬ Exposes (τ.ptr + v) tail τ)
    (hT2 : s'.subShift = false → ∀ τ τ1 : State w, ¬ Bad tail τ → ∀ v, DefW s' v → ¬ DefW s v →
      (¬ DefW s1 v ∨ E v) → ThruC v comps → ¬ Thru (τ.ptr + v) tail τ τ1) :
    RdAll s s' (comps.map Instr.calc ++ tail) := by
  refine ⟨hm1.trans hm2, fun hs => (nsL_append _ _).2 ⟨nsL_calcs comps, hns hs⟩, ?_, ?_⟩
  · intro hs σ hnb v hv hd hex
    obtain ⟨rd1, _⟩ := h (hm2.2 hs)
    have hnbT : ¬ Bad tail (comps.foldl doCalc σ) := fun hb => hnb ((bad_calcs_iff comps tail σ).2 hb)
    rcases exposes_append hex with h' | ⟨σ1, ht, he⟩
    · exact rd1 v (fun h'' => hv (hm2.1 v h'')) (Or.inl hd) ((exposes_calcs_iff comps σ v).1 h')
    · obtain ⟨htc, e⟩ := (thru_calcs_iff comps σ σ1 v).1 ht
      subst e
      have hp : (comps.foldl doCalc σ).ptr = σ.ptr := (foldl_doCalc_meta comps σ).1
      rw [← hp] at he
      exact hT1 hs _ hnbT v hv hd htc he
  · intro hs σ σ' hnb v hd' hd ht
    obtain ⟨_, wr1⟩ := h (hm2.2 hs)
    have hnbT : ¬ Bad tail (comps.foldl doCalc σ) := fun hb => hnb ((bad_calcs_iff comps tail σ).2 hb)
    obtain ⟨σ1, t1, t2⟩ := thru_append ht
    obtain ⟨htc, e⟩ := (thru_calcs_iff comps σ σ1 v).1 t1
    subst e
    have hp : (comps.foldl doCalc σ).ptr = σ.ptr := (foldl_doCalc_meta comps σ).1
    rw [← hp] at t2
    by_cases hd1 : DefW s1 v
    · by_cases he : E v
      · exact hT2 hs _ σ' hnbT v hd' hd (Or.inr he) htc t2
      · exact wr1 v hd1 hd he htc
    · exact hT2 hs _ σ' hnbT v hd' hd (Or.inl hd1) htc t2

/-- A plain emission step. -/
theorem RdAll.of_rdC {s s' : Rebuild w} {comps : List (List (Int × Expr w))}
    (h : RdC (fun _ => False) (fun _ => False) s s' comps) (hm : ReadsMono s s') :
    RdAll s s' (comps.map Instr.calc) := by
  have := RdAll.calcs_then (tail := []) h hm (ReadsMono.refl s') (fun _ => by simp [nsL])
    (fun _ τ _ v _ _ _ he => not_exposes_nil _ τ he)
    (fun _ τ τ1 _ v hd' _ hor _ _ => hor.elim (fun h' => h' hd') id)
  rw [List.append_nil] at this
  exact this

/-! ### trace lemmas for one non-moving `loop` / `ifnz` -/

theorem bad_once_weaken {c sh : Int} {I : List (Instr w)} {once : Bool} {rest : List (Instr w)} {σ : State w}
    (h : Bad (.loop c sh I false :: rest) σ) : Bad (.loop c sh I once :: rest) σ := by
  cases h with
  | loopSkip hz hb => exact .loopSkip hz hb
  | loopIter hnz hex hb => exact .loopIter hnz hex hb
  | loopIn hnz hb => exact .loopIn hnz hb

/-- A non-moving loop exposes nothing that neither its test nor its body (at any head) exposes. -/
theorem not_exposes_loop_aux {a p c : Int} {I : List (Instr w)} (hc : p + c ≠ a)
    (hbody : ∀ σ : State w, σ.ptr = p → ¬ Bad I σ → ¬ Exposes a I σ) (hns : nsL I) {once : Bool}
    {l : List (Instr w)} {τ : State w} (h : Exposes a l τ) :
    l = [Instr.loop c 0 I once] → τ.ptr = p → ¬ Bad [Instr.loop c 0 I false] τ → False := by
  induction h with
  | outHere _ => intro hl; cases hl
  | outNext _ _ _ => intro hl; cases hl
  | inNext _ _ _ _ => intro hl; cases hl
  | calcHere _ => intro hl; cases hl
  | calcNext _ _ _ => intro hl; cases hl
  | loopHere hp' =>
    intro hl hp _
    simp only [List.cons.injEq, Instr.loop.injEq] at hl
    obtain ⟨⟨rfl, _, _, _⟩, _⟩ := hl
    rw [hp] at hp'
    exact hc hp'
  | loopSkip _ hrest _ =>
    intro hl _ _
    simp only [List.cons.injEq, Instr.loop.injEq] at hl
    obtain ⟨_, rfl⟩ := hl
    cases hrest
  | loopIn hnz hb _ =>
    intro hl hp hnb
    simp only [List.cons.injEq, Instr.loop.injEq] at hl
    obtain ⟨⟨rfl, rfl, rfl, _⟩, rfl⟩ := hl
    exact hbody _ hp (fun hb' => hnb (.loopIn hnz hb')) hb
  | @loopIter c' sh' body' once' rest' σ σ1 hnz ht _ ih =>
    intro hl hp hnb
    simp only [List.cons.injEq, Instr.loop.injEq] at hl
    obtain ⟨⟨rfl, rfl, rfl, rfl⟩, rfl⟩ := hl
    refine ih rfl ?_ ?_
    · show σ1.ptr + 0 = p
      rw [Int.add_zero, thru_ptr ht hns, hp]
    · exact fun hb' => hnb (.loopIter hnz (thru_exec ht) hb')
  | ifHere _ => intro hl; cases hl
  | ifSkip _ _ _ => intro hl; cases hl
  | ifIn _ _ _ => intro hl; cases hl
  | ifIter _ _ _ _ => intro hl; cases hl

theorem not_exposes_loop {a c : Int} {I : List (Instr w)} {once : Bool} {τ : State w}
    (hc : τ.ptr + c ≠ a)
    (hbody : ∀ σ : State w, σ.ptr = τ.ptr → ¬ Bad I σ → ¬ Exposes a I σ) (hns : nsL I)
    (hnb : ¬ Bad [Instr.loop c 0 I once] τ) : ¬ Exposes a [Instr.loop c 0 I once] τ :=
  fun h => not_exposes_loop_aux hc hbody hns h rfl rfl (fun hb => hnb (bad_once_weaken hb))

theorem not_exposes_ifnz {a c : Int} {I : List (Instr w)} {τ : State w}
    (hc : τ.ptr + c ≠ a) (hbody : ¬ Bad I τ → ¬ Exposes a I τ)
    (hnb : ¬ Bad [Instr.ifnz c 0 I] τ) : ¬ Exposes a [Instr.ifnz c 0 I] τ := by
  intro h
  cases h with
  | ifHere hp => exact hc hp
  | ifSkip _ hrest => cases hrest
  | ifIn hnz hb => exact hbody (fun hb' => hnb (.ifIn hnz hb')) hb
  | ifIter _ _ hrest => cases hrest

/-- The test of a loop / if reads the condition cell. -/
theorem thru_loop_cond {a c sh : Int} {I : List (Instr w)} {once : Bool} {rest : List (Instr w)}
    {τ τ1 : State w} (h : Thru a (.loop c sh I once :: rest) τ τ1) : τ.ptr + c ≠ a := by
  cases h with
  | loopSkip _ hp _ => exact hp
  | loopIter _ hp _ _ => exact hp

theorem thru_ifnz_cond {a c sh : Int} {I : List (Instr w)} {rest : List (Instr w)}
    {τ τ1 : State w} (h : Thru a (.ifnz c sh I :: rest) τ τ1) : τ.ptr + c ≠ a := by
  cases h with
  | ifSkip _ hp _ => exact hp
  | ifIter _ hp _ _ => exact hp

/-- A loop marked `once` whose body (entered at the first head) cannot be run through is not run through. -/
theorem not_thru_loop_once {a c sh : Int} {I : List (Instr w)} {rest : List (Instr w)} {τ τ1 : State w}
    (hnb : ¬ Bad (.loop c sh I true :: rest) τ) (hbody : ∀ τ', ¬ Thru a I τ τ') :
    ¬ Thru a (.loop c sh I true :: rest) τ τ1 := by
  intro h
  cases h with
  | loopSkip hz _ _ => exact hnb (.here hz)
  | loopIter _ _ hb _ => exact hbody _ hb

/-! ### the state invariant and the step relation -/

/-- The code emitted so far, seen from an empty start. -/
structure RdSt (s : Rebuild w) : Prop where
  all : RdAll (Rebuild.new 0 none .zero none) s s.insts
  ok : RdOkL s.insts s.subAnal

theorem not_defW_new (sh : Int) (c : Option Int) (p : OptParent) (an : Option (OptAnalysis w)) (v : Int) :
    ¬ DefW (Rebuild.new sh c p an : Rebuild w) v := not_defW_of_none rfl

/-- A step that appends code together with nodes. -/
structure RStep (s s' : Rebuild w) : Prop where
  ext : ∃ newI newA, s'.insts = s.insts ++ newI ∧ s'.subAnal = s.subAnal ++ newA ∧ RdOkL newI newA ∧
    RdAll s s' newI

theorem RStep.refl (s : Rebuild w) : RStep s s :=
  ⟨[], [], by simp, by simp, rdOkL_nil, RdAll.refl s⟩

theorem RStep.trans {a b c : Rebuild w} (h1 : RStep a b) (h2 : RStep b c) : RStep a c := by
  obtain ⟨i1, a1, e1, f1, g1, r1⟩ := h1.ext
  obtain ⟨i2, a2, e2, f2, g2, r2⟩ := h2.ext
  exact ⟨i1 ++ i2, a1 ++ a2, by rw [e2, e1, List.append_assoc], by rw [f2, f1, List.append_assoc],
    rdOkL_append g1 g2, r1.trans r2⟩

theorem RStep.rdSt {s s' : Rebuild w} (h : RStep s s') (hs : RdSt s) : RdSt s' := by
  obtain ⟨i1, a1, e1, f1, g1, r1⟩ := h.ext
  refine ⟨?_, by rw [e1, f1]; exact rdOkL_append hs.ok g1⟩
  rw [e1]
  exact hs.all.trans r1

/-- A step that only changes fields other than `insts`, `subAnal`, `written`, `subShift`, and may grow `reads`. -/
theorem RStep.of_same {s s' : Rebuild w} (hi : s'.insts = s.insts) (ha : s'.subAnal = s.subAnal)
    (hw : s'.written = s.written) (hr : ∀ v, v ∈ s.reads → v ∈ s'.reads) (hss : s'.subShift = s.subShift) :
    RStep s s' :=
  ⟨[], [], by rw [hi]; simp, by rw [ha]; simp, rdOkL_nil, RdAll.of_same hw hr hss⟩

theorem RdSt.of_same {s s' : Rebuild w} (h : RdSt s) (hi : s'.insts = s.insts) (ha : s'.subAnal = s.subAnal)
    (hw : s'.written = s.written) (hr : ∀ v, v ∈ s.reads → v ∈ s'.reads) (hss : s'.subShift = s.subShift) :
    RdSt s' := (RStep.of_same hi ha hw hr hss).rdSt h

theorem rdSt_new (shift : Int) (cond : Option Int) (par : OptParent) (anal : Option (OptAnalysis w)) :
    RdSt (Rebuild.new shift cond par anal) :=
  ⟨RdAll.of_same rfl (fun _ h => h) rfl, rdOkL_nil⟩

/-- What the invariant says about a state with `subShift = false`. -/
theorem RdSt.rd {s : Rebuild w} (h : RdSt s) (hs : s.subShift = false) {σ : State w} (hnb : ¬ Bad s.insts σ)
    {v : Int} (hv : v ∉ s.reads) : ¬ Exposes (σ.ptr + v) s.insts σ :=
  h.all.rd hs σ hnb v hv (not_defW_new _ _ _ _ v)

theorem RdSt.wr {s : Rebuild w} (h : RdSt s) (hs : s.subShift = false) {σ σ1 : State w} (hnb : ¬ Bad s.insts σ)
    {v : Int} (hv : DefW s v) : ¬ Thru (σ.ptr + v) s.insts σ σ1 :=
  h.all.wr hs σ σ1 hnb v hv (not_defW_new _ _ _ _ v)

/-- An emission step is a step. -/
theorem EmitRd.rstep {ps : List (Rebuild w)} {s s' : Rebuild w} {comps : List (List (Int × Expr w))}
    (h : EmitRd ps s s' comps) : RStep s s' :=
  ⟨comps.map Instr.calc, [], h.1.insts, by rw [h.1.subAnal]; simp, rdOkL_nonblocks (noBlocks_calcs comps),
    RdAll.of_rdC h.2.2 h.2.1.mono⟩

/-! ### `performAll` and the non-loop arms of `rebuildInstr` -/

theorem performAll_rstep {s : Rebuild w} {ps : List (Rebuild w)} {shift : Int} {calcs : List (Int × Expr w)}
    {os os' : Orders} {s' : Rebuild w}
    (hr : (performAll s ps shift calcs).run os = .ok (s', os')) (hwf : Wf s) : RStep s s' := by
  obtain ⟨comps, _, hi, _, f, d⟩ := performAll_rd hr hwf
  have hn := performAll_nstep hr hwf
  exact ⟨comps.map Instr.calc, [], hi, by rw [hn.subAnal]; simp, rdOkL_nonblocks (noBlocks_calcs comps),
    RdAll.of_rdC d f.mono⟩

/-- `read x` followed by the instruction `output x`. -/
theorem output_rdAll (s : Rebuild w) (x : Int) :
    RdAll s ({ Opt.read s x with insts := (Opt.read s x).insts ++ [Instr.output x] } : Rebuild w)
      [.output x] := by
  have hsame := read_same s x
  have hw : (Opt.read s x).written = s.written := hsame.2.2.2.2.2.2.1
  refine ⟨read_readsMono s x, fun _ => by simp [nsL, nsI], ?_, ?_⟩
  · intro _ σ _ v hv hd hex
    cases hex with
    | outHere hp =>
      have : x = v := ptr_add_inj.1 hp
      subst this
      exact hv ((mem_reads_read s x x).2 (Or.inr ⟨rfl, hd⟩))
    | outNext _ hrest => cases hrest
  · intro _ σ σ1 _ v hd' hd _
    exact hd ((DefW.congr (s' := { Opt.read s x with insts := (Opt.read s x).insts ++ [Instr.output x] })
      (s := s) hw v).1 hd')

theorem rebuildInstr_straight_rstep {ps : List (Rebuild w)} {s : Rebuild w} (hwf : Wf s) {i : Instr w}
    (hi : C01Dse.isBlock i = false) {os os' : Orders} {s' : Rebuild w}
    (hr : (rebuildInstr ps s i).run os = .ok (s', os')) : RStep s s' := by
  have hn := rebuildInstr_nstep hr hwf hi
  obtain ⟨new, hin, hnb⟩ := hn.insts
  -- it suffices to give the component for some `new'` with the same instruction equation
  suffices h : ∃ new', s'.insts = s.insts ++ new' ∧ RdAll s s' new' by
    obtain ⟨new', e', r⟩ := h
    have : new' = new := List.append_cancel_left (e'.symm.trans hin)
    subst this
    exact ⟨new', [], hin, by rw [hn.subAnal]; simp, rdOkL_nonblocks hnb, r⟩
  cases i with
  | output src =>
    rw [rebuildInstr] at hr
    split at hr
    · rename_i x hx
      rw [run_pure] at hr
      cases hr
      refine ⟨[.output x], ?_, output_rdAll s x⟩
      show (Opt.read s x).insts ++ _ = _
      rw [(read_same s x).2.2.2.2.2.2.2.2.2.1]
    · rw [run_bind_ok] at hr
      obtain ⟨s1, os1, h1, h2⟩ := hr
      rw [run_pure] at h2
      cases h2
      obtain ⟨comps, r, f, d⟩ := emit_rd ps hwf (src + s.shift) h1
      refine ⟨comps.map Instr.calc ++ [.output (src + s.shift)], ?_,
        (RdAll.of_rdC d f.mono).trans (output_rdAll s1 (src + s.shift))⟩
      show (Opt.read s1 (src + s.shift)).insts ++ _ = _
      rw [(read_same s1 (src + s.shift)).2.2.2.2.2.2.2.2.2.1, r.insts, List.append_assoc]
  | input dst =>
    rw [rebuildInstr, run_bind_ok] at hr
    obtain ⟨s1, os1, h1, h2⟩ := hr
    rw [run_pure] at h2
    cases h2
    obtain ⟨comps, e, d⟩ := clobber_rdD h1 hwf (fun _ => False) (fun _ h => absurd h id)
    obtain ⟨_, _, _, c3, _⟩ := clobber_foot h1 hwf
    refine ⟨comps.map Instr.calc ++ [.input (dst + s.shift)], ?_, ?_⟩
    · show s1.insts ++ _ = _
      rw [e, List.append_assoc]
    · refine RdAll.calcs_then d c3 ⟨fun _ h => h, fun h => h⟩ (fun _ => by simp [nsL, nsI]) ?_ ?_
      · intro _ τ _ v _ _ _ hex
        cases hex with
        | inNext _ _ hrest => cases hrest
      · intro _ τ τ1 _ v hd' _ hor _ ht
        rcases hor with h | h
        · exact h hd'
        · cases ht with
          | inOk _ hp _ => exact hp (by rw [h])
  | «calc» calcs =>
    rw [rebuildInstr] at hr
    obtain ⟨comps, _, hi', _, f, d⟩ := performAll_rd hr hwf
    exact ⟨comps.map Instr.calc, hi', RdAll.of_rdC d f.mono⟩
  | loop c sh b o => simp [C01Dse.isBlock] at hi
  | ifnz c sh b => simp [C01Dse.isBlock] at hi

end OptProof
end Hpbf
