/-
Rebuild-round proofs, part 2: the static well-formedness of a `Rebuild` state (`Wf`: canonical maps, `reverse` is
the inverse index of `pending`) and its preservation by `removePending` / `insertPending` / `insertWritten`.
-/
import Hpbf.Proofs.OptRbMap

namespace Hpbf
namespace OptProof
open Opt OptSem

variable {w : Nat}

/-- `u` is recorded as a user of `v`. -/
def memR (R : List (Int × List Int)) (v u : Int) : Prop := ∃ us, mGet R v = some us ∧ u ∈ us

/-- `reverse` is the inverse index of `pending`: `u ∈ reverse v ↔ u ≠ v ∧ v ∈ vars (pending u)`. -/
def RevOk (P : List (Int × Expr w)) (R : List (Int × List Int)) : Prop :=
  ∀ v u, memR R v u ↔ (u ≠ v ∧ ∃ e, mGet P u = some e ∧ v ∈ Expr.variables e)

/-- Static well-formedness of a state. -/
structure Wf (s : Rebuild w) : Prop where
  pend : Sorted s.pending
  writ : Sorted s.written
  rev : Sorted s.reverse
  revOk : RevOk s.pending s.reverse

theorem wf_new (shift : Int) (cond : Option Int) (par : OptParent) (anal : Option (OptAnalysis w)) :
    Wf (Rebuild.new shift cond par anal) := by
  refine ⟨sorted_nil, sorted_nil, sorted_nil, ?_⟩
  intro v u
  simp [memR, Rebuild.new, mGet]

/-! ### `removePending` -/

/-- One step of the `reverse` update of `removePending`. -/
def revDrop (var : Int) (rev : List (Int × List Int)) (v : Int) : List (Int × List Int) :=
  match mGet rev v with
  | some users =>
    let users := sRem users var
    if users.isEmpty then mErase rev v else mSet rev v users
  | none => rev

theorem removePending_eq (s : Rebuild w) (var : Int) :
    removePending s var =
      match mGet s.pending var with
      | none => (s, none)
      | some expr =>
        ({ s with pending := mErase s.pending var,
                  reverse := (Expr.variables expr).foldl (revDrop var) s.reverse }, some expr) := by
  unfold removePending revDrop; rfl

theorem sorted_revDrop {rev : List (Int × List Int)} (h : Sorted rev) (var x : Int) :
    Sorted (revDrop var rev x) := by
  unfold revDrop
  split
  · simp only
    split
    · exact sorted_mErase h _
    · exact sorted_mSet h _ _
  · exact h

theorem memR_revDrop {rev : List (Int × List Int)} (h : Sorted rev) (var x v u : Int) :
    memR (revDrop var rev x) v u ↔ memR rev v u ∧ ¬ (v = x ∧ u = var) := by
  unfold revDrop
  split
  · rename_i users hx
    simp only
    split
    · rename_i hem
      rw [isEmpty_iff_nil] at hem
      unfold memR
      simp only [mGet_mErase h]
      by_cases hv : x = v
      · subst hv
        simp only [if_true]
        constructor
        · rintro ⟨us, h1, _⟩; cases h1
        · rintro ⟨⟨us, h1, h2⟩, h3⟩
          rw [hx] at h1; cases h1
          have : u ∈ sRem users var := mem_sRem.2 ⟨h2, fun e => h3 (by simp [e])⟩
          rw [hem] at this; simp at this
      · simp only [hv, if_false]
        have : ¬ v = x := fun e => hv e.symm
        simp [this]
    · unfold memR
      simp only [mGet_mSet]
      by_cases hv : x = v
      · subst hv
        simp only [if_true, Option.some.injEq, exists_eq_left', hx]
        rw [mem_sRem]
        simp
      · simp only [hv, if_false]
        have : ¬ v = x := fun e => hv e.symm
        simp [this]
  · rename_i hx
    constructor
    · intro hm
      refine ⟨hm, ?_⟩
      rintro ⟨rfl, _⟩
      obtain ⟨us, h1, _⟩ := hm
      rw [hx] at h1; cases h1
    · exact fun hm => hm.1

theorem sorted_foldl_revDrop {rev : List (Int × List Int)} (h : Sorted rev) (var : Int) (vs : List Int) :
    Sorted (vs.foldl (revDrop var) rev) := by
  induction vs generalizing rev with
  | nil => exact h
  | cons x vs ih => exact ih (sorted_revDrop h var x)

theorem memR_foldl_revDrop {rev : List (Int × List Int)} (h : Sorted rev) (var : Int) (vs : List Int)
    (v u : Int) :
    memR (vs.foldl (revDrop var) rev) v u ↔ memR rev v u ∧ ¬ (v ∈ vs ∧ u = var) := by
  induction vs generalizing rev with
  | nil => simp
  | cons x vs ih =>
    simp only [List.foldl_cons]
    rw [ih (sorted_revDrop h var x), memR_revDrop h]
    simp only [List.mem_cons]
    constructor
    · rintro ⟨⟨h1, h2⟩, h3⟩
      refine ⟨h1, ?_⟩
      rintro ⟨h4 | h4, h5⟩
      · exact h2 ⟨h4, h5⟩
      · exact h3 ⟨h4, h5⟩
    · rintro ⟨h1, h2⟩
      exact ⟨⟨h1, fun h3 => h2 ⟨Or.inl h3.1, h3.2⟩⟩, fun h3 => h2 ⟨Or.inr h3.1, h3.2⟩⟩

/-- The fields `removePending` does not touch. -/
def SameButPend (s s' : Rebuild w) : Prop :=
  s'.parent = s.parent ∧ s'.anal = s.anal ∧ s'.shift = s.shift ∧ s'.cond = s.cond ∧
  s'.subShift = s.subShift ∧ s'.noReturn = s.noReturn ∧ s'.reads = s.reads ∧ s'.written = s.written ∧
  s'.insts = s.insts ∧ s'.subAnal = s.subAnal

theorem SameButPend.refl (s : Rebuild w) : SameButPend s s :=
  ⟨rfl, rfl, rfl, rfl, rfl, rfl, rfl, rfl, rfl, rfl⟩

theorem SameButPend.trans {a b c : Rebuild w} (h1 : SameButPend a b) (h2 : SameButPend b c) :
    SameButPend a c := by
  obtain ⟨a1, a2, a3, a4, a5, a6, a7, a8, a9, a10⟩ := h1
  obtain ⟨b1, b2, b3, b4, b5, b6, b7, b8, b9, b10⟩ := h2
  exact ⟨b1.trans a1, b2.trans a2, b3.trans a3, b4.trans a4, b5.trans a5, b6.trans a6, b7.trans a7,
    b8.trans a8, b9.trans a9, b10.trans a10⟩

theorem removePending_snd (s : Rebuild w) (var : Int) : (removePending s var).2 = mGet s.pending var := by
  rw [removePending_eq]; cases mGet s.pending var <;> rfl

theorem removePending_pending {s : Rebuild w} (_h : Wf s) (var : Int) :
    (removePending s var).1.pending = mErase s.pending var := by
  rw [removePending_eq]
  cases hg : mGet s.pending var with
  | some e => rfl
  | none =>
    simp only
    -- erasing an absent key of a sorted list changes nothing
    have : ∀ (m : List (Int × Expr w)), mGet m var = none → mErase m var = m := by
      intro m
      induction m with
      | nil => intro _; rfl
      | cons kv m ih =>
        obtain ⟨a, b⟩ := kv
        intro hm
        simp only [mGet] at hm
        by_cases h1 : a = var
        · simp [h1] at hm
        · simp only [h1, if_false] at hm
          simp only [mErase, h1, if_false, ih hm]
    exact (this _ hg).symm

theorem removePending_same (s : Rebuild w) (var : Int) : SameButPend s (removePending s var).1 := by
  rw [removePending_eq]
  cases mGet s.pending var <;> exact ⟨rfl, rfl, rfl, rfl, rfl, rfl, rfl, rfl, rfl, rfl⟩

theorem removePending_wf {s : Rebuild w} (h : Wf s) (var : Int) : Wf (removePending s var).1 := by
  rw [removePending_eq]
  cases hg : mGet s.pending var with
  | none => exact h
  | some expr =>
    refine ⟨sorted_mErase h.pend _, h.writ, sorted_foldl_revDrop h.rev _ _, ?_⟩
    intro v u
    show memR ((Expr.variables expr).foldl (revDrop var) s.reverse) v u ↔
      (u ≠ v ∧ ∃ e, mGet (mErase s.pending var) u = some e ∧ v ∈ Expr.variables e)
    rw [memR_foldl_revDrop h.rev, h.revOk v u, mGet_mErase h.pend]
    constructor
    · rintro ⟨⟨h1, e, h2, h3⟩, h4⟩
      refine ⟨h1, e, ?_, h3⟩
      by_cases hu : var = u
      · subst hu
        rw [hg] at h2; cases h2
        exact absurd ⟨h3, rfl⟩ h4
      · simp [hu, h2]
    · rintro ⟨h1, e, h2, h3⟩
      by_cases hu : var = u
      · simp [hu] at h2
      · simp only [hu, if_false] at h2
        exact ⟨⟨h1, e, h2, h3⟩, fun h4 => hu h4.2.symm⟩

theorem removePending_get {s : Rebuild w} (h : Wf s) (var k : Int) :
    mGet (removePending s var).1.pending k = if var = k then none else mGet s.pending k := by
  rw [removePending_pending h, mGet_mErase h.pend]

/-! ### `insertWritten` -/

theorem insertWritten_written (s : Rebuild w) (var : Int) (val : OptWrite w) :
    (insertWritten s var val).written =
      mSet s.written var (match val with | .known e => .known (Expr.normalize e) | v => v) := by
  unfold insertWritten; cases val <;> rfl

/-- The fields `insertWritten` does not touch. -/
def SameButWritten (s s' : Rebuild w) : Prop :=
  s'.parent = s.parent ∧ s'.anal = s.anal ∧ s'.shift = s.shift ∧ s'.cond = s.cond ∧
  s'.subShift = s.subShift ∧ s'.noReturn = s.noReturn ∧ s'.reads = s.reads ∧ s'.pending = s.pending ∧
  s'.reverse = s.reverse ∧ s'.insts = s.insts ∧ s'.subAnal = s.subAnal

theorem insertWritten_same (s : Rebuild w) (var : Int) (val : OptWrite w) :
    SameButWritten s (insertWritten s var val) := by
  unfold insertWritten; cases val <;> exact ⟨rfl, rfl, rfl, rfl, rfl, rfl, rfl, rfl, rfl, rfl, rfl⟩

theorem insertWritten_wf {s : Rebuild w} (h : Wf s) (var : Int) (val : OptWrite w) :
    Wf (insertWritten s var val) := by
  obtain ⟨_, _, _, _, _, _, _, h8, h9, _, _⟩ := insertWritten_same s var val
  refine ⟨by rw [h8]; exact h.pend, ?_, by rw [h9]; exact h.rev, by rw [h8, h9]; exact h.revOk⟩
  rw [insertWritten_written]; exact sorted_mSet h.writ _ _

/-! ### `insertPending` -/

/-- One step of the `reverse` update of `insertPending`. -/
def revAdd (var : Int) (rev : List (Int × List Int)) (v : Int) : List (Int × List Int) :=
  mSet rev v (sIns ((mGet rev v).getD []) var)

theorem memR_revAdd (rev : List (Int × List Int)) (var x v u : Int) :
    memR (revAdd var rev x) v u ↔ memR rev v u ∨ (v = x ∧ u = var) := by
  unfold revAdd memR
  simp only [mGet_mSet]
  by_cases hv : x = v
  · subst hv
    simp only [if_true, Option.some.injEq, exists_eq_left', mem_sIns]
    cases hx : mGet rev x with
    | none => simp
    | some us => simp; exact Or.comm
  · simp only [hv, if_false]
    have : ¬ v = x := fun e => hv e.symm
    simp [this]

theorem sorted_foldl_revAdd {rev : List (Int × List Int)} (h : Sorted rev) (var : Int) (vs : List Int) :
    Sorted (vs.foldl (revAdd var) rev) := by
  induction vs generalizing rev with
  | nil => exact h
  | cons x vs ih => exact ih (sorted_mSet h _ _)

theorem memR_foldl_revAdd (rev : List (Int × List Int)) (var : Int) (vs : List Int) (v u : Int) :
    memR (vs.foldl (revAdd var) rev) v u ↔ memR rev v u ∨ (v ∈ vs ∧ u = var) := by
  induction vs generalizing rev with
  | nil => simp
  | cons x vs ih =>
    simp only [List.foldl_cons]
    rw [ih, memR_revAdd]
    simp only [List.mem_cons]
    constructor
    · rintro ((h | h) | h)
      · exact Or.inl h
      · exact Or.inr ⟨Or.inl h.1, h.2⟩
      · exact Or.inr ⟨Or.inr h.1, h.2⟩
    · rintro (h | ⟨h | h, h'⟩)
      · exact Or.inl (Or.inl h)
      · exact Or.inl (Or.inr ⟨h, h'⟩)
      · exact Or.inr ⟨h, h'⟩

theorem insertPending_eq (s : Rebuild w) (ps : List (Rebuild w)) (var : Int) (expr : Expr w) :
    insertPending s ps var expr =
      (let s1 := (removePending s var).1
       if !compareWrittenNoParent s1 ps (Expr.var var) expr then
         { s1 with
           reverse := ((Expr.variables (Expr.normalize expr)).filter (fun x => !(x == var))).foldl
             (revAdd var) s1.reverse
           pending := mSet s1.pending var (Expr.normalize expr) }
       else s1) := by
  unfold insertPending revAdd; rfl

theorem insertPending_same (s : Rebuild w) (ps : List (Rebuild w)) (var : Int) (expr : Expr w) :
    SameButPend s (insertPending s ps var expr) := by
  rw [insertPending_eq]
  simp only
  split
  · exact (removePending_same s var).trans ⟨rfl, rfl, rfl, rfl, rfl, rfl, rfl, rfl, rfl, rfl⟩
  · exact removePending_same s var

theorem insertPending_wf {s : Rebuild w} (h : Wf s) (ps : List (Rebuild w)) (var : Int) (expr : Expr w) :
    Wf (insertPending s ps var expr) := by
  rw [insertPending_eq]
  have h1 := removePending_wf h var
  simp only
  split
  · refine ⟨sorted_mSet h1.pend _ _, h1.writ, sorted_foldl_revAdd h1.rev _ _, ?_⟩
    intro v u
    show memR (((Expr.variables (Expr.normalize expr)).filter (fun x => !(x == var))).foldl
        (revAdd var) (removePending s var).1.reverse) v u ↔
      (u ≠ v ∧ ∃ e, mGet (mSet (removePending s var).1.pending var (Expr.normalize expr)) u = some e ∧
        v ∈ Expr.variables e)
    rw [memR_foldl_revAdd, h1.revOk v u, mGet_mSet, removePending_get h]
    simp only [List.mem_filter, Bool.not_eq_true', beq_eq_false_iff_ne, ne_eq]
    constructor
    · rintro (⟨h2, e, h3, h4⟩ | ⟨⟨h2, h3⟩, h4⟩)
      · refine ⟨h2, e, ?_, h4⟩
        by_cases hu : var = u
        · simp [hu] at h3
        · simp only [hu, if_false] at h3 ⊢; exact h3
      · subst h4
        exact ⟨fun e => h3 e.symm, _, by simp, h2⟩
    · rintro ⟨h2, e, h3, h4⟩
      by_cases hu : var = u
      · subst hu
        simp only [if_true, Option.some.injEq] at h3
        subst h3
        exact Or.inr ⟨⟨h4, fun e => h2 e.symm⟩, rfl⟩
      · simp only [hu, if_false] at h3
        exact Or.inl ⟨h2, e, by simp [hu, h3], h4⟩
  · exact h1

theorem insertPending_get {s : Rebuild w} (h : Wf s) (ps : List (Rebuild w)) (var : Int) (expr : Expr w)
    (k : Int) :
    mGet (insertPending s ps var expr).pending k =
      if var = k then
        (if compareWrittenNoParent (removePending s var).1 ps (Expr.var var) expr then none
         else some (Expr.normalize expr))
      else mGet s.pending k := by
  rw [insertPending_eq]
  simp only
  split
  · rename_i hc
    simp only [Bool.not_eq_true'] at hc
    show mGet (mSet (removePending s var).1.pending var (Expr.normalize expr)) k = _
    rw [mGet_mSet, removePending_get h, hc]
    by_cases hk : var = k <;> simp [hk]
  · rename_i hc
    simp only [Bool.not_eq_true', Bool.not_eq_false] at hc
    rw [removePending_get h, hc]
    by_cases hk : var = k <;> simp [hk]

end OptProof
end Hpbf
