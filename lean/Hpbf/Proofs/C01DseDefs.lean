/-
Vocabulary of the soundness theorem for the IR-level dead store elimination (`Hpbf/OptDse.lean`):
what the analysis facts consumed by the pass have to MEAN for the pass to be behaviour preserving
(`AnalSound`), and the observational equivalence of two IR runs (`ObsEq`).

Everything here is executable (boolean) where possible so that concrete instances are checked by `decide`.
-/
import Hpbf.OptDse

namespace Hpbf
namespace C01Dse
open Ir OptDse

variable {w : Nat}

/-! ### Which analysis node belongs to which nested block -/

def isBlock : Instr w → Bool
  | .loop _ _ _ _ => true
  | .ifnz _ _ _ => true
  | _ => false

/-- Number of nested blocks (loops / ifs) directly in an instruction list. -/
def nblocks (l : List (Instr w)) : Nat := l.countP isBlock

/-- The `k`-th sub-analysis counted from the END (`k = 1` is the last one): the pass walks a block
backwards with `block_idx` starting at `sub_blocks.len()`. -/
def subAt (A : DAnal) (k : Nat) : Option DAnal :=
  if k ≤ A.subs.length then A.subs[A.subs.length - k]? else none

def contRest : Cont w → List (Instr w)
  | .loopEnd _ _ _ rest => rest
  | .ifEnd _ rest => rest

/-- Analysis node of the block that is being executed when the continuation stack is `ks`
(`top` = the program's analysis): a nested block followed by `rest` in its parent is the
`(nblocks rest + 1)`-th from the end. -/
def analOf (top : DAnal) : List (Cont w) → Option DAnal
  | [] => some top
  | k :: ks =>
    match analOf top ks with
    | some A => subAt A (nblocks (contRest k) + 1)
    | none => none

/-- `(cond, shift, body)` of a nested block. -/
def blockParts : Instr w → Option (Int × Int × List (Instr w))
  | .loop cond shift body _ => some (cond, shift, body)
  | .ifnz cond shift body => some (cond, shift, body)
  | _ => none

/-! ### Static conditions -/

mutual
/-- Every nested block has its analysis node (`k` = position of the instruction among the nested blocks
of its parent, from the end). -/
def shapeOkI (A : DAnal) : Instr w → Nat → Bool
  | .loop _ _ body _, k =>
    match subAt A k with
    | some A1 => shapeOkL A1 body
    | none => false
  | .ifnz _ _ body, k =>
    match subAt A k with
    | some A1 => shapeOkL A1 body
    | none => false
  | _, _ => true
def shapeOkL (A : DAnal) : List (Instr w) → Bool
  | [] => true
  | i :: rest => shapeOkI A i (nblocks rest + 1) && shapeOkL A rest
end

/-- The analysis tree has at least as many sub-analyses as the block has nested blocks, everywhere. -/
def ShapeOk (b : Block w) (anal : DAnal) : Prop := shapeOkL anal b.insts = true
instance (b : Block w) (anal : DAnal) : Decidable (ShapeOk b anal) := by unfold ShapeOk; infer_instance

/-- The last `n` sub-analyses: the ones the pass uses for a block with `n` nested blocks. -/
def usedSubs (A : DAnal) (n : Nat) : List DAnal := A.subs.drop (A.subs.length - n)

mutual
/-- `has_shift = false` is meant syntactically: the block's `shift` is `0` and the nested blocks (the ones
the pass will pair with sub-analyses) are marked `has_shift = false` as well. -/
def shiftOkI (A : DAnal) : Instr w → Nat → Bool
  | .loop _ shift body _, k =>
    match subAt A k with
    | some A1 =>
      (A1.hasShift || (shift == 0 && (usedSubs A1 (nblocks body)).all (fun a => !a.hasShift)))
        && shiftOkL A1 body
    | none => true
  | .ifnz _ shift body, k =>
    match subAt A k with
    | some A1 =>
      (A1.hasShift || (shift == 0 && (usedSubs A1 (nblocks body)).all (fun a => !a.hasShift)))
        && shiftOkL A1 body
    | none => true
  | _, _ => true
def shiftOkL (A : DAnal) : List (Instr w) → Bool
  | [] => true
  | i :: rest => shiftOkI A i (nblocks rest + 1) && shiftOkL A rest
end

mutual
/-- No `calc` assigns the same cell twice (a property of optimiser output: the assignments of a `calc`
come out of a hash map keyed by the target). -/
def noDupI : Instr w → Bool
  | .calc calcs => decide ((calcs.map Prod.fst).Nodup)
  | .loop _ _ body _ => noDupL body
  | .ifnz _ _ body => noDupL body
  | _ => true
def noDupL : List (Instr w) → Bool
  | [] => true
  | i :: rest => noDupI i && noDupL rest
end

def NoDupTargets (b : Block w) : Prop := noDupL b.insts = true
instance (b : Block w) : Decidable (NoDupTargets b) := by unfold NoDupTargets; infer_instance

/-! ### Reads and writes of one machine step; reachable configurations -/

/-- Absolute addresses read by the next step of the IR machine. -/
def stepReads (c : Cfg w) : List Int :=
  match c.cur with
  | [] =>
    match c.conts with
    | .loopEnd cond shift _ _ :: _ => [c.st.ptr + shift + cond]
    | _ => []
  | .output src :: _ => [c.st.ptr + src]
  | .input _ :: _ => []
  | .calc calcs :: _ => calcs.flatMap (fun ve => (Expr.variables ve.2).map (fun v => c.st.ptr + v))
  | .loop cond _ _ _ :: _ => [c.st.ptr + cond]
  | .ifnz cond _ _ :: _ => [c.st.ptr + cond]

/-- Absolute addresses written by the next step. -/
def stepWrites (c : Cfg w) : List Int :=
  match c.cur with
  | .input dst :: _ => [c.st.ptr + dst]
  | .calc calcs :: _ => calcs.map (fun ve => c.st.ptr + ve.1)
  | _ => []

/-- Configuration after exactly `f` steps (`none`: the run has ended before). -/
def cfgAt (lim : Bool) : Nat → Cfg w → Option (Cfg w)
  | 0, c => some c
  | f + 1, c =>
    match step lim c with
    | .next c' => cfgAt lim f c'
    | _ => none

def initCfg (b : Block w) (bud : Nat) (env : Env) : Cfg w :=
  { cur := b.insts, conts := [], budget := bud, st := State.init env }

/-- The run of `b` reaches `c`. -/
def Reach (lim : Bool) (bud : Nat) (b : Block w) (env : Env) (c : Cfg w) : Prop :=
  ∃ f, cfgAt lim f (initCfg b bud env) = some c

/-- Within the next `n` steps, and before the block iteration that is running at continuation depth `d`
is over (`cur = []` with only `d` continuations left), address `a` is not read unless it has been written
first. -/
def unexposedN (lim : Bool) (d : Nat) (a : Int) : Nat → Cfg w → Bool
  | 0, _ => true
  | n + 1, c =>
    if c.cur.isEmpty && decide (c.conts.length ≤ d) then true
    else
      !(stepReads c).contains a &&
        ((stepWrites c).contains a ||
          match step lim c with
          | .next c' => unexposedN lim d a n c'
          | _ => true)

/-! ### Meaning of the analysis facts -/

/-- `has_shift = false`: syntactically no pointer movement (block shift `0`, recursively). -/
def ShiftFact (b : Block w) (anal : DAnal) : Prop := shiftOkL anal b.insts = true
instance (b : Block w) (anal : DAnal) : Decidable (ShiftFact b anal) := by unfold ShiftFact; infer_instance

/-- `at_least_once`: whenever the run reaches the loop / if, its condition cell is non-zero.
`A0` is the analysis node of the block the machine is in (`analOf`), `A1` that of the nested block at the head
of the current instruction list. -/
def AtLeastFact (lim : Bool) (bud : Nat) (b : Block w) (anal : DAnal) (env : Env) : Prop :=
  ∀ (c : Cfg w), Reach lim bud b env c →
    ∀ (i : Instr w) (rest : List (Instr w)) (cond shift : Int) (body : List (Instr w)) (A0 A1 : DAnal),
      c.cur = i :: rest → blockParts i = some (cond, shift, body) →
      analOf anal c.conts = some A0 → subAt A0 (nblocks rest + 1) = some A1 →
      A1.atLeastOnce = true → c.st.rd cond ≠ 0#w

/-- `at_most_once` (loops; an `if` never repeats): whenever an iteration ends, the condition is zero. -/
def AtMostFact (lim : Bool) (bud : Nat) (b : Block w) (anal : DAnal) (env : Env) : Prop :=
  ∀ (c : Cfg w), Reach lim bud b env c →
    ∀ (cond shift : Int) (body rest : List (Instr w)) (ks : List (Cont w)) (A0 : DAnal),
      c.cur = [] → c.conts = .loopEnd cond shift body rest :: ks →
      analOf anal c.conts = some A0 → A0.atMostOnce = true → (c.st.mov shift).rd cond = 0#w

/-- `reads` (only used together with `has_shift = false`, and only for looking through the BACK EDGE of a
loop): whenever an iteration ends and another one starts (`c1`: the configuration at the start of the new
iteration), a cell not in `reads` is not read in that new iteration before it is written. -/
def ReadsFact (lim : Bool) (bud : Nat) (b : Block w) (anal : DAnal) (env : Env) : Prop :=
  ∀ (c : Cfg w), Reach lim bud b env c →
    ∀ (cond shift : Int) (body rest : List (Instr w)) (ks : List (Cont w)) (A0 : DAnal) (c1 : Cfg w),
      c.cur = [] → c.conts = .loopEnd cond shift body rest :: ks →
      analOf anal c.conts = some A0 → A0.hasShift = false → (c.st.mov shift).rd cond ≠ 0#w →
      step lim c = .next c1 →
      ∀ (v : Int) (n : Nat), v ∉ A0.reads → unexposedN lim c.conts.length (c1.st.ptr + v) n c1 = true

/-- What the pass needs of the facts in `anal` for the run of `b` under `env` (mode `lim`, budget `bud`). -/
structure AnalSoundAt (lim : Bool) (bud : Nat) (b : Block w) (anal : DAnal) (env : Env) : Prop where
  shift : ShiftFact b anal
  atLeast : AtLeastFact lim bud b anal env
  atMost : AtMostFact lim bud b anal env
  reads : ReadsFact lim bud b anal env

/-- Unlimited mode (the mode of the optimiser's correctness property). -/
def AnalSound (b : Block w) (anal : DAnal) (env : Env) : Prop := AnalSoundAt false 0 b anal env

/-! ### Observational equivalence of two runs -/

/-- Same events, environment, pointer and remaining budget (the tape may differ). -/
def Obs (c c' : Cfg w) : Prop :=
  c'.st.trace = c.st.trace ∧ c'.st.env = c.st.env ∧ c'.st.ptr = c.st.ptr ∧ c'.budget = c.budget

/-- Same kind of ending with `Obs`-related final configurations. -/
def ObsEq : Outcome w → Outcome w → Prop
  | .done c, .done c' => Obs c c'
  | .stopped c, .stopped c' => Obs c c'
  | .interrupted c, .interrupted c' => Obs c c'
  | .outOfFuel c, .outOfFuel c' => Obs c c'
  | _, _ => False

/-- Events of any outcome (most recent first); the same function as `C01.traceOf`. -/
def traceOf : Outcome w → List Ev
  | .done c => c.st.trace
  | .stopped c => c.st.trace
  | .interrupted c => c.st.trace
  | .outOfFuel c => c.st.trace

end C01Dse
end Hpbf
