/-
Rebuild-round proofs, stage 2: `loopOrIf` when the child block moves the pointer (`hasShift`): the parent emits
everything, forgets what it knew (`uncertainShift`) and pushes the `Loop` / `If`.
Also: `emitAll` over all pending keys empties `pending`; the child's own `emitAll`.
-/
import Hpbf.Proofs.OptRbLoopDefs

namespace Hpbf
namespace OptProof
open Opt OptSem Ir

variable {w : Nat}

/-! ### small facts -/

theorem mGet_all_none_nil {ν : Type} (m : List (Int × ν)) (h : ∀ k, mGet m k = none) : m = [] := by
  cases m with
  | nil => rfl
  | cons kv rest =>
    obtain ⟨a, b⟩ := kv
    have := h a
    simp [mGet] at this

theorem par_nil_mem (m : Mem w) : Mem.par ([] : List (Int × Expr w)) m = m := par_nil m

/-- After an uncertain move nothing is known through the parent. -/
theorem pk_unknown {s : Rebuild w} (ps : List (Rebuild w)) (M0 : Mem w) (hp : s.parent = .unknown)
    (hs : s.subShift = true) : PK s ps M0 := by
  have hca : ∀ v, canAskParentFor s v = false := by
    intro v; unfold canAskParentFor; rw [hs]; rfl
  refine ⟨?_, ?_, ?_⟩
  · intro v c h
    unfold getParentConstant at h
    rw [hca] at h
    simp at h
  · intro v h
    unfold nonZeroParent at h
    rw [hca, hs] at h
    simp at h
  · intro a b _ _ h
    unfold compareParent at h
    rw [hp] at h
    split at h
    · rename_i hab
      have : a = b := by simpa using hab
      rw [this]
    · split at h <;> simp [pure, Except.pure] at h

/-- Executing the groups of an emission step keeps the states related (any pointer offset). -/
theorem EmitRes.relAt {ps : List (Rebuild w)} {s s' : Rebuild w} {comps : List (List (Int × Expr w))}
    (h : EmitRes ps s s' comps) {sh : Int} {M0 : Mem w} {σE σS : State w} (hr : RelAt sh s ps M0 σE σS) :
    RelAt sh s' ps M0 (comps.foldl doCalc σE) σS := by
  obtain ⟨m1, m2, m3⟩ := foldl_doCalc_meta comps σE
  refine ⟨by rw [m3]; exact hr.tr, by rw [m2]; exact hr.env, by rw [m1]; exact hr.ptr,
    by rw [h.noRet]; exact hr.nr, ?_⟩
  rw [memE_foldl_doCalc σE comps h.nodup, memS_foldl_doCalc]
  exact h.minv hr.inv

/-! ### `emitAll` over all keys -/

theorem emitAll_pending_none (ps : List (Rebuild w)) (vars : List Int) {s : Rebuild w} (hwf : Wf s)
    {os os' : Orders} {s' : Rebuild w} (hr : (emitAll ps vars s).run os = .ok (s', os')) :
    ∃ comps, EmitRes ps s s' comps ∧ ∀ v ∈ vars, mGet s'.pending v = none := by
  induction vars generalizing s os with
  | nil =>
    unfold emitAll at hr
    rw [List.foldlM_nil, run_pure] at hr
    cases hr
    exact ⟨[], EmitRes.refl ps hwf, fun _ h => by cases h⟩
  | cons v rest ih =>
    unfold emitAll at hr
    rw [List.foldlM_cons, run_bind_ok] at hr
    obtain ⟨s1, os1, h1, h2⟩ := hr
    obtain ⟨c1, r1, hn1⟩ := emit_res ps hwf v h1
    obtain ⟨c2, r2, hn2⟩ := ih r1.wf (show (emitAll ps rest s1).run os1 = _ from h2)
    refine ⟨c1 ++ c2, r1.trans r2, ?_⟩
    intro v' hv'
    rcases List.mem_cons.1 hv' with rfl | hv'
    · cases hp : mGet s'.pending v' with
      | none => rfl
      | some e => rw [r2.sub v' e hp] at hn1; cases hn1
    · exact hn2 v' hv'

theorem emitAll_clears (ps : List (Rebuild w)) (vars : List Int) {s : Rebuild w} (hwf : Wf s)
    (hall : ∀ k, k ∈ mKeys s.pending → k ∈ vars)
    {os os' : Orders} {s' : Rebuild w} (hr : (emitAll ps vars s).run os = .ok (s', os')) :
    ∃ comps, EmitRes ps s s' comps ∧ s'.pending = [] := by
  obtain ⟨comps, res, hn⟩ := emitAll_pending_none ps vars hwf hr
  refine ⟨comps, res, mGet_all_none_nil _ ?_⟩
  intro k
  cases hp : mGet s'.pending k with
  | none => rfl
  | some e =>
    have hk : k ∈ mKeys s.pending := (mGet_isSome_iff _ _).1 (by rw [res.sub k e hp]; rfl)
    rw [hn k (hall k hk)] at hp; cases hp

/-! ### the child emits its pending operations -/

theorem ChildRep.emit {Gc : State w → Prop} {sh sh' : Int} {pc : List (Rebuild w)} {sub0 : Rebuild w}
    {pc' : List (Rebuild w)}
    {sub sub1 : Rebuild w} {comps : List (List (Int × Expr w))} {body : List (Instr w)}
    (h : ChildRep Gc sh sh' pc sub0 pc' sub body) (hres : EmitRes pc' sub sub1 comps) :
    ChildRep Gc sh sh' pc sub0 pc' sub1 body := by
  intro M0 σE σS hrel hg
  obtain ⟨hs, hb⟩ := h M0 σE σS hrel hg
  rw [hres.insts]
  refine ⟨?_, ?_⟩
  · have : Sim (StepQ sh' pc' sub1 M0 σE) (body ++ [])
        (sub.insts ++ comps.map Instr.calc) σS σE := by
      refine Sim.append hs ?_
      rintro σS' σE' ⟨M0', hr', hk'⟩
      have hr1 := hres.relAt hr'
      have := Sim.of_atomic (Q := StepQ sh' pc' sub1 M0 σE)
        (atomic_calcs ([] : List (List (Int × Expr w)))) (atomic_calcs comps) (σS := σS') (σE := σE')
        hr'.tr.symm rfl hr1.tr.symm hr1.env.symm (fun _ => ⟨M0', hr1, fun hc => by
          obtain ⟨k1, k2⟩ := hk' (hres.hdr.2.2.2.2.symm.trans hc)
          exact ⟨k1, (foldl_doCalc_meta comps σE').1.trans k2⟩⟩)
      exact this
    rw [List.append_nil] at this
    exact this
  · intro hbad
    rcases bad_append.1 hbad with h1 | ⟨σ1, _, h2⟩
    · exact hb h1
    · exact not_bad_of_noBlocks (noBlocks_calcs comps) _ h2

/-! ### `loopOrIf`, shifting child -/

/-- The source instruction a `loopOrIf` call represents. -/
def blockInstr (isLoop : Bool) (c sh : Int) (body : List (Instr w)) (once : Bool) : Instr w :=
  if isLoop then .loop c sh body once else .ifnz c sh body

/-- Loop-head relation in the shifting case: same memory (nothing pending), pointers `shP` apart. -/
def SameMem (shP : Int) (σS σE : State w) : Prop :=
  σS.trace = σE.trace ∧ σS.env = σE.env ∧ σS.ptr = σE.ptr + shP ∧ memS σE σS = memE σE

theorem SameMem.mov {shC shS bs shP : Int} {σS σE : State w} (h : SameMem shC σS σE)
    (hsh : shC + shS = bs + shP) : SameMem shP (σS.mov shS) (σE.mov bs) := by
  obtain ⟨h1, h2, h3, h4⟩ := h
  refine ⟨h1, h2, ?_, ?_⟩
  · show σS.ptr + shS = σE.ptr + bs + shP
    rw [h3]; omega
  · funext v
    show σS.tape.get (σE.ptr + bs + v) = σE.tape.get (σE.ptr + bs + v)
    have := congrFun h4 (bs + v)
    show σS.tape.get (σE.ptr + bs + v) = σE.tape.get (σE.ptr + bs + v)
    have e : σE.ptr + bs + v = σE.ptr + (bs + v) := by omega
    rw [e]; exact this

theorem RelAt.sameMem {sh : Int} {s : Rebuild w} {ps : List (Rebuild w)} {M0 : Mem w} {σE σS : State w}
    (h : RelAt sh s ps M0 σE σS) (hp : s.pending = []) : SameMem sh σS σE := by
  refine ⟨h.tr, h.env, h.ptr, ?_⟩
  have := h.inv.pend
  rw [hp, par_nil] at this
  exact this

/-- If the source has no `fin` observation, the end-state relation is irrelevant. -/
theorem Sim.of_no_fin {Q Q' : State w → State w → Prop} {a b : List (Instr w)} {σS σE : State w}
    (h : Sim Q a b σS σE) (hn : ∀ x, ¬ Exec a σS (.fin x)) : Sim Q' a b σS σE := by
  refine ⟨fun x hx => absurd hx (hn x), h.stopL, h.partL, ?_, h.stopR, h.partR⟩
  intro y hy
  obtain ⟨x, hx, _⟩ := h.finR y hy
  exact absurd hx (hn x)

theorem loopTail_fields (s sub : Rebuild w) (cond : Int) (isLoop : Bool) (L : OptLoop w) (hs : Bool)
    (cl : List Int) :
    let t := loopTail s sub cond isLoop L hs cl
    SameHdr s t ∧ t.pending = s.pending ∧ t.reverse = s.reverse ∧ t.reads = s.reads ∧
    t.written = (if isLoop then mSet s.written cond (.known (Expr.normalize (Expr.val 0#w))) else s.written) ∧
    t.noReturn = (if L.noContinue then true else s.noReturn) ∧
    t.insts = s.insts ++ [if isLoop then Instr.loop cond (sub.shift - s.shift) sub.insts L.atLeastOnce
      else Instr.ifnz cond (sub.shift - s.shift) sub.insts] := by
  cases isLoop <;> cases hL : L.noContinue <;>
    simp [loopTail, hL, insertWritten, SameHdr]

theorem loopTail_wf {s : Rebuild w} (hwf : Wf s) (sub : Rebuild w) (cond : Int) (isLoop : Bool)
    (L : OptLoop w) (hs : Bool) (cl : List Int) : Wf (loopTail s sub cond isLoop L hs cl) := by
  obtain ⟨_, h2, h3, _, h5, _, _⟩ := loopTail_fields s sub cond isLoop L hs cl
  refine ⟨by rw [h2]; exact hwf.pend, ?_, by rw [h3]; exact hwf.rev, by rw [h2, h3]; exact hwf.revOk⟩
  rw [h5]
  split
  · exact sorted_mSet hwf.writ _ _
  · exact hwf.writ

theorem uncertainShift_fields (s : Rebuild w) :
    (uncertainShift s).parent = .unknown ∧ (uncertainShift s).subShift = true ∧ (uncertainShift s).written = [] ∧
    (uncertainShift s).pending = s.pending ∧ (uncertainShift s).reverse = s.reverse ∧
    (uncertainShift s).shift = s.shift ∧ (uncertainShift s).noReturn = s.noReturn ∧
    (uncertainShift s).insts = s.insts ∧ (uncertainShift s).anal = s.anal ∧ (uncertainShift s).cond = s.cond :=
  ⟨rfl, rfl, rfl, rfl, rfl, rfl, rfl, rfl, rfl, rfl⟩

theorem uncertainShift_wf {s : Rebuild w} (hwf : Wf s) : Wf (uncertainShift s) :=
  ⟨hwf.pend, sorted_nil, hwf.rev, hwf.revOk⟩

/-- The relation after a loop / if that moved the pointer by an unknown amount: same memory, nothing known,
except that the condition cell of a loop is zero. -/
theorem relAt_after_shift {shP : Int} {t : Rebuild w} (ps : List (Rebuild w)) {σS σE : State w}
    (hm : SameMem shP σS σE) (hpar : t.parent = .unknown) (hsub : t.subShift = true) (hp : t.pending = [])
    (hnr : t.noReturn = false) (cond : Int)
    (hw : t.written = [] ∨ (t.written = mSet [] cond (.known (Expr.normalize (Expr.val 0#w))) ∧ σE.rd cond = 0#w)) :
    RelAt shP t ps (memE σE) σE σS := by
  obtain ⟨h1, h2, h3, h4⟩ := hm
  refine ⟨h1, h2, h3, hnr, ?_, ?_, pk_unknown ps _ hpar hsub⟩
  · rw [hp, par_nil]; exact h4
  · intro v
    rcases hw with hw | ⟨hw, hc⟩
    · rw [hw]; rfl
    · rw [hw, mGet_mSet]
      by_cases hv : cond = v
      · subst hv
        simp only [if_true]
        show memE σE cond = ev (Expr.normalize (Expr.val 0#w)) (memE σE)
        rw [show ev (Expr.normalize (Expr.val 0#w)) (memE σE) = 0#w from by
          show Expr.evaluate _ _ = _
          rw [Expr.eval_normalize, Expr.eval_val]]
        exact hc
      · simp only [hv, if_false, mGet_nil]

theorem loopOrIf_shift_ok {shP shC shS cS : Int} {bodyS : List (Instr w)} {oS : Bool}
    {s : Rebuild w} {ps : List (Rebuild w)} {sub : Rebuild w} {cond : Int} {isLoop : Bool} {L : OptLoop w}
    {C : List Int} {pc : List (Rebuild w)} {sub0 : Rebuild w} {os os' : Orders} {s' : Rebuild w}
    {G Gc : State w → Prop}
    (hr : (loopOrIf s ps sub cond isLoop L C).run os = .ok (s', os'))
    (hwf : Wf s) (hwfc : Wf sub)
    (hshift : (sub.subShift || sub.shift != s.shift) = true)
    (hcond : cond = cS + shP)
    (hsh : shC + shS = (sub.shift - s.shift) + shP)
    (hrep : ChildRep Gc shP shC pc sub0 [] sub bodyS)
    (hentry : ∀ σE σS, SameMem shP σS σE → σS.rd cS ≠ 0#w → Gc σS → ∃ M0, RelAt shP sub0 pc M0 σE σS)
    (hGc : ∀ M0 σE σS, RelAt shP s ps M0 σE σS → G σS → ∀ k σk, Head cS shS bodyS σS k σk →
      (isLoop = false → k = 0) → σk.rd cS ≠ 0#w → Gc σk)
    (halo : L.atLeastOnce = true → ∀ M0 σE σS, RelAt shP s ps M0 σE σS → G σS → σS.rd cS ≠ 0#w)
    (hnc : L.noContinue = true → ∀ M0 σE σS, RelAt shP s ps M0 σE σS → G σS →
      ∀ x, ¬ Exec [blockInstr isLoop cS shS bodyS oS] σS (.fin x)) :
    Wf s' ∧ s'.subShift = true ∧ s'.anal = s.anal ∧ s'.cond = s.cond ∧ s'.shift = s.shift ∧
    ∃ new, s'.insts = s.insts ++ new ∧ StepNG G shP shP ps s s' [blockInstr isLoop cS shS bodyS oS] new := by
  obtain ⟨sub1, os1, r, h1, h2, rfl⟩ := loopOrIf_run hr
  -- the child after its own emission
  have hsub1 : ∃ compsC, EmitRes [] sub sub1 compsC ∧ (sub.noReturn = false → sub1.pending = []) := by
    split at h1
    · rename_i hn
      obtain ⟨c, res, hcl⟩ := emitAll_clears [] (pendingSorted sub sub) hwfc
        (fun k hk => (Hpbf.OptLoop.mem_pendingSorted sub sub k).2 hk) h1
      exact ⟨c, res, fun _ => hcl⟩
    · rename_i hn
      rw [run_pure] at h1
      cases h1
      refine ⟨[], EmitRes.refl [] hwfc, fun h => ?_⟩
      rw [h] at hn; simp at hn
  obtain ⟨compsC, resC, hclC⟩ := hsub1
  have hrep1 : ChildRep Gc shP shC pc sub0 [] sub1 bodyS := hrep.emit resC
  have hshift1 : (sub1.subShift || sub1.shift != s.shift) = true := by
    rw [resC.hdr.2.2.2.2, resC.hdr.2.2.1]; exact hshift
  -- the parent emits everything
  unfold loopPrep at h2
  rw [if_pos hshift1, run_bind_ok] at h2
  obtain ⟨s1, os2, h3, h4⟩ := h2
  rw [run_pure] at h4
  cases h4
  obtain ⟨compsP, resP, hclP⟩ := emitAll_clears ps (pendingSorted s s) hwf
    (fun k hk => (Hpbf.OptLoop.mem_pendingSorted s s k).2 hk) h3
  obtain ⟨u1, u2, u3, u4, u5, u6, u7, u8, u9, u10⟩ := uncertainShift_fields s1
  obtain ⟨t1, t2, t3, t4, t5, t6, t7⟩ :=
    loopTail_fields (uncertainShift s1) sub1 cond isLoop L (sub1.subShift || sub1.shift != s.shift) []
  have hbs : sub1.shift - (uncertainShift s1).shift = sub.shift - s.shift := by
    rw [u6, resP.hdr.2.2.1, resC.hdr.2.2.1]
  refine ⟨loopTail_wf (uncertainShift_wf resP.wf) _ _ _ _ _ _, by rw [t1.2.2.2.2]; exact u2,
    by rw [t1.2.1, u9, resP.hdr.2.1], by rw [t1.2.2.2.1, u10, resP.hdr.2.2.2.1],
    by rw [t1.2.2.1, u6, resP.hdr.2.2.1], ?_⟩
  refine ⟨compsP.map Instr.calc ++ [if isLoop then Instr.loop cond (sub.shift - s.shift) sub1.insts L.atLeastOnce
      else Instr.ifnz cond (sub.shift - s.shift) sub1.insts], ?_, ?_⟩
  · rw [t7, u8, resP.insts, hbs, List.append_assoc]
  have hsub' : (loopTail (uncertainShift s1) sub1 cond isLoop L
      (sub1.subShift || sub1.shift != s.shift) []).subShift = true := by rw [t1.2.2.2.2]; exact u2
  refine ⟨fun h => absurd (hsub'.symm.trans h) (by simp), ?_⟩
  intro M0 σE σS hrel hG
  -- after the parent's groups
  have hrel1 := resP.relAt hrel
  have hm1 : SameMem shP σS (compsP.foldl doCalc σE) := hrel1.sameMem hclP
  -- the loop-head relation
  have hcondrd : ∀ (σS' σE' : State w), SameMem shP σS' σE' → σS'.rd cS = σE'.rd cond := by
    intro σS' σE' hm
    show σS'.tape.get (σS'.ptr + cS) = σE'.tape.get (σE'.ptr + cond)
    have := congrFun hm.2.2.2 cond
    rw [hcond] at this
    rw [hm.2.2.1, hcond]
    have e : σE'.ptr + shP + cS = σE'.ptr + (cS + shP) := by omega
    rw [e]; exact this
  -- one round of the body
  have hbody : ∀ (k : Nat) (σS' σE' : State w), SameMem shP σS' σE' → Head cS shS bodyS σS k σS' →
      (isLoop = false → k = 0) → σS'.rd cS ≠ 0#w →
      Sim (fun a b => SameMem shP (a.mov shS) (b.mov (sub.shift - s.shift)) ∧
          Head cS shS bodyS σS (k + 1) (a.mov shS)) bodyS sub1.insts σS' σE' ∧
      ¬ Bad sub1.insts σE' := by
    intro k σS' σE' hm hh hk hne
    obtain ⟨M0c, hre⟩ := hentry σE' σS' hm hne (hGc M0 σE σS hrel hG k σS' hh hk hne)
    obtain ⟨hs1, hb1⟩ := hrep1 M0c σE' σS' hre (hGc M0 σE σS hrel hG k σS' hh hk hne)
    refine ⟨hs1.fin_strengthen.mono ?_, hb1⟩
    rintro a b ⟨⟨M0', hr', _⟩, hexa, _⟩
    have hp1 : sub1.pending = [] := hclC (by
      have := hr'.nr
      rw [resC.noRet] at this; exact this)
    exact ⟨(hr'.sameMem hp1).mov hsh, Head.succ hh hne hexa⟩
  -- the end-state relation, ignoring `noContinue`
  have hexitQ : ∀ (σS' σE' : State w), SameMem shP σS' σE' → (isLoop = true → σE'.rd cond = 0#w) →
      L.noContinue = false →
      ∃ M0', RelAt shP (loopTail (uncertainShift s1) sub1 cond isLoop L
        (sub1.subShift || sub1.shift != s.shift) []) ps M0' σE' σS' := by
    intro σS' σE' hm hz hncf
    refine ⟨memE σE', relAt_after_shift ps hm (by rw [t1.1]; exact u1) (by rw [t1.2.2.2.2]; exact u2)
      (by rw [t2, u4]; exact hclP) (by rw [t6, hncf, u7, resP.noRet]; exact hrel.nr) cond ?_⟩
    rw [t5, u3]
    cases isLoop with
    | false => exact Or.inl rfl
    | true => exact Or.inr ⟨rfl, hz rfl⟩
  -- the simulation with the relation "same memory (+ cond = 0 after a loop)"
  have hsim : Sim (fun a b => SameMem shP a b ∧ (isLoop = true → b.rd cond = 0#w))
      [blockInstr isLoop cS shS bodyS oS]
      [if isLoop then Instr.loop cond (sub.shift - s.shift) sub1.insts L.atLeastOnce
        else Instr.ifnz cond (sub.shift - s.shift) sub1.insts] σS (compsP.foldl doCalc σE) := by
    cases isLoop with
    | true =>
      simp only [blockInstr, if_true]
      refine Sim.loop (J := fun a b => SameMem shP a b ∧ ∃ k, Head cS shS bodyS σS k a) ?_ ?_ ?_ ?_
        ⟨hm1, 0, Head.zero⟩
      · rintro a b ⟨hab, _⟩; rw [hcondrd a b hab]
      · rintro a b ⟨hab, _⟩; exact hab.1.symm
      · rintro a b ⟨hab, k, hh⟩ hne
        exact (hbody k a b hab hh (fun h => by cases h) hne).1.mono (fun x y ⟨h1, h2⟩ => ⟨h1, k + 1, h2⟩)
      · rintro a b ⟨hab, _⟩ hz
        exact ⟨hab, fun _ => by rw [← hcondrd a b hab]; exact hz⟩
    | false =>
      simp only [blockInstr, Bool.false_eq_true, if_false]
      refine Sim.ifnz ?_ hm1.1.symm ?_ ?_
      · rw [hcondrd _ _ hm1]
      · intro hne
        exact ((hbody 0 _ _ hm1 Head.zero (fun _ => rfl) hne).1).mono (fun a b hab => ⟨hab.1, fun h => by cases h⟩)
      · intro _; exact ⟨hm1, fun h => by cases h⟩
  refine ⟨Sim.calcs_right compsP ?_, ?_⟩
  · cases hncv : L.noContinue with
    | false =>
      refine hsim.mono ?_
      rintro a b ⟨hab, hz⟩
      obtain ⟨M0', hq⟩ := hexitQ a b hab hz hncv
      exact ⟨M0', hq, fun h => absurd (hsub'.symm.trans h) (by simp)⟩
    | true => exact hsim.of_no_fin (hnc hncv M0 σE σS hrel hG)
  · rw [bad_calcs_iff]
    cases isLoop with
    | true =>
      simp only [if_true]
      refine not_bad_loop (J := fun a b => SameMem shP a b ∧ ∃ k, Head cS shS bodyS σS k a)
        (cS := cS) (shS := shS) (bodyS := bodyS) ?_ ⟨hm1, 0, Head.zero⟩ ?_
      · rintro a b ⟨hab, k, hh⟩ hne
        obtain ⟨h1, h2⟩ := hbody k a b hab hh (fun h => by cases h) (by rw [hcondrd a b hab]; exact hne)
        exact ⟨h1.mono (fun x y ⟨q1, q2⟩ => ⟨q1, k + 1, q2⟩), h2⟩
      · intro hal
        rw [← hcondrd _ _ hm1]
        exact halo hal M0 σE σS hrel hG
    | false =>
      simp only [Bool.false_eq_true, if_false]
      refine not_bad_ifnz ?_
      intro hne
      exact (hbody 0 _ _ hm1 Head.zero (fun _ => rfl) (by rw [hcondrd _ _ hm1]; exact hne)).2

end OptProof
end Hpbf
