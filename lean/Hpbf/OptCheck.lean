/-
The EXECUTABLE test under which all levels of `Opt.optimize` are proved behaviour preserving
(`OptProof.optimize_preserves_of_check`, `Hpbf/Proofs/OptRbRounds3.lean`), in a LIGHT module that imports no proof
file, so that it can be compiled into a driver cheaply.

The definitions are verbatim copies of the ones the proofs are about (`OptProof.checkAnalIn` in
`Hpbf/Proofs/OptRbAnalCheck.lean`, `OptProof.roundsCheck` / `OptProof.optimizeCheck` in
`Hpbf/Proofs/OptRbRounds3.lean`); `Hpbf/Proofs/OptRbCheckEq.lean` proves that they are equal and restates the
theorems for the copies.

* `checkAnalIn N b anal env`: runs `b` from `State.init env` with a big-step evaluator with fuel `N` (every
  instruction and every loop iteration costs one unit of recursion depth, so a run of `K` machine steps needs
  `N ≈ K`) and checks, for every loop paired with a node of `anal.subBlocks`, the claims `atMostOnce` (the re-tested
  condition is zero) and `clobbered` (if the node says neither `atMostOnce` nor `hasShift`: at every head the pointer
  is the one at loop entry and every cell whose offset is not in `clobbered` has its entry value).  `false` if a
  claim fails or the run does not end within the fuel.
* `optimizeCheck N b level orders env`: replays the rounds of `optimize` and applies `checkAnalIn` to the input of
  every round after the first (program after dead store elimination + analysis of the previous round).

COST: straight-line steps cost what the interpreter costs.  At every head of a loop whose node makes the `clobbered`
claim, `sameOutside` walks both association lists of the tapes (length `T` = number of distinct cells touched so
far) and does two `Tape.get` lookups (`O(T)` each) plus one `List.contains` on `clobbered` per entry:
`O(T · (T + |clobbered|))` per head, so `O(K · T²)` in the worst case for a run of `K` steps.  The recursive calls along
instruction lists and along loop iterations are in tail position; only entering a nested block is a non-tail call
(so, if the backend turns tail calls into jumps, the native stack depth follows the nesting depth, not `N`).
-/
import Hpbf.Opt

namespace Hpbf
namespace OptCheck
open Opt Ir

variable {w : Nat}

/-- Same pointer, and same value in every cell whose offset (from the pointer) is not in `cl`.  Cells that occur in
neither association list are `0` in both tapes. -/
def sameOutside (cl : List Int) (σ0 σk : State w) : Bool :=
  σk.ptr == σ0.ptr &&
    (σ0.tape.cells ++ σk.tape.cells).all
      (fun kv => cl.contains (kv.1 - σ0.ptr) || σk.tape.get kv.1 == σ0.tape.get kv.1)

/-- Result of the checking evaluator. -/
inductive Res (w : Nat) where
  | oof                    -- out of fuel
  | fail                   -- a claim of a node is violated
  | stop                   -- the run stopped at a failing I/O operation (all claims checked so far hold)
  | fin (σ : State w)      -- the list ran to its end (all claims hold)

def Res.ok : Res w → Bool
  | .stop => true
  | .fin _ => true
  | _ => false

/-- The node used when the recorded tree has no node for a block: it claims nothing. -/
def noClaim : OptAnalysis w :=
  .mk { never := false, finite := false, noEffect := false, noContinue := false, atLeastOnce := false,
        atMostOnce := false, expr := none } true [] [] []

def headNode (subs : List (OptAnalysis w)) : OptAnalysis w := subs.headD noClaim

/-- The `clob` claim at the head `σ` of a loop entered in `σ0`. -/
def clobOk (A : OptAnalysis w) (σ0 σ : State w) : Bool :=
  A.loopAnal.atMostOnce || A.hasShift || sameOutside A.clobbered σ0 σ

/-- The `amo` claim at the re-test in state `σ'`. -/
def amoOk (A : OptAnalysis w) (c : Int) (σ' : State w) : Bool :=
  !A.loopAnal.atMostOnce || σ'.rd c == 0#w

mutual
/-- Big-step evaluator with fuel (every instruction and every loop iteration costs one unit of recursion depth)
that checks the claims of the nodes `subs` paired (in order) with the nested blocks of the list. -/
def evalL : Nat → List (Instr w) → List (OptAnalysis w) → State w → Res w
  | 0, _, _, _ => .oof
  | _ + 1, [], _, σ => .fin σ
  | f + 1, .output src :: rest, subs, σ =>
    match σ.output src with
    | (true, σ1) => evalL f rest subs σ1
    | (false, _) => .stop
  | f + 1, .input dst :: rest, subs, σ =>
    match σ.input dst with
    | (true, σ1) => evalL f rest subs σ1
    | (false, _) => .stop
  | f + 1, .calc g :: rest, subs, σ => evalL f rest subs (doCalc σ g)
  | f + 1, .loop c sh body _ :: rest, subs, σ =>
    match evalLoop f c sh body (headNode subs) σ σ with
    | .fin σ' => evalL f rest subs.tail σ'
    | r => r
  | f + 1, .ifnz c sh body :: rest, subs, σ =>
    if σ.rd c = 0#w then evalL f rest subs.tail σ
    else
      match evalL f body (headNode subs).subBlocks σ with
      | .fin σ1 => evalL f rest subs.tail (σ1.mov sh)
      | r => r
/-- The loop `loop c sh body` with node `A`, entered in `σ0`, at the head `σ`. -/
def evalLoop : Nat → Int → Int → List (Instr w) → OptAnalysis w → State w → State w → Res w
  | 0, _, _, _, _, _, _ => .oof
  | f + 1, c, sh, body, A, σ0, σ =>
    if clobOk A σ0 σ then
      if σ.rd c = 0#w then .fin σ
      else
        match evalL f body A.subBlocks σ with
        | .fin σ1 =>
          if amoOk A c (σ1.mov sh) then evalLoop f c sh body A σ0 (σ1.mov sh) else .fail
        | r => r
    else .fail
end

/-- **The test for one program and one analysis tree**: run the block from the initial state with fuel `N`,
checking every claim of the recorded tree on the way; `false` if a claim fails or the run does not end within the
fuel. -/
def checkAnalIn (N : Nat) (b : Block w) (anal : OptAnalysis w) (env : Env) : Bool :=
  (evalL N b.insts anal.subBlocks (State.init env)).ok

/-- Replays the loop of `optimize` (`optimizeRounds`) and tests `checkAnalIn` on the input of every round. -/
def roundsCheck (N : Nat) (env : Env) : Nat → Block w → OptAnalysis w → Orders → Bool
  | 0, _, _, _ => true
  | n + 1, prog, anal, os =>
    match deadStoreElimination prog anal with
    | .ok prog1 =>
      checkAnalIn N prog1 anal env &&
        (match (optimizeOnce prog1 anal).run os with
         | .ok ((prog2, anal2), os2) => roundsCheck N env n prog2 anal2 os2
         | .error _ => true)
    | .error _ => true

/-- **The test for a whole run of `optimize`**: fuel `N` for each replay of a program from `env`. -/
def optimizeCheck (N : Nat) (b : Block w) (level : Nat) (orders : Orders) (env : Env) : Bool :=
  if level = 0 then true
  else
    match (optimizeOnce b (topAnalysis [] [])).run orders with
    | .ok ((prog, anal), os1) => roundsCheck N env (min level 3 - 1) prog anal os1
    | .error _ => true

/-! ### conveniences for a driver -/

/-- The test on source text at cell width `w` (`false` on a parse error). -/
def optimizeCheckSrcW (w : Nat) (N : Nat) (src : List Kind) (level : Nat) (orders : Orders) (env : Env) :
    Bool :=
  match Ir.parse (w := w) src with
  | .error _ => false
  | .ok b => optimizeCheck N b level orders env

/-- The test on source text at cell width 8. -/
def optimizeCheckSrc (N : Nat) (src : List Kind) (level : Nat) (orders : Orders) (env : Env) : Bool :=
  optimizeCheckSrcW 8 N src level orders env

/-- One line for a driver: `parse-error`, `optimize-error <diagnostic>` (the model of `optimize` fails on these
orders, as `Driver9.optRun` reports it), or `check=true` / `check=false`. -/
def checkReport (w : Nat) (N : Nat) (src : List Kind) (level : Nat) (orders : Orders) (env : Env) : String :=
  match Ir.parse (w := w) src with
  | .error _ => "parse-error"
  | .ok b =>
    match Opt.optimize b level orders with
    | .error e => "optimize-error " ++ e
    | .ok _ => if optimizeCheck N b level orders env then "check=true" else "check=false"

end OptCheck
end Hpbf
