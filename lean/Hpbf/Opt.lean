/-
Model of the optimizer of hpbf (`src/opt.rs`): `OptLoop`, `OptAnalysis`, `OptRebuild` (symbolic
re-execution of the IR with the `written` / `pending` / `reverse` maps), `Program::optimize_once`,
`Program::dead_store_elimination` (through `OptDse.eliminate`) and `Program::optimize`.

The port is function by function; every definition names the Rust function it mirrors.

Conventions
* `HashMap<isize, _>` = association list kept sorted by key (`mGet`/`mSet`/`mErase`), `HashSet<isize>` =
  ascending duplicate-free list (`sIns`/`sRem`). The representation is canonical: two maps with the same
  contents are the same list.
* Where the Rust ITERATES a hash container the site is marked `ORDER` with the reason why the result
  does not depend on the order — except in `gather_to_emit_dfs`, where the order is observable and is
  supplied by the caller (`Orders`, the sequence of orders the Rust run used, consumed front to back).
* Every place where the Rust can panic (`unwrap`, indexing, `usize` underflow in a debug build) is an
  `Except.error "panic: <site>"`. Errors `order-mismatch …` (oracle does not fit) and `model: …` (fuel of an
  internal loop exhausted, never observed) are model-side diagnostics, not Rust behaviour.
* `OptParent::Parent(&OptRebuild)`: the chain of enclosing states is passed explicitly (`ps`, innermost
  first); `Rebuild.parent` only says whether it may be consulted (`.parent`), is the all-zero initial tape
  (`.zero`) or unknown (`.unknown`).
* offsets (`isize`) are `Int`, cells are `BitVec w`.
-/
import Hpbf.Ir
import Hpbf.OptArith
import Hpbf.OptDse

namespace Hpbf
namespace Opt

variable {w : Nat}

/-! ### maps (`HashMap<isize, ν>`) and sets (`HashSet<isize>`) as sorted lists -/

/-- `HashMap::get`. -/
def mGet {ν : Type} : List (Int × ν) → Int → Option ν
  | [], _ => none
  | (k', v) :: rest, k => if k' = k then some v else mGet rest k

/-- `HashMap::insert` (overwrites); keeps the list ascending by key. -/
def mSet {ν : Type} : List (Int × ν) → Int → ν → List (Int × ν)
  | [], k, v => [(k, v)]
  | (k', v') :: rest, k, v =>
    if k' = k then (k, v) :: rest
    else if k < k' then (k, v) :: (k', v') :: rest
    else (k', v') :: mSet rest k v

/-- `HashMap::remove`. -/
def mErase {ν : Type} : List (Int × ν) → Int → List (Int × ν)
  | [], _ => []
  | (k', v') :: rest, k => if k' = k then rest else (k', v') :: mErase rest k

/-- `HashMap::contains_key`. -/
def mHas {ν : Type} (m : List (Int × ν)) (k : Int) : Bool := (mGet m k).isSome

/-- `HashMap::keys` (ascending). -/
def mKeys {ν : Type} (m : List (Int × ν)) : List Int := m.map (·.1)

/-- `HashSet::insert`; keeps the list ascending. -/
def sIns : List Int → Int → List Int
  | [], k => [k]
  | x :: xs, k => if x = k then x :: xs else if k < x then k :: x :: xs else x :: sIns xs k

/-- `HashSet::remove`. -/
def sRem (s : List Int) (k : Int) : List Int := s.filter (fun x => !(x == k))

/-! ### the parts of `ir::Expr` used here that `Expr.lean` does not have -/

/-- `Expr::grouped_vars`. -/
def groupedVars (e : Expr w) : List (List Int) := e.map (·.vars)

/-- `for var in res.variables_mut() { *var += shift }`. -/
def shiftVars (e : Expr w) (shift : Int) : Expr w :=
  e.map (fun p => { p with vars := p.vars.map (· + shift) })

/-- `Expr::split_along`: `(constant parts, other parts, [(initial, increment)] for the linear parts)`. -/
def splitAlong (e : Expr w) (constant : List Int) (linear : List (Int × Expr w)) :
    Except String (Expr w × Expr w × List (Expr w × Expr w)) :=
  e.foldlM (fun (acc : Expr w × Expr w × List (Expr w × Expr w)) part =>
    if part.vars.all (fun v => constant.contains v) then
      pure (acc.1 ++ [part], acc.2.1, acc.2.2)
    else if part.vars.all (fun v => constant.contains v || mHas linear v)
        && (part.vars.filter (fun x => !constant.contains x)).length == 1 then
      match part.vars.find? (fun x => !constant.contains x) with
      | none => throw "panic: split_along: find(..).unwrap()"
      | some linVar =>
        match mGet linear linVar with
        | none => throw "panic: split_along: linear[lin_var]"
        | some lin =>
          let increment : Part w := { coef := part.coef, vars := part.vars.filter (fun x => !(x == linVar)) }
          pure (acc.1, acc.2.1, acc.2.2 ++ [([part], Expr.mul [increment] lin)])
    else pure (acc.1, acc.2.1 ++ [part], acc.2.2)) ([], [], [])

/-! ### `OptWrite`, `OptParent`, `OptLoop`, `OptAnalysis` -/

/-- `OptWrite`. -/
inductive OptWrite (w : Nat) where
  | known (e : Expr w)
  | unknown
  | maybe
  deriving Repr, Inhabited

def OptWrite.isMaybe : OptWrite w → Bool
  | .maybe => true
  | _ => false

/-- `OptParent` without the reference (see the header). -/
inductive OptParent where
  | zero
  | unknown
  | parent
  deriving Repr, DecidableEq, Inhabited

/-- `OptLoop`. -/
structure OptLoop (w : Nat) where
  never : Bool
  finite : Bool
  noEffect : Bool
  noContinue : Bool
  atLeastOnce : Bool
  atMostOnce : Bool
  expr : Option (Expr w)
  deriving Repr, Inhabited

/-- `OptLoop::expr`. -/
def OptLoop.ofExpr (e : Expr w) : OptLoop w :=
  let c := Expr.constant e
  { never := c == some 0#w
    finite := true
    noEffect := c == some 0#w
    noContinue := false
    atLeastOnce := (match c with | some c => c != 0#w | none => false)
    atMostOnce := (match c with | some c => c == 0#w || c == 1#w | none => false)
    expr := some e }

/-- `OptLoop::no_return`. -/
def OptLoop.noReturn (atLeastOnce : Bool) : OptLoop w :=
  { never := false, finite := true, noEffect := true, noContinue := atLeastOnce,
    atLeastOnce := atLeastOnce, atMostOnce := true,
    expr := if atLeastOnce then some (Expr.val 1#w) else none }

/-- `OptLoop::infinite`. -/
def OptLoop.infinite (atLeastOnce : Bool) : OptLoop w :=
  { never := false, finite := false, noEffect := true, noContinue := atLeastOnce,
    atLeastOnce := atLeastOnce, atMostOnce := false, expr := none }

/-- `OptLoop::at_most_once`. -/
def OptLoop.atMostOnceOf (atLeastOnce : Bool) : OptLoop w :=
  if atLeastOnce then OptLoop.ofExpr (Expr.val 1#w)
  else
    { never := false, finite := true, noEffect := false, noContinue := false,
      atLeastOnce := false, atMostOnce := true, expr := none }

/-- `OptLoop::unknown`. -/
def OptLoop.unknown (atLeastOnce : Bool) : OptLoop w :=
  { never := false, finite := false, noEffect := false, noContinue := false,
    atLeastOnce := atLeastOnce, atMostOnce := false, expr := none }

/-- `OptLoop::to_at_least_once`. -/
def OptLoop.toAtLeastOnce (l : OptLoop w) : OptLoop w := { l with atLeastOnce := true }

/-- `OptLoop::to_at_most_once`. -/
def OptLoop.toAtMostOnce (l : OptLoop w) : OptLoop w :=
  { l with finite := true, atMostOnce := true, expr := none }

/-- `OptAnalysis`. -/
inductive OptAnalysis (w : Nat) where
  | mk (loopAnal : OptLoop w) (hasShift : Bool) (reads clobbered : List Int)
      (subBlocks : List (OptAnalysis w))
  deriving Inhabited

def OptAnalysis.loopAnal : OptAnalysis w → OptLoop w | .mk a _ _ _ _ => a
def OptAnalysis.hasShift : OptAnalysis w → Bool | .mk _ a _ _ _ => a
def OptAnalysis.reads : OptAnalysis w → List Int | .mk _ _ a _ _ => a
def OptAnalysis.clobbered : OptAnalysis w → List Int | .mk _ _ _ a _ => a
def OptAnalysis.subBlocks : OptAnalysis w → List (OptAnalysis w) | .mk _ _ _ _ a => a
def OptAnalysis.setSubBlocks : OptAnalysis w → List (OptAnalysis w) → OptAnalysis w
  | .mk a b c d _, s => .mk a b c d s

mutual
/-- The part of the analysis that dead store elimination reads (`OptDse.DAnal`). -/
def OptAnalysis.toDAnal : OptAnalysis w → OptDse.DAnal
  | .mk la hs reads _ subs => .mk la.atMostOnce la.atLeastOnce hs reads (OptAnalysis.toDAnals subs)
def OptAnalysis.toDAnals : List (OptAnalysis w) → List OptDse.DAnal
  | [] => []
  | a :: rest => OptAnalysis.toDAnal a :: OptAnalysis.toDAnals rest
end

/-! ### `OptRebuild` -/

/-- `OptRebuild` (the parent reference is the head of the chain passed alongside). -/
structure Rebuild (w : Nat) where
  parent : OptParent
  anal : Option (OptAnalysis w)
  shift : Int
  cond : Option Int
  subShift : Bool
  noReturn : Bool
  reads : List Int
  written : List (Int × OptWrite w)
  pending : List (Int × Expr w)
  reverse : List (Int × List Int)
  insts : List (Ir.Instr w)
  subAnal : List (OptAnalysis w)
  deriving Inhabited

/-- `OptRebuild::new`. -/
def Rebuild.new (shift : Int) (cond : Option Int) (par : OptParent) (anal : Option (OptAnalysis w)) :
    Rebuild w :=
  { parent := par, anal := anal, shift := shift, cond := cond, subShift := false, noReturn := false,
    reads := [], written := [], pending := [], reverse := [], insts := [], subAnal := [] }

/-- `OptRebuild::forget_parent`. -/
def forgetParent (s : Rebuild w) : Rebuild w := { s with parent := .unknown }

/-- The hash-set iteration orders recorded by the Rust run: `(visited variable, order of its users)`. -/
abbrev Orders := List (String × List Int)

/-- Functions that consume the oracle. -/
abbrev M := StateT Orders (Except String)

/-- `OptRebuild::remove_pending`. -/
def removePending (s : Rebuild w) (var : Int) : Rebuild w × Option (Expr w) :=
  match mGet s.pending var with
  | none => (s, none)
  | some expr =>
    let reverse := (Expr.variables expr).foldl (fun rev v =>
      match mGet rev v with
      | some users =>
        let users := sRem users var
        if users.isEmpty then mErase rev v else mSet rev v users
      | none => rev) s.reverse
    ({ s with pending := mErase s.pending var, reverse := reverse }, some expr)

/-- `OptRebuild::insert_written`. -/
def insertWritten (s : Rebuild w) (var : Int) (val : OptWrite w) : Rebuild w :=
  match val with
  | .known e => { s with written := mSet s.written var (.known (Expr.normalize e)) }
  | v => { s with written := mSet s.written var v }

/-- `OptRebuild::can_ask_parent_for`. -/
def canAskParentFor (s : Rebuild w) (var : Int) : Bool :=
  !s.subShift &&
    (match s.anal with
     | some anal =>
       anal.loopAnal.atMostOnce || (!anal.clobbered.contains (var - s.shift) && !anal.hasShift)
     | none => false)

/-- `OptRebuild::get_constant` (with `get_written_constant` and `get_parent_constant` unfolded, so that the
recursion runs along the parent chain). -/
def getConstant (s : Rebuild w) (ps : List (Rebuild w)) (var : Int) : Option (BitVec w) :=
  match mGet s.pending var with
  | some expr => Expr.constant expr
  | none =>
    match mGet s.written var with
    | some (.known expr) => Expr.constant expr
    | some _ => none
    | none =>
      if canAskParentFor s var then
        match s.parent, ps with
        | .zero, _ => some 0#w
        | .parent, p :: ps' => getConstant p ps' var
        | _, _ => none
      else none

/-- `OptRebuild::get_parent_constant`. -/
def getParentConstant (s : Rebuild w) (ps : List (Rebuild w)) (var : Int) : Option (BitVec w) :=
  if canAskParentFor s var then
    match s.parent, ps with
    | .zero, _ => some 0#w
    | .parent, p :: ps' => getConstant p ps' var
    | _, _ => none
  else none

/-- `OptRebuild::get_written_constant`. -/
def getWrittenConstant (s : Rebuild w) (ps : List (Rebuild w)) (var : Int) : Option (BitVec w) :=
  match mGet s.written var with
  | some (.known expr) => Expr.constant expr
  | some _ => none
  | none => getParentConstant s ps var

/-- `OptRebuild::get_written`. -/
def getWritten (s : Rebuild w) (ps : List (Rebuild w)) (var : Int) : Option (Expr w) :=
  match mGet s.written var with
  | some (.known expr) => some expr
  | some _ => none
  | none =>
    match getParentConstant s ps var with
    | some val => some (Expr.val val)
    | none => some (Expr.var var)

/-- `OptRebuild::get_pending`. -/
def getPending (s : Rebuild w) (ps : List (Rebuild w)) (var : Int) : Expr w :=
  match mGet s.pending var with
  | some expr => expr
  | none =>
    match getWrittenConstant s ps var with
    | some val => Expr.val val
    | none => Expr.var var

/-- `OptRebuild::retarget_output`. -/
def retargetOutput (s : Rebuild w) (var : Int) : Option Int :=
  match mGet s.pending var with
  | some expr => Expr.identity expr
  | none => some var

/-- `OptRebuild::eval_written`. -/
def evalWritten (s : Rebuild w) (ps : List (Rebuild w)) (expr : Expr w) : Option (Expr w) :=
  if (Expr.variables expr).any (fun x => mHas s.written x) then
    Expr.symbEvaluate expr (fun i => getWritten s ps i)
  else some expr

/-- `OptRebuild::get`. -/
def getBoth (s : Rebuild w) (ps : List (Rebuild w)) (var : Int) : Option (Expr w) :=
  match mGet s.pending var with
  | some expr => evalWritten s ps expr
  | none => getWritten s ps var

/-- `OptRebuild::is_non_zero`. -/
def isNonZero (s : Rebuild w) (ps : List (Rebuild w)) (var : Int) : Bool :=
  match mGet s.pending var with
  | some expr => (match Expr.constant expr with | some c => c != 0#w | none => false)
  | none =>
    match mGet s.written var with
    | some (.known expr) => (match Expr.constant expr with | some c => c != 0#w | none => false)
    | some _ => false
    | none =>
      if !s.subShift && s.cond == some var then true
      else if canAskParentFor s var then
        match s.parent, ps with
        | .parent, p :: ps' => isNonZero p ps' var
        | _, _ => false
      else false

/-- `OptRebuild::eval_pending`. The `unwrap` cannot fail (the closure never returns `None`). -/
def evalPending (s : Rebuild w) (ps : List (Rebuild w)) (shift : Int) (expr : Expr w) :
    Except String (Expr w) :=
  if (Expr.variables expr).any (fun x =>
      mHas s.pending (x + shift) || (getWrittenConstant s ps (x + shift)).isSome) then
    match Expr.symbEvaluate expr (fun x => some (getPending s ps (x + shift))) with
    | some e => pure e
    | none => throw "panic: eval_pending: symb_evaluate(..).unwrap()"
  else if shift != 0 then pure (shiftVars expr shift)
  else pure expr

/-- `OptRebuild::compare_written_no_parent`. -/
def compareWrittenNoParent (s : Rebuild w) (ps : List (Rebuild w)) (a b : Expr w) : Bool :=
  if a == b then true
  else
    match evalWritten s ps a with
    | some a' => (match evalWritten s ps b with | some b' => a' == b' | none => false)
    | none => false

/-- `OptRebuild::compare` (with `compare_written` and `compare_parent` unfolded, so that the recursion
runs along the parent chain). -/
def compare (s : Rebuild w) (ps : List (Rebuild w)) (a b : Expr w) : Except String Bool :=
  if a == b then pure true
  else do
    let a ← evalPending s ps 0 a
    let b ← evalPending s ps 0 b
    -- compare_written
    if a == b then pure true
    else
      match evalWritten s ps a, evalWritten s ps b with
      | some a, some b =>
        -- compare_parent
        if a == b then pure true
        else if (Expr.variables a ++ Expr.variables b).all (fun x => canAskParentFor s x) then
          match s.parent, ps with
          | .zero, _ => pure (Expr.constantPart a == Expr.constantPart b)
          | .parent, p :: ps' => compare p ps' a b
          | _, _ => pure false
        else pure false
      | _, _ => pure false

/-- `OptRebuild::compare_parent`. -/
def compareParent (s : Rebuild w) (ps : List (Rebuild w)) (a b : Expr w) : Except String Bool :=
  if a == b then pure true
  else if (Expr.variables a ++ Expr.variables b).all (fun x => canAskParentFor s x) then
    match s.parent, ps with
    | .zero, _ => pure (Expr.constantPart a == Expr.constantPart b)
    | .parent, p :: ps' => compare p ps' a b
    | _, _ => pure false
  else pure false

/-- `OptRebuild::compare_written`. -/
def compareWritten (s : Rebuild w) (ps : List (Rebuild w)) (a b : Expr w) : Except String Bool :=
  if a == b then pure true
  else
    match evalWritten s ps a, evalWritten s ps b with
    | some a, some b => compareParent s ps a b
    | _, _ => pure false

/-- `OptRebuild::insert_pending`. -/
def insertPending (s : Rebuild w) (ps : List (Rebuild w)) (var : Int) (expr : Expr w) : Rebuild w :=
  let s := (removePending s var).1
  if !compareWrittenNoParent s ps (Expr.var var) expr then
    let expr := Expr.normalize expr
    let reverse := ((Expr.variables expr).filter (fun x => !(x == var))).foldl (fun rev v =>
      mSet rev v (sIns ((mGet rev v).getD []) var)) s.reverse
    { s with reverse := reverse, pending := mSet s.pending var expr }
  else s

/-- `OptRebuild::uncertain_shift`. -/
def uncertainShift (s : Rebuild w) : Rebuild w :=
  { s with parent := .unknown, subShift := true, written := [] }

/-- `OptRebuild::read`. -/
def read (s : Rebuild w) (var : Int) : Rebuild w :=
  match mGet s.written var with
  | none => { s with reads := sIns s.reads var }
  | some .maybe => { s with reads := sIns s.reads var }
  | some _ => s

/-- `OptRebuild::possible_reads`. ORDER: a set is collected. -/
def possibleReads (s : Rebuild w) : List Int :=
  s.pending.foldl (fun acc kv =>
    ((Expr.variables kv.2).filter (fun v => !(v == kv.1))).foldl sIns acc) s.reads

/-- `OptRebuild::reduce_const`. The `unwrap` cannot fail (the closure never returns `None`). -/
def reduceConst (s : Rebuild w) (ps : List (Rebuild w)) (expr : Expr w) (constant : List Int) :
    Except String (Expr w) :=
  if (Expr.variables expr).any (fun i => constant.contains i) then
    match Expr.symbEvaluate expr (fun i =>
      if constant.contains i then
        match getConstant s ps i with
        | some c => some (Expr.val c)
        | none => some (Expr.var i)
      else some (Expr.var i)) with
    | some e => pure e
    | none => throw "panic: reduce_const: symb_evaluate(..).unwrap()"
  else pure expr

/-! ### emission -/

/-- Take the next recorded order; it must be the one of `var` and a permutation of `next`. -/
def takeOrder (var : Int) (next : List Int) : M (List Int) := fun os =>
  match os with
  | [] => .error s!"order-mismatch missing {var}"
  | (k, ns) :: rest =>
    if k != toString var then .error s!"order-mismatch var {var} recorded {k}"
    else if ns.length == next.length && next.all (fun x => ns.contains x) && ns.all (fun x => next.contains x) then
      .ok (ns, rest)
    else .error s!"order-mismatch set {var} model {next} recorded {ns}"

/-- The `while stack.len() != stack_len` loop of `gather_to_emit_dfs` (`stack` has its top at the head). -/
def popComp (stackLen : Nat) : List Int → Rebuild w → List (Int × Expr w) →
    Except String (Rebuild w × List Int × List (Int × Expr w))
  | [], s, comp =>
    if 0 == stackLen then pure (s, [], comp) else throw "panic: gather_to_emit_dfs: stack.pop().unwrap()"
  | var :: rest, s, comp =>
    if (var :: rest).length == stackLen then pure (s, var :: rest, comp)
    else
      match removePending s var with
      | (s, some expr) => popComp stackLen rest s (comp ++ [(var, expr)])
      | (s, none) => popComp stackLen rest s comp

/-- The mutable arguments of `gather_to_emit_dfs`. -/
structure Dfs (w : Nat) where
  s : Rebuild w
  index : Nat
  visited : List (Int × Nat)
  stack : List Int
  comps : List (List (Int × Expr w))

/-- `OptRebuild::gather_to_emit_dfs`. ORDER: `for n in next.iter()` is observable (DFS numbering, hence the
grouping and order of the emitted calculations); the order is taken from the oracle. `fuel` bounds the
recursion depth (every call visits a variable not visited before). -/
def gatherToEmitDfs : Nat → Dfs w → Int → M (Dfs w × Nat)
  | 0, _, _ => throw "model: gather_to_emit_dfs fuel"
  | fuel + 1, d, var => do
    let curIndex := d.index
    let d := { d with index := d.index + 1, visited := mSet d.visited var curIndex }
    let stackLen := d.stack.length
    let (d, low) ←
      match mGet d.s.reverse var with
      | none => pure (d, curIndex)
      | some next => do
        let order ← takeOrder var next
        order.foldlM (fun (acc : Dfs w × Nat) n =>
          match mGet acc.1.visited n with
          | some v => pure (acc.1, min acc.2 v)
          | none => do
            let (d', reached) ← gatherToEmitDfs fuel acc.1 n
            pure (d', min acc.2 reached)) (d, curIndex)
    let d := { d with stack := var :: d.stack }
    if low == curIndex then
      let (s', stack', comp) ← popComp stackLen d.stack d.s []
      pure ({ d with s := s', stack := stack',
                     comps := if comp.isEmpty then d.comps else d.comps ++ [comp] }, low)
    else pure (d, low)

/-- `OptRebuild::gather_for_emit`. -/
def gatherForEmit (s : Rebuild w) (emit : List Int) : M (Rebuild w × List (List (Int × Expr w))) :=
  if emit.all (fun var => !mHas s.reverse var) then
    pure (emit.foldl (fun (acc : Rebuild w × List (List (Int × Expr w))) var =>
      match removePending acc.1 var with
      | (s, some pending) => (s, acc.2 ++ [[(var, pending)]])
      | (s, none) => (s, acc.2)) (s, []))
  else do
    let fuel := s.pending.length + s.reverse.length + emit.length + 1
    let d ← emit.foldlM (fun (d : Dfs w) var =>
      if !mHas d.visited var then do
        -- `&mut 0`: the index restarts for every root
        let (d', _) ← gatherToEmitDfs fuel { d with index := 0 } var
        pure d'
      else pure d) { s := s, index := 0, visited := [], stack := [], comps := [] }
    pure (d.s, d.comps)

/-- `OptRebuild::written_calcs`: all calculations are evaluated on the state before any of them is recorded. -/
def writtenCalcs (s : Rebuild w) (ps : List (Rebuild w)) (calcs : List (Int × Expr w)) : Rebuild w :=
  let knowns := calcs.map (fun vc =>
    if Expr.opCount vc.2 < 32 then
      match evalWritten s ps vc.2 with
      | some c => (vc.1, OptWrite.known c)
      | none => (vc.1, OptWrite.unknown)
    else (vc.1, OptWrite.unknown))
  knowns.foldl (fun s vk => insertWritten s vk.1 vk.2) s

/-- `OptRebuild::emit_structured`. -/
def emitStructured (s : Rebuild w) (ps : List (Rebuild w)) (toEmit : List (List (Int × Expr w))) : Rebuild w :=
  toEmit.foldl (fun s calcs =>
    let s := calcs.foldl (fun s vc => (Expr.variables vc.2).foldl read s) s
    let s := writtenCalcs s ps calcs
    { s with insts := s.insts ++ [Ir.Instr.calc calcs] }) s

/-- `OptRebuild::emit`. -/
def emit (s : Rebuild w) (ps : List (Rebuild w)) (var : Int) : M (Rebuild w) :=
  if mHas s.pending var then do
    let (s, toEmit) ← gatherForEmit s [var]
    pure (emitStructured s ps toEmit)
  else pure s

/-- `OptRebuild::clobber`. -/
def clobber (s : Rebuild w) (ps : List (Rebuild w)) (var : Int) (maybe : Bool) : M (Rebuild w) := do
  let s := if !maybe then (removePending s var).1 else s
  let (s, toEmit) ← gatherForEmit s [var]
  let s := emitStructured s ps toEmit
  pure (insertWritten s var (if maybe then .maybe else .unknown))

/-- `for var in vars { … self.emit(var) … last = var }` of `perform_all` (`last = isize::MIN` is `none`). -/
def explosionVars (ps : List (Rebuild w)) : List Int → Option Int → Rebuild w → M (Rebuild w)
  | [], _, s => pure s
  | var :: rest, last, s => do
    let s ←
      match mGet s.pending var with
      | some expr =>
        if Expr.addCount expr > 1 || (last == some var && Expr.opCount expr > 1) then emit s ps var
        else pure s
      | none => pure s
    explosionVars ps rest (some var) s

/-- `OptRebuild::perform_all`: the explosion check for all calculations, then their evaluation on the
resulting state, then the insertion. -/
def performAll (s : Rebuild w) (ps : List (Rebuild w)) (shift : Int) (calcs : List (Int × Expr w)) :
    M (Rebuild w) := do
  let s ← calcs.foldlM (fun s vc =>
    (groupedVars vc.2).foldlM (fun s vars =>
      if vars.length ≥ 2 then explosionVars ps vars none s else pure s) s) s
  let exprs ← calcs.mapM (fun vc => do
    let pending ← (evalPending s ps shift vc.2 : Except String (Expr w))
    pure (shift + vc.1, pending))
  pure (exprs.foldl (fun s ve => insertPending s ps ve.1 ve.2) s)

/-! ### sorted views -/

def keyLe (a b : Nat × Int) : Bool := a.1 < b.1 || (a.1 == b.1 && decide (a.2 ≤ b.2))

def sortKey (sortUsing : Rebuild w) (x : Int) : Nat × Int :=
  match mGet sortUsing.pending x with
  | some p => (Expr.addCount p, x)
  | none => (0, x)

/-- `OptRebuild::pending`. ORDER: the keys are sorted by `(add_count, var)`, a total order on them. -/
def pendingSorted (s sortUsing : Rebuild w) : List Int :=
  Expr.stableSort (fun a b => keyLe (sortKey sortUsing a) (sortKey sortUsing b)) (mKeys s.pending)

/-- `OptRebuild::reads`. ORDER: as for `pending`. -/
def readsSorted (s sortUsing : Rebuild w) : List Int :=
  Expr.stableSort (fun a b => keyLe (sortKey sortUsing a) (sortKey sortUsing b)) s.reads

/-- `for var in vars { self.emit(var) }`. -/
def emitAll (ps : List (Rebuild w)) (vars : List Int) (s : Rebuild w) : M (Rebuild w) :=
  vars.foldlM (fun s var => emit s ps var) s

/-- `for var in vars { self.emit(var); self.read(var) }`. -/
def emitReadAll (ps : List (Rebuild w)) (vars : List Int) (s : Rebuild w) : M (Rebuild w) :=
  vars.foldlM (fun s var => do let s ← emit s ps var; pure (read s var)) s

/-- `for (var, maybe) in clobbered { self.clobber(var, maybe) }`. -/
def clobberAll (ps : List (Rebuild w)) (vars : List (Int × Bool)) (s : Rebuild w) : M (Rebuild w) :=
  vars.foldlM (fun s vm => clobber s ps vm.1 vm.2) s

/-! ### loop analysis -/

/-- `OptRebuild::analyze_loop` (`sub` is the state of the loop body; its parent chain is `s :: ps`). -/
def analyzeLoop (s : Rebuild w) (ps : List (Rebuild w)) (sub : Rebuild w) (cond : Int) (isLoop : Bool) :
    OptLoop w :=
  let initialCond := getConstant s ps cond
  let atLeastOnce := isNonZero s ps cond
  if initialCond == some 0#w then OptLoop.ofExpr (Expr.val 0#w)
  else if sub.noReturn then OptLoop.noReturn atLeastOnce
  else if !isLoop then OptLoop.atMostOnceOf atLeastOnce
  else
    match getConstant sub (s :: ps) (cond + sub.shift - s.shift) with
    | some storedCond =>
      if storedCond == 0#w then OptLoop.atMostOnceOf atLeastOnce else OptLoop.infinite atLeastOnce
    | none =>
      if sub.subShift then OptLoop.unknown atLeastOnce
      else
        match getBoth sub (s :: ps) (cond + sub.shift - s.shift) with
        | some expr =>
          match Expr.constIncOf expr cond with
          | some inc =>
            match initialCond with
            | some m =>
              match OptArith.tripCount m inc with
              | some n => OptLoop.ofExpr (Expr.val n)
              | none => OptLoop.infinite atLeastOnce
            | none =>
              match OptArith.tripInv inc with
              | some inv => OptLoop.ofExpr (Expr.mul (Expr.val inv) (Expr.var cond))
              | none => if inc == 0#w then OptLoop.infinite atLeastOnce else OptLoop.unknown atLeastOnce
          | none =>
            if Expr.identity expr == some cond then OptLoop.infinite atLeastOnce
            else OptLoop.unknown atLeastOnce
        | none => OptLoop.unknown atLeastOnce

/-- `OptRebuild::loop_motion`: `[before, during, after]`. ORDER: `used_vars` is a set queried with `all`. -/
def loopMotion (s : Rebuild w) (ps : List (Rebuild w)) (var : Int) (pending : Expr w) (complete : Bool)
    (reads constant : List Int) (linear : List (Int × Expr w)) (otherPending : List Int)
    (loopAnal : OptLoop w) : Except String (Option (Expr w) × Option (Expr w) × Option (Expr w)) := do
  if constant.contains var && complete then
    return (none, none, none)
  let pending ← reduceConst s ps pending constant
  let usedVars := Expr.variables pending
  if (!reads.contains var || loopAnal.atMostOnce)
      && usedVars.all (fun x => !otherPending.contains x || constant.contains x) then
    return (none, none, some pending)
  if !reads.contains var && complete then
    match loopAnal.expr with
    | none => pure ()
    | some expr =>
      match Expr.prodIncOf pending var with
      | none => pure ()
      | some (inc, mul) =>
        if mul == 1#w then
          let (cst, other, linears) ← splitAlong inc constant linear
          let ba := linears.foldl (fun (ba : Expr w × Expr w) (il : Expr w × Expr w) =>
            let r := OptArith.triStep expr il.1 il.2 ba.1
            if r.1 == 0 then (ba.1, Expr.add ba.2 il.1) else (r.2, ba.2)) (Expr.mul expr cst, other)
          return (some (Expr.add (Expr.var var) ba.1), some (Expr.add (Expr.var var) ba.2), none)
        else
          match Expr.constant expr with
          | none => pure ()
          | some c =>
            if Expr.isZero inc then
              return (some (Expr.mul (Expr.val (Cell.wrappingPow mul c)) (Expr.var var)), none, none)
            else if (Expr.variables inc).all (fun x => constant.contains x) then
              let m := OptArith.geomSum mul c
              return (some (Expr.add (Expr.mul (Expr.val (Cell.wrappingPow mul c)) (Expr.var var))
                (Expr.mul (Expr.val m) inc)), none, none)
            else pure ()
  return (none, some pending, none)

/-- `check_constant` inside `constants_among` (`vs` = what `iter()` yields). -/
def checkConstant (var : Int) (vs : List Int)
    (st : List Int × List (Int × List Int) × List (Int × Nat)) :
    List Int × List (Int × List Int) × List (Int × Nat) :=
  let (constant, dependents, dependsOn) := st
  if vs.all (fun x => x == var || constant.contains x) then (sIns constant var, dependents, dependsOn)
  else
    let others := vs.filter (fun x => !(x == var))
    let dependents := others.foldl (fun d v => mSet d v (((mGet d v).getD []) ++ [var])) dependents
    (constant, dependents, mSet dependsOn var others.length)

/-- The `for dep in deps` loop of `constants_among`. -/
def constDeps : List Int → List Int × List Int × List (Int × Nat) →
    Except String (List Int × List Int × List (Int × Nat))
  | [], st => pure st
  | dep :: rest, (stack, constant, dependsOn) =>
    match mGet dependsOn dep with
    | none => throw "panic: constants_among: depends_on.get_mut(&dep).unwrap()"
    | some 0 => throw "panic: constants_among: *v -= 1 underflow"
    | some (v + 1) =>
      let dependsOn := mSet dependsOn dep v
      if v == 0 then constDeps rest (dep :: stack, sIns constant dep, dependsOn)
      else constDeps rest (stack, constant, dependsOn)

/-- The `while let Some(c) = stack.pop()` loop of `constants_among` (`stack` has its top at the head). -/
def constLoop : Nat → List Int → List Int → List (Int × List Int) → List (Int × Nat) →
    Except String (List Int)
  | 0, _, _, _, _ => throw "model: constants_among fuel"
  | fuel + 1, stack, constant, dependents, dependsOn =>
    match stack with
    | [] => pure constant
    | c :: stack =>
      match mGet dependents c with
      | none => constLoop fuel stack constant dependents dependsOn
      | some deps => do
        let (stack, constant, dependsOn) ← constDeps deps (stack, constant, dependsOn)
        constLoop fuel stack constant (mErase dependents c) dependsOn

/-- `OptRebuild::constants_among`. ORDER: `vars` comes from a hash set, and the work stack starts with a hash
set's elements; the result is the least set closed under "all other variables of the operations are in the
set" that contains the directly constant variables, which does not depend on the order of discovery (every
variable is handled once, `dependents`/`depends_on` record exactly the unresolved edges). -/
def constantsAmong (s : Rebuild w) (ps : List (Rebuild w)) (sub : Rebuild w) (vars : List Int) :
    Except String (List Int) := do
  let st ← vars.foldlM (fun (st : List Int × List (Int × List Int) × List (Int × Nat)) var => do
    match mGet sub.written var with
    | some (.known written) =>
      if (← compare s ps (Expr.var var) written) then
        match mGet sub.pending var with
        | some pending =>
          if (← compare s ps (Expr.var var) pending) then
            pure (checkConstant var (Expr.variables written ++ Expr.variables pending) st)
          else pure st
        | none => pure (checkConstant var (Expr.variables written) st)
      else pure st
    | some _ => pure st
    | none =>
      match mGet sub.pending var with
      | some pending =>
        if (← compare s ps (Expr.var var) pending) then
          pure (checkConstant var (Expr.variables pending) st)
        else pure st
      | none => pure (sIns st.1 var, st.2.1, st.2.2)) ([], [], [])
  let (constant, dependents, dependsOn) := st
  constLoop (constant.length + dependsOn.length + 1) constant.reverse constant dependents dependsOn

/-- `OptRebuild::linear_among`. ORDER: a map is built whose entry for `var` depends on `var` only. -/
def linearAmong (s : Rebuild w) (ps : List (Rebuild w)) (sub : Rebuild w) (constant : List Int)
    (vars : List Int) : List (Int × Expr w) :=
  vars.foldl (fun linear var =>
    if mHas sub.written var then linear
    else
      match getBoth sub (s :: ps) var with
      | some complete =>
        match Expr.incOf complete var with
        | some inc =>
          if (Expr.variables inc).all (fun x => constant.contains x) then mSet linear var inc else linear
        | none => linear
      | none => linear) []

/-! ### structure -/

/-- `OptRebuild::loop_or_if` (`sub`'s parent has been forgotten). ORDER: the two loops over `sub_state.written`
fill a set, remove pending operations of distinct variables (which commute) and fill a list that is sorted
before use. -/
def loopOrIf (s : Rebuild w) (ps : List (Rebuild w)) (sub : Rebuild w) (cond : Int) (isLoop : Bool)
    (loopAnal : OptLoop w) (constant : List Int) : M (Rebuild w) := do
  let sub ← if !sub.noReturn then emitAll [] (pendingSorted sub sub) sub else pure sub
  let hasShift := sub.subShift || sub.shift != s.shift
  let (s, sub, clobbered) ←
    if hasShift then do
      let s ← emitAll ps (pendingSorted s s) s
      pure (uncertainShift s, sub, ([] : List Int))
    else do
      let sub := { sub with reads := sIns sub.reads cond }
      let s ← emitReadAll ps (readsSorted sub s) s
      -- written variables that are constant are not clobbered: their pending operations are performed first,
      -- and they count as read by this block (so that every enclosing block does the same)
      let s ← emitReadAll ps ((mKeys sub.written).filter (fun var => constant.contains var)) s
      let clobbered := (mKeys sub.written).filter (fun var => !constant.contains var)
      let s ←
        if !loopAnal.noEffect then do
          let sc := sub.written.foldl (fun (acc : Rebuild w × List (Int × Bool)) vk =>
            if !constant.contains vk.1 then
              if vk.2.isMaybe || !loopAnal.atLeastOnce then (acc.1, acc.2 ++ [(vk.1, true)])
              else ((removePending acc.1 vk.1).1, acc.2 ++ [(vk.1, false)])
            else acc) (s, [])
          let clobber := Expr.stableSort (fun (a b : Int × Bool) => decide (a.1 ≤ b.1)) sc.2
          clobberAll ps clobber sc.1
        else pure s
      let s :=
        match mGet sub.written cond with
        | some (.known expr) =>
          if Expr.constant expr == some 0#w then insertWritten s cond (.known (Expr.val 0#w)) else s
        | _ => s
      pure (s, sub, clobbered)
  let blockShift := sub.shift - s.shift
  let s :=
    if isLoop then
      insertWritten { s with insts := s.insts ++ [Ir.Instr.loop cond blockShift sub.insts loopAnal.atLeastOnce] }
        cond (.known (Expr.val 0#w))
    else { s with insts := s.insts ++ [Ir.Instr.ifnz cond blockShift sub.insts] }
  let s := if loopAnal.noContinue then { s with noReturn := true } else s
  pure { s with subAnal := s.subAnal ++ [OptAnalysis.mk loopAnal hasShift sub.reads clobbered sub.subAnal] }

/-- The iteration order of `sub_state.pending.into_iter()` in `inline`: oracle entry `inline:k1,k2,…` (recorded
by the Rust exactly when there are at least two keys), which must be a permutation of the keys. -/
def takeInlineOrder (pending : List (Int × Expr w)) : M (List (Int × Expr w)) := fun os =>
  if pending.length < 2 then .ok (pending, os)
  else
    match os with
    | ("inline", ks) :: rest =>
      let keys := mKeys pending
      if ks.length == keys.length && keys.all (fun x => ks.contains x) && ks.all (fun x => keys.contains x) then
        .ok (ks.filterMap (fun k => (mGet pending k).map (fun e => (k, e))), rest)
      else .error s!"order-mismatch set inline model {keys} recorded {ks}"
    | _ => .error s!"order-mismatch missing inline {mKeys pending}"

/-- `OptRebuild::inline`. ORDER: the loop over `sub_state.written` removes pending operations of distinct
variables (which commute) and fills a list that is sorted before use; `written_calcs` evaluates everything
before recording anything; `perform_all` is handed `sub_state.pending` in hash order — its evaluation and
insertion phases do not depend on the order, but its explosion check emits in the order of the calculations,
which is observable: the order is taken from the oracle (`takeInlineOrder`). -/
def inline (s : Rebuild w) (ps : List (Rebuild w)) (sub : Rebuild w) : M (Rebuild w) := do
  let s ←
    if sub.subShift then do
      let s ← emitAll ps (pendingSorted s s) s
      pure (uncertainShift s)
    else emitReadAll ps (readsSorted sub s) s
  let sc := sub.written.foldl (fun (acc : Rebuild w × List (Int × Bool)) vk =>
    if vk.2.isMaybe then (acc.1, acc.2 ++ [(vk.1, true)])
    else ((removePending acc.1 vk.1).1, acc.2 ++ [(vk.1, false)])) (s, [])
  let clobbered := Expr.stableSort (fun (a b : Int × Bool) => decide (a.1 ≤ b.1)) sc.2
  let s ← clobberAll ps clobbered sc.1
  let s := { s with insts := s.insts ++ sub.insts }
  let s := writtenCalcs s ps (sub.written.filterMap (fun vk =>
    match vk.2 with
    | .known e => some (vk.1, e)
    | _ => none))
  let s ←
    if sub.noReturn then pure { s with noReturn := true }
    else do
      let pending ← takeInlineOrder sub.pending
      let s ← performAll s ps 0 pending
      pure { s with shift := sub.shift }
  pure { s with subAnal := s.subAnal ++ sub.subAnal }

/-- `OptRebuild::loop_inside_if`. -/
def loopInsideIf (s : Rebuild w) (ps : List (Rebuild w)) (sub : Rebuild w) (cond : Int) (loopAnal : OptLoop w)
    (after : List (Int × Expr w)) (constant : List Int) : M (Rebuild w) := do
  let s ←
    if loopAnal.atMostOnce then inline s ps sub
    else if loopAnal.finite && sub.shift == s.shift && sub.insts.isEmpty && sub.pending.length == 1
        && mHas sub.pending cond then
      performAll s ps 0 [(cond, Expr.val 0#w)]
    else loopOrIf s ps sub cond true loopAnal constant
  performAll s ps 0 after

/-- The `Loop`/`If` arm of `rebuild_block` after `sub_state.rebuild_block(block)` has returned. -/
def finishLoop (s : Rebuild w) (ps : List (Rebuild w)) (sub : Rebuild w) (cond : Int) (isLoop : Bool) :
    M (Rebuild w) := do
  let loopAnal := analyzeLoop s ps sub cond isLoop
  if loopAnal.never then
    return s
  let (sub, before, after, constant) ←
    if sub.subShift || sub.shift != s.shift then
      pure (sub, ([] : List (Int × Expr w)), ([] : List (Int × Expr w)), ([] : List Int))
    else do
      let pending := pendingSorted sub sub
      let possibleReads := sIns (possibleReads sub) cond
      let constant ← (constantsAmong s ps sub
        (possibleReads ++ pending.filter (fun x => !possibleReads.contains x)) : Except String (List Int))
      let linear := linearAmong s ps sub constant (possibleReads ++ pending)
      let pendingSet := pending.filter (fun x => !constant.contains x)
      let init : Rebuild w × List (Int × Expr w) × List (Int × Expr w) × List (Int × Expr w) :=
        (sub, [], [], [])
      let (sub, before, toPerform, after) ← pending.foldlM (fun acc var => do
        let (sub, before, toPerform, after) := acc
        let hasWritten := mHas sub.written var
        match removePending sub var with
        | (_, none) => throw "panic: rebuild_block: remove_pending(var).unwrap()"
        | (sub, some p) =>
          let (b, d, a) ← (loopMotion s ps var p (!hasWritten) possibleReads constant linear pendingSet loopAnal :
            Except String (Option (Expr w) × Option (Expr w) × Option (Expr w)))
          let before := match b with | some b => before ++ [(var, b)] | none => before
          let toPerform := match d with | some d => toPerform ++ [(var, d)] | none => toPerform
          let after :=
            if !loopAnal.noEffect then (match a with | some a => after ++ [(var, a)] | none => after)
            else after
          pure (sub, before, toPerform, after)) init
      let sub ← performAll sub (s :: ps) 0 toPerform
      pure (sub, before, after, constant)
  let sub := forgetParent sub
  let s ← performAll s ps 0 before
  if loopAnal.atLeastOnce || (!loopAnal.atMostOnce && after.isEmpty) then
    loopInsideIf s ps sub cond loopAnal after constant
  else do
    let ifState : Rebuild w := Rebuild.new s.shift (some cond) .unknown none
    let ifState ← loopInsideIf ifState [] sub cond loopAnal.toAtLeastOnce after constant
    loopOrIf s ps ifState cond false loopAnal.toAtMostOnce constant

/-- `if let Some(anal) = &mut self.anal { anal.sub_blocks.reverse() }`. -/
def reverseSubBlocks (s : Rebuild w) : Rebuild w :=
  match s.anal with
  | some anal => { s with anal := some (anal.setSubBlocks anal.subBlocks.reverse) }
  | none => s

/-- `if let Some(anal) = &mut self.anal { anal.sub_blocks.pop() } else { None }`. -/
def popSubAnal (s : Rebuild w) : Rebuild w × Option (OptAnalysis w) :=
  match s.anal with
  | some anal =>
    (match anal.subBlocks.getLast? with
     | some last => ({ s with anal := some (anal.setSubBlocks anal.subBlocks.dropLast) }, some last)
     | none => (s, none))
  | none => (s, none)

mutual
/-- One instruction of the loop of `OptRebuild::rebuild_block`. -/
def rebuildInstr (ps : List (Rebuild w)) (s : Rebuild w) : Ir.Instr w → M (Rebuild w)
  | .output src => do
    let src := src + s.shift
    match retargetOutput s src with
    | some src =>
      let s := read s src
      pure { s with insts := s.insts ++ [Ir.Instr.output src] }
    | none =>
      let s ← emit s ps src
      let s := read s src
      pure { s with insts := s.insts ++ [Ir.Instr.output src] }
  | .input dst => do
    let dst := dst + s.shift
    let s ← clobber s ps dst false
    pure { s with insts := s.insts ++ [Ir.Instr.input dst] }
  | .calc calcs => performAll s ps s.shift calcs
  | .loop cond shift body _ => do
    let cond := cond + s.shift
    let (s, subAnal) := popSubAnal s
    let sub : Rebuild w := reverseSubBlocks (Rebuild.new s.shift (some cond) .parent subAnal)
    let (sub, completed) ← rebuildInsts (s :: ps) sub body
    let sub := if completed then { sub with shift := sub.shift + shift } else sub
    finishLoop s ps sub cond true
  | .ifnz cond shift body => do
    let cond := cond + s.shift
    let (s, subAnal) := popSubAnal s
    let sub : Rebuild w := reverseSubBlocks (Rebuild.new s.shift (some cond) .parent subAnal)
    let (sub, completed) ← rebuildInsts (s :: ps) sub body
    let sub := if completed then { sub with shift := sub.shift + shift } else sub
    finishLoop s ps sub cond false
/-- The loop of `OptRebuild::rebuild_block`; `false` = left through `if self.no_return { return; }` (the
block's shift is then not applied). -/
def rebuildInsts (ps : List (Rebuild w)) (s : Rebuild w) : List (Ir.Instr w) → M (Rebuild w × Bool)
  | [] => pure (s, true)
  | i :: rest =>
    if s.noReturn then pure (s, false)
    else do
      let s ← rebuildInstr ps s i
      rebuildInsts ps s rest
end

/-- `OptRebuild::rebuild_block`. -/
def rebuildBlock (ps : List (Rebuild w)) (s : Rebuild w) (b : Ir.Block w) : M (Rebuild w) := do
  let (s, completed) ← rebuildInsts ps (reverseSubBlocks s) b.insts
  pure (if completed then { s with shift := s.shift + b.shift } else s)

/-! ### `Program` -/

/-- The analysis `optimize` starts from, and the shape `optimize_once` returns. -/
def topAnalysis (reads : List Int) (subBlocks : List (OptAnalysis w)) : OptAnalysis w :=
  .mk (OptLoop.atMostOnceOf true) false reads [] subBlocks

/-- `Program::optimize_once`. -/
def optimizeOnce (b : Ir.Block w) (prevAnal : OptAnalysis w) : M (Ir.Block w × OptAnalysis w) := do
  let state ← rebuildBlock [] (Rebuild.new 0 none .zero (some prevAnal)) b
  pure ({ shift := 0, insts := state.insts }, topAnalysis state.reads state.subAnal)

/-- `Program::dead_store_elimination`. -/
def deadStoreElimination (b : Ir.Block w) (anal : OptAnalysis w) : Except String (Ir.Block w) :=
  match OptDse.eliminate b anal.toDAnal with
  | some b => pure b
  | none => throw "panic: eliminate_in_block: sub_blocks index"

/-- The `for _ in 1..level.min(3)` loop of `optimize`. -/
def optimizeRounds : Nat → Ir.Block w → OptAnalysis w → M (Ir.Block w)
  | 0, prog, _ => pure prog
  | n + 1, prog, anal => do
    let prog ← (deadStoreElimination prog anal : Except String (Ir.Block w))
    let (prog, anal) ← optimizeOnce prog anal
    optimizeRounds n prog anal

/-- `Program::optimize` in the oracle monad. -/
def optimizeM (b : Ir.Block w) (level : Nat) : M (Ir.Block w) :=
  if level != 0 then do
    let (prog, anal) ← optimizeOnce b (topAnalysis [] [])
    optimizeRounds (min level 3 - 1) prog anal
  else pure b

/-- `Program::optimize`, given the hash-set iteration orders to use (all of them must be consumed). -/
def optimize (b : Ir.Block w) (level : Nat) (orders : Orders) : Except String (Ir.Block w) :=
  match (optimizeM b level).run orders with
  | .error e => .error e
  | .ok (prog, []) => .ok prog
  | .ok (_, o :: _) => .error s!"order-mismatch unused {o.1}"

end Opt
end Hpbf
