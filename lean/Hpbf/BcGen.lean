/-
Model of `bc::CodeGen::translate` (`src/bc.rs`): IR → bytecode, together with `Expr::codegen`
(`src/ir.rs`). The port is step by step: same passes, same iteration orders, same tie-breaking.

Conventions
* Every place where the Rust would panic (`unwrap` on `None`, index out of bounds, `usize`/`u16`
  underflow in a debug build, the final `assert!`) is an `Except.error "<site>"`; `translateE` returns
  the error, `translate` maps it to an obviously invalid sentinel program.
* `HashMap`/`HashSet` are association lists / duplicate-free lists. Wherever the Rust ITERATES one of
  them the result does not depend on the iteration order (argued at each site, search for `ORDER`).
* `BinaryHeap`s are sorted lists with the element that `peek`/`pop` would return at the head; the order
  in which a heap hands out its elements depends only on the multiset it contains.
* `BTreeSet<usize>` of write positions: only queried with `range(from..to).any(..)`, a plain list.
-/
import Hpbf.Ir
import Hpbf.Bc

namespace Hpbf
namespace BcGen

variable {w : Nat}

/-! ### association lists and sets -/

def alGet {κ ν : Type} [DecidableEq κ] : List (κ × ν) → κ → Option ν
  | [], _ => none
  | (k', v) :: rest, k => if k' = k then some v else alGet rest k

/-- `HashMap::insert` (overwrites). -/
def alSet {κ ν : Type} [DecidableEq κ] : List (κ × ν) → κ → ν → List (κ × ν)
  | [], k, v => [(k, v)]
  | (k', v') :: rest, k, v => if k' = k then (k', v) :: rest else (k', v') :: alSet rest k v

/-- `HashMap::remove`. -/
def alErase {κ ν : Type} [DecidableEq κ] : List (κ × ν) → κ → List (κ × ν)
  | [], _ => []
  | (k', v') :: rest, k => if k' = k then rest else (k', v') :: alErase rest k

/-- `HashSet::insert`. -/
def setInsert {κ : Type} [DecidableEq κ] (s : List κ) (k : κ) : List κ :=
  if s.contains k then s else s ++ [k]

/-- `HashSet::remove`. -/
def setErase {κ : Type} [DecidableEq κ] (s : List κ) (k : κ) : List κ := s.filter (fun x => !(x == k))

/-! ### heaps -/

/-- `BinaryHeap<Reverse<usize>>::push`: ascending list, `pop` takes the head. -/
def minPush (x : Nat) : List Nat → List Nat
  | [] => [x]
  | y :: ys => if y ≤ x then y :: minPush x ys else x :: y :: ys

/-- Strict order of `(Reverse(end), tmp)`: `a` is handed out before `b`. -/
def nreGt (a b : Nat × Nat) : Bool := a.1 < b.1 || (a.1 == b.1 && a.2 > b.2)

/-- `BinaryHeap<(Reverse<usize>, usize)>::push`: descending (in heap order) list, `peek`/`pop` = head. -/
def nrePush (x : Nat × Nat) : List (Nat × Nat) → List (Nat × Nat)
  | [] => [x]
  | y :: ys => if nreGt y x then y :: nrePush x ys else x :: y :: ys

/-! ### `Analysis` -/

structure Analysis where
  hasShift : Bool
  writes : List Int
  subAnal : List Analysis
  minAcc : Int
  maxAcc : Int
  deriving Inhabited

def Analysis.empty : Analysis :=
  { hasShift := false, writes := [], subAnal := [], minAcc := 0, maxAcc := 0 }

/-- `Analysis::accessed`. -/
def Analysis.accessed (a : Analysis) (v : Int) : Analysis :=
  let a := if a.minAcc > v then { a with minAcc := v } else a
  if a.maxAcc < v then { a with maxAcc := v } else a

/-- `Analysis::written`. -/
def Analysis.written (a : Analysis) (v : Int) : Analysis :=
  let a := a.accessed v
  if !a.hasShift then { a with writes := setInsert a.writes v } else a

/-- The `Loop`/`If` arm of `Analysis::analyze` once the sub-block has been analysed.
ORDER: `for &var in &sub_analysis.writes { anal.written(var) }` iterates a `HashSet`; `written` only
updates min/max and inserts into a set (`has_shift` is false throughout), so the order is immaterial. -/
def Analysis.absorb (a : Analysis) (cond : Int) (sub : Analysis) : Analysis :=
  let a := a.accessed cond
  let a := a.accessed sub.minAcc
  let a := a.accessed sub.maxAcc
  let a :=
    if sub.hasShift then { a with hasShift := true, writes := [] }
    else if !a.hasShift then sub.writes.foldl Analysis.written a
    else a
  { a with subAnal := a.subAnal ++ [sub] }

def Analysis.calc (a : Analysis) (calcs : List (Int × Expr w)) : Analysis :=
  calcs.foldl (fun a ve => ((Expr.variables ve.2).foldl Analysis.accessed a).written ve.1) a

/-- `if block.shift != 0 { anal.has_shift = true }`. -/
def Analysis.close (a : Analysis) (shift : Int) : Analysis :=
  if shift != 0 then { a with hasShift := true } else a

mutual
/-- One instruction of the loop in `Analysis::analyze`. -/
def analyzeInstr : Ir.Instr w → Analysis → Analysis
  | .output src, a => a.accessed src
  | .input dst, a => a.written dst
  | .calc calcs, a => a.calc calcs
  | .loop cond shift body _, a => a.absorb cond ((analyzeInsts body Analysis.empty).close shift)
  | .ifnz cond shift body, a => a.absorb cond ((analyzeInsts body Analysis.empty).close shift)
def analyzeInsts : List (Ir.Instr w) → Analysis → Analysis
  | [], a => a
  | i :: rest, a => analyzeInsts rest (analyzeInstr i a)
end

/-- `Analysis::analyze`. -/
def analyze (b : Ir.Block w) : Analysis := (analyzeInsts b.insts Analysis.empty).close b.shift

/-! ### generator state -/

structure RangeInfo where
  created : Nat
  firstUse : Option Nat
  lastUse : Option Nat
  numUses : Nat
  deriving Repr, Inhabited

inductive GvnExpr (w : Nat) where
  | imm (c : BitVec w)
  | mem (v : Int)
  | add (a b : Nat)
  | sub (a b : Nat)
  | mul (a b : Nat)
  deriving Repr, DecidableEq, Inhabited

structure St (w : Nat) where
  writes : List (Int × List Nat) := []
  ranges : Array RangeInfo := #[]
  exprs : Array (GvnExpr w) := #[]
  values : List (GvnExpr w × Nat) := []
  insts : Array (Bc.Instr w) := #[]
  live : Array Nat := #[]
  isTarget : Array Bool := #[]
  currentStart : Nat := 0
  outerAccessed : Array Nat := #[]
  deriving Inhabited

abbrev M (w : Nat) := StateT (St w) (Except String)

def pushInst (i : Bc.Instr w) : M w Unit := modify fun s => { s with insts := s.insts.push i }

/-- `self.writes.entry(var).or_default().insert(pos)`. -/
def addWrite (ws : List (Int × List Nat)) (var : Int) (pos : Nat) : List (Int × List Nat) :=
  match alGet ws var with
  | some l => alSet ws var (if l.contains pos then l else pos :: l)
  | none => alSet ws var [pos]

/-- `range_extend_to` on the range table. -/
def extendTo (ranges : Array RangeInfo) (value to : Nat) : Except String (Array RangeInfo) :=
  match ranges[value]? with
  | none => .error "range_extend_to:ranges-index"
  | some r =>
    let r := if r.firstUse.isNone then { r with firstUse := some to } else r
    .ok (ranges.setIfInBounds value { r with lastUse := some to })

def rangeExtendTo (value to : Nat) : M w Unit := fun s =>
  match extendTo s.ranges value to with
  | .error e => .error e
  | .ok rs => .ok ((), { s with ranges := rs })

/-- `range_extend`. -/
def rangeExtend (value : Nat) : M w Unit := do
  let s ← get
  match s.ranges[value]? with
  | none => throw "range_extend:ranges-index"
  | some r =>
    if r.created < s.currentStart
        && (match r.lastUse with | none => true | some l => l < s.currentStart) then
      modify fun s => { s with outerAccessed := s.outerAccessed.push value }
    rangeExtendTo value s.insts.size

/-- `read`. -/
def read (value : Nat) : M w Unit := do
  rangeExtend value
  modify fun s =>
    match s.ranges[value]? with
    | some r => { s with ranges := s.ranges.setIfInBounds value { r with numUses := r.numUses + 1 } }
    | none => s

/-- `get_value`. -/
def getValue (e : GvnExpr w) : M w Nat := do
  let s ← get
  match alGet s.values e with
  | some v => pure v
  | none =>
    let value := s.ranges.size
    set { s with
      ranges := s.ranges.push { created := s.insts.size, firstUse := none, lastUse := none, numUses := 0 }
      exprs := s.exprs.push e }
    match e with
    | .add a b => do read a; read b
    | .sub a b => do read a; read b
    | .mul a b => do read a; read b
    | _ => pure ()
    let inst : Bc.Instr w :=
      match e with
      | .imm v => .copy (.tmp value) (.imm v)
      | .mem v => .copy (.tmp value) (.mem v)
      | .add a b => .add (.tmp value) (.tmp a) (.tmp b)
      | .sub a b => .sub (.tmp value) (.tmp a) (.tmp b)
      | .mul a b => .mul (.tmp value) (.tmp a) (.tmp b)
    modify fun s => { s with insts := s.insts.push inst, values := alSet s.values e value }
    pure value

/-! ### `Expr::codegen` with `ordering = |x| if x == var { 1 } else { 0 }` -/

def ordering (var x : Int) : Nat := if x = var then 1 else 0

/-- `for var in sorted.into_iter().skip(1) { mem = codegen.mem(var); result = codegen.mul(result, mem) }`. -/
def codegenVars (result : Nat) : List Int → M w Nat
  | [] => pure result
  | v :: vs => do
    let m ← getValue (.mem v)
    let r ← getValue (.mul result m)
    codegenVars r vs

/-- `codegen_part`. -/
def codegenPart (var : Int) (p : Part w) : M w Nat :=
  match Expr.stableSort (fun a b => decide (ordering var a ≤ ordering var b)) p.vars with
  | [] => getValue (.imm p.coef)
  | v0 :: vs => do
    let r0 ← getValue (.mem v0)
    let r ← codegenVars r0 vs
    if p.coef = 1#w || p.coef = -1#w then pure r
    else do
      let imm ← getValue (.imm p.coef)
      getValue (.mul r imm)

/-- Sort key of a part: `part.vars.iter().map(ordering).min().unwrap_or(0)`. -/
def partKey (var : Int) (p : Part w) : Nat :=
  match p.vars with
  | [] => 0
  | v :: vs => vs.foldl (fun m x => min m (ordering var x)) (ordering var v)

def isNegVar (p : Part w) : Bool := !p.vars.isEmpty && p.coef = -1#w

/-- `position(|p| p.vars.is_empty() || p.coef != NEG_ONE)`. -/
def findSwap : List (Part w) → Nat → Option Nat
  | [], _ => none
  | p :: ps, i => if p.vars.isEmpty || p.coef ≠ -1#w then some i else findSwap ps (i + 1)

/-- The sorted part list of `Expr::codegen` after the optional `swap(0, idx)`. -/
def orderParts (var : Int) (e : Expr w) : List (Part w) :=
  let sorted := Expr.stableSort (fun a b => decide (partKey var a ≤ partKey var b)) e
  match sorted with
  | [] => []
  | p0 :: _ =>
    if isNegVar p0 then
      match findSwap sorted 0 with
      | some idx =>
        let arr := sorted.toArray
        match arr[idx]? with
        | some pi => ((arr.setIfInBounds 0 pi).setIfInBounds idx p0).toList
        | none => sorted
      | none => sorted
    else sorted

def codegenRest (var : Int) (result : Nat) : List (Part w) → M w Nat
  | [] => pure result
  | p :: ps => do
    let pr ← codegenPart var p
    let r ← if isNegVar p then getValue (.sub result pr) else getValue (.add result pr)
    codegenRest var r ps

/-- `get_expr_value` = `expr.codegen(self, |x| if x == var { 1 } else { 0 })`. -/
def getExprValue (e : Expr w) (var : Int) : M w Nat :=
  match orderParts var e with
  | [] => getValue (.imm 0#w)
  | p0 :: ps => do
    let r0 ← codegenPart var p0
    let r ←
      if isNegVar p0 then do
        let z ← getValue (.imm 0#w)
        getValue (.sub z r0)
      else pure r0
    codegenRest var r ps

/-- `mem_write`. -/
def memWrite (var : Int) (value : Nat) : M w Unit := do
  read value
  modify fun s =>
    { s with
      writes := addWrite s.writes var s.insts.size
      values := alSet s.values (.mem var) value
      insts := s.insts.push (.copy (.mem var) (.tmp value)) }

def calcValues : List (Int × Expr w) → M w (List (Int × Nat))
  | [] => pure []
  | (v, e) :: rest => do
    let x ← getExprValue e v
    let r ← calcValues rest
    pure ((v, x) :: r)

def memWrites : List (Int × Nat) → M w Unit
  | [] => pure ()
  | (v, x) :: rest => do memWrite v x; memWrites rest

/-- ORDER: `for &var in &sub_anal.writes { self.values.remove(&GvnExpr::Mem(var)) }` iterates a
`HashSet`; removing a set of keys from a map commutes. -/
def removeMems (values : List (GvnExpr w × Nat)) (vars : List Int) : List (GvnExpr w × Nat) :=
  vars.foldl (fun vs v => alErase vs (.mem v)) values

/-- The `while i < self.outer_accessed.len()` loop after a loop body. `range_extend` can in principle
push onto `outer_accessed`; every value is pushed at most once here (afterwards its `last_use` is
`insts.len() ≥ current_start`), so `fuel = |outer_accessed| + |ranges| + 1` iterations suffice. -/
def outerLoop (prevStart : Nat) : Nat → Nat → M w Unit
  | 0, _ => throw "emit_block:outer_accessed-loop-fuel"
  | fuel + 1, i => do
    let s ← get
    if i < s.outerAccessed.size then
      match s.outerAccessed[i]? with
      | none => throw "emit_block:outer_accessed-index"
      | some var =>
        match s.ranges[var]? with
        | none => throw "emit_block:ranges-index"
        | some r =>
          if r.created < prevStart then outerLoop prevStart fuel (i + 1)
          else do
            rangeExtend var
            -- swap_remove(i)
            modify fun s =>
              match s.outerAccessed.back? with
              | some last => { s with outerAccessed := (s.outerAccessed.setIfInBounds i last).pop }
              | none => s
            outerLoop prevStart fuel i
    else pure ()

/-- The `Loop`/`If` arm of `emit_block`; `emitBody ps` is the recursive `emit_block` call on the
sub-block (whose `prev_start` is the value `ps` of `current_start` on entry). -/
def emitLoopIf (fuse : Bool) (prevStart : Nat) (isLoop once : Bool) (cond shift : Int)
    (bodyEmpty : Bool) (sub : Analysis) (emitBody : Nat → M w Unit) : M w Unit := do
  if isLoop then
    if sub.hasShift then modify fun s => { s with values := [] }
    else modify fun s => { s with values := removeMems s.values sub.writes }
  let s0 ← get
  let prevExprs := s0.exprs.size
  let numOuter := s0.outerAccessed.size
  if !fuse || !isLoop || !bodyEmpty then
    if !once then pushInst .noop
    let startInstr := (← get).insts.size
    if isLoop then modify fun s => { s with currentStart := startInstr }
    emitBody (← get).currentStart
    if shift != 0 then pushInst (.mov shift)
    if isLoop then
      let s ← get
      outerLoop prevStart (s.outerAccessed.size + s.ranges.size + 1) numOuter
      let off : Int := (startInstr : Int) - ((← get).insts.size : Int)
      pushInst (.brnz cond off)
    if !once then
      if startInstr = 0 then throw "emit_block:start_instr-1-underflow"
      let branchAt := startInstr - 1
      let s ← get
      if branchAt ≥ s.insts.size then throw "emit_block:insts-index"
      let off : Int := (s.insts.size : Int) - (branchAt : Int)
      set { s with insts := s.insts.setIfInBounds branchAt (.brz cond off) }
    modify fun s => { s with currentStart := prevStart }
  else
    pushInst (.scan cond shift)
  if sub.hasShift then modify fun s => { s with values := [] }
  else if !once then
    modify fun s =>
      let vs := removeMems s.values sub.writes
      { s with values := (s.exprs.toList.drop prevExprs).foldl (fun vs e => alErase vs e) vs }

mutual
/-- One iteration of the loop in `emit_block`; consumes `anal.sub_anal[block_idx]` from the list. -/
def emitInstr (fuse : Bool) (prevStart : Nat) : Ir.Instr w → List Analysis → M w (List Analysis)
  | .output src, an => do pushInst (.out src); pure an
  | .input dst, an => do
    modify fun s =>
      { s with
        values := alErase s.values (.mem dst)
        writes := addWrite s.writes dst s.insts.size
        insts := s.insts.push (.inp dst) }
    pure an
  | .calc calcs, an => do
    let vals ← calcValues calcs
    memWrites vals
    pure an
  | .loop cond shift body once, an =>
    match an with
    | [] => throw "emit_block:sub_anal-index"
    | sub :: an' => do
      emitLoopIf fuse prevStart true once cond shift body.isEmpty sub
        (fun ps => emitInsts fuse ps body sub.subAnal)
      pure an'
  | .ifnz cond shift body, an =>
    match an with
    | [] => throw "emit_block:sub_anal-index"
    | sub :: an' => do
      emitLoopIf fuse prevStart false false cond shift body.isEmpty sub
        (fun ps => emitInsts fuse ps body sub.subAnal)
      pure an'
/-- `emit_block` on the instruction list of a block. -/
def emitInsts (fuse : Bool) (prevStart : Nat) : List (Ir.Instr w) → List Analysis → M w Unit
  | [], _ => pure ()
  | i :: rest, an => do
    let an' ← emitInstr fuse prevStart i an
    emitInsts fuse prevStart rest an'
end

/-! ### `dead_store_elim` -/

inductive Op where
  | add | sub | mul
  deriving Repr, DecidableEq, Inhabited

def arith? : Bc.Instr w → Option (Op × Bc.Loc w × Bc.Loc w × Bc.Loc w)
  | .add d a b => some (.add, d, a, b)
  | .sub d a b => some (.sub, d, a, b)
  | .mul d a b => some (.mul, d, a, b)
  | _ => none

def mkArith : Op → Bc.Loc w → Bc.Loc w → Bc.Loc w → Bc.Instr w
  | .add, d, a, b => .add d a b
  | .sub, d, a, b => .sub d a b
  | .mul, d, a, b => .mul d a b

/-- `if let Loc::Tmp(tmp) = src { self.ranges[tmp].num_uses -= 1 }`. -/
def decUse (ranges : Array RangeInfo) : Bc.Loc w → Except String (Array RangeInfo)
  | .tmp t =>
    match ranges[t]? with
    | none => .error "dead_store_elim:ranges-index"
    | some r =>
      if r.numUses = 0 then .error "dead_store_elim:num_uses-underflow"
      else .ok (ranges.setIfInBounds t { r with numUses := r.numUses - 1 })
  | _ => .ok ranges

def remMem (dead : List Int) : Bc.Loc w → List Int
  | .mem m => setErase dead m
  | _ => dead

/-- Second `match` of the loop body (the instruction survived). -/
def dseReads (dead : List Int) : Bc.Instr w → List Int
  | .noop => dead
  | .add _ s0 s1 => remMem (remMem dead s1) s0
  | .sub _ s0 s1 => remMem (remMem dead s1) s0
  | .mul _ s0 s1 => remMem (remMem dead s1) s0
  | .copy _ s => remMem dead s
  | .brnz _ _ => []
  | .brz _ _ => []
  | .mov _ => []
  | .scan _ _ => []
  | .out m => setErase dead m
  | .inp m => setInsert dead m

def dseStep (i : Nat) (s : St w) (dead : List Int) : Except String (St w × List Int) := do
  match s.insts[i]? with
  | none => .error "dead_store_elim:insts-index"
  | some inst =>
    let kill (srcs : List (Bc.Loc w)) : Except String (St w × List Int) := do
      let rs ← srcs.foldlM decUse s.ranges
      pure ({ s with ranges := rs, insts := s.insts.setIfInBounds i .noop }, dead)
    match inst with
    | .copy (.mem mem) src =>
      if dead.contains mem then kill [src]
      else pure (s, dseReads (setInsert dead mem) inst)
    | _ =>
      match arith? inst with
      | some (_, .mem mem, s0, s1) =>
        if dead.contains mem then kill [s0, s1]
        else pure (s, dseReads (setInsert dead mem) inst)
      | some (_, .tmp tmp, s0, s1) =>
        match s.ranges[tmp]? with
        | none => .error "dead_store_elim:ranges-index"
        | some r =>
          if r.numUses = 0 then kill [s0, s1]
          else pure (s, dseReads dead inst)
      | _ => pure (s, dseReads dead inst)

/-- `for i in (0..n).rev()`. -/
def dseLoop : Nat → St w → List Int → Except String (St w)
  | 0, s, _ => .ok s
  | i + 1, s, dead =>
    match dseStep i s dead with
    | .error e => .error e
    | .ok (s, dead) => dseLoop i s dead

def deadStoreElim (s : St w) : Except String (St w) := dseLoop s.insts.size s []

/-! ### `allocate_temps` -/

/-- `has_write_in_range`. -/
def hasWriteInRange (s : St w) (var : Int) (lo hi : Nat) : Bool :=
  decide (lo < hi) &&
    (match alGet s.writes var with
     | some ws => ws.any (fun x => decide (lo ≤ x) && decide (x < hi))
     | none => false)

structure ASt (w : Nat) where
  st : St w
  nextFresh : Nat
  freeRegs : List Nat
  freeTemps : List Nat
  nre : List (Nat × Nat)
  repl : List (Nat × Bc.Loc w)

abbrev A (w : Nat) := StateT (ASt w) (Except String)

def instAt (site : String) (i : Nat) : A w (Bc.Instr w) := do
  match (← get).st.insts[i]? with
  | some x => pure x
  | none => throw site

def setInst (i : Nat) (x : Bc.Instr w) : A w Unit :=
  modify fun a => { a with st := { a.st with insts := a.st.insts.setIfInBounds i x } }

def rangeAt (site : String) (t : Nat) : A w RangeInfo := do
  match (← get).st.ranges[t]? with
  | some r => pure r
  | none => throw site

def lastUseOf (site : String) (t : Nat) : A w Nat := do
  let r ← rangeAt "allocate_temps:ranges-index" t
  match r.lastUse with
  | some l => pure l
  | none => throw site

/-- The `while let Some(..) = next_range_end.peek()` loop; returns `about_to_free`. Every round pops one
element and pushes at most one whose second visit (if any) frees it: `2·|heap| + 2` rounds suffice. -/
def drainEnds (i : Nat) : Nat → List Nat → A w (List Nat)
  | 0, _ => throw "allocate_temps:next_range_end-loop-fuel"
  | fuel + 1, atf => do
    let a ← get
    match a.nre with
    | [] => pure atf
    | (end_, tmp) :: _ =>
      if end_ ≤ i then
        let lastUse ← lastUseOf "allocate_temps:peek:last_use.unwrap" tmp
        let (atf, nre) :=
          if end_ ≥ lastUse then (setInsert atf tmp, a.nre)
          else (atf, nrePush (lastUse, tmp) a.nre)
        -- `next_range_end.pop()`: removes the maximum of the heap AFTER the push
        modify fun a => { a with nre := nre.drop 1 }
        drainEnds i fuel atf
      else pure atf

def dstTmp? : Bc.Instr w → Option Nat
  | .add (.tmp t) _ _ => some t
  | .sub (.tmp t) _ _ => some t
  | .mul (.tmp t) _ _ => some t
  | .copy (.tmp t) _ => some t
  | _ => none

/-- One source operand of the `all(..)` in the fusion test: `true` = does not block. -/
def srcOk (a : ASt w) (i firstUse : Nat) : Bc.Loc w → Except String Bool
  | .mem m => .ok (!hasWriteInRange a.st m i firstUse)
  | .tmp t =>
    match alGet a.repl t with
    | none => .error "allocate_temps:fusion:replacements.get.unwrap"
    | some (.mem m) => .ok (!hasWriteInRange a.st m i firstUse)
    | some _ => .ok true
  | _ => .ok true

/-- `range_extend_to(tmp, first_use); if about_to_free.remove(&tmp) { next_range_end.push(..) }`. -/
def fuseSrc (firstUse : Nat) (atf : List Nat) : Bc.Loc w → A w (List Nat)
  | .tmp t => do
    let a ← get
    match extendTo a.st.ranges t firstUse with
    | .error e => throw e
    | .ok rs =>
      set { a with st := { a.st with ranges := rs } }
      if atf.contains t then
        modify fun a => { a with nre := nrePush (firstUse, t) a.nre }
        pure (setErase atf t)
      else pure atf
  | _ => pure atf

/-- `*src = *replacements.get(tmp).unwrap()`. -/
def replSrc (repl : List (Nat × Bc.Loc w)) : Bc.Loc w → Except String (Bc.Loc w)
  | .tmp t =>
    match alGet repl t with
    | some l => .ok l
    | none => .error "allocate_temps:replace:replacements.get.unwrap"
  | l => .ok l

/-- The `alloc_temp` closure applied to `insts[i]` whose destination is `Tmp(old)`. -/
def allocTemp (i old : Nat) : A w Unit := do
  let lastUse ← lastUseOf "allocate_temps:alloc_temp:last_use.unwrap" old
  if lastUse < i then throw "allocate_temps:alloc_temp:last_use-i-underflow"
  let live := lastUse - i
  let a ← get
  let (tmp?, freeRegs) : Option Nat × List Nat :=
    if live < 16 || a.freeRegs.length > 2 then
      match a.freeRegs with
      | r :: rs => (some r, rs)
      | [] => (none, [])
    else (none, a.freeRegs)
  let (tmp, freeTemps, nextFresh) : Nat × List Nat × Nat :=
    match tmp? with
    | some t => (t, a.freeTemps, a.nextFresh)
    | none =>
      match a.freeTemps with
      | t :: ts => (t, ts, a.nextFresh)
      | [] => (a.nextFresh, [], a.nextFresh + 1)
  let inst ← instAt "allocate_temps:insts-index" i
  let inst' : Bc.Instr w :=
    match inst with
    | .add _ s0 s1 => .add (.tmp tmp) s0 s1
    | .sub _ s0 s1 => .sub (.tmp tmp) s0 s1
    | .mul _ s0 s1 => .mul (.tmp tmp) s0 s1
    | .copy _ s => .copy (.tmp tmp) s
    | x => x
  set { a with
    freeRegs := freeRegs, freeTemps := freeTemps, nextFresh := nextFresh
    repl := alSet a.repl old (.tmp tmp)
    nre := nrePush (lastUse, old) a.nre
    st := { a.st with insts := a.st.insts.setIfInBounds i inst' } }

/-- `replacements.insert(tmp, src); next_range_end.push((Reverse(last_use), tmp)); insts[i] = Noop`. -/
def forward (i tmp lastUse : Nat) (src : Bc.Loc w) : A w Unit :=
  modify fun a =>
    { a with
      repl := alSet a.repl tmp src
      nre := nrePush (lastUse, tmp) a.nre
      st := { a.st with insts := a.st.insts.setIfInBounds i .noop } }

/-- ORDER: `for tmp in about_to_free` iterates a `HashSet`; the body removes distinct keys from
`replacements` and pushes the freed locations onto the min-heaps `free_regs`/`free_temps`, whose later
behaviour depends only on the multiset of their elements. -/
def freeAll (numRegs : Nat) : List Nat → A w Unit
  | [] => pure ()
  | t :: ts => do
    let a ← get
    match alGet a.repl t with
    | some (.tmp r) =>
      if r < numRegs then
        set { a with repl := alErase a.repl t, freeRegs := minPush r a.freeRegs }
      else
        set { a with repl := alErase a.repl t, freeTemps := minPush r a.freeTemps }
      freeAll numRegs ts
    | _ => do
      set { a with repl := alErase a.repl t }
      freeAll numRegs ts

/-- The bitmap pushed onto `self.live`.
ORDER: `for &Reverse(var) in &free_regs` walks the heap's internal array; the subtractions commute. -/
def liveMask (numRegs : Nat) (freeRegs : List Nat) : Except String Nat :=
  let base := if numRegs < 16 then 2 ^ numRegs - 1 else 65535
  freeRegs.foldlM (fun live var =>
    if var < 16 then
      if live < 2 ^ var then .error "allocate_temps:live-underflow" else .ok (live - 2 ^ var)
    else .ok live) base

def allocStep (numRegs i : Nat) : A w Unit := do
  -- 1. ranges that have ended
  let atf0 ← drainEnds i (2 * (← get).nre.length + 2) []
  let inst0 ← instAt "allocate_temps:insts-index" i
  -- 2. `can_alloc_reg`
  let canAllocReg ←
    match dstTmp? inst0 with
    | some tmp => do
      let lastUse ← lastUseOf "allocate_temps:can_alloc_reg:last_use.unwrap" tmp
      if lastUse < i then throw "allocate_temps:can_alloc_reg:last_use-i-underflow"
      let live := lastUse - i
      let a ← get
      pure ((live < 16 || a.freeRegs.length > 2)
        && (!a.freeRegs.isEmpty || atf0.any (fun x => decide (x < numRegs))))
    | none => pure false
  -- 3. move a computation to its only/first use if that is a store to memory
  let mut atf := atf0
  match arith? inst0 with
  | some (_, .tmp tmp, s0, s1) =>
    let r ← rangeAt "allocate_temps:ranges-index" tmp
    match r.lastUse with
    | some lastUse =>
      let firstUse ←
        match r.firstUse with
        | some f => pure f
        | none => throw "allocate_temps:first_use.unwrap"
      let fi ← instAt "allocate_temps:insts[first_use]-index" firstUse
      match fi with
      | .copy (.mem mem) _ =>
        let a ← get
        let c1 := (r.numUses == 1 || !canAllocReg) && !hasWriteInRange a.st mem (firstUse + 1) lastUse
        let ok ←
          if c1 then
            match srcOk a i firstUse s0 with
            | .error e => throw e
            | .ok false => pure false
            | .ok true =>
              match srcOk a i firstUse s1 with
              | .error e => throw e
              | .ok b => pure b
          else pure false
        if ok then
          atf ← fuseSrc firstUse atf s0
          atf ← fuseSrc firstUse atf s1
          modify fun a =>
            { a with repl := alSet a.repl tmp (.mem mem), nre := nrePush (lastUse, tmp) a.nre }
          setInst firstUse inst0
          setInst i .noop
          match arith? (← instAt "allocate_temps:insts[first_use]-index" firstUse) with
          | some (op, _, x0, x1) => setInst firstUse (mkArith op (.mem mem) x0 x1)
          | none => pure ()
      | _ => pure ()
    | none => pure ()
  | _ => pure ()
  -- 4. rewrite the sources of `insts[i]`
  let inst1 ← instAt "allocate_temps:insts-index" i
  let repl := (← get).repl
  match inst1 with
  | .copy d s =>
    match replSrc repl s with
    | .error e => throw e
    | .ok s' => setInst i (.copy d s')
  | _ =>
    match arith? inst1 with
    | some (op, d, s0, s1) =>
      match replSrc repl s0 with
      | .error e => throw e
      | .ok s0' =>
        match replSrc repl s1 with
        | .error e => throw e
        | .ok s1' => setInst i (mkArith op d s0' s1')
    | none => pure ()
  -- 5. release the locations of the ended ranges
  freeAll numRegs atf
  -- 6. live bitmap
  match liveMask numRegs (← get).freeRegs with
  | .error e => throw e
  | .ok live => modify fun a => { a with st := { a.st with live := a.st.live.push live } }
  -- 7. destination
  let inst2 ← instAt "allocate_temps:insts-index" i
  match inst2 with
  | .copy (.tmp tmp) src =>
    let r ← rangeAt "allocate_temps:ranges-index" tmp
    match r.lastUse with
    | some lastUse =>
      if r.numUses == 0 then setInst i .noop
      else
        match src with
        | .imm _ => forward i tmp lastUse src
        | .mem mem =>
          if (r.numUses == 1 || !canAllocReg) && !hasWriteInRange (← get).st mem i lastUse then
            forward i tmp lastUse src
          else allocTemp i tmp
        | _ => allocTemp i tmp
    | none => setInst i .noop
  | _ =>
    match arith? inst2 with
    | some (_, .tmp tmp, _, _) =>
      let r ← rangeAt "allocate_temps:ranges-index" tmp
      if r.numUses != 0 then allocTemp i tmp else setInst i .noop
    | _ => pure ()

def allocLoop (numRegs n : Nat) : Nat → A w Unit
  | 0 => pure ()
  | k + 1 => do
    allocStep numRegs (n - (k + 1))
    allocLoop numRegs n k

/-- `allocate_temps`. -/
def allocateTemps (numRegs : Nat) (s : St w) : Except String (St w) :=
  let n := s.insts.size
  let init : ASt w :=
    { st := s, nextFresh := numRegs, freeRegs := List.range numRegs, freeTemps := [], nre := [], repl := [] }
  match (allocLoop numRegs n n).run init with
  | .error e => .error e
  | .ok (_, a) => if a.repl.isEmpty then .ok a.st else .error "allocate_temps:assert-replacements-empty"

/-! ### `parameter_reordering` -/

def isImm : Bc.Loc w → Bool
  | .imm _ => true
  | _ => false

/-- The third `match` (commutative operations). -/
def reorderComm (dst s0 s1 : Bc.Loc w) : Bc.Loc w × Bc.Loc w :=
  let (s0, s1) :=
    match s0, s1 with
    | .tmp t0, .tmp t1 => if t1 < t0 then (s1, s0) else (s0, s1)
    | .tmp _, _ => (s1, s0)
    | _, _ => (s0, s1)
  let (s0, s1) := if isImm s0 then (s1, s0) else (s0, s1)
  if dst = s1 then (s1, s0) else (s0, s1)

/-- The body of the loop in `parameter_reordering` (the instructions are independent, so the
iteration order is immaterial). -/
def reorderInst (inst : Bc.Instr w) : Bc.Instr w :=
  let inst : Bc.Instr w :=
    match inst with
    | .add dst (.imm a) (.imm b) => .copy dst (.imm (a + b))
    | .sub dst (.imm a) (.imm b) => .copy dst (.imm (a + (-b)))
    | .mul dst (.imm a) (.imm b) => .copy dst (.imm (a * b))
    | x => x
  let inst : Bc.Instr w :=
    match inst with
    | .sub dst s0 (.imm c) => .add dst s0 (.imm (-c))
    | x => x
  match inst with
  | .add dst s0 s1 => let (a, b) := reorderComm dst s0 s1; .add dst a b
  | .mul dst s0 s1 => let (a, b) := reorderComm dst s0 s1; .mul dst a b
  | x => x

def parameterReordering (s : St w) : St w := { s with insts := s.insts.map reorderInst }

/-! ### `record_branch_targets`, `zeroing_move_detection` -/

def branchOff? : Bc.Instr w → Option Int
  | .brz _ off => some off
  | .brnz _ off => some off
  | _ => none

/-- `i.wrapping_add_signed(off)` used as an index into an array of size `bound`. -/
def target (site : String) (i : Nat) (off : Int) (bound : Nat) : Except String Nat :=
  let t : Int := (i : Int) + off
  if t < 0 then .error site
  else if t.toNat < bound then .ok t.toNat else .error site

def rbtLoop (insts : Array (Bc.Instr w)) : Nat → Array Bool → Except String (Array Bool)
  | 0, tg => .ok tg
  | k + 1, tg =>
    let i := insts.size - (k + 1)
    match insts[i]? with
    | none => .error "record_branch_targets:insts-index"
    | some inst =>
      match branchOff? inst with
      | some off =>
        match target "record_branch_targets:is_target-index" i off tg.size with
        | .error e => .error e
        | .ok t => rbtLoop insts k (tg.setIfInBounds t true)
      | none => rbtLoop insts k tg

def recordBranchTargets (s : St w) : Except String (St w) :=
  -- `self.is_target.resize(n + 1, false)` on an empty vector
  match rbtLoop s.insts s.insts.size (Array.replicate (s.insts.size + 1) false) with
  | .error e => .error e
  | .ok tg => .ok { s with isTarget := tg }

/-- `if let Loc::Mem(mem) = src { if let Some(j) = zerod.remove(mem) { *src = MemZero(mem); .. } }`:
new operand, new map, instruction to blank. -/
def zeroSrc (zerod : List (Int × Nat)) : Bc.Loc w → Bc.Loc w × List (Int × Nat) × Option Nat
  | .mem m =>
    match alGet zerod m with
    | some j => (.memZero m, alErase zerod m, some j)
    | none => (.mem m, zerod, none)
  | l => (l, zerod, none)

def blank (insts : Array (Bc.Instr w)) : Option Nat → Array (Bc.Instr w)
  | some j => insts.setIfInBounds j .noop
  | none => insts

def zmdStep (i : Nat) (s : St w) (zerod : List (Int × Nat)) : Except String (St w × List (Int × Nat)) := do
  match s.insts[i]? with
  | none => .error "zeroing_move_detection:insts-index"
  | some inst =>
    let (insts, zerod) : Array (Bc.Instr w) × List (Int × Nat) :=
      match inst with
      | .noop => (s.insts, zerod)
      | .copy dst src =>
        let zerod :=
          match dst with
          | .mem mem =>
            let z := alErase zerod mem
            match src with
            | .imm c => if c = 0#w then alSet z mem i else z
            | _ => z
          | _ => zerod
        let (src', zerod, j) := zeroSrc zerod src
        (blank (s.insts.setIfInBounds i (.copy dst src')) j, zerod)
      | .brnz _ _ => (s.insts, [])
      | .brz _ _ => (s.insts, [])
      | .mov _ => (s.insts, [])
      | .scan _ _ => (s.insts, [])
      | .out mem => (s.insts, alErase zerod mem)
      | .inp mem => (s.insts, alErase zerod mem)
      | _ =>
        match arith? inst with
        | some (op, dst, s0, s1) =>
          let zerod := match dst with | .mem mem => alErase zerod mem | _ => zerod
          -- `for src in [src1, src0]`
          let (s1', zerod, j1) := zeroSrc zerod s1
          let (s0', zerod, j0) := zeroSrc zerod s0
          (blank (blank (s.insts.setIfInBounds i (mkArith op dst s0' s1')) j1) j0, zerod)
        | none => (s.insts, zerod)
    match s.isTarget[i]? with
    | none => .error "zeroing_move_detection:is_target-index"
    | some t => pure ({ s with insts := insts }, if t then [] else zerod)

def zmdLoop : Nat → St w → List (Int × Nat) → Except String (St w)
  | 0, s, _ => .ok s
  | i + 1, s, zerod =>
    match zmdStep i s zerod with
    | .error e => .error e
    | .ok (s, zerod) => zmdLoop i s zerod

def zeroingMoveDetection (s : St w) : Except String (St w) := zmdLoop s.insts.size s []

/-! ### `strip_noops`, `count_temps`, `translate` -/

def isNoop : Bc.Instr w → Bool
  | .noop => true
  | _ => false

/-- `cum_noop`: entry `k` is the number of `Noop`s among the first `k` instructions. -/
def cumNoop (insts : Array (Bc.Instr w)) : Array Int :=
  (insts.foldl (fun (acc : Array Int × Int) x =>
    let c := if isNoop x then acc.2 + 1 else acc.2
    (acc.1.push c, c)) (#[0], 0)).1

def fixBranches (cum : Array Int) (insts : Array (Bc.Instr w)) :
    Nat → Array (Bc.Instr w) → Except String (Array (Bc.Instr w))
  | 0, acc => .ok acc
  | k + 1, acc =>
    let i := insts.size - (k + 1)
    match insts[i]? with
    | none => .error "strip_noops:insts-index"
    | some inst =>
      match branchOff? inst with
      | some off =>
        match target "strip_noops:cum_noop-index" i off cum.size with
        | .error e => .error e
        | .ok t =>
          let off' := off - (cum[t]?.getD 0 - cum[i]?.getD 0)
          let inst' : Bc.Instr w :=
            match inst with
            | .brz c _ => .brz c off'
            | .brnz c _ => .brnz c off'
            | x => x
          fixBranches cum insts k (acc.push inst')
      | none => fixBranches cum insts k (acc.push inst)

def stripNoops (s : St w) : Except String (St w) :=
  match fixBranches (cumNoop s.insts) s.insts s.insts.size (Array.mkEmpty s.insts.size) with
  | .error e => .error e
  | .ok insts =>
    -- `self.live.retain(..)` indexes `self.insts[idx - 1]` for every element of `live`
    if s.live.size > insts.size then .error "strip_noops:live.retain-insts-index"
    else
      let live := ((s.live.toList.zip insts.toList).filter (fun li => !isNoop li.2)).map (·.1)
      .ok { s with live := live.toArray, insts := insts.filter (fun x => !isNoop x) }

def locMax : Bc.Loc w → Nat
  | .tmp t => t + 1
  | _ => 0

def instTemps : Bc.Instr w → Nat
  | .add a b c => max (locMax a) (max (locMax b) (locMax c))
  | .sub a b c => max (locMax a) (max (locMax b) (locMax c))
  | .mul a b c => max (locMax a) (max (locMax b) (locMax c))
  | .copy a b => max (locMax a) (locMax b)
  | _ => 0

/-- `count_temps`. -/
def countTemps (insts : Array (Bc.Instr w)) : Nat := insts.foldl (fun m x => max m (instTemps x)) 0

/-- `CodeGen::translate`; `.error site` where the Rust would panic. -/
def translateE (prog : Ir.Block w) (numRegs : Nat) (fuse : Bool) : Except String (Bc.Program w) := do
  let analysis := analyze prog
  let (_, s) ← (emitInsts fuse 0 prog.insts analysis.subAnal).run ({} : St w)
  let s ← deadStoreElim s
  let s ← allocateTemps numRegs s
  let s := parameterReordering s
  let s ← if fuse then (do let s ← recordBranchTargets s; zeroingMoveDetection s) else pure s
  let s ← stripNoops s
  pure { temps := countTemps s.insts, minAcc := analysis.minAcc, maxAcc := analysis.maxAcc,
         live := s.live, insts := s.insts }

/-- `CodeGen::translate`; a modelled panic yields the sentinel `temps = 999999` with no instructions. -/
def translate (prog : Ir.Block w) (numRegs : Nat) (fuse : Bool) : Bc.Program w :=
  match translateE prog numRegs fuse with
  | .ok p => p
  | .error _ => { temps := 999999, minAcc := 1, maxAcc := 0, live := #[], insts := #[] }

end BcGen
end Hpbf
