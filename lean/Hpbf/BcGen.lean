/-
Model of `bc::CodeGen::translate` (`src/bc.rs`): IR → bytecode. (Port in progress.)
-/
import Hpbf.Ir
import Hpbf.Bc

namespace Hpbf
namespace BcGen

end BcGen
end Hpbf
