/-
C02, first phase of the bytecode generator (`bc::CodeGen::emit_block` with global value numbering,
`Expr::codegen`, `get_value`, `mem_write`): the instruction list it produces, run by the bytecode
machine, behaves like the IR run by the IR interpreter.

Property theorems only; the lemmas are in `Hpbf/Proofs/C02Emit*.lean`:
`C02EmitBase` (the generator monad, the semantically relevant part `core` of its state, `emitOnly`,
`translateE_factors`), `C02EmitVal` (value-numbering invariant, `get_value`), `C02EmitExpr`
(`Expr::codegen` computes `Expr.evaluate`), `C02EmitCalc` (`calc` = simultaneous assignment),
`C02EmitGen` (code layout of loops/ifs, the certificate `Em` extracted from `emitInsts`), `C02EmitInv`
(layout facts, monotonicity, soundness of `Analysis` for the invalidation of table entries),
`C02EmitSim` (simulation relation and the case analysis), `C02EmitRun` (whole runs).

Conventions: `blk` an arbitrary IR block at an arbitrary width `w` (`w = 0` included), `fuse` the
zeroing-move/scan flag of `translate`, `env` an arbitrary environment, both machines unlimited
(`limited = false`, budget `0`).  `emitOnly blk fuse = .ok p` says that the first phase did not hit a
modelled panic; `p.insts` are the instructions before `dead_store_elim` (temporaries = value numbers).

Precondition.  For a loop marked `once` the generator omits the leading `brz` (do-while) while
`Ir.step` tests the condition first.  `OnceOk blk env`: whenever the IR interpreter reaches a loop marked
`once` its condition cell is non-zero.  `NoOnce blk` (no loop is marked `once`, which is all that
`Program::parse` produces) implies `OnceOk blk env` for every `env`.
-/
import Hpbf.Proofs.C02EmitRun

namespace Hpbf
namespace C02
open BcGen C02Emit Sim

variable {w : Nat}

/-! ### 0. `emitOnly` is the first phase of `translateE` -/

theorem translateE_factors (prog : Ir.Block w) (numRegs : Nat) (fuse : Bool) :
    translateE prog numRegs fuse = (do
      let s ← emitState prog fuse
      let s ← deadStoreElim s
      let s ← allocateTemps numRegs s
      let s := parameterReordering s
      let s ← if fuse then (do let s ← recordBranchTargets s; zeroingMoveDetection s) else pure s
      let s ← stripNoops s
      pure { temps := countTemps s.insts, minAcc := (analyze prog).minAcc,
             maxAcc := (analyze prog).maxAcc, live := s.live, insts := s.insts }) :=
  BcGen.translateE_factors prog numRegs fuse

/-- `emitOnly` packages the state `emitState` that `translateE` hands to `dead_store_elim`. -/
theorem emitOnly_eq (prog : Ir.Block w) (fuse : Bool) :
    emitOnly prog fuse = (emitState prog fuse).map (fun s =>
      { temps := s.ranges.size, minAcc := (analyze prog).minAcc, maxAcc := (analyze prog).maxAcc,
        live := #[], insts := s.insts }) := by
  unfold emitOnly
  cases emitState prog fuse <;> rfl

/-! ### 1. The precondition -/

/-- Whenever the IR interpreter reaches `loop cond shift body (once := true)` the cell `cond` is
non-zero. -/
abbrev OnceOk (blk : Ir.Block w) (env : Env) : Prop := C02Emit.OnceOk blk env

/-- No loop at any depth is marked `once` (decidable: `noOnceL blk.insts = true`). -/
abbrev NoOnce (blk : Ir.Block w) : Prop := C02Emit.NoOnce blk

instance (blk : Ir.Block w) : Decidable (NoOnce blk) := by
  unfold NoOnce C02Emit.NoOnce; infer_instance

theorem onceOk_def (blk : Ir.Block w) (env : Env) :
    OnceOk blk env ↔
      ∀ (f : Nat) (c : Ir.Cfg w),
        Ir.runCfg false f ⟨blk.insts, [], 0, State.init env⟩ = .outOfFuel c →
        ∀ cond shift body rest, c.cur = .loop cond shift body true :: rest → c.st.rd cond ≠ 0#w :=
  Iff.rfl

theorem noOnce_onceOk {blk : Ir.Block w} (h : NoOnce blk) (env : Env) : OnceOk blk env :=
  onceOk_of_noOnce h env

/-! ### 2. Forward: terminating IR runs are reproduced, with the same final state -/

theorem emit_bc_run_unlimited (p : Bc.Program w) (f : Nat) (env : Env) :
    Bc.run p false 0 f env = Bc.runCfg p false f ⟨0, [], 0, State.init env⟩ := rfl

theorem emit_forward {blk : Ir.Block w} {fuse : Bool} {p : Bc.Program w} (env : Env)
    (hp : emitOnly blk fuse = .ok p) (ho : OnceOk blk env) :
    (∀ f (c : Ir.Cfg w), Ir.run blk false 0 f env = .done c →
      ∃ f' c', Bc.run p false 0 f' env = .done c' ∧ c'.st.trace = c.st.trace ∧
        (∀ i, c'.st.tape.get i = c.st.tape.get i) ∧ c'.st.ptr = c.st.ptr ∧ c'.st.env = c.st.env) ∧
    (∀ f (c : Ir.Cfg w), Ir.run blk false 0 f env = .stopped c →
      ∃ f' c', Bc.run p false 0 f' env = .stopped c' ∧ c'.st.trace = c.st.trace ∧
        (∀ i, c'.st.tape.get i = c.st.tape.get i) ∧ c'.st.ptr = c.st.ptr ∧ c'.st.env = c.st.env) := by
  have hR := R_init hp env ho
  constructor
  · intro f c hc
    obtain ⟨f', c', h1, h2⟩ := (forward_state p fuse f _ _ hR).1 c hc
    exact ⟨f', c', h1, by rw [h2], fun i => by rw [h2], by rw [h2], by rw [h2]⟩
  · intro f c hc
    obtain ⟨f', c', h1, h2⟩ := (forward_state p fuse f _ _ hR).2 c hc
    exact ⟨f', c', h1, by rw [h2], fun i => by rw [h2], by rw [h2], by rw [h2]⟩

/-- The version for the IR the parser produces. -/
theorem emit_forward_noOnce {blk : Ir.Block w} {fuse : Bool} {p : Bc.Program w} (env : Env)
    (hp : emitOnly blk fuse = .ok p) (hn : NoOnce blk) :
    (∀ f (c : Ir.Cfg w), Ir.run blk false 0 f env = .done c →
      ∃ f' c', Bc.run p false 0 f' env = .done c' ∧ c'.st.trace = c.st.trace ∧
        (∀ i, c'.st.tape.get i = c.st.tape.get i) ∧ c'.st.ptr = c.st.ptr ∧ c'.st.env = c.st.env) ∧
    (∀ f (c : Ir.Cfg w), Ir.run blk false 0 f env = .stopped c →
      ∃ f' c', Bc.run p false 0 f' env = .stopped c' ∧ c'.st.trace = c.st.trace ∧
        (∀ i, c'.st.tape.get i = c.st.tape.get i) ∧ c'.st.ptr = c.st.ptr ∧ c'.st.env = c.st.env) :=
  emit_forward env hp (noOnce_onceOk hn env)

/-! ### 3. Backward: the bytecode terminates only if the IR does, with the same final state -/

/-- A finished bytecode run stays finished with more fuel. -/
theorem emit_bc_run_more (p : Bc.Program w) (l : Bool) : ∀ (f k : Nat) (c : Bc.Cfg w) (o : Bc.Outcome w),
    Bc.runCfg p l f c = o → (∀ x, o ≠ .outOfFuel x) → Bc.runCfg p l (f + k) c = o := by
  intro f
  induction f with
  | zero => intro k c o h hn; simp [Bc.runCfg] at h; exact absurd h.symm (hn c)
  | succ f ih =>
    intro k c o h hn
    have e : f + 1 + k = (f + k) + 1 := by omega
    rw [e]
    simp only [Bc.runCfg] at h ⊢
    cases hs : Bc.step p l c with
    | next c1 => rw [hs] at h; exact ih k c1 o h hn
    | halt c1 => rw [hs] at h; exact h
    | stop c1 => rw [hs] at h; exact h
    | interrupted c1 => rw [hs] at h; exact h
    | bad c1 => rw [hs] at h; exact h

theorem emit_bc_run_det (p : Bc.Program w) (l : Bool) {f1 f2 : Nat} {c : Bc.Cfg w} {o1 o2 : Bc.Outcome w}
    (h1 : Bc.runCfg p l f1 c = o1) (h2 : Bc.runCfg p l f2 c = o2)
    (n1 : ∀ x, o1 ≠ .outOfFuel x) (n2 : ∀ x, o2 ≠ .outOfFuel x) : o1 = o2 := by
  have a := emit_bc_run_more p l f1 f2 c o1 h1 n1
  have b := emit_bc_run_more p l f2 f1 c o2 h2 n2
  rw [Nat.add_comm] at b
  rw [← a, ← b]

theorem emit_backward {blk : Ir.Block w} {fuse : Bool} {p : Bc.Program w} (env : Env)
    (hp : emitOnly blk fuse = .ok p) (ho : OnceOk blk env) :
    (∀ f' (c' : Bc.Cfg w), Bc.run p false 0 f' env = .done c' →
      ∃ f c, Ir.run blk false 0 f env = .done c ∧ c.st.trace = c'.st.trace ∧
        (∀ i, c.st.tape.get i = c'.st.tape.get i) ∧ c.st.ptr = c'.st.ptr ∧ c.st.env = c'.st.env) ∧
    (∀ f' (c' : Bc.Cfg w), Bc.run p false 0 f' env = .stopped c' →
      ∃ f c, Ir.run blk false 0 f env = .stopped c ∧ c.st.trace = c'.st.trace ∧
        (∀ i, c.st.tape.get i = c'.st.tape.get i) ∧ c.st.ptr = c'.st.ptr ∧ c.st.env = c'.st.env) := by
  have hR := R_init hp env ho
  have S := simulation p fuse
  constructor
  · intro f' c' hc'
    rw [emit_bc_run_unlimited] at hc'
    have hr : Sim.run (BcM p) f' ⟨0, [], 0, State.init env⟩ = .fin true c'.st.trace := by
      rw [bcM_run, hc']; rfl
    obtain ⟨f, hf⟩ := S.backward f' _ _ _ rfl hR _ _ hr
    rw [C01.run_IrM] at hf
    obtain ⟨c, hc, _⟩ := C01.obsIr_fin_true hf (fun x => C01.runCfg_not_interrupted _ _ x)
    obtain ⟨f'', c'', h1, h2⟩ := (forward_state p fuse f _ _ hR).1 c hc
    have e := emit_bc_run_det p false hc' h1 (by intro x; simp) (by intro x; simp)
    cases e
    exact ⟨f, c, hc, by rw [h2], fun i => by rw [h2], by rw [h2], by rw [h2]⟩
  · intro f' c' hc'
    rw [emit_bc_run_unlimited] at hc'
    have hr : Sim.run (BcM p) f' ⟨0, [], 0, State.init env⟩ = .fin false c'.st.trace := by
      rw [bcM_run, hc']; rfl
    obtain ⟨f, hf⟩ := S.backward f' _ _ _ rfl hR _ _ hr
    rw [C01.run_IrM] at hf
    obtain ⟨c, hc, _⟩ := C01.obsIr_fin_false hf
    obtain ⟨f'', c'', h1, h2⟩ := (forward_state p fuse f _ _ hR).2 c hc
    have e := emit_bc_run_det p false hc' h1 (by intro x; simp) (by intro x; simp)
    cases e
    exact ⟨f, c, hc, by rw [h2], fun i => by rw [h2], by rw [h2], by rw [h2]⟩

/-! ### 4. Prefix: cut off anywhere, neither machine has emitted anything the other does not emit -/

theorem emit_prefix {blk : Ir.Block w} {fuse : Bool} {p : Bc.Program w} (env : Env)
    (hp : emitOnly blk fuse = .ok p) (ho : OnceOk blk env) :
    (∀ f', ∃ f, C01.traceOf (Ir.run blk false 0 f env) = C07.traceOfBc (Bc.run p false 0 f' env)) ∧
    (∀ f, ∃ f', C07.traceOfBc (Bc.run p false 0 f' env) = C01.traceOf (Ir.run blk false 0 f env)) := by
  have hR := R_init hp env ho
  have S := simulation p fuse
  constructor
  · intro f'
    obtain ⟨f, hf⟩ := S.prefixBA f' _ _ _ rfl hR
    rw [C01.run_IrM, bcM_run, C01.trace_obsIr, trace_obsBc] at hf
    exact ⟨f, hf⟩
  · intro f
    obtain ⟨f', hf'⟩ := S.prefixAB f _ _ hR
    rw [C01.run_IrM, bcM_run, C01.trace_obsIr, trace_obsBc] at hf'
    exact ⟨f', hf'⟩

/-- The emitted code never runs into malformed bytecode and is never interrupted (unlimited mode) when
the IR run terminates: the matched bytecode run ends in `done`/`stopped` (part of `emit_forward`); and
no bytecode run of the emitted code that ends does so in a state the IR does not reach
(`emit_backward`).  For runs that are cut off see `emit_prefix`. -/
theorem emit_never_interrupted (p : Bc.Program w) (f : Nat) (env : Env) (c : Bc.Cfg w) :
    Bc.run p false 0 f env ≠ .interrupted c := by
  rw [emit_bc_run_unlimited]
  generalize (⟨0, [], 0, State.init env⟩ : Bc.Cfg w) = c0
  induction f generalizing c0 with
  | zero => simp [Bc.runCfg]
  | succ f ih =>
    simp only [Bc.runCfg]
    cases hs : Bc.step p false c0 with
    | next c1 => exact ih c1
    | halt c1 => simp
    | stop c1 => simp
    | interrupted c1 => exact absurd hs ((step_unlimited p c0).1 c1)
    | bad c1 => simp

/-! ### What is not proved here -/

/-- NOT proved: the first phase never hits one of its modelled panic sites
(`range_extend:ranges-index`, `emit_block:sub_anal-index`, `emit_block:outer_accessed-loop-fuel`,
`emit_block:outer_accessed-index`, `emit_block:ranges-index`, `emit_block:start_instr-1-underflow`,
`emit_block:insts-index`).  All theorems above take `emitOnly blk fuse = .ok p` as a hypothesis.  The
missing argument is about the bookkeeping that is irrelevant for the semantics (`ranges`,
`outer_accessed`): every value number handed to `read` is below `ranges.len()` (this part follows from
`WfV`/`Out.lt` of `C02EmitVal`/`C02EmitExpr`), and the fuel of the model's `outerLoop` suffices. -/
def emit_total_full : Prop :=
  ∀ (w : Nat) (blk : Ir.Block w) (fuse : Bool), ∃ p, emitOnly blk fuse = .ok p

/-- NOT proved (and not required): agreement of the two machines on the budget in limited mode; they
charge differently (`Ir.step` per block end, `Bc.step` per branch). -/
def emit_limited_full : Prop :=
  ∀ (w : Nat) (blk : Ir.Block w) (fuse : Bool) (p : Bc.Program w) (env : Env) (b f : Nat) (c : Ir.Cfg w),
    emitOnly blk fuse = .ok p → OnceOk blk env → Ir.run blk true b f env = .done c →
    ∃ b' f' c', Bc.run p true b' f' env = .done c' ∧ c'.st.trace = c.st.trace

/-! ### Examples: the hypotheses are satisfiable, and `OnceOk` cannot be dropped -/

/-- Both runs finish within `fuel` steps with the same kind of ending, events and pointer. -/
def agreesEmit (w : Nat) (blk : Ir.Block w) (fuse : Bool) (env : Env) (fuel : Nat) : Bool :=
  match emitOnly blk fuse with
  | .ok p =>
    match Ir.run blk false 0 fuel env, Bc.run p false 0 fuel env with
    | .done c, .done c' => decide (c.st.trace = c'.st.trace) && decide (c.st.ptr = c'.st.ptr)
    | .stopped c, .stopped c' => decide (c.st.trace = c'.st.trace)
    | _, _ => false
  | .error _ => false

def emitEnvAB : Env := { input := some [.byte 65, .byte 66, .eof], sink := true, outOk := none }
def emitEnvRefuse : Env := { input := some [.byte 65, .byte 66, .eof], sink := true, outOk := some 1 }

/-- `,[.,]` -/
def emitExEcho : Ir.Block 8 := ⟨0, [.input 0, .loop 0 0 [.output 0, .input 0] false]⟩
/-- `,` then an `if` that moves the pointer, a fusable scan `[>]`, `.` -/
def emitExIf : Ir.Block 8 :=
  ⟨0, [.input 0, .ifnz 0 1 [.output (-1)], .loop 0 1 [] false, .output (-1)]⟩
/-- A loop marked `once` reached with a zero cell. -/
def emitExOnce : Ir.Block 8 := ⟨0, [.loop 0 0 [.output 0] true]⟩

example : NoOnce emitExEcho := by decide
example : NoOnce emitExIf := by decide
example : ¬ NoOnce emitExOnce := by decide

set_option maxRecDepth 8000 in
example : agreesEmit 8 emitExEcho false emitEnvAB 60 = true := by decide
set_option maxRecDepth 8000 in
example : agreesEmit 8 emitExEcho true emitEnvRefuse 60 = true := by decide
set_option maxRecDepth 8000 in
example : agreesEmit 8 emitExIf true emitEnvAB 40 = true := by decide
set_option maxRecDepth 8000 in
example : agreesEmit 8 emitExIf false emitEnvAB 40 = true := by decide

/-- Without `OnceOk` the statement is false: the emitted do-while loop runs its body once. -/
theorem once_needs_hypothesis :
    (match emitOnly emitExOnce false with
      | .ok p => C07.traceOfBc (Bc.run p false 0 10 emitEnvAB)
      | .error _ => []) = [Ev.out 0] ∧
    C01.traceOf (Ir.run emitExOnce false 0 10 emitEnvAB) = [] := by
  decide

end C02
end Hpbf

#print axioms Hpbf.C02.translateE_factors
#print axioms Hpbf.C02.emitOnly_eq
#print axioms Hpbf.C02.noOnce_onceOk
#print axioms Hpbf.C02.emit_forward
#print axioms Hpbf.C02.emit_forward_noOnce
#print axioms Hpbf.C02.emit_backward
#print axioms Hpbf.C02.emit_prefix
#print axioms Hpbf.C02.emit_never_interrupted
#print axioms Hpbf.C02.once_needs_hypothesis
