/-
C01, loop optimisations of the optimizer model — HORIZON variants of `Hpbf/Props/C01Loop.lean` (same vocabulary).

At machine level a loop run may be incomplete (a round stops at a failing I/O operation, diverges in a nested loop,
or the run is cut off) or infinite: only the rounds `0 … N-1` are real.  Here every per-round hypothesis is required
for `k < N` only; facts about the memory at the start of a round are concluded for `k ≤ N`, facts about the middle of
a round for `k < N`; exit conclusions for a trip count `n ≤ N`.

* `loopMotion_prefix_sound` / `finishLoop_prefix_sound`: NO trip count (hence usable for incomplete and infinite
  runs): the original and the new run agree on everything read at the start of every round `k < N'` and, for
  `k ≤ N'`, on every cell outside `Differ'` (moved cells; non-constant pending cells not performed by the new loop).
* `loopMotion_all_sound_h` / `finishLoop_motion_sound_h`: the full statement for a trip count `n ≤ N`.
Lemmas are in `Hpbf/Proofs/OptLoopH*.lean`.
-/
import Hpbf.Proofs.OptLoopExtra

namespace Hpbf.C01Loop
open Hpbf Opt OptSem Expr OptLoop

variable {w : Nat}

/-! ### Vocabulary -/

theorem bodyFactsH_iff (sub : Rebuild w) (body : Nat → Mem w → Mem w) (M : Nat → Mem w) (N : Nat) :
    BodyFactsH sub body M N ↔
      (∀ k, k < N → ∀ v, mGet sub.written v = none → body k (M k) v = M k v) ∧
      (∀ k, k < N → ∀ v e, mGet sub.written v = some (.known e) → body k (M k) v = ev e (M k)) :=
  ⟨fun h => ⟨h.unwritten, h.known⟩, fun h => ⟨h.1, h.2⟩⟩

theorem getBothFactsH_iff (s : Rebuild w) (ps : List (Rebuild w)) (sub : Rebuild w) (M : Nat → Mem w)
    (N : Nat) :
    GetBothFactsH s ps sub M N ↔
      ∀ v e, getBoth sub (s :: ps) v = some e → WeakCanon e ∧ ∀ k, k < N → M (k + 1) v = ev e (M k) :=
  Iff.rfl

theorem linSoundH_iff (sub : Rebuild w) (C : List Int) (M : Nat → Mem w) (N : Nat) (v : Int) (inc : Expr w) :
    LinSoundH sub C M N v inc ↔
      mGet sub.written v = none ∧
      (∀ x ∈ Expr.variables inc, C.contains x = true) ∧
      v ∉ Expr.variables inc ∧
      (∀ k, k < N → M (k + 1) v = M k v + ev inc (M k)) ∧
      (∀ k, k ≤ N → M k v = M 0 v + BitVec.ofNat w k * ev inc (M 0)) :=
  ⟨fun h => ⟨h.unwritten, h.overConst, h.fresh, h.step, h.closed⟩,
   fun h => ⟨h.1, h.2.1, h.2.2.1, h.2.2.2.1, h.2.2.2.2⟩⟩

theorem motionCtxH_iff (s : Rebuild w) (ps : List (Rebuild w)) (sub : Rebuild w) (C : List Int)
    (lin : List (Int × Expr w)) (m0 : Mem w) (body : Nat → Mem w → Mem w) (N : Nat) :
    MotionCtxH s ps sub C lin m0 body N ↔
      (∀ k, k ≤ N → ∀ c, C.contains c = true → run body sub.pending m0 k c = m0 c) ∧
      (∀ k, k < N → ∀ c, C.contains c = true → mid body sub.pending m0 k c = m0 c) ∧
      (∀ i c, C.contains i = true → getConstant s ps i = some c → m0 i = c) ∧
      (∀ v inc, mGet lin v = some inc → LinSoundH sub C (run body sub.pending m0) N v inc) ∧
      BodyFactsH sub body (run body sub.pending m0) N :=
  ⟨fun h => ⟨h.constRun, h.constMid, h.known, h.lin, h.body⟩,
   fun h => ⟨h.1, h.2.1, h.2.2.1, h.2.2.2.1, h.2.2.2.2⟩⟩

theorem readFactsH_iff (sub : Rebuild w) (reads : List Int) (body : Nat → Mem w → Mem w) (M : Nat → Mem w)
    (N : Nat) :
    ReadFactsH sub reads body M N ↔
      (∀ v p x, mGet sub.pending v = some p → x ∈ Expr.variables p → x ≠ v → reads.contains x = true) ∧
      (∀ k, k < N → ∀ (m' : Mem w) (Z : Int → Prop), (∀ z, Z z → reads.contains z = false) →
        (∀ v, ¬ Z v → m' v = M k v) → ∀ v, ¬ Z v → body k m' v = body k (M k) v) ∧
      (∀ k, k < N → ∀ (m' : Mem w) v, mGet sub.written v = none → body k m' v = m' v) :=
  ⟨fun h => ⟨h.pendReads, h.bodyNI, h.frame⟩, fun h => ⟨h.1, h.2.1, h.2.2⟩⟩

theorem motionBD_iff (s : Rebuild w) (ps : List (Rebuild w)) (sub : Rebuild w) (reads C : List Int)
    (lin : List (Int × Expr w)) (otherPending : List Int) (L : OptLoop w) (B D : List (Int × Expr w)) :
    MotionBD s ps sub reads C lin otherPending L B D ↔
      (∀ var p, mGet sub.pending var = some p →
        ∃ b d a, MotionCase s ps var p (!mHas sub.written var) reads C lin otherPending L (b, d, a) ∧
          mGet B var = b ∧ mGet D var = d) ∧
      (∀ var, mGet sub.pending var = none → mGet B var = none ∧ mGet D var = none) :=
  ⟨fun h => ⟨h.pend, h.nopend⟩, fun h => ⟨h.1, h.2⟩⟩

theorem motionAllE_iff (s : Rebuild w) (ps : List (Rebuild w)) (sub : Rebuild w) (reads C : List Int)
    (lin : List (Int × Expr w)) (otherPending : List Int) (L : OptLoop w) (B D A : List (Int × Expr w)) :
    MotionAllE s ps sub reads C lin otherPending L B D A ↔
      (∀ var p, mGet sub.pending var = some p →
        ∃ b d a, MotionCase s ps var p (!mHas sub.written var) reads C lin otherPending L (b, d, a) ∧
          mGet B var = b ∧ mGet D var = d ∧
          (mGet A var = a ∨ (L.noEffect = true ∧ mGet A var = none))) ∧
      (∀ var, mGet sub.pending var = none →
        mGet B var = none ∧ mGet D var = none ∧ mGet A var = none) :=
  ⟨fun h => ⟨h.pend, h.nopend⟩, fun h => ⟨h.1, h.2⟩⟩

theorem differ'_iff (C : List Int) (B D P : List (Int × Expr w)) (v : Int) :
    Differ' C B D P v ↔
      mGet B v ≠ none ∨ (mGet P v ≠ none ∧ mGet D v = none ∧ C.contains v = false) := Iff.rfl

/-- The old (all rounds) hypotheses give the horizon hypotheses for every `N`. -/
theorem motionCtx_toH {s : Rebuild w} {ps : List (Rebuild w)} {sub : Rebuild w} {C : List Int}
    {lin : List (Int × Expr w)} {m0 : Mem w} {body : Nat → Mem w → Mem w}
    (h : MotionCtx s ps sub C lin m0 body) (N : Nat) : MotionCtxH s ps sub C lin m0 body N := h.toH N
theorem motionAllE_toAll {s : Rebuild w} {ps : List (Rebuild w)} {sub : Rebuild w} {reads C : List Int}
    {lin : List (Int × Expr w)} {otherPending : List Int} {L : OptLoop w} {B D A : List (Int × Expr w)}
    (h : MotionAllE s ps sub reads C lin otherPending L B D A) (n : Nat)
    (hne : L.noEffect = true → n = 0) : MotionAll s ps sub reads C lin otherPending L n B D A :=
  h.toAll n hne
theorem motionAllE_toBD {s : Rebuild w} {ps : List (Rebuild w)} {sub : Rebuild w} {reads C : List Int}
    {lin : List (Int × Expr w)} {otherPending : List Int} {L : OptLoop w} {B D A : List (Int × Expr w)}
    (h : MotionAllE s ps sub reads C lin otherPending L B D A) :
    MotionBD s ps sub reads C lin otherPending L B D := h.toBD

/-! ### A. Constants and linear variables -/

theorem constantsAmong_sound_h (s : Rebuild w) (ps : List (Rebuild w)) (sub : Rebuild w) (vars : List Int)
    (C : List Int) (m0 : Mem w) (body : Nat → Mem w → Mem w) (N : Nat)
    (hC : constantsAmong s ps sub vars = .ok C) (hnd : vars.Nodup)
    (hcmp : ∀ v e, compare s ps (Expr.var v) e = .ok true → ev e m0 = m0 v)
    (hb : BodyFactsH sub body (run body sub.pending m0) N) :
    (∀ k, k ≤ N → ∀ c ∈ C, run body sub.pending m0 k c = m0 c) ∧
    (∀ k, k < N → ∀ c ∈ C, mid body sub.pending m0 k c = m0 c) :=
  OptLoop.constantsAmong_sound_h s ps sub vars C m0 body N hC hnd hcmp hb

theorem linearAmong_sound_h (s : Rebuild w) (ps : List (Rebuild w)) (sub : Rebuild w) (C : List Int)
    (vars : List Int) (M : Nat → Mem w) (N : Nat)
    (hgb : GetBothFactsH s ps sub M N)
    (hconst : ∀ k, k ≤ N → ∀ c ∈ C, M k c = M 0 c)
    (v : Int) (inc : Expr w) (h : mGet (linearAmong s ps sub C vars) v = some inc) :
    LinSoundH sub C M N v inc :=
  OptLoop.linearAmong_sound_h s ps sub C vars M N hgb hconst v inc h

/-! ### C. `loopMotion` -/

/-- One moved variable, trip count `n ≤ N`. -/
theorem loopMotion_sound_h (hw : 0 < w) {s : Rebuild w} {ps : List (Rebuild w)} {sub : Rebuild w}
    {C : List Int} {lin : List (Int × Expr w)} {m0 : Mem w} {body : Nat → Mem w → Mem w} {N : Nat}
    (ctx : MotionCtxH s ps sub C lin m0 body N) {var : Int}
    {p : Expr w} {complete : Bool} {reads otherPending : List Int} {L : OptLoop w} {n : Nat}
    {b : Expr w} {d a : Option (Expr w)} (hnN : n ≤ N)
    (hp : mGet sub.pending var = some p) (hcomp : complete = true → mGet sub.written var = none)
    (hcanon : Canon p) (htrip : TripFacts L n m0)
    (h : loopMotion s ps var p complete reads C lin otherPending L = .ok (some b, d, a)) :
    a = none ∧ reads.contains var = false ∧ complete = true ∧ C.contains var = false ∧
      MovedSem sub body m0 n var p b d :=
  loopMotion_moved_sound_h hw ctx hnN hp hcomp hcanon htrip
    (OptLoop.loopMotion_cases s ps var p complete reads C lin otherPending L _ h)

/-- **Prefix theorem, no trip count.** -/
theorem loopMotion_prefix_sound {s : Rebuild w} {ps : List (Rebuild w)} {sub : Rebuild w}
    {reads C : List Int} {lin : List (Int × Expr w)} {otherPending : List Int} {L : OptLoop w}
    {B D : List (Int × Expr w)} {m0 : Mem w} {body : Nat → Mem w → Mem w} {N : Nat}
    (ctx : MotionCtxH s ps sub C lin m0 body N)
    (hbd : MotionBD s ps sub reads C lin otherPending L B D)
    (hrf : ReadFactsH sub reads body (run body sub.pending m0) N)
    (N' : Nat) (hN' : N' ≤ N) (hamo : L.atMostOnce = true → N' ≤ 1) :
    (∀ k, k < N' → ∀ r, reads.contains r = true →
      run body D (Mem.par B m0) k r = run body sub.pending m0 k r) ∧
    (∀ k, k ≤ N' → ∀ v, ¬ Differ' C B D sub.pending v →
      run body D (Mem.par B m0) k v = run body sub.pending m0 k v) ∧
    (∀ k, k < N' →
      (∀ v, run body D (Mem.par B m0) k v = run body sub.pending m0 k v →
        mid body D (Mem.par B m0) k v = mid body sub.pending m0 k v) ∧
      (∀ r, reads.contains r = true →
        mid body D (Mem.par B m0) k r = mid body sub.pending m0 k r)) :=
  OptLoop.loopMotion_prefix_sound ctx hbd hrf N' hN' hamo

/-- **`loopMotion_all_sound` with a horizon.** -/
theorem loopMotion_all_sound_h (hw : 0 < w) {s : Rebuild w} {ps : List (Rebuild w)} {sub : Rebuild w}
    {reads C : List Int} {lin : List (Int × Expr w)} {otherPending : List Int} {L : OptLoop w}
    {B D A : List (Int × Expr w)} {m0 : Mem w} {body : Nat → Mem w → Mem w} {N : Nat}
    (ctx : MotionCtxH s ps sub C lin m0 body N) {n : Nat}
    (hnN : n ≤ N) (htrip : TripFacts L n m0)
    (hcanon : ∀ v p, mGet sub.pending v = some p → Canon p)
    (hall : MotionAll s ps sub reads C lin otherPending L n B D A)
    (hrf : ReadFactsH sub reads body (run body sub.pending m0) N)
    (hop : ∀ x, otherPending.contains x = false → mGet sub.pending x = none ∨ C.contains x = true)
    (hamo : L.atMostOnce = true → n ≤ 1) :
    (∀ k, k < n → ∀ r, reads.contains r = true →
      run body D (Mem.par B m0) k r = run body sub.pending m0 k r) ∧
    (∀ k, k ≤ n → ∀ v, ¬ (mGet B v ≠ none ∨ (mGet A v ≠ none ∧ C.contains v = false)) →
      run body D (Mem.par B m0) k v = run body sub.pending m0 k v) ∧
    (∀ k, k ≤ n → ∀ v, ¬ Differ' C B D sub.pending v →
      run body D (Mem.par B m0) k v = run body sub.pending m0 k v) ∧
    (∀ v, mGet A v = none → run body D (Mem.par B m0) n v = run body sub.pending m0 n v) ∧
    (0 < n → Mem.par A (run body D (Mem.par B m0) n) = run body sub.pending m0 n) ∧
    (n = 0 → Mem.par B m0 = m0) :=
  OptLoop.loopMotion_all_sound_h hw ctx hnN htrip hcanon hall hrf hop hamo

/-- The loop of `finishLoop` over the pending variables, without a trip count. -/
theorem motionFold_spec_e (s : Rebuild w) (ps : List (Rebuild w)) (sub : Rebuild w) (R C : List Int)
    (lin : List (Int × Expr w)) (pset : List Int) (L : OptLoop w) (pending : List Int)
    (sub' : Rebuild w) (B D A : List (Int × Expr w)) (os os' : Orders)
    (hnd : pending.Nodup) (hkeys : ∀ v p, mGet sub.pending v = some p → v ∈ pending)
    (h : pending.foldlM (motionStepM s ps R C lin pset L) (sub, [], [], []) os = .ok ((sub', B, D, A), os')) :
    os' = os ∧ MotionAllE s ps sub R C lin pset L B D A :=
  OptLoop.motionFold_spec_e s ps sub R C lin pset L pending sub' B D A os os' hnd hkeys h

/-- **Prefix theorem for the values `finishLoop` computes** (no trip count). -/
theorem finishLoop_prefix_sound (s : Rebuild w) (ps : List (Rebuild w)) (sub sub' : Rebuild w)
    (cond : Int) (L : OptLoop w) (C : List Int) (B D A : List (Int × Expr w)) (os os' : Orders)
    (m0 : Mem w) (body : Nat → Mem w → Mem w) (N N' : Nat)
    (hC : constantsAmong s ps sub (sIns (possibleReads sub) cond ++
      (pendingSorted sub sub).filter (fun x => !(sIns (possibleReads sub) cond).contains x)) = .ok C)
    (hfold : (pendingSorted sub sub).foldlM
      (motionStepM s ps (sIns (possibleReads sub) cond) C
        (linearAmong s ps sub C (sIns (possibleReads sub) cond ++ pendingSorted sub sub))
        ((pendingSorted sub sub).filter (fun x => !C.contains x)) L) (sub, [], [], []) os
      = .ok ((sub', B, D, A), os'))
    (hreadsAsc : sub.reads.Pairwise (· < ·)) (hpendAsc : (sub.pending.map (·.1)).Pairwise (· < ·))
    (hcmp : ∀ v e, compare s ps (Expr.var v) e = .ok true → ev e m0 = m0 v)
    (hknown : ∀ i c, getConstant s ps i = some c → m0 i = c)
    (hbody : BodyFactsH sub body (run body sub.pending m0) N)
    (hgb : GetBothFactsH s ps sub (run body sub.pending m0) N)
    (hNI : ∀ k, k < N → ∀ (m' : Mem w) (Z : Int → Prop),
      (∀ z, Z z → (sIns (possibleReads sub) cond).contains z = false) →
      (∀ v, ¬ Z v → m' v = run body sub.pending m0 k v) →
      ∀ v, ¬ Z v → body k m' v = body k (run body sub.pending m0 k) v)
    (hframe : ∀ k, k < N → ∀ (m' : Mem w) v, mGet sub.written v = none → body k m' v = m' v)
    (hN' : N' ≤ N) (hamo : L.atMostOnce = true → N' ≤ 1) :
    os' = os ∧
    MotionAllE s ps sub (sIns (possibleReads sub) cond) C
      (linearAmong s ps sub C (sIns (possibleReads sub) cond ++ pendingSorted sub sub))
      ((pendingSorted sub sub).filter (fun x => !C.contains x)) L B D A ∧
    (∀ k, k < N' → ∀ r, (sIns (possibleReads sub) cond).contains r = true →
      run body D (Mem.par B m0) k r = run body sub.pending m0 k r) ∧
    (∀ k, k ≤ N' → ∀ v, ¬ Differ' C B D sub.pending v →
      run body D (Mem.par B m0) k v = run body sub.pending m0 k v) :=
  OptLoop.finishLoop_prefix_sound s ps sub sub' cond L C B D A os os' m0 body N N' hC hfold hreadsAsc
    hpendAsc hcmp hknown hbody hgb hNI hframe hN' hamo

/-- **`finishLoop_motion_sound` with a horizon** (trip count `n ≤ N`). -/
theorem finishLoop_motion_sound_h (hw : 0 < w) (s : Rebuild w) (ps : List (Rebuild w))
    (sub sub' : Rebuild w) (cond : Int) (L : OptLoop w) (C : List Int) (B D A : List (Int × Expr w))
    (os os' : Orders) (m0 : Mem w) (body : Nat → Mem w → Mem w) (N n : Nat)
    (hC : constantsAmong s ps sub (sIns (possibleReads sub) cond ++
      (pendingSorted sub sub).filter (fun x => !(sIns (possibleReads sub) cond).contains x)) = .ok C)
    (hfold : (pendingSorted sub sub).foldlM
      (motionStepM s ps (sIns (possibleReads sub) cond) C
        (linearAmong s ps sub C (sIns (possibleReads sub) cond ++ pendingSorted sub sub))
        ((pendingSorted sub sub).filter (fun x => !C.contains x)) L) (sub, [], [], []) os
      = .ok ((sub', B, D, A), os'))
    (hreadsAsc : sub.reads.Pairwise (· < ·)) (hpendAsc : (sub.pending.map (·.1)).Pairwise (· < ·))
    (hcanon : ∀ v p, mGet sub.pending v = some p → Canon p)
    (hcmp : ∀ v e, compare s ps (Expr.var v) e = .ok true → ev e m0 = m0 v)
    (hknown : ∀ i c, getConstant s ps i = some c → m0 i = c)
    (hbody : BodyFactsH sub body (run body sub.pending m0) N)
    (hgb : GetBothFactsH s ps sub (run body sub.pending m0) N)
    (hNI : ∀ k, k < N → ∀ (m' : Mem w) (Z : Int → Prop),
      (∀ z, Z z → (sIns (possibleReads sub) cond).contains z = false) →
      (∀ v, ¬ Z v → m' v = run body sub.pending m0 k v) →
      ∀ v, ¬ Z v → body k m' v = body k (run body sub.pending m0 k) v)
    (hframe : ∀ k, k < N → ∀ (m' : Mem w) v, mGet sub.written v = none → body k m' v = m' v)
    (hnN : n ≤ N) (htrip : TripFacts L n m0) (hamo : L.atMostOnce = true → n ≤ 1)
    (hne : L.noEffect = true → n = 0) :
    os' = os ∧
    (∀ k, k < n → ∀ r, (sIns (possibleReads sub) cond).contains r = true →
      run body D (Mem.par B m0) k r = run body sub.pending m0 k r) ∧
    (∀ k, k ≤ n → ∀ v, ¬ (mGet B v ≠ none ∨ (mGet A v ≠ none ∧ C.contains v = false)) →
      run body D (Mem.par B m0) k v = run body sub.pending m0 k v) ∧
    (∀ k, k ≤ n → ∀ v, ¬ Differ' C B D sub.pending v →
      run body D (Mem.par B m0) k v = run body sub.pending m0 k v) ∧
    (∀ v, mGet A v = none → run body D (Mem.par B m0) n v = run body sub.pending m0 n v) ∧
    (0 < n → Mem.par A (run body D (Mem.par B m0) n) = run body sub.pending m0 n) ∧
    (n = 0 → Mem.par B m0 = m0) :=
  OptLoop.finishLoop_motion_sound_h hw s ps sub sub' cond L C B D A os os' m0 body N n hC hfold hreadsAsc
    hpendAsc hcanon hcmp hknown hbody hgb hNI hframe hnN htrip hamo hne

/-! ### `_c` variants: `compare` sound on expressions in normal form only

`compare` ends by comparing `Expr.constantPart`s, which says something about values only for expressions in normal
form (`Canon`); these variants need its soundness for `Canon` expressions only, and the `known` written and the
pending expressions of the body state in normal form.  (Full statements: `OptLoop.finishLoop_prefix_sound_c`,
`OptLoop.finishLoop_motion_sound_c`, identical to the `_h` ones except for `hcmp`, `hcanon`, `hcanonW`; the prefix
variant additionally returns the agreement in the middle of the rounds.) -/

theorem constantsAmong_sound_c (s : Rebuild w) (ps : List (Rebuild w)) (sub : Rebuild w) (vars : List Int)
    (C : List Int) (m0 : Mem w) (body : Nat → Mem w → Mem w) (N : Nat)
    (hC : constantsAmong s ps sub vars = .ok C) (hnd : vars.Nodup)
    (hcanon : ∀ v p, mGet sub.pending v = some p → Canon p)
    (hcanonW : ∀ v e, mGet sub.written v = some (.known e) → Canon e)
    (hcmp : ∀ v e, Canon e → compare s ps (Expr.var v) e = .ok true → ev e m0 = m0 v)
    (hb : BodyFactsH sub body (run body sub.pending m0) N) :
    (∀ k, k ≤ N → ∀ c ∈ C, run body sub.pending m0 k c = m0 c) ∧
    (∀ k, k < N → ∀ c ∈ C, mid body sub.pending m0 k c = m0 c) :=
  OptLoop.constantsAmong_sound_c s ps sub vars C m0 body N hC hnd hcanon hcanonW hcmp hb

/-! ### `analyzeLoop` with the weaker `CondFacts'`; the targets of `B`, `D`, `A` -/

theorem condFacts'_iff (s : Rebuild w) (ps : List (Rebuild w)) (sub : Rebuild w) (cond : Int) (isLoop : Bool)
    (cv : Nat → BitVec w) :
    CondFacts' s ps sub cond isLoop cv ↔
      (∀ c, getConstant s ps cond = some c → cv 0 = c) ∧
      (isNonZero s ps cond = true → cv 0 ≠ 0#w) ∧
      (isLoop = false → cv 0 ≠ 0#w → cv 1 = 0#w) ∧
      (∀ c, getConstant sub (s :: ps) (cond + sub.shift - s.shift) = some c →
        ∀ k, Live cv k → cv (k + 1) = c) ∧
      (∀ e, getConstant sub (s :: ps) (cond + sub.shift - s.shift) = none → sub.subShift = false →
        getBoth sub (s :: ps) (cond + sub.shift - s.shift) = some e →
        ∀ k, Live cv k → ∃ f : Mem w, f cond = cv k ∧ cv (k + 1) = ev e f) :=
  ⟨fun h => ⟨h.init, h.nz, h.ifOnce, h.stored, h.both⟩,
   fun h => ⟨h.1, h.2.1, h.2.2.1, h.2.2.2.1, h.2.2.2.2⟩⟩

/-- `analyzeLoop_sound` needing the `getBoth` fact only where `analyzeLoop` consults `getBoth`. -/
theorem analyzeLoop_sound' (hw : 0 < w) (s : Rebuild w) (ps : List (Rebuild w)) (sub : Rebuild w)
    (cond : Int) (isLoop : Bool) (cv : Nat → BitVec w) (hf : CondFacts' s ps sub cond isLoop cv)
    (hnr : sub.noReturn = false) :
    LoopMeaning (analyzeLoop s ps sub cond isLoop) cv cond :=
  OptLoop.analyzeLoop_sound' hw s ps sub cond isLoop cv hf hnr

/-- The targets of the three assignments are sub-lists (in order) of the list of pending variables. -/
theorem motionFold_keys (s : Rebuild w) (ps : List (Rebuild w)) (sub : Rebuild w) (R C : List Int)
    (lin : List (Int × Expr w)) (pset : List Int) (L : OptLoop w) (pending : List Int)
    (sub' : Rebuild w) (B D A : List (Int × Expr w)) (os os' : Orders)
    (h : pending.foldlM (motionStepM s ps R C lin pset L) (sub, [], [], []) os = .ok ((sub', B, D, A), os')) :
    (B.map (·.1)).Sublist pending ∧ (D.map (·.1)).Sublist pending ∧ (A.map (·.1)).Sublist pending :=
  OptLoop.motionFold_keys s ps sub R C lin pset L pending sub' B D A os os' h

/-! ### Example: the loop of the fold on a concrete state (w = 8) -/

section Examples

private def s0 : Rebuild 8 := Rebuild.new 0 none .unknown none
private def P1 : List (Int × Expr 8) :=
  [(0, Expr.add (Expr.var 0) (Expr.val 255#8)), (1, Expr.add (Expr.var 1) (Expr.val 3#8))]
private def sub1 : Rebuild 8 := { (Rebuild.new 0 (some 0) .parent none : Rebuild 8) with pending := P1 }

/- `x1 += 3` in a loop with trip count `x0`: before `x1 += 3*x0`, the counter stays -/
example : (match (pendingSorted sub1 sub1).foldlM
    (motionStepM s0 [] [0] [] [] [0, 1] (OptLoop.ofExpr (Expr.mul (Expr.val 1#8) (Expr.var 0))))
    (sub1, [], [], []) [] with
  | .ok r =>
    r.1.2.1 == [(1, ([⟨3#8, [0]⟩, ⟨1#8, [1]⟩] : Expr 8))] &&
    r.1.2.2.1 == [(0, Expr.add (Expr.var 0) (Expr.val 255#8)), (1, (Expr.var 1 : Expr 8))] &&
    r.1.2.2.2.isEmpty && r.2.isEmpty
  | .error _ => false) = true := by
  decide +kernel

end Examples

end Hpbf.C01Loop

#print axioms Hpbf.C01Loop.constantsAmong_sound_h
#print axioms Hpbf.C01Loop.linearAmong_sound_h
#print axioms Hpbf.C01Loop.loopMotion_sound_h
#print axioms Hpbf.C01Loop.loopMotion_prefix_sound
#print axioms Hpbf.C01Loop.loopMotion_all_sound_h
#print axioms Hpbf.C01Loop.motionFold_spec_e
#print axioms Hpbf.C01Loop.finishLoop_prefix_sound
#print axioms Hpbf.C01Loop.finishLoop_motion_sound_h
#print axioms Hpbf.C01Loop.constantsAmong_sound_c
#print axioms Hpbf.OptLoop.finishLoop_ctx_c
#print axioms Hpbf.OptLoop.finishLoop_prefix_sound_c
#print axioms Hpbf.OptLoop.finishLoop_motion_sound_c
#print axioms Hpbf.C01Loop.analyzeLoop_sound'
#print axioms Hpbf.C01Loop.motionFold_keys
#print axioms Hpbf.OptLoop.motionFold_keys_nodup
#print axioms Hpbf.OptLoop.motionAllE_B_facts
#print axioms Hpbf.OptLoop.motionAllE_D_facts
#print axioms Hpbf.OptLoop.motionAllE_A_facts
