/-
C10 — "For every program whose canonical run keeps the pointer inside a pre-allocated region with a
margin of the program's length on each side, executing without bounds checks produces the canonical
input/output events and touches no byte outside that region."

Property theorems only; lemmas are in `Hpbf/Proofs/C10.lean`, `Hpbf/Proofs/C10Parse.lean` and
`Hpbf/Proofs/C06.lean`; the model is `Hpbf/Window.lean` (`Mode.unchecked`: `SAFE = false` in the
threaded interpreter, no probes in the JIT; `Lay.move .unchecked` just adds the shift, `Lay.enter
.unchecked` does nothing – the caller has pre-grown the tape, `l0` below).

Vocabulary:
* `Window.run mode p limited b fuel env l0` – bytecode run instrumented with the layout; `.out` the
  outcome of the bytecode machine, `.lay` the final layout, `.ok` "every tape access was inside the
  allocation".
* `ReachFrom p limited c0 c` – `c` is reachable from `c0` by `Bc.step` (`.next` steps).
* `ptrRange` – runs the machine and records the least/greatest logical pointer (a decidable way to get
  the excursion hypothesis of `unchecked_region` for a terminating run).
* `Ir.offsets` – all tape offsets occurring in an IR instruction list (sources, destinations,
  variables of expressions, loop conditions, recursively; block shifts are NOT offsets);
  `Ir.moves src` – number of `<`/`>` characters.
* Guard (only for `unchecked_eq_safe`, which talks about the checked mode): `SmallProg p` and
  `l0.size < 2^59` as in C06.  `mode_irrelevant_for_outcome`, `unchecked_region` and
  `parse_offsets_le_length` need no guard (the unchecked mode performs no wrapping arithmetic in the
  layout model: the physical index is an `Int`).
-/
import Hpbf.Props.C06
import Hpbf.Proofs.C10
import Hpbf.Proofs.C10Parse

namespace Hpbf.C10
open Hpbf Hpbf.Window Hpbf.Bc Hpbf.C06

variable {w : Nat}

/-! ## 1. the bytecode semantics is the same in all modes -/

/-- The outcome (final configuration: tape, pointer, environment, trace of I/O events, budget; and how
the run ended) does not depend on the mode or on the starting layout: it is `Bc.run`. -/
theorem mode_irrelevant_for_outcome (mode : Mode) (p : Program w) (limited : Bool) (b fuel : Nat)
    (env : Env) (l0 : Lay) :
    (Window.run mode p limited b fuel env l0).out = Bc.run p limited b fuel env := by
  unfold Window.run Bc.run
  simp only
  split
  · rfl
  · exact runLay_out mode p limited fuel _ _ _

/-- In particular two modes / layouts give the same outcome. -/
theorem mode_irrelevant (mode mode' : Mode) (p : Program w) (limited : Bool) (b fuel : Nat)
    (env : Env) (l0 l0' : Lay) :
    (Window.run mode p limited b fuel env l0).out = (Window.run mode' p limited b fuel env l0').out := by
  rw [mode_irrelevant_for_outcome, mode_irrelevant_for_outcome]

/-! ## 2. without growth, unchecked = checked -/

/-- While no growth happens the checked move IS the unchecked move. -/
theorem move_eq_of_no_growth {mn mx : Int} {l : Lay} {sh : Int} (h0 : mn ≤ 0) (h1 : 0 ≤ mx)
    (hw : l.InWindow mn mx) (hs : (l.size : Int) < bound) (hmn : SmallArg mn) (hmx : SmallArg mx)
    (hsh : SmallArg sh) (hsz : (Lay.move .threadedSafe mn mx l sh).size = l.size) :
    Lay.move .threadedSafe mn mx l sh = Lay.move .unchecked mn mx l sh :=
  move_no_growth h0 h1 hw hs hmn hmx hsh hsz

/-- Let `l0` be a pre-grown layout containing the window.  If the bounds-checked run from `l0` never
grows the allocation (by `C06.size_monotone`: its final size is the initial size), then the unchecked
run from `l0` is the same run – same outcome, same final layout – and every access is inside the
pre-allocated region. -/
theorem unchecked_eq_safe {p : Program w} (hl : BcWf.localOk p = true) (hp : SmallProg p)
    (limited : Bool) (b fuel : Nat) (env : Env) {l0 : Lay}
    (hw : l0.InWindow p.minAcc p.maxAcc) (hs : (l0.size : Int) < bound)
    (hng : (Window.run .threadedSafe p limited b fuel env l0).lay.size = l0.size) :
    Window.run .unchecked p limited b fuel env l0 = Window.run .threadedSafe p limited b fuel env l0 ∧
    (Window.run .unchecked p limited b fuel env l0).lay =
      (Window.run .threadedSafe p limited b fuel env l0).lay ∧
    (Window.run .unchecked p limited b fuel env l0).lay.size = l0.size ∧
    (Window.run .unchecked p limited b fuel env l0).ok = true := by
  have L := C11.localOk_facts hl
  have hsmall : l0.Small := by
    have := L.min0; have := L.max0
    obtain ⟨w1, w2⟩ := hw
    unfold Lay.Small; omega
  have hok := safe_run_no_oob_final (mode := .threadedSafe) (Or.inl rfl) hl hp limited b fuel env hsmall
    (by rw [hng]; exact hs)
  have heq : Window.run .unchecked p limited b fuel env l0 =
      Window.run .threadedSafe p limited b fuel env l0 := by
    have hent : l0.enter .threadedSafe p.minAcc p.maxAcc = l0 :=
      re_enter_noop .threadedSafe hw (by have := L.min0; have := L.max0; omega) hs hp.1 hp.2.1
    unfold Window.run at hng ⊢
    simp only at hng ⊢
    split
    · rfl
    · rename_i hb
      simp only [hb] at hng
      rw [hent] at hng ⊢
      exact runLay_unchecked_eq L hp limited fuel _ l0 true hw hs hng
  rw [heq]
  exact ⟨rfl, rfl, hng, hok⟩

/-! ## 3. a static sufficient condition: the pointer excursion -/

/-- If the logical pointer of every configuration reachable from the start lies in `[lo, hi]` and the
pre-grown layout `l0` (`l0.cur` = physical index of logical pointer 0) contains
`[lo + minAcc, hi + maxAcc]`, then the unchecked run touches only cells of the pre-allocated region
(and never changes the allocation).  Invariant: physical index `= l0.cur + ptr`. -/
theorem unchecked_region {p : Program w} (hl : BcWf.localOk p = true) (limited : Bool) (b fuel : Nat)
    (env : Env) {l0 : Lay} (lo hi : Int)
    (hreach : ∀ c, ReachFrom p limited { pc := 0, temps := [], budget := b, st := State.init env } c →
      lo ≤ c.st.ptr ∧ c.st.ptr ≤ hi)
    (hlo : 0 ≤ l0.cur + lo + p.minAcc) (hhi : l0.cur + hi + p.maxAcc < l0.size) :
    (Window.run .unchecked p limited b fuel env l0).ok = true ∧
    (Window.run .unchecked p limited b fuel env l0).lay.size = l0.size := by
  have L := C11.localOk_facts hl
  unfold Window.run
  simp only
  split
  · exact ⟨rfl, rfl⟩
  · exact runLay_unchecked_region L limited _ lo hi l0.cur l0.size hreach hlo hhi fuel _ _
      ReachFrom.refl rfl (by simp [Lay.enter, State.init])

/-- The excursion hypothesis can be computed for a run that ends within the fuel. -/
theorem reach_of_ptrRange {p : Program w} {limited : Bool} {b fuel : Nat} {env : Env} {lo hi : Int}
    (h : ptrRange p limited fuel { pc := 0, temps := [], budget := b, st := State.init env } (0, 0) =
      some (lo, hi)) :
    ∀ c, ReachFrom p limited { pc := 0, temps := [], budget := b, st := State.init env } c →
      lo ≤ c.st.ptr ∧ c.st.ptr ≤ hi :=
  (ptrRange_sound p limited fuel _ _ lo hi h).2.2

/-! ## 4. the margin at optimisation level 0: offsets are bounded by the program's length -/

/-- Every tape offset occurring anywhere in the parsed IR is bounded in magnitude by the number of
`<`/`>` characters of the source … -/
theorem parse_offsets_le_moves {src : List Kind} {blk : Ir.Block w}
    (h : Ir.parse (w := w) src = .ok blk) :
    ∀ o ∈ Ir.offsets blk.insts, o.natAbs ≤ Ir.moves src := by
  intro o ho
  have := (parse_bd h).2 o ho
  unfold Bd at this
  omega

/-- … hence by the length of the source.  (Also the final shift of the top-level block.) -/
theorem parse_offsets_le_length {src : List Kind} {blk : Ir.Block w}
    (h : Ir.parse (w := w) src = .ok blk) :
    (∀ o ∈ Ir.offsets blk.insts, o.natAbs ≤ src.length) ∧ blk.shift.natAbs ≤ src.length := by
  have hm := moves_le_length src
  refine ⟨fun o ho => Nat.le_trans (parse_offsets_le_moves h o ho) hm, ?_⟩
  have := (parse_bd h).1
  unfold Bd at this
  omega

/-! ## examples: the hypotheses are satisfiable -/

/-- `>>> [3]+=1 <<<<< [-2]+=1 > [0]:=1 scan-right-by-2` on a pre-grown tape. -/
def wander : Program 8 :=
  { temps := 0, minAcc := -2, maxAcc := 3, live := #[0, 0, 0, 0, 0, 0, 0],
    insts := #[.mov 3, .add (.mem 3) (.mem 3) (.imm 1#8), .mov (-5),
               .add (.mem (-2)) (.mem (-2)) (.imm 1#8), .mov 1, .copy (.mem 0) (.imm 1#8), .scan 0 2] }

def env0 : Env := { input := none, sink := false, outOk := none }

/-- A pre-grown layout: 64 cells, logical pointer 0 at physical index 32. -/
def pre : Lay := ⟨64, 32⟩

example : BcWf.localOk wander = true ∧ SmallProg wander ∧ pre.InWindow wander.minAcc wander.maxAcc ∧
    (pre.size : Int) < bound := by decide

-- the checked run from `pre` does not grow …
example : (Window.run .threadedSafe wander false 0 20 env0 pre).lay.size = pre.size := by
  decide +kernel
-- … so `unchecked_eq_safe` applies; and indeed
example : (Window.run .unchecked wander false 0 20 env0 pre).lay = ⟨64, 33⟩ ∧
    (Window.run .unchecked wander false 0 20 env0 pre).ok = true := by decide +kernel

-- the excursion of that run is `[-2, 3]` (computed), and `pre` contains `[-2 + -2, 3 + 3]`
example : ptrRange wander false 20 { pc := 0, temps := [], budget := 0, st := State.init env0 } (0, 0) =
    some (-2, 3) := by decide +kernel
example : 0 ≤ pre.cur + (-2) + wander.minAcc ∧ pre.cur + 3 + wander.maxAcc < pre.size := by decide

example : (Window.run .unchecked wander false 0 20 env0 pre).ok = true :=
  (unchecked_region (by decide) false 0 20 env0 (-2) 3 (reach_of_ptrRange (fuel := 20) (by decide +kernel))
    (by decide) (by decide)).1

-- too small a region: the unchecked run does leave it (the flag notices)
example : (Window.run .unchecked wander false 0 20 env0 ⟨6, 2⟩).ok = false := by decide +kernel

-- the outcome is the same in all modes, e.g. the final pointer
example : (match (Window.run .unchecked wander false 0 20 env0 pre).out with
    | .done c => c.st.ptr | _ => 0) = 1 := by decide +kernel

-- parser: `+>>+<<<[->+<]` has 7 moves; the offsets of its IR lie in `[-1, 2]`
example : (match Ir.parse (w := 8) ("+>>+<<<[->+<]".toList.map Kind.ofChar) with
    | .ok blk => Ir.offsets blk.insts | .error _ => []) = [0, 0, -1, -1, -1, 0, 0, 2, 2] ∧
    Ir.moves ("+>>+<<<[->+<]".toList.map Kind.ofChar) = 7 := by decide +kernel

end Hpbf.C10

#print axioms Hpbf.C10.mode_irrelevant_for_outcome
#print axioms Hpbf.C10.mode_irrelevant
#print axioms Hpbf.C10.move_eq_of_no_growth
#print axioms Hpbf.C10.unchecked_eq_safe
#print axioms Hpbf.C10.unchecked_region
#print axioms Hpbf.C10.reach_of_ptrRange
#print axioms Hpbf.C10.parse_offsets_le_moves
#print axioms Hpbf.C10.parse_offsets_le_length
