/-
Chain: the per-stage theorems composed into END-TO-END statements at optimisation level 0 (where the optimizer
is the identity):

    source text ──Program::parse──▶ IR ──translate──▶ bytecode ──threaded interpreter        (§4, §5)
                                                              └──compileX86──▶ x86-64 code    (§6)

against canonical Brainfuck semantics (`Bf.run`).  Property theorems only; the proofs are in
`Hpbf/Proofs/Chain{Phases,Refine,Parse,Level0,Jit}.lean`; the theorems below are those theorems (namespace
`Hpbf.Chain`), restated as `example`s so that the exact statements are checked in this file.

Ingredients: C01 (`parse_forward/backward/prefix`: canonical vs. `Ir.run (parse src)`), C02Emit (`emit_*`: IR vs.
the code after the emission phase), C02Dse (`deadStoreElim_preserves_of_emit`), C02Alloc (`allocPre_of_emit`,
`allocateTemps_preserves`, `allocateTemps_latePre`), C02 (`late_passes_preserve`, `runDebug_eq_run`), C07
(`bc_limited_*`), C11 (`check_run_not_bad`), C03Flow (`prog_run`).

Conventions: `src : List Kind` classified source text; `prog` its bracket tree (`Bf.tree src = some prog` – the
text is balanced); `blk` the block returned by `Ir.parse` at cell width `w`, `0 < w` (as C01 needs); `p` the
program returned by `translateE blk numRegs fuse`; `env` an arbitrary environment (input replies incl. EOF and
errors, absent source, absent/refusing sink); unlimited runs are `limited = false`, budget `0`.  Traces are
lists of events, most recent first.

What is composed unconditionally, and what keeps a hypothesis.
* DISCHARGED: `TargetsOk` of the emission output (`emit_targetsOk`), hence `LatePre` of the allocation output,
  the `live` sizes, `OnceOk` (the parser never sets `once`: `parse_noOnce`), and success of `dead_store_elim`
  and of the late passes on generator output (`translateE_ok_of_alloc`).
* KEPT: `translateE blk numRegs fuse = .ok p` – that the emission phase and `allocate_temps` do not hit one of
  their modelled panic sites is proved by no stage theorem (C02Emit `emit_total_full`; `allocate_temps` has the
  `range_extend_to` finding `alloc_shrunk_extension_panics`).  A panic is not wrong code: every theorem here is
  about the program that IS produced.
* KEPT (only where stated): `BcWf.check p n = true` to exclude the outcome "malformed bytecode" for runs that do
  not terminate (the simulation of the emission phase treats `bad` like divergence); for terminating runs it is
  excluded unconditionally (`bytecode_level0_proper`).
* KEPT: all hypotheses of `C03.prog_run`, bundled in `JitHyps` (§6).
Observables lost on the way: C01 compares events only, so every end-to-end statement is about events (plus the
kind of ending).  Inside `translate` (§2) a run that ends normally keeps tape, pointer and environment; a run
that STOPS at a failing I/O operation keeps pointer, environment and events but not the tape (`BehEqIO`:
`dead_store_elim` always, `zeroing_move_detection` with `fuse`).
-/
import Hpbf.Proofs.ChainJit

namespace Hpbf
namespace Chain

open Asm JitGen X86Sem X86Prog C03 BcGen C02

variable {w : Nat}

/-! ## 1. Missing links between the phases of `translateE` -/

/-- The code produced by the emission phase has all branch targets in `[0, n]` … -/
example (prog : Ir.Block w) (fuse : Bool) (s : St w) (h : emitState prog fuse = .ok s) :
    TargetsOk s.insts := emit_targetsOk h
/-- … more precisely: `brnz` jumps backwards (not before the start), `brz` forwards (at most to the end). -/
example (prog : Ir.Block w) (fuse : Bool) (s : St w) (h : emitState prog fuse = .ok s) (j : Nat)
    (cnd off : Int) (hj : s.insts[j]? = some (.brnz cnd off)) : 0 ≤ (j : Int) + off ∧ off ≤ 0 :=
  emit_brnz_target h hj
example (prog : Ir.Block w) (fuse : Bool) (s : St w) (h : emitState prog fuse = .ok s) (j : Nat)
    (cnd off : Int) (hj : s.insts[j]? = some (.brz cnd off)) : 0 < off ∧ (j : Int) + off ≤ s.insts.size :=
  emit_brz_target h hj
example (prog : Ir.Block w) (fuse : Bool) (s : St w) (h : emitState prog fuse = .ok s) : s.live.size = 0 :=
  emit_live0 h

/-- A successful translation is a successful run of each phase (`latePasses` and `package` are transparent). -/
example (prog : Ir.Block w) (numRegs : Nat) (fuse : Bool) (p : Bc.Program w)
    (h : translateE prog numRegs fuse = .ok p) :
    ∃ s1 s2 s3 s4, emitState prog fuse = .ok s1 ∧ deadStoreElim s1 = .ok s2 ∧
      allocateTemps numRegs s2 = .ok s3 ∧ latePasses fuse s3 = .ok s4 ∧ p = package prog s4 :=
  translateE_phases h
example (prog : Ir.Block w) (s : St w) : package prog s =
    { temps := countTemps s.insts, minAcc := (analyze prog).minAcc, maxAcc := (analyze prog).maxAcc,
      live := s.live, insts := s.insts } := rfl

/-- Once the emission succeeded, only `allocate_temps` can still fail. -/
example (prog : Ir.Block w) (numRegs : Nat) (fuse : Bool) (s1 : St w) (h1 : emitState prog fuse = .ok s1) :
    ∃ s2, deadStoreElim s1 = .ok s2 ∧
      ∀ s3, allocateTemps numRegs s2 = .ok s3 → ∃ p, translateE prog numRegs fuse = .ok p :=
  translateE_ok_of_alloc h1

/-- The passes after the emission: the allocation output satisfies `LatePre`, the final state has a `live`
bitmap per instruction and no `noop`, and the states before and after are `BehEqIO` (whatever the fields
`temps`, `minAcc`, `maxAcc` of the packaged programs). -/
example (prog : Ir.Block w) (numRegs : Nat) (fuse : Bool) (s1 s2 s3 s4 : St w)
    (h1 : emitState prog fuse = .ok s1) (h2 : deadStoreElim s1 = .ok s2)
    (h3 : allocateTemps numRegs s2 = .ok s3) (h4 : latePasses fuse s3 = .ok s4) :
    LatePre s3 ∧ s4.live.size = s4.insts.size ∧ (∀ x ∈ s4.insts, BcGen.isNoop x = false) ∧
    ∀ (t t' : Nat) (mn mx : Int), BehEqIO (progOf s1 t mn mx) (progOf s4 t' mn mx) :=
  passes_behEqIO h1 h2 h3 h4

/-- Emission output vs. final program (limited and unlimited mode, every budget, every environment). -/
example (prog : Ir.Block w) (numRegs : Nat) (fuse : Bool) (p : Bc.Program w)
    (h : translateE prog numRegs fuse = .ok p) : ∃ p0, emitOnly prog fuse = .ok p0 ∧ BehEqIO p0 p :=
  translate_behEqIO h

example (prog : Ir.Block w) (numRegs : Nat) (fuse : Bool) (p : Bc.Program w)
    (h : translateE prog numRegs fuse = .ok p) :
    p.live.size = p.insts.size ∧ (∀ x ∈ p.insts, BcGen.isNoop x = false) ∧
    p.minAcc = (analyze prog).minAcc ∧ p.maxAcc = (analyze prog).maxAcc ∧ p.temps = countTemps p.insts :=
  translate_shape h

/-! ## 2. `translate` refines the IR (every IR block, every `numRegs`, both values of `fuse`) -/

/-- Forward / backward / prefix.  `done`: events, tape (as a function), pointer, environment; `stopped`: events,
pointer, environment (the tape is lost at `BehEqIO`); cut-off runs: events. -/
example (blk : Ir.Block w) (numRegs : Nat) (fuse : Bool) (p : Bc.Program w) (env : Env)
    (hp : translateE blk numRegs fuse = .ok p) (ho : OnceOk blk env) :
    ((∀ f (c : Ir.Cfg w), Ir.run blk false 0 f env = .done c →
      ∃ f' c', Bc.run p false 0 f' env = .done c' ∧ c'.st.trace = c.st.trace ∧
        (∀ i, c'.st.tape.get i = c.st.tape.get i) ∧ c'.st.ptr = c.st.ptr ∧ c'.st.env = c.st.env) ∧
     (∀ f (c : Ir.Cfg w), Ir.run blk false 0 f env = .stopped c →
      ∃ f' c', Bc.run p false 0 f' env = .stopped c' ∧ c'.st.trace = c.st.trace ∧
        c'.st.ptr = c.st.ptr ∧ c'.st.env = c.st.env)) ∧
    ((∀ f' (c' : Bc.Cfg w), Bc.run p false 0 f' env = .done c' →
      ∃ f c, Ir.run blk false 0 f env = .done c ∧ c.st.trace = c'.st.trace ∧
        (∀ i, c.st.tape.get i = c'.st.tape.get i) ∧ c.st.ptr = c'.st.ptr ∧ c.st.env = c'.st.env) ∧
     (∀ f' (c' : Bc.Cfg w), Bc.run p false 0 f' env = .stopped c' →
      ∃ f c, Ir.run blk false 0 f env = .stopped c ∧ c.st.trace = c'.st.trace ∧
        c.st.ptr = c'.st.ptr ∧ c.st.env = c'.st.env)) ∧
    ((∀ f', ∃ f, C01.traceOf (Ir.run blk false 0 f env) = C07.traceOfBc (Bc.run p false 0 f' env)) ∧
     (∀ f, ∃ f', C07.traceOfBc (Bc.run p false 0 f' env) = C01.traceOf (Ir.run blk false 0 f env))) :=
  translate_refines env hp ho

/-- The version for IR without `once` loops (all that `Program::parse` produces), every environment. -/
example (blk : Ir.Block w) (numRegs : Nat) (fuse : Bool) (p : Bc.Program w) (env : Env)
    (hp : translateE blk numRegs fuse = .ok p) (hn : NoOnce blk) :
    ((∀ f (c : Ir.Cfg w), Ir.run blk false 0 f env = .done c →
      ∃ f' c', Bc.run p false 0 f' env = .done c' ∧ c'.st.trace = c.st.trace ∧
        (∀ i, c'.st.tape.get i = c.st.tape.get i) ∧ c'.st.ptr = c.st.ptr ∧ c'.st.env = c.st.env) ∧
     (∀ f (c : Ir.Cfg w), Ir.run blk false 0 f env = .stopped c →
      ∃ f' c', Bc.run p false 0 f' env = .stopped c' ∧ c'.st.trace = c.st.trace ∧
        c'.st.ptr = c.st.ptr ∧ c'.st.env = c.st.env)) ∧
    ((∀ f' (c' : Bc.Cfg w), Bc.run p false 0 f' env = .done c' →
      ∃ f c, Ir.run blk false 0 f env = .done c ∧ c.st.trace = c'.st.trace ∧
        (∀ i, c.st.tape.get i = c'.st.tape.get i) ∧ c.st.ptr = c'.st.ptr ∧ c.st.env = c'.st.env) ∧
     (∀ f' (c' : Bc.Cfg w), Bc.run p false 0 f' env = .stopped c' →
      ∃ f c, Ir.run blk false 0 f env = .stopped c ∧ c.st.trace = c'.st.trace ∧
        c.st.ptr = c'.st.ptr ∧ c.st.env = c'.st.env)) ∧
    ((∀ f', ∃ f, C01.traceOf (Ir.run blk false 0 f env) = C07.traceOfBc (Bc.run p false 0 f' env)) ∧
     (∀ f, ∃ f', C07.traceOfBc (Bc.run p false 0 f' env) = C01.traceOf (Ir.run blk false 0 f env))) :=
  translate_refines_noOnce env hp hn

/-- Never interrupted (unlimited mode); never "malformed bytecode" once the IR run terminates. -/
example (p : Bc.Program w) (f' : Nat) (env : Env) (c' : Bc.Cfg w) :
    Bc.run p false 0 f' env ≠ .interrupted c' := translate_never_interrupted p f' env c'
example (blk : Ir.Block w) (numRegs : Nat) (fuse : Bool) (p : Bc.Program w) (env : Env)
    (hp : translateE blk numRegs fuse = .ok p) (ho : OnceOk blk env) (f : Nat) (c : Ir.Cfg w)
    (hc : Ir.run blk false 0 f env = .done c ∨ Ir.run blk false 0 f env = .stopped c)
    (f' : Nat) (c' : Bc.Cfg w) : Bc.run p false 0 f' env ≠ .bad c' :=
  translate_not_bad_of_terminates env hp ho hc f' c'

/-! ## 3. The parser never sets `once` -/

example (src : List Kind) (blk : Ir.Block w) (h : Ir.parse (w := w) src = .ok blk) : NoOnce blk :=
  parse_noOnce h
example (src : List Kind) (blk : Ir.Block w) (h : Ir.parse (w := w) src = .ok blk) (env : Env) :
    OnceOk blk env := parse_onceOk h env

/-! ## 4. Level 0: canonical semantics vs. the bytecode interpreter -/

section Level0
variable (hw : 0 < w) (src : List Kind) (prog : Prog) (hp : Bf.tree src = some prog)
  (blk : Ir.Block w) (hb : Ir.parse (w := w) src = .ok blk)
  (numRegs : Nat) (fuse : Bool) (p : Bc.Program w) (ht : translateE blk numRegs fuse = .ok p) (env : Env)

/-- **Release build (tail-called dispatch).**  Forward: canonical termination ⇒ the bytecode run terminates the
same way with the same events.  Backward: the bytecode run terminates only if the canonical run does, same
events.  Prefix: cut off anywhere, neither has emitted anything the other does not emit. -/
example :
    ((∀ f (s : State w), Bf.run f prog env = .done s →
        ∃ f' c', Bc.run p false 0 f' env = .done c' ∧ c'.st.trace = s.trace) ∧
     (∀ f (s : State w), Bf.run f prog env = .stopped s →
        ∃ f' c', Bc.run p false 0 f' env = .stopped c' ∧ c'.st.trace = s.trace)) ∧
    ((∀ f' (c' : Bc.Cfg w), Bc.run p false 0 f' env = .done c' →
        ∃ (f : Nat) (s : State w), Bf.run f prog env = .done s ∧ s.trace = c'.st.trace) ∧
     (∀ f' (c' : Bc.Cfg w), Bc.run p false 0 f' env = .stopped c' →
        ∃ (f : Nat) (s : State w), Bf.run f prog env = .stopped s ∧ s.trace = c'.st.trace)) ∧
    ((∀ f', ∃ f, C07.traceOfBc (Bc.run p false 0 f' env) = C01.traceOfBf (Bf.run (w := w) f prog env)) ∧
     (∀ f, ∃ f', C07.traceOfBc (Bc.run p false 0 f' env) = C01.traceOfBf (Bf.run (w := w) f prog env))) :=
  bytecode_level0 hw hp hb ht env

/-- **Debug build (trampolined dispatch, `budget == 0` test before every instruction).** -/
example :
    ((∀ f (s : State w), Bf.run f prog env = .done s →
        ∃ f' c', runDebug p false 0 f' env = .done c' ∧ c'.st.trace = s.trace) ∧
     (∀ f (s : State w), Bf.run f prog env = .stopped s →
        ∃ f' c', runDebug p false 0 f' env = .stopped c' ∧ c'.st.trace = s.trace)) ∧
    ((∀ f' (c' : Bc.Cfg w), runDebug p false 0 f' env = .done c' →
        ∃ (f : Nat) (s : State w), Bf.run f prog env = .done s ∧ s.trace = c'.st.trace) ∧
     (∀ f' (c' : Bc.Cfg w), runDebug p false 0 f' env = .stopped c' →
        ∃ (f : Nat) (s : State w), Bf.run f prog env = .stopped s ∧ s.trace = c'.st.trace)) ∧
    ((∀ f', ∃ f, C07.traceOfBc (runDebug p false 0 f' env) = C01.traceOfBf (Bf.run (w := w) f prog env)) ∧
     (∀ f, ∃ f', C07.traceOfBc (runDebug p false 0 f' env) = C01.traceOfBf (Bf.run (w := w) f prog env))) :=
  bytecode_level0_debug hw hp hb ht env

/-- Never interrupted; never "malformed bytecode" once the canonical run terminates. -/
example :
    (∀ f' c', Bc.run p false 0 f' env ≠ .interrupted c') ∧
    (∀ f (s : State w), (Bf.run f prog env = .done s ∨ Bf.run f prog env = .stopped s) →
      ∀ f' c', Bc.run p false 0 f' env ≠ .bad c') := bytecode_level0_proper hw hp hb ht env

/-! ## 5. Corollaries for the bytecode interpreter at level 0 -/

/-! ### C05: divergence / termination -/

example (hdiv : C05.BfDiverges w prog env) :
    (∀ (f' : Nat) (c : Bc.Cfg w),
      Bc.run p false 0 f' env ≠ .done c ∧ Bc.run p false 0 f' env ≠ .stopped c) ∧
    (∀ (b f' : Nat) (c : Bc.Cfg w),
      Bc.run p true b f' env ≠ .done c ∧ Bc.run p true b f' env ≠ .stopped c) :=
  bc_never_returns hw hp hb ht env hdiv

example (hdiv : C05.BfDiverges w prog env) :
    ∀ f', (∃ c : Bc.Cfg w, Bc.run p false 0 f' env = .outOfFuel c) ∨
      (∃ c : Bc.Cfg w, Bc.run p false 0 f' env = .bad c) := bc_runs_forever_or_bad hw hp hb ht env hdiv

/-- With the contract checker's verdict: still running after any number of steps … -/
example (hdiv : C05.BfDiverges w prog env) (n : Nat) (hchk : BcWf.check p n = true) :
    ∀ f', ∃ c : Bc.Cfg w, Bc.run p false 0 f' env = .outOfFuel c :=
  bc_runs_forever hw hp hb ht env hdiv hchk
/-- … and limited mode comes back with "budget exhausted". -/
example (hdiv : C05.BfDiverges w prog env) (n : Nat) (hchk : BcWf.check p n = true) :
    ∀ b, ∃ f' c, Bc.run p true b f' env = .interrupted c :=
  bc_limited_interrupted hw hp hb ht env hdiv hchk

example :
    (∀ (f : Nat) (s : State w), Bf.run f prog env = .done s →
      ∃ f' c, Bc.run p false 0 f' env = .done c ∧ c.st.trace = s.trace) ∧
    (∀ (f : Nat) (s : State w), Bf.run f prog env = .stopped s →
      ∃ f' c, Bc.run p false 0 f' env = .stopped c ∧ c.st.trace = s.trace) ∧
    (∀ (f : Nat) (s : State w), Bf.run f prog env = .done s →
      ∃ g, ∀ b, g ≤ b → ∃ f' c, Bc.run p true b f' env = .done c ∧ c.st.trace = s.trace) :=
  bc_terminates hw hp hb ht env

example (hdiv : C05.BfDiverges w prog env) (n : Nat) (hchk : BcWf.check p n = true) :
    (∀ f, ∃ f' c c', Bf.run (w := w) f prog env = .outOfFuel c ∧
      Bc.run p false 0 f' env = .outOfFuel c' ∧ c'.st.trace = c.st.trace) ∧
    (∀ f', ∃ f c c', Bc.run p false 0 f' env = .outOfFuel c' ∧
      Bf.run (w := w) f prog env = .outOfFuel c ∧ c'.st.trace = c.st.trace) :=
  bc_divergent_output hw hp hb ht env hdiv hchk

/-! ### C07: limited mode -/

/-- "Finished" ⇒ the complete canonical event sequence, same kind of ending. -/
example :
    (∀ (b f' : Nat) (c : Bc.Cfg w), Bc.run p true b f' env = .done c →
      ∃ (f : Nat) (s : State w), Bf.run f prog env = .done s ∧ s.trace = c.st.trace) ∧
    (∀ (b f' : Nat) (c : Bc.Cfg w), Bc.run p true b f' env = .stopped c →
      ∃ (f : Nat) (s : State w), Bf.run f prog env = .stopped s ∧ s.trace = c.st.trace) :=
  bc_limited_finished hw hp hb ht env

/-- Otherwise (any outcome) a prefix of it. -/
example : ∀ b f', ∃ f,
    C07.traceOfBc (Bc.run p true b f' env) = C01.traceOfBf (Bf.run (w := w) f prog env) :=
  bc_limited_prefix hw hp hb ht env
example : ∀ b f', ∃ f, ∀ g, f ≤ g →
    C07.traceOfBc (Bc.run p true b f' env) <:+ C01.traceOfBf (Bf.run (w := w) g prog env) :=
  bc_limited_is_prefix hw hp hb ht env

/-- A large enough budget is "effectively unlimited". -/
example :
    (∀ (f : Nat) (s : State w), Bf.run f prog env = .done s →
      ∃ g, ∀ b, g ≤ b → ∃ f' c, Bc.run p true b f' env = .done c ∧ c.st.trace = s.trace) ∧
    (∀ (f : Nat) (s : State w), Bf.run f prog env = .stopped s →
      ∃ g, ∀ b, g ≤ b → ∃ f' c, Bc.run p true b f' env = .stopped c ∧ c.st.trace = s.trace) :=
  bc_limited_enough hw hp hb ht env

/-! ### C08: I/O failure -/

/-- Stops where the canonical machine stops, with the canonical events, no later event, normal return. -/
example : ∀ (f : Nat) (s : State w), Bf.run f prog env = .stopped s →
    ∃ f' c, (∀ k, Bc.run p false 0 (f' + k) env = .stopped c) ∧ c.st.trace = s.trace :=
  bc_stops_like_canonical hw hp hb ht env
example : ∀ (f : Nat) (s : State w), Bf.run f prog env = .stopped s →
    ∃ g, ∀ b, g ≤ b → ∃ f' c, (∀ k, Bc.run p true b (f' + k) env = .stopped c) ∧ c.st.trace = s.trace :=
  bc_limited_stops_like_canonical hw hp hb ht env
/-- … and only there (either mode; the unlimited run is the one with budget 0). -/
example : ∀ (l : Bool) (b f' : Nat) (c : Bc.Cfg w), Bc.run p l b f' env = .stopped c → (l = false → b = 0) →
    ∃ (f : Nat) (s : State w), Bf.run f prog env = .stopped s ∧ s.trace = c.st.trace :=
  bc_stops_only_like_canonical hw hp hb ht env
example (f : Nat) (s : State w) (b : UInt8) (t : List Ev)
    (hrun : Bf.run f prog env = .stopped s) (htr : s.trace = Ev.outFail b :: t) :
    ∃ f' c, Bc.run p false 0 f' env = .stopped c ∧ c.st.trace = Ev.outFail b :: t :=
  bc_refused_byte hw hp hb ht env f s b t hrun htr

/-! ## 6. Level 0: canonical semantics vs. the machine code of the baseline JIT -/

/-- The hypotheses of `C03.prog_run`. -/
example (limited safe : Bool) (cfg : X86Prog.Cfg) (code : List X86) (buf0 rsp0 ra : BitVec 64) (budget : Nat) :
    JitHyps p limited safe cfg code buf0 rsp0 ra budget env ↔
    (compileX86 w p limited safe cfg.aE.toNat cfg.aI.toNat cfg.aO.toNat = some code ∧
     cfg.fetch = fetchFast (fetchTable code) ∧ sizeAll code < 2 ^ 31 ∧
     cfg.aI ≠ cfg.aO ∧ cfg.aE ≠ cfg.aI ∧ cfg.aE ≠ cfg.aO ∧
     BcWf.check p 11 = true ∧ (-2147483648 < p.minAcc ∧ p.maxAcc < 2147483648) ∧
     alignedTemps p.temps * 8 < 2147483648 ∧
     (∀ (i : Nat) (sh : Int), p.insts[i]? = some (Bc.Instr.mov sh) → -2147483648 ≤ sh ∧ sh < 2147483648) ∧
     rsp0.toNat % 16 = 8 ∧ budget < 2 ^ 64 ∧ (limited && budget == 0) = false ∧
     (safe = true → ∀ n s',
        steps cfg n (initState (w := w) cfg buf0 rsp0 ra p.minAcc p.maxAcc budget env) = some s' → Bnd s')) :=
  ⟨fun h => ⟨h.comp, h.fetch, h.small, h.addrIO, h.addrEI, h.addrEO, h.check, h.win, h.temps, h.shift, h.rsp,
      h.budgetLt, h.lim, h.noOOM⟩,
   fun ⟨a, b, c, d, e, f, g, h, i, j, k, l, m, n⟩ => ⟨a, b, c, d, e, f, g, h, i, j, k, l, m, n⟩⟩

variable (safe : Bool) (cfg : X86Prog.Cfg) (code : List X86) (buf0 rsp0 ra : BitVec 64)

/-- `prog_run` in elementary terms (any program `p`, any mode). -/
example (limited : Bool) (budget : Nat) (H : JitHyps p limited safe cfg code buf0 rsp0 ra budget env)
    (fuel : Nat) :
    let s0 : PState w := initState cfg buf0 rsp0 ra p.minAcc p.maxAcc budget env
    match Bc.run p limited budget fuel env with
    | .done c' => ∃ n s', X86Prog.run cfg n s0 = .ret s' ∧ s'.regs.rax = 1 ∧ s'.trace = c'.st.trace ∧
        s'.env = c'.st.env ∧ (∀ o, s'.tape.get (s'.lptr + o) = c'.st.rd o) ∧ s'.budget.toNat = c'.budget
    | .stopped c' => ∃ n s', X86Prog.run cfg n s0 = .ret s' ∧ s'.regs.rax = 0 ∧ s'.trace = c'.st.trace ∧
        s'.env = c'.st.env ∧ s'.budget.toNat = c'.budget
    | .interrupted c' => ∃ n s', X86Prog.run cfg n s0 = .ret s' ∧ s'.regs.rax = 0 ∧ s'.trace = c'.st.trace ∧
        s'.env = c'.st.env ∧ (∀ o, s'.tape.get (s'.lptr + o) = c'.st.rd o)
    | .bad _ => False
    | .outOfFuel c' => ∃ n s', steps cfg n s0 = some s' ∧ s'.trace = c'.st.trace ∧ s'.env = c'.st.env :=
  jit_of_bc H fuel

/-- The program machine is deterministic: a return is stable under more fuel, hence unique. -/
example (n1 n2 : Nat) (s a b : PState w) (h1 : X86Prog.run cfg n1 s = .ret a)
    (h2 : X86Prog.run cfg n2 s = .ret b) : a = b := x86_ret_unique cfg h1 h2

/-- **Forward** (unlimited mode): canonical termination ⇒ the compiled function returns 1 (ran off the end)
resp. 0 (I/O failure) with exactly the canonical events. -/
example (H : JitHyps p false safe cfg code buf0 rsp0 ra 0 env) :
    let s0 : PState w := initState cfg buf0 rsp0 ra p.minAcc p.maxAcc 0 env
    (∀ f (s : State w), Bf.run f prog env = .done s →
      ∃ n s', X86Prog.run cfg n s0 = .ret s' ∧ s'.regs.rax = 1 ∧ s'.trace = s.trace) ∧
    (∀ f (s : State w), Bf.run f prog env = .stopped s →
      ∃ n s', X86Prog.run cfg n s0 = .ret s' ∧ s'.regs.rax = 0 ∧ s'.trace = s.trace) :=
  jit_level0_forward hw hp hb ht env H

/-- **Uniqueness**: under canonical termination every return of the function is that one. -/
example (H : JitHyps p false safe cfg code buf0 rsp0 ra 0 env) :
    let s0 : PState w := initState cfg buf0 rsp0 ra p.minAcc p.maxAcc 0 env
    (∀ f (s : State w), Bf.run f prog env = .done s →
      ∀ n s', X86Prog.run cfg n s0 = .ret s' → s'.regs.rax = 1 ∧ s'.trace = s.trace) ∧
    (∀ f (s : State w), Bf.run f prog env = .stopped s →
      ∀ n s', X86Prog.run cfg n s0 = .ret s' → s'.regs.rax = 0 ∧ s'.trace = s.trace) :=
  jit_level0_unique hw hp hb ht env H

/-- **Prefix**: every canonical event prefix is the trace of a state the machine reaches. -/
example (H : JitHyps p false safe cfg code buf0 rsp0 ra 0 env) :
    let s0 : PState w := initState cfg buf0 rsp0 ra p.minAcc p.maxAcc 0 env
    ∀ f, ∃ n s', (steps cfg n s0 = some s' ∨ X86Prog.run cfg n s0 = .ret s') ∧
      s'.trace = C01.traceOfBf (Bf.run (w := w) f prog env) := jit_level0_prefix hw hp hb ht env H

example (H : JitHyps p false safe cfg code buf0 rsp0 ra 0 env) (hdiv : C05.BfDiverges w prog env) :
    let s0 : PState w := initState cfg buf0 rsp0 ra p.minAcc p.maxAcc 0 env
    ∀ f, ∃ n s', steps cfg n s0 = some s' ∧ s'.trace = C01.traceOfBf (Bf.run (w := w) f prog env) :=
  jit_level0_divergent hw hp hb ht env H hdiv

/-- **Limited mode** (C07 for the JIT): the function returns, uniquely, with 0 or 1; 1 ⇒ the canonical run ran
off the end and the events are its complete sequence; always an initial part of the canonical sequence. -/
example (b : Nat) (H : JitHyps p true safe cfg code buf0 rsp0 ra b env) :
    let s0 : PState w := initState cfg buf0 rsp0 ra p.minAcc p.maxAcc b env
    ∃ n s', X86Prog.run cfg n s0 = .ret s' ∧
      (∀ n2 s2, X86Prog.run cfg n2 s0 = .ret s2 → s2 = s') ∧
      (s'.regs.rax = 1 ∨ s'.regs.rax = 0) ∧
      (s'.regs.rax = 1 → ∃ (f : Nat) (s : State w), Bf.run f prog env = .done s ∧ s.trace = s'.trace) ∧
      (∃ f, ∀ g, f ≤ g → s'.trace <:+ C01.traceOfBf (Bf.run (w := w) g prog env)) :=
  jit_level0_limited hw hp hb ht env H

example :
    (∀ f (s : State w), Bf.run f prog env = .done s → ∃ g, ∀ b, g ≤ b →
      JitHyps p true safe cfg code buf0 rsp0 ra b env →
      ∃ n s', X86Prog.run cfg n (initState (w := w) cfg buf0 rsp0 ra p.minAcc p.maxAcc b env) = .ret s' ∧
        s'.regs.rax = 1 ∧ s'.trace = s.trace) ∧
    (∀ f (s : State w), Bf.run f prog env = .stopped s → ∃ g, ∀ b, g ≤ b →
      JitHyps p true safe cfg code buf0 rsp0 ra b env →
      ∃ n s', X86Prog.run cfg n (initState (w := w) cfg buf0 rsp0 ra p.minAcc p.maxAcc b env) = .ret s' ∧
        s'.regs.rax = 0 ∧ s'.trace = s.trace) :=
  jit_level0_limited_enough hw hp hb ht env

end Level0

/-! ## 7. Non-vacuity: every hypothesis is satisfiable, on concrete programs (kernel evaluation) -/

/-- `,[.,]` -/
def exCat : List Kind := [.inp, .open, .out, .inp, .close]
/-- `++[>+++<-]>.` (prints 6) -/
def exMul : List Kind := [.inc, .inc, .open, .right, .inc, .inc, .inc, .left, .dec, .close, .right, .out]

def exBlk (src : List Kind) : Ir.Block 8 :=
  match Ir.parse (w := 8) src with
  | .ok b => b
  | .error _ => ⟨0, []⟩

/-- `translate` with 4 registers. -/
def exProg (src : List Kind) (fuse : Bool) : Bc.Program 8 := translate (exBlk src) 4 fuse

def exEnvAB : Env := { input := some [.byte 65, .byte 66, .eof], sink := true, outOk := none }
def exEnvRefuse : Env := { input := some [.byte 65, .byte 66, .eof], sink := true, outOk := some 1 }

set_option maxRecDepth 100000

theorem exCat_tree : Bf.tree exCat = some (.cmd .inp (.loop (.cmd .out (.cmd .inp .nil)) .nil)) := by decide

theorem ex_parse (src : List Kind) (h : (Ir.parse (w := 8) src).toOption.isSome = true) :
    Ir.parse (w := 8) src = .ok (exBlk src) := by
  unfold exBlk
  cases hr : Ir.parse (w := 8) src with
  | error e => rw [hr] at h; cases h
  | ok b => rfl

theorem ex_translate (src : List Kind) (fuse : Bool)
    (h : (translateE (exBlk src) 4 fuse).toOption.isSome = true) :
    translateE (exBlk src) 4 fuse = .ok (exProg src fuse) := by
  unfold exProg translate
  cases hr : translateE (exBlk src) 4 fuse with
  | error e => rw [hr] at h; cases h
  | ok b => rfl

theorem exCat_parse : Ir.parse (w := 8) exCat = .ok (exBlk exCat) := ex_parse _ (by decide +kernel)
theorem exCat_translate (fuse : Bool) : translateE (exBlk exCat) 4 fuse = .ok (exProg exCat fuse) := by
  cases fuse
  · exact ex_translate _ _ (by decide +kernel)
  · exact ex_translate _ _ (by decide +kernel)
theorem exMul_parse : Ir.parse (w := 8) exMul = .ok (exBlk exMul) := ex_parse _ (by decide +kernel)
theorem exMul_translate (fuse : Bool) : translateE (exBlk exMul) 4 fuse = .ok (exProg exMul fuse) := by
  cases fuse
  · exact ex_translate _ _ (by decide +kernel)
  · exact ex_translate _ _ (by decide +kernel)

/-- The translated programs. -/
example : (exProg exCat false).insts = #[.inp 0, .brz 0 4, .out 0, .inp 0, .brnz 0 (-2)] := by decide +kernel
example : NoOnce (exBlk exCat) ∧ NoOnce (exBlk exMul) := ⟨parse_noOnce exCat_parse, parse_noOnce exMul_parse⟩
example : BcWf.check (exProg exCat false) 11 = true ∧ BcWf.check (exProg exMul false) 11 = true ∧
    BcWf.check (exProg exMul true) 11 = true := by decide +kernel

/-- "Both runs finish within `fuel` steps with the same kind of ending and the same events." -/
def agreesBc (src : List Kind) (fuse : Bool) (env : Env) (fuel : Nat) : Bool :=
  match Bf.tree src with
  | some prog =>
    match Bf.run (w := 8) fuel prog env, Bc.run (exProg src fuse) false 0 fuel env with
    | .done s, .done c => decide (s.trace = c.st.trace)
    | .stopped s, .stopped c => decide (s.trace = c.st.trace)
    | _, _ => false
  | none => false

example : agreesBc exCat false exEnvAB 60 = true := by decide +kernel
example : agreesBc exCat true exEnvRefuse 60 = true := by decide +kernel
example : agreesBc exMul false exEnvAB 60 = true := by decide +kernel
example : agreesBc exMul true exEnvAB 60 = true := by decide +kernel
example : C07.traceOfBc (Bc.run (exProg exCat false) false 0 60 exEnvAB) =
    [Ev.inp 0, Ev.out 66, Ev.inp 66, Ev.out 65, Ev.inp 65] := by decide +kernel
example : C07.traceOfBc (Bc.run (exProg exCat false) false 0 60 exEnvRefuse) =
    [Ev.outFail 66, Ev.inp 66, Ev.out 65, Ev.inp 65] := by decide +kernel
example : C07.traceOfBc (Bc.run (exProg exMul true) false 0 60 exEnvAB) = [Ev.out 6] := by decide +kernel

/-- The canonical run of `,[.,]` on input `AB`: five events, then it runs off the end. -/
def exCatDone (o : Bf.Outcome 8) : Bool :=
  match o with
  | .done s => decide (s.trace = [Ev.inp 0, Ev.out 66, Ev.inp 66, Ev.out 65, Ev.inp 65])
  | _ => false

theorem exCat_no_mov (i : Nat) (sh : Int) : (exProg exCat false).insts[i]? ≠ some (Bc.Instr.mov sh) := by
  have e : (exProg exCat false).insts = #[.inp 0, .brz 0 4, .out 0, .inp 0, .brnz 0 (-2)] := by decide +kernel
  rw [e]
  intro h
  rcases i with _|_|_|_|_|i <;> simp at h

/-- All hypotheses of §6 hold for `,[.,]` (unlimited mode, code generation without bounds checks so that the
`NoOOM` hypothesis is void), hence by `jit_level0_forward` the compiled function returns 1 after finitely many
machine steps with exactly the canonical events. -/
example : ∃ code, compileX86 8 (exProg exCat false) false false 0x7f0000001000 0x7f0000002000 0x7f0000003000
      = some code ∧
    JitHyps (exProg exCat false) false false (exCfg code) code 0x560000000000 0x7ffd00000ff8 0x555500001234 0
      exEnvAB ∧
    ∃ n, ∃ s' : PState 8, X86Prog.run (exCfg code) n
        (initState (exCfg code) 0x560000000000 0x7ffd00000ff8 0x555500001234
          (exProg exCat false).minAcc (exProg exCat false).maxAcc 0 exEnvAB) = .ret s' ∧
      s'.regs.rax = 1 ∧ s'.trace = [Ev.inp 0, Ev.out 66, Ev.inp 66, Ev.out 65, Ev.inp 65] := by
  cases hc : compileX86 8 (exProg exCat false) false false 0x7f0000001000 0x7f0000002000 0x7f0000003000 with
  | none =>
    have : (compileX86 8 (exProg exCat false) false false 0x7f0000001000 0x7f0000002000
        0x7f0000003000).isSome = true := by decide +kernel
    rw [hc] at this; cases this
  | some code =>
    have hsmall : sizeAll code < 2 ^ 31 := by
      have : ((compileX86 8 (exProg exCat false) false false 0x7f0000001000 0x7f0000002000
          0x7f0000003000).all (fun c => decide (sizeAll c < 2 ^ 31))) = true := by decide +kernel
      rw [hc] at this; simpa using this
    have H : JitHyps (exProg exCat false) false false (exCfg code) code 0x560000000000 0x7ffd00000ff8
        0x555500001234 0 exEnvAB :=
      { comp := hc, fetch := rfl, small := hsmall,
        addrIO := by show (0x7f0000002000 : BitVec 64) ≠ 0x7f0000003000; decide,
        addrEI := by show (0x7f0000001000 : BitVec 64) ≠ 0x7f0000002000; decide,
        addrEO := by show (0x7f0000001000 : BitVec 64) ≠ 0x7f0000003000; decide,
        check := by decide +kernel, win := by decide +kernel, temps := by decide +kernel,
        shift := fun i sh h => absurd h (exCat_no_mov i sh),
        rsp := by decide, budgetLt := by decide, lim := rfl, noOOM := fun h => by cases h }
    refine ⟨code, rfl, H, ?_⟩
    have hcan : exCatDone (Bf.run (w := 8) 60 (.cmd .inp (.loop (.cmd .out (.cmd .inp .nil)) .nil)) exEnvAB)
        = true := by decide +kernel
    cases hr : Bf.run (w := 8) 60 (.cmd .inp (.loop (.cmd .out (.cmd .inp .nil)) .nil)) exEnvAB with
    | done s =>
      rw [hr] at hcan
      simp only [exCatDone, decide_eq_true_eq] at hcan
      obtain ⟨n, s', h1, h2, h3⟩ :=
        (jit_level0_forward (by decide) exCat_tree exCat_parse (exCat_translate false) exEnvAB H).1 60 s hr
      exact ⟨n, s', h1, h2, h3.trans hcan⟩
    | stopped s => rw [hr] at hcan; cases hcan
    | outOfFuel c => rw [hr] at hcan; cases hcan

end Chain
end Hpbf

#print axioms Hpbf.Chain.emit_targetsOk
#print axioms Hpbf.Chain.emit_brnz_target
#print axioms Hpbf.Chain.emit_brz_target
#print axioms Hpbf.Chain.emit_live0
#print axioms Hpbf.Chain.translateE_phases
#print axioms Hpbf.Chain.translateE_ok_of_alloc
#print axioms Hpbf.Chain.passes_behEqIO
#print axioms Hpbf.Chain.translate_behEqIO
#print axioms Hpbf.Chain.translate_shape
#print axioms Hpbf.Chain.translate_forward
#print axioms Hpbf.Chain.translate_backward
#print axioms Hpbf.Chain.translate_prefix
#print axioms Hpbf.Chain.translate_refines
#print axioms Hpbf.Chain.translate_refines_noOnce
#print axioms Hpbf.Chain.translate_never_interrupted
#print axioms Hpbf.Chain.translate_not_bad_of_terminates
#print axioms Hpbf.Chain.parse_noOnce
#print axioms Hpbf.Chain.parse_onceOk
#print axioms Hpbf.Chain.bytecode_level0_forward
#print axioms Hpbf.Chain.bytecode_level0_backward
#print axioms Hpbf.Chain.bytecode_level0_prefix
#print axioms Hpbf.Chain.bytecode_level0
#print axioms Hpbf.Chain.bytecode_level0_debug
#print axioms Hpbf.Chain.bytecode_level0_proper
#print axioms Hpbf.Chain.bc_never_returns
#print axioms Hpbf.Chain.bc_runs_forever
#print axioms Hpbf.Chain.bc_runs_forever_or_bad
#print axioms Hpbf.Chain.bc_limited_interrupted
#print axioms Hpbf.Chain.bc_terminates
#print axioms Hpbf.Chain.bc_divergent_output
#print axioms Hpbf.Chain.bc_limited_finished
#print axioms Hpbf.Chain.bc_limited_prefix
#print axioms Hpbf.Chain.bc_limited_is_prefix
#print axioms Hpbf.Chain.bc_limited_enough
#print axioms Hpbf.Chain.bc_stops_like_canonical
#print axioms Hpbf.Chain.bc_limited_stops_like_canonical
#print axioms Hpbf.Chain.bc_stops_only_like_canonical
#print axioms Hpbf.Chain.bc_refused_byte
#print axioms Hpbf.Chain.x86_ret_unique
#print axioms Hpbf.Chain.jit_of_bc
#print axioms Hpbf.Chain.jit_level0_forward
#print axioms Hpbf.Chain.jit_level0_unique
#print axioms Hpbf.Chain.jit_level0_prefix
#print axioms Hpbf.Chain.jit_level0_divergent
#print axioms Hpbf.Chain.jit_level0_limited
#print axioms Hpbf.Chain.jit_level0_limited_enough
#print axioms Hpbf.Chain.exCat_parse
#print axioms Hpbf.Chain.exCat_translate
