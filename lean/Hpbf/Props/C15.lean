/-
C15. "For all expressions built through the public expression API and every assignment of cell
values, the value of a sum, product, negation, halving, normalisation or substitution result equals the
corresponding arithmetic on the operand values modulo 2^width, and each structural decomposition
(increment-of, multiple-of, product-of, constant part) recomposes to the original value."

Property theorems only; all lemmas are in `Hpbf/Proofs/C15*.lean`. The model is `Hpbf/Expr.lean`
(`impl Expr<C>` in `src/ir.rs`, after the repair of the one-term fast paths of `mul` and of `prod_of`).
An expression is a list of parts `coef * x_{v1} * x_{v2} …`; `evaluate e f : BitVec w` is its value under
the assignment `f : Int → BitVec w`, so all equations are modulo `2^w`. Everything is for arbitrary `w`
(including `w = 0`).

* Section A holds for ALL part lists (no invariant).
* Section B: `constant identity constIncOf prodOf` hold for all part lists; `incOf prodIncOf
  constantPart` need `WeakCanon` (constant part only at index 0, at most one part `[v]` per `v`), which
  follows from the normal form `Canon` (each `vars` ascending, parts strictly increasing by `cmpVars`).
* Section C: every expression-returning API function preserves `Canon`; hence `Built e → Canon e`.
* Section E: the ORIGINAL `mul`/`prod_of` (before the repair) broke the normal form and led to wrong
  decompositions (concrete witness at w = 8).
-/
import Hpbf.Proofs.C15

namespace Hpbf
namespace C15
open Expr

variable {w : Nat}

/-! ### A. Value of the operations (all part lists) -/

theorem value_val (c : BitVec w) (f : Int → BitVec w) : evaluate (val c) f = c :=
  eval_val c f

theorem value_var (v : Int) (f : Int → BitVec w) : evaluate (var v : Expr w) f = f v :=
  eval_var v f

theorem value_add (a b : Expr w) (f : Int → BitVec w) :
    evaluate (add a b) f = evaluate a f + evaluate b f :=
  eval_add a b f

/-- All five code paths of `mul` (empty operands, the two one-term fast paths, hash-accumulate). -/
theorem value_mul (a b : Expr w) (f : Int → BitVec w) :
    evaluate (mul a b) f = evaluate a f * evaluate b f :=
  eval_mul a b f

theorem value_neg (a : Expr w) (f : Int → BitVec w) : evaluate (neg a) f = - evaluate a f :=
  eval_neg a f

theorem value_half (a h : Expr w) (f : Int → BitVec w) (hh : half a = some h) :
    evaluate a f = evaluate h f + evaluate h f :=
  eval_half a h f hh

theorem value_normalize (e : Expr w) (f : Int → BitVec w) :
    evaluate (normalize e) f = evaluate e f :=
  eval_normalize e f

/-- Substitution lemma. A `some` result already implies that every variable of `e` is defined by `g`
(`symbEvaluate_defined`), so no side condition is needed; undefined variables are read as 0. -/
theorem value_symbEvaluate (e e' : Expr w) (g : Int → Option (Expr w)) (f : Int → BitVec w)
    (h : symbEvaluate e g = some e') :
    evaluate e' f = evaluate e (fun v => match g v with
      | some ev => evaluate ev f
      | none => 0#w) :=
  eval_symbEvaluate e e' g f h

/-- `symbEvaluate` is defined exactly when `g` defines every variable of `e` (the identity and
constant shortcuts included). -/
theorem symbEvaluate_defined (e : Expr w) (g : Int → Option (Expr w)) :
    (symbEvaluate e g).isSome ↔ ∀ v ∈ variables e, (g v).isSome :=
  symbEvaluate_isSome e g

theorem symbEvaluate_none_iff (e : Expr w) (g : Int → Option (Expr w)) :
    symbEvaluate e g = none ↔ ∃ v ∈ variables e, g v = none :=
  symbEvaluate_eq_none e g

/-- The internal `mul_parts`. -/
theorem value_mulParts (l r : Expr w) (f : Int → BitVec w) :
    evaluate (mulParts l r) f = evaluate l f * evaluate r f :=
  eval_mulParts l r f

/-! ### B. Decompositions -/

theorem constant_recompose (e : Expr w) (c : BitVec w) (f : Int → BitVec w)
    (h : constant e = some c) : evaluate e f = c :=
  eval_constant e c f h

theorem identity_recompose (e : Expr w) (v : Int) (f : Int → BitVec w)
    (h : identity e = some v) : evaluate e f = f v :=
  eval_identity e v f h

theorem constIncOf_recompose (e : Expr w) (v : Int) (c : BitVec w) (f : Int → BitVec w)
    (h : constIncOf e v = some c) : evaluate e f = c + f v :=
  eval_constIncOf e v c f h

theorem prodOf_recompose (e r : Expr w) (v : Int) (f : Int → BitVec w)
    (h : prodOf e v = some r) : evaluate e f = f v * evaluate r f :=
  eval_prodOf e r v f h

theorem incOf_recompose (e r : Expr w) (v : Int) (f : Int → BitVec w)
    (hc : WeakCanon e) (h : incOf e v = some r) : evaluate e f = f v + evaluate r f :=
  eval_incOf e r v f hc h

theorem prodIncOf_recompose (e r : Expr w) (v : Int) (m : BitVec w) (f : Int → BitVec w)
    (hc : WeakCanon e) (h : prodIncOf e v = some (r, m)) :
    evaluate e f = m * f v + evaluate r f :=
  eval_prodIncOf e r v m f hc h

theorem constantPart_recompose (e : Expr w) (hc : WeakCanon e) :
    constantPart e = evaluate e (fun _ => 0#w) :=
  eval_constantPart e hc

/-- Non-occurrence side conditions (no invariant needed). -/
theorem incOf_fresh (e r : Expr w) (v : Int) (h : incOf e v = some r) : v ∉ variables r :=
  incOf_not_mem e r v h

theorem prodIncOf_fresh (e r : Expr w) (v : Int) (m : BitVec w)
    (h : prodIncOf e v = some (r, m)) : v ∉ variables r :=
  prodIncOf_not_mem e r v m h

/-! ### C. The normal form and its preservation -/

theorem canon_implies_weakCanon {e : Expr w} (h : Canon e) : WeakCanon e := h.weak

theorem preserve_val (c : BitVec w) : Canon (val c) := canon_val c
theorem preserve_var (v : Int) : Canon (var v : Expr w) := canon_var v
theorem preserve_add {a b : Expr w} (ha : Canon a) (hb : Canon b) : Canon (add a b) := canon_add ha hb
theorem preserve_mul {a b : Expr w} (ha : Canon a) (hb : Canon b) : Canon (mul a b) := canon_mul ha hb
theorem preserve_neg {a : Expr w} (h : Canon a) : Canon (neg a) := canon_neg h
theorem preserve_half {a r : Expr w} (h : Canon a) (hh : half a = some r) : Canon r := canon_half h hh
theorem preserve_normalize {e : Expr w} (h : Canon e) : Canon (normalize e) := canon_normalize h
theorem preserve_symbEvaluate {e r : Expr w} (g : Int → Option (Expr w))
    (hg : ∀ v e', g v = some e' → Canon e') (h : symbEvaluate e g = some r) : Canon r :=
  canon_symbEvaluate g hg h
theorem preserve_prodOf {e r : Expr w} {v : Int} (h : Canon e) (hp : prodOf e v = some r) : Canon r :=
  canon_prodOf h hp
theorem preserve_incOf {e r : Expr w} {v : Int} (h : Canon e) (hi : incOf e v = some r) : Canon r :=
  canon_incOf h hi
theorem preserve_prodIncOf {e r : Expr w} {v : Int} {m : BitVec w} (h : Canon e)
    (hi : prodIncOf e v = some (r, m)) : Canon r :=
  canon_prodIncOf h hi

/-- Every expression built through the public API is in normal form. -/
theorem built_canon {e : Expr w} (h : Built e) : Canon e := h.canon

/-! ### The property -/

/-- C15, arithmetic half: for all part lists and all assignments. -/
theorem C15_arithmetic (a b : Expr w) (f : Int → BitVec w) :
    (∀ c : BitVec w, evaluate (val c) f = c) ∧
    (∀ v : Int, evaluate (var v : Expr w) f = f v) ∧
    evaluate (add a b) f = evaluate a f + evaluate b f ∧
    evaluate (mul a b) f = evaluate a f * evaluate b f ∧
    evaluate (neg a) f = - evaluate a f ∧
    (∀ h, half a = some h → evaluate a f = evaluate h f + evaluate h f) ∧
    evaluate (normalize a) f = evaluate a f ∧
    (∀ g r, symbEvaluate a g = some r →
      evaluate r f = evaluate a (fun v => match g v with
        | some ev => evaluate ev f
        | none => 0#w)) :=
  ⟨fun c => eval_val c f, fun v => eval_var v f, eval_add a b f, eval_mul a b f, eval_neg a f,
    fun h hh => eval_half a h f hh, eval_normalize a f, fun g r h => eval_symbEvaluate a r g f h⟩

/-- C15, decomposition half: for every API-built expression, every assignment and every variable. -/
theorem C15_decompositions {e : Expr w} (hb : Built e) (f : Int → BitVec w) (v : Int) :
    (∀ c, constant e = some c → evaluate e f = c) ∧
    (identity e = some v → evaluate e f = f v) ∧
    (∀ c, constIncOf e v = some c → evaluate e f = c + f v) ∧
    (∀ r, prodOf e v = some r → evaluate e f = f v * evaluate r f) ∧
    (∀ r, incOf e v = some r → evaluate e f = f v + evaluate r f ∧ v ∉ variables r) ∧
    (∀ r m, prodIncOf e v = some (r, m) → evaluate e f = m * f v + evaluate r f ∧ v ∉ variables r) ∧
    constantPart e = evaluate e (fun _ => 0#w) := by
  have hc : WeakCanon e := hb.canon.weak
  exact ⟨fun c h => eval_constant e c f h, fun h => eval_identity e v f h,
    fun c h => eval_constIncOf e v c f h, fun r h => eval_prodOf e r v f h,
    fun r h => ⟨eval_incOf e r v f hc h, incOf_not_mem e r v h⟩,
    fun r m h => ⟨eval_prodIncOf e r v m f hc h, prodIncOf_not_mem e r v m h⟩,
    eval_constantPart e hc⟩

/-! ### E. The original code (before the repair) -/

/-- With the original one-term fast path of `mul` (`mulOrig`, variables appended unsorted, parts not
re-sorted) and the original `prod_of` (`prodOfOrig`, not re-sorted): `x7*(1+x5)` is out of order,
`x7*(1+x5) + x7*x5` has two parts with equal variables, its quotient by `x7` is
`[1*[5], 1*[], 1*[5]]` (value `2*x5 + 1`), and `constantPart`, `incOf`, `prodIncOf` of that quotient
recompose to wrong values (0 instead of 1; `x5 + 1` instead of `2*x5 + 1`). -/
theorem mul_original_breaks_normal_form :
    let e : Expr 8 := add (mulOrig (var 7) (add (val 1#8) (var 5))) (mulOrig (var 7) (var 5))
    let one : Int → BitVec 8 := fun _ => 1#8
    ¬ Canon (mulOrig (var 7 : Expr 8) (add (val 1#8) (var 5))) ∧
    ¬ (e.map (·.vars)).Nodup ∧
    ∃ q, prodOfOrig e 7 = some q ∧
      constantPart q ≠ evaluate q (fun _ => 0#8) ∧
      (∃ r, incOf q 5 = some r ∧ evaluate q one ≠ one 5 + evaluate r one) ∧
      (∃ r m, prodIncOf q 5 = some (r, m) ∧ evaluate q one ≠ m * one 5 + evaluate r one) :=
  ⟨orig_fastPath_not_canon, orig_add_duplicates, origQuot, origWitness_prodOf,
    orig_witness_constantPart, orig_witness_incOf, orig_witness_prodIncOf⟩

/-- The values of the original operations were nevertheless right. -/
theorem value_mulOrig (a b : Expr w) (f : Int → BitVec w) :
    evaluate (mulOrig a b) f = evaluate a f * evaluate b f :=
  eval_mulOrig a b f

/-- Without `prod_of`, the original constructors kept an invariant (`SCanon`) strong enough for the
decompositions, so the defect was not reachable through `val var add mul neg half normalize
symb_evaluate` alone. -/
theorem original_constructors_keep_SCanon :
    (∀ c : BitVec w, SCanon (val c)) ∧ (∀ v : Int, SCanon (var v : Expr w)) ∧
    (∀ a b : Expr w, SCanon a → SCanon b → SCanon (add a b)) ∧
    (∀ a b : Expr w, SCanon a → SCanon b → SCanon (mulOrig a b)) ∧
    (∀ a : Expr w, SCanon a → SCanon (neg a)) ∧
    (∀ a r : Expr w, SCanon a → half a = some r → SCanon r) ∧
    (∀ a : Expr w, SCanon a → SCanon (normalize a)) ∧
    (∀ (e r : Expr w) (g : Int → Option (Expr w)), (∀ v e', g v = some e' → SCanon e') →
      symbEvaluate e g = some r → SCanon r) ∧
    (∀ e : Expr w, SCanon e → WeakCanon e) :=
  ⟨scanon_val, scanon_var, fun _ _ => scanon_add, fun _ _ => scanon_mulOrig, fun _ => scanon_neg,
    fun _ _ => scanon_half, fun _ => scanon_normalize, fun _ _ g hg h => scanon_symbEvaluate g hg h,
    fun _ h => h.weak⟩

/-! ### D. Non-vacuity (w = 8) -/

section Examples

/-- `1 + x3`. -/
private def e13 : Expr 8 := [⟨1#8, []⟩, ⟨1#8, [3]⟩]
/-- `5 + 3*x3 + x4`. -/
private def e534 : Expr 8 := [⟨5#8, []⟩, ⟨3#8, [3]⟩, ⟨1#8, [4]⟩]
private def g8 : Int → Option (Expr 8) := fun v =>
  if v = 3 then some [⟨1#8, []⟩, ⟨1#8, [5]⟩] else if v = 4 then some [⟨1#8, [5]⟩] else none

-- A: operations on concrete operands
example : mul e13 [⟨2#8, []⟩, ⟨1#8, [3]⟩] = [⟨2#8, []⟩, ⟨3#8, [3]⟩, ⟨1#8, [3, 3]⟩] := by decide
example : mul (var 7 : Expr 8) e13 = [⟨1#8, [3, 7]⟩, ⟨1#8, [7]⟩] := by decide
example : half ([⟨2#8, [3]⟩, ⟨254#8, []⟩] : Expr 8) = some [⟨1#8, [3]⟩, ⟨127#8, []⟩] := by decide
example : half e13 = none := by decide
example : symbEvaluate ([⟨2#8, [3]⟩, ⟨1#8, [3, 4]⟩] : Expr 8) g8
    = some [⟨2#8, []⟩, ⟨3#8, [5]⟩, ⟨1#8, [5, 5]⟩] := by decide
example : symbEvaluate ([⟨2#8, [3]⟩, ⟨1#8, [3, 6]⟩] : Expr 8) g8 = none := by decide
-- `128*x + 129*x*x` normalises to `x*x` (phase 2), `128*x*x + x` to `129*x` (phase 1);
-- `dedupVars`/`mergeChunks` are defined by well-founded recursion, hence kernel evaluation
example : normalize ([⟨128#8, [3]⟩, ⟨129#8, [3, 3]⟩] : Expr 8) = [⟨1#8, [3, 3]⟩] := by decide +kernel
example : normalize ([⟨128#8, [3, 3]⟩, ⟨1#8, [3]⟩] : Expr 8) = [⟨129#8, [3]⟩] := by decide +kernel

-- B: each decomposition fires on an expression in normal form
example : Canon e13 ∧ Canon e534 ∧ WeakCanon e534 := by decide
example : constant ([⟨9#8, []⟩] : Expr 8) = some 9#8 := by decide
example : identity ([⟨1#8, [3]⟩] : Expr 8) = some 3 := by decide
example : constIncOf e13 3 = some 1#8 := by decide
example : prodOf ([⟨2#8, [3]⟩, ⟨1#8, [3, 4]⟩] : Expr 8) 3 = some [⟨2#8, []⟩, ⟨1#8, [4]⟩] := by decide
example : incOf e534 4 = some [⟨5#8, []⟩, ⟨3#8, [3]⟩] := by decide
example : prodIncOf e534 3 = some ([⟨5#8, []⟩, ⟨1#8, [4]⟩], 3#8) := by decide
example : constantPart e534 = 5#8 := by decide
-- C: a built expression
example : Built (mul (var 7 : Expr 8) (add (val 1#8) (var 5))) :=
  .mul (.var 7) (.add (.val 1#8) (.var 5))

end Examples

end C15
end Hpbf

#print axioms Hpbf.C15.value_val
#print axioms Hpbf.C15.value_var
#print axioms Hpbf.C15.value_add
#print axioms Hpbf.C15.value_mul
#print axioms Hpbf.C15.value_neg
#print axioms Hpbf.C15.value_half
#print axioms Hpbf.C15.value_normalize
#print axioms Hpbf.C15.value_symbEvaluate
#print axioms Hpbf.C15.symbEvaluate_defined
#print axioms Hpbf.C15.symbEvaluate_none_iff
#print axioms Hpbf.C15.value_mulParts
#print axioms Hpbf.C15.constant_recompose
#print axioms Hpbf.C15.identity_recompose
#print axioms Hpbf.C15.constIncOf_recompose
#print axioms Hpbf.C15.prodOf_recompose
#print axioms Hpbf.C15.incOf_recompose
#print axioms Hpbf.C15.prodIncOf_recompose
#print axioms Hpbf.C15.constantPart_recompose
#print axioms Hpbf.C15.incOf_fresh
#print axioms Hpbf.C15.prodIncOf_fresh
#print axioms Hpbf.C15.canon_implies_weakCanon
#print axioms Hpbf.C15.preserve_add
#print axioms Hpbf.C15.preserve_mul
#print axioms Hpbf.C15.preserve_normalize
#print axioms Hpbf.C15.preserve_symbEvaluate
#print axioms Hpbf.C15.preserve_prodOf
#print axioms Hpbf.C15.built_canon
#print axioms Hpbf.C15.C15_arithmetic
#print axioms Hpbf.C15.C15_decompositions
#print axioms Hpbf.C15.mul_original_breaks_normal_form
#print axioms Hpbf.C15.value_mulOrig
#print axioms Hpbf.C15.original_constructors_keep_SCanon
