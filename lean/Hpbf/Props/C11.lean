/-
Property C11.  "For every valid program, width, level and generator setting, the bytecode program is
self-consistent: every branch lands on an instruction boundary inside the program, every tape operand
lies inside the declared access window (which contains 0), every temporary index is below the declared
count, no temporary is read before it is written on any path, and every register temporary whose value
is still needed after a non-branch instruction (the ones that may call the runtime or reuse an operand
register) is declared live across it."

The contract is decided per bytecode program by the executable checker `BcWf.check p numRegs`
(`Hpbf/BcWf.lean`; run on the output of the real generator by the `bcwf` suite).  This file proves the
checker SOUND with respect to the execution semantics `Bc.step` / `Bc.runCfg` / `Bc.run`
(`Hpbf/Bc.lean`, validated against the threaded interpreter): `check p numRegs = true` implies the
contract on EVERY execution path, for every initial temporaries (the JIT starts with garbage
registers), budget, state/environment, fuel and mode (`limited`).

Vocabulary (defined in `Hpbf/Proofs/C11.lean`, `C11Step.lean`):
* `Reach p limited c`   – `c` is reachable by `Bc.step p limited` (`.next`) from some
                          `{pc := 0, temps := t0, budget := b, st := s}` (all four arbitrary).
* `Wr p limited c W`    – the same, instrumented with the list `W` of temporaries written so far.
* `Bc.touched ins`      – `= BcWf.memOps ins`, the tape offsets of the instruction.
* `StepRes.cfg/.tag`, `Outcome.cfg/.tag` – configuration carried by a result and its constructor.
* `ObsEq o1 o2`         – same outcome constructor, same final pc, `st` (tape, ptr, env, trace), budget.
* `Sim A c1 c2`         – equal pc/st/budget, temporaries agree on the set `A`.
* `liveSet p O pc`      – `liveIn (p.insts[pc]) (O[pc])`, empty at the exit.
* `TapeSim X c1 c2`     – equal pc/temps/budget/ptr/env/trace, tapes agree on the address set `X`.
The theorems are proved for ARBITRARY solution arrays accepted by `initOk` / `liveOk`
(`*_of_initOk`, `*_of_liveOk`) and then instantiated with the computed ones tested by `check`.
-/
import Hpbf.Proofs.C11
import Hpbf.Proofs.C11Tape

namespace Hpbf
namespace C11

open Bc BcWf

variable {w : Nat} {p : Program w} {numRegs : Nat} {limited : Bool}

/-! The observation vocabulary is transparent: -/
example (o1 o2 : Outcome w) : ObsEq o1 o2 ↔
    (o1.tag = o2.tag ∧ o1.cfg.pc = o2.cfg.pc ∧ o1.cfg.st = o2.cfg.st ∧ o1.cfg.budget = o2.cfg.budget) :=
  Iff.rfl
example (c : Cfg w) : (Outcome.done c).tag = 0 ∧ (Outcome.stopped c).tag = 1 ∧
    (Outcome.interrupted c).tag = 2 ∧ (Outcome.bad c).tag = 3 ∧ (Outcome.outOfFuel c).tag = 4 :=
  ⟨rfl, rfl, rfl, rfl, rfl⟩
example (c : Cfg w) : (Outcome.done c).cfg = c ∧ (Outcome.stopped c).cfg = c ∧
    (Outcome.interrupted c).cfg = c ∧ (Outcome.bad c).cfg = c ∧ (Outcome.outOfFuel c).cfg = c :=
  ⟨rfl, rfl, rfl, rfl, rfl⟩
example (c : Cfg w) : (StepRes.next c).tag = 0 ∧ (StepRes.halt c).tag = 1 ∧ (StepRes.stop c).tag = 2 ∧
    (StepRes.interrupted c).tag = 3 ∧ (StepRes.bad c).tag = 4 := ⟨rfl, rfl, rfl, rfl, rfl⟩
example (c : Cfg w) : (StepRes.next c).cfg = c ∧ (StepRes.halt c).cfg = c ∧ (StepRes.stop c).cfg = c ∧
    (StepRes.interrupted c).cfg = c ∧ (StepRes.bad c).cfg = c := ⟨rfl, rfl, rfl, rfl, rfl⟩
example (ins : Instr w) : Bc.touched ins = memOps ins := rfl
example (A : Nat → Prop) (c1 c2 : Cfg w) : Sim A c1 c2 ↔
    (c1.pc = c2.pc ∧ c1.st = c2.st ∧ c1.budget = c2.budget ∧
      ∀ t, A t → tget c1.temps t = tget c2.temps t) :=
  ⟨fun h => ⟨h.pc, h.st, h.budget, h.temps⟩, fun ⟨a, b, c, d⟩ => ⟨a, b, c, d⟩⟩
example (O : Array (List Nat)) (i t : Nat) : liveSet p O i t ↔
    ∃ ins, p.insts[i]? = some ins ∧ t ∈ liveIn ins (BcWf.getD O i) := Iff.rfl
/-- Reachability and the instrumented run describe the same configurations. -/
theorem reach_iff_wr {c : Cfg w} : Reach p limited c ↔ ∃ W, Wr p limited c W :=
  ⟨Reach.wr, fun ⟨_, h⟩ => h.reach⟩

/-- What `check` establishes: the three groups of facts the soundness proofs use. -/
theorem check_facts (h : check p numRegs = true) :
    LocalFacts p ∧ InitFacts p (initSolve p) ∧ LiveFacts p numRegs (liveSolve p) := by
  simp only [check, Bool.and_eq_true] at h
  exact ⟨localOk_facts h.1.1, initOk_facts h.1.2, liveOk_facts h.2⟩

/-! ### 1. Branches land inside the program; nothing malformed is ever executed -/

/-- Static form: the target of every branch is an instruction index or the exit. -/
theorem check_branch_target (h : check p numRegs = true) {i : Nat} {cond off : Int}
    (hi : p.insts[i]? = some (.brz cond off) ∨ p.insts[i]? = some (.brnz cond off)) :
    0 ≤ (i : Int) + off ∧ (i : Int) + off ≤ p.insts.size := by
  have L := (check_facts h).1
  have key : (branchTarget i off p.insts.size).isSome = true := by
    rcases hi with hi | hi
    · simpa [succs] using L.succ hi
    · simpa [succs] using L.succ hi
  simp only [branchTarget] at key
  split at key
  · assumption
  · cases key

theorem check_pc_le (h : check p numRegs = true) {c : Cfg w} (hr : Reach p limited c) :
    c.pc ≤ p.insts.size :=
  reach_pc_le (check_facts h).1 hr

theorem check_no_bad (h : check p numRegs = true) {c : Cfg w} (hr : Reach p limited c) :
    ∀ c', Bc.step p limited c ≠ .bad c' :=
  reach_no_bad (check_facts h).1 hr

theorem check_runCfg_not_bad (h : check p numRegs = true) {c : Cfg w} (hr : Reach p limited c)
    (fuel : Nat) : ∀ c', Bc.runCfg p limited fuel c ≠ .bad c' :=
  runCfg_not_bad (check_facts h).1 fuel hr

theorem check_run_not_bad (h : check p numRegs = true) (limited : Bool) (b fuel : Nat) (env : Env) :
    ∀ c', Bc.run p limited b fuel env ≠ .bad c' :=
  run_not_bad (check_facts h).1 limited b fuel env

/-! ### 2. Tape operands lie in the declared window; a step touches nothing else -/

theorem check_window (h : check p numRegs = true) {i : Nat} {ins : Instr w} {o : Int}
    (hi : p.insts[i]? = some ins) (ho : o ∈ memOps ins) : p.minAcc ≤ o ∧ o ≤ p.maxAcc :=
  (check_facts h).1.window hi o ho

theorem check_window_zero (h : check p numRegs = true) : p.minAcc ≤ 0 ∧ 0 ≤ p.maxAcc :=
  ⟨(check_facts h).1.min0, (check_facts h).1.max0⟩

/-- Frame lemma (holds for every program): a step changes no tape cell other than `ptr + o` with
`o ∈ touched ins`, whatever its result (`.next`, `.stop`, …); `mov`/`scan` move the pointer only. -/
theorem step_frame_any {c : Cfg w} {ins : Instr w} (hi : p.insts[c.pc]? = some ins) {x : Int}
    (hx : ∀ o ∈ Bc.touched ins, x ≠ c.st.ptr + o) :
    (Bc.step p limited c).cfg.st.tape.get x = c.st.tape.get x :=
  step_frame hi hx

theorem step_frame_next {c c' : Cfg w} {ins : Instr w} (hi : p.insts[c.pc]? = some ins)
    (hs : Bc.step p limited c = .next c') :
    ∀ x, (∀ o ∈ memOps ins, x ≠ c.st.ptr + o) → c'.st.tape.get x = c.st.tape.get x := by
  intro x hx
  have := step_frame (limited := limited) hi hx
  rw [hs] at this
  exact this

/-- Past the end of the program nothing changes at all. -/
theorem step_frame_exit {c : Cfg w} (hi : p.insts[c.pc]? = none) : (Bc.step p limited c).cfg = c :=
  step_frame_none hi

/-- The pointer is moved by `mov`/`scan` only, by their shift. -/
theorem step_ptr {c : Cfg w} {ins : Instr w} (hi : p.insts[c.pc]? = some ins) :
    (Bc.step p limited c).cfg.st.ptr = c.st.ptr ∨
    (∃ sh, ins = .mov sh ∧ (Bc.step p limited c).cfg.st.ptr = c.st.ptr + sh) ∨
    (∃ cond sh, ins = .scan cond sh ∧ (Bc.step p limited c).cfg.st.ptr = c.st.ptr + sh) := by
  rw [step_eq hi]
  exact stepI_ptr p limited c ins

example (X : Int → Prop) (c1 c2 : Cfg w) : TapeSim X c1 c2 ↔
    (c1.pc = c2.pc ∧ c1.temps = c2.temps ∧ c1.budget = c2.budget ∧ c1.st.ptr = c2.st.ptr ∧
      c1.st.env = c2.st.env ∧ c1.st.trace = c2.st.trace ∧
      ∀ x, X x → c1.st.tape.get x = c2.st.tape.get x) :=
  ⟨fun h => ⟨h.pc, h.temps, h.budget, h.st.ptr, h.st.env, h.st.trace, h.st.tape⟩,
   fun ⟨a, b, c, d, e, f, g⟩ => ⟨a, b, c, ⟨d, e, f, g⟩⟩⟩

/-- Read set (holds for every program): the step depends on the tape only through the cells `ptr + o`,
`o ∈ touched ins`.  Two configurations whose tapes agree on a set `X` of addresses containing the touched
cells (and are otherwise equal) step to results with the same constructor that again agree on `X`
(and are otherwise equal). -/
theorem step_reads_touched {X : Int → Prop} {c1 c2 : Cfg w} {ins : Instr w}
    (hi : p.insts[c1.pc]? = some ins) (hsim : TapeSim X c1 c2)
    (hX : ∀ o ∈ Bc.touched ins, X (c1.st.ptr + o)) :
    (Bc.step p limited c1).tag = (Bc.step p limited c2).tag ∧
    TapeSim X (Bc.step p limited c1).cfg (Bc.step p limited c2).cfg :=
  step_tape hi hsim hX

/-- … in particular with `X` exactly the touched cells. -/
theorem step_touched_only {c1 c2 : Cfg w} {ins : Instr w} (hi : p.insts[c1.pc]? = some ins)
    (hsim : TapeSim (fun x => ∃ o ∈ Bc.touched ins, x = c1.st.ptr + o) c1 c2) :
    (Bc.step p limited c1).tag = (Bc.step p limited c2).tag ∧
    TapeSim (fun x => ∃ o ∈ Bc.touched ins, x = c1.st.ptr + o)
      (Bc.step p limited c1).cfg (Bc.step p limited c2).cfg :=
  step_tape hi hsim (fun o ho => ⟨o, ho, rfl⟩)

/-- Dynamic reading of the window: a step of a checked program changes no tape cell outside
`[ptr + minAcc, ptr + maxAcc]` (the pointer taken before the step). -/
theorem check_step_window (h : check p numRegs = true) (c : Cfg w) {x : Int}
    (hx : x < c.st.ptr + p.minAcc ∨ c.st.ptr + p.maxAcc < x) :
    (Bc.step p limited c).cfg.st.tape.get x = c.st.tape.get x := by
  cases hi : p.insts[c.pc]? with
  | none => rw [step_frame_none hi]
  | some ins =>
    apply step_frame hi
    intro o ho
    have := check_window h hi ho
    omega

/-! ### 3. Temporary indices are below the declared count -/

theorem check_temps_lt (h : check p numRegs = true) {i : Nat} {ins : Instr w} {t : Nat}
    (hi : p.insts[i]? = some ins) (ht : t ∈ uses ins ++ defs ins) : t < p.temps :=
  (check_facts h).1.temps hi t ht

/-! ### 4. No temporary is read before it is written, on any path -/

/-- For an arbitrary accepted solution `I`: the definitely-initialised set of the current pc has been
written on the path actually taken. -/
theorem init_inv_of_initOk {I : Array (List Nat)} (hI : initOk p I = true) {c : Cfg w} {W : List Nat}
    (hw : Wr p limited c W) : ∀ t ∈ BcWf.getD I c.pc, t ∈ W :=
  init_inv (initOk_facts hI) hw

theorem check_init_of_initOk {I : Array (List Nat)} (hI : initOk p I = true) {c : Cfg w} {W : List Nat}
    {ins : Instr w} (hw : Wr p limited c W) (hi : p.insts[c.pc]? = some ins) :
    ∀ t ∈ uses ins, t ∈ W :=
  init_sound (initOk_facts hI) hw hi

theorem check_init (h : check p numRegs = true) {c : Cfg w} {W : List Nat} {ins : Instr w}
    (hw : Wr p limited c W) (hi : p.insts[c.pc]? = some ins) : ∀ t ∈ uses ins, t ∈ W :=
  init_sound (check_facts h).2.1 hw hi

/-- Consequence: the run does not depend on the initial contents of the temporaries. -/
theorem check_init_independent (h : check p numRegs = true) (limited : Bool) (fuel b : Nat)
    (s : State w) (t0 t0' : Temps w) :
    ObsEq (Bc.runCfg p limited fuel { pc := 0, temps := t0, budget := b, st := s })
      (Bc.runCfg p limited fuel { pc := 0, temps := t0', budget := b, st := s }) :=
  init_independent (check_facts h).1 (check_facts h).2.1 limited fuel b s t0 t0'

/-- In particular the zero-initialised run of the interpreter (`Bc.run`) and a run from arbitrary
register contents are observationally equal. -/
theorem check_run_independent (h : check p numRegs = true) (limited : Bool) (fuel b : Nat) (env : Env)
    (t0 : Temps w) (hb : (limited && b == 0) = false) :
    ObsEq (Bc.run p limited b fuel env)
      (Bc.runCfg p limited fuel { pc := 0, temps := t0, budget := b, st := State.init env }) := by
  unfold Bc.run
  simp only [hb]
  exact check_init_independent h limited fuel b _ _ _

/-! ### 5. Liveness -/

/-- General noninterference lemma, for an arbitrary accepted solution `O`. -/
theorem live_step_of_liveOk {O : Array (List Nat)} (hl : localOk p = true)
    (hO : liveOk p numRegs O = true) {c1 c2 : Cfg w} (hsim : Sim (liveSet p O c1.pc) c1 c2) :
    (Bc.step p limited c1).tag = (Bc.step p limited c2).tag ∧
    (Bc.step p limited c1).cfg.pc = (Bc.step p limited c2).cfg.pc ∧
    (Bc.step p limited c1).cfg.st = (Bc.step p limited c2).cfg.st ∧
    (Bc.step p limited c1).cfg.budget = (Bc.step p limited c2).cfg.budget ∧
    ∀ c1' c2', Bc.step p limited c1 = .next c1' → Bc.step p limited c2 = .next c2' →
      Sim (liveSet p O c1'.pc) c1' c2' := by
  obtain ⟨h1, ⟨h2, h3, h4⟩, h5⟩ := live_step (localOk_facts hl) (liveOk_facts hO) (limited := limited) hsim
  exact ⟨h1, h2, h3, h4, h5⟩

theorem check_live_step (h : check p numRegs = true) {c1 c2 : Cfg w}
    (hsim : Sim (liveSet p (liveSolve p) c1.pc) c1 c2) :
    (Bc.step p limited c1).tag = (Bc.step p limited c2).tag ∧
    (Bc.step p limited c1).cfg.pc = (Bc.step p limited c2).cfg.pc ∧
    (Bc.step p limited c1).cfg.st = (Bc.step p limited c2).cfg.st ∧
    (Bc.step p limited c1).cfg.budget = (Bc.step p limited c2).cfg.budget ∧
    ∀ c1' c2', Bc.step p limited c1 = .next c1' → Bc.step p limited c2 = .next c2' →
      Sim (liveSet p (liveSolve p) c1'.pc) c1' c2' := by
  simp only [check, Bool.and_eq_true] at h
  exact live_step_of_liveOk h.1.1 h.2 hsim

theorem check_live_run (h : check p numRegs = true) (fuel : Nat) {c1 c2 : Cfg w}
    (hsim : Sim (liveSet p (liveSolve p) c1.pc) c1 c2) :
    ObsEq (Bc.runCfg p limited fuel c1) (Bc.runCfg p limited fuel c2) :=
  live_run (check_facts h).1 (check_facts h).2.2 fuel hsim

/-- A register temporary that is neither written by the non-branch instruction `i` nor declared live
across it is DEAD after it: overwriting it with any value right after the instruction changes nothing
observable (outcome constructor, final state, budget), for every fuel.  For an arbitrary accepted `O`. -/
theorem live_dead_of_liveOk {O : Array (List Nat)} (hl : localOk p = true)
    (hO : liveOk p numRegs O = true) {i : Nat} {ins : Instr w} {t : Nat}
    (hi : p.insts[i]? = some ins) (hb : isBranch ins = false) (hr : t < numRegs) (h16 : t < 16)
    (hd : t ∉ defs ins) (hbit : ((p.live[i]?).getD 0).testBit t = false)
    {c c' : Cfg w} (hpc : c.pc = i) (hs : Bc.step p limited c = .next c')
    (v : BitVec w) (fuel : Nat) :
    ObsEq (Bc.runCfg p limited fuel c')
      (Bc.runCfg p limited fuel { c' with temps := tset c'.temps t v }) := by
  subst hpc
  have hn := not_live_after (liveOk_facts hO) hi hb hr h16 hd hbit hs
  apply live_run (localOk_facts hl) (liveOk_facts hO) fuel
  refine ⟨rfl, rfl, rfl, ?_⟩
  intro t' ht'
  have hne : t' ≠ t := fun e => hn (e ▸ ht')
  exact (tget_tset_ne _ _ hne).symm

theorem check_live_dead (h : check p numRegs = true) {i : Nat} {ins : Instr w} {t : Nat}
    (hi : p.insts[i]? = some ins) (hb : isBranch ins = false) (hr : t < numRegs) (h16 : t < 16)
    (hd : t ∉ defs ins) (hbit : ((p.live[i]?).getD 0).testBit t = false)
    {c c' : Cfg w} (_hc : Reach p limited c) (hpc : c.pc = i) (hs : Bc.step p limited c = .next c')
    (v : BitVec w) (fuel : Nat) :
    ObsEq (Bc.runCfg p limited fuel c')
      (Bc.runCfg p limited fuel { c' with temps := tset c'.temps t v }) := by
  simp only [check, Bool.and_eq_true] at h
  exact live_dead_of_liveOk h.1.1 h.2 hi hb hr h16 hd hbit hpc hs v fuel

/-! ### 6. Non-vacuity -/

/-- `t0 := [0]; while [0] { out [0]; [0] -= 1; [1] += t0 }; [2] := t0` – a loop, `t0` kept across the
`out` (and the two `add`s), live bits set exactly there. -/
def exGood : Program 8 :=
  { temps := 1, minAcc := 0, maxAcc := 2,
    live := #[0, 0, 1, 1, 1, 0, 0],
    insts := #[.copy (.tmp 0) (.mem 0), .brz 0 5, .out 0, .add (.mem 0) (.mem 0) (.imm 255#8),
               .add (.mem 1) (.mem 1) (.tmp 0), .brnz 0 (-3), .copy (.mem 2) (.tmp 0)] }

example : check exGood 2 = true := by decide +kernel
example : initSolve exGood = #[[], [0], [0], [0], [0], [0], [0]] := by decide +kernel
example : liveSolve exGood = #[[0], [0], [0], [0], [0], [0], []] := by decide +kernel

/-- The same program without the initialising `copy`: `t0` is read uninitialised. -/
def exUninit : Program 8 := { exGood with insts := exGood.insts.set! 0 .noop }
example : check exUninit 2 = false := by decide +kernel
example : localOk exUninit = true ∧ initOk exUninit (initSolve exUninit) = false := by decide +kernel

/-- Initialised on one path only (the `copy` is skipped when the cell is zero). -/
def exUninitPath : Program 8 :=
  { temps := 1, minAcc := 0, maxAcc := 1, live := #[0, 0, 0],
    insts := #[.brz 0 2, .copy (.tmp 0) (.mem 0), .copy (.mem 1) (.tmp 0)] }
example : localOk exUninitPath = true ∧ initOk exUninitPath (initSolve exUninitPath) = false := by
  decide +kernel

/-- `exGood` with the live bit of `t0` across the `out` cleared: rejected by the liveness condition only. -/
def exDead : Program 8 := { exGood with live := #[0, 0, 0, 1, 1, 0, 0] }
example : check exDead 2 = false := by decide +kernel
example : localOk exDead = true ∧ initOk exDead (initSolve exDead) = true ∧
    liveOk exDead 2 (liveSolve exDead) = false := by decide +kernel
/-- With no register temporaries (`numRegs = 0`, everything on the stack) the bitmap is irrelevant. -/
example : check exDead 0 = true := by decide +kernel

/-- A branch out of the program and an operand outside the window are rejected (`localOk`). -/
example : check ({ exGood with insts := exGood.insts.set! 5 (.brnz 0 (-6)) } : Program 8) 2 = false := by
  decide +kernel
example : check ({ exGood with maxAcc := 1 } : Program 8) 2 = false := by decide +kernel

/-- The soundness theorems apply to `exGood`: e.g. its run never reaches `.bad`. -/
example (limited : Bool) (b fuel : Nat) (env : Env) (c' : Cfg 8) :
    Bc.run exGood limited b fuel env ≠ .bad c' :=
  check_run_not_bad (numRegs := 2) (by decide +kernel) limited b fuel env c'

end C11
end Hpbf

#print axioms Hpbf.C11.reach_iff_wr
#print axioms Hpbf.C11.check_facts
#print axioms Hpbf.C11.check_branch_target
#print axioms Hpbf.C11.check_pc_le
#print axioms Hpbf.C11.check_no_bad
#print axioms Hpbf.C11.check_runCfg_not_bad
#print axioms Hpbf.C11.check_run_not_bad
#print axioms Hpbf.C11.check_window
#print axioms Hpbf.C11.check_window_zero
#print axioms Hpbf.C11.step_frame_any
#print axioms Hpbf.C11.step_frame_next
#print axioms Hpbf.C11.step_frame_exit
#print axioms Hpbf.C11.step_ptr
#print axioms Hpbf.C11.step_reads_touched
#print axioms Hpbf.C11.step_touched_only
#print axioms Hpbf.C11.check_step_window
#print axioms Hpbf.C11.check_temps_lt
#print axioms Hpbf.C11.init_inv_of_initOk
#print axioms Hpbf.C11.check_init_of_initOk
#print axioms Hpbf.C11.check_init
#print axioms Hpbf.C11.check_init_independent
#print axioms Hpbf.C11.check_run_independent
#print axioms Hpbf.C11.live_step_of_liveOk
#print axioms Hpbf.C11.check_live_step
#print axioms Hpbf.C11.check_live_run
#print axioms Hpbf.C11.live_dead_of_liveOk
#print axioms Hpbf.C11.check_live_dead
