/-
C06 — "In the default (bounds-checked) mode, for every program and input, no backend reads or writes a
byte outside the tape allocation it currently owns, and cells keep their values across any number of
tape reallocations in either direction, so the observable behaviour equals that of an unbounded
zero-initialised tape."

Property theorems only; lemmas are in `Hpbf/Proofs/C06.lean`, the address discipline being verified is
`Hpbf/Window.lean` (layout `Lay` = allocation size + physical index of the tape pointer; `Lay.grow` =
layout effect of `Memory::make_accessible`; `Lay.move` = a pointer move followed by the bounds handling
of the threaded interpreter (`threadedSafe`: probe one edge, grow the whole window) or of the baseline
JIT (`jitSafe`: probe one edge, make the probe cell accessible); `Window.run` = the bytecode machine
`Bc.step` instrumented with the layout and the flag "every tape access so far was inside the
allocation").

WHAT IS ASSUMED (range guard, the same `2^59` as C09; outside it no claim is made, the model says what
wraps there):
* `l.Small`            – a layout with `size < 2^59` and `-2^59 < cur < 2^59`;
* `SmallArg x`         – `-2^59 < x < 2^59` (a window constant or a shift);
* `SmallProg p`        – `minAcc`, `maxAcc` and the shift of every `mov`/`scan` of `p` are `SmallArg`
                         (static, decidable);
* `smallRun mode p limited fuel c l = true` – defined by recursion along `runLay`: the allocation is
  smaller than `2^59` cells at every instruction boundary of the run (decidable).  Because sizes only
  grow (`size_monotone`) this follows from `final size < 2^59` (`safe_run_no_oob_final`).
Between a move and its probe the pointer index may be `2 * 2^59` away from the allocation; the closed
forms of `make_accessible` are therefore proved up to `2^61` in `Proofs/C06.lean`.
The contract on the program is `BcWf.localOk p = true` (operands inside the declared window, window
contains 0), the first conjunct of the verified checker `BcWf.check` of C11.
-/
import Hpbf.Proofs.C06
import Hpbf.Props.C09

namespace Hpbf.C06
open Hpbf Hpbf.Window Hpbf.Bc

variable {w : Nat}

/-! ## 1. `make_accessible` on layouts -/

/-- Under the guard a growth adds `below` cells below and `above` cells above the old allocation
(so `size` never decreases), the pointer's physical index moves up by exactly `below` (`0` if nothing
was needed, C09's three-case `added_below` otherwise), every requested offset `a ≤ i < b` is in
bounds afterwards, and no offset that was in bounds falls out. -/
theorem grow_spec {l : Lay} {a b : Int} (hl : l.Small) (ha : SmallArg a) (hb : SmallArg b) :
    ∃ below above : Nat,
      (l.grow a b).size = below + l.size + above ∧
      (l.grow a b).cur = l.cur + below ∧
      below = (if l.NoGrowth a b then 0 else l.addedBelow a b) ∧
      (∀ i, a ≤ i → i < b → (l.grow a b).inBounds i = true) ∧
      (∀ o, l.inBounds o = true → (l.grow a b).inBounds o = true) := by
  have a1 := ha.1; have a2 := ha.2; have b1 := hb.1; have b2 := hb.2
  exact grow_shape hl.wide (by unfold bound at *; omega) (by unfold bound at *; omega)
    (by unfold bound at *; omega) (by unfold bound at *; omega)

/-- `grow` never shrinks (no guard needed). -/
theorem grow_size_le (l : Lay) (a b : Int) : l.size ≤ (l.grow a b).size := grow_size_ge l a b

-- growth on both sides at once from a pointer far below a 100-cell allocation
example : let l : Lay := ⟨100, -5000⟩
    l.Small ∧ SmallArg (-3) ∧ SmallArg 7000 ∧ l.grow (-3) 7000 = ⟨5003 + 100 + 1900, -5000 + 5003⟩ := by
  decide
-- nothing to do
example : (⟨100, 50⟩ : Lay).grow (-50) 50 = ⟨100, 50⟩ := by decide

/-- The link to the tape object (C09): the layout (size, `offset as isize`) of
`m.makeAccessible a b` is `Lay.grow` of the layout of `m`. -/
theorem lay_of_makeAccessible {m : Mem w} {a b : Int} (hs : Mem.Small m)
    (ha : Mem.SmallArg a) (hb : Mem.SmallArg b) :
    Lay.ofMem (m.makeAccessible a b) = (Lay.ofMem m).grow a b :=
  lay_of_makeAccessible' hs ha hb

/-- … so C09 applies to every growth the machine performs: the layout changes as `Lay.grow` says and
all cell contents and the logical pointer are preserved (`Mem.cell off` is the logical cell at `off`
from the pointer). -/
theorem growth_preserves_cells {m : Mem w} {a b : Int} (hwf : Mem.WF m) (hs : Mem.Small m)
    (ha : Mem.SmallArg a) (hb : Mem.SmallArg b) :
    Lay.ofMem (m.makeAccessible a b) = (Lay.ofMem m).grow a b ∧
    Mem.WF (m.makeAccessible a b) ∧
    ∀ off, (m.makeAccessible a b).cell off = m.cell off :=
  ⟨lay_of_makeAccessible hs ha hb, C09.makeAccessible_wf hwf hs ha hb,
    C09.makeAccessible_cell hwf hs ha hb⟩

example : Mem.WF C09.witness ∧ Mem.Small C09.witness ∧ Mem.SmallArg (-3000) ∧ Mem.SmallArg 7000 ∧
    Lay.ofMem C09.witness = ⟨100, 100⟩ := by decide

/-! ## 2. moves keep the window inside the allocation -/

/-- For both checked modes and EVERY shift (also far beyond the allocation, either sign): if the
window `[mn, mx]` (containing 0) was inside the allocation before the move, it is inside after it.
A move to the left cannot push the upper edge out and vice versa, so probing one edge suffices; the
JIT makes only the probe cell accessible, but the allocation is contiguous from there to the old
window. -/
theorem move_inWindow {mode : Mode} (hmode : mode = .threadedSafe ∨ mode = .jitSafe)
    {mn mx : Int} {l : Lay} (sh : Int) (h0 : mn ≤ 0) (h1 : 0 ≤ mx) (hw : l.InWindow mn mx)
    (hs : (l.size : Int) < bound) (hmn : SmallArg mn) (hmx : SmallArg mx) (hsh : SmallArg sh) :
    (Lay.move mode mn mx l sh).InWindow mn mx :=
  move_inWindow' (by rcases hmode with h | h <;> simp [h]) sh h0 h1 hw hs hmn hmx hsh

/-- Entry (`enter_ops` / `enter_jit_code`) establishes the window from ANY layout in the guard. -/
theorem enter_inWindow {mode : Mode} (hmode : mode = .threadedSafe ∨ mode = .jitSafe)
    {mn mx : Int} {l : Lay} (h0 : mn ≤ 0) (h1 : 0 ≤ mx) (hl : l.Small)
    (hmn : SmallArg mn) (hmx : SmallArg mx) :
    (l.enter mode mn mx).InWindow mn mx :=
  enter_inWindow' (by rcases hmode with h | h <;> simp [h]) (by omega) hl hmn hmx

/-- The trampolined dispatcher of debug builds calls `enter_ops` again after every instruction:
under the invariant this changes nothing (any mode). -/
theorem re_enter_noop (mode : Mode) {l : Lay} {mn mx : Int} (hw : l.InWindow mn mx) (h0 : mn ≤ mx)
    (hs : (l.size : Int) < bound) (hmn : SmallArg mn) (hmx : SmallArg mx) :
    l.enter mode mn mx = l :=
  re_enter_noop' mode hw h0 hs hmn hmx

-- fresh context, then moves far beyond the allocation in both directions, both modes
example : (⟨0, 0⟩ : Lay).Small ∧ SmallArg (-2) ∧ SmallArg 3 ∧ SmallArg (-100000) ∧
    (⟨0, 0⟩ : Lay).enter .threadedSafe (-2) 3 = ⟨6, 2⟩ ∧
    (⟨6, 2⟩ : Lay).InWindow (-2) 3 := by decide
example : Lay.move .threadedSafe (-2) 3 ⟨6, 2⟩ (-100000) = ⟨100006, 2⟩ ∧
    Lay.move .jitSafe (-2) 3 ⟨6, 2⟩ (-100000) = ⟨100006, 2⟩ ∧
    Lay.move .threadedSafe (-2) 3 ⟨6, 2⟩ 100000 = ⟨100006, 100002⟩ ∧
    Lay.move .jitSafe (-2) 3 ⟨6, 2⟩ 100000 = ⟨100006, 100002⟩ ∧
    -- a short move: the threaded interpreter grows by half, the JIT too (one cell needed)
    Lay.move .threadedSafe (-2) 3 ⟨6, 2⟩ 1 = ⟨9, 3⟩ ∧ Lay.move .jitSafe (-2) 3 ⟨6, 2⟩ 1 = ⟨9, 3⟩ ∧
    Lay.move .jitSafe (-2) 3 ⟨6, 2⟩ (-1) = ⟨9, 4⟩ := by decide
-- the unchecked mode does not keep the invariant (that is C10's subject)
example : ¬ (Lay.move .unchecked (-2) 3 ⟨6, 2⟩ 1).InWindow (-2) 3 := by decide

/-! ## 3. no access outside the allocation, however far the program roams -/

/-- The dynamic guard of a complete run: `smallRun` from the entry layout. -/
def SmallRun (mode : Mode) (p : Program w) (limited : Bool) (budget fuel : Nat) (env : Env) (l0 : Lay) :
    Prop :=
  smallRun mode p limited fuel { pc := 0, temps := [], budget := budget, st := State.init env }
    (l0.enter mode p.minAcc p.maxAcc) = true

instance (mode : Mode) (p : Program w) (limited : Bool) (budget fuel : Nat) (env : Env) (l0 : Lay) :
    Decidable (SmallRun mode p limited budget fuel env l0) := by unfold SmallRun; infer_instance

/-- Main theorem.  In both checked modes, for every program satisfying the local contract, every
mode of execution (`limited`, budget), fuel, environment and starting layout inside the guard:
every tape access of every executed instruction is inside the allocation, and the window is inside
the allocation when the run ends (or pauses). -/
theorem safe_run_no_oob {mode : Mode} (hmode : mode = .threadedSafe ∨ mode = .jitSafe)
    {p : Program w} (hl : BcWf.localOk p = true) (hp : SmallProg p)
    (limited : Bool) (budget fuel : Nat) (env : Env) {l0 : Lay} (h0 : l0.Small)
    (hg : SmallRun mode p limited budget fuel env l0) :
    (Window.run mode p limited budget fuel env l0).ok = true := by
  have L := C11.localOk_facts hl
  have hne : mode ≠ .unchecked := by rcases hmode with h | h <;> simp [h]
  unfold Window.run
  simp only
  split
  · rfl
  · exact (runLay_ok hne L hp limited fuel _ _
      (enter_inWindow hmode L.min0 L.max0 h0 hp.1 hp.2.1) hg).1

/-- The invariant at the end of the run (needed to resume, e.g. after an interrupt). -/
theorem safe_run_inWindow {mode : Mode} (hmode : mode = .threadedSafe ∨ mode = .jitSafe)
    {p : Program w} (hl : BcWf.localOk p = true) (hp : SmallProg p)
    (limited : Bool) (budget fuel : Nat) (env : Env) {l0 : Lay} (h0 : l0.Small)
    (hg : SmallRun mode p limited budget fuel env l0)
    (hb : (limited && budget == 0) = false) :
    (Window.run mode p limited budget fuel env l0).lay.InWindow p.minAcc p.maxAcc := by
  have L := C11.localOk_facts hl
  have hne : mode ≠ .unchecked := by rcases hmode with h | h <;> simp [h]
  unfold Window.run
  simp only [hb]
  exact (runLay_ok hne L hp limited fuel _ _
    (enter_inWindow hmode L.min0 L.max0 h0 hp.1 hp.2.1) hg).2

/-- 4. The allocation only grows along a run (all modes, no guard): from every intermediate
configuration and layout to the end, and in particular from the start. -/
theorem size_monotone_from (mode : Mode) (p : Program w) (limited : Bool) (fuel : Nat) (c : Cfg w)
    (l : Lay) (ok : Bool) : l.size ≤ (runLay mode p limited fuel c l ok).lay.size :=
  runLay_size_ge mode p limited fuel c l ok

theorem size_monotone (mode : Mode) (p : Program w) (limited : Bool) (budget fuel : Nat) (env : Env)
    (l0 : Lay) : l0.size ≤ (Window.run mode p limited budget fuel env l0).lay.size := by
  unfold Window.run
  simp only
  split
  · exact Nat.le_refl _
  · refine Nat.le_trans ?_ (runLay_size_ge _ _ _ _ _ _ _)
    cases mode with
    | unchecked => exact Nat.le_refl _
    | threadedSafe => exact grow_size_ge _ _ _
    | jitSafe => exact grow_size_ge _ _ _

/-- One step never shrinks the allocation either. -/
theorem size_monotone_step (mode : Mode) (p : Program w) (c c' : Cfg w) (l : Lay) :
    l.size ≤ (layStep mode p c c' l).size := layStep_size_ge mode p c c' l

/-- Hence the dynamic guard is implied by a bound on the FINAL allocation size alone: as long as the
tape has not reached `2^59` cells, no access was out of bounds. -/
theorem safe_run_no_oob_final {mode : Mode} (hmode : mode = .threadedSafe ∨ mode = .jitSafe)
    {p : Program w} (hl : BcWf.localOk p = true) (hp : SmallProg p)
    (limited : Bool) (budget fuel : Nat) (env : Env) {l0 : Lay} (h0 : l0.Small)
    (hfin : ((Window.run mode p limited budget fuel env l0).lay.size : Int) < bound) :
    (Window.run mode p limited budget fuel env l0).ok = true := by
  by_cases hb : (limited && budget == 0) = true
  · unfold Window.run; simp only [hb]; rfl
  · apply safe_run_no_oob hmode hl hp limited budget fuel env h0
    unfold SmallRun
    apply smallRun_of_final _ _ _ _ _ _ true
    unfold Window.run at hfin
    simp only [hb] at hfin
    exact hfin

/-- With the full checker of C11 instead of its first conjunct. -/
theorem safe_run_no_oob_of_check {mode : Mode} (hmode : mode = .threadedSafe ∨ mode = .jitSafe)
    {p : Program w} {numRegs : Nat} (hc : BcWf.check p numRegs = true) (hp : SmallProg p)
    (limited : Bool) (budget fuel : Nat) (env : Env) {l0 : Lay} (h0 : l0.Small)
    (hfin : ((Window.run mode p limited budget fuel env l0).lay.size : Int) < bound) :
    (Window.run mode p limited budget fuel env l0).ok = true := by
  simp only [BcWf.check, Bool.and_eq_true] at hc
  exact safe_run_no_oob_final hmode hc.1.1 hp limited budget fuel env h0 hfin

/-! ### a program that roams far beyond the allocation in both directions -/

/-- `mov 1000; [3] += 1; mov -5000; [-2] += 1; [0] := 1; scan-right-by-997` (both window edges are
written right after a far move in either direction; kept tiny so that `decide` can run it). -/
def roam : Program 8 :=
  { temps := 0, minAcc := -2, maxAcc := 3, live := #[0, 0, 0, 0, 0, 0],
    insts := #[.mov 1000, .add (.mem 3) (.mem 3) (.imm 1#8), .mov (-5000),
               .add (.mem (-2)) (.mem (-2)) (.imm 1#8), .copy (.mem 0) (.imm 1#8), .scan 0 997] }

def env0 : Env := { input := none, sink := false, outOk := none }

example : BcWf.localOk roam = true ∧ SmallProg roam ∧ (⟨0, 0⟩ : Lay).Small := by decide

example : SmallRun .threadedSafe roam false 0 20 env0 ⟨0, 0⟩ ∧
    SmallRun .jitSafe roam false 0 20 env0 ⟨0, 0⟩ := by decide +kernel

-- the final layouts (the program has walked 1000 right, 5000 left, then scanned right again)
example : (Window.run .threadedSafe roam false 0 20 env0 ⟨0, 0⟩).lay = ⟨5006, 999⟩ ∧
    (Window.run .jitSafe roam false 0 20 env0 ⟨0, 0⟩).lay = ⟨5006, 999⟩ ∧
    (Window.run .threadedSafe roam false 0 20 env0 ⟨0, 0⟩).ok = true := by decide +kernel
-- the same program without checks, from a fresh context, does access outside the allocation
example : (Window.run .unchecked roam false 0 20 env0 ⟨0, 0⟩).ok = false := by decide +kernel

end Hpbf.C06

#print axioms Hpbf.C06.grow_spec
#print axioms Hpbf.C06.grow_size_le
#print axioms Hpbf.C06.lay_of_makeAccessible
#print axioms Hpbf.C06.growth_preserves_cells
#print axioms Hpbf.C06.move_inWindow
#print axioms Hpbf.C06.enter_inWindow
#print axioms Hpbf.C06.re_enter_noop
#print axioms Hpbf.C06.safe_run_no_oob
#print axioms Hpbf.C06.safe_run_inWindow
#print axioms Hpbf.C06.size_monotone_from
#print axioms Hpbf.C06.size_monotone
#print axioms Hpbf.C06.size_monotone_step
#print axioms Hpbf.C06.safe_run_no_oob_final
#print axioms Hpbf.C06.safe_run_no_oob_of_check
