/-
Property C03, control flow.  "… the x86-64 baseline JIT produces exactly the input/output event sequence of
canonical Brainfuck semantics whenever the canonical run terminates …" – the part of the argument that is
about CONTROL FLOW and the non-arithmetic instructions of the generated code: layout and relocation of
`JitGen.compileX86` (stage 1), and a program-level machine `X86Prog` that runs the generated code, with the
simulation of the bytecode semantics `Bc.step` / `Bc.run` by that machine (stage 2). (`Props/C03.lean` is the
per-instruction simulation of the arithmetic / copy selector arms, which this file lifts to whole programs.)

Models (frozen): `Hpbf/JitGen.lean`, `Hpbf/Asm.lean` (byte-for-byte equal to `codegen.rs` / `asm.rs` on the
`jitgen` suite), `Hpbf/Bc.lean` (`bcrun` suite), `Hpbf/X86Sem.lean` (`jitsem` suite, against the processor),
`Hpbf/BcWf.lean` (the contract of C11). New model: `Hpbf/X86Prog.lean` – tied to the PROCESSOR by the
`x86prog` request of `Hpbf/Driver7.lean` (same arguments as `jitrun`; on the 23 228 `jitrun` requests of the
quick run and 5 824 limited-mode / window variants of the generated programs, replayed on the CPU with
`verif-harness replay jitrun`, the replies of the machine equal the replies of the real JIT).

Vocabulary (all transparent, see the `example`s):
* `sizeAll xs` / `itemsSize its`      – byte sizes (JitGen); `offAt start body i`, `locOf p body i`,
  `termOf p body`, `locsOf p body`    – `self.locations[i]`, `self.term`, the array `fix_relocations` indexes.
* `Compiled p lim safe aE aI aO code` – the facts `compileX86 … = some code` consists of.
* `At cfg code pos xs`                – `cfg` decodes `code`, and the instructions `xs` start at byte `pos`.
* `steps cfg n s = some s'`           – `n` machine steps, all `.next`; `run cfg n s` (X86Prog) – up to `ret`.
* `view s`                            – the machine state as `X86Sem` / `Props/C03.lean` see it, so `Rel c (view s)`
  is the relation of `Props/C03.lean`.
* `Ctx w`                             – program + compilation + machine parameters + the side conditions
  "code shorter than 2^31 bytes", "the three runtime addresses are distinct", "live.size = insts.size".
* `Inv K fr c s`                      – at an instruction boundary: `pc = locs[c.pc]`, `rbx` = context, environment
  and trace equal, `[rbx+24]` = budget, `rbp` current, `rsp` = frame pointer `fr.rsp` (16-byte aligned), the
  activation has `alignedTemps + 7` slots and the seven above the temporaries are `fr.saved`, and
  `rbp = buffer + cell size * (lptr - base)` (the register agrees with the machine's bookkeeping).
* `Final fr temps c' s'` / `Result s0 s' c'` – after `ret`: callee-saved registers and `rsp` restored, trace,
  environment and tape (relative to the pointer) those of `c'`.
* `Good K`                            – hypotheses on the program, see there.
* `Bnd s` / `NoOOM K s`               – (bounds-checked code only) the tape allocation stays below 2^40 cells in
  every state the machine reaches, so the 64-bit index arithmetic of the probe does not wrap.

Covered: `brz`/`brnz` (unlimited and limited = `emit_limit_check`), `noop`, `mov` without AND with bounds check,
`copy/add/sub/mul` (lifted from `Props/C03.lean`), `inp`, `out`, prologue, both exits, relocation; `scan` has no
selector arm (`compileX86 = none`). Not covered: nothing of the generated code; the hypotheses are listed at
`prog_run`.
-/
import Hpbf.Proofs.C03FlowTop

namespace Hpbf
namespace C03

open Asm JitGen X86Sem X86Prog

variable {w : Nat}

/-! ## Stage 1: layout and relocation -/

example (xs : List X86) : sizeAll xs = xs.foldl (fun n x => n + x.size) 0 := rfl
example (start : Nat) (body : List (List Item)) (i : Nat) :
    offAt start body i = start + itemsSize (body.take i).flatten := rfl
example (p : Bc.Program w) (body : List (List Item)) (i : Nat) :
    locOf p body i = sizeAll (prologue p.temps) + itemsSize (body.take i).flatten := rfl
example (p : Bc.Program w) (body : List (List Item)) :
    termOf p body = locOf p body body.length + sizeAll epilogueHead := rfl
example (p : Bc.Program w) (body : List (List Item)) :
    locsOf p body = (locations (sizeAll (prologue p.temps)) body).toArray := rfl

/-- `compileX86` succeeds exactly when the selector produces items for every instruction and relocation
finds every branch target; the code is prologue ++ resolved items ++ epilogueHead ++ epilogueTail. -/
theorem layout_decompose {p : Bc.Program w} {limited safe : Bool} {aE aI aO : Nat} {code : List X86} :
    compileX86 w p limited safe aE aI aO = some code ↔
      ∃ sz body rcode, Size.ofBits? w = some sz ∧ emitProgram sz p limited safe aE aI aO = some body ∧
        resolveItems (locsOf p body) (termOf p body) (sizeAll (prologue p.temps)) body.flatten = some rcode ∧
        code = prologue p.temps ++ rcode ++ epilogueHead ++ epilogueTail p.temps := by
  constructor
  · intro h
    obtain ⟨C⟩ := compileX86_some h
    exact ⟨C.sz, C.body, C.rcode, C.hsz, C.hbody, C.hres, C.hcode⟩
  · rintro ⟨sz, body, rcode, h1, h2, h3, h4⟩
    exact compileX86_of ⟨sz, h1, body, h2, rcode, h3, h4⟩

/-- `self.locations[i]` is the byte offset of the first resolved instruction of bytecode instruction `i`
(`i = body.length`: of the epilogue). -/
theorem layout_locs (p : Bc.Program w) (body : List (List Item)) (i : Nat) :
    (locsOf p body)[i]? = if i ≤ body.length then some (locOf p body i) else none :=
  locsOf_getElem? p body i

/-- The resolved code of instruction `i` sits at byte offset `locs[i]` of the final code. -/
theorem layout_instr_at {p : Bc.Program w} {limited safe : Bool} {aE aI aO : Nat} {code : List X86}
    (C : Compiled p limited safe aE aI aO code) {i : Nat} {its : List Item} (hi : C.body[i]? = some its) :
    ∃ cpre xs cpost, code = cpre ++ xs ++ cpost ∧ sizeAll cpre = locOf p C.body i ∧
      resolveItems (locsOf p C.body) (termOf p C.body) (locOf p C.body i) its = some xs :=
  layout_at C hi

/-- … and after the last one come the two parts of the epilogue. -/
theorem layout_epilogue_at {p : Bc.Program w} {limited safe : Bool} {aE aI aO : Nat} {code : List X86}
    (C : Compiled p limited safe aE aI aO code) :
    ∃ cpre, code = cpre ++ epilogueHead ++ epilogueTail p.temps ∧
      sizeAll cpre = locOf p C.body C.body.length := layout_end C

/-- (a) A `jccInstr pr target` placed at byte offset `pos = locs[i] + size of the items before it` is
resolved to `jccRel32 pr d` with `pos + 6 + d = locs[target]` AS INTEGERS (no `i32` wrap), provided the code
is shorter than `2^31` bytes; `0 ≤ target ≤ n` is a consequence of successful relocation. -/
theorem layout_jcc_target {p : Bc.Program w} {limited safe : Bool} {aE aI aO : Nat} {code : List X86}
    (C : Compiled p limited safe aE aI aO code) (hsmall : sizeAll code < 2 ^ 31)
    {i : Nat} {pre post : List Item} {pr : JmpPred} {target : Int}
    (hi : C.body[i]? = some (pre ++ .jccInstr pr target :: post)) :
    ∃ cpre cpost d, code = cpre ++ .jccRel32 pr d :: cpost ∧
      sizeAll cpre = locOf p C.body i + itemsSize pre ∧
      0 ≤ target ∧ target ≤ C.body.length ∧
      (sizeAll cpre : Int) + 6 + d = locOf p C.body target.toNat :=
  layout_jcc_target' C hsmall hi

/-- (a') A `jccTerm pr` is resolved to a jump to the termination label. -/
theorem layout_term_target {p : Bc.Program w} {limited safe : Bool} {aE aI aO : Nat} {code : List X86}
    (C : Compiled p limited safe aE aI aO code) (hsmall : sizeAll code < 2 ^ 31)
    {i : Nat} {pre post : List Item} {pr : JmpPred}
    (hi : C.body[i]? = some (pre ++ .jccTerm pr :: post)) :
    ∃ cpre cpost d, code = cpre ++ .jccRel32 pr d :: cpost ∧
      sizeAll cpre = locOf p C.body i + itemsSize pre ∧
      (sizeAll cpre : Int) + 6 + d = termOf p C.body :=
  layout_term_target' C hsmall hi

/-- The epilogue: the fall-through exit sets `rax = 1` and its `jmp rel8 6` skips exactly the 6-byte
`mov rax, 0` the termination label starts with – so the function returns 1 when the program ran to its end
and 0 when it left through the termination label. -/
theorem layout_epilogue (temps : Nat) :
    epilogueHead = [.movRImm64 .rax 1, .jmpRel8 6] ∧
    (∃ rest, epilogueTail temps = .movRImm64 .rax 0 :: rest) ∧ (X86.movRImm64 .rax 0).size = 6 ∧
    sizeAll epilogueHead = 8 :=
  ⟨epilogueHead_eq, ⟨_, rfl⟩, by decide, by decide⟩

/-- (b) Every `skip8 pr body` the selector produces (only the bounds-checked `mov`) has a body of at most 76
bytes, for EVERY live bitmap for which the register saving code exists, every width, runtime address, shift
and probe: the `rel8` displacement `(len - jmp_start) as u8` does not wrap. -/
theorem layout_skip8 {sz : Size} {limited safe : Bool} {minAcc maxAcc : Int} {aE aI aO i live : Nat}
    {ins : Bc.Instr w} {its : List Item}
    (h : emitInstr sz limited safe minAcc maxAcc aE aI aO i live ins = some its)
    {pr : JmpPred} {body : List X86} (hm : Item.skip8 pr body ∈ its) :
    sizeAll body ≤ 76 ∧ i8 (sizeAll body) = sizeAll body := skip8_body_le h hm

/-- The bound is attained (all seven caller-saved temporaries live, a 64-bit runtime address, 64-bit cells,
a four-byte probe displacement), so there are 51 bytes of slack. -/
example : sizeAll (movBody .b64 0x7f0000000000 (-100)
    ((preCall 2032).getD []) ((postCall 2032).getD [])) = 76 := by decide

/-- At most the seven caller-saved temporaries are saved, in at most 11 bytes of pushes (pops). -/
theorem layout_saved_regs {live : Nat} {rs : List Reg} (h : savedRegs live = some rs) :
    rs.length ≤ 7 ∧ sizeAll (rs.map .push) ≤ 11 ∧ sizeAll (rs.map .pop) ≤ 11 := savedRegs_bounds h

/-- (c) `Item.size` is the size of the resolved item, so the offsets `locations` computes before relocation
are the offsets of the final code. -/
theorem layout_item_size {locs : Array Nat} {term pos : Nat} {it : Item} {xs : List X86}
    (h : JitGen.resolve locs term pos it = some xs) : sizeAll xs = it.size := resolve_size h

theorem layout_items_size {locs : Array Nat} {term : Nat} {its : List Item} {pos : Nat} {code : List X86}
    (h : resolveItems locs term pos its = some code) : sizeAll code = itemsSize its := resolveItems_size h

/-! ## Stage 2: the program machine -/

/-- The fast decoder `Driver7` uses is the specification decoder. -/
theorem prog_fetch_fast (code : List X86) : fetchFast (fetchTable code) = fetchList code := fetchFast_eq code

/-- Decoding: the instruction after the instructions `A` starts at byte `sizeAll A`. -/
theorem prog_fetch (A : List X86) (x : X86) (B : List X86) : fetchList (A ++ x :: B) (sizeAll A) = some x :=
  fetchList_append A x B

example (s : PState w) : view s =
    { regs := s.regs.get, tape := fun o => s.tape.get (s.lptr + o), stack := fun k => s.stk.getD k 0,
      zf := s.zf, cf := s.cf } := rfl
example (cfg : Cfg) (s : PState w) : steps cfg 0 s = some s := rfl
example (cfg : Cfg) (n : Nat) (s : PState w) : steps cfg (n + 1) s =
    match step cfg s with | .next s' => steps cfg n s' | _ => none := rfl
example (cfg : Cfg) (code : List X86) (pos : Nat) (xs : List X86) : At cfg code pos xs ↔
    (cfg.fetch = fetchList code ∧ ∃ A B, code = A ++ xs ++ B ∧ sizeAll A = pos) :=
  ⟨fun h => ⟨h.fetch, h.split⟩, fun h => ⟨h.1, h.2⟩⟩
example (K : Ctx w) (i : Nat) : K.loc i = locOf K.p K.C.body i := rfl
example (K : Ctx w) : K.term = termOf K.p K.C.body := rfl
example (K : Ctx w) : K.n = K.p.insts.size := rfl
example (K : Ctx w) (fr : Frame) (c : Bc.Cfg w) (s : PState w) : Inv K fr c s ↔
    (s.pc = K.loc c.pc ∧ s.regs.rbx = K.cfg.cxtAddr ∧ s.env = c.st.env ∧ s.trace = c.st.trace ∧
     s.budget.toNat = c.budget ∧ s.tapeOk = true ∧ s.regs.rsp = fr.rsp ∧ fr.rsp.toNat % 16 = 0 ∧
     s.stk.length = alignedTemps K.p.temps + fr.saved.length ∧
     s.stk.drop (alignedTemps K.p.temps) = fr.saved ∧
     s.regs.rbp = s.buf + BitVec.ofInt 64 (cellBytes w * (s.lptr - s.base))) :=
  ⟨fun h => ⟨h.pc, h.rbx, h.env, h.trace, h.budget, h.tapeOk, h.rsp, h.align, h.len, h.saved, h.phys⟩,
   fun ⟨a, b, c, d, e, f, g, h, i, j, k⟩ => ⟨a, b, c, d, e, f, g, h, i, j, k⟩⟩
example (fr : Frame) (temps : Nat) (c' : Bc.Cfg w) (s' : PState w) : Final fr temps c' s' ↔
    ((∃ ra, fr.saved = [s'.regs.r15, s'.regs.r14, s'.regs.r13, s'.regs.r12, s'.regs.rbx, s'.regs.rbp, ra]) ∧
     s'.regs.rsp = fr.rsp + BitVec.ofNat 64 (alignedTemps temps * 8) + 56 ∧ s'.stk = [] ∧
     s'.env = c'.st.env ∧ s'.trace = c'.st.trace ∧ ∀ o, s'.tape.get (s'.lptr + o) = c'.st.rd o) :=
  ⟨fun h => ⟨h.saved, h.rsp, h.stk, h.env, h.trace, h.tape⟩, fun ⟨a, b, c, d, e, f⟩ => ⟨a, b, c, d, e, f⟩⟩
example (K : Ctx w) (fr : Frame) (c : Bc.Cfg w) (s : PState w) : Sh K fr c s ↔
    ∃ c2, C11.Sim (C11.liveSet K.p (BcWf.liveSolve K.p) c.pc) c c2 ∧ Inv K fr c2 s ∧ Rel c2 (view s) := Iff.rfl
example (K : Ctx w) (fr : Frame) (s : PState w) (ret : BitVec 64) (c' : Bc.Cfg w) (P : PState w → Prop) :
    Exits K fr s ret c' P ↔
    ∀ k, ∃ n s', run K.cfg (n + k) s = .ret s' ∧ s'.regs.rax = ret ∧ Final fr K.p.temps c' s' ∧ P s' := Iff.rfl
example (K : Ctx w) (s0 : PState w) (ret : BitVec 64) (c' : Bc.Cfg w) (P : PState w → Prop) :
    Returns K s0 ret c' P ↔
    ∀ k, ∃ n s', run K.cfg (n + k) s0 = .ret s' ∧ s'.regs.rax = ret ∧ Result s0 s' c' ∧ P s' := Iff.rfl
example (ins : Bc.Instr w) (nz : Bool) (cond off : Int) : isBr ins nz cond off ↔
    ((nz = false ∧ ins = .brz cond off) ∨ (nz = true ∧ ins = .brnz cond off)) := Iff.rfl

/-- Straight-line code inside `X86Sem`'s subset runs on the program machine exactly as `execAll` says
(`n` bounds the stack slots touched: they must belong to the activation). This is how `selector_sound` of
`Props/C03.lean` is lifted. -/
theorem flow_plain_block {cfg : Cfg} {code : List X86} {xs : List X86} {s : PState w}
    (hat : At cfg code s.pc xs) {m' : MState w} (hx : execAll xs (view s) = some m')
    {n : Nat} (hn : n ≤ s.stk.length) (hslots : ∀ x ∈ xs, SlotOk w n x) :
    ∃ s', steps cfg xs.length s = some s' ∧ view s' = m' ∧ s'.pc = s.pc + sizeAll xs ∧ SameCtl s s' ∧
      s'.stk.drop n = s.stk.drop n := plain_block hat hx hn hslots

/-- The code of the arithmetic / copy selectors touches only stack slots of temporaries of the instruction. -/
theorem flow_arith_slots {sz : Size} {live : Nat} {ins : Bc.Instr w} {xs : List X86}
    (h : emitArith sz live ins = some xs) (hok : ArithOk ins) {n : Nat}
    (htmps : ∀ t ∈ insTmps ins, t < n) : ∀ x ∈ xs, SlotOk w n x := emitArith_slotOk h hok htmps

/-- `brz` / `brnz`, unlimited and limited mode, the bytecode step continues. -/
theorem flow_brz_brnz (K : Ctx w) {fr : Frame} {c : Bc.Cfg w} {s : PState w} {ins : Bc.Instr w}
    {nz : Bool} {cond off : Int} (hi : K.p.insts[c.pc]? = some ins) (hbr : isBr ins nz cond off)
    (hcond : -2147483648 ≤ cond ∧ cond < 2147483648) (hinv : Inv K fr c s) (hrel : Rel c (view s))
    {c' : Bc.Cfg w} (hstep : Bc.step K.p K.limited c = .next c') :
    ∃ n s', steps K.cfg n s = some s' ∧ Inv K fr c' s' ∧ Rel c' (view s') :=
  flow_branch_next K hi hbr hcond hinv hrel hstep

/-- `brz` / `brnz` in limited mode with an exhausted budget (`emit_limit_check`): exit through the
termination label, `rax = 0`. The budget cell keeps its value (`< 2`); the interpreter stores 0. -/
theorem flow_limit_interrupted (K : Ctx w) (htemps : alignedTemps K.p.temps * 8 < 2147483648)
    {fr : Frame} (h7 : fr.saved.length = 7) {c : Bc.Cfg w} {s : PState w} {ins : Bc.Instr w}
    {nz : Bool} {cond off : Int} (hi : K.p.insts[c.pc]? = some ins) (hbr : isBr ins nz cond off)
    (hinv : Inv K fr c s) {c' : Bc.Cfg w} (hstep : Bc.step K.p K.limited c = .interrupted c') (k : Nat) :
    ∃ s', run K.cfg (12 + k) s = .ret s' ∧ s'.regs.rax = 0 ∧ Returned fr K.p.temps s s' ∧
      c.budget < 2 ∧ c' = { c with budget := 0 } :=
  flow_branch_interrupted K htemps h7 hi hbr hinv hstep k

/-- `mov` without bounds check. -/
theorem flow_mov (K : Ctx w) (hsafe : K.safe = false) {fr : Frame} {c : Bc.Cfg w} {s : PState w}
    {shift : Int} (hi : K.p.insts[c.pc]? = some (.mov shift))
    (hsh : -2147483648 ≤ shift ∧ shift < 2147483648) (hinv : Inv K fr c s) (hrel : Rel c (view s))
    {c' : Bc.Cfg w} (hstep : Bc.step K.p K.limited c = .next c') :
    ∃ n s', steps K.cfg n s = some s' ∧ Inv K fr c' s' ∧ Rel c' (view s') :=
  flow_mov_unchecked K hsafe hi hsh hinv hrel hstep

/-- `mov` WITH bounds check: the probe (`lea; sub; [sar;] cmp; jb rel8`) and, when the probe cell is outside
the allocation, the body (`hpbf_context_extend(cxt, 0, 1)` between register saving and restoring, then the
tape pointer is reloaded from the new buffer). `Bnd s`: the allocation is below `2^40` cells, so the 64-bit
index arithmetic does not wrap. -/
theorem flow_mov_safe (K : Ctx w) (hsafe : K.safe = true) {fr : Frame} {c : Bc.Cfg w} {s : PState w}
    {shift : Int} (hi : K.p.insts[c.pc]? = some (.mov shift))
    (hsh : -2147483648 ≤ shift ∧ shift < 2147483648)
    (hwin : -2147483648 < K.p.minAcc ∧ K.p.minAcc < 2147483648 ∧ -2147483648 < K.p.maxAcc ∧
      K.p.maxAcc < 2147483648)
    (hbnd : Bnd s) (hinv : Inv K fr c s) (hrel : Rel c (view s))
    {c' : Bc.Cfg w} (hstep : Bc.step K.p K.limited c = .next c') :
    ∃ lv n s', K.p.live[c.pc]? = some lv ∧ steps K.cfg n s = some s' ∧ Inv K fr c' s' ∧
      RelOn (fun t => lv.testBit t = true) c' (view s') :=
  flow_mov_checked K hsafe hi hsh hwin hbnd hinv hrel hstep

/-- `copy` / `add` / `sub` / `mul` on the program machine. -/
theorem flow_arith_instr (K : Ctx w) {fr : Frame} {c : Bc.Cfg w} {s : PState w} {ins : Bc.Instr w}
    (hi : K.p.insts[c.pc]? = some ins) (hok : ArithOk ins)
    (htmps : ∀ t ∈ insTmps ins, t < alignedTemps K.p.temps)
    (hinv : Inv K fr c s) (hrel : Rel c (view s))
    {c' : Bc.Cfg w} (hstep : Bc.step K.p K.limited c = .next c') :
    ∃ lv n s', K.p.live[c.pc]? = some lv ∧ steps K.cfg n s = some s' ∧ Inv K fr c' s' ∧
      Rel' lv (dstOf ins) c' (view s') := flow_arith K hi hok htmps hinv hrel hstep

/-- `inp`: register saving, `hpbf_context_input`, restoring, `cmp rax, -1; je term`, store. A failed
request leaves through the termination label (`rax = 0`) with the failed request in the trace. -/
theorem flow_input (K : Ctx w) (htemps : alignedTemps K.p.temps * 8 < 2147483648)
    {fr : Frame} (h7 : fr.saved.length = 7) {c : Bc.Cfg w} {s : PState w} {dst : Int}
    (hi : K.p.insts[c.pc]? = some (.inp dst)) (hdst : -2147483648 ≤ dst ∧ dst < 2147483648) (hw8 : 8 ≤ w)
    (hinv : Inv K fr c s) (hrel : Rel c (view s)) :
    (∀ c', Bc.step K.p K.limited c = .next c' → ∃ lv n s', K.p.live[c.pc]? = some lv ∧
      steps K.cfg n s = some s' ∧ Inv K fr c' s' ∧ RelOn (fun t => lv.testBit t = true) c' (view s')) ∧
    (∀ c', Bc.step K.p K.limited c = .stop c' → ∀ k, ∃ n s', run K.cfg (n + k) s = .ret s' ∧
      s'.regs.rax = 0 ∧ Final fr K.p.temps c' s' ∧ s'.budget = s.budget) :=
  flow_inp K htemps h7 hi hdst hw8 hinv hrel

/-- `out`: likewise with `hpbf_context_output`, `test al, al; jne term`. -/
theorem flow_output (K : Ctx w) (htemps : alignedTemps K.p.temps * 8 < 2147483648)
    {fr : Frame} (h7 : fr.saved.length = 7) {c : Bc.Cfg w} {s : PState w} {src : Int}
    (hi : K.p.insts[c.pc]? = some (.out src)) (hsrc : -2147483648 ≤ src ∧ src < 2147483648)
    (hinv : Inv K fr c s) (hrel : Rel c (view s)) :
    (∀ c', Bc.step K.p K.limited c = .next c' → ∃ lv n s', K.p.live[c.pc]? = some lv ∧
      steps K.cfg n s = some s' ∧ Inv K fr c' s' ∧ RelOn (fun t => lv.testBit t = true) c' (view s')) ∧
    (∀ c', Bc.step K.p K.limited c = .stop c' → ∀ k, ∃ n s', run K.cfg (n + k) s = .ret s' ∧
      s'.regs.rax = 0 ∧ Final fr K.p.temps c' s' ∧ s'.budget = s.budget) :=
  flow_out K htemps h7 hi hsrc hinv hrel

/-- Which registers the call sequences save: those of the live temporaries 4..10 (`rsi rdi rdx r8–r11`). -/
theorem flow_saved_regs {live : Nat} {rs : List Reg} (h : savedRegs live = some rs) (r : Reg) :
    r ∈ rs ↔ ∃ t, 4 ≤ t ∧ t < 11 ∧ live.testBit t = true ∧ tmpReg t = some r := savedRegs_mem h r

/-- The prologue, from the state `enter_jit_code` calls the function in. -/
theorem flow_prologue (K : Ctx w) (htemps : alignedTemps K.p.temps * 8 < 2147483648) (hw : 8 ≤ w ∧ w ≤ 64)
    {s0 : PState w} {ra : BitVec 64} (hE : Entry K s0 ra) (env : Env) (henv : s0.env = env)
    (htr : s0.trace = []) :
    ∃ s T, steps K.cfg 9 s0 = some s ∧
      Inv K (frameOf K s0 ra) { pc := 0, temps := T, budget := s0.budget.toNat, st := State.init env } s ∧
      Rel { pc := 0, temps := T, budget := s0.budget.toNat, st := State.init env } (view s) ∧
      s.buf = s0.buf ∧ s.size = s0.size ∧ s.base = s0.base := prologue_run K htemps hw hE env henv htr

/-- The fall-through exit: `rax = 1`, callee-saved registers restored. -/
theorem flow_epilogue (K : Ctx w) (htemps : alignedTemps K.p.temps * 8 < 2147483648)
    {fr : Frame} (h7 : fr.saved.length = 7) {c : Bc.Cfg w} {s : PState w}
    (hpc : c.pc = K.n) (hinv : Inv K fr c s) (hrel : Rel c (view s)) (k : Nat) :
    ∃ s', run K.cfg (10 + k) s = .ret s' ∧ s'.regs.rax = 1 ∧ Final fr K.p.temps c s' ∧
      s'.budget = s.budget := flow_halt K htemps h7 hpc hinv hrel k

/-- The state `Driver7` starts the machine in is an entry state. -/
theorem flow_init_state (K : Ctx w) (h0 : K.p.minAcc ≤ 0 ∧ 0 ≤ K.p.maxAcc)
    (hr : -2147483648 ≤ K.p.minAcc ∧ K.p.maxAcc < 2147483648) (buf0 rsp0 ra : BitVec 64)
    (hrsp : rsp0.toNat % 16 = 8) (budget : Nat) (hb : budget < 2 ^ 64) (env : Env) :
    let s0 : PState w := initState K.cfg buf0 rsp0 ra K.p.minAcc K.p.maxAcc budget env
    Entry K s0 ra ∧ s0.env = env ∧ s0.trace = [] ∧ s0.budget.toNat = budget :=
  initState_entry K h0 hr buf0 rsp0 ra hrsp budget hb env

example (K : Ctx w) : Good K ↔
    (BcWf.check K.p 11 = true ∧ (-2147483648 < K.p.minAcc ∧ K.p.maxAcc < 2147483648) ∧
     alignedTemps K.p.temps * 8 < 2147483648 ∧
     (∀ (i : Nat) (sh : Int), K.p.insts[i]? = some (Bc.Instr.mov sh) → -2147483648 ≤ sh ∧ sh < 2147483648)) :=
  ⟨fun h => ⟨h.check, h.win, h.temps, h.shift⟩, fun ⟨a, b, c, d⟩ => ⟨a, b, c, d⟩⟩
example (s : PState w) : Bnd s ↔
    (s.size.toNat < 2 ^ 40 ∧ -(2 ^ 40) < s.lptr - s.base ∧ s.lptr - s.base < 2 ^ 40) := Iff.rfl
example (K : Ctx w) (s : PState w) : NoOOM K s ↔
    (K.safe = true → ∀ n s', steps K.cfg n s = some s' → Bnd s') := Iff.rfl

/-- `prog_simulation`: every bytecode step from a related state is matched by finitely many machine steps
to a related state (`.next`), or by a return of the function with the result the Rust expects (`.halt`: 1,
`.stop` / `.interrupted`: 0). `.bad` does not occur for checked programs (C11). -/
theorem prog_simulation (K : Ctx w) (G : Good K) {fr : Frame} (h7 : fr.saved.length = 7) {c : Bc.Cfg w}
    {s : PState w} (hbnd : K.safe = true → Bnd s) (hsh : Sh K fr c s) :
    match Bc.step K.p K.limited c with
    | .next c' => ∃ n s', steps K.cfg n s = some s' ∧ Sh K fr c' s'
    | .halt c' => Exits K fr s 1 c' (fun s' => s'.budget.toNat = c'.budget)
    | .stop c' => Exits K fr s 0 c' (fun s' => s'.budget.toNat = c'.budget)
    | .interrupted c' => Exits K fr s 0 c' (fun s' => s'.budget.toNat < 2 ∧ c'.budget = 0)
    | .bad _ => True := prog_step K G h7 hbnd hsh

/-- Runs from a related state. -/
theorem prog_run_from (K : Ctx w) (G : Good K) {fr : Frame} (h7 : fr.saved.length = 7) (fuel : Nat)
    {c : Bc.Cfg w} {s : PState w} (hoom : NoOOM K s) (hsh : Sh K fr c s) :
    match Bc.runCfg K.p K.limited fuel c with
    | .done c' => Exits K fr s 1 c' (fun s' => s'.budget.toNat = c'.budget)
    | .stopped c' => Exits K fr s 0 c' (fun s' => s'.budget.toNat = c'.budget)
    | .interrupted c' => Exits K fr s 0 c' (fun s' => s'.budget.toNat < 2 ∧ c'.budget = 0)
    | .bad _ => True
    | .outOfFuel c' => ∃ n s', steps K.cfg n s = some s' ∧ Sh K fr c' s' := prog_runCfg K G h7 fuel hoom hsh

/-- `prog_run`: the compiled function, called as `enter_jit_code` calls it, against `Bc.run` (the threaded
interpreter from zeroed temporaries): finished runs return with the same event trace (and environment,
tape, budget) and the result the Rust expects; unfinished ones have reached a state with the same trace. -/
theorem prog_run (p : Bc.Program w) (limited safe : Bool) (cfg : Cfg) {code : List X86}
    (hcomp : compileX86 w p limited safe cfg.aE.toNat cfg.aI.toNat cfg.aO.toNat = some code)
    (hfetch : cfg.fetch = fetchFast (fetchTable code))
    (hsmall : sizeAll code < 2 ^ 31)
    (hIO : cfg.aI ≠ cfg.aO) (hEI : cfg.aE ≠ cfg.aI) (hEO : cfg.aE ≠ cfg.aO)
    (hchk : BcWf.check p 11 = true)
    (hwin : -2147483648 < p.minAcc ∧ p.maxAcc < 2147483648)
    (htemps : alignedTemps p.temps * 8 < 2147483648)
    (hshift : ∀ (i : Nat) (sh : Int), p.insts[i]? = some (Bc.Instr.mov sh) → -2147483648 ≤ sh ∧ sh < 2147483648)
    (buf0 rsp0 ra : BitVec 64) (hrsp : rsp0.toNat % 16 = 8)
    (budget : Nat) (hb : budget < 2 ^ 64) (hlim : (limited && budget == 0) = false) (env : Env)
    (hoom : safe = true → ∀ n s', steps cfg n (initState (w := w) cfg buf0 rsp0 ra p.minAcc p.maxAcc budget env)
      = some s' → Bnd s') (fuel : Nat) :
    ∃ K : Ctx w, K.p = p ∧ K.cfg = cfg ∧ K.limited = limited ∧
      let s0 : PState w := initState cfg buf0 rsp0 ra p.minAcc p.maxAcc budget env
      match Bc.run p limited budget fuel env with
      | .done c' => Returns K s0 1 c' (fun s' => s'.budget.toNat = c'.budget)
      | .stopped c' => Returns K s0 0 c' (fun s' => s'.budget.toNat = c'.budget)
      | .interrupted c' => Returns K s0 0 c' (fun s' => s'.budget.toNat < 2 ∧ c'.budget = 0)
      | .bad _ => False
      | .outOfFuel c' => ∃ n s', steps cfg n s0 = some s' ∧ s'.trace = c'.st.trace ∧ s'.env = c'.st.env :=
  prog_run_compiled p limited safe cfg hcomp hfetch hsmall hIO hEI hEO hchk hwin htemps hshift
    buf0 rsp0 ra hrsp budget hb hlim env hoom fuel

/-! ## Non-vacuity -/

/-- `inp m0; t0 := m0; while m0 { out m0; m0 -= 1; m1 += t0 }; m2 := t0` – input, output, a loop with both
branch forms, a temporary that is live across the `out` call (bit 0 of the live bitmaps). -/
def exFlow : Bc.Program 8 :=
  { temps := 1, minAcc := 0, maxAcc := 2,
    live := #[0, 0, 0, 1, 1, 1, 0, 0],
    insts := #[.inp 0, .copy (.tmp 0) (.mem 0), .brz 0 5, .out 0, .add (.mem 0) (.mem 0) (.imm 255#8),
               .add (.mem 1) (.mem 1) (.tmp 0), .brnz 0 (-3), .copy (.mem 2) (.tmp 0)] }

def exCfg (code : List X86) : Cfg :=
  { fetch := fetchFast (fetchTable code), aE := 0x7f0000001000, aI := 0x7f0000002000, aO := 0x7f0000003000,
    cxtAddr := 0x7ffd00001000, junk := fun _ => 0xBAD0BAD0BAD00000, newBuf := fun b => b + 0x10000000 }

theorem exFlow_no_mov (i : Nat) (sh : Int) : exFlow.insts[i]? ≠ some (Bc.Instr.mov sh) := by
  intro h
  rcases i with _|_|_|_|_|_|_|_|i <;> simp [exFlow] at h

def exEnv : Env := { input := some [.byte 3], sink := true, outOk := none }

example : BcWf.check exFlow 11 = true := by decide +kernel
example : ((compileX86 8 exFlow true false 0x7f0000001000 0x7f0000002000 0x7f0000003000).map
    (fun code => (code.length, sizeAll code))) = some (50, 182) := by decide +kernel
/-- "The run finished normally with this trace and budget." -/
def doneWith (o : Bc.Outcome 8) (tr : List Ev) (b : Nat) : Bool :=
  match o with
  | .done c' => c'.st.trace == tr && c'.budget == b
  | _ => false

/-- The bytecode run in limited mode with budget 10: finished, three output events after the input. -/
example : doneWith (Bc.run exFlow true 10 100 exEnv) [.out 1, .out 2, .out 3, .inp 3] 6 = true := by
  decide +kernel

/-- Every hypothesis of `prog_run` holds for this program (limited mode, code generation without bounds
checks so that the `NoOOM` hypothesis is void, budget 10), hence the compiled function returns 1 after finitely many machine steps with exactly the event
trace of the bytecode run and 6 in the budget cell, all callee-saved registers restored. -/
example : ∃ code, compileX86 8 exFlow true false 0x7f0000001000 0x7f0000002000 0x7f0000003000 = some code ∧
    ∃ n, ∃ s' : PState 8, run (exCfg code) n
        (initState (exCfg code) 0x560000000000 0x7ffd00000ff8 0x555500001234 0 2 10 exEnv) = .ret s' ∧
      s'.regs.rax = 1 ∧ s'.trace = [.out 1, .out 2, .out 3, .inp 3] ∧ s'.budget.toNat = 6 ∧
      s'.regs.rsp = 0x7ffd00000ff8 + 8 ∧ s'.regs.rbx = 0xBAD0BAD0BAD00000 := by
  cases hc : compileX86 8 exFlow true false 0x7f0000001000 0x7f0000002000 0x7f0000003000 with
  | none =>
    have : (compileX86 8 exFlow true false 0x7f0000001000 0x7f0000002000 0x7f0000003000).isSome = true := by
      decide +kernel
    rw [hc] at this; cases this
  | some code =>
    refine ⟨code, rfl, ?_⟩
    have hsmall : sizeAll code < 2 ^ 31 := by
      have : ((compileX86 8 exFlow true false 0x7f0000001000 0x7f0000002000 0x7f0000003000).all
          (fun c => decide (sizeAll c < 2 ^ 31))) = true := by decide +kernel
      rw [hc] at this; simpa using this
    obtain ⟨K, hp, hcfg, hlim, hrun⟩ := prog_run exFlow true false (exCfg code) hc rfl hsmall
      (by show (0x7f0000002000 : BitVec 64) ≠ 0x7f0000003000; decide)
      (by show (0x7f0000001000 : BitVec 64) ≠ 0x7f0000002000; decide)
      (by show (0x7f0000001000 : BitVec 64) ≠ 0x7f0000003000; decide)
      (by decide +kernel) (by decide) (by decide)
      (fun i sh h => absurd h (exFlow_no_mov i sh))
      0x560000000000 0x7ffd00000ff8 0x555500001234 (by decide) 10 (by decide) (by decide) exEnv (fun h => by cases h) 100
    have hb : doneWith (Bc.run exFlow true 10 100 exEnv) [.out 1, .out 2, .out 3, .inp 3] 6 = true := by
      decide +kernel
    simp only at hrun
    cases hr : Bc.run exFlow true 10 100 exEnv with
    | done c' =>
      rw [hr] at hrun hb
      obtain ⟨n, s', h1, h2, h3, h4⟩ := hrun 0
      simp only [doneWith, Bool.and_eq_true, beq_iff_eq] at hb
      have h4 : s'.budget.toNat = c'.budget := h4
      refine ⟨n + 0, s', ?_, h2, by rw [h3.trace, hb.1], by rw [h4, hb.2], h3.rsp, h3.rbx⟩
      rw [hcfg] at h1; exact h1
    | _ => rw [hr] at hb; cases hb

end C03
end Hpbf

#print axioms Hpbf.C03.layout_decompose
#print axioms Hpbf.C03.layout_locs
#print axioms Hpbf.C03.layout_instr_at
#print axioms Hpbf.C03.layout_epilogue_at
#print axioms Hpbf.C03.layout_jcc_target
#print axioms Hpbf.C03.layout_term_target
#print axioms Hpbf.C03.layout_epilogue
#print axioms Hpbf.C03.layout_skip8
#print axioms Hpbf.C03.layout_saved_regs
#print axioms Hpbf.C03.layout_item_size
#print axioms Hpbf.C03.layout_items_size
#print axioms Hpbf.C03.prog_fetch_fast
#print axioms Hpbf.C03.prog_fetch
#print axioms Hpbf.C03.flow_plain_block
#print axioms Hpbf.C03.flow_arith_slots
#print axioms Hpbf.C03.flow_brz_brnz
#print axioms Hpbf.C03.flow_limit_interrupted
#print axioms Hpbf.C03.flow_mov
#print axioms Hpbf.C03.flow_mov_safe
#print axioms Hpbf.C03.flow_arith_instr
#print axioms Hpbf.C03.flow_input
#print axioms Hpbf.C03.flow_output
#print axioms Hpbf.C03.flow_saved_regs
#print axioms Hpbf.C03.flow_prologue
#print axioms Hpbf.C03.flow_epilogue
#print axioms Hpbf.C03.flow_init_state
#print axioms Hpbf.C03.prog_simulation
#print axioms Hpbf.C03.prog_run_from
#print axioms Hpbf.C03.prog_run
