/-
Property C01 (part: the optimiser's IR-level DEAD STORE ELIMINATION, `src/opt.rs` `OptDseState`,
`Program::dead_store_elimination`; model `Hpbf/OptDse.lean`, tied to the Rust by the suite `optdse`).

The pass runs between two optimiser rounds at levels 2 and 3.  It consumes facts of the analysis left by the
previous round (`DAnal`: `at_most_once`, `at_least_once`, `has_shift`, `reads`, one node per nested block).
That round is not modelled: the soundness of the facts is the HYPOTHESIS `AnalSound` below, stated as weakly
as the proof allows (each clause is what the pass USES the fact for).

(A) `eliminate_preserves`: if the pass succeeds on `b` with analysis `anal`, no `calc` of `b` assigns a cell twice
    (`NoDupTargets`), and the facts are sound for the run of `b` under `env`, then `b` and the result `b'` have
    the same observable behaviour under `env`: finished / stopped runs correspond (same events, environment,
    pointer; the final TAPE may differ – `tape_may_differ`), and runs cut off by fuel have the same events.
    In fact the two runs are in LOCKSTEP (`eliminate_lockstep`): same fuel, same mode, same budget – the pass
    keeps every instruction (a `calc` may become empty) – so limited mode comes for free
    (`eliminate_preserves_limited`: facts sound for the unlimited run are sound for every limited run).
(B) `eliminate_total` / `eliminate_none_iff`: the pass fails (the Rust panics) exactly when some nested block has
    no analysis node (`ShapeOk`).
(C) `eliminate_shape`: the result is the input with some assignments deleted.
(D) Every hypothesis is necessary: for each one a program + analysis + environment violating ONLY it, on which
    the pass changes the output (`*_necessary`).  In particular the pass is WRONG on a `calc` with a repeated
    target (`duplicate_targets_unsound`) – such `calc`s are not produced by the optimiser.
(E) `analSound_of_check`: for runs that end within `N` steps the hypothesis is a boolean test; it is used for the
    examples here and by the validation of the real analyses (0 violations on 3569 real (program, analysis) pairs
    × 3 environments).

What the pass needs of each fact (`AnalSoundAt`, four clauses; `c` ranges over the configurations REACHED by the
run of `b` under `env`; the analysis node of a nested block is found from the continuation stack, `analOf`):
* `has_shift = false` (syntactic): the block's `shift` is `0` and its nested blocks are marked `has_shift = false`;
* `at_least_once = true`: whenever the run reaches the loop / if, its condition cell is non-zero;
* `at_most_once = true`: whenever an iteration of the loop ends, the re-tested condition is zero (nothing for an
  `if`);
* `reads` (needed only with `has_shift = false`, only for loops, only for the SECOND and later iterations):
  whenever an iteration ends and another one starts, a cell not in `reads` is not read during that new iteration
  before it has been written (the re-test of the condition at the end of the iteration is NOT counted).

The proofs are in `Hpbf/Proofs/C01Dse{Defs,Base,Struct,Sem,Dead,Inv,Step,Flow,Main,Straight,Check,Ex}.lean`.
-/
import Hpbf.Proofs.C01DseEx
import Hpbf.Proofs.C01DseStraight
import Hpbf.Proofs.C01Parse

namespace Hpbf
namespace C01Dse
open Ir OptDse

variable {w : Nat}

/-! ### vocabulary (transparent) -/

/-- The `k`-th sub-analysis from the end; the analysis node of the block being executed. -/
example (A : DAnal) (k : Nat) :
    subAt A k = if k ≤ A.subs.length then A.subs[A.subs.length - k]? else none := rfl
example (top : DAnal) : analOf (w := w) top [] = some top := rfl
example (top : DAnal) (k : Cont w) (ks : List (Cont w)) :
    analOf top (k :: ks) =
      (match analOf top ks with
       | some A => subAt A (nblocks (contRest k) + 1)
       | none => none) := rfl
example (l : List (Instr w)) : nblocks l = l.countP isBlock := rfl

/-- Reachable configurations. -/
example (lim : Bool) (bud : Nat) (b : Block w) (env : Env) (c : Cfg w) :
    Reach lim bud b env c ↔ ∃ f, cfgAt lim f ⟨b.insts, [], bud, State.init env⟩ = some c := Iff.rfl
example (lim : Bool) (c : Cfg w) : cfgAt lim 0 c = some c := rfl
example (lim : Bool) (f : Nat) (c : Cfg w) :
    cfgAt lim (f + 1) c = (match step lim c with | .next c' => cfgAt lim f c' | _ => none) := rfl

/-- The facts. -/
example (b : Block w) (anal : DAnal) : ShiftFact b anal ↔ shiftOkL anal b.insts = true := Iff.rfl
example (lim : Bool) (bud : Nat) (b : Block w) (anal : DAnal) (env : Env) :
    AtLeastFact lim bud b anal env ↔
      ∀ (c : Cfg w), Reach lim bud b env c →
        ∀ (i : Instr w) (rest : List (Instr w)) (cond shift : Int) (body : List (Instr w)) (A0 A1 : DAnal),
          c.cur = i :: rest → blockParts i = some (cond, shift, body) →
          analOf anal c.conts = some A0 → subAt A0 (nblocks rest + 1) = some A1 →
          A1.atLeastOnce = true → c.st.rd cond ≠ 0#w := Iff.rfl
example (lim : Bool) (bud : Nat) (b : Block w) (anal : DAnal) (env : Env) :
    AtMostFact lim bud b anal env ↔
      ∀ (c : Cfg w), Reach lim bud b env c →
        ∀ (cond shift : Int) (body rest : List (Instr w)) (ks : List (Cont w)) (A0 : DAnal),
          c.cur = [] → c.conts = .loopEnd cond shift body rest :: ks →
          analOf anal c.conts = some A0 → A0.atMostOnce = true → (c.st.mov shift).rd cond = 0#w := Iff.rfl
example (lim : Bool) (bud : Nat) (b : Block w) (anal : DAnal) (env : Env) :
    ReadsFact lim bud b anal env ↔
      ∀ (c : Cfg w), Reach lim bud b env c →
        ∀ (cond shift : Int) (body rest : List (Instr w)) (ks : List (Cont w)) (A0 : DAnal) (c1 : Cfg w),
          c.cur = [] → c.conts = .loopEnd cond shift body rest :: ks →
          analOf anal c.conts = some A0 → A0.hasShift = false → (c.st.mov shift).rd cond ≠ 0#w →
          step lim c = .next c1 →
          ∀ (v : Int) (n : Nat), v ∉ A0.reads →
            unexposedN lim c.conts.length (c1.st.ptr + v) n c1 = true := Iff.rfl
example (lim : Bool) (bud : Nat) (b : Block w) (anal : DAnal) (env : Env) :
    AnalSoundAt lim bud b anal env ↔
      (ShiftFact b anal ∧ AtLeastFact lim bud b anal env ∧ AtMostFact lim bud b anal env ∧
        ReadsFact lim bud b anal env) :=
  ⟨fun h => ⟨h.shift, h.atLeast, h.atMost, h.reads⟩, fun ⟨a, b, c, d⟩ => ⟨a, b, c, d⟩⟩
example (b : Block w) (anal : DAnal) (env : Env) : AnalSound b anal env ↔ AnalSoundAt false 0 b anal env := Iff.rfl

/-- "Not read before written until the iteration running at depth `d` is over". -/
example (lim : Bool) (d : Nat) (a : Int) (c : Cfg w) : unexposedN lim d a 0 c = true := rfl
example (lim : Bool) (d : Nat) (a : Int) (n : Nat) (c : Cfg w) :
    unexposedN lim d a (n + 1) c =
      (if c.cur.isEmpty && decide (c.conts.length ≤ d) then true
       else !(stepReads c).contains a &&
         ((stepWrites c).contains a ||
           match step lim c with
           | .next c' => unexposedN lim d a n c'
           | _ => true)) := rfl

/-- The syntactic part: `has_shift = false` means shift `0`, recursively. -/
example (A : DAnal) (cond shift : Int) (body : List (Instr w)) (once : Bool) (k : Nat) :
    shiftOkI A (.loop cond shift body once) k =
      (match subAt A k with
       | some A1 =>
         (A1.hasShift || (shift == 0 && (usedSubs A1 (nblocks body)).all (fun a => !a.hasShift)))
           && shiftOkL A1 body
       | none => true) := by rw [shiftOkI]; cases subAt A k <;> rfl
example (A : DAnal) (i : Instr w) (rest : List (Instr w)) :
    shiftOkL A (i :: rest) = (shiftOkI A i (nblocks rest + 1) && shiftOkL A rest) := by rw [shiftOkL]
example (A : DAnal) (n : Nat) : usedSubs A n = A.subs.drop (A.subs.length - n) := rfl

example (b : Block w) : NoDupTargets b ↔ noDupL b.insts = true := Iff.rfl
example (calcs : List (Int × Expr w)) : noDupI (.calc calcs) = decide ((calcs.map Prod.fst).Nodup) := by
  rw [noDupI]
example (b : Block w) (anal : DAnal) : ShapeOk b anal ↔ shapeOkL anal b.insts = true := Iff.rfl

/-- Observations. -/
example (c c' : Cfg w) : Obs c c' ↔
    (c'.st.trace = c.st.trace ∧ c'.st.env = c.st.env ∧ c'.st.ptr = c.st.ptr ∧ c'.budget = c.budget) := Iff.rfl
example (c c' : Cfg w) : ObsEq (.done c) (.done c') = Obs c c' := rfl
example (c c' : Cfg w) : ObsEq (.stopped c) (.stopped c') = Obs c c' := rfl
example (c c' : Cfg w) : ObsEq (.interrupted c) (.interrupted c') = Obs c c' := rfl
example (c c' : Cfg w) : ObsEq (.outOfFuel c) (.outOfFuel c') = Obs c c' := rfl
example (c c' : Cfg w) : ObsEq (.done c) (.stopped c') = False := rfl
/-- `traceOf` is `C01.traceOf`. -/
example : @traceOf w = @C01.traceOf w := by funext o; cases o <;> rfl

/-! ### (A) the pass preserves behaviour -/

/-- LOCKSTEP, any mode: same fuel, same budget, same kind of ending, same events / environment / pointer /
remaining budget. -/
theorem eliminate_lockstep {lim : Bool} {bud : Nat} {b b' : Block w} {anal : DAnal} {env : Env}
    (hE : eliminate b anal = some b') (hnd : NoDupTargets b) (hS : AnalSoundAt lim bud b anal env)
    (f : Nat) : ObsEq (run b lim bud f env) (run b' lim bud f env) :=
  elim_lockstep hE hnd hS f

/-- Unlimited mode: forward, backward, prefix. -/
theorem eliminate_preserves {b b' : Block w} {anal : DAnal} {env : Env}
    (hE : eliminate b anal = some b') (hnd : NoDupTargets b) (hS : AnalSound b anal env) :
    (∀ f c, run b false 0 f env = .done c → ∃ f' c', run b' false 0 f' env = .done c' ∧
      c'.st.trace = c.st.trace ∧ c'.st.env = c.st.env ∧ c'.st.ptr = c.st.ptr) ∧
    (∀ f c, run b false 0 f env = .stopped c → ∃ f' c', run b' false 0 f' env = .stopped c' ∧
      c'.st.trace = c.st.trace ∧ c'.st.env = c.st.env ∧ c'.st.ptr = c.st.ptr) ∧
    (∀ f' c', run b' false 0 f' env = .done c' → ∃ f c, run b false 0 f env = .done c ∧
      c'.st.trace = c.st.trace ∧ c'.st.env = c.st.env ∧ c'.st.ptr = c.st.ptr) ∧
    (∀ f' c', run b' false 0 f' env = .stopped c' → ∃ f c, run b false 0 f env = .stopped c ∧
      c'.st.trace = c.st.trace ∧ c'.st.env = c.st.env ∧ c'.st.ptr = c.st.ptr) ∧
    (∀ f', ∃ f, C01.traceOf (run b false 0 f env) = C01.traceOf (run b' false 0 f' env)) ∧
    (∀ f, ∃ f', C01.traceOf (run b' false 0 f' env) = C01.traceOf (run b false 0 f env)) := by
  have L := elim_lockstep hE hnd hS
  have ht : @C01.traceOf w = @traceOf w := by funext o; cases o <;> rfl
  refine ⟨fun f c h => ?_, fun f c h => ?_, fun f c' h => ?_, fun f c' h => ?_, fun f => ⟨f, ?_⟩,
    fun f => ⟨f, ?_⟩⟩
  · obtain ⟨c', h1, h2⟩ := (L f).done_left h
    exact ⟨f, c', h1, h2.1, h2.2.1, h2.2.2.1⟩
  · obtain ⟨c', h1, h2⟩ := (L f).stopped_left h
    exact ⟨f, c', h1, h2.1, h2.2.1, h2.2.2.1⟩
  · obtain ⟨c, h1, h2⟩ := (L f).done_right h
    exact ⟨f, c, h1, h2.1, h2.2.1, h2.2.2.1⟩
  · obtain ⟨c, h1, h2⟩ := (L f).stopped_right h
    exact ⟨f, c, h1, h2.1, h2.2.1, h2.2.2.1⟩
  · rw [ht]; exact (traceOf_eq_of_obsEq (L f)).symm
  · rw [ht]; exact traceOf_eq_of_obsEq (L f)

/-- Facts that are sound for the unlimited run are sound for every limited run (it is a prefix of it). -/
theorem analSound_limited {b : Block w} {anal : DAnal} {env : Env} (h : AnalSound b anal env) (bud : Nat) :
    AnalSoundAt true bud b anal env :=
  analSound_lim h bud

/-- Limited mode: the pass does not change the number of loop / if iterations, which is what the budget
counts; interrupted runs correspond too (same events, environment, pointer after unwinding). -/
theorem eliminate_preserves_limited {b b' : Block w} {anal : DAnal} {env : Env}
    (hE : eliminate b anal = some b') (hnd : NoDupTargets b) (hS : AnalSound b anal env) (bud f : Nat) :
    ObsEq (run b true bud f env) (run b' true bud f env) :=
  elim_lockstep hE hnd (analSound_lim hS bud) f

/-- Programs without loops / ifs: NO analysis hypothesis (pure backward liveness with "nothing runs after the
end of the program"); the pass always succeeds on them. -/
theorem eliminate_preserves_straightline {b : Block w} (anal : DAnal) (hb : StraightLine b)
    (hnd : NoDupTargets b) :
    ∃ b', eliminate b anal = some b' ∧
      ∀ (lim : Bool) (bud f : Nat) (env : Env), ObsEq (run b lim bud f env) (run b' lim bud f env) := by
  obtain ⟨b', hb'⟩ := elim_total (b := b) (anal := anal) (shapeOkL_straight anal b.insts hb)
  exact ⟨b', hb', fun lim bud f env => elim_lockstep hb' hnd (analSound_straight lim bud anal env hb) f⟩
example (b : Block w) : StraightLine b ↔ ∀ i ∈ b.insts, isBlock i = false := Iff.rfl

/-- The unlimited interpreter is never interrupted (so `eliminate_preserves` covers all its endings). -/
theorem never_interrupted (b : Block w) (f : Nat) (env : Env) (c : Cfg w) :
    run b false 0 f env ≠ .interrupted c :=
  C01.runCfg_not_interrupted _ _ _

/-- The final tape may differ: a trailing store is deleted. -/
theorem tape_may_differ : ∃ (b b' : Block 8) (anal : DAnal) (env : Env),
    eliminate b anal = some b' ∧ NoDupTargets b ∧ AnalSound b anal env ∧
    ∃ c c', run b false 0 5 env = .done c ∧ run b' false 0 5 env = .done c' ∧
      c.st.tape.get 0 = 5#8 ∧ c'.st.tape.get 0 = 0#8 :=
  ⟨Ex.exTape, Ex.exTape', Ex.top [], Ex.envO, Ex.exTape_elim, by decide, Ex.exTape_sound, Ex.exTape_differs⟩

/-! ### (B) totality -/

theorem eliminate_total {b : Block w} {anal : DAnal} (h : ShapeOk b anal) :
    ∃ b', eliminate b anal = some b' :=
  elim_total h

theorem eliminate_none_iff {b : Block w} {anal : DAnal} : eliminate b anal = none ↔ ¬ ShapeOk b anal :=
  elim_none_iff

example : eliminate Ex.exAM (Ex.top []) = none ∧ ¬ ShapeOk Ex.exAM (Ex.top []) := Ex.exShape

/-! ### (C) the result is the input with some assignments deleted -/

/-- Same loops / ifs / inputs / outputs in the same order (same conditions, shifts, `once` flags); every `calc`
is a sub-list of the original one. -/
theorem eliminate_shape {b b' : Block w} {anal : DAnal} (h : eliminate b anal = some b') :
    b'.shift = b.shift ∧ SubL b.insts b'.insts :=
  eliminate_sub h

example (src : Int) : SubI (w := w) (.output src) (.output src) := .output src
example (dst : Int) : SubI (w := w) (.input dst) (.input dst) := .input dst
example (calcs calcs' : List (Int × Expr w)) (h : calcs'.Sublist calcs) : SubI (.calc calcs) (.calc calcs') :=
  .calc h
example (cond shift : Int) (body body' : List (Instr w)) (once : Bool) (h : SubL body body') :
    SubI (.loop cond shift body once) (.loop cond shift body' once) := .loop cond shift once h
example (cond shift : Int) (body body' : List (Instr w)) (h : SubL body body') :
    SubI (.ifnz cond shift body) (.ifnz cond shift body') := .ifnz cond shift h
example : SubL (w := w) [] [] := .nil
example (i i' : Instr w) (l l' : List (Instr w)) (h1 : SubI i i') (h2 : SubL l l') : SubL (i :: l) (i' :: l') :=
  .cons h1 h2

/-! ### (E) the hypothesis as a boolean test on runs that end within `N` steps -/

theorem analSound_of_check {lim : Bool} {bud : Nat} {b : Block w} {anal : DAnal} {env : Env} (N : Nat)
    (h : checkSound lim bud b anal env N = true) : AnalSoundAt lim bud b anal env :=
  analSoundAt_of_check N h

/-! ### the hypotheses are satisfiable (a loop whose back edge is looked through; two deletions) -/

example : eliminate Ex.exMain Ex.anMain = some Ex.exMain' := Ex.exMain_elim
example : NoDupTargets Ex.exMain ∧ AnalSound Ex.exMain Ex.anMain Ex.envO ∧
    AnalSound Ex.exMain Ex.anMain Ex.envRefuse :=
  ⟨Ex.exMain_nodup, Ex.exMain_sound, Ex.exMain_sound_refuse⟩
example : Ex.doneWith Ex.exMain Ex.exMain' Ex.envO 40 [.out 2, .out 3] [.out 2, .out 3] := Ex.exMain_runs
example : ∃ c c', run Ex.exMain false 0 40 Ex.envRefuse = .stopped c ∧
    run Ex.exMain' false 0 40 Ex.envRefuse = .stopped c' ∧ c.st.trace = [.outFail 2, .out 3] ∧
    c'.st.trace = [.outFail 2, .out 3] := Ex.exMain_stops

/-! ### (D) every hypothesis is necessary -/

/-- `at_least_once` claimed for an `if` that is not entered: the output changes (7 becomes 0). -/
theorem atLeast_necessary : ∃ (b b' : Block 8) (anal : DAnal) (env : Env),
    eliminate b anal = some b' ∧ NoDupTargets b ∧ ShiftFact b anal ∧ AtMostFact false 0 b anal env ∧
    ReadsFact false 0 b anal env ∧ Ex.doneWith b b' env 10 [.out 7] [.out 0] :=
  ⟨Ex.exAL, Ex.exAL', Ex.anAL, Ex.envO, Ex.exAL_elim, Ex.exAL_others.1, Ex.exAL_others.2.1,
    Ex.exAL_others.2.2.1, Ex.exAL_others.2.2.2, Ex.exAL_differs⟩

/-- `at_most_once` claimed for a loop with two iterations. -/
theorem atMost_necessary : ∃ (b b' : Block 8) (anal : DAnal) (env : Env),
    eliminate b anal = some b' ∧ NoDupTargets b ∧ ShiftFact b anal ∧ AtLeastFact false 0 b anal env ∧
    ReadsFact false 0 b anal env ∧ Ex.doneWith b b' env 20 [.out 5, .out 0] [.out 0, .out 0] :=
  ⟨Ex.exAM, Ex.exAM', Ex.anAM, Ex.envO, Ex.exAM_elim, Ex.exAM_others.1, Ex.exAM_others.2.1,
    Ex.exAM_others.2.2.1, Ex.exAM_others.2.2.2, Ex.exAM_differs⟩

/-- A cell read at the start of the second iteration is missing from `reads`. -/
theorem reads_necessary : ∃ (b b' : Block 8) (anal : DAnal) (env : Env),
    eliminate b anal = some b' ∧ NoDupTargets b ∧ ShiftFact b anal ∧ AtLeastFact false 0 b anal env ∧
    AtMostFact false 0 b anal env ∧ Ex.doneWith b b' env 20 [.out 5, .out 0] [.out 0, .out 0] :=
  ⟨Ex.exAM, Ex.exAM', Ex.anRD, Ex.envO, Ex.exRD_elim, Ex.exRD_others.1, Ex.exRD_others.2.1,
    Ex.exRD_others.2.2.1, Ex.exRD_others.2.2.2, Ex.exAM_differs⟩

/-- `has_shift = false` on a block with `shift = 1`. -/
theorem shift_necessary : ∃ (b b' : Block 8) (anal : DAnal) (env : Env),
    eliminate b anal = some b' ∧ NoDupTargets b ∧ AtLeastFact false 0 b anal env ∧
    AtMostFact false 0 b anal env ∧ ReadsFact false 0 b anal env ∧ Ex.doneWith b b' env 10 [.out 7] [.out 0] :=
  ⟨Ex.exSA, Ex.exSA', Ex.anSA, Ex.envO, Ex.exSA_elim, Ex.exSA_others.1, Ex.exSA_others.2.1,
    Ex.exSA_others.2.2.1, Ex.exSA_others.2.2.2, Ex.exSA_differs⟩

/-- `has_shift = false` on a block with `shift = 0` that contains a block marked `has_shift = true`. -/
theorem shift_rec_necessary : ∃ (b b' : Block 8) (anal : DAnal) (env : Env),
    eliminate b anal = some b' ∧ NoDupTargets b ∧ AtLeastFact false 0 b anal env ∧
    AtMostFact false 0 b anal env ∧ ReadsFact false 0 b anal env ∧ Ex.doneWith b b' env 10 [.out 7] [.out 0] :=
  ⟨Ex.exSB, Ex.exSB', Ex.anSB, Ex.envO, Ex.exSB_elim, Ex.exSB_others.1, Ex.exSB_others.2.1,
    Ex.exSB_others.2.2.1, Ex.exSB_others.2.2.2, Ex.exSB_differs⟩

/-- FINDING: on a `calc` that assigns a cell twice the pass deletes BOTH assignments although the cell is read
afterwards (`(x0, x0) := (1, 2); out x0` prints 2, after the pass 0), with a sound analysis (there is no nested
block).  `calcScan` treats the second occurrence as "will be overwritten" because the first one has just been
recorded as a write, and `retain` removes by variable. -/
theorem duplicate_targets_unsound : ∃ (b b' : Block 8) (anal : DAnal) (env : Env),
    eliminate b anal = some b' ∧ AnalSound b anal env ∧ ¬ NoDupTargets b ∧
    Ex.doneWith b b' env 5 [.out 2] [.out 0] :=
  ⟨Ex.exDup, Ex.exDup', Ex.top [], Ex.envO, Ex.exDup_elim, Ex.exDup_sound, by decide, Ex.exDup_differs⟩

end C01Dse
end Hpbf

#print axioms Hpbf.C01Dse.eliminate_lockstep
#print axioms Hpbf.C01Dse.eliminate_preserves
#print axioms Hpbf.C01Dse.analSound_limited
#print axioms Hpbf.C01Dse.eliminate_preserves_limited
#print axioms Hpbf.C01Dse.eliminate_preserves_straightline
#print axioms Hpbf.C01Dse.never_interrupted
#print axioms Hpbf.C01Dse.tape_may_differ
#print axioms Hpbf.C01Dse.eliminate_total
#print axioms Hpbf.C01Dse.eliminate_none_iff
#print axioms Hpbf.C01Dse.eliminate_shape
#print axioms Hpbf.C01Dse.analSound_of_check
#print axioms Hpbf.C01Dse.atLeast_necessary
#print axioms Hpbf.C01Dse.atMost_necessary
#print axioms Hpbf.C01Dse.reads_necessary
#print axioms Hpbf.C01Dse.shift_necessary
#print axioms Hpbf.C01Dse.shift_rec_necessary
#print axioms Hpbf.C01Dse.duplicate_targets_unsound
