/-
Property C01 (part: `Program::optimize` at levels 2 and 3 = first round, then (dead store elimination; a round that
uses the analysis of the previous round) once resp. twice; model `Hpbf/Opt.lean` `optimizeRounds`).

STAGE 4, PARTIAL.  What is proved here, for EVERY oracle:
* the analysis a round records matches the blocks it emits, node by node (`optimizeOnce_shape'`), hence dead store
  elimination NEVER FAILS (the Rust never panics) on a round's output (`dse_total_after_round'`);
* **the analysis a round records is SOUND for the program it emits** — all four clauses of the hypothesis
  `C01Dse.AnalSound` of the DSE theorem — for EVERY round (any previous analysis) whose `once` marks are justified
  (`OnceOk`): `optimizeOnce_analSound'`.  (`ShiftFact`, `AtMostFact` always; `AtLeastFact` from `OnceOk`;
  `ReadsFact` — in later iterations of a non-shifting loop a cell outside the recorded `reads` is not read before
  it is written — from the structural pass `optimizeOnce_rdOk'` + adequacy w.r.t. the small-step semantics.)
  For the first round `OnceOk` is proved in `C01Rebuild`, so: `analSound_round1'` (no hypothesis);
* hence **first round, then dead store elimination, preserves the observable behaviour**: `round1_dse_behEq'`;
  and dead store elimination after any round does, given `OnceOk` of that round's output: `round_dse_behEq'`;
* composition: `Program::optimize` preserves the observable behaviour at EVERY level given the single obligation
  `LaterRoundsOk` (a round that uses the previous analysis preserves behaviour and justifies its `once` marks):
  `optimize_preserves_of_laterRounds'`; the more general `optimize_preserves_of_steps'` for arbitrary invariants.
* **rounds that USE the previous analysis** (levels 2 and 3): such a round preserves the observable behaviour and
  justifies its `once` marks under the SEMANTIC hypothesis `PrevAnalSound env prog1 anal` (= `AnalInL`: on the run
  of the round's input `prog1` from `env`, every loop whose node says `atMostOnce` runs at most once, and at every
  head of a loop whose node says neither `atMostOnce` nor `hasShift` the pointer and the cells outside `clobbered`
  have their block-entry values) plus facts that are PROVED for the pipeline (`ShapeL`, `CanonL`):
  `optimizeOnce_preserves_g'`, `optimizeOnce_onceOk_g'`, `laterRound_ok'` (this discharges `LaterRoundsOk`);
* `PrevAnalSound` has an EXECUTABLE, PROVED-SOUND test `checkAnalIn N prog1 anal env` (a big-step replay with
  fuel `N`; `prevAnalSound_of_check'`), and `optimizeCheck N b level orders env` replays the loop of `optimize`
  and applies the test to the input of every later round:
  **`optimize_preserves_of_check'`: `Program::optimize` preserves the observable behaviour at EVERY level on every
  run (program, oracle, environment) for which `optimizeCheck` returns `true`**; `optimize_onceOk_of_check'`: the
  `once` marks of the result are justified.  `optimize_preserves_of_prevAnalSound'` is the same with the semantic
  hypothesis.  An instance is checked by `decide +kernel` at the end of this file.  The test is also available from
  the light module `Hpbf/OptCheck.lean` (`optimize_preserves_of_check_light'`; `OptCheck.checkReport` for drivers).
NOT proved: `PrevAnalSound` for the pipeline itself (that every recorded analysis is sound for the dead-store-
eliminated program it is used on).  It is a hypothesis about the SEMANTICS of the input program, not about the
optimizer's internals; when it fails the theorems are silent (this can happen without an optimizer defect: a cell
that a loop restores to a known constant is not recorded as clobbered, and dead store elimination may remove the
restoring store when the cell is dead at the loop end).  No new optimizer defect was found by these proofs.
The older statements with a `ReadsFact` hypothesis (`analSound_after_round1'`, `round1_dse_preserves'`) are kept.
-/
import Hpbf.Proofs.OptRbCheckEq

namespace Hpbf
namespace OptProof
open Opt OptSem Ir

variable {w : Nat}

/-- The recorded analysis matches the emitted blocks. (`ShapeL`/`ShapeI`: `Hpbf/Proofs/OptRbShape.lean`.) -/
theorem optimizeOnce_shape' {b : Block w} {prevAnal : OptAnalysis w} {os os' : Orders} {b' : Block w}
    {anal' : OptAnalysis w} (hr : (optimizeOnce b prevAnal).run os = .ok ((b', anal'), os'))
    (hcl : CanonL b.insts) : ShapeL b'.insts anal'.subBlocks :=
  optimizeOnce_shape hr hcl

example (c sh : Int) (body : List (Instr w)) (once : Bool) (a : OptAnalysis w)
    (h : ShapeI (.loop c sh body once) a) :
    once = a.loopAnal.atLeastOnce ∧ a.loopAnal.atMostOnce = false ∧
      (a.hasShift = false → sh = 0 ∧ ∀ a' ∈ a.subBlocks, a'.hasShift = false) ∧ ShapeL body a.subBlocks :=
  shapeI_loop h

theorem optimizeOnce_shapeOk' {b : Block w} {prevAnal : OptAnalysis w} {os os' : Orders} {b' : Block w}
    {anal' : OptAnalysis w} (hr : (optimizeOnce b prevAnal).run os = .ok ((b', anal'), os'))
    (hcl : CanonL b.insts) : C01Dse.ShapeOk b' anal'.toDAnal ∧ C01Dse.ShiftFact b' anal'.toDAnal ∧
      C01Dse.NoDupTargets b' :=
  ⟨optimizeOnce_shapeOk hr hcl, optimizeOnce_shiftFact hr hcl, optimizeOnce_noDupTargets hr hcl⟩

theorem dse_total_after_round' {b : Block w} {prevAnal : OptAnalysis w} {os os' : Orders} {b1 : Block w}
    {anal1 : OptAnalysis w} (hr : (optimizeOnce b prevAnal).run os = .ok ((b1, anal1), os'))
    (hcl : CanonL b.insts) : ∃ b2, deadStoreElimination b1 anal1 = .ok b2 :=
  dse_total_after_round hr hcl

theorem optimizeOnce_atMost_atLeast {b : Block w} {prevAnal : OptAnalysis w} {os os' : Orders} {b' : Block w}
    {anal' : OptAnalysis w} (hr : (optimizeOnce b prevAnal).run os = .ok ((b', anal'), os'))
    (hcl : CanonL b.insts) (env : Env) :
    C01Dse.AtMostFact false 0 b' anal'.toDAnal env ∧
    (C02Emit.OnceOk b' env → C01Dse.AtLeastFact false 0 b' anal'.toDAnal env) :=
  ⟨optimizeOnce_atMostFact hr hcl env, fun ho => optimizeOnce_atLeastFact hr hcl ho⟩

theorem analSound_after_round1' (hw : 0 < w) {b : Block w} (hcl : CanonL b.insts) {os os' : Orders}
    {b1 : Block w} {anal1 : OptAnalysis w}
    (hr : (optimizeOnce b (topAnalysis [] [])).run os = .ok ((b1, anal1), os')) (env : Env)
    (hreads : C01Dse.ReadsFact false 0 b1 anal1.toDAnal env) : C01Dse.AnalSound b1 anal1.toDAnal env :=
  analSound_after_round1 hw hcl hr env hreads

theorem round1_dse_preserves' (hw : 0 < w) {b : Block w} (hcl : CanonL b.insts) {os os' : Orders}
    {b1 b2 : Block w} {anal1 : OptAnalysis w}
    (hr : (optimizeOnce b (topAnalysis [] [])).run os = .ok ((b1, anal1), os'))
    (hd : deadStoreElimination b1 anal1 = .ok b2) (env : Env)
    (hreads : C01Dse.ReadsFact false 0 b1 anal1.toDAnal env) : BehEq b b2 env :=
  round1_dse_preserves hw hcl hr hd env hreads

theorem optimize_preserves_of_steps' (hw : 0 < w) {P P1 : Block w → OptAnalysis w → Prop} {env : Env}
    (hFirst : ∀ (b b1 : Block w) anal1 os os1, CanonL b.insts →
      (optimizeOnce b (topAnalysis [] [])).run os = .ok ((b1, anal1), os1) → P b1 anal1)
    (hDse : ∀ prog anal prog1, P prog anal → deadStoreElimination prog anal = .ok prog1 →
      BehEq prog prog1 env ∧ P1 prog1 anal)
    (hRound : ∀ prog1 anal prog2 anal2 os os2, P1 prog1 anal →
      (optimizeOnce prog1 anal).run os = .ok ((prog2, anal2), os2) → BehEq prog1 prog2 env ∧ P prog2 anal2)
    {b b' : Block w} (hcl : CanonL b.insts) {level : Nat} {orders : Orders}
    (h : Opt.optimize b level orders = .ok b') : BehEq b b' env :=
  optimize_preserves_of_steps hw hFirst hDse hRound hcl h

/-! ### soundness of the recorded analysis, for every round -/

/-- The structural read-before-write property of a round's output (`RdOkL`/`RdOkI`: `Hpbf/Proofs/OptRbRd1.lean`):
for a non-shifting emitted loop with node `a`, from every state with non-zero condition in which the body does
not reach an unjustified `once` mark, the body does not read a cell outside `a.reads` before writing it. -/
theorem optimizeOnce_rdOk' {b : Block w} {prevAnal : OptAnalysis w} {os os' : Orders} {b' : Block w}
    {anal' : OptAnalysis w} (hr : (optimizeOnce b prevAnal).run os = .ok ((b', anal'), os'))
    (hcl : CanonL b.insts) : RdOkL b'.insts anal'.subBlocks :=
  optimizeOnce_rdOk hr hcl

example (c sh : Int) (body : List (Instr w)) (once : Bool) (a : OptAnalysis w)
    (h : RdOkI (.loop c sh body once) a) :
    (a.hasShift = false → ∀ σ : State w, σ.rd c ≠ 0#w → ¬ Bad body σ → ∀ v, v ∉ a.reads →
      ¬ Exposes (σ.ptr + v) body σ) ∧ RdOkL body a.subBlocks :=
  rdOkI_loop h

theorem optimizeOnce_analSound' {b : Block w} {prevAnal : OptAnalysis w} {os os' : Orders} {b' : Block w}
    {anal' : OptAnalysis w} (hr : (optimizeOnce b prevAnal).run os = .ok ((b', anal'), os'))
    (hcl : CanonL b.insts) {env : Env} (ho : C02Emit.OnceOk b' env) :
    C01Dse.AnalSound b' anal'.toDAnal env :=
  optimizeOnce_analSound hr hcl ho

theorem round_dse_behEq' {b : Block w} {prevAnal : OptAnalysis w} {os os' : Orders} {b1 b2 : Block w}
    {anal1 : OptAnalysis w} (hr : (optimizeOnce b prevAnal).run os = .ok ((b1, anal1), os'))
    (hcl : CanonL b.insts) {env : Env} (ho : C02Emit.OnceOk b1 env)
    (hd : deadStoreElimination b1 anal1 = .ok b2) : BehEq b1 b2 env :=
  round_dse_behEq hr hcl ho hd

theorem analSound_round1' (hw : 0 < w) {b : Block w} (hcl : CanonL b.insts) {os os' : Orders}
    {b1 : Block w} {anal1 : OptAnalysis w}
    (hr : (optimizeOnce b (topAnalysis [] [])).run os = .ok ((b1, anal1), os')) (env : Env) :
    C01Dse.AnalSound b1 anal1.toDAnal env :=
  analSound_round1 hw hcl hr env

theorem round1_dse_behEq' (hw : 0 < w) {b : Block w} (hcl : CanonL b.insts) {os os' : Orders}
    {b1 b2 : Block w} {anal1 : OptAnalysis w}
    (hr : (optimizeOnce b (topAnalysis [] [])).run os = .ok ((b1, anal1), os'))
    (hd : deadStoreElimination b1 anal1 = .ok b2) (env : Env) : BehEq b b2 env :=
  round1_dse_behEq hw hcl hr hd env

example (env : Env) : LaterRoundsOk w env ↔
    ∀ (prog1 : Block w) (anal : OptAnalysis w) (prog2 : Block w) (anal2 : OptAnalysis w) (os os2 : Orders),
      (∃ prog, (C02Emit.OnceOk prog env ∧ ∃ (b : Block w) (prev : OptAnalysis w) (os os' : Orders),
          CanonL b.insts ∧ (optimizeOnce b prev).run os = .ok ((prog, anal), os')) ∧
        deadStoreElimination prog anal = .ok prog1) →
      (optimizeOnce prog1 anal).run os = .ok ((prog2, anal2), os2) →
      CanonL prog1.insts ∧ BehEq prog1 prog2 env ∧ C02Emit.OnceOk prog2 env := Iff.rfl

theorem optimize_preserves_of_laterRounds' (hw : 0 < w) {env : Env} (hL : LaterRoundsOk w env)
    {b b' : Block w} (hcl : CanonL b.insts) {level : Nat} {orders : Orders}
    (h : Opt.optimize b level orders = .ok b') : BehEq b b' env :=
  optimize_preserves_of_laterRounds hw hL hcl h

/-! ### rounds that use the previous analysis -/

example (env : Env) (prog1 : Block w) (anal : OptAnalysis w) :
    PrevAnalSound env prog1 anal ↔ AnalInL (fun σ => σ = State.init env) prog1.insts anal.subBlocks := Iff.rfl

/-- What `AnalInL` says about one loop (`BlockIn`, `HeadG`: Hpbf/Proofs/OptRbAnalIn.lean). -/
example (G : State w → Prop) (c sh : Int) (body : List (Instr w)) (o : Bool) (A : OptAnalysis w) :
    AnalInI G (.loop c sh body o) A ↔
      ((A.loopAnal.atMostOnce = true → true = true → ∀ σ, G σ → σ.rd c ≠ 0#w →
          ∀ a, Exec body σ (.fin a) → (a.mov sh).rd c = 0#w) ∧
       (A.loopAnal.atMostOnce = false → A.hasShift = false → true = true → ∀ σ, G σ →
          ∀ k σk, Head c sh body σ k σk → σk.ptr = σ.ptr ∧
            ∀ x, A.clobbered.contains x = false → σk.rd x = σ.rd x)) ∧
      AnalInL (HeadG G true c sh body) body A.subBlocks := by
  rw [analInI_loop]
  constructor
  · rintro ⟨⟨h1, h2⟩, h3⟩; exact ⟨⟨h1, h2⟩, h3⟩
  · rintro ⟨⟨h1, h2⟩, h3⟩; exact ⟨⟨h1, h2⟩, h3⟩

theorem prevAnalSound_of_check' {env : Env} {prog1 : Block w} {anal : OptAnalysis w} (N : Nat)
    (h : checkAnalIn N prog1 anal env = true) : PrevAnalSound env prog1 anal :=
  prevAnalSound_of_check N h

/-- One round with an arbitrary previous analysis whose top node says `atMostOnce` (what `optimize_once`
returns), whose nodes fit the blocks of the program (`ShapeL`) and are semantically sound on the run from `env`. -/
theorem optimizeOnce_preserves_g' (hw : 0 < w) {b : Block w} (hcl : CanonL b.insts) {prevAnal : OptAnalysis w}
    (hamo : prevAnal.loopAnal.atMostOnce = true) {env : Env} (hs : ShapeL b.insts prevAnal.subBlocks)
    (ha : AnalInL (fun σ => σ = State.init env) b.insts prevAnal.subBlocks)
    {os os' : Orders} {b' : Block w} {anal' : OptAnalysis w}
    (hr : (optimizeOnce b prevAnal).run os = .ok ((b', anal'), os')) : BehEq b b' env :=
  optimizeOnce_preserves_g hw hcl hamo hs ha hr

theorem optimizeOnce_onceOk_g' (hw : 0 < w) {b : Block w} (hcl : CanonL b.insts) {prevAnal : OptAnalysis w}
    (hamo : prevAnal.loopAnal.atMostOnce = true) {env : Env} (hs : ShapeL b.insts prevAnal.subBlocks)
    (ha : AnalInL (fun σ => σ = State.init env) b.insts prevAnal.subBlocks)
    {os os' : Orders} {b' : Block w} {anal' : OptAnalysis w}
    (hr : (optimizeOnce b prevAnal).run os = .ok ((b', anal'), os')) : C02Emit.OnceOk b' env :=
  optimizeOnce_onceOk_g hw hcl hamo hs ha hr

/-- A later round of `optimize`, under `PrevAnalSound`: exactly the obligation `LaterRoundsOk`. -/
theorem laterRound_ok' (hw : 0 < w) {env : Env} {prog1 : Block w} {anal : OptAnalysis w} {prog2 : Block w}
    {anal2 : OptAnalysis w} {os os2 : Orders} (hp : AfterDse env prog1 anal)
    (ha : PrevAnalSound env prog1 anal)
    (hr : (optimizeOnce prog1 anal).run os = .ok ((prog2, anal2), os2)) :
    CanonL prog1.insts ∧ BehEq prog1 prog2 env ∧ C02Emit.OnceOk prog2 env :=
  laterRound_ok hw hp ha hr

/-- The executable test along a run of `optimize`. -/
example (N : Nat) (b : Block w) (level : Nat) (orders : Orders) (env : Env) :
    optimizeCheck N b level orders env =
      (if level = 0 then true
       else
         match (optimizeOnce b (topAnalysis [] [])).run orders with
         | .ok ((prog, anal), os1) => roundsCheck N env (min level 3 - 1) prog anal os1
         | .error _ => true) := rfl

example (N : Nat) (env : Env) (n : Nat) (prog : Block w) (anal : OptAnalysis w) (os : Orders) :
    roundsCheck N env (n + 1) prog anal os =
      (match deadStoreElimination prog anal with
       | .ok prog1 =>
         checkAnalIn N prog1 anal env &&
           (match (optimizeOnce prog1 anal).run os with
            | .ok ((prog2, anal2), os2) => roundsCheck N env n prog2 anal2 os2
            | .error _ => true)
       | .error _ => true) := rfl

theorem optimize_preserves_of_check' (hw : 0 < w) {env : Env} (N : Nat) {b b' : Block w}
    (hcl : CanonL b.insts) {level : Nat} {orders : Orders}
    (h : Opt.optimize b level orders = .ok b') (hc : optimizeCheck N b level orders env = true) :
    BehEq b b' env :=
  optimize_preserves_of_check hw N hcl h hc

theorem optimize_onceOk_of_check' (hw : 0 < w) {env : Env} (N : Nat) {b b' : Block w}
    (hcl : CanonL b.insts) {level : Nat} (hl : level ≠ 0) {orders : Orders}
    (h : Opt.optimize b level orders = .ok b') (hc : optimizeCheck N b level orders env = true) :
    C02Emit.OnceOk b' env :=
  optimize_onceOk_of_check hw N hcl hl h hc

theorem optimize_preserves_of_prevAnalSound' (hw : 0 < w) {env : Env}
    (hA : ∀ (prog1 : Block w) (anal : OptAnalysis w), AfterDse env prog1 anal → PrevAnalSound env prog1 anal)
    {b b' : Block w} (hcl : CanonL b.insts) {level : Nat} {orders : Orders}
    (h : Opt.optimize b level orders = .ok b') : BehEq b b' env :=
  optimize_preserves_of_prevAnalSound hw hA hcl h

/-- The same test from the LIGHT module `Hpbf/OptCheck.lean` (imports only `Hpbf.Opt`; compile this one for
sampling): it is the same function. -/
theorem optimizeCheck_light' : @OptCheck.optimizeCheck w = optimizeCheck := optimizeCheck_light

theorem optimize_preserves_of_check_light' (hw : 0 < w) {env : Env} (N : Nat) {b b' : Block w}
    (hcl : CanonL b.insts) {level : Nat} {orders : Orders}
    (h : Opt.optimize b level orders = .ok b') (hc : OptCheck.optimizeCheck N b level orders env = true) :
    BehEq b b' env :=
  optimize_preserves_of_check_light hw N hcl h hc

theorem optimize_onceOk_of_check_light' (hw : 0 < w) {env : Env} (N : Nat) {b b' : Block w}
    (hcl : CanonL b.insts) {level : Nat} (hl : level ≠ 0) {orders : Orders}
    (h : Opt.optimize b level orders = .ok b') (hc : OptCheck.optimizeCheck N b level orders env = true) :
    C02Emit.OnceOk b' env :=
  optimize_onceOk_of_check_light hw N hcl hl h hc

/-! ### an instance: multiplication `,>,<[>[>+>+<<-]>>[<<+>>-]<<<-]>>.` at level 3 -/

namespace RoundsEx

def mulSrc : List Kind :=
  [.inp, .right, .inp, .left, .open, .right, .open, .right, .inc, .right, .inc, .left, .left, .dec, .close,
   .right, .right, .open, .left, .left, .inc, .right, .right, .dec, .close, .left, .left, .left, .dec, .close,
   .right, .right, .out]

def mulEnv : Env := { input := some [.byte 3, .byte 2, .eof], sink := true, outOk := none }

def mulBlock : Block 8 := match Ir.parse (w := 8) mulSrc with | .ok b => b | .error _ => { shift := 0, insts := [] }

/-- The three rounds succeed with the empty oracle and the test passes, hence (by the theorem) the level-3 result
has the observable behaviour of the source on `mulEnv`. -/
example : ∃ b', Opt.optimize mulBlock 3 [] = .ok b' ∧ BehEq mulBlock b' mulEnv := by
  have hcl : CanonL mulBlock.insts := by
    unfold mulBlock
    split
    · rename_i b hb; exact parse_canonL hb
    · rw [CanonL]; trivial
  have hc : optimizeCheck 400 mulBlock 3 [] mulEnv = true := by decide +kernel
  cases h : Opt.optimize mulBlock 3 [] with
  | error e =>
    have : (match Opt.optimize mulBlock 3 [] with | .ok _ => true | .error _ => false) = true := by
      decide +kernel
    rw [h] at this; cases this
  | ok b' => exact ⟨b', rfl, optimize_preserves_of_check' (by decide) 400 hcl h hc⟩

end RoundsEx

end OptProof
end Hpbf

#print axioms Hpbf.OptProof.optimizeOnce_shape'
#print axioms Hpbf.OptProof.optimizeOnce_shapeOk'
#print axioms Hpbf.OptProof.dse_total_after_round'
#print axioms Hpbf.OptProof.optimizeOnce_atMost_atLeast
#print axioms Hpbf.OptProof.analSound_after_round1'
#print axioms Hpbf.OptProof.round1_dse_preserves'
#print axioms Hpbf.OptProof.optimize_preserves_of_steps'
#print axioms Hpbf.OptProof.optimizeOnce_rdOk'
#print axioms Hpbf.OptProof.optimizeOnce_analSound'
#print axioms Hpbf.OptProof.round_dse_behEq'
#print axioms Hpbf.OptProof.analSound_round1'
#print axioms Hpbf.OptProof.round1_dse_behEq'
#print axioms Hpbf.OptProof.optimize_preserves_of_laterRounds'
#print axioms Hpbf.OptProof.optimizeOnce_preserves_g'
#print axioms Hpbf.OptProof.optimizeOnce_onceOk_g'
#print axioms Hpbf.OptProof.laterRound_ok'
#print axioms Hpbf.OptProof.prevAnalSound_of_check'
#print axioms Hpbf.OptProof.optimize_preserves_of_check'
#print axioms Hpbf.OptProof.optimize_onceOk_of_check'
#print axioms Hpbf.OptProof.optimize_preserves_of_prevAnalSound'
#print axioms Hpbf.OptProof.optimizeCheck_light'
#print axioms Hpbf.OptProof.optimize_preserves_of_check_light'
#print axioms Hpbf.OptProof.optimize_onceOk_of_check_light'
