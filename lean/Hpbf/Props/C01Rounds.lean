/-
Property C01 (part: `Program::optimize` at levels 2 and 3 = first round, then (dead store elimination; a round that
uses the analysis of the previous round) once resp. twice; model `Hpbf/Opt.lean` `optimizeRounds`).

STAGE 4, PARTIAL.  What is proved here, for EVERY oracle:
* the analysis a round records matches the blocks it emits, node by node (`optimizeOnce_shape'`), hence dead store
  elimination NEVER FAILS (the Rust never panics) on a round's output (`dse_total_after_round'`);
* three of the four clauses of the hypothesis `C01Dse.AnalSound` of the DSE theorem hold for a round's output:
  `ShiftFact` and `AtMostFact` always, `AtLeastFact` whenever the `once` marks are justified (`OnceOk`, proved for
  the first round in `C01Rebuild`); the fourth clause (`ReadsFact`: in later iterations of a non-shifting loop a
  cell outside the recorded `reads` is not read before it is written) remains a HYPOTHESIS
  (`analSound_after_round1'`);
* hence: first round, then dead store elimination, preserves the observable behaviour given `ReadsFact`
  (`round1_dse_preserves'`);
* composition (`optimize_preserves_of_steps'`): `Program::optimize` preserves the observable behaviour at EVERY
  level as soon as the two kinds of later steps do, for any invariant `P` / `P1` of (program, analysis) pairs.
NOT proved (open): `ReadsFact` for round outputs; the correctness of a round that USES a previous analysis
(the analysis only enters through `can_ask_parent_for`; the level-1 proof is parametric in the parent interface, but
its guards have to become "reachable source states"; see `Hpbf/Proofs/OptRb.README.md`).
-/
import Hpbf.Proofs.OptRbRounds

namespace Hpbf
namespace OptProof
open Opt OptSem Ir

variable {w : Nat}

/-- The recorded analysis matches the emitted blocks. (`ShapeL`/`ShapeI`: `Hpbf/Proofs/OptRbShape.lean`.) -/
theorem optimizeOnce_shape' {b : Block w} {prevAnal : OptAnalysis w} {os os' : Orders} {b' : Block w}
    {anal' : OptAnalysis w} (hr : (optimizeOnce b prevAnal).run os = .ok ((b', anal'), os'))
    (hcl : CanonL b.insts) : ShapeL b'.insts anal'.subBlocks :=
  optimizeOnce_shape hr hcl

example (c sh : Int) (body : List (Instr w)) (once : Bool) (a : OptAnalysis w)
    (h : ShapeI (.loop c sh body once) a) :
    once = a.loopAnal.atLeastOnce ∧ a.loopAnal.atMostOnce = false ∧
      (a.hasShift = false → sh = 0 ∧ ∀ a' ∈ a.subBlocks, a'.hasShift = false) ∧ ShapeL body a.subBlocks :=
  shapeI_loop h

theorem optimizeOnce_shapeOk' {b : Block w} {prevAnal : OptAnalysis w} {os os' : Orders} {b' : Block w}
    {anal' : OptAnalysis w} (hr : (optimizeOnce b prevAnal).run os = .ok ((b', anal'), os'))
    (hcl : CanonL b.insts) : C01Dse.ShapeOk b' anal'.toDAnal ∧ C01Dse.ShiftFact b' anal'.toDAnal ∧
      C01Dse.NoDupTargets b' :=
  ⟨optimizeOnce_shapeOk hr hcl, optimizeOnce_shiftFact hr hcl, optimizeOnce_noDupTargets hr hcl⟩

theorem dse_total_after_round' {b : Block w} {prevAnal : OptAnalysis w} {os os' : Orders} {b1 : Block w}
    {anal1 : OptAnalysis w} (hr : (optimizeOnce b prevAnal).run os = .ok ((b1, anal1), os'))
    (hcl : CanonL b.insts) : ∃ b2, deadStoreElimination b1 anal1 = .ok b2 :=
  dse_total_after_round hr hcl

theorem optimizeOnce_atMost_atLeast {b : Block w} {prevAnal : OptAnalysis w} {os os' : Orders} {b' : Block w}
    {anal' : OptAnalysis w} (hr : (optimizeOnce b prevAnal).run os = .ok ((b', anal'), os'))
    (hcl : CanonL b.insts) (env : Env) :
    C01Dse.AtMostFact false 0 b' anal'.toDAnal env ∧
    (C02Emit.OnceOk b' env → C01Dse.AtLeastFact false 0 b' anal'.toDAnal env) :=
  ⟨optimizeOnce_atMostFact hr hcl env, fun ho => optimizeOnce_atLeastFact hr hcl ho⟩

theorem analSound_after_round1' (hw : 0 < w) {b : Block w} (hcl : CanonL b.insts) {os os' : Orders}
    {b1 : Block w} {anal1 : OptAnalysis w}
    (hr : (optimizeOnce b (topAnalysis [] [])).run os = .ok ((b1, anal1), os')) (env : Env)
    (hreads : C01Dse.ReadsFact false 0 b1 anal1.toDAnal env) : C01Dse.AnalSound b1 anal1.toDAnal env :=
  analSound_after_round1 hw hcl hr env hreads

theorem round1_dse_preserves' (hw : 0 < w) {b : Block w} (hcl : CanonL b.insts) {os os' : Orders}
    {b1 b2 : Block w} {anal1 : OptAnalysis w}
    (hr : (optimizeOnce b (topAnalysis [] [])).run os = .ok ((b1, anal1), os'))
    (hd : deadStoreElimination b1 anal1 = .ok b2) (env : Env)
    (hreads : C01Dse.ReadsFact false 0 b1 anal1.toDAnal env) : BehEq b b2 env :=
  round1_dse_preserves hw hcl hr hd env hreads

theorem optimize_preserves_of_steps' (hw : 0 < w) {P P1 : Block w → OptAnalysis w → Prop} {env : Env}
    (hFirst : ∀ (b b1 : Block w) anal1 os os1, CanonL b.insts →
      (optimizeOnce b (topAnalysis [] [])).run os = .ok ((b1, anal1), os1) → P b1 anal1)
    (hDse : ∀ prog anal prog1, P prog anal → deadStoreElimination prog anal = .ok prog1 →
      BehEq prog prog1 env ∧ P1 prog1 anal)
    (hRound : ∀ prog1 anal prog2 anal2 os os2, P1 prog1 anal →
      (optimizeOnce prog1 anal).run os = .ok ((prog2, anal2), os2) → BehEq prog1 prog2 env ∧ P prog2 anal2)
    {b b' : Block w} (hcl : CanonL b.insts) {level : Nat} {orders : Orders}
    (h : Opt.optimize b level orders = .ok b') : BehEq b b' env :=
  optimize_preserves_of_steps hw hFirst hDse hRound hcl h

end OptProof
end Hpbf

#print axioms Hpbf.OptProof.optimizeOnce_shape'
#print axioms Hpbf.OptProof.optimizeOnce_shapeOk'
#print axioms Hpbf.OptProof.dse_total_after_round'
#print axioms Hpbf.OptProof.optimizeOnce_atMost_atLeast
#print axioms Hpbf.OptProof.analSound_after_round1'
#print axioms Hpbf.OptProof.round1_dse_preserves'
#print axioms Hpbf.OptProof.optimize_preserves_of_steps'
