/-
Property C01 (part: `Program::optimize` at levels 2 and 3 = first round, then (dead store elimination; a round that
uses the analysis of the previous round) once resp. twice; model `Hpbf/Opt.lean` `optimizeRounds`).

STAGE 4, PARTIAL.  What is proved here, for EVERY oracle:
* the analysis a round records matches the blocks it emits, node by node (`optimizeOnce_shape'`), hence dead store
  elimination NEVER FAILS (the Rust never panics) on a round's output (`dse_total_after_round'`);
* **the analysis a round records is SOUND for the program it emits** — all four clauses of the hypothesis
  `C01Dse.AnalSound` of the DSE theorem — for EVERY round (any previous analysis) whose `once` marks are justified
  (`OnceOk`): `optimizeOnce_analSound'`.  (`ShiftFact`, `AtMostFact` always; `AtLeastFact` from `OnceOk`;
  `ReadsFact` — in later iterations of a non-shifting loop a cell outside the recorded `reads` is not read before
  it is written — from the structural pass `optimizeOnce_rdOk'` + adequacy w.r.t. the small-step semantics.)
  For the first round `OnceOk` is proved in `C01Rebuild`, so: `analSound_round1'` (no hypothesis);
* hence **first round, then dead store elimination, preserves the observable behaviour**: `round1_dse_behEq'`;
  and dead store elimination after any round does, given `OnceOk` of that round's output: `round_dse_behEq'`;
* composition: `Program::optimize` preserves the observable behaviour at EVERY level given the single obligation
  `LaterRoundsOk` (a round that uses the previous analysis preserves behaviour and justifies its `once` marks):
  `optimize_preserves_of_laterRounds'`; the more general `optimize_preserves_of_steps'` for arbitrary invariants.
NOT proved (open): `LaterRoundsOk`, i.e. the correctness of a round that USES a previous analysis (the analysis
only enters through `can_ask_parent_for`; the level-1 proof is parametric in the parent interface, but its guards
have to become "reachable source states"; see `Hpbf/Proofs/OptRb.README.md`).
The older statements with a `ReadsFact` hypothesis (`analSound_after_round1'`, `round1_dse_preserves'`) are kept.
-/
import Hpbf.Proofs.OptRbRounds2

namespace Hpbf
namespace OptProof
open Opt OptSem Ir

variable {w : Nat}

/-- The recorded analysis matches the emitted blocks. (`ShapeL`/`ShapeI`: `Hpbf/Proofs/OptRbShape.lean`.) -/
theorem optimizeOnce_shape' {b : Block w} {prevAnal : OptAnalysis w} {os os' : Orders} {b' : Block w}
    {anal' : OptAnalysis w} (hr : (optimizeOnce b prevAnal).run os = .ok ((b', anal'), os'))
    (hcl : CanonL b.insts) : ShapeL b'.insts anal'.subBlocks :=
  optimizeOnce_shape hr hcl

example (c sh : Int) (body : List (Instr w)) (once : Bool) (a : OptAnalysis w)
    (h : ShapeI (.loop c sh body once) a) :
    once = a.loopAnal.atLeastOnce ∧ a.loopAnal.atMostOnce = false ∧
      (a.hasShift = false → sh = 0 ∧ ∀ a' ∈ a.subBlocks, a'.hasShift = false) ∧ ShapeL body a.subBlocks :=
  shapeI_loop h

theorem optimizeOnce_shapeOk' {b : Block w} {prevAnal : OptAnalysis w} {os os' : Orders} {b' : Block w}
    {anal' : OptAnalysis w} (hr : (optimizeOnce b prevAnal).run os = .ok ((b', anal'), os'))
    (hcl : CanonL b.insts) : C01Dse.ShapeOk b' anal'.toDAnal ∧ C01Dse.ShiftFact b' anal'.toDAnal ∧
      C01Dse.NoDupTargets b' :=
  ⟨optimizeOnce_shapeOk hr hcl, optimizeOnce_shiftFact hr hcl, optimizeOnce_noDupTargets hr hcl⟩

theorem dse_total_after_round' {b : Block w} {prevAnal : OptAnalysis w} {os os' : Orders} {b1 : Block w}
    {anal1 : OptAnalysis w} (hr : (optimizeOnce b prevAnal).run os = .ok ((b1, anal1), os'))
    (hcl : CanonL b.insts) : ∃ b2, deadStoreElimination b1 anal1 = .ok b2 :=
  dse_total_after_round hr hcl

theorem optimizeOnce_atMost_atLeast {b : Block w} {prevAnal : OptAnalysis w} {os os' : Orders} {b' : Block w}
    {anal' : OptAnalysis w} (hr : (optimizeOnce b prevAnal).run os = .ok ((b', anal'), os'))
    (hcl : CanonL b.insts) (env : Env) :
    C01Dse.AtMostFact false 0 b' anal'.toDAnal env ∧
    (C02Emit.OnceOk b' env → C01Dse.AtLeastFact false 0 b' anal'.toDAnal env) :=
  ⟨optimizeOnce_atMostFact hr hcl env, fun ho => optimizeOnce_atLeastFact hr hcl ho⟩

theorem analSound_after_round1' (hw : 0 < w) {b : Block w} (hcl : CanonL b.insts) {os os' : Orders}
    {b1 : Block w} {anal1 : OptAnalysis w}
    (hr : (optimizeOnce b (topAnalysis [] [])).run os = .ok ((b1, anal1), os')) (env : Env)
    (hreads : C01Dse.ReadsFact false 0 b1 anal1.toDAnal env) : C01Dse.AnalSound b1 anal1.toDAnal env :=
  analSound_after_round1 hw hcl hr env hreads

theorem round1_dse_preserves' (hw : 0 < w) {b : Block w} (hcl : CanonL b.insts) {os os' : Orders}
    {b1 b2 : Block w} {anal1 : OptAnalysis w}
    (hr : (optimizeOnce b (topAnalysis [] [])).run os = .ok ((b1, anal1), os'))
    (hd : deadStoreElimination b1 anal1 = .ok b2) (env : Env)
    (hreads : C01Dse.ReadsFact false 0 b1 anal1.toDAnal env) : BehEq b b2 env :=
  round1_dse_preserves hw hcl hr hd env hreads

theorem optimize_preserves_of_steps' (hw : 0 < w) {P P1 : Block w → OptAnalysis w → Prop} {env : Env}
    (hFirst : ∀ (b b1 : Block w) anal1 os os1, CanonL b.insts →
      (optimizeOnce b (topAnalysis [] [])).run os = .ok ((b1, anal1), os1) → P b1 anal1)
    (hDse : ∀ prog anal prog1, P prog anal → deadStoreElimination prog anal = .ok prog1 →
      BehEq prog prog1 env ∧ P1 prog1 anal)
    (hRound : ∀ prog1 anal prog2 anal2 os os2, P1 prog1 anal →
      (optimizeOnce prog1 anal).run os = .ok ((prog2, anal2), os2) → BehEq prog1 prog2 env ∧ P prog2 anal2)
    {b b' : Block w} (hcl : CanonL b.insts) {level : Nat} {orders : Orders}
    (h : Opt.optimize b level orders = .ok b') : BehEq b b' env :=
  optimize_preserves_of_steps hw hFirst hDse hRound hcl h

/-! ### soundness of the recorded analysis, for every round -/

/-- The structural read-before-write property of a round's output (`RdOkL`/`RdOkI`: `Hpbf/Proofs/OptRbRd1.lean`):
for a non-shifting emitted loop with node `a`, from every state with non-zero condition in which the body does
not reach an unjustified `once` mark, the body does not read a cell outside `a.reads` before writing it. -/
theorem optimizeOnce_rdOk' {b : Block w} {prevAnal : OptAnalysis w} {os os' : Orders} {b' : Block w}
    {anal' : OptAnalysis w} (hr : (optimizeOnce b prevAnal).run os = .ok ((b', anal'), os'))
    (hcl : CanonL b.insts) : RdOkL b'.insts anal'.subBlocks :=
  optimizeOnce_rdOk hr hcl

example (c sh : Int) (body : List (Instr w)) (once : Bool) (a : OptAnalysis w)
    (h : RdOkI (.loop c sh body once) a) :
    (a.hasShift = false → ∀ σ : State w, σ.rd c ≠ 0#w → ¬ Bad body σ → ∀ v, v ∉ a.reads →
      ¬ Exposes (σ.ptr + v) body σ) ∧ RdOkL body a.subBlocks :=
  rdOkI_loop h

theorem optimizeOnce_analSound' {b : Block w} {prevAnal : OptAnalysis w} {os os' : Orders} {b' : Block w}
    {anal' : OptAnalysis w} (hr : (optimizeOnce b prevAnal).run os = .ok ((b', anal'), os'))
    (hcl : CanonL b.insts) {env : Env} (ho : C02Emit.OnceOk b' env) :
    C01Dse.AnalSound b' anal'.toDAnal env :=
  optimizeOnce_analSound hr hcl ho

theorem round_dse_behEq' {b : Block w} {prevAnal : OptAnalysis w} {os os' : Orders} {b1 b2 : Block w}
    {anal1 : OptAnalysis w} (hr : (optimizeOnce b prevAnal).run os = .ok ((b1, anal1), os'))
    (hcl : CanonL b.insts) {env : Env} (ho : C02Emit.OnceOk b1 env)
    (hd : deadStoreElimination b1 anal1 = .ok b2) : BehEq b1 b2 env :=
  round_dse_behEq hr hcl ho hd

theorem analSound_round1' (hw : 0 < w) {b : Block w} (hcl : CanonL b.insts) {os os' : Orders}
    {b1 : Block w} {anal1 : OptAnalysis w}
    (hr : (optimizeOnce b (topAnalysis [] [])).run os = .ok ((b1, anal1), os')) (env : Env) :
    C01Dse.AnalSound b1 anal1.toDAnal env :=
  analSound_round1 hw hcl hr env

theorem round1_dse_behEq' (hw : 0 < w) {b : Block w} (hcl : CanonL b.insts) {os os' : Orders}
    {b1 b2 : Block w} {anal1 : OptAnalysis w}
    (hr : (optimizeOnce b (topAnalysis [] [])).run os = .ok ((b1, anal1), os'))
    (hd : deadStoreElimination b1 anal1 = .ok b2) (env : Env) : BehEq b b2 env :=
  round1_dse_behEq hw hcl hr hd env

example (env : Env) : LaterRoundsOk w env ↔
    ∀ (prog1 : Block w) (anal : OptAnalysis w) (prog2 : Block w) (anal2 : OptAnalysis w) (os os2 : Orders),
      (∃ prog, (C02Emit.OnceOk prog env ∧ ∃ (b : Block w) (prev : OptAnalysis w) (os os' : Orders),
          CanonL b.insts ∧ (optimizeOnce b prev).run os = .ok ((prog, anal), os')) ∧
        deadStoreElimination prog anal = .ok prog1) →
      (optimizeOnce prog1 anal).run os = .ok ((prog2, anal2), os2) →
      CanonL prog1.insts ∧ BehEq prog1 prog2 env ∧ C02Emit.OnceOk prog2 env := Iff.rfl

theorem optimize_preserves_of_laterRounds' (hw : 0 < w) {env : Env} (hL : LaterRoundsOk w env)
    {b b' : Block w} (hcl : CanonL b.insts) {level : Nat} {orders : Orders}
    (h : Opt.optimize b level orders = .ok b') : BehEq b b' env :=
  optimize_preserves_of_laterRounds hw hL hcl h

end OptProof
end Hpbf

#print axioms Hpbf.OptProof.optimizeOnce_shape'
#print axioms Hpbf.OptProof.optimizeOnce_shapeOk'
#print axioms Hpbf.OptProof.dse_total_after_round'
#print axioms Hpbf.OptProof.optimizeOnce_atMost_atLeast
#print axioms Hpbf.OptProof.analSound_after_round1'
#print axioms Hpbf.OptProof.round1_dse_preserves'
#print axioms Hpbf.OptProof.optimize_preserves_of_steps'
#print axioms Hpbf.OptProof.optimizeOnce_rdOk'
#print axioms Hpbf.OptProof.optimizeOnce_analSound'
#print axioms Hpbf.OptProof.round_dse_behEq'
#print axioms Hpbf.OptProof.analSound_round1'
#print axioms Hpbf.OptProof.round1_dse_behEq'
#print axioms Hpbf.OptProof.optimize_preserves_of_laterRounds'
