/-
C01, `OptArith` section — the MEANING of the optimiser arithmetic of `src/opt.rs` as modelled in
`Hpbf/OptArith.lean` (trip counts in `analyze_loop`; powers, geometric and triangular sums in
`loop_motion`).  Property theorems only; definitions of the reference semantics and all lemmas are in
`Hpbf/Proofs/C01OptArith.lean`, `C01OptGeom.lean`, `C01OptTri.lean`.

Cells are `BitVec w`, `+` and `*` wrap.  Reference semantics (defined in `Proofs/C01OptArith.lean`,
their defining equations are restated below as `iter_zero … tri_succ`):

* `iter inc k m` — the counter after `k` rounds of a body that adds `inc` to it: `(· + inc)^[k] m`.
* `geo mul k`    — `1 + mul + … + mul^(k-1)`:   `geo mul 0 = 0`, `geo mul (k+1) = geo mul k * mul + 1`.
* `tri I D k`    — `I + (I+D) + … + (I+(k-1)D)`: `tri I D 0 = 0`,
                   `tri I D (k+1) = tri I D k + (I + k * D)`.

Sections: 1 trip count with constant operands, 2 trip count with an odd step and unknown initial
value, 3 geometric sums / affine recurrences, 4 triangular sums (`triStep`).
Every implication is followed by `example`s that instantiate it on concrete values.
-/
import Hpbf.Proofs.C01OptArith
import Hpbf.Proofs.C01OptGeom
import Hpbf.Proofs.C01OptTri

namespace Hpbf.C01Opt
open Hpbf

variable {w : Nat}

/-! ### 0. The reference semantics -/

theorem iter_zero (inc m : BitVec w) : iter inc 0 m = m := rfl
theorem iter_succ (inc m : BitVec w) (k : Nat) : iter inc (k + 1) m = iter inc k m + inc :=
  Lemmas.iter_succ inc m k
/-- Closed form of the counter. -/
theorem iter_eq (inc m : BitVec w) (k : Nat) : iter inc k m = m + BitVec.ofNat w k * inc :=
  Lemmas.iter_eq inc m k

theorem geo_zero (mul : BitVec w) : geo mul 0 = 0#w := rfl
theorem geo_succ (mul : BitVec w) (k : Nat) : geo mul (k + 1) = geo mul k * mul + 1#w := rfl
/-- The other recursion, `1 + mul * (1 + … + mul^(k-1))`. -/
theorem geo_succ' (mul : BitVec w) (k : Nat) : geo mul (k + 1) = 1#w + mul * geo mul k :=
  Lemmas.geo_succ' mul k
/-- The textbook closed form, without the division. -/
theorem geo_mul_pred (mul : BitVec w) (k : Nat) : (mul - 1#w) * geo mul k = mul ^ k - 1#w :=
  Lemmas.geo_mul_pred mul k

theorem tri_zero (I D : BitVec w) : tri I D 0 = 0#w := rfl
theorem tri_succ (I D : BitVec w) (k : Nat) :
    tri I D (k + 1) = tri I D k + (I + BitVec.ofNat w k * D) := rfl
/-- `tri` is what the loop it replaces computes: `k` rounds of `acc += add; add += D` from
`(B, I)` leave `B + tri I D k` in the accumulator. -/
theorem tri_loop (B I D : BitVec w) (k : Nat) :
    (fun s : BitVec w × BitVec w => (s.1 + s.2, s.2 + D))^[k] (B, I)
      = (B + tri I D k, I + BitVec.ofNat w k * D) :=
  Lemmas.tri_loop B I D k
/-- Closed form: `N * I + (N * (N - 1) / 2) * D` (the division is exact, in `Nat`). -/
theorem tri_closed (I D : BitVec w) (N : Nat) :
    tri I D N = BitVec.ofNat w N * I + BitVec.ofNat w (N * (N - 1) / 2) * D :=
  Lemmas.tri_closed I D N

example : iter (254#8) 3 (6#8) = 0#8 := by decide
example : geo (3#8) 5 = 121#8 := by decide
example : tri (1#8) (2#8) 5 = 25#8 := by decide

/-! ### 1. Trip count, constant initial value and step -/

/-- `tripCount m inc = some n`: the loop `while c ≠ 0 { c += inc }` started at `c = m` leaves
after exactly `n.toNat` rounds. -/
theorem tripCount_some (hw : 0 < w) (m inc n : BitVec w)
    (h : OptArith.tripCount m inc = some n) :
    iter inc n.toNat m = 0#w ∧ ∀ k : Nat, k < n.toNat → iter inc k m ≠ 0#w :=
  Lemmas.tripCount_some hw m inc n h

example : OptArith.tripCount (6#8) (254#8) = some (3#8) := by decide
example : iter (254#8) 3 (6#8) = 0#8 ∧ ∀ k : Nat, k < 3 → iter (254#8) k (6#8) ≠ 0#8 :=
  tripCount_some (by decide) (6#8) (254#8) (3#8) (by decide)
/- several roots of `x * 2 = 6` (3 and 131): the loop leaves at the first -/
example : iter (254#8) 131 (6#8) = 0#8 := by rw [iter_eq]; decide
/- counting up: 250, 253, 0 -/
example : OptArith.tripCount (250#8) (3#8) = some (2#8) := by decide
example : OptArith.tripCount (0#8) (0#8) = some (0#8) := by decide

/-- `tripCount m inc = none`: the loop never leaves. -/
theorem tripCount_none (hw : 0 < w) (m inc : BitVec w)
    (h : OptArith.tripCount m inc = none) (k : Nat) : iter inc k m ≠ 0#w :=
  Lemmas.tripCount_none hw m inc h k

example : OptArith.tripCount (5#8) (254#8) = none := by decide
example : ∀ k : Nat, iter (254#8) k (5#8) ≠ 0#8 :=
  tripCount_none (by decide) (5#8) (254#8) (by decide)
example : OptArith.tripCount (1#8) (0#8) = none := by decide

/-- Converse (so `tripCount` is complete): if the loop leaves first after `k` rounds then
`k < 2 ^ w` and `tripCount` returns `k`. -/
theorem tripCount_complete (hw : 0 < w) (m inc : BitVec w) (k : Nat)
    (h0 : iter inc k m = 0#w) (hmin : ∀ j : Nat, j < k → iter inc j m ≠ 0#w) :
    OptArith.tripCount m inc = some (BitVec.ofNat w k) ∧ k < 2 ^ w :=
  Lemmas.tripCount_of_first hw m inc k h0 hmin

example : OptArith.tripCount (6#8) (254#8) = some (BitVec.ofNat 8 3) ∧ 3 < 2 ^ 8 :=
  tripCount_complete (by decide) (6#8) (254#8) 3 (by decide) (by decide)

/-! ### 2. Trip count, odd step and unknown initial value -/

/-- With `tripInv inc = some inv` the trip count from ANY initial value `x` is `(inv * x).toNat`. -/
theorem tripInv_some (hw : 0 < w) (inc inv : BitVec w) (h : OptArith.tripInv inc = some inv)
    (x : BitVec w) :
    iter inc (inv * x).toNat x = 0#w ∧ ∀ k : Nat, k < (inv * x).toNat → iter inc k x ≠ 0#w :=
  Lemmas.tripInv_some hw inc inv h x

example : OptArith.tripInv (253#8) = some (171#8) := by decide
/- step `-3` from 10: 174 rounds (`174 * 3 = 522 = 2 * 256 + 10`, wrapping twice) -/
example : (171#8 * 10#8).toNat = 174 := by decide
example : iter (253#8) 174 (10#8) = 0#8 ∧ ∀ k : Nat, k < 174 → iter (253#8) k (10#8) ≠ 0#8 :=
  tripInv_some (by decide) (253#8) (171#8) (by decide) (10#8)
example : OptArith.tripInv (255#8) = some (1#8) := by decide

/-- The two analyses agree: `inv * x` is what `tripCount` computes for the constant `x`. -/
theorem tripInv_tripCount (hw : 0 < w) (inc inv : BitVec w)
    (h : OptArith.tripInv inc = some inv) (x : BitVec w) :
    OptArith.tripCount x inc = some (inv * x) :=
  Lemmas.tripInv_tripCount hw inc inv h x

example : OptArith.tripCount (10#8) (253#8) = some (171#8 * 10#8) :=
  tripInv_tripCount (by decide) (253#8) (171#8) (by decide) (10#8)

/-- The defining equation of the factor. -/
theorem tripInv_mul (hw : 0 < w) (inc inv : BitVec w) (h : OptArith.tripInv inc = some inv) :
    inv * (-inc) = 1#w :=
  Lemmas.tripInv_mul hw inc inv h

example : 171#8 * (-(253#8)) = 1#8 := tripInv_mul (by decide) (253#8) (171#8) (by decide)

/-- The factor is odd (all widths). -/
theorem tripInv_some_odd (inc inv : BitVec w) (h : OptArith.tripInv inc = some inv) :
    Cell.isOdd inv = true :=
  Lemmas.tripInv_some_odd inc inv h

example : Cell.isOdd (171#8) = true := tripInv_some_odd (253#8) (171#8) (by decide)

/-- No factor exactly for even steps (all widths). -/
theorem tripInv_none_iff (inc : BitVec w) :
    OptArith.tripInv inc = none ↔ Cell.isOdd inc = false :=
  Lemmas.tripInv_none_iff inc

theorem tripInv_isSome (inc : BitVec w) : (OptArith.tripInv inc).isSome = Cell.isOdd inc :=
  Lemmas.tripInv_isSome inc

example : OptArith.tripInv (254#8) = none ∧ Cell.isOdd (254#8) = false := by decide
example : OptArith.tripInv (0#8) = none := by decide

/-- Negation keeps the low bit (used for `-inc`; all widths). -/
theorem isOdd_neg (x : BitVec w) : Cell.isOdd (-x) = Cell.isOdd x := Lemmas.isOdd_neg x

/-- With an odd step every loop terminates. -/
theorem tripCount_isSome_of_odd (hw : 0 < w) (m inc : BitVec w) (h : Cell.isOdd inc = true) :
    (OptArith.tripCount m inc).isSome = true :=
  Lemmas.tripCount_isSome_of_odd hw m inc h

example : (OptArith.tripCount (77#8) (5#8)).isSome = true :=
  tripCount_isSome_of_odd (by decide) (77#8) (5#8) (by decide)

/-! ### 3. Geometric sums and affine recurrences -/

/-- `wrapping_geometric_sum(mul, n) = 1 + mul + … + mul^(n-1)` (all widths). -/
theorem geomSum_spec (mul n : BitVec w) : OptArith.geomSum mul n = geo mul n.toNat :=
  Lemmas.geomSum_spec mul n

/-- Both components of the loop state: the sum and the power. -/
theorem geomSum_fold (mul n : BitVec w) :
    (List.range w).reverse.foldl (OptArith.geomStep mul n) (0#w, 1#w)
      = (geo mul n.toNat, mul ^ n.toNat) :=
  Lemmas.geomSum_fold mul n

example : OptArith.geomSum (3#8) (5#8) = 121#8 ∧ geo (3#8) (5#8).toNat = 121#8 := by decide
example : OptArith.geomSum (2#8) (255#8) = 255#8 := by decide
example : OptArith.geomSum (7#8) (0#8) = 0#8 := by decide
example : OptArith.geomSum (1#16) (1000#16) = 1000#16 := by decide

/-- `k` rounds of `x = x * mul + c`. -/
theorem affine_iter (mul c x0 : BitVec w) (k : Nat) :
    (fun x => x * mul + c)^[k] x0 = x0 * mul ^ k + c * geo mul k :=
  Lemmas.affine_iter mul c x0 k

example : (fun x => x * 3#8 + 2#8)^[5] (1#8) = 1#8 * (3#8) ^ 5 + 2#8 * geo (3#8) 5 :=
  affine_iter (3#8) (2#8) (1#8) 5
example : (fun x => x * 3#8 + 2#8)^[5] (1#8) = 229#8 := by decide

/-- What the optimiser puts in place of the loop: `n` rounds of `x = x * mul + c` are
`x0 * wrapping_pow(mul, n) + c * wrapping_geometric_sum(mul, n)`. -/
theorem affine_loop (hw : 0 < w) (mul c x0 n : BitVec w) :
    (fun x => x * mul + c)^[n.toNat] x0
      = x0 * Cell.wrappingPow mul n + c * OptArith.geomSum mul n := by
  rw [affine_iter, C14.pow_spec hw, geomSum_spec]

example : 1#8 * Cell.wrappingPow (3#8) (5#8) + 2#8 * OptArith.geomSum (3#8) (5#8) = 229#8 := by
  decide

/-! ### 4. Triangular sums: `triStep` -/

/-- The four outcomes of `triStep`, with the halvings that select them. -/
theorem triStep_cases (expr initial increment before r : Expr w) (b : Nat)
    (h : OptArith.triStep expr initial increment before = (b, r)) :
    (b = 1 ∧ ∃ hi, Expr.half increment = some hi ∧
      r = Expr.add (Expr.mul expr initial) (Expr.add before
            (Expr.mul expr (Expr.mul (Expr.add expr (Expr.val (-1#w))) hi)))) ∨
    (b = 2 ∧ Expr.half increment = none ∧ ∃ hx, Expr.half expr = some hx ∧
      r = Expr.add (Expr.mul expr initial) (Expr.add before
            (Expr.mul (Expr.add expr (Expr.val (-1#w))) (Expr.mul increment hx)))) ∨
    (b = 3 ∧ Expr.half increment = none ∧ Expr.half expr = none ∧
      ∃ hx, Expr.half (Expr.add expr (Expr.val (-1#w))) = some hx ∧
      r = Expr.add (Expr.mul expr initial) (Expr.add before
            (Expr.mul expr (Expr.mul increment hx)))) ∨
    (b = 0 ∧ Expr.half increment = none ∧ Expr.half expr = none ∧
      Expr.half (Expr.add expr (Expr.val (-1#w))) = none ∧ r = before) :=
  Lemmas.triStep_cases expr initial increment before r b h

/-- Alternative 0: nothing is moved. -/
theorem triStep_branch0 (expr initial increment before r : Expr w) (b : Nat)
    (h : OptArith.triStep expr initial increment before = (b, r)) (hb : b = 0) : r = before :=
  Lemmas.triStep_branch0 expr initial increment before r b h hb

/- trip count `3 * x0`, odd increment: nothing can be halved -/
example : OptArith.triStep (Expr.mul (Expr.val 3#8) (Expr.var 0)) (Expr.var 1) (Expr.val 1#8)
    (Expr.var 2) = (0, Expr.var 2) := by decide +kernel

/-- Alternative 1 (even increment): correct for EVERY `N` that represents the trip count. -/
theorem triStep_branch1 (expr initial increment before r : Expr w) (b : Nat)
    (h : OptArith.triStep expr initial increment before = (b, r)) (hb : b = 1)
    (f : Int → BitVec w) (N : Nat) (hN : Expr.evaluate expr f = BitVec.ofNat w N) :
    Expr.evaluate r f = Expr.evaluate before f
      + tri (Expr.evaluate initial f) (Expr.evaluate increment f) N :=
  Lemmas.triStep_branch1 expr initial increment before r b h hb f N hN

example :
    Expr.evaluate (OptArith.triStep (Expr.var 0) (Expr.val 1#8) (Expr.val 2#8) (Expr.var 1)).2
        (fun _ => 5#8)
      = Expr.evaluate (Expr.var 1) (fun _ => 5#8)
        + tri (Expr.evaluate (Expr.val 1#8) (fun _ => 5#8))
            (Expr.evaluate (Expr.val 2#8) (fun _ => 5#8)) 5 :=
  triStep_branch1 (Expr.var 0) (Expr.val 1#8) (Expr.val 2#8) (Expr.var 1) _ _ rfl (by decide)
    (fun _ => 5#8) 5 (by decide)
/- 1 + 3 + 5 + 7 + 9 on top of 5 -/
example :
    Expr.evaluate (OptArith.triStep (Expr.var 0) (Expr.val 1#8) (Expr.val 2#8) (Expr.var 1)).2
        (fun _ => 5#8) = 30#8 := by decide +kernel

/-- In particular for the number of rounds the loop really runs, `(evaluate expr f).toNat`. -/
theorem triStep_branch1_toNat (expr initial increment before r : Expr w) (b : Nat)
    (h : OptArith.triStep expr initial increment before = (b, r)) (hb : b = 1)
    (f : Int → BitVec w) :
    Expr.evaluate r f = Expr.evaluate before f
      + tri (Expr.evaluate initial f) (Expr.evaluate increment f) (Expr.evaluate expr f).toNat :=
  triStep_branch1 expr initial increment before r b h hb f _
    (by rw [BitVec.ofNat_toNat, BitVec.setWidth_eq])

example (f : Int → BitVec 8) :
    Expr.evaluate (OptArith.triStep (Expr.var 0) (Expr.val 1#8) (Expr.val 2#8) (Expr.var 1)).2 f
      = Expr.evaluate (Expr.var 1) f
        + tri (Expr.evaluate (Expr.val 1#8) f) (Expr.evaluate (Expr.val 2#8) f)
            (Expr.evaluate (Expr.var 0) f).toNat :=
  triStep_branch1_toNat (Expr.var 0) (Expr.val 1#8) (Expr.val 2#8) (Expr.var 1) _ _ rfl
    (by decide) f

/-- Alternative 2 (trip count halved to `hx`): correct when doubling `hx` does not wrap, i.e.
`N = 2 * hx` in `Nat` (this implies `evaluate expr f = N`, `C15.value_half`). -/
theorem triStep_branch2 (expr initial increment before r : Expr w) (b : Nat)
    (h : OptArith.triStep expr initial increment before = (b, r)) (hb : b = 2)
    (f : Int → BitVec w) (N : Nat) (hx : Expr w) (hh : Expr.half expr = some hx)
    (hq : (Expr.evaluate hx f).toNat * 2 = N) :
    Expr.evaluate r f = Expr.evaluate before f
      + tri (Expr.evaluate initial f) (Expr.evaluate increment f) N :=
  Lemmas.triStep_branch2 expr initial increment before r b h hb f N hx hh hq

example :
    Expr.evaluate (OptArith.triStep (Expr.val 6#8) (Expr.var 0) (Expr.val 1#8) (Expr.var 1)).2
        (fun _ => 5#8)
      = Expr.evaluate (Expr.var 1) (fun _ => 5#8)
        + tri (Expr.evaluate (Expr.var 0) (fun _ => 5#8))
            (Expr.evaluate (Expr.val 1#8) (fun _ => 5#8)) 6 :=
  triStep_branch2 (Expr.val 6#8) (Expr.var 0) (Expr.val 1#8) (Expr.var 1) _ _ rfl (by decide)
    (fun _ => 5#8) 6 (Expr.val 3#8) (by decide) (by decide)

/-- Alternative 3 (trip count minus one halved to `hx`): correct when `N = 2 * hx + 1` in `Nat`. -/
theorem triStep_branch3 (expr initial increment before r : Expr w) (b : Nat)
    (h : OptArith.triStep expr initial increment before = (b, r)) (hb : b = 3)
    (f : Int → BitVec w) (N : Nat) (hx : Expr w)
    (hh : Expr.half (Expr.add expr (Expr.val (-1#w))) = some hx)
    (hq : (Expr.evaluate hx f).toNat * 2 + 1 = N) :
    Expr.evaluate r f = Expr.evaluate before f
      + tri (Expr.evaluate initial f) (Expr.evaluate increment f) N :=
  Lemmas.triStep_branch3 expr initial increment before r b h hb f N hx hh hq

example :
    Expr.evaluate (OptArith.triStep (Expr.val 7#8) (Expr.var 0) (Expr.val 1#8) (Expr.var 1)).2
        (fun _ => 5#8)
      = Expr.evaluate (Expr.var 1) (fun _ => 5#8)
        + tri (Expr.evaluate (Expr.var 0) (fun _ => 5#8))
            (Expr.evaluate (Expr.val 1#8) (fun _ => 5#8)) 7 :=
  triStep_branch3 (Expr.val 7#8) (Expr.var 0) (Expr.val 1#8) (Expr.var 1) _ _ rfl
    (by decide +kernel) (fun _ => 5#8) 7 (Expr.val 3#8) (by decide +kernel) (by decide)

/-- A constant trip count `c` (the only way the optimiser reaches alternatives 2 and 3): whatever
alternative is taken, the moved expression is right for `N = c.toNat` (all widths). -/
theorem triStep_val_sound (c : BitVec w) (initial increment before r : Expr w) (b : Nat)
    (h : OptArith.triStep (Expr.val c) initial increment before = (b, r)) (hb : b ≠ 0)
    (f : Int → BitVec w) :
    Expr.evaluate r f = Expr.evaluate before f
      + tri (Expr.evaluate initial f) (Expr.evaluate increment f) c.toNat :=
  Lemmas.triStep_val_sound c initial increment before r b h hb f

/- all three alternatives occur with constant trip counts -/
example : (OptArith.triStep (Expr.val 9#8) (Expr.var 0) (Expr.var 3) (Expr.var 1)).1 = 3 := by
  decide +kernel
example : (OptArith.triStep (Expr.val 10#8) (Expr.var 0) (Expr.var 3) (Expr.var 1)).1 = 2 := by
  decide +kernel
example : (OptArith.triStep (Expr.val 9#8) (Expr.var 0) (Expr.val 4#8) (Expr.var 1)).1 = 1 := by
  decide +kernel
example (f : Int → BitVec 8) :
    Expr.evaluate (OptArith.triStep (Expr.val 9#8) (Expr.var 0) (Expr.var 3) (Expr.var 1)).2 f
      = Expr.evaluate (Expr.var 1) f
        + tri (Expr.evaluate (Expr.var 0) f) (Expr.evaluate (Expr.var 3) f) (9#8).toNat :=
  triStep_val_sound (9#8) (Expr.var 0) (Expr.var 3) (Expr.var 1) _ _ rfl (by decide +kernel) f

/-- If some non-constant part of the trip count has an odd coefficient then neither the trip count
nor the trip count minus one can be halved: alternatives 2 and 3 are never taken (all widths). -/
theorem triStep_oddpart_no_half (expr initial increment before r : Expr w) (b : Nat)
    (h : OptArith.triStep expr initial increment before = (b, r))
    (p : Part w) (hp : p ∈ expr) (hv : p.vars ≠ []) (ho : Cell.isOdd p.coef = true) :
    b = 0 ∨ b = 1 :=
  Lemmas.triStep_oddpart_no_half expr initial increment before r b h p hp hv ho

/-- The optimiser's other trip-count shape, `inv * x_v` with `inv` odd (section 2), is the single
part `inv * [v]`. -/
theorem invvar_eq (hw : 0 < w) (inv : BitVec w) (v : Int) (ho : Cell.isOdd inv = true) :
    Expr.mul (Expr.val inv) (Expr.var v) = [({ coef := inv, vars := [v] } : Part w)] :=
  Lemmas.invvar_eq hw inv v ho

/-- … hence it never takes the halving alternatives 2 and 3. -/
theorem triStep_invvar_no_half (hw : 0 < w) (inv : BitVec w) (v : Int)
    (ho : Cell.isOdd inv = true) (initial increment before r : Expr w) (b : Nat)
    (h : OptArith.triStep (Expr.mul (Expr.val inv) (Expr.var v)) initial increment before = (b, r)) :
    b = 0 ∨ b = 1 :=
  Lemmas.triStep_invvar_no_half hw inv v ho initial increment before r b h

example : (OptArith.triStep (Expr.mul (Expr.val 171#8) (Expr.var 0)) (Expr.var 1) (Expr.val 2#8)
    (Expr.var 2)).1 = 1 := by decide +kernel
example : (OptArith.triStep (Expr.mul (Expr.val 171#8) (Expr.var 0)) (Expr.var 1) (Expr.val 1#8)
    (Expr.var 2)).1 = 0 := by decide +kernel
/- `0 < w` is needed: at width 0 the product is the empty expression, which can be "halved" -/
example : (OptArith.triStep (Expr.mul (Expr.val 0#0) (Expr.var 0)) (Expr.var 1) (Expr.var 1)
    (Expr.var 2)).1 = 2 := by decide +kernel

/-- … and whenever something is moved it is right, for EVERY `N` representing `inv * x_v`. -/
theorem triStep_invvar_sound (hw : 0 < w) (inv : BitVec w) (v : Int)
    (ho : Cell.isOdd inv = true) (initial increment before r : Expr w) (b : Nat)
    (h : OptArith.triStep (Expr.mul (Expr.val inv) (Expr.var v)) initial increment before = (b, r))
    (hb : b ≠ 0) (f : Int → BitVec w) (N : Nat)
    (hN : Expr.evaluate (Expr.mul (Expr.val inv) (Expr.var v)) f = BitVec.ofNat w N) :
    Expr.evaluate r f = Expr.evaluate before f
      + tri (Expr.evaluate initial f) (Expr.evaluate increment f) N := by
  refine Lemmas.triStep_invvar_sound hw inv v ho initial increment before r b h hb f N ?_
  rw [← hN, C15.value_mul, C15.value_val, C15.value_var]

/- step `-3` from `x0 = 10`: trip count `171 * 10 = 174 (mod 256)` -/
example :
    Expr.evaluate (OptArith.triStep (Expr.mul (Expr.val 171#8) (Expr.var 0)) (Expr.var 1)
        (Expr.val 2#8) (Expr.var 2)).2 (fun _ => 10#8)
      = Expr.evaluate (Expr.var 2) (fun _ => 10#8)
        + tri (Expr.evaluate (Expr.var 1) (fun _ => 10#8))
            (Expr.evaluate (Expr.val 2#8) (fun _ => 10#8)) 174 :=
  triStep_invvar_sound (by decide) (171#8) 0 (by decide) (Expr.var 1) (Expr.val 2#8) (Expr.var 2)
    _ _ rfl (by decide +kernel) (fun _ => 10#8) 174 (by decide)

/-- The side condition of `triStep_branch2` cannot be dropped.  Trip count `2 * x0` with
`x0 = 200` at width 8: the loop runs `N = 144` rounds (`400 mod 256`), alternative 2 is taken with
the half `x0 = 200 ≠ 72`, and the moved expression is NOT `before + tri initial increment 144`
(it is `… + tri … 400`).  The optimiser is safe only because the trip counts it builds are
constants (`triStep_val_sound`) or `inv * x` with `inv` odd (`triStep_invvar_no_half`). -/
theorem triStep_branch2_needs_exact_half :
    let expr : Expr 8 := Expr.mul (Expr.val 2#8) (Expr.var 0)
    let initial : Expr 8 := Expr.var 1
    let increment : Expr 8 := Expr.val 1#8
    let before : Expr 8 := Expr.var 2
    let f : Int → BitVec 8 := fun _ => 200#8
    let res := OptArith.triStep expr initial increment before
    res.1 = 2 ∧ Expr.half expr = some (Expr.var 0) ∧
    Expr.evaluate expr f = BitVec.ofNat 8 144 ∧ (Expr.evaluate expr f).toNat = 144 ∧
    (Expr.evaluate (Expr.var 0 : Expr 8) f).toNat * 2 = 400 ∧
    Expr.evaluate res.2 f
      ≠ Expr.evaluate before f + tri (Expr.evaluate initial f) (Expr.evaluate increment f) 144 := by
  decide +kernel

/- … while for the representative `N = 400 = 2 * 200` of the same cell value the equation holds -/
example :
    Expr.evaluate (OptArith.triStep (Expr.mul (Expr.val 2#8) (Expr.var 0)) (Expr.var 1)
        (Expr.val 1#8) (Expr.var 2)).2 (fun _ => 200#8)
      = Expr.evaluate (Expr.var 2) (fun _ => 200#8)
        + tri (Expr.evaluate (Expr.var 1) (fun _ => 200#8))
            (Expr.evaluate (Expr.val 1#8) (fun _ => 200#8)) 400 :=
  triStep_branch2 (Expr.mul (Expr.val 2#8) (Expr.var 0)) (Expr.var 1) (Expr.val 1#8) (Expr.var 2)
    _ _ rfl (by decide +kernel) (fun _ => 200#8) 400 (Expr.var 0) (by decide +kernel) (by decide)

/-! ### Axioms -/

#print axioms iter_succ
#print axioms iter_eq
#print axioms geo_succ'
#print axioms geo_mul_pred
#print axioms tri_loop
#print axioms tri_closed
#print axioms tripCount_some
#print axioms tripCount_none
#print axioms tripCount_complete
#print axioms tripInv_some
#print axioms tripInv_tripCount
#print axioms tripInv_mul
#print axioms tripInv_some_odd
#print axioms tripInv_none_iff
#print axioms tripInv_isSome
#print axioms isOdd_neg
#print axioms tripCount_isSome_of_odd
#print axioms geomSum_spec
#print axioms geomSum_fold
#print axioms affine_iter
#print axioms affine_loop
#print axioms triStep_cases
#print axioms triStep_branch0
#print axioms triStep_branch1
#print axioms triStep_branch1_toNat
#print axioms triStep_branch2
#print axioms triStep_branch3
#print axioms triStep_val_sound
#print axioms triStep_oddpart_no_half
#print axioms invvar_eq
#print axioms triStep_invvar_no_half
#print axioms triStep_invvar_sound
#print axioms triStep_branch2_needs_exact_half

end Hpbf.C01Opt
