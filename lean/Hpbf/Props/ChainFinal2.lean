/-
ChainFinal2: the last two gaps of `Props/ChainFinal.lean` closed.

(a) CONVERSE for the machine code in unlimited mode (`C03.conv_run`, `C03.conv_diverges`, `Props/C03Conv.lean`; their
    extra hypothesis `NoNoop` holds for every `translate` output: `noNoop_translate`): if the compiled function
    returns, the canonical run terminates with that verdict and those events (`jit_final_converse`); on a canonically
    divergent program it never returns and never faults (`jit_final_never_returns`).  Hence the unlimited-mode
    machine-code conjunct of the headline becomes an equivalence: `AllBackends2`, `all_levels_all_backends_final2`.
(b) TOTALITY of the repaired optimizer (`Props/C01Fixed.lean`): for every balanced source and level a fitting oracle
    exists, no oracle makes `OptFix.optimizeF` panic, and for every oracle for which it succeeds all backends agree
    (`all_levels_exists_final2`); the window fields of `JitRange` follow from `bytes * length(source) < 2^31`
    (`jitRange_window_of_length_final2`).
Property theorems only, restated as `example`s; proofs in `Hpbf/Proofs/ChainFinal2.lean`.

Hypotheses that REMAIN in the final statements:
* `0 < w`, balancedness of the source;
* the oracle: every statement is for EVERY oracle for which `OptFix.optimizeF` returns a block; that such an oracle
  exists and that the other oracles only produce "order-mismatch" errors is now a theorem;
* `JitRange` for the machine-code conjuncts: cell width 8/16/32/64; the machine decodes the generated code; code
  < 2^31 bytes; three distinct runtime addresses; frame size and `mov` shifts inside `i32`; `rsp ≡ 8 (mod 16)`; budget a
  `u64`, not (limited ∧ 0); no allocation beyond 2^40 cells for bounds-checked code; and the window fields, which
  follow from the length of the text.
Nothing about the machine code is left one-directional in unlimited mode; in limited mode the statement was already
complete (`jit_final_limited`).
-/
import Hpbf.Proofs.ChainFinal2
import Hpbf.Props.ChainTotal

namespace Hpbf
namespace Chain

open Asm JitGen X86Sem X86Prog C03 BcGen C02

variable {w : Nat}

/-! ## 0. `NoNoop` -/

example (p : Bc.Program w) : NoNoop p ↔ ∀ i : Nat, p.insts[i]? ≠ some Bc.Instr.noop := Iff.rfl
example (blk : Ir.Block w) (numRegs : Nat) (fuse : Bool) : NoNoop (translate blk numRegs fuse) :=
  noNoop_translate blk numRegs fuse

/-! ## The generic converse (any program that agrees with the canonical semantics) -/

example (prog : Prog) (p : Bc.Program w) (env : Env) (A : BcAgrees prog p env) (safe : Bool) (cfg : X86Prog.Cfg)
    (code : List X86) (buf0 rsp0 ra : BitVec 64) (H : JitHyps p false safe cfg code buf0 rsp0 ra 0 env)
    (hnn : NoNoop p) :
    SameResults (fun f => finBf (Bf.run (w := w) f prog env))
      (fun n => finX86 (X86Prog.run cfg n (initState (w := w) cfg buf0 rsp0 ra p.minAcc p.maxAcc 0 env))) :=
  same_jit_of_agrees A H hnn

section Final2
variable (hw : 0 < w) (src : List Kind) (prog : Prog) (hp : Bf.tree src = some prog)
  (b b' : Ir.Block w) (hb : Ir.parse (w := w) src = .ok b) (level : Nat) (orders : Opt.Orders)
  (hopt : OptFix.optimizeF b level orders = .ok b') (env : Env)
  (sz : Size) (safe : Bool) (cfg : X86Prog.Cfg) (buf0 rsp0 ra : BitVec 64)

/-! ## 1. The converse for the machine code, unlimited mode -/

/-- **`jit_final_converse`** -/
example (R : JitRange sz (translate b' 11 false) false safe cfg buf0 rsp0 ra 0 env) (n : Nat) (s' : PState w)
    (hret : X86Prog.run cfg n (initState (w := w) cfg buf0 rsp0 ra (translate b' 11 false).minAcc
      (translate b' 11 false).maxAcc 0 env) = .ret s') :
    ∃ f, finBf (Bf.run (w := w) f prog env) = some (s'.regs.rax == 1, s'.trace) :=
  jit_final_converse hw hp hb hopt env R hret

/-- **`jit_final_never_returns`** -/
example (R : JitRange sz (translate b' 11 false) false safe cfg buf0 rsp0 ra 0 env)
    (hdiv : C05.BfDiverges w prog env) (n : Nat) :
    (∀ r, X86Prog.run cfg n (initState (w := w) cfg buf0 rsp0 ra (translate b' 11 false).minAcc
      (translate b' 11 false).maxAcc 0 env) ≠ .ret r) ∧
    (∀ f r, X86Prog.run cfg n (initState (w := w) cfg buf0 rsp0 ra (translate b' 11 false).minAcc
      (translate b' 11 false).maxAcc 0 env) ≠ .fault f r) :=
  jit_final_never_returns hw hp hb hopt env R hdiv n

/-- Both directions at once. -/
example (R : JitRange sz (translate b' 11 false) false safe cfg buf0 rsp0 ra 0 env) :
    SameResults (fun f => finBf (Bf.run (w := w) f prog env))
      (fun n => finX86 (X86Prog.run cfg n (initState (w := w) cfg buf0 rsp0 ra (translate b' 11 false).minAcc
        (translate b' 11 false).maxAcc 0 env))) :=
  jit_final_same hw hp hb hopt env R

/-! ## 3b. The window fields of `JitRange` from the length of the text -/

example (numRegs : Nat) (fuse : Bool) :
    -(src.length : Int) ≤ (translate b' numRegs fuse).minAcc ∧
    (translate b' numRegs fuse).maxAcc ≤ (src.length : Int) :=
  translate_window_final2 hb hopt numRegs fuse

/-- **`jitRange_window_of_length_final2`** -/
example (numRegs : Nat) (fuse : Bool) (hlen : (sz.bytes : Int) * src.length < 2147483648) :
    let p := translate b' numRegs fuse
    (-2147483648 < p.minAcc ∧ p.maxAcc < 2147483648) ∧ DispOk sz p.minAcc ∧ DispOk sz p.maxAcc ∧
    DispOk sz (-p.minAcc) ∧ DispOk sz (-p.maxAcc) :=
  jitRange_window_of_length_final2 hb hopt numRegs fuse sz hlen

end Final2

/-! ## 2. `AllBackends2` and the headline -/

example (code : Array Kind) (prog : Prog) (b' : Ir.Block w) (numRegs : Nat) (fuse : Bool) (env : Env) :
    AllBackends2 code prog b' numRegs fuse env ↔
    (let canon : Nat → Fin := fun f => finBf (Bf.run (w := w) f prog env)
     let p : Bc.Program w := translate b' numRegs fuse
     let pj : Bc.Program w := translate b' 11 false
     SameResults canon (fun f => finInplace (Inplace.run (w := w) code false 0 f env)) ∧
     SameResults canon (fun f => finIr (Ir.run b' false 0 f env)) ∧
     SameResults canon (fun f => finBc (Bc.run p false 0 f env)) ∧
     SameResults canon (fun f => finBc (C02.runDebug p false 0 f env)) ∧
     (∀ (sz : Size) (safe : Bool) (cfg : X86Prog.Cfg) (buf0 rsp0 ra : BitVec 64),
       JitRange sz pj false safe cfg buf0 rsp0 ra 0 env →
       SameResults canon (fun n => finX86
         (X86Prog.run cfg n (initState (w := w) cfg buf0 rsp0 ra pj.minAcc pj.maxAcc 0 env)))) ∧
     (∀ (sz : Size) (safe : Bool) (cfg : X86Prog.Cfg) (buf0 rsp0 ra : BitVec 64) (bd : Nat),
       JitRange sz pj true safe cfg buf0 rsp0 ra bd env →
       ∃ n r, finX86 (X86Prog.run cfg n (initState (w := w) cfg buf0 rsp0 ra pj.minAcc pj.maxAcc bd env))
           = some r ∧
         (r.1 = true → ∃ f, canon f = some r) ∧
         ∃ f, ∀ g, f ≤ g → r.2 <:+ C01.traceOfBf (Bf.run (w := w) g prog env))) := Iff.rfl

/-- It implies `AllBackends`. -/
example (code : Array Kind) (prog : Prog) (b' : Ir.Block w) (numRegs : Nat) (fuse : Bool) (env : Env)
    (h : AllBackends2 code prog b' numRegs fuse env) : AllBackends code prog b' numRegs fuse env :=
  h.toAllBackends

/-- **`all_levels_all_backends_final2`** (ASSUMED / CONCLUDED docstring at the theorem). -/
example (hw : 0 < w) (code : Array Kind) (prog : Prog) (hp : Bf.tree code.toList = some prog) (level : Nat)
    (orders : Opt.Orders) (b' : Ir.Block w)
    (hopt : OptFix.optimizeF (irOf w code.toList) level orders = .ok b') (env : Env)
    (numRegs : Nat) (fuse : Bool) : AllBackends2 code prog b' numRegs fuse env :=
  all_levels_all_backends_final2 hw code prog hp level orders b' hopt env numRegs fuse

/-! ## 3. Totality -/

/-- **`all_levels_exists_final2`** -/
example (hw : 0 < w) (code : Array Kind) (prog : Prog) (hp : Bf.tree code.toList = some prog) (level : Nat) :
    (∀ orders e, OptFix.optimizeF (irOf w code.toList) level orders = .error e →
      OptTotal.isOracleError e = true) ∧
    (∃ orders b', OptFix.optimizeF (irOf w code.toList) level orders = .ok b') ∧
    (∀ orders b', OptFix.optimizeF (irOf w code.toList) level orders = .ok b' →
      ∀ (env : Env) (numRegs : Nat) (fuse : Bool), AllBackends2 code prog b' numRegs fuse env) :=
  all_levels_exists_final2 hw code prog hp level
example (e : String) : OptTotal.isOracleError e = "order-mismatch ".toList.isPrefixOf e.toList := rfl

/-! ## 4. Non-vacuity (kernel evaluation) -/

set_option maxRecDepth 100000

/-- `,[.,]` with the `JitRange` instance `totRange` of `Props/ChainTotal.lean` (level 0, where `optimizeF` is the
identity): EVERY return of the compiled function carries a canonical result … -/
example (n : Nat) (s' : PState 8)
    (hret : X86Prog.run (exCfg totCode) n (initState (w := 8) (exCfg totCode) 0x560000000000 0x7ffd00000ff8
      0x555500001234 totPj.minAcc totPj.maxAcc 0 totEnv) = .ret s') :
    ∃ f, finBf (Bf.run (w := 8) f totProg totEnv) = some (s'.regs.rax == 1, s'.trace) :=
  jit_final_converse (w := 8) (by decide) totCat_tree (parse_irOf totCat_tree) (optimizeF_zero_ok _) totEnv
    totRange hret

/-- … and the two machines have the same finished results. -/
example : SameResults (fun f => finBf (Bf.run (w := 8) f totProg totEnv))
    (fun n => finX86 (X86Prog.run (exCfg totCode) n (initState (w := 8) (exCfg totCode) 0x560000000000
      0x7ffd00000ff8 0x555500001234 totPj.minAcc totPj.maxAcc 0 totEnv))) :=
  (all_levels_all_backends_final2 (w := 8) (by decide) totCat totProg totCat_tree 0 [] _ (optimizeF_zero_ok _)
    totEnv 4 true).2.2.2.2.1 .b8 false (exCfg totCode) _ _ _ totRange

/-- `+[]` : canonically divergent. -/
def spinCode : Array Kind := #[.inc, .open, .close]
def spinPj : Bc.Program 8 := translate (irOf 8 spinCode.toList) 11 false
def spinX : List X86 := (compileX86 8 spinPj false false 0x7f0000001000 0x7f0000002000 0x7f0000003000).getD []

theorem spin_tree : Bf.tree spinCode.toList = some C05.pSpin := by decide
theorem spin_diverges : C05.BfDiverges 8 C05.pSpin C05.env0 := C05.diverges_of_isDiverges (fuel := 20) (by decide)

/-- The bytecode is the self-loop `brnz 0 0` of `Props/C03Conv.lean`. -/
theorem spinPj_insts : spinPj.insts = #[.add (.mem 0) (.mem 0) (.imm 1#8), .brz 0 2, .brnz 0 0] := by
  decide +kernel

theorem spinPj_no_mov (i : Nat) (sh : Int) : spinPj.insts[i]? ≠ some (Bc.Instr.mov sh) := by
  rw [spinPj_insts]
  intro h
  rcases i with _|_|_|i <;> simp at h

theorem spinRange : JitRange .b8 spinPj false false (exCfg spinX) 0x560000000000 0x7ffd00000ff8 0x555500001234 0
    C05.env0 :=
  { width := rfl,
    fetch := by rw [show jitCode spinPj false false (exCfg spinX) = spinX from jitCode_exCfg _ _ _ _]
                exact exCfg_fetch _,
    small := by rw [show jitCode spinPj false false (exCfg spinX) = spinX from jitCode_exCfg _ _ _ _]
                decide +kernel,
    addrIO := by show (0x7f0000002000 : BitVec 64) ≠ 0x7f0000003000; decide,
    addrEI := by show (0x7f0000001000 : BitVec 64) ≠ 0x7f0000002000; decide,
    addrEO := by show (0x7f0000001000 : BitVec 64) ≠ 0x7f0000003000; decide,
    win := by decide +kernel,
    dispMin := by unfold DispOk; decide +kernel, dispMax := by unfold DispOk; decide +kernel,
    dispNeg := fun h => (by cases h),
    temps := by decide +kernel,
    shift := fun i sh h => absurd h (spinPj_no_mov i sh),
    rsp := by decide, budgetLt := by decide, lim := rfl, noOOM := fun h => by cases h }

/-- The machine code of `+[]` (at level 0; `cmp; jne` to itself) is still running after ANY number of steps: it
never returns and never faults. -/
example (n : Nat) :
    (∀ r, X86Prog.run (exCfg spinX) n (initState (w := 8) (exCfg spinX) 0x560000000000 0x7ffd00000ff8
      0x555500001234 spinPj.minAcc spinPj.maxAcc 0 C05.env0) ≠ .ret r) ∧
    (∀ f r, X86Prog.run (exCfg spinX) n (initState (w := 8) (exCfg spinX) 0x560000000000 0x7ffd00000ff8
      0x555500001234 spinPj.minAcc spinPj.maxAcc 0 C05.env0) ≠ .fault f r) :=
  jit_final_never_returns (w := 8) (by decide) spin_tree (parse_irOf spin_tree) (optimizeF_zero_ok _) C05.env0
    spinRange spin_diverges n

/-- Totality on an instance: at level 3 some oracle fits the F13 witness (481 characters), and none panics. -/
example : (∀ orders e, OptFix.optimizeF (irOf 8 OptProof.F13.f13Bf.toArray.toList) 3 orders = .error e →
      OptTotal.isOracleError e = true) ∧
    ∃ orders b', OptFix.optimizeF (irOf 8 OptProof.F13.f13Bf.toArray.toList) 3 orders = .ok b' := by
  have hp : ∃ prog, Bf.tree OptProof.F13.f13Bf.toArray.toList = some prog := by
    cases h : Bf.tree OptProof.F13.f13Bf.toArray.toList with
    | none =>
      have : (Bf.tree OptProof.F13.f13Bf.toArray.toList).isSome = true := by decide +kernel
      rw [h] at this; cases this
    | some p => exact ⟨p, rfl⟩
  obtain ⟨prog, hp⟩ := hp
  have := all_levels_exists_final2 (w := 8) (by decide) OptProof.F13.f13Bf.toArray prog hp 3
  exact ⟨this.1, this.2.1⟩

end Chain
end Hpbf

#print axioms Hpbf.Chain.noNoop_translate
#print axioms Hpbf.Chain.jit_converse_of_agrees
#print axioms Hpbf.Chain.jit_never_returns_of_agrees
#print axioms Hpbf.Chain.same_jit_of_agrees
#print axioms Hpbf.Chain.allBackends2_of_agrees
#print axioms Hpbf.Chain.AllBackends2.toAllBackends
#print axioms Hpbf.Chain.jit_final_converse
#print axioms Hpbf.Chain.jit_final_never_returns
#print axioms Hpbf.Chain.jit_final_same
#print axioms Hpbf.Chain.translate_window_final2
#print axioms Hpbf.Chain.jitRange_window_of_length_final2
#print axioms Hpbf.Chain.all_levels_all_backends_final2
#print axioms Hpbf.Chain.all_levels_exists_final2
#print axioms Hpbf.Chain.spin_diverges
#print axioms Hpbf.Chain.spinRange
