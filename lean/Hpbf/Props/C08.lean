/-
Property C08.  "If the output sink refuses a byte, or the input source is absent or returns an error,
then under every backend the program stops at that operation: the events before it equal the canonical
sequence, no later event happens, nothing panics or crashes, and the call returns normally.  End of
input is not a failure and reads as 0."

`Env` models `runtime::Context` minus the tape: `input = none` absent source, `some replies` the
replies of the source to successive one-byte reads (`byte b`, `eof` = read returned 0 bytes, `err` =
read returned an error), after which the source is at end of input forever; `sink = false` absent
sink; `outOk = some k` the sink accepts `k` more bytes and refuses the next, `none` never refuses.
`State.input` / `State.output` model `Context::input` / `Context::output` applied to a cell; their
Boolean result `false` means "the program stops here".

1. what `State.input` / `State.output` do in each of these situations;
2. for each machine (canonical `Bf`, in-place interpreter, IR interpreter, bytecode machine; the last
   two in unlimited and in limited mode): a stop step ends the run with exactly the state of that step
   (no later event, normal return: the outcome is `.stopped`, never `.bad`), and a run returns
   `.stopped` only from an `inp`/`out` instruction whose `State.input/output` returned `false`;
3. canonical machine: the events before a refused byte, and the refused byte itself, are exactly what
   the run with a sink that never refuses produces; a refusal that is never reached changes nothing;
4. in-place interpreter (C04) and IR interpreter at level 0 (C01): they stop with the same events as
   the canonical machine in the same faulty environment.
Cell width `w` arbitrary (the IR corollaries need `0 < w`, as C01 does).  Proofs: `Hpbf/Proofs/C08.lean`.
-/
import Hpbf.Proofs.C08
import Hpbf.Props.C04
import Hpbf.Props.C01
import Hpbf.Props.C07

namespace Hpbf
namespace C08

variable {w : Nat}

/-! ### 1. The environment -/

/-- The byte sent by `.` is the low 8 bits of the cell. -/
theorem outByte_low8 (s : State w) (off : Int) : (outByte s off).toNat = (s.rd off).toNat % 256 :=
  outByte_toNat s off

/-- At end of input a read succeeds, stores 0, is logged as `inp 0`, and leaves the environment as it
is. -/
theorem eof_reads_zero (s : State w) (off : Int) (h : s.env.input = some []) :
    s.input off = (true, { s.wr off 0#w with trace := Ev.inp 0 :: s.trace }) ∧
    (s.input off).2.rd off = 0#w ∧ (s.input off).2.ptr = s.ptr ∧ (s.input off).2.env = s.env ∧
    (s.input off).2.trace = Ev.inp 0 :: s.trace := by
  rw [input_eof s off h]
  refine ⟨rfl, ?_, rfl, rfl, rfl⟩
  simp [State.rd, State.wr]

/-- End of input is sticky. -/
theorem eof_sticky (s : State w) (off : Int) (h : s.env.input = some []) :
    (s.input off).2.env.input = some [] := by
  rw [input_eof s off h]; exact h

/-- A read that returns 0 bytes (not necessarily for ever, e.g. a terminal) also reads as 0. -/
theorem eof_reply_reads_zero (s : State w) (off : Int) (rest : List InResp)
    (h : s.env.input = some (.eof :: rest)) :
    s.input off = (true, { s.wr off 0#w with env := { s.env with input := some rest },
                                              trace := Ev.inp 0 :: s.trace }) :=
  input_eof_reply s off rest h

/-- A read error: the program stops; tape and pointer untouched; the failed request is logged. -/
theorem input_error_stops (s : State w) (off : Int) (rest : List InResp)
    (h : s.env.input = some (.err :: rest)) :
    s.input off = (false, { s with env := { s.env with input := some rest },
                                   trace := Ev.inpFail :: s.trace }) ∧
    (s.input off).1 = false ∧ (s.input off).2.tape = s.tape ∧ (s.input off).2.ptr = s.ptr ∧
    (s.input off).2.trace = Ev.inpFail :: s.trace := by
  rw [input_err s off rest h]
  exact ⟨rfl, rfl, rfl, rfl, rfl⟩

/-- An absent source: the program stops; nothing changes and no request is made. -/
theorem input_absent_stops (s : State w) (off : Int) (h : s.env.input = none) :
    s.input off = (false, s) :=
  input_absent s off h

/-- A refusing sink: the program stops; tape, pointer, environment untouched; the refused byte (the
low 8 bits of the cell) is logged. -/
theorem output_refused_stops (s : State w) (off : Int) (hs : s.env.sink = true)
    (h : s.env.outOk = some 0) :
    s.output off = (false, { s with trace := Ev.outFail (outByte s off) :: s.trace }) ∧
    (s.output off).1 = false ∧ (s.output off).2.tape = s.tape ∧ (s.output off).2.ptr = s.ptr ∧
    (s.output off).2.trace = Ev.outFail (outByte s off) :: s.trace := by
  rw [output_refused s off hs h]
  exact ⟨rfl, rfl, rfl, rfl, rfl⟩

/-- An absent sink accepts silently. -/
theorem output_absent_sink_ok (s : State w) (off : Int) (h : s.env.sink = false) :
    s.output off = (true, s) :=
  output_no_sink s off h

/-- Input fails in exactly these two ways … -/
theorem input_fails_iff (s t : State w) (off : Int) :
    s.input off = (false, t) ↔
      (s.env.input = none ∧ t = s) ∨
      (∃ rest, s.env.input = some (.err :: rest) ∧
        t = { s with env := { s.env with input := some rest }, trace := Ev.inpFail :: s.trace }) := by
  constructor
  · exact input_false
  · rintro (⟨h, rfl⟩ | ⟨rest, h, rfl⟩)
    · exact input_absent t off h
    · exact input_err s off rest h

/-- … and output in exactly this one. -/
theorem output_fails_iff (s t : State w) (off : Int) :
    s.output off = (false, t) ↔
      s.env.sink = true ∧ s.env.outOk = some 0 ∧
        t = { s with trace := Ev.outFail (outByte s off) :: s.trace } := by
  constructor
  · exact output_false
  · rintro ⟨hs, h, rfl⟩
    exact output_refused s off hs h

/-! ### 2. A stop ends the run, and only failing I/O stops it -/

/-- Canonical machine: once a step stops, every longer run returns `.stopped` with exactly that state. -/
theorem bf_stop_final {n : Nat} {c0 c : Bf.Config w} {s : State w}
    (hreach : Bf.runCfg n c0 = .outOfFuel c) (hstop : Bf.step c = .stop s) :
    ∀ f, n < f → Bf.runCfg f c0 = .stopped s := by
  intro f hf
  obtain ⟨m, rfl⟩ : ∃ m, f = n + (m + 1) := ⟨f - n - 1, by omega⟩
  rw [bf_run_split hreach, Bf.runCfg_succ_stop hstop]

theorem bf_stops_only_at_io {f : Nat} {c0 : Bf.Config w} {s : State w}
    (h : Bf.runCfg f c0 = .stopped s) :
    ∃ n c rest, n < f ∧ Bf.runCfg n c0 = .outOfFuel c ∧
      ((c.cur = .cmd .inp rest ∧ c.st.input 0 = (false, s)) ∨
       (c.cur = .cmd .out rest ∧ c.st.output 0 = (false, s))) := by
  obtain ⟨n, c, hn, hr, hs⟩ := bf_run_stopped h
  obtain ⟨rest, hat⟩ := bf_step_stop hs
  exact ⟨n, c, rest, hn, hr, hat⟩

/-- In-place interpreter (both modes). -/
theorem inplace_stop_final {code : Array Kind} {l : Bool} {n : Nat} {c0 c c' : Inplace.Cfg w}
    (hreach : Inplace.runCfg code l n c0 = .outOfFuel c) (hstop : Inplace.step code l c = .stopped c') :
    ∀ f, n < f → Inplace.runCfg code l f c0 = .stopped c' := by
  intro f hf
  obtain ⟨m, rfl⟩ : ∃ m, f = n + (m + 1) := ⟨f - n - 1, by omega⟩
  rw [inplace_run_split hreach, Inplace.runCfg_succ_stopped hstop]

theorem inplace_stops_only_at_io {code : Array Kind} {l : Bool} {b f : Nat} {env : Env}
    {c' : Inplace.Cfg w} (h : Inplace.run code l b f env = .stopped c') :
    ∃ n c, n < f ∧ Inplace.run code l b n env = .outOfFuel c ∧
      ((code[c.pc]? = some .inp ∧ c.st.input 0 = (false, c'.st)) ∨
       (code[c.pc]? = some .out ∧ c.st.output 0 = (false, c'.st))) := by
  obtain ⟨n, c, hn, hr, hs⟩ := inplace_run_stopped h
  exact ⟨n, c, hn, hr, inplace_step_stop hs⟩

/-- IR interpreter (both modes). -/
theorem ir_stop_final {l : Bool} {n : Nat} {c0 c c' : Ir.Cfg w}
    (hreach : Ir.runCfg l n c0 = .outOfFuel c) (hstop : Ir.step l c = .stop c') :
    ∀ f, n < f → Ir.runCfg l f c0 = .stopped c' := by
  intro f hf
  obtain ⟨m, rfl⟩ : ∃ m, f = n + (m + 1) := ⟨f - n - 1, by omega⟩
  rw [ir_run_split hreach]
  simp [Ir.runCfg, hstop]

theorem ir_stops_only_at_io {blk : Ir.Block w} {l : Bool} {b f : Nat} {env : Env} {c' : Ir.Cfg w}
    (h : Ir.run blk l b f env = .stopped c') :
    ∃ n c rest, n < f ∧ Ir.run blk l b n env = .outOfFuel c ∧
      ((∃ dst, c.cur = .input dst :: rest ∧ c.st.input dst = (false, c'.st)) ∨
       (∃ src, c.cur = .output src :: rest ∧ c.st.output src = (false, c'.st))) := by
  obtain ⟨n, c, hn, hr, hs⟩ := ir_run_stopped h
  obtain ⟨rest, hat⟩ := ir_step_stop hs
  exact ⟨n, c, rest, hn, hr, hat⟩

/-- Bytecode machine (both modes). The outcome is `.stopped` (normal return), not `.bad`. -/
theorem bc_stop_final {p : Bc.Program w} {l : Bool} {n : Nat} {c0 c c' : Bc.Cfg w}
    (hreach : Bc.runCfg p l n c0 = .outOfFuel c) (hstop : Bc.step p l c = .stop c') :
    ∀ f, n < f → Bc.runCfg p l f c0 = .stopped c' := by
  intro f hf
  obtain ⟨m, rfl⟩ : ∃ m, f = n + (m + 1) := ⟨f - n - 1, by omega⟩
  rw [bc_run_split hreach]
  simp [Bc.runCfg, hstop]

theorem bc_stops_only_at_io {p : Bc.Program w} {l : Bool} {b f : Nat} {env : Env} {c' : Bc.Cfg w}
    (h : Bc.run p l b f env = .stopped c') :
    ∃ n c, n < f ∧ Bc.run p l b n env = .outOfFuel c ∧
      ((∃ dst, p.insts[c.pc]? = some (.inp dst) ∧ c.st.input dst = (false, c'.st)) ∨
       (∃ src, p.insts[c.pc]? = some (.out src) ∧ c.st.output src = (false, c'.st))) := by
  unfold Bc.run at h ⊢
  simp only at h ⊢
  split at h
  · cases h
  · rename_i hb
    obtain ⟨n, c, hn, hr, hs⟩ := bc_run_stopped h
    refine ⟨n, c, hn, ?_, (bc_step_stop hs).1⟩
    rw [if_neg hb]; exact hr

/-! ### 3. A refused byte: everything before it, and the byte itself, is canonical -/

/-- The same environment with a sink that never refuses. -/
def neverRefuse (env : Env) : Env := { env with outOk := none }

theorem agreeC_init (p : Prog) (env : Env) :
    AgreeC (w := w) ⟨p, [], State.init env⟩ ⟨p, [], State.init (neverRefuse env)⟩ :=
  ⟨rfl, rfl, rfl, rfl, rfl, rfl, rfl, rfl, fun _ h => by cases h⟩

/-- Every outcome of a run with a possibly refusing sink, compared with the run in the environment
whose sink never refuses (same fuel): the same outcome with the same events, pointer and tape — or the
first run stopped at a refused byte `b` after events `t`, and the second run has produced exactly
`t` followed by `out b` (after the same number of steps). -/
theorem refusal_cases (p : Prog) (env : Env) (f : Nat) :
    match Bf.run (w := w) f p env with
    | .done s => ∃ s', Bf.run (w := w) f p (neverRefuse env) = .done s' ∧
        s'.trace = s.trace ∧ s'.tape = s.tape ∧ s'.ptr = s.ptr
    | .outOfFuel c => ∃ c', Bf.run (w := w) f p (neverRefuse env) = .outOfFuel c' ∧
        c'.st.trace = c.st.trace ∧ c'.st.tape = c.st.tape ∧ c'.st.ptr = c.st.ptr
    | .stopped s =>
      (∃ s', Bf.run (w := w) f p (neverRefuse env) = .stopped s' ∧ s'.trace = s.trace ∧
        ∀ b, Ev.outFail b ∉ s.trace) ∨
      (∃ g b t c', g ≤ f ∧ s.trace = Ev.outFail b :: t ∧
        Bf.run (w := w) g p (neverRefuse env) = .outOfFuel c' ∧ c'.st.trace = Ev.out b :: t) := by
  have := agree_run f (agreeC_init (w := w) p env)
  unfold Bf.run
  cases hr : Bf.runCfg f (⟨p, [], State.init env⟩ : Bf.Config w) with
  | done s =>
    rw [hr] at this
    obtain ⟨s', hs', hag⟩ := this
    exact ⟨s', hs', hag.trace.symm, hag.tape.symm, hag.ptr.symm⟩
  | outOfFuel c =>
    rw [hr] at this
    obtain ⟨c', hs', hag⟩ := this
    exact ⟨c', hs', hag.st.trace.symm, hag.st.tape.symm, hag.st.ptr.symm⟩
  | stopped s =>
    rw [hr] at this
    rcases this with ⟨s', hs', hag⟩ | h
    · exact Or.inl ⟨s', hs', hag.trace.symm, fun b => by rw [hag.trace]; exact hag.clean b⟩
    · exact Or.inr h

/-- If the canonical run stops because the sink refuses byte `b` after the events `t`, then the run
with a sink that never refuses produces `t`, then `out b`: the events before the refused byte, and the
refused byte itself, are exactly those of the fault-free run. -/
theorem refusal_is_canonical_prefix (p : Prog) (env : Env) (f : Nat) (s : State w) (b : UInt8)
    (t : List Ev) (hrun : Bf.run f p env = .stopped s) (htr : s.trace = Ev.outFail b :: t) :
    ∃ g, (Ev.out b :: t) <:+ C04.traceOfBf (Bf.run (w := w) g p (neverRefuse env)) := by
  have := refusal_cases (w := w) p env f
  rw [hrun] at this
  rcases this with ⟨s', _, _, hclean⟩ | ⟨g, b', t', c', _, htr', hrun', hc'⟩
  · exact absurd (by rw [htr]; simp) (hclean b)
  · rw [htr] at htr'
    cases htr'
    exact ⟨g, by rw [hrun']; simp [C04.traceOfBf, hc']⟩

/-- Sharper: at the step where the first run is refused, the events of the second run are exactly
`out b :: t`; every longer fault-free run extends them. -/
theorem refusal_is_canonical_prefix_exact (p : Prog) (env : Env) (f : Nat) (s : State w) (b : UInt8)
    (t : List Ev) (hrun : Bf.run f p env = .stopped s) (htr : s.trace = Ev.outFail b :: t) :
    ∃ g, g ≤ f ∧ C04.traceOfBf (Bf.run (w := w) g p (neverRefuse env)) = Ev.out b :: t ∧
      ∀ g', g ≤ g' → (Ev.out b :: t) <:+ C04.traceOfBf (Bf.run (w := w) g' p (neverRefuse env)) := by
  have := refusal_cases (w := w) p env f
  rw [hrun] at this
  rcases this with ⟨s', _, _, hclean⟩ | ⟨g, b', t', c', hg, htr', hrun', hc'⟩
  · exact absurd (by rw [htr]; simp) (hclean b)
  · rw [htr] at htr'
    cases htr'
    have he : C04.traceOfBf (Bf.run (w := w) g p (neverRefuse env)) = Ev.out b :: t := by
      rw [hrun']; simp [C04.traceOfBf, hc']
    refine ⟨g, hg, he, fun g' hg' => ?_⟩
    rw [← he]
    exact C04.bf_trace_mono hg' _

/-- A refusal that is never reached changes nothing. -/
theorem unreached_refusal_harmless (p : Prog) (env : Env) (f : Nat) (s : State w)
    (hrun : Bf.run f p env = .done s) :
    ∃ s', Bf.run (w := w) f p (neverRefuse env) = .done s' ∧ s'.trace = s.trace ∧ s'.tape = s.tape ∧
      s'.ptr = s.ptr := by
  have := refusal_cases (w := w) p env f
  rw [hrun] at this
  exact this

/-- A stop that is not a refusal (failing input) happens in the fault-free-sink run as well. -/
theorem input_failure_independent_of_sink (p : Prog) (env : Env) (f : Nat) (s : State w)
    (hrun : Bf.run f p env = .stopped s) (hne : ∀ b t, s.trace ≠ Ev.outFail b :: t) :
    ∃ s', Bf.run (w := w) f p (neverRefuse env) = .stopped s' ∧ s'.trace = s.trace := by
  have := refusal_cases (w := w) p env f
  rw [hrun] at this
  rcases this with ⟨s', hs', ht, _⟩ | ⟨g, b, t, c', _, htr, _, _⟩
  · exact ⟨s', hs', ht⟩
  · exact (hne b t htr).elim

/-! ### 4. The in-place interpreter and the IR interpreter stop like the canonical machine -/

section Backends
variable (code : Array Kind) (p : Prog) (h : Bf.tree code.toList = some p) (env : Env)
include h

/-- In-place interpreter, unlimited: same stop, same state (events, tape, pointer, environment). -/
theorem inplace_stops_like_canonical (b : Nat) :
    ∀ (f : Nat) (s : State w), Bf.run f p env = .stopped s →
      ∃ f' c, Inplace.run code false b f' env = .stopped c ∧ c.st = s :=
  C04.inplace_forward_stopped code p h env b

/-- In-place interpreter, limited, with a budget that suffices to get there. -/
theorem inplace_limited_stops_like_canonical :
    ∀ (f : Nat) (s : State w), Bf.run f p env = .stopped s → ∀ b, f ≤ b →
      ∃ c, Inplace.run code true b ((b + 1) * (code.size + 2)) env = .stopped c ∧ c.st = s :=
  C04.inplace_limited_enough_stopped code p h env

/-- The in-place interpreter stops only where the canonical machine stops (either mode). -/
theorem inplace_stops_only_like_canonical :
    ∀ (l : Bool) (b f' : Nat) (c : Inplace.Cfg w), Inplace.run code l b f' env = .stopped c →
      ∃ f, Bf.run f p env = .stopped c.st := by
  intro l b f' c hr
  cases l with
  | false => exact C04.inplace_backward_stopped code p h env b f' c hr
  | true =>
    have := C04.inplace_limited (w := w) code p h env b f'
    rw [hr] at this
    exact this

/-- IR interpreter (level 0), unlimited: same stop, same events. -/
theorem ir_stops_like_canonical (hw : 0 < w) {blk : Ir.Block w}
    (hb : Ir.parse (w := w) code.toList = .ok blk) :
    ∀ (f : Nat) (s : State w), Bf.run f p env = .stopped s →
      ∃ f' c, Ir.run blk false 0 f' env = .stopped c ∧ c.st.trace = s.trace :=
  (C01.parse_forward hw h hb env).2

/-- IR interpreter (level 0), limited, with any sufficiently large budget. -/
theorem ir_limited_stops_like_canonical (hw : 0 < w) {blk : Ir.Block w}
    (hb : Ir.parse (w := w) code.toList = .ok blk) :
    ∀ (f : Nat) (s : State w), Bf.run f p env = .stopped s →
      ∃ g, ∀ b, g ≤ b → ∃ f' c, Ir.run blk true b f' env = .stopped c ∧ c.st.trace = s.trace := by
  intro f s hr
  obtain ⟨g, c, hc, ht⟩ := ir_stops_like_canonical code p h env hw hb f s hr
  refine ⟨g, fun b hgb => ?_⟩
  obtain ⟨f', c', hc', hst⟩ := C07.ir_limited_enough_stopped blk env g c hc b hgb
  exact ⟨f', c', hc', by rw [hst]; exact ht⟩

/-- The IR interpreter stops only where the canonical machine stops. -/
theorem ir_stops_only_like_canonical (hw : 0 < w) {blk : Ir.Block w}
    (hb : Ir.parse (w := w) code.toList = .ok blk) :
    ∀ (f' : Nat) (c : Ir.Cfg w), Ir.run blk false 0 f' env = .stopped c →
      ∃ (f : Nat) (s : State w), Bf.run f p env = .stopped s ∧ s.trace = c.st.trace :=
  (C01.parse_backward hw h hb env).2

/-- Summary for a refused byte: canonical machine, in-place interpreter and IR interpreter all stop
with the events `t` followed by the refused byte, and `t`, `out b` is what the fault-free run prints. -/
theorem refused_byte_all_backends (hw : 0 < w) {blk : Ir.Block w}
    (hb : Ir.parse (w := w) code.toList = .ok blk) (f : Nat) (s : State w) (b : UInt8) (t : List Ev)
    (hrun : Bf.run f p env = .stopped s) (htr : s.trace = Ev.outFail b :: t) :
    (∃ f' c, Inplace.run (w := w) code false 0 f' env = .stopped c ∧ c.st.trace = Ev.outFail b :: t) ∧
    (∃ f' c, Ir.run blk false 0 f' env = .stopped c ∧ c.st.trace = Ev.outFail b :: t) ∧
    (∃ g, (Ev.out b :: t) <:+ C04.traceOfBf (Bf.run (w := w) g p (neverRefuse env))) := by
  refine ⟨?_, ?_, refusal_is_canonical_prefix p env f s b t hrun htr⟩
  · obtain ⟨f', c, hc, hs⟩ := inplace_stops_like_canonical code p h env 0 f s hrun
    exact ⟨f', c, hc, by rw [hs, htr]⟩
  · obtain ⟨f', c, hc, hs⟩ := ir_stops_like_canonical code p h env hw hb f s hrun
    exact ⟨f', c, hc, by rw [hs, htr]⟩

end Backends

/-! ### Examples: the hypotheses are satisfiable -/

def env0 : Env := { input := none, sink := true, outOk := none }
/-- `+[.]` -/
def pPrint : Prog := .cmd .inc (.loop (.cmd .out .nil) .nil)
def cPrint : Array Kind := #[.inc, .open, .out, .close]
/-- `,[.,]` -/
def pCat : Prog := .cmd .inp (.loop (.cmd .out (.cmd .inp .nil)) .nil)
def cCat : Array Kind := #[.inp, .open, .out, .inp, .close]
/-- `,.` -/
def pEcho : Prog := .cmd .inp (.cmd .out .nil)

def bfKind : Bf.Outcome w → String
  | .done _ => "done" | .stopped _ => "stopped" | .outOfFuel _ => "outOfFuel"

example : Bf.tree cPrint.toList = some pPrint := by decide
example : Bf.tree cCat.toList = some pCat := by decide

-- `+[.]` with a sink that accepts two bytes stops at the third, after exactly two bytes
example : bfKind (Bf.run (w := 8) 20 pPrint { env0 with outOk := some 2 }) = "stopped" := by decide
example : C04.traceOfBf (Bf.run (w := 8) 20 pPrint { env0 with outOk := some 2 }) =
    [Ev.outFail 1, Ev.out 1, Ev.out 1] := by decide
-- ... and the fault-free run prints those two bytes and then the refused one
example : C04.traceOfBf (Bf.run (w := 8) 9 pPrint (neverRefuse { env0 with outOk := some 2 })) =
    [Ev.out 1, Ev.out 1, Ev.out 1] := by decide
-- the in-place interpreter and the IR interpreter do the same
example : C04.traceOf (Inplace.run (w := 8) cPrint false 0 20 { env0 with outOk := some 2 }) =
    [Ev.outFail 1, Ev.out 1, Ev.out 1] := by decide
example : (match Ir.parse (w := 8) cPrint.toList with
    | .ok blk => C01.traceOf (Ir.run blk false 0 20 { env0 with outOk := some 2 })
    | .error _ => []) = [Ev.outFail 1, Ev.out 1, Ev.out 1] := by decide
-- absent source: `,[.,]` stops at once, no event
example : bfKind (Bf.run (w := 8) 20 pCat env0) = "stopped" := by decide
example : C04.traceOfBf (Bf.run (w := 8) 20 pCat env0) = [] := by decide
-- read error after one byte: the byte is echoed, then the failed request is logged and the run stops
example : C04.traceOfBf (Bf.run (w := 8) 20 pCat { env0 with input := some [.byte 65, .err, .byte 66] }) =
    [Ev.inpFail, Ev.out 65, Ev.inp 65] := by decide
example : bfKind (Bf.run (w := 8) 20 pCat { env0 with input := some [.byte 65, .err, .byte 66] }) =
    "stopped" := by decide
-- end of input is not a failure: `,.` at end of input reads 0, prints 0, and finishes
example : bfKind (Bf.run (w := 8) 20 pEcho { env0 with input := some [] }) = "done" := by decide
example : C04.traceOfBf (Bf.run (w := 8) 20 pEcho { env0 with input := some [] }) =
    [Ev.out 0, Ev.inp 0] := by decide
-- absent sink: output succeeds silently
example : C04.traceOfBf (Bf.run (w := 8) 9 pPrint { env0 with sink := false, outOk := some 0 }) = [] := by
  decide
-- an unreached refusal: `,.` with `outOk = some 1`
example : bfKind (Bf.run (w := 8) 20 pEcho { input := some [.byte 7], sink := true, outOk := some 1 }) =
    "done" := by decide
-- bytecode: `out 0` on a refusing sink stops (not `.bad`)
example : C07.bcKind (Bc.run (w := 8)
    { temps := 0, minAcc := 0, maxAcc := 0, live := #[], insts := #[.out 0, .out 0] }
    false 0 5 { env0 with outOk := some 1 }) = "stopped" := by decide
example : C07.traceOfBc (Bc.run (w := 8)
    { temps := 0, minAcc := 0, maxAcc := 0, live := #[], insts := #[.out 0, .out 0] }
    true 9 5 { env0 with outOk := some 1 }) = [Ev.outFail 0, Ev.out 0] := by decide

end C08
end Hpbf

#print axioms Hpbf.C08.outByte_low8
#print axioms Hpbf.C08.eof_reads_zero
#print axioms Hpbf.C08.eof_sticky
#print axioms Hpbf.C08.eof_reply_reads_zero
#print axioms Hpbf.C08.input_error_stops
#print axioms Hpbf.C08.input_absent_stops
#print axioms Hpbf.C08.output_refused_stops
#print axioms Hpbf.C08.output_absent_sink_ok
#print axioms Hpbf.C08.input_fails_iff
#print axioms Hpbf.C08.output_fails_iff
#print axioms Hpbf.C08.bf_stop_final
#print axioms Hpbf.C08.bf_stops_only_at_io
#print axioms Hpbf.C08.inplace_stop_final
#print axioms Hpbf.C08.inplace_stops_only_at_io
#print axioms Hpbf.C08.ir_stop_final
#print axioms Hpbf.C08.ir_stops_only_at_io
#print axioms Hpbf.C08.bc_stop_final
#print axioms Hpbf.C08.bc_stops_only_at_io
#print axioms Hpbf.C08.refusal_cases
#print axioms Hpbf.C08.refusal_is_canonical_prefix
#print axioms Hpbf.C08.refusal_is_canonical_prefix_exact
#print axioms Hpbf.C08.unreached_refusal_harmless
#print axioms Hpbf.C08.input_failure_independent_of_sink
#print axioms Hpbf.C08.inplace_stops_like_canonical
#print axioms Hpbf.C08.inplace_limited_stops_like_canonical
#print axioms Hpbf.C08.inplace_stops_only_like_canonical
#print axioms Hpbf.C08.ir_stops_like_canonical
#print axioms Hpbf.C08.ir_limited_stops_like_canonical
#print axioms Hpbf.C08.ir_stops_only_like_canonical
#print axioms Hpbf.C08.refused_byte_all_backends
