/-
C02 / C13: the pass `allocate_temps` – and therefore the whole bytecode generator `translate` – is TOTAL.
"Compilation is total: for every IR block, every number of registers and both fusion settings none of the modelled
panic sites of the generator is reachable."

`Props/C02EmitTotal.lean` shows this for the emission phase, `Chain.translateE_ok_of_alloc` that `allocate_temps`
is the only other phase that can fail.  This file closes the gap:

    allocateTemps_total_of_emit :  emitState prog fuse = .ok s1 → deadStoreElim s1 = .ok s2 →
                                     ∃ s3, allocateTemps numRegs s2 = .ok s3          (every `numRegs`, also 0 and > 16)
    translateE_total            :  ∃ p, translateE prog numRegs fuse = .ok p
    translateE_total_check      :  ∃ p, translateE prog numRegs fuse = .ok p ∧ BcWf.check p numRegs = true

so the hypothesis `translateE … = .ok p` can be dropped from every end-to-end theorem.  No bound on `numRegs` is
needed (`alloc_total_any_numRegs`).

§1  `TotalPre s`, the precondition under which the pass is total on ANY state (`allocateTemps_total_of_pre`):
    `AllocPre` and five more components, each shown necessary by a state that satisfies `AllocPre`, violates it and
    makes the pass panic (§4):
    * `defd`   – a written temporary has a first and a last use after the write
                 (`can_alloc_reg:last_use.unwrap`, `first_use.unwrap`, `alloc_temp:last_use.unwrap`);
    * `defAt`  – a read temporary is written at its `created` position (`replace:replacements.get.unwrap`);
    * `unread` – use count `0` ⇒ not read (`fusion:replacements.get.unwrap`);
    * `lastLt` – last uses are positions of the code (`assert-replacements-empty`);
    * `mono`   – moved computations that share an operand reach their stores in order
                 (`alloc_shrunk_extension_panics` of `Props/C02Alloc.lean`).
§2  the panic sites of `allocStep` and how each is excluded (proof: the loop invariant `TInv` next to `PassInv`):
    * `next_range_end-loop-fuel`: every round of `drainEnds` removes an entry or re-inserts it once with its
      (later) current last use; `2·|heap| + 2` rounds suffice (`drainEnds_total`, potential `muE`);
    * `peek:last_use.unwrap`: temporaries on the heap have a recorded last use (`TInv.heapRange`);
    * `insts-index`, `insts[first_use]-index`, `ranges-index`: `defd`, `lastLt`, the size of `insts` is constant;
    * `can_alloc_reg…underflow`, `alloc_temp…underflow`: `created < firstUse ≤ lastUse`;
    * `fusion:`/`replace:replacements.get.unwrap`: every temporary read by a pending instruction and created earlier
      has a location (`TInv.complete`): a location is released only when the heap entry's end `e ≤ k` is at least the
      CURRENT last use, the original last use is at most `e` (`PassInv.heap`), and the current last use of an operand
      of a waiting moved computation is not before it (`TInv.fusedLast`, kept by `mono`);
    * `live-underflow`: the free registers are distinct and below `numRegs` (`liveMask_total`);
    * `assert-replacements-empty`: every location has a heap entry, the heap is sorted, after round `k` all ends
      are `> k` and `< n` (`TInv.replHeap/heapBound/sorted`).
§3  `TotalPre` for generator output (`totalPre_of_emit`), from new invariants of the emission and of
    `dead_store_elim`: use counts dominate the occurrences (`CountInv`), definitions at `created` (`DefAtP`),
    first/last use recorded together (`FL`), every value read at instruction boundaries (`NoUn`), and the ORDER
    invariant `OrdInv` – if the first use of `t2` is a store, every value created before `t2` was first used
    before it (all computations of a `calc` precede its stores, and the stores follow the order of computation).
No panic is reachable from any IR block: no defect of C13 was found.

Proofs: `Hpbf/Proofs/C02AllocTotal{Heap,Prog,Inv,Step,Loop,Count,Dse,Ord,Emit,Ex}.lean`.
-/
import Hpbf.Proofs.C02AllocTotalEx

namespace Hpbf
namespace C02

open Bc BcWf BcGen C11 Alloc AEmit

variable {w : Nat}

/-! ### 1. The precondition and totality on arbitrary states -/

example (s : St w) : TotalPre s ↔
    (AllocPre s ∧
     (∀ (i : Nat) (x : Instr w) (t : Nat), s.insts[i]? = some x → dstTmp? x = some t →
        ∃ (r : RangeInfo) (f L : Nat), s.ranges[t]? = some r ∧ r.firstUse = some f ∧ r.lastUse = some L ∧
          i < f ∧ f ≤ L) ∧
     (∀ (j : Nat) (x : Instr w) (t : Nat), s.insts[j]? = some x → t ∈ BcWf.uses x →
        ∃ (r : RangeInfo) (y : Instr w), s.ranges[t]? = some r ∧ s.insts[r.created]? = some y ∧
          dstTmp? y = some t) ∧
     (∀ (t : Nat) (r : RangeInfo), s.ranges[t]? = some r → r.numUses = 0 →
        ∀ (j : Nat) (x : Instr w), s.insts[j]? = some x → t ∉ BcWf.uses x) ∧
     (∀ (t : Nat) (r : RangeInfo) (L : Nat), s.ranges[t]? = some r → r.lastUse = some L → L < s.insts.size) ∧
     (∀ (i1 : Nat) (op1 : BcGen.Op) (t1 : Nat) (a1 b1 : Loc w) (f1 : Nat) (m1 : Int)
        (i2 : Nat) (op2 : BcGen.Op) (t2 : Nat) (a2 b2 : Loc w) (f2 : Nat) (m2 : Int) (u : Nat),
        Cand s i1 op1 t1 a1 b1 f1 m1 (.tmp t1) → Cand s i2 op2 t2 a2 b2 f2 m2 (.tmp t2) → i1 < i2 →
        (a1 = .tmp u ∨ b1 = .tmp u) → (a2 = .tmp u ∨ b2 = .tmp u) → f1 ≤ f2)) :=
  ⟨fun h => ⟨h.pre, h.defd, h.defAt, h.unread, h.lastLt, h.mono⟩, fun ⟨a, b, c, d, e, f⟩ => ⟨a, b, c, d, e, f⟩⟩

example (s : St w) (hp : TotalPre s) (numRegs : Nat) : ∃ s', allocateTemps numRegs s = .ok s' :=
  allocateTemps_total_of_pre hp numRegs

/-! ### 2. One round -/

example (s : St w) (numRegs k : Nat) (a : ASt w) : TInv s numRegs k a ↔
    ((∀ (j : Nat) (x : Instr w) (t : Nat) (r : RangeInfo), k ≤ j → a.st.insts[j]? = some x →
        t ∈ BcWf.uses x → s.ranges[t]? = some r → r.created < k → ∃ l, alGet a.repl t = some l) ∧
     (∀ (f : Nat) (op : BcGen.Op) (m : Int) (t' : Nat) (s0 s1 : Loc w) (t : Nat),
        Fused s k a f op m t' s0 s1 → (s0 = .tmp t ∨ s1 = .tmp t) →
        ∃ (r : RangeInfo) (L : Nat), a.st.ranges[t]? = some r ∧ r.lastUse = some L ∧ f ≤ L) ∧
     (∀ e t, (e, t) ∈ a.nre → ∃ (r : RangeInfo) (L : Nat), a.st.ranges[t]? = some r ∧ r.lastUse = some L) ∧
     (∀ (t : Nat) (l : Loc w), alGet a.repl t = some l → ∃ e, (e, t) ∈ a.nre) ∧
     (∀ (e t : Nat), (e, t) ∈ a.nre → k ≤ e ∧ e < s.insts.size) ∧
     a.nre.Pairwise (fun x y => x.1 ≤ y.1) ∧ (∀ r ∈ a.freeRegs, r < numRegs) ∧
     (∀ (t : Nat) (r : RangeInfo) (L : Nat), a.st.ranges[t]? = some r → r.lastUse = some L → L < s.insts.size)) :=
  ⟨fun h => ⟨h.complete, h.fusedLast, h.heapRange, h.replHeap, h.heapBound, h.sorted, h.freeLt, h.rangeLt⟩,
   fun ⟨a, b, c, d, e, f, g, h⟩ => ⟨a, b, c, d, e, f, g, h⟩⟩

example (s : St w) (hp : TotalPre s) (numRegs : Nat) : TInv s numRegs 0 (initASt numRegs s) := tinv_init hp numRegs

/-- Progress: no lookup of round `k` fails. -/
example (s : St w) (hp : TotalPre s) (numRegs k : Nat) (a : ASt w) (hk : k < s.insts.size) (hI : PassInv s k a)
    (hT : TInv s numRegs k a) : ∃ u a', allocStep numRegs k a = .ok (u, a') := alloc_step_total hp numRegs hk hI hT
/-- Preservation. -/
example (s : St w) (hp : TotalPre s) (numRegs k : Nat) (a a' : ASt w) (u : Unit) (hk : k < s.insts.size)
    (hI : PassInv s k a) (hT : TInv s numRegs k a) (h : allocStep numRegs k a = .ok (u, a')) :
    TInv s numRegs (k + 1) a' := tinv_step hp hk hI hT h

/-- The heap loop. -/
example (i fuel : Nat) (atf0 : List Nat) (a : ASt w) (hs : SortedE a.nre) (hr : HeapRange a)
    (hm : muE i (luOf a) a.nre < fuel) :
    ∃ atf a1, drainEnds i fuel atf0 a = .ok (atf, a1) ∧ SortedE a1.nre ∧ (∀ e t, (e, t) ∈ a1.nre → i < e) ∧
      (∀ e t, (e, t) ∈ a.nre → (∃ e', (e', t) ∈ a1.nre) ∨ t ∈ atf) ∧ (∀ t ∈ atf0, t ∈ atf) :=
  drainEnds_total fuel atf0 a hs hr hm
example (i : Nat) (lu : Nat → Nat) (l : List (Nat × Nat)) : muE i lu l ≤ 2 * l.length := muE_le i lu l
/-- The bitmap. -/
example (numRegs : Nat) (F : List Nat) (hn : F.Nodup) (hlt : ∀ r ∈ F, r < numRegs) :
    ∃ live, liveMask numRegs F = .ok live := liveMask_total hn hlt

/-! ### 3. Generator output -/

example (prog : Ir.Block w) (fuse : Bool) (s : St w) (h : emitState prog fuse = .ok s) :
    (∀ (t : Nat) (r : RangeInfo), s.ranges[t]? = some r → occ t s.insts ≤ r.numUses) ∧
    (∀ (t : Nat) (r : RangeInfo), s.ranges[t]? = some r →
      ∃ y, s.insts[r.created]? = some y ∧ dstTmp? y = some t) ∧
    (∀ (t : Nat) (r : RangeInfo), s.ranges[t]? = some r →
      (∀ f, r.firstUse = some f → ∃ L, r.lastUse = some L ∧ f ≤ L) ∧
      (∀ L, r.lastUse = some L → ∃ f, r.firstUse = some f)) :=
  ⟨(xinv_of_emit h).count, (xinv_of_emit h).defAt, (xinv_of_emit h).fl⟩
example (t : Nat) (insts : Array (Instr w)) :
    occ t insts = (insts.toList.map (fun x => (BcWf.uses x).count t)).sum := rfl

/-- Every value has been read, and first uses that are stores respect the order of creation. -/
example (prog : Ir.Block w) (fuse : Bool) (s : St w) (h : emitState prog fuse = .ok s) :
    (∀ (t : Nat) (r : RangeInfo), s.ranges[t]? = some r → r.firstUse ≠ none) ∧
    (∀ (t1 t2 : Nat) (r1 r2 : RangeInfo) (f2 : Nat) (m : Int), s.ranges[t1]? = some r1 → s.ranges[t2]? = some r2 →
      r1.created < r2.created → r2.firstUse = some f2 → s.insts[f2]? = some (.copy (.mem m) (.tmp t2)) →
      ∃ f1, r1.firstUse = some f1 ∧ f1 < f2) := by
  obtain ⟨h1, h2⟩ := oi_of_emit h
  exact ⟨fun t r hr hn => h1 t ⟨r, hr, hn⟩,
    fun t1 t2 r1 r2 f2 m a b c d e => h2 t1 t2 r1 r2 f2 _ a b c d e ⟨m, rfl⟩⟩

/-- `dead_store_elim` keeps the use counts above the occurrences and the definitions of what is still read. -/
example (s s' : St w) (hI : DInv s) (h : deadStoreElim s = .ok s') : DInv s' := deadStoreElim_dinv hI h

example (prog : Ir.Block w) (fuse : Bool) (s1 s2 : St w) (h1 : emitState prog fuse = .ok s1)
    (h2 : deadStoreElim s1 = .ok s2) : TotalPre s2 := totalPre_of_emit h1 h2

/-- **`allocate_temps` never panics in the pipeline.** -/
example (prog : Ir.Block w) (fuse : Bool) (s1 s2 : St w) (numRegs : Nat) (h1 : emitState prog fuse = .ok s1)
    (h2 : deadStoreElim s1 = .ok s2) : ∃ s3, allocateTemps numRegs s2 = .ok s3 :=
  allocateTemps_total_of_emit numRegs h1 h2

/-- **`translate` is total.** -/
example (prog : Ir.Block w) (numRegs : Nat) (fuse : Bool) : ∃ p, translateE prog numRegs fuse = .ok p :=
  translateE_total prog numRegs fuse

/-- … and its result is accepted by the bytecode checker. -/
example (prog : Ir.Block w) (numRegs : Nat) (fuse : Bool) :
    ∃ p, translateE prog numRegs fuse = .ok p ∧ BcWf.check p numRegs = true :=
  translateE_total_check prog numRegs fuse

/-! ### 4. Necessity of the components, and `numRegs` -/

example : allocPreB exNoUse = true ∧ allocErr 2 exNoUse = some "allocate_temps:can_alloc_reg:last_use.unwrap" :=
  alloc_total_defd_necessary
example : allocPreB exNoDef = true ∧ allocErr 2 exNoDef = some "allocate_temps:replace:replacements.get.unwrap" :=
  alloc_total_defAt_necessary
example : allocPreB exCount = true ∧ allocErr 2 exCount = some "allocate_temps:fusion:replacements.get.unwrap" :=
  alloc_total_unread_necessary
example : allocPreB exLast = true ∧ allocErr 2 exLast = some "allocate_temps:assert-replacements-empty" :=
  alloc_total_lastLt_necessary
/-- `mono`: the finding of `Props/C02Alloc.lean`. -/
example : AllocPre exMonoBad ∧ allocErr 1 exMonoBad = some "allocate_temps:replace:replacements.get.unwrap" :=
  ⟨exMonoBad_pre, alloc_shrunk_extension_panics⟩
example : allocErr 0 exFuseGood = none ∧ allocErr 1 exFuseGood = none ∧ allocErr 17 exFuseGood = none ∧
    allocErr 0 exFlowGood = none ∧ allocErr 40 exFlowGood = none := alloc_total_any_numRegs

end C02
end Hpbf

#print axioms Hpbf.C02.Alloc.drainEnds_total
#print axioms Hpbf.C02.Alloc.liveMask_total
#print axioms Hpbf.C02.Alloc.tinv_init
#print axioms Hpbf.C02.Alloc.alloc_step_total
#print axioms Hpbf.C02.Alloc.tinv_step
#print axioms Hpbf.C02.allocateTemps_total_of_pre
#print axioms Hpbf.C02.AEmit.xinv_of_emit
#print axioms Hpbf.C02.AEmit.oi_of_emit
#print axioms Hpbf.C02.AEmit.deadStoreElim_dinv
#print axioms Hpbf.C02.totalPre_of_emit
#print axioms Hpbf.C02.allocateTemps_total_of_emit
#print axioms Hpbf.C02.translateE_total
#print axioms Hpbf.C02.translateE_total_check
#print axioms Hpbf.C02.Alloc.alloc_total_defd_necessary
#print axioms Hpbf.C02.Alloc.alloc_total_defAt_necessary
#print axioms Hpbf.C02.Alloc.alloc_total_unread_necessary
#print axioms Hpbf.C02.Alloc.alloc_total_lastLt_necessary
#print axioms Hpbf.C02.Alloc.alloc_total_any_numRegs
