/-
Property C02 (part: the LATE PASSES of the bytecode generator and the two dispatch profiles).
"For every valid program, input stream, cell width and optimisation level, the bytecode interpreter produces
exactly the input/output event sequence of canonical Brainfuck semantics whenever the canonical run terminates.
This holds both for builds with debug assertions (trampolined dispatch) and for release builds (tail-called
dispatch)."

`BcGen.translateE` (an exact port of `bc::CodeGen::translate`) ends with
    `parameterReordering`; if `fuse`: `recordBranchTargets`, `zeroingMoveDetection`; `stripNoops`
(`translateE_eq_latePasses`).  This file states that these passes preserve the behaviour of the bytecode program
under `Bc.step`/`Bc.run` for EVERY generator state satisfying the pass's precondition (not just generator
output), in limited and unlimited mode, and that the debug-build dispatch loop equals the release-build one.
The proofs are in `Hpbf/Proofs/C02*.lean`; the theorems below are those theorems (same names, namespace
`Hpbf.C02`), restated here as `example`s so that the exact statements are checked in this file.

Vocabulary (`Proofs/C02Base.lean`)
* `StEq s1 s2`   – same pointer, environment, trace, and the same tape AS A FUNCTION (`Tape.get`); `IoEq` – without
                   the tape.
* `ObsEq' o1 o2` – same outcome constructor; `done/stopped/interrupted/bad`: `StEq` and equal budget;
                   `outOfFuel`: `IoEq` and equal budget (pc and temporaries are never compared).
* `ObsEqIO`      – as `ObsEq'` except that `stopped` and `bad` only require `IoEq` and equal budget.
* `BehEq p q`    – for all `limited b fuel env` there is `fuel'` with
                   `ObsEq' (Bc.run p limited b fuel env) (Bc.run q limited b fuel' env)`, and the same with `p`, `q`
                   exchanged.  `BehEqIO` – the same with `ObsEqIO`.  Both are equivalence relations, `BehEq ⊆ BehEqIO`.
* `progOf s t mn mx` – the generator state `s` as a program (`insts`, `live` from `s`; the other fields arbitrary).
* `NoMemZero ins` – no operand of `ins` is a `memZero`; `TargetsOk insts` – every branch lands in `[0, n]`
                   (equivalently `BcWf.succs … ≠ none`, `targetsOk_of_succs`).

Finding recorded here (`zmd_stopped_tape_differs`): after `zeroing_move_detection` a run that STOPS at a failing
I/O operation between a fused read-and-clear and its blanked zeroing copy has the same events, pointer and
environment but a different tape (the cell is already 0).  Hence the pass (and the composition with `fuse = true`)
is proved for `BehEqIO`; the I/O event sequence – what C02 is about – is covered by both relations.
-/
import Hpbf.Proofs.C02Passes

namespace Hpbf
namespace C02

open Bc BcWf BcGen C11

variable {w : Nat}

/-! The vocabulary is transparent: -/
example (s1 s2 : State w) : IoEq s1 s2 ↔ (s1.ptr = s2.ptr ∧ s1.env = s2.env ∧ s1.trace = s2.trace) :=
  ⟨fun h => ⟨h.ptr, h.env, h.trace⟩, fun ⟨a, b, c⟩ => ⟨a, b, c⟩⟩
example (s1 s2 : State w) : StEq s1 s2 ↔ (IoEq s1 s2 ∧ ∀ x, s1.tape.get x = s2.tape.get x) :=
  ⟨fun h => ⟨h.io, h.tape⟩, fun ⟨a, b⟩ => ⟨a, b⟩⟩
example (c1 c2 : Cfg w) :
    (ObsEq' (.done c1) (.done c2) ↔ (StEq c1.st c2.st ∧ c1.budget = c2.budget)) ∧
    (ObsEq' (.stopped c1) (.stopped c2) ↔ (StEq c1.st c2.st ∧ c1.budget = c2.budget)) ∧
    (ObsEq' (.interrupted c1) (.interrupted c2) ↔ (StEq c1.st c2.st ∧ c1.budget = c2.budget)) ∧
    (ObsEq' (.bad c1) (.bad c2) ↔ (StEq c1.st c2.st ∧ c1.budget = c2.budget)) ∧
    (ObsEq' (.outOfFuel c1) (.outOfFuel c2) ↔ (IoEq c1.st c2.st ∧ c1.budget = c2.budget)) ∧
    ¬ ObsEq' (.done c1) (.stopped c2) ∧ ¬ ObsEq' (.done c1) (.outOfFuel c2) ∧ ¬ ObsEq' (.outOfFuel c1) (.done c2) :=
  ⟨Iff.rfl, Iff.rfl, Iff.rfl, Iff.rfl, Iff.rfl, id, id, id⟩
example (c1 c2 : Cfg w) :
    (ObsEqIO (.done c1) (.done c2) ↔ (StEq c1.st c2.st ∧ c1.budget = c2.budget)) ∧
    (ObsEqIO (.interrupted c1) (.interrupted c2) ↔ (StEq c1.st c2.st ∧ c1.budget = c2.budget)) ∧
    (ObsEqIO (.stopped c1) (.stopped c2) ↔ (IoEq c1.st c2.st ∧ c1.budget = c2.budget)) ∧
    (ObsEqIO (.bad c1) (.bad c2) ↔ (IoEq c1.st c2.st ∧ c1.budget = c2.budget)) ∧
    (ObsEqIO (.outOfFuel c1) (.outOfFuel c2) ↔ (IoEq c1.st c2.st ∧ c1.budget = c2.budget)) ∧
    ¬ ObsEqIO (.done c1) (.stopped c2) ∧ ¬ ObsEqIO (.stopped c1) (.outOfFuel c2) :=
  ⟨Iff.rfl, Iff.rfl, Iff.rfl, Iff.rfl, Iff.rfl, id, id⟩
example (p q : Program w) : BehEq p q ↔
    ((∀ limited b fuel env, ∃ fuel', ObsEq' (Bc.run p limited b fuel env) (Bc.run q limited b fuel' env)) ∧
     (∀ limited b fuel env, ∃ fuel', ObsEq' (Bc.run q limited b fuel env) (Bc.run p limited b fuel' env))) :=
  Iff.rfl
example (p q : Program w) : BehEqIO p q ↔
    ((∀ limited b fuel env, ∃ fuel', ObsEqIO (Bc.run p limited b fuel env) (Bc.run q limited b fuel' env)) ∧
     (∀ limited b fuel env, ∃ fuel', ObsEqIO (Bc.run q limited b fuel env) (Bc.run p limited b fuel' env))) :=
  Iff.rfl
example (s : St w) (t : Nat) (mn mx : Int) :
    progOf s t mn mx = { temps := t, minAcc := mn, maxAcc := mx, live := s.live, insts := s.insts } := rfl
example (ins : Instr w) : NoMemZero ins ↔ noMemZero ins = true := Iff.rfl
example (insts : Array (Instr w)) : TargetsOk insts ↔
    ∀ (i : Nat) (ins : Instr w) (off : Int), insts[i]? = some ins → branchOff? ins = some off →
      0 ≤ (i : Int) + off ∧ (i : Int) + off ≤ insts.size := Iff.rfl
/-- `BehEqIO` (hence `BehEq`) gives what C02 needs: same ending, same events, same environment. -/
example (o1 o2 : Outcome w) (h : ObsEqIO o1 o2) :
    o1.tag = o2.tag ∧ o1.cfg.st.trace = o2.cfg.st.trace ∧ o1.cfg.st.env = o2.cfg.st.env :=
  ⟨h.tag_io.1, h.tag_io.2.1.trace, h.tag_io.2.1.env⟩

/-! ### 0. Behaviour depends on the instructions only -/

example (t t' : Nat) (mn mn' mx mx' : Int) (lv lv' : Array Nat) (insts : Array (Instr w)) (limited : Bool)
    (b fuel : Nat) (env : Env) :
    Bc.run ⟨t, mn, mx, lv, insts⟩ limited b fuel env = Bc.run ⟨t', mn', mx', lv', insts⟩ limited b fuel env :=
  run_fields_irrelevant t t' mn mn' mx mx' lv lv' insts limited b fuel env

/-! ### 1. `parameter_reordering` -/

/-- Single instruction: exactly the same `StepRes` (constant folding into `copy`, `sub x imm ↦ add x (-imm)`, the
commutative swaps, the choice between the two- and three-operand form made by `sameDst`). -/
example (p : Program w) (limited : Bool) (c : Cfg w) (ins : Instr w) (hz : NoMemZero ins) :
    stepI p limited c (reorderInst ins) = stepI p limited c ins := stepI_reorderInst p limited c ins hz

example (p : Program w) (limited : Bool) (c : Cfg w) (i : Nat) (ins : Instr w)
    (hi : p.insts[i]? = some ins) (hz : NoMemZero ins) :
    step { p with insts := p.insts.setIfInBounds i (reorderInst ins) } limited c = step p limited c :=
  reorderInst_step p limited c i ins hi hz

/-- The hypothesis is necessary: with a read-and-clear operand the read order is observable, and `reorderInst`
does swap such operands. -/
example : finalTmp0 (Bc.run exOrderA false 0 5 default) = 3#8 ∧
    finalTmp0 (Bc.run exOrderB false 0 5 default) = 6#8 := memZero_order_matters

example (s : St w) (hz : ∀ ins ∈ s.insts, NoMemZero ins) (t : Nat) (mn mx : Int) :
    BehEq (progOf s t mn mx) (progOf (parameterReordering s) t mn mx) :=
  parameterReordering_preserves s hz t mn mx

/-- Even: the runs are equal. -/
example (s : St w) (hz : ∀ ins ∈ s.insts, NoMemZero ins) (t : Nat) (mn mx : Int) (limited : Bool)
    (b fuel : Nat) (env : Env) :
    Bc.run (progOf (parameterReordering s) t mn mx) limited b fuel env
      = Bc.run (progOf s t mn mx) limited b fuel env :=
  parameterReordering_run_eq s hz t mn mx limited b fuel env

/-! ### 2. `strip_noops` -/

example (s : St w) (hl : s.live.size = s.insts.size) (hT : TargetsOk s.insts) :
    ∃ s', stripNoops s = .ok s' ∧ Stripped s.insts s'.insts ∧ s'.live.size = s'.insts.size ∧
      s'.isTarget = s.isTarget ∧
      ∀ (t : Nat) (mn mx : Int), BehEq (progOf s t mn mx) (progOf s' t mn mx) :=
  stripNoops_preserves s hl hT

/-- The index map `i ↦ pos insts i` (number of non-`noop`s before `i`, `= i - cum_noop[i]`). -/
example (insts qi : Array (Instr w)) (h : Stripped insts qi) :
    qi.size = pos insts insts.size ∧
    (∀ (i : Nat) (ins : Instr w), insts[i]? = some ins → keep ins = true →
      qi[pos insts i]? = some (fixInst insts i ins)) ∧
    (∀ x ∈ qi, isNoop x = false) := ⟨h.size, h.get, h.noNoop⟩
example (insts : Array (Instr w)) (i : Nat) (c off : Int) :
    fixInst insts i (.brz c off) = .brz c ((pos insts ((i : Int) + off).toNat : Int) - (pos insts i : Int)) := rfl

/-! ### 3. `zeroing_move_detection` -/

example (s s1 : St w) (hr : recordBranchTargets s = .ok s1) (hz : ∀ ins ∈ s.insts, NoMemZero ins) :
    ∃ s', zeroingMoveDetection s1 = .ok s' ∧ s'.live = s.live ∧ s'.insts.size = s.insts.size ∧
      TargetsOk s'.insts ∧ ∀ (t : Nat) (mn mx : Int), BehEqIO (progOf s t mn mx) (progOf s' t mn mx) :=
  zeroingMoveDetection_preserves s s1 hr hz

/-- General precondition: `is_target` has `n + 1` entries, all branches land in `[0, n]` with their targets marked,
no `memZero` yet. -/
example (s : St w) : ZmdPre s ↔
    ((s.isTarget.size = s.insts.size + 1 ∧ TargetsOk s.insts ∧
      ∀ (i : Nat) (ins : Instr w) (off : Int), s.insts[i]? = some ins → branchOff? ins = some off →
        s.isTarget[((i : Int) + off).toNat]? = some true) ∧
     ∀ ins ∈ s.insts, NoMemZero ins) :=
  ⟨fun h => ⟨⟨h.glob.tgsize, h.glob.targets, h.glob.marked⟩, h.noZero⟩,
   fun ⟨⟨a, b, c⟩, d⟩ => ⟨⟨a, b, c⟩, d⟩⟩
example (s : St w) (h : ZmdPre s) :
    ∃ s', zeroingMoveDetection s = .ok s' ∧ s'.live = s.live ∧ s'.isTarget = s.isTarget ∧
      s'.insts.size = s.insts.size ∧ TargetsOk s'.insts ∧
      ∀ (t : Nat) (mn mx : Int), BehEqIO (progOf s t mn mx) (progOf s' t mn mx) :=
  zeroingMoveDetection_preserves_of_pre s h

/-- `record_branch_targets` is a pure analysis that succeeds exactly when all branches land in `[0, n]`. -/
example (s : St w) (hT : TargetsOk s.insts) :
    ∃ tg, recordBranchTargets s = .ok { s with isTarget := tg } ∧ ZGlob tg s.insts :=
  recordBranchTargets_spec s hT
example (s s1 : St w) (h : recordBranchTargets s = .ok s1) :
    TargetsOk s.insts ∧ ∃ tg, s1 = { s with isTarget := tg } ∧ ZGlob tg s.insts := recordBranchTargets_ok h

/-- The semantic core: ONE fusion `(r, m, j)` with the same fuel on both sides. -/
example (P Q : Program w) (r j : Nat) (m : Int) (a a' : Instr w) (h : FuseCond P r j m a a')
    (hQ : Q.insts = fuseInsts P.insts r j a') (limited : Bool) (b fuel : Nat) (env : Env) :
    ObsEqIO (Bc.run P limited b fuel env) (Bc.run Q limited b fuel env) := fuse_run h hQ limited b fuel env

/-! ### 4. The composition -/

example (prog : Ir.Block w) (numRegs : Nat) (fuse : Bool) :
    translateE prog numRegs fuse =
      (do
        let analysis := analyze prog
        let (_, s) ← (emitInsts fuse 0 prog.insts analysis.subAnal).run ({} : St w)
        let s ← deadStoreElim s
        let s ← allocateTemps numRegs s
        let s ← latePasses fuse s
        pure { temps := countTemps s.insts, minAcc := analysis.minAcc, maxAcc := analysis.maxAcc,
               live := s.live, insts := s.insts }) := translateE_eq_latePasses prog numRegs fuse

example (s : St w) : LatePre s ↔
    (s.live.size = s.insts.size ∧ TargetsOk s.insts ∧ ∀ ins ∈ s.insts, NoMemZero ins) :=
  ⟨fun h => ⟨h.live, h.targets, h.noZero⟩, fun ⟨a, b, c⟩ => ⟨a, b, c⟩⟩

example (s : St w) (h : LatePre s) (fuse : Bool) :
    ∃ s', latePasses fuse s = .ok s' ∧ s'.live.size = s'.insts.size ∧ (∀ x ∈ s'.insts, isNoop x = false) ∧
      (∀ (t : Nat) (mn mx : Int), BehEqIO (progOf s t mn mx) (progOf s' t mn mx)) ∧
      (fuse = false → ∀ (t : Nat) (mn mx : Int), BehEq (progOf s t mn mx) (progOf s' t mn mx)) :=
  late_passes_preserve s h fuse

/-! ### 5. Trampolined (debug) versus tail-called (release) dispatch -/

example (p : Program w) (limited : Bool) (fuel : Nat) (c : Cfg w) (h0 : c.budget ≠ 0) :
    ((runCfg p limited fuel c).tag = 2 ∧ (runCfg p limited fuel c).cfg.budget = 0 ∧ limited = true) ∨
    ((runCfg p limited fuel c).tag ≠ 2 ∧ (runCfg p limited fuel c).cfg.budget ≠ 0) :=
  budget_zero_only_initially p limited fuel c h0

example (p : Program w) (limited : Bool) (c c' : Cfg w) (h0 : c.budget ≠ 0)
    (hs : step p limited c = .next c') : c'.budget ≠ 0 := step_next_budget_ne_zero h0 hs

example (p : Program w) (b fuel : Nat) (env : Env) :
    (Bc.run p true b fuel env).cfg.budget = 0 ↔ (Bc.run p true b fuel env).tag = 2 :=
  run_budget_zero_iff p b fuel env

/-- The debug-build loop: the `budget == 0` test before EVERY instruction. -/
example (p : Program w) (limited : Bool) (fuel : Nat) (c : Cfg w) :
    runCfgDebug p limited (fuel + 1) c =
      if limited && c.budget == 0 then .interrupted c
      else match step p limited c with
        | .next c' => runCfgDebug p limited fuel c'
        | .halt c' => .done c'
        | .stop c' => .stopped c'
        | .interrupted c' => .interrupted c'
        | .bad c' => .bad c' := by rw [runCfgDebug]; rfl
example (p : Program w) (limited : Bool) (c : Cfg w) :
    runCfgDebug p limited 0 c = if limited && c.budget == 0 then .interrupted c else .outOfFuel c := by
  rw [runCfgDebug]

example (p : Program w) (limited : Bool) (b fuel : Nat) (env : Env) :
    runDebug p limited b fuel env = Bc.run p limited b fuel env := runDebug_eq_run p limited b fuel env

example (s : St w) (h : LatePre s) (fuse : Bool) :
    ∃ s', latePasses fuse s = .ok s' ∧
      ∀ (t : Nat) (mn mx : Int) (limited : Bool) (b fuel : Nat) (env : Env),
        ∃ fuel', ObsEqIO (runDebug (progOf s t mn mx) limited b fuel env)
          (runDebug (progOf s' t mn mx) limited b fuel' env) := late_passes_preserve_debug s h fuse

/-! ### 6. Non-vacuity and the two counterexamples (all by `decide`) -/

example : LatePre exLate := exLate_pre
example : zmdInsts exStop = some exStopFused ∧
    (let o1 := Bc.run (progOf exStop 0 0 1) false 0 10 envRefuse
     let o2 := Bc.run ({ temps := 0, minAcc := 0, maxAcc := 1, live := exStop.live, insts := exStopFused } : Program 8)
        false 0 10 envRefuse
     o1.tag = 1 ∧ o2.tag = 1 ∧ o1.cfg.st.trace = [Ev.outFail 7] ∧ o2.cfg.st.trace = [Ev.outFail 7] ∧
     o1.cfg.st.tape.get 0 = 7#8 ∧ o2.cfg.st.tape.get 0 = 0#8) := zmd_stopped_tape_differs
example : zmdInsts exJoin = some exJoin.insts ∧
    (zeroingMoveDetection { exJoin with isTarget := Array.replicate 6 false }).toOption.map (·.insts)
      = some exJoinBad ∧
    (Bc.run (progOf exJoin 0 0 1) false 0 10 envSink).cfg.st.trace = [Ev.out 0] ∧
    (Bc.run ({ temps := 0, minAcc := 0, maxAcc := 1, live := exJoin.live, insts := exJoinBad } : Program 8)
      false 0 10 envSink).cfg.st.trace = [Ev.out 7] := zmd_target_guard_necessary

/-- What is NOT proved here (left to the whole-generator work): that the state handed over by
`allocate_temps` satisfies `LatePre` for every IR program, and that the EARLY passes (`emit_block` with GVN,
`dead_store_elim`, `allocate_temps`) preserve behaviour. -/
def early_passes_full : Prop :=
  ∀ (w : Nat) (prog : Ir.Block w) (numRegs : Nat) (fuse : Bool) (s1 s2 s3 : St w) (u : Unit),
    (emitInsts fuse 0 prog.insts (analyze prog).subAnal).run ({} : St w) = .ok (u, s1) →
    deadStoreElim s1 = .ok s2 → allocateTemps numRegs s2 = .ok s3 → LatePre s3

end C02
end Hpbf

#print axioms Hpbf.C02.run_fields_irrelevant
#print axioms Hpbf.C02.stepI_reorderInst
#print axioms Hpbf.C02.reorderInst_step
#print axioms Hpbf.C02.memZero_order_matters
#print axioms Hpbf.C02.parameterReordering_preserves
#print axioms Hpbf.C02.parameterReordering_run_eq
#print axioms Hpbf.C02.stripNoops_preserves
#print axioms Hpbf.C02.fuse_run
#print axioms Hpbf.C02.recordBranchTargets_spec
#print axioms Hpbf.C02.recordBranchTargets_ok
#print axioms Hpbf.C02.zeroingMoveDetection_preserves_of_pre
#print axioms Hpbf.C02.zeroingMoveDetection_preserves
#print axioms Hpbf.C02.zmd_stopped_tape_differs
#print axioms Hpbf.C02.zmd_target_guard_necessary
#print axioms Hpbf.C02.translateE_eq_latePasses
#print axioms Hpbf.C02.late_passes_preserve
#print axioms Hpbf.C02.late_passes_preserve_debug
#print axioms Hpbf.C02.budget_zero_only_initially
#print axioms Hpbf.C02.step_next_budget_ne_zero
#print axioms Hpbf.C02.run_budget_zero_iff
#print axioms Hpbf.C02.runDebug_eq_run
#print axioms Hpbf.C02.exLate_pre
