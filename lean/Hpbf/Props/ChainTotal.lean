/-
ChainTotal: the end-to-end statements of `Props/Chain.lean` WITHOUT the hypotheses that have since become
theorems, for the total function `BcGen.translate`, and the headline theorem `level0_all_backends`.

Discharged here (compared with `Props/Chain.lean`):
* `translateE blk numRegs fuse = .ok p`      – by `C02.translateE_total` (`Props/C02AllocTotal.lean`):
  `translate_ok : translateE blk numRegs fuse = .ok (translate blk numRegs fuse)`, i.e. the sentinel program that
  `BcGen.translate` returns on a modelled panic is never returned;
* `BcWf.check p n = true`                     – by `C02.translateE_check` (`Props/C11Full.lean`); so "malformed
  bytecode" is excluded for EVERY run, and the divergence corollaries need no checker hypothesis;
* `compileX86 … = some code` and `BcWf.check p 11 = true` in the JIT statements – by
  `C03.translate_compile_of_localOk` (`Props/C03Total.lean`); the code is `jitCode p limited safe cfg`, the value
  `compileX86` returns.
What REMAINS:
* `0 < w` and balancedness of the source (`Bf.tree src = some prog`) – the domain of the statements (C01);
* `OnceOk blk env` in `translate_refines_unconditional` – for arbitrary IR the emitted do-while form of a loop
  marked `once` differs from the IR interpreter when the loop is reached with a zero cell
  (`C02.once_needs_hypothesis`); the parser never sets `once`, so level 0 needs nothing;
* `JitRange` (§3) – genuine range conditions on the compiled program and the machine state: cell width one of
  8/16/32/64, operand displacements / frame size / `mov` shifts inside `i32` (otherwise the assembler's
  `bytes * offset` overflows, a debug-build panic or a silently wrapped displacement), code shorter than 2^31
  bytes, three distinct runtime addresses, `rsp ≡ 8 (mod 16)` at entry, budget a `u64` and not (limited ∧ 0),
  and for bounds-checked code no tape allocation beyond 2^40 cells (`NoOOM`);
* the unlimited-mode converse for the JIT ("the function returns ⇒ the canonical run terminates") is still not
  stated, for the reason given in `Props/Chain.lean` §6 (`prog_run` gives no lower bound on machine steps).
Proofs: `Hpbf/Proofs/ChainTotal.lean`, `Hpbf/Proofs/ChainTotalJit.lean`.
-/
import Hpbf.Proofs.ChainTotalJit

namespace Hpbf
namespace Chain

open Asm JitGen X86Sem X86Prog C03 BcGen C02

variable {w : Nat}

/-! ## 0. `translate` and `translateE` -/

example (prog : Ir.Block w) (numRegs : Nat) (fuse : Bool) : translate prog numRegs fuse =
    (match translateE prog numRegs fuse with
     | .ok p => p
     | .error _ => { temps := 999999, minAcc := 1, maxAcc := 0, live := #[], insts := #[] }) := rfl

/-- The sentinel is never returned. -/
example (blk : Ir.Block w) (numRegs : Nat) (fuse : Bool) :
    translateE blk numRegs fuse = .ok (translate blk numRegs fuse) := translate_ok blk numRegs fuse
example (blk : Ir.Block w) (numRegs : Nat) (fuse : Bool) :
    BcWf.check (translate blk numRegs fuse) numRegs = true := translate_check blk numRegs fuse

/-- The parser's result as a function of the text. -/
example (src : List Kind) : irOf w src =
    (match Ir.parse (w := w) src with | .ok b => b | .error _ => ⟨0, []⟩) := rfl
example (src : List Kind) (prog : Prog) (hp : Bf.tree src = some prog) :
    Ir.parse (w := w) src = .ok (irOf w src) := parse_irOf hp

/-! ## 2. `translate` refines the IR, every block -/

example (blk : Ir.Block w) (numRegs : Nat) (fuse : Bool) (env : Env) (ho : OnceOk blk env) :
    ((∀ f (c : Ir.Cfg w), Ir.run blk false 0 f env = .done c →
      ∃ f' c', Bc.run (translate blk numRegs fuse) false 0 f' env = .done c' ∧ c'.st.trace = c.st.trace ∧
        (∀ i, c'.st.tape.get i = c.st.tape.get i) ∧ c'.st.ptr = c.st.ptr ∧ c'.st.env = c.st.env) ∧
     (∀ f (c : Ir.Cfg w), Ir.run blk false 0 f env = .stopped c →
      ∃ f' c', Bc.run (translate blk numRegs fuse) false 0 f' env = .stopped c' ∧ c'.st.trace = c.st.trace ∧
        c'.st.ptr = c.st.ptr ∧ c'.st.env = c.st.env)) ∧
    ((∀ f' (c' : Bc.Cfg w), Bc.run (translate blk numRegs fuse) false 0 f' env = .done c' →
      ∃ f c, Ir.run blk false 0 f env = .done c ∧ c.st.trace = c'.st.trace ∧
        (∀ i, c.st.tape.get i = c'.st.tape.get i) ∧ c.st.ptr = c'.st.ptr ∧ c.st.env = c'.st.env) ∧
     (∀ f' (c' : Bc.Cfg w), Bc.run (translate blk numRegs fuse) false 0 f' env = .stopped c' →
      ∃ f c, Ir.run blk false 0 f env = .stopped c ∧ c.st.trace = c'.st.trace ∧
        c.st.ptr = c'.st.ptr ∧ c.st.env = c'.st.env)) ∧
    ((∀ f', ∃ f, C01.traceOf (Ir.run blk false 0 f env) =
        C07.traceOfBc (Bc.run (translate blk numRegs fuse) false 0 f' env)) ∧
     (∀ f, ∃ f', C07.traceOfBc (Bc.run (translate blk numRegs fuse) false 0 f' env) =
        C01.traceOf (Ir.run blk false 0 f env))) :=
  translate_refines_unconditional blk numRegs fuse env ho

/-- Never "malformed bytecode" – now for non-terminating runs too, every mode and budget – and never interrupted
in unlimited mode. -/
example (blk : Ir.Block w) (numRegs : Nat) (fuse : Bool) (env : Env) :
    (∀ (l : Bool) (b f' : Nat) (c' : Bc.Cfg w), Bc.run (translate blk numRegs fuse) l b f' env ≠ .bad c') ∧
    (∀ (f' : Nat) (c' : Bc.Cfg w), Bc.run (translate blk numRegs fuse) false 0 f' env ≠ .interrupted c') :=
  translate_never_bad_unconditional blk numRegs fuse env

/-! ## 1. Level 0, bytecode interpreter -/

section Level0
variable (hw : 0 < w) (src : List Kind) (prog : Prog) (hp : Bf.tree src = some prog)
  (blk : Ir.Block w) (hb : Ir.parse (w := w) src = .ok blk) (numRegs : Nat) (fuse : Bool) (env : Env)

/-- **Release dispatch.** -/
example :
    ((∀ f (s : State w), Bf.run f prog env = .done s →
        ∃ f' c', Bc.run (translate blk numRegs fuse) false 0 f' env = .done c' ∧ c'.st.trace = s.trace) ∧
     (∀ f (s : State w), Bf.run f prog env = .stopped s →
        ∃ f' c', Bc.run (translate blk numRegs fuse) false 0 f' env = .stopped c' ∧ c'.st.trace = s.trace)) ∧
    ((∀ f' (c' : Bc.Cfg w), Bc.run (translate blk numRegs fuse) false 0 f' env = .done c' →
        ∃ (f : Nat) (s : State w), Bf.run f prog env = .done s ∧ s.trace = c'.st.trace) ∧
     (∀ f' (c' : Bc.Cfg w), Bc.run (translate blk numRegs fuse) false 0 f' env = .stopped c' →
        ∃ (f : Nat) (s : State w), Bf.run f prog env = .stopped s ∧ s.trace = c'.st.trace)) ∧
    ((∀ f', ∃ f, C07.traceOfBc (Bc.run (translate blk numRegs fuse) false 0 f' env) =
        C01.traceOfBf (Bf.run (w := w) f prog env)) ∧
     (∀ f, ∃ f', C07.traceOfBc (Bc.run (translate blk numRegs fuse) false 0 f' env) =
        C01.traceOfBf (Bf.run (w := w) f prog env))) :=
  bytecode_level0_unconditional hw hp hb numRegs fuse env

/-- **Debug dispatch.** -/
example :
    ((∀ f (s : State w), Bf.run f prog env = .done s →
        ∃ f' c', runDebug (translate blk numRegs fuse) false 0 f' env = .done c' ∧ c'.st.trace = s.trace) ∧
     (∀ f (s : State w), Bf.run f prog env = .stopped s →
        ∃ f' c', runDebug (translate blk numRegs fuse) false 0 f' env = .stopped c' ∧ c'.st.trace = s.trace)) ∧
    ((∀ f' (c' : Bc.Cfg w), runDebug (translate blk numRegs fuse) false 0 f' env = .done c' →
        ∃ (f : Nat) (s : State w), Bf.run f prog env = .done s ∧ s.trace = c'.st.trace) ∧
     (∀ f' (c' : Bc.Cfg w), runDebug (translate blk numRegs fuse) false 0 f' env = .stopped c' →
        ∃ (f : Nat) (s : State w), Bf.run f prog env = .stopped s ∧ s.trace = c'.st.trace)) ∧
    ((∀ f', ∃ f, C07.traceOfBc (runDebug (translate blk numRegs fuse) false 0 f' env) =
        C01.traceOfBf (Bf.run (w := w) f prog env)) ∧
     (∀ f, ∃ f', C07.traceOfBc (runDebug (translate blk numRegs fuse) false 0 f' env) =
        C01.traceOfBf (Bf.run (w := w) f prog env))) :=
  bytecode_level0_debug_unconditional hw hp hb numRegs fuse env

/-- With the parser's result as a function of the text: only `0 < w` and balancedness. -/
example :
    ((∀ f (s : State w), Bf.run f prog env = .done s →
        ∃ f' c', Bc.run (translate (irOf w src) numRegs fuse) false 0 f' env = .done c' ∧
          c'.st.trace = s.trace) ∧
     (∀ f (s : State w), Bf.run f prog env = .stopped s →
        ∃ f' c', Bc.run (translate (irOf w src) numRegs fuse) false 0 f' env = .stopped c' ∧
          c'.st.trace = s.trace)) ∧
    ((∀ f' (c' : Bc.Cfg w), Bc.run (translate (irOf w src) numRegs fuse) false 0 f' env = .done c' →
        ∃ (f : Nat) (s : State w), Bf.run f prog env = .done s ∧ s.trace = c'.st.trace) ∧
     (∀ f' (c' : Bc.Cfg w), Bc.run (translate (irOf w src) numRegs fuse) false 0 f' env = .stopped c' →
        ∃ (f : Nat) (s : State w), Bf.run f prog env = .stopped s ∧ s.trace = c'.st.trace)) ∧
    ((∀ f', ∃ f, C07.traceOfBc (Bc.run (translate (irOf w src) numRegs fuse) false 0 f' env) =
        C01.traceOfBf (Bf.run (w := w) f prog env)) ∧
     (∀ f, ∃ f', C07.traceOfBc (Bc.run (translate (irOf w src) numRegs fuse) false 0 f' env) =
        C01.traceOfBf (Bf.run (w := w) f prog env))) :=
  bytecode_level0_source hw hp numRegs fuse env

/-! ### C05, without the checker hypothesis -/

example (hdiv : C05.BfDiverges w prog env) :
    (∀ (f' : Nat) (c : Bc.Cfg w),
      Bc.run (translate blk numRegs fuse) false 0 f' env ≠ .done c ∧
      Bc.run (translate blk numRegs fuse) false 0 f' env ≠ .stopped c) ∧
    (∀ (b f' : Nat) (c : Bc.Cfg w),
      Bc.run (translate blk numRegs fuse) true b f' env ≠ .done c ∧
      Bc.run (translate blk numRegs fuse) true b f' env ≠ .stopped c) :=
  bc_never_returns_unconditional hw hp hb numRegs fuse env hdiv

example (hdiv : C05.BfDiverges w prog env) :
    ∀ f', ∃ c : Bc.Cfg w, Bc.run (translate blk numRegs fuse) false 0 f' env = .outOfFuel c :=
  bc_runs_forever_unconditional hw hp hb numRegs fuse env hdiv

example (hdiv : C05.BfDiverges w prog env) :
    ∀ b, ∃ f' c, Bc.run (translate blk numRegs fuse) true b f' env = .interrupted c :=
  bc_limited_interrupted_unconditional hw hp hb numRegs fuse env hdiv

example (hdiv : C05.BfDiverges w prog env) :
    (∀ f, ∃ f' c c', Bf.run (w := w) f prog env = .outOfFuel c ∧
      Bc.run (translate blk numRegs fuse) false 0 f' env = .outOfFuel c' ∧ c'.st.trace = c.st.trace) ∧
    (∀ f', ∃ f c c', Bc.run (translate blk numRegs fuse) false 0 f' env = .outOfFuel c' ∧
      Bf.run (w := w) f prog env = .outOfFuel c ∧ c'.st.trace = c.st.trace) :=
  bc_divergent_output_unconditional hw hp hb numRegs fuse env hdiv

example :
    (∀ (f : Nat) (s : State w), Bf.run f prog env = .done s →
      ∃ f' c, Bc.run (translate blk numRegs fuse) false 0 f' env = .done c ∧ c.st.trace = s.trace) ∧
    (∀ (f : Nat) (s : State w), Bf.run f prog env = .stopped s →
      ∃ f' c, Bc.run (translate blk numRegs fuse) false 0 f' env = .stopped c ∧ c.st.trace = s.trace) ∧
    (∀ (f : Nat) (s : State w), Bf.run f prog env = .done s →
      ∃ g, ∀ b, g ≤ b →
        ∃ f' c, Bc.run (translate blk numRegs fuse) true b f' env = .done c ∧ c.st.trace = s.trace) :=
  bc_terminates_unconditional hw hp hb numRegs fuse env

/-! ### C07 -/

example :
    (∀ (b f' : Nat) (c : Bc.Cfg w), Bc.run (translate blk numRegs fuse) true b f' env = .done c →
      ∃ (f : Nat) (s : State w), Bf.run f prog env = .done s ∧ s.trace = c.st.trace) ∧
    (∀ (b f' : Nat) (c : Bc.Cfg w), Bc.run (translate blk numRegs fuse) true b f' env = .stopped c →
      ∃ (f : Nat) (s : State w), Bf.run f prog env = .stopped s ∧ s.trace = c.st.trace) :=
  bc_limited_finished_unconditional hw hp hb numRegs fuse env

example : ∀ b f', ∃ f, ∀ g, f ≤ g →
    C07.traceOfBc (Bc.run (translate blk numRegs fuse) true b f' env) <:+
      C01.traceOfBf (Bf.run (w := w) g prog env) :=
  bc_limited_is_prefix_unconditional hw hp hb numRegs fuse env

example :
    (∀ (f : Nat) (s : State w), Bf.run f prog env = .done s →
      ∃ g, ∀ b, g ≤ b →
        ∃ f' c, Bc.run (translate blk numRegs fuse) true b f' env = .done c ∧ c.st.trace = s.trace) ∧
    (∀ (f : Nat) (s : State w), Bf.run f prog env = .stopped s →
      ∃ g, ∀ b, g ≤ b →
        ∃ f' c, Bc.run (translate blk numRegs fuse) true b f' env = .stopped c ∧ c.st.trace = s.trace) :=
  bc_limited_enough_unconditional hw hp hb numRegs fuse env

/-- Limited mode in one statement: the call returns – interrupted, or finished / stopped with the complete
canonical event sequence of a canonical run that ends the same way; never "malformed bytecode". -/
example (b : Nat) :
    ∃ f', (∃ c, Bc.run (translate blk numRegs fuse) true b f' env = .interrupted c) ∨
      (∃ (c : Bc.Cfg w) (f : Nat) (s : State w), Bc.run (translate blk numRegs fuse) true b f' env = .done c ∧
        Bf.run f prog env = .done s ∧ s.trace = c.st.trace) ∨
      (∃ (c : Bc.Cfg w) (f : Nat) (s : State w), Bc.run (translate blk numRegs fuse) true b f' env = .stopped c ∧
        Bf.run f prog env = .stopped s ∧ s.trace = c.st.trace) :=
  bc_limited_total_unconditional hw hp hb numRegs fuse env b

/-! ### C08 -/

example : ∀ (f : Nat) (s : State w), Bf.run f prog env = .stopped s →
    ∃ f' c, (∀ k, Bc.run (translate blk numRegs fuse) false 0 (f' + k) env = .stopped c) ∧
      c.st.trace = s.trace :=
  bc_stops_like_canonical_unconditional hw hp hb numRegs fuse env

example : ∀ (l : Bool) (b f' : Nat) (c : Bc.Cfg w),
    Bc.run (translate blk numRegs fuse) l b f' env = .stopped c → (l = false → b = 0) →
    ∃ (f : Nat) (s : State w), Bf.run f prog env = .stopped s ∧ s.trace = c.st.trace :=
  bc_stops_only_like_canonical_unconditional hw hp hb numRegs fuse env

/-! ## 3. Level 0, machine code of the baseline JIT -/

example (p : Bc.Program w) (limited safe : Bool) (cfg : X86Prog.Cfg) : jitCode p limited safe cfg =
    (compileX86 w p limited safe cfg.aE.toNat cfg.aI.toNat cfg.aO.toNat).getD [] := rfl

/-- **What `JitRange` contains.** -/
example (sz : Size) (p : Bc.Program w) (limited safe : Bool) (cfg : X86Prog.Cfg) (buf0 rsp0 ra : BitVec 64)
    (budget : Nat) :
    JitRange sz p limited safe cfg buf0 rsp0 ra budget env ↔
    (Size.ofBits? w = some sz ∧
     cfg.fetch = fetchFast (fetchTable (jitCode p limited safe cfg)) ∧
     sizeAll (jitCode p limited safe cfg) < 2 ^ 31 ∧
     cfg.aI ≠ cfg.aO ∧ cfg.aE ≠ cfg.aI ∧ cfg.aE ≠ cfg.aO ∧
     (-2147483648 < p.minAcc ∧ p.maxAcc < 2147483648) ∧
     DispOk sz p.minAcc ∧ DispOk sz p.maxAcc ∧
     (safe = true → DispOk sz (-p.minAcc) ∧ DispOk sz (-p.maxAcc)) ∧
     alignedTemps p.temps * 8 < 2147483648 ∧
     (∀ (i : Nat) (sh : Int), p.insts[i]? = some (Bc.Instr.mov sh) → DispOk sz sh) ∧
     rsp0.toNat % 16 = 8 ∧ budget < 2 ^ 64 ∧ (limited && budget == 0) = false ∧
     (safe = true → ∀ n s',
        steps cfg n (initState (w := w) cfg buf0 rsp0 ra p.minAcc p.maxAcc budget env) = some s' → Bnd s')) :=
  ⟨fun h => ⟨h.width, h.fetch, h.small, h.addrIO, h.addrEI, h.addrEO, h.win, h.dispMin, h.dispMax, h.dispNeg,
      h.temps, h.shift, h.rsp, h.budgetLt, h.lim, h.noOOM⟩,
   fun ⟨a, b, c, d, e, f, g, h, i, j, k, l, m, n, o, q⟩ => ⟨a, b, c, d, e, f, g, h, i, j, k, l, m, n, o, q⟩⟩
example (sz : Size) (idx : Int) : DispOk sz idx ↔
    (-2147483648 ≤ (sz.bytes : Int) * idx ∧ (sz.bytes : Int) * idx < 2147483648) := Iff.rfl
example : (∃ sz, Size.ofBits? w = some sz) ↔ (w = 8 ∨ w = 16 ∨ w = 32 ∨ w = 64) := by
  unfold Size.ofBits?
  constructor
  · rintro ⟨sz, h⟩; split at h <;> first | omega | cases h
  · rintro (rfl | rfl | rfl | rfl) <;> exact ⟨_, rfl⟩

/-- Under `JitRange`, compilation of `translate` output succeeds and all hypotheses of `C03.prog_run` hold. -/
example (p : Bc.Program w) (sz : Size) (limited safe : Bool) (cfg : X86Prog.Cfg) (buf0 rsp0 ra : BitVec 64)
    (budget : Nat) (ht : translateE blk 11 false = .ok p)
    (R : JitRange sz p limited safe cfg buf0 rsp0 ra budget env) :
    compileX86 w p limited safe cfg.aE.toNat cfg.aI.toNat cfg.aO.toNat = some (jitCode p limited safe cfg) ∧
    JitHyps p limited safe cfg (jitCode p limited safe cfg) buf0 rsp0 ra budget env :=
  ⟨jitCode_spec ht R, jitHyps_of_range ht R⟩

variable (sz : Size) (safe : Bool) (cfg : X86Prog.Cfg) (buf0 rsp0 ra : BitVec 64)

/-- **Forward** (unlimited mode). -/
example (R : JitRange sz (translate blk 11 false) false safe cfg buf0 rsp0 ra 0 env) :
    let p := translate blk 11 false
    let s0 : PState w := initState cfg buf0 rsp0 ra p.minAcc p.maxAcc 0 env
    (∀ f (s : State w), Bf.run f prog env = .done s →
      ∃ n s', X86Prog.run cfg n s0 = .ret s' ∧ s'.regs.rax = 1 ∧ s'.trace = s.trace) ∧
    (∀ f (s : State w), Bf.run f prog env = .stopped s →
      ∃ n s', X86Prog.run cfg n s0 = .ret s' ∧ s'.regs.rax = 0 ∧ s'.trace = s.trace) :=
  jit_level0_forward_unconditional hw hp hb env R

/-- **Uniqueness.** -/
example (R : JitRange sz (translate blk 11 false) false safe cfg buf0 rsp0 ra 0 env) :
    let p := translate blk 11 false
    let s0 : PState w := initState cfg buf0 rsp0 ra p.minAcc p.maxAcc 0 env
    (∀ f (s : State w), Bf.run f prog env = .done s →
      ∀ n s', X86Prog.run cfg n s0 = .ret s' → s'.regs.rax = 1 ∧ s'.trace = s.trace) ∧
    (∀ f (s : State w), Bf.run f prog env = .stopped s →
      ∀ n s', X86Prog.run cfg n s0 = .ret s' → s'.regs.rax = 0 ∧ s'.trace = s.trace) :=
  jit_level0_unique_unconditional hw hp hb env R

/-- **Prefix.** -/
example (R : JitRange sz (translate blk 11 false) false safe cfg buf0 rsp0 ra 0 env) :
    let p := translate blk 11 false
    let s0 : PState w := initState cfg buf0 rsp0 ra p.minAcc p.maxAcc 0 env
    ∀ f, ∃ n s', (steps cfg n s0 = some s' ∨ X86Prog.run cfg n s0 = .ret s') ∧
      s'.trace = C01.traceOfBf (Bf.run (w := w) f prog env) :=
  jit_level0_prefix_unconditional hw hp hb env R

example (R : JitRange sz (translate blk 11 false) false safe cfg buf0 rsp0 ra 0 env)
    (hdiv : C05.BfDiverges w prog env) :
    let p := translate blk 11 false
    let s0 : PState w := initState cfg buf0 rsp0 ra p.minAcc p.maxAcc 0 env
    ∀ f, ∃ n s', steps cfg n s0 = some s' ∧ s'.trace = C01.traceOfBf (Bf.run (w := w) f prog env) :=
  jit_level0_divergent_unconditional hw hp hb env R hdiv

/-- **Limited mode.** -/
example (b : Nat) (R : JitRange sz (translate blk 11 false) true safe cfg buf0 rsp0 ra b env) :
    let p := translate blk 11 false
    let s0 : PState w := initState cfg buf0 rsp0 ra p.minAcc p.maxAcc b env
    ∃ n s', X86Prog.run cfg n s0 = .ret s' ∧
      (∀ n2 s2, X86Prog.run cfg n2 s0 = .ret s2 → s2 = s') ∧
      (s'.regs.rax = 1 ∨ s'.regs.rax = 0) ∧
      (s'.regs.rax = 1 → ∃ (f : Nat) (s : State w), Bf.run f prog env = .done s ∧ s.trace = s'.trace) ∧
      (∃ f, ∀ g, f ≤ g → s'.trace <:+ C01.traceOfBf (Bf.run (w := w) g prog env)) :=
  jit_level0_limited_unconditional hw hp hb env R

example :
    let p := translate blk 11 false
    (∀ f (s : State w), Bf.run f prog env = .done s → ∃ g, ∀ b, g ≤ b →
      JitRange sz p true safe cfg buf0 rsp0 ra b env →
      ∃ n s', X86Prog.run cfg n (initState (w := w) cfg buf0 rsp0 ra p.minAcc p.maxAcc b env) = .ret s' ∧
        s'.regs.rax = 1 ∧ s'.trace = s.trace) ∧
    (∀ f (s : State w), Bf.run f prog env = .stopped s → ∃ g, ∀ b, g ≤ b →
      JitRange sz p true safe cfg buf0 rsp0 ra b env →
      ∃ n s', X86Prog.run cfg n (initState (w := w) cfg buf0 rsp0 ra p.minAcc p.maxAcc b env) = .ret s' ∧
        s'.regs.rax = 0 ∧ s'.trace = s.trace) :=
  jit_level0_limited_enough_unconditional hw hp hb env

end Level0

/-! ## 4. All backends -/

/-- The vocabulary of the headline theorem (all transparent). -/
example : Fin = Option (Bool × List Ev) := rfl
example (s : State w) (c : Bf.Config w) :
    finBf (.done s) = some (true, s.trace) ∧ finBf (.stopped s) = some (false, s.trace) ∧
    finBf (.outOfFuel c) = none := ⟨rfl, rfl, rfl⟩
example (c : Inplace.Cfg w) (pos : Nat) :
    finInplace (.finished c) = some (true, c.st.trace) ∧ finInplace (.stopped c) = some (false, c.st.trace) ∧
    finInplace (.interrupted c) = none ∧ finInplace (.notOpened pos c) = none ∧
    finInplace (.outOfFuel c) = none := ⟨rfl, rfl, rfl, rfl, rfl⟩
example (c : Ir.Cfg w) :
    finIr (.done c) = some (true, c.st.trace) ∧ finIr (.stopped c) = some (false, c.st.trace) ∧
    finIr (.interrupted c) = none ∧ finIr (.outOfFuel c) = none := ⟨rfl, rfl, rfl, rfl⟩
example (c : Bc.Cfg w) :
    finBc (.done c) = some (true, c.st.trace) ∧ finBc (.stopped c) = some (false, c.st.trace) ∧
    finBc (.interrupted c) = none ∧ finBc (.bad c) = none ∧ finBc (.outOfFuel c) = none :=
  ⟨rfl, rfl, rfl, rfl, rfl⟩
example (s : PState w) (f : Fault) :
    finX86 (.ret s) = some (s.regs.rax == 1, s.trace) ∧ finX86 (.fault f s) = none ∧
    finX86 (.fuel s) = none := ⟨rfl, rfl, rfl⟩
example (A B : Nat → Fin) : SameResults A B ↔ ∀ r, (∃ f, A f = some r) ↔ (∃ f, B f = some r) := Iff.rfl

/-- **`level0_all_backends`** (docstring at the theorem, `Proofs/ChainTotalJit.lean`). -/
example (hw : 0 < w) (code : Array Kind) (prog : Prog) (hp : Bf.tree code.toList = some prog)
    (numRegs : Nat) (fuse : Bool) (env : Env) :
    let canon : Nat → Fin := fun f => finBf (Bf.run (w := w) f prog env)
    let blk : Ir.Block w := irOf w code.toList
    let p : Bc.Program w := translate blk numRegs fuse
    let pj : Bc.Program w := translate blk 11 false
    SameResults canon (fun f => finInplace (Inplace.run (w := w) code false 0 f env)) ∧
    SameResults canon (fun f => finIr (Ir.run blk false 0 f env)) ∧
    SameResults canon (fun f => finBc (Bc.run p false 0 f env)) ∧
    SameResults canon (fun f => finBc (C02.runDebug p false 0 f env)) ∧
    (∀ (sz : Size) (safe : Bool) (cfg : X86Prog.Cfg) (buf0 rsp0 ra : BitVec 64),
      JitRange sz pj false safe cfg buf0 rsp0 ra 0 env →
      ∀ r, (∃ f, canon f = some r) →
        ∃ n, finX86 (X86Prog.run cfg n (initState (w := w) cfg buf0 rsp0 ra pj.minAcc pj.maxAcc 0 env))
          = some r) ∧
    (∀ (sz : Size) (safe : Bool) (cfg : X86Prog.Cfg) (buf0 rsp0 ra : BitVec 64) (b : Nat),
      JitRange sz pj true safe cfg buf0 rsp0 ra b env →
      ∃ n r, finX86 (X86Prog.run cfg n (initState (w := w) cfg buf0 rsp0 ra pj.minAcc pj.maxAcc b env))
          = some r ∧
        (r.1 = true → ∃ f, canon f = some r) ∧
        ∃ f, ∀ g, f ≤ g → r.2 <:+ C01.traceOfBf (Bf.run (w := w) g prog env)) :=
  level0_all_backends hw code prog hp numRegs fuse env

/-- The in-place conjunct holds for every budget argument of the unlimited run, not only `0`. -/
example (code : Array Kind) (prog : Prog) (hp : Bf.tree code.toList = some prog) (env : Env) (b : Nat) :
    SameResults (fun f => finBf (Bf.run (w := w) f prog env))
      (fun f => finInplace (Inplace.run (w := w) code false b f env)) := same_inplace code hp env b

/-! ## 5. Non-vacuity (kernel evaluation): `,[.,]` through every backend -/

/-- `,[.,]` -/
def totCat : Array Kind := #[.inp, .open, .out, .inp, .close]
def totProg : Prog := .cmd .inp (.loop (.cmd .out (.cmd .inp .nil)) .nil)
def totEnv : Env := { input := some [.byte 65, .byte 66, .eof], sink := true, outOk := none }
def totEnvRefuse : Env := { input := some [.byte 65, .byte 66, .eof], sink := true, outOk := some 1 }
/-- The bytecode the JIT compiles. -/
def totPj : Bc.Program 8 := translate (irOf 8 totCat.toList) 11 false
def totCode : List X86 := (compileX86 8 totPj false false 0x7f0000001000 0x7f0000002000 0x7f0000003000).getD []
def totCodeL : List X86 := (compileX86 8 totPj true false 0x7f0000001000 0x7f0000002000 0x7f0000003000).getD []

set_option maxRecDepth 100000

theorem totCat_tree : Bf.tree totCat.toList = some totProg := by decide

example : totPj.insts = #[.inp 0, .brz 0 4, .out 0, .inp 0, .brnz 0 (-2)] := by decide +kernel
example : (totCode.length, sizeAll totCode) = (42, 152) := by decide +kernel

/-- The canonical results on input `AB`, with a sink that never refuses / that refuses the second byte. -/
theorem totCat_canon : finBf (Bf.run (w := 8) 60 totProg totEnv) =
    some (true, [Ev.inp 0, Ev.out 66, Ev.inp 66, Ev.out 65, Ev.inp 65]) := by decide +kernel
theorem totCat_canon_refuse : finBf (Bf.run (w := 8) 60 totProg totEnvRefuse) =
    some (false, [Ev.outFail 66, Ev.inp 66, Ev.out 65, Ev.inp 65]) := by decide +kernel

/-- The four interpreters give that result (by the theorem) … -/
example :
    (∃ f, finInplace (Inplace.run (w := 8) totCat false 0 f totEnv) =
      some (true, [Ev.inp 0, Ev.out 66, Ev.inp 66, Ev.out 65, Ev.inp 65])) ∧
    (∃ f, finIr (Ir.run (irOf 8 totCat.toList) false 0 f totEnv) =
      some (true, [Ev.inp 0, Ev.out 66, Ev.inp 66, Ev.out 65, Ev.inp 65])) ∧
    (∃ f, finBc (Bc.run (translate (irOf 8 totCat.toList) 4 true) false 0 f totEnvRefuse) =
      some (false, [Ev.outFail 66, Ev.inp 66, Ev.out 65, Ev.inp 65])) ∧
    (∃ f, finBc (C02.runDebug (translate (irOf 8 totCat.toList) 4 true) false 0 f totEnvRefuse) =
      some (false, [Ev.outFail 66, Ev.inp 66, Ev.out 65, Ev.inp 65])) := by
  have A := level0_all_backends (w := 8) (by decide) totCat totProg totCat_tree 4 true totEnv
  have B := level0_all_backends (w := 8) (by decide) totCat totProg totCat_tree 4 true totEnvRefuse
  exact ⟨(A.1 _).1 ⟨60, totCat_canon⟩, (A.2.1 _).1 ⟨60, totCat_canon⟩,
    (B.2.2.1 _).1 ⟨60, totCat_canon_refuse⟩, (B.2.2.2.1 _).1 ⟨60, totCat_canon_refuse⟩⟩

/-- … and by evaluation. -/
example : finBc (Bc.run (translate (irOf 8 totCat.toList) 4 true) false 0 60 totEnvRefuse) =
    some (false, [Ev.outFail 66, Ev.inp 66, Ev.out 65, Ev.inp 65]) := by decide +kernel

theorem totPj_no_mov (i : Nat) (sh : Int) : totPj.insts[i]? ≠ some (Bc.Instr.mov sh) := by
  have e : totPj.insts = #[.inp 0, .brz 0 4, .out 0, .inp 0, .brnz 0 (-2)] := by decide +kernel
  rw [e]
  intro h
  rcases i with _|_|_|_|_|i <;> simp at h

theorem exCfg_fetch (code : List X86) : (exCfg code).fetch = fetchFast (fetchTable code) := rfl
theorem jitCode_exCfg (p : Bc.Program w) (limited safe : Bool) (code : List X86) :
    jitCode p limited safe (exCfg code) =
      (compileX86 w p limited safe 0x7f0000001000 0x7f0000002000 0x7f0000003000).getD [] := rfl
theorem totJitCode : jitCode totPj false false (exCfg totCode) = totCode := jitCode_exCfg _ _ _ _
theorem totJitCodeL : jitCode totPj true false (exCfg totCodeL) = totCodeL := jitCode_exCfg _ _ _ _

/-- `JitRange` is satisfiable: unlimited mode, code generation without bounds checks (so `NoOOM` is void). -/
theorem totRange : JitRange .b8 totPj false false (exCfg totCode) 0x560000000000 0x7ffd00000ff8 0x555500001234 0
    totEnv :=
  { width := rfl, fetch := by rw [totJitCode]; exact exCfg_fetch _, small := by rw [totJitCode]; decide +kernel,
    addrIO := by show (0x7f0000002000 : BitVec 64) ≠ 0x7f0000003000; decide,
    addrEI := by show (0x7f0000001000 : BitVec 64) ≠ 0x7f0000002000; decide,
    addrEO := by show (0x7f0000001000 : BitVec 64) ≠ 0x7f0000003000; decide,
    win := by decide +kernel,
    dispMin := by unfold DispOk; decide +kernel, dispMax := by unfold DispOk; decide +kernel,
    dispNeg := fun h => (by cases h),
    temps := by decide +kernel,
    shift := fun i sh h => absurd h (totPj_no_mov i sh),
    rsp := by decide, budgetLt := by decide, lim := rfl, noOOM := fun h => by cases h }

/-- Hence the compiled function returns "finished" with exactly the canonical events. -/
example : ∃ n, finX86 (X86Prog.run (exCfg totCode) n
    (initState (w := 8) (exCfg totCode) 0x560000000000 0x7ffd00000ff8 0x555500001234 totPj.minAcc totPj.maxAcc 0
      totEnv)) = some (true, [Ev.inp 0, Ev.out 66, Ev.inp 66, Ev.out 65, Ev.inp 65]) :=
  (level0_all_backends (w := 8) (by decide) totCat totProg totCat_tree 4 true totEnv).2.2.2.2.1
    .b8 false (exCfg totCode) _ _ _ totRange _ ⟨60, totCat_canon⟩

/-- Limited mode with budget 3 (the loop `,[.,]` needs more): `JitRange` holds, the function returns, and
whatever it reports is an initial part of the canonical events. -/
theorem totRangeL : JitRange .b8 totPj true false (exCfg totCodeL) 0x560000000000 0x7ffd00000ff8 0x555500001234 3
    totEnv :=
  { width := rfl, fetch := by rw [totJitCodeL]; exact exCfg_fetch _, small := by rw [totJitCodeL]; decide +kernel,
    addrIO := by show (0x7f0000002000 : BitVec 64) ≠ 0x7f0000003000; decide,
    addrEI := by show (0x7f0000001000 : BitVec 64) ≠ 0x7f0000002000; decide,
    addrEO := by show (0x7f0000001000 : BitVec 64) ≠ 0x7f0000003000; decide,
    win := by decide +kernel,
    dispMin := by unfold DispOk; decide +kernel, dispMax := by unfold DispOk; decide +kernel,
    dispNeg := fun h => (by cases h),
    temps := by decide +kernel,
    shift := fun i sh h => absurd h (totPj_no_mov i sh),
    rsp := by decide, budgetLt := by decide, lim := rfl, noOOM := fun h => by cases h }

example : ∃ n r, finX86 (X86Prog.run (exCfg totCodeL) n
      (initState (w := 8) (exCfg totCodeL) 0x560000000000 0x7ffd00000ff8 0x555500001234 totPj.minAcc totPj.maxAcc
        3 totEnv)) = some r ∧
    (r.1 = true → ∃ f, finBf (Bf.run (w := 8) f totProg totEnv) = some r) ∧
    ∃ f, ∀ g, f ≤ g → r.2 <:+ C01.traceOfBf (Bf.run (w := 8) g totProg totEnv) :=
  (level0_all_backends (w := 8) (by decide) totCat totProg totCat_tree 4 true totEnv).2.2.2.2.2
    .b8 false (exCfg totCodeL) _ _ _ 3 totRangeL

end Chain
end Hpbf

#print axioms Hpbf.Chain.translate_ok
#print axioms Hpbf.Chain.translate_check
#print axioms Hpbf.Chain.parse_irOf
#print axioms Hpbf.Chain.translate_refines_unconditional
#print axioms Hpbf.Chain.translate_refines_noOnce_unconditional
#print axioms Hpbf.Chain.translate_never_bad_unconditional
#print axioms Hpbf.Chain.bytecode_level0_unconditional
#print axioms Hpbf.Chain.bytecode_level0_debug_unconditional
#print axioms Hpbf.Chain.bytecode_level0_source
#print axioms Hpbf.Chain.bc_never_returns_unconditional
#print axioms Hpbf.Chain.bc_runs_forever_unconditional
#print axioms Hpbf.Chain.bc_limited_interrupted_unconditional
#print axioms Hpbf.Chain.bc_divergent_output_unconditional
#print axioms Hpbf.Chain.bc_terminates_unconditional
#print axioms Hpbf.Chain.bc_limited_finished_unconditional
#print axioms Hpbf.Chain.bc_limited_is_prefix_unconditional
#print axioms Hpbf.Chain.bc_limited_enough_unconditional
#print axioms Hpbf.Chain.bc_limited_total_unconditional
#print axioms Hpbf.Chain.bc_stops_like_canonical_unconditional
#print axioms Hpbf.Chain.bc_stops_only_like_canonical_unconditional
#print axioms Hpbf.Chain.jitCode_spec
#print axioms Hpbf.Chain.jitHyps_of_range
#print axioms Hpbf.Chain.jit_level0_forward_unconditional
#print axioms Hpbf.Chain.jit_level0_unique_unconditional
#print axioms Hpbf.Chain.jit_level0_prefix_unconditional
#print axioms Hpbf.Chain.jit_level0_divergent_unconditional
#print axioms Hpbf.Chain.jit_level0_limited_unconditional
#print axioms Hpbf.Chain.jit_level0_limited_enough_unconditional
#print axioms Hpbf.Chain.same_inplace
#print axioms Hpbf.Chain.same_ir
#print axioms Hpbf.Chain.same_bc
#print axioms Hpbf.Chain.same_bc_debug
#print axioms Hpbf.Chain.jit_forward_fin
#print axioms Hpbf.Chain.jit_limited_fin
#print axioms Hpbf.Chain.level0_all_backends
#print axioms Hpbf.Chain.totCat_canon
#print axioms Hpbf.Chain.totRange
#print axioms Hpbf.Chain.totRangeL
