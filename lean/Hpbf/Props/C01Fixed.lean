/-
Property C01 for the REPAIRED optimizer `OptFix.optimizeF` (`Hpbf/OptFix.lean`; the function the Rust is tied to
after the fix of defect F13: `optimize_once` followed by `recompute_clobbered`): everything that is registered for
`Opt.optimize` (C01Rebuild, C01Rounds, C01Full, C13Opt, C10Opt), restated for `optimizeF`, with NO per-run hypothesis.

1. `optimizeF_level_le_one'`: at levels 0 and 1 `optimizeF` IS `Opt.optimize` (the post-pass only changes the
   analysis, which nothing consumes there).
2. correctness, every level, every oracle, every environment: `optimizeF_preserves_all_levels''`,
   `optimizeF_onceOk_all_levels''`, from source `optimizeF_parse'`; round by round: `optimizeOnceF_round1'`,
   `optimizeOnceF_analIn'` (the recorded analysis is sound for the emitted program, for every state),
   `optimizeOnceF_analSound'` (what DSE consumes), `dse_after_roundF'`, `optimizeOnceF_later'`.
3. totality / no panic: `optimizeF_no_panic'`, `optimizeF_never_panics'`, `optimizeF_total'`, `optimizeF_canonL'`
   (+ `_parse`).
4. offsets: `optimizeF_reach'`, `optimizeF_offsets'`, `optimizeF_keeps_bound'`, `optimizedF_window_le_length'`,
   `optimizedF_window_le_moves'`, `optimizedF_shift_le_length'`.
Proofs: Hpbf/Proofs/OptRbFull.lean, OptFixRounds.lean, OptFixTotal.lean (rb-canon), OptFixOffs.lean (rb-foot).
-/
import Hpbf.Proofs.OptFixRounds
import Hpbf.Proofs.OptFixTotal
import Hpbf.Proofs.OptFixOffs

namespace Hpbf
namespace OptProof
open Opt OptSem Ir

variable {w : Nat}

/-! ### 1. levels 0 and 1 -/

theorem optimizeF_level_le_one' (b : Block w) {level : Nat} (h : level ≤ 1) (orders : Orders) :
    OptFix.optimizeF b level orders = Opt.optimize b level orders :=
  OptTotal.optimizeF_level_le_one b h orders

/-! ### 2. correctness -/

theorem optimizeF_preserves_all_levels'' (hw : 0 < w) {b b' : Block w} (hcl : CanonL b.insts) {level : Nat}
    {orders : Orders} (h : OptFix.optimizeF b level orders = .ok b') (env : Env) : BehEq b b' env :=
  optimizeF_preserves_all_levels hw hcl h env

theorem optimizeF_onceOk_all_levels'' (hw : 0 < w) {b b' : Block w} (hcl : CanonL b.insts) {level : Nat}
    (hl : level ≠ 0) {orders : Orders} (h : OptFix.optimizeF b level orders = .ok b') (env : Env) :
    C02Emit.OnceOk b' env :=
  optimizeF_onceOk_all_levels hw hcl hl h env

/-- From Brainfuck source. -/
theorem optimizeF_parse' (hw : 0 < w) {src : List Kind} {b b' : Block w} (hp : Ir.parse (w := w) src = .ok b)
    {level : Nat} {orders : Orders} (h : OptFix.optimizeF b level orders = .ok b') (env : Env) :
    BehEq b b' env ∧ (level ≠ 0 → C02Emit.OnceOk b' env) :=
  optimizeF_parse hw hp h env

theorem optimizeOnceF_round1' (hw : 0 < w) {b : Block w} (hcl : CanonL b.insts) {os os' : Orders}
    {b' : Block w} {anal' : OptAnalysis w}
    (hr : (OptFix.optimizeOnceF b (topAnalysis [] [])).run os = .ok ((b', anal'), os')) (env : Env) :
    BehEq b b' env ∧ C02Emit.OnceOk b' env :=
  optimizeOnceF_round1 hw hcl hr env

/-- The analysis a repaired round records is sound for the program it emits, from EVERY state, and fits its blocks. -/
theorem optimizeOnceF_analIn' {b : Block w} {prevAnal : OptAnalysis w} {os os' : Orders} {b' : Block w}
    {anal' : OptAnalysis w} (hr : (OptFix.optimizeOnceF b prevAnal).run os = .ok ((b', anal'), os'))
    (hcl : CanonL b.insts) (G : State w → Prop) :
    AnalInL G b'.insts anal'.subBlocks ∧ ShapeL b'.insts anal'.subBlocks :=
  optimizeOnceF_analIn hr hcl G

theorem optimizeOnceF_analSound' {b : Block w} {prevAnal : OptAnalysis w} {os os' : Orders} {b' : Block w}
    {anal' : OptAnalysis w} (hr : (OptFix.optimizeOnceF b prevAnal).run os = .ok ((b', anal'), os'))
    (hcl : CanonL b.insts) {env : Env} (ho : C02Emit.OnceOk b' env) :
    C01Dse.AnalSound b' anal'.toDAnal env :=
  optimizeOnceF_analSound hr hcl ho

theorem dse_after_roundF' {b : Block w} {prevAnal : OptAnalysis w} {os os' : Orders} {b1 : Block w}
    {anal1 : OptAnalysis w} (hr : (OptFix.optimizeOnceF b prevAnal).run os = .ok ((b1, anal1), os'))
    (hcl : CanonL b.insts) :
    (∃ b2, deadStoreElimination b1 anal1 = .ok b2) ∧
    ∀ b2 env, C02Emit.OnceOk b1 env → deadStoreElimination b1 anal1 = .ok b2 → BehEq b1 b2 env :=
  dse_after_roundF hr hcl

/-- A later round of the repaired pipeline: no hypothesis on the run. -/
theorem optimizeOnceF_later' (hw : 0 < w) {b0 : Block w} {prev0 : OptAnalysis w} {os0 os0' : Orders}
    {prog prog1 prog2 : Block w} {anal anal2 : OptAnalysis w} {os os2 : Orders}
    (hr0 : (OptFix.optimizeOnceF b0 prev0).run os0 = .ok ((prog, anal), os0')) (hcl0 : CanonL b0.insts)
    {env : Env} (ho : C02Emit.OnceOk prog env) (hd : deadStoreElimination prog anal = .ok prog1)
    (hr : (OptFix.optimizeOnceF prog1 anal).run os = .ok ((prog2, anal2), os2)) :
    BehEq prog prog2 env ∧ C02Emit.OnceOk prog2 env ∧ CanonL prog1.insts :=
  optimizeOnceF_later hw hr0 hcl0 ho hd hr

/-! ### 3. totality, no panic -/

theorem optimizeF_no_panic' (b : Block w) (level : Nat) (orders : Orders) (hcl : CanonL b.insts) :
    ∀ e, OptFix.optimizeF b level orders = .error e → OptTotal.isOracleError e = true :=
  OptTotal.optimizeF_no_panic b level orders hcl

theorem optimizeF_never_panics' (b : Block w) (level : Nat) (orders : Orders) (hcl : CanonL b.insts) (e : String)
    (h : OptFix.optimizeF b level orders = .error e) :
    "panic: ".toList.isPrefixOf e.toList = false ∧ "model: ".toList.isPrefixOf e.toList = false :=
  OptTotal.optimizeF_never_panics b level orders hcl e h

theorem optimizeF_total' (b : Block w) (level : Nat) (hcl : CanonL b.insts) :
    ∃ orders b', OptFix.optimizeF b level orders = .ok b' :=
  OptTotal.optimizeF_total b level hcl

theorem optimizeF_canonL' {b b' : Block w} {level : Nat} {orders : Orders} (hcl : CanonL b.insts)
    (h : OptFix.optimizeF b level orders = .ok b') : CanonL b'.insts :=
  OptTotal.optimizeF_canonL hcl h

theorem optimizeF_no_panic_parse' {src : List Kind} {b : Block w} (hp : Ir.parse (w := w) src = .ok b)
    (level : Nat) (orders : Orders) :
    ∀ e, OptFix.optimizeF b level orders = .error e → OptTotal.isOracleError e = true :=
  OptTotal.optimizeF_no_panic_parse hp level orders

theorem optimizeF_total_parse' {src : List Kind} {b : Block w} (hp : Ir.parse (w := w) src = .ok b)
    (level : Nat) : ∃ orders b', OptFix.optimizeF b level orders = .ok b' :=
  OptTotal.optimizeF_total_parse hp level

/-! ### 4. offsets -/

theorem optimizeF_reach' {b b' : Block w} {level : Nat} {orders : Orders}
    (h : OptFix.optimizeF b level orders = .ok b') : OptOffs.reach b' ≤ OptOffs.reach b :=
  OptOffs.optimizeF_reach h

theorem optimizeF_offsets' {b b' : Block w} {level : Nat} {orders : Orders}
    (h : OptFix.optimizeF b level orders = .ok b') :
    ∀ o ∈ Ir.offsets b'.insts, o.natAbs ≤ OptOffs.reach b :=
  OptOffs.optimizeF_offsets h

theorem optimizeF_keeps_bound' {R : Nat} {b b' : Block w} {level : Nat} {orders : Orders}
    (hb : ∀ p ∈ OptOffs.tagL 0 b.insts, p.1 + p.2.natAbs ≤ R)
    (h : OptFix.optimizeF b level orders = .ok b') : ∀ p ∈ OptOffs.tagL 0 b'.insts, p.1 + p.2.natAbs ≤ R :=
  OptOffs.optimizeF_keeps_bound hb h

theorem optimizedF_window_le_length' {src : List Kind} {b b' : Block w} {level : Nat} {orders : Orders}
    (hp : Ir.parse (w := w) src = .ok b) (h : OptFix.optimizeF b level orders = .ok b') :
    -(src.length : Int) ≤ (BcGen.analyze b').minAcc ∧ (BcGen.analyze b').maxAcc ≤ (src.length : Int) :=
  OptOffs.optimizedF_window_le_length hp h

theorem optimizedF_window_le_moves' {src : List Kind} {b b' : Block w} {level : Nat} {orders : Orders}
    (hp : Ir.parse (w := w) src = .ok b) (h : OptFix.optimizeF b level orders = .ok b') :
    -(Ir.moves src : Int) ≤ (BcGen.analyze b').minAcc ∧
      (BcGen.analyze b').maxAcc ≤ (Ir.moves src : Int) :=
  OptOffs.optimizedF_window_le_moves hp h

theorem optimizedF_shift_le_length' {src : List Kind} {b b' : Block w} {level : Nat} {orders : Orders}
    (hp : Ir.parse (w := w) src = .ok b) (h : OptFix.optimizeF b level orders = .ok b') :
    b'.shift.natAbs ≤ src.length :=
  OptOffs.optimizedF_shift_le_length hp h

end OptProof
end Hpbf

#print axioms Hpbf.OptProof.optimizeF_level_le_one'
#print axioms Hpbf.OptProof.optimizeF_preserves_all_levels''
#print axioms Hpbf.OptProof.optimizeF_onceOk_all_levels''
#print axioms Hpbf.OptProof.optimizeF_parse'
#print axioms Hpbf.OptProof.optimizeOnceF_analIn'
#print axioms Hpbf.OptProof.optimizeOnceF_analSound'
#print axioms Hpbf.OptProof.dse_after_roundF'
#print axioms Hpbf.OptProof.optimizeOnceF_later'
#print axioms Hpbf.OptProof.optimizeF_no_panic'
#print axioms Hpbf.OptProof.optimizeF_never_panics'
#print axioms Hpbf.OptProof.optimizeF_total'
#print axioms Hpbf.OptProof.optimizeF_canonL'
#print axioms Hpbf.OptProof.optimizeF_reach'
#print axioms Hpbf.OptProof.optimizeF_offsets'
#print axioms Hpbf.OptProof.optimizeF_keeps_bound'
#print axioms Hpbf.OptProof.optimizedF_window_le_length'
#print axioms Hpbf.OptProof.optimizedF_window_le_moves'
#print axioms Hpbf.OptProof.optimizedF_shift_le_length'
