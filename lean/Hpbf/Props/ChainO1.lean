/-
ChainO1: the end-to-end statements at optimisation LEVEL 1

    source text ──parse──▶ b ──Program::optimize(1) (oracle `orders`)──▶ b' ──IR interpreter            (§2)
                                                                        └─translate──▶ bytecode        (§1, §4)
                                                                                       └─compileX86──▶ x86-64 (§3)

against canonical Brainfuck semantics (`Bf.run`), and the headline theorem `level1_all_backends` (§5).
Property theorems only, restated as `example`s; proofs in `Hpbf/Proofs/ChainO1Gen.lean` (the composition made
generic in the IR block: `IrAgrees`, `BcAgrees`) and `Hpbf/Proofs/ChainO1.lean`.

Ingredients: `OptProof.optimize_parse_level1` (`Props/C01Rebuild.lean`: `b` and `b'` have the same observable
behaviour, and the `once` marks of `b'` are justified: `OnceOk b' env`), `translate_refines_unconditional`
(`Props/ChainTotal.lean`; needs exactly that `OnceOk`), C01, C04, C07, C11, `C03.prog_run` via `JitRange`,
`OptOffs.optimized_window_le_length` (`Props/C10Opt.lean`).

Hypotheses that REMAIN, compared with level 0 (`Props/ChainTotal.lean`):
* `Opt.optimize b 1 orders = .ok b'` – success of the optimizer model for the given oracle.  The oracle (the
  hash iteration orders the Rust happens to use) is ARBITRARY: every statement holds for every oracle for which
  the model returns a block.  Totality of the optimizer (no modelled panic, oracle of the right shape) is not
  proved.
* as at level 0: `0 < w`, balancedness, and `JitRange` for the machine-code statements (its four window fields
  follow from `bytes * length(source) < 2^31`: `jitRange_window_of_length`).
Observables: events and the kind of ending only – the optimizer drops pending operations at the end of the program
(`OptProof.tape_not_preserved`), so the final tape / pointer of the IR, bytecode and machine code are those of
`b'`, not of the canonical run.
-/
import Hpbf.Proofs.ChainO1

namespace Hpbf
namespace Chain

open Asm JitGen X86Sem X86Prog C03 BcGen C02

variable {w : Nat}

/-! ## 0. The generic composition -/

example (prog : Prog) (blk : Ir.Block w) (env : Env) : IrAgrees prog blk env ↔
    (((∀ f (s : State w), Bf.run f prog env = .done s →
        ∃ f' c, Ir.run blk false 0 f' env = .done c ∧ c.st.trace = s.trace) ∧
     (∀ f (s : State w), Bf.run f prog env = .stopped s →
        ∃ f' c, Ir.run blk false 0 f' env = .stopped c ∧ c.st.trace = s.trace)) ∧
    ((∀ f' (c : Ir.Cfg w), Ir.run blk false 0 f' env = .done c →
        ∃ (f : Nat) (s : State w), Bf.run f prog env = .done s ∧ s.trace = c.st.trace) ∧
     (∀ f' (c : Ir.Cfg w), Ir.run blk false 0 f' env = .stopped c →
        ∃ (f : Nat) (s : State w), Bf.run f prog env = .stopped s ∧ s.trace = c.st.trace)) ∧
    ((∀ f', ∃ f, C01.traceOf (Ir.run blk false 0 f' env) = C01.traceOfBf (Bf.run (w := w) f prog env)) ∧
     (∀ f, ∃ f', C01.traceOf (Ir.run blk false 0 f' env) = C01.traceOfBf (Bf.run (w := w) f prog env)))) :=
  Iff.rfl

/-- Agreement with the canonical semantics is transported along an optimizer round … -/
example (prog : Prog) (b b' : Ir.Block w) (env : Env) (h0 : IrAgrees prog b env)
    (hB : OptProof.BehEq b b' env) : IrAgrees prog b' env := irAgrees_of_behEq h0 hB
/-- … and through `translate`, for every block whose `once` marks are justified. -/
example (prog : Prog) (blk : Ir.Block w) (env : Env) (hI : IrAgrees prog blk env) (ho : OnceOk blk env)
    (numRegs : Nat) (fuse : Bool) : BcAgrees prog (translate blk numRegs fuse) env :=
  bcAgrees_of_ir hI ho numRegs fuse

section Level1
variable (hw : 0 < w) (src : List Kind) (prog : Prog) (hp : Bf.tree src = some prog)
  (b b' : Ir.Block w) (hb : Ir.parse (w := w) src = .ok b) (orders : Opt.Orders)
  (hopt : Opt.optimize b 1 orders = .ok b') (env : Env) (numRegs : Nat) (fuse : Bool)

example : OnceOk b' env := onceOk_level1 hw hb hopt env

/-! ## 2. `ir_level1` -/

example :
    ((∀ f (s : State w), Bf.run f prog env = .done s →
        ∃ f' c, Ir.run b' false 0 f' env = .done c ∧ c.st.trace = s.trace) ∧
     (∀ f (s : State w), Bf.run f prog env = .stopped s →
        ∃ f' c, Ir.run b' false 0 f' env = .stopped c ∧ c.st.trace = s.trace)) ∧
    ((∀ f' (c : Ir.Cfg w), Ir.run b' false 0 f' env = .done c →
        ∃ (f : Nat) (s : State w), Bf.run f prog env = .done s ∧ s.trace = c.st.trace) ∧
     (∀ f' (c : Ir.Cfg w), Ir.run b' false 0 f' env = .stopped c →
        ∃ (f : Nat) (s : State w), Bf.run f prog env = .stopped s ∧ s.trace = c.st.trace)) ∧
    ((∀ f', ∃ f, C01.traceOf (Ir.run b' false 0 f' env) = C01.traceOfBf (Bf.run (w := w) f prog env)) ∧
     (∀ f, ∃ f', C01.traceOf (Ir.run b' false 0 f' env) = C01.traceOfBf (Bf.run (w := w) f prog env))) :=
  ir_level1 hw hp hb hopt env

/-- The IR interpreter in limited mode at -O1. -/
example :
    (∀ (bd f' : Nat) (c : Ir.Cfg w), Ir.run b' true bd f' env = .done c →
      ∃ (f : Nat) (s : State w), Bf.run f prog env = .done s ∧ s.trace = c.st.trace) ∧
    (∀ (bd f' : Nat) (c : Ir.Cfg w), Ir.run b' true bd f' env = .stopped c →
      ∃ (f : Nat) (s : State w), Bf.run f prog env = .stopped s ∧ s.trace = c.st.trace) ∧
    (∀ bd f', ∃ f, ∀ g, f ≤ g →
      C07.traceOfIr (Ir.run b' true bd f' env) <:+ C01.traceOfBf (Bf.run (w := w) g prog env)) :=
  ir_limited_level1 hw hp hb hopt env

/-! ## 1. `bytecode_level1` -/

/-- **Release dispatch.** -/
example :
    ((∀ f (s : State w), Bf.run f prog env = .done s →
        ∃ f' c', Bc.run (translate b' numRegs fuse) false 0 f' env = .done c' ∧ c'.st.trace = s.trace) ∧
     (∀ f (s : State w), Bf.run f prog env = .stopped s →
        ∃ f' c', Bc.run (translate b' numRegs fuse) false 0 f' env = .stopped c' ∧ c'.st.trace = s.trace)) ∧
    ((∀ f' (c' : Bc.Cfg w), Bc.run (translate b' numRegs fuse) false 0 f' env = .done c' →
        ∃ (f : Nat) (s : State w), Bf.run f prog env = .done s ∧ s.trace = c'.st.trace) ∧
     (∀ f' (c' : Bc.Cfg w), Bc.run (translate b' numRegs fuse) false 0 f' env = .stopped c' →
        ∃ (f : Nat) (s : State w), Bf.run f prog env = .stopped s ∧ s.trace = c'.st.trace)) ∧
    ((∀ f', ∃ f, C07.traceOfBc (Bc.run (translate b' numRegs fuse) false 0 f' env) =
        C01.traceOfBf (Bf.run (w := w) f prog env)) ∧
     (∀ f, ∃ f', C07.traceOfBc (Bc.run (translate b' numRegs fuse) false 0 f' env) =
        C01.traceOfBf (Bf.run (w := w) f prog env))) :=
  bytecode_level1 hw hp hb hopt env numRegs fuse

/-- **Debug dispatch.** -/
example :
    ((∀ f (s : State w), Bf.run f prog env = .done s →
        ∃ f' c', runDebug (translate b' numRegs fuse) false 0 f' env = .done c' ∧ c'.st.trace = s.trace) ∧
     (∀ f (s : State w), Bf.run f prog env = .stopped s →
        ∃ f' c', runDebug (translate b' numRegs fuse) false 0 f' env = .stopped c' ∧ c'.st.trace = s.trace)) ∧
    ((∀ f' (c' : Bc.Cfg w), runDebug (translate b' numRegs fuse) false 0 f' env = .done c' →
        ∃ (f : Nat) (s : State w), Bf.run f prog env = .done s ∧ s.trace = c'.st.trace) ∧
     (∀ f' (c' : Bc.Cfg w), runDebug (translate b' numRegs fuse) false 0 f' env = .stopped c' →
        ∃ (f : Nat) (s : State w), Bf.run f prog env = .stopped s ∧ s.trace = c'.st.trace)) ∧
    ((∀ f', ∃ f, C07.traceOfBc (runDebug (translate b' numRegs fuse) false 0 f' env) =
        C01.traceOfBf (Bf.run (w := w) f prog env)) ∧
     (∀ f, ∃ f', C07.traceOfBc (runDebug (translate b' numRegs fuse) false 0 f' env) =
        C01.traceOfBf (Bf.run (w := w) f prog env))) :=
  bytecode_level1_debug hw hp hb hopt env numRegs fuse

example :
    (∀ (l : Bool) (bd f' : Nat) (c' : Bc.Cfg w), Bc.run (translate b' numRegs fuse) l bd f' env ≠ .bad c') ∧
    (∀ (f' : Nat) (c' : Bc.Cfg w), Bc.run (translate b' numRegs fuse) false 0 f' env ≠ .interrupted c') :=
  bytecode_level1_proper env numRegs fuse

/-! ## 4. C05 / C07 / C08 for the bytecode interpreter at -O1 -/

example (hdiv : C05.BfDiverges w prog env) :
    (∀ (f' : Nat) (c : Bc.Cfg w),
      Bc.run (translate b' numRegs fuse) false 0 f' env ≠ .done c ∧
      Bc.run (translate b' numRegs fuse) false 0 f' env ≠ .stopped c) ∧
    (∀ (bd f' : Nat) (c : Bc.Cfg w),
      Bc.run (translate b' numRegs fuse) true bd f' env ≠ .done c ∧
      Bc.run (translate b' numRegs fuse) true bd f' env ≠ .stopped c) :=
  bc_never_returns_level1 hw hp hb hopt env numRegs fuse hdiv

example (hdiv : C05.BfDiverges w prog env) :
    ∀ f', ∃ c : Bc.Cfg w, Bc.run (translate b' numRegs fuse) false 0 f' env = .outOfFuel c :=
  bc_runs_forever_level1 hw hp hb hopt env numRegs fuse hdiv

example (hdiv : C05.BfDiverges w prog env) :
    ∀ bd, ∃ f' c, Bc.run (translate b' numRegs fuse) true bd f' env = .interrupted c :=
  bc_limited_interrupted_level1 hw hp hb hopt env numRegs fuse hdiv

example (hdiv : C05.BfDiverges w prog env) :
    (∀ f, ∃ f' c c', Bf.run (w := w) f prog env = .outOfFuel c ∧
      Bc.run (translate b' numRegs fuse) false 0 f' env = .outOfFuel c' ∧ c'.st.trace = c.st.trace) ∧
    (∀ f', ∃ f c c', Bc.run (translate b' numRegs fuse) false 0 f' env = .outOfFuel c' ∧
      Bf.run (w := w) f prog env = .outOfFuel c ∧ c'.st.trace = c.st.trace) :=
  bc_divergent_output_level1 hw hp hb hopt env numRegs fuse hdiv

example :
    (∀ (bd f' : Nat) (c : Bc.Cfg w), Bc.run (translate b' numRegs fuse) true bd f' env = .done c →
      ∃ (f : Nat) (s : State w), Bf.run f prog env = .done s ∧ s.trace = c.st.trace) ∧
    (∀ (bd f' : Nat) (c : Bc.Cfg w), Bc.run (translate b' numRegs fuse) true bd f' env = .stopped c →
      ∃ (f : Nat) (s : State w), Bf.run f prog env = .stopped s ∧ s.trace = c.st.trace) :=
  bc_limited_finished_level1 hw hp hb hopt env numRegs fuse

example : ∀ bd f', ∃ f, ∀ g, f ≤ g →
    C07.traceOfBc (Bc.run (translate b' numRegs fuse) true bd f' env) <:+
      C01.traceOfBf (Bf.run (w := w) g prog env) :=
  bc_limited_prefix_level1 hw hp hb hopt env numRegs fuse

example :
    (∀ (f : Nat) (s : State w), Bf.run f prog env = .done s →
      ∃ g, ∀ bd, g ≤ bd →
        ∃ f' c, Bc.run (translate b' numRegs fuse) true bd f' env = .done c ∧ c.st.trace = s.trace) ∧
    (∀ (f : Nat) (s : State w), Bf.run f prog env = .stopped s →
      ∃ g, ∀ bd, g ≤ bd →
        ∃ f' c, Bc.run (translate b' numRegs fuse) true bd f' env = .stopped c ∧ c.st.trace = s.trace) :=
  bc_limited_enough_level1 hw hp hb hopt env numRegs fuse

example : ∀ (f : Nat) (s : State w), Bf.run f prog env = .stopped s →
    ∃ f' c, (∀ k, Bc.run (translate b' numRegs fuse) false 0 (f' + k) env = .stopped c) ∧
      c.st.trace = s.trace :=
  bc_stops_like_canonical_level1 hw hp hb hopt env numRegs fuse

example : ∀ (l : Bool) (bd f' : Nat) (c : Bc.Cfg w),
    Bc.run (translate b' numRegs fuse) l bd f' env = .stopped c → (l = false → bd = 0) →
    ∃ (f : Nat) (s : State w), Bf.run f prog env = .stopped s ∧ s.trace = c.st.trace :=
  bc_stops_only_like_canonical_level1 hw hp hb hopt env numRegs fuse

/-! ## 3. `jit_level1_*` (`JitRange` as in `Props/ChainTotal.lean` §3) -/

variable (sz : Size) (safe : Bool) (cfg : X86Prog.Cfg) (buf0 rsp0 ra : BitVec 64)

example (R : JitRange sz (translate b' 11 false) false safe cfg buf0 rsp0 ra 0 env) :
    let p := translate b' 11 false
    let s0 : PState w := initState cfg buf0 rsp0 ra p.minAcc p.maxAcc 0 env
    (∀ f (s : State w), Bf.run f prog env = .done s →
      ∃ n s', X86Prog.run cfg n s0 = .ret s' ∧ s'.regs.rax = 1 ∧ s'.trace = s.trace) ∧
    (∀ f (s : State w), Bf.run f prog env = .stopped s →
      ∃ n s', X86Prog.run cfg n s0 = .ret s' ∧ s'.regs.rax = 0 ∧ s'.trace = s.trace) :=
  jit_level1_forward hw hp hb hopt env R

example (R : JitRange sz (translate b' 11 false) false safe cfg buf0 rsp0 ra 0 env) :
    let p := translate b' 11 false
    let s0 : PState w := initState cfg buf0 rsp0 ra p.minAcc p.maxAcc 0 env
    (∀ f (s : State w), Bf.run f prog env = .done s →
      ∀ n s', X86Prog.run cfg n s0 = .ret s' → s'.regs.rax = 1 ∧ s'.trace = s.trace) ∧
    (∀ f (s : State w), Bf.run f prog env = .stopped s →
      ∀ n s', X86Prog.run cfg n s0 = .ret s' → s'.regs.rax = 0 ∧ s'.trace = s.trace) :=
  jit_level1_unique hw hp hb hopt env R

example (R : JitRange sz (translate b' 11 false) false safe cfg buf0 rsp0 ra 0 env) :
    let p := translate b' 11 false
    let s0 : PState w := initState cfg buf0 rsp0 ra p.minAcc p.maxAcc 0 env
    ∀ f, ∃ n s', (steps cfg n s0 = some s' ∨ X86Prog.run cfg n s0 = .ret s') ∧
      s'.trace = C01.traceOfBf (Bf.run (w := w) f prog env) :=
  jit_level1_prefix hw hp hb hopt env R

example (R : JitRange sz (translate b' 11 false) false safe cfg buf0 rsp0 ra 0 env)
    (hdiv : C05.BfDiverges w prog env) :
    let p := translate b' 11 false
    let s0 : PState w := initState cfg buf0 rsp0 ra p.minAcc p.maxAcc 0 env
    ∀ f, ∃ n s', steps cfg n s0 = some s' ∧ s'.trace = C01.traceOfBf (Bf.run (w := w) f prog env) :=
  jit_level1_divergent hw hp hb hopt env R hdiv

example (bd : Nat) (R : JitRange sz (translate b' 11 false) true safe cfg buf0 rsp0 ra bd env) :
    let p := translate b' 11 false
    let s0 : PState w := initState cfg buf0 rsp0 ra p.minAcc p.maxAcc bd env
    ∃ n s', X86Prog.run cfg n s0 = .ret s' ∧
      (∀ n2 s2, X86Prog.run cfg n2 s0 = .ret s2 → s2 = s') ∧
      (s'.regs.rax = 1 ∨ s'.regs.rax = 0) ∧
      (s'.regs.rax = 1 → ∃ (f : Nat) (s : State w), Bf.run f prog env = .done s ∧ s.trace = s'.trace) ∧
      (∃ f, ∀ g, f ≤ g → s'.trace <:+ C01.traceOfBf (Bf.run (w := w) g prog env)) :=
  jit_level1_limited hw hp hb hopt env R

example :
    let p := translate b' 11 false
    (∀ f (s : State w), Bf.run f prog env = .done s → ∃ g, ∀ bd, g ≤ bd →
      JitRange sz p true safe cfg buf0 rsp0 ra bd env →
      ∃ n s', X86Prog.run cfg n (initState (w := w) cfg buf0 rsp0 ra p.minAcc p.maxAcc bd env) = .ret s' ∧
        s'.regs.rax = 1 ∧ s'.trace = s.trace) ∧
    (∀ f (s : State w), Bf.run f prog env = .stopped s → ∃ g, ∀ bd, g ≤ bd →
      JitRange sz p true safe cfg buf0 rsp0 ra bd env →
      ∃ n s', X86Prog.run cfg n (initState (w := w) cfg buf0 rsp0 ra p.minAcc p.maxAcc bd env) = .ret s' ∧
        s'.regs.rax = 0 ∧ s'.trace = s.trace) :=
  jit_level1_limited_enough hw hp hb hopt env

/-- The window part of `JitRange` from the length of the text (any level, any oracle). -/
example (level : Nat) (hopt' : Opt.optimize b level orders = .ok b')
    (hlen : (sz.bytes : Int) * src.length < 2147483648) :
    let p := translate b' numRegs fuse
    (-2147483648 < p.minAcc ∧ p.maxAcc < 2147483648) ∧ DispOk sz p.minAcc ∧ DispOk sz p.maxAcc ∧
    DispOk sz (-p.minAcc) ∧ DispOk sz (-p.maxAcc) :=
  jitRange_window_of_length hb hopt' numRegs fuse sz hlen
example (level : Nat) (hopt' : Opt.optimize b level orders = .ok b') :
    -(src.length : Int) ≤ (translate b' numRegs fuse).minAcc ∧
    (translate b' numRegs fuse).maxAcc ≤ (src.length : Int) :=
  translate_window_optimized hb hopt' numRegs fuse

end Level1

/-! ## 5. `level1_all_backends` (docstring at the theorem, `Proofs/ChainO1.lean`) -/

example (hw : 0 < w) (code : Array Kind) (prog : Prog) (hp : Bf.tree code.toList = some prog)
    (orders : Opt.Orders) (b' : Ir.Block w) (hopt : Opt.optimize (irOf w code.toList) 1 orders = .ok b')
    (numRegs : Nat) (fuse : Bool) (env : Env) :
    let canon : Nat → Fin := fun f => finBf (Bf.run (w := w) f prog env)
    let p : Bc.Program w := translate b' numRegs fuse
    let pj : Bc.Program w := translate b' 11 false
    SameResults canon (fun f => finInplace (Inplace.run (w := w) code false 0 f env)) ∧
    SameResults canon (fun f => finIr (Ir.run b' false 0 f env)) ∧
    SameResults canon (fun f => finBc (Bc.run p false 0 f env)) ∧
    SameResults canon (fun f => finBc (C02.runDebug p false 0 f env)) ∧
    (∀ (sz : Size) (safe : Bool) (cfg : X86Prog.Cfg) (buf0 rsp0 ra : BitVec 64),
      JitRange sz pj false safe cfg buf0 rsp0 ra 0 env →
      ∀ r, (∃ f, canon f = some r) →
        ∃ n, finX86 (X86Prog.run cfg n (initState (w := w) cfg buf0 rsp0 ra pj.minAcc pj.maxAcc 0 env))
          = some r) ∧
    (∀ (sz : Size) (safe : Bool) (cfg : X86Prog.Cfg) (buf0 rsp0 ra : BitVec 64) (bd : Nat),
      JitRange sz pj true safe cfg buf0 rsp0 ra bd env →
      ∃ n r, finX86 (X86Prog.run cfg n (initState (w := w) cfg buf0 rsp0 ra pj.minAcc pj.maxAcc bd env))
          = some r ∧
        (r.1 = true → ∃ f, canon f = some r) ∧
        ∃ f, ∀ g, f ≤ g → r.2 <:+ C01.traceOfBf (Bf.run (w := w) g prog env)) :=
  level1_all_backends hw code prog hp orders b' hopt numRegs fuse env

/-! ## 6. Non-vacuity (kernel evaluation): `,[->++<]>.` – the loop becomes `x1 := 2 * x0` -/

/-- `,[->++<]>.` -/
def o1Code : Array Kind := #[.inp, .open, .dec, .right, .inc, .inc, .left, .close, .right, .out]
def o1Prog : Prog :=
  .cmd .inp (.loop (.cmd .dec (.cmd .right (.cmd .inc (.cmd .inc (.cmd .left .nil))))) (.cmd .right (.cmd .out .nil)))
def o1Env : Env := { input := some [.byte 65, .byte 66, .eof], sink := true, outOk := none }
/-- The bytecode the JIT compiles at -O1. -/
def o1Pj : Bc.Program 8 := translate OptProof.exMul' 11 false
def o1CodeX : List X86 := (compileX86 8 o1Pj false false 0x7f0000001000 0x7f0000002000 0x7f0000003000).getD []

set_option maxRecDepth 100000

theorem o1_tree : Bf.tree o1Code.toList = some o1Prog := by decide
theorem o1_parse : irOf 8 o1Code.toList = OptProof.exMul :=
  irOf_eq_of_ok (OptProof.parse_of_check (by decide +kernel))
/-- The optimizer model (empty oracle: no hash iteration is consulted) returns `input 0; x1 := 2*x0; output 1`. -/
theorem o1_opt : Opt.optimize (irOf 8 o1Code.toList) 1 [] = .ok OptProof.exMul' := by
  rw [o1_parse]; exact OptProof.optimize_of_check (by decide +kernel)

/-- Level 0 keeps the loop, level 1 has no branch left. -/
example : (translate OptProof.exMul 4 true).insts.size = 6 ∧
    (translate OptProof.exMul' 4 true).insts = #[.inp 0, .mul (.mem 1) (.mem 0) (.imm 2#8), .out 1] := by
  decide +kernel

/-- The canonical run needs 65 loop iterations. -/
theorem o1_canon : finBf (Bf.run (w := 8) 600 o1Prog o1Env) = some (true, [Ev.out 130, Ev.inp 65]) := by
  decide +kernel

/-- By the theorem: the IR interpreter and the bytecode interpreter (both dispatch modes) on the optimized code
produce exactly that … -/
example :
    (∃ f, finIr (Ir.run OptProof.exMul' false 0 f o1Env) = some (true, [Ev.out 130, Ev.inp 65])) ∧
    (∃ f, finBc (Bc.run (translate OptProof.exMul' 4 true) false 0 f o1Env) =
      some (true, [Ev.out 130, Ev.inp 65])) ∧
    (∃ f, finBc (C02.runDebug (translate OptProof.exMul' 4 true) false 0 f o1Env) =
      some (true, [Ev.out 130, Ev.inp 65])) := by
  have A := level1_all_backends (w := 8) (by decide) o1Code o1Prog o1_tree [] _ o1_opt 4 true o1Env
  exact ⟨(A.2.1 _).1 ⟨600, o1_canon⟩, (A.2.2.1 _).1 ⟨600, o1_canon⟩, (A.2.2.2.1 _).1 ⟨600, o1_canon⟩⟩
/-- … and by evaluation (4 steps instead of ~460). -/
example : finBc (Bc.run (translate OptProof.exMul' 4 true) false 0 4 o1Env) =
    some (true, [Ev.out 130, Ev.inp 65]) := by decide +kernel

theorem o1Pj_no_mov (i : Nat) (sh : Int) : o1Pj.insts[i]? ≠ some (Bc.Instr.mov sh) := by
  have e : o1Pj.insts = #[.inp 0, .mul (.mem 1) (.mem 0) (.imm 2#8), .out 1] := by decide +kernel
  rw [e]
  intro h
  rcases i with _|_|_|i <;> simp at h

theorem o1_exCfg_fetch (code : List X86) : (exCfg code).fetch = fetchFast (fetchTable code) := rfl
theorem o1_jitCode : jitCode o1Pj false false (exCfg o1CodeX) = o1CodeX :=
  (rfl : jitCode o1Pj false false (exCfg o1CodeX) =
    (compileX86 8 o1Pj false false 0x7f0000001000 0x7f0000002000 0x7f0000003000).getD [])

/-- `JitRange` is satisfiable for the optimized program. -/
theorem o1Range : JitRange .b8 o1Pj false false (exCfg o1CodeX) 0x560000000000 0x7ffd00000ff8 0x555500001234 0
    o1Env :=
  { width := rfl, fetch := by rw [o1_jitCode]; exact o1_exCfg_fetch _,
    small := by rw [o1_jitCode]; decide +kernel,
    addrIO := by show (0x7f0000002000 : BitVec 64) ≠ 0x7f0000003000; decide,
    addrEI := by show (0x7f0000001000 : BitVec 64) ≠ 0x7f0000002000; decide,
    addrEO := by show (0x7f0000001000 : BitVec 64) ≠ 0x7f0000003000; decide,
    win := by decide +kernel,
    dispMin := by unfold DispOk; decide +kernel, dispMax := by unfold DispOk; decide +kernel,
    dispNeg := fun h => (by cases h),
    temps := by decide +kernel,
    shift := fun i sh h => absurd h (o1Pj_no_mov i sh),
    rsp := by decide, budgetLt := by decide, lim := rfl, noOOM := fun h => by cases h }

/-- Hence the machine code compiled from the optimized program returns "finished" with the canonical events. -/
example : ∃ n, finX86 (X86Prog.run (exCfg o1CodeX) n
    (initState (w := 8) (exCfg o1CodeX) 0x560000000000 0x7ffd00000ff8 0x555500001234 o1Pj.minAcc o1Pj.maxAcc 0
      o1Env)) = some (true, [Ev.out 130, Ev.inp 65]) :=
  (level1_all_backends (w := 8) (by decide) o1Code o1Prog o1_tree [] _ o1_opt 4 true o1Env).2.2.2.2.1
    .b8 false (exCfg o1CodeX) _ _ _ o1Range _ ⟨600, o1_canon⟩

end Chain
end Hpbf

#print axioms Hpbf.Chain.irAgrees_level0
#print axioms Hpbf.Chain.irAgrees_of_behEq
#print axioms Hpbf.Chain.bcAgrees_of_ir
#print axioms Hpbf.Chain.onceOk_level1
#print axioms Hpbf.Chain.irAgrees_level1
#print axioms Hpbf.Chain.bcAgrees_level1
#print axioms Hpbf.Chain.ir_level1
#print axioms Hpbf.Chain.ir_limited_level1
#print axioms Hpbf.Chain.bytecode_level1
#print axioms Hpbf.Chain.bytecode_level1_debug
#print axioms Hpbf.Chain.bytecode_level1_proper
#print axioms Hpbf.Chain.bc_never_returns_level1
#print axioms Hpbf.Chain.bc_runs_forever_level1
#print axioms Hpbf.Chain.bc_limited_interrupted_level1
#print axioms Hpbf.Chain.bc_divergent_output_level1
#print axioms Hpbf.Chain.bc_limited_finished_level1
#print axioms Hpbf.Chain.bc_limited_prefix_level1
#print axioms Hpbf.Chain.bc_limited_enough_level1
#print axioms Hpbf.Chain.bc_stops_like_canonical_level1
#print axioms Hpbf.Chain.bc_stops_only_like_canonical_level1
#print axioms Hpbf.Chain.jit_level1_forward
#print axioms Hpbf.Chain.jit_level1_unique
#print axioms Hpbf.Chain.jit_level1_prefix
#print axioms Hpbf.Chain.jit_level1_divergent
#print axioms Hpbf.Chain.jit_level1_limited
#print axioms Hpbf.Chain.jit_level1_limited_enough
#print axioms Hpbf.Chain.translate_window_optimized
#print axioms Hpbf.Chain.jitRange_window_of_length
#print axioms Hpbf.Chain.level1_all_backends
#print axioms Hpbf.Chain.o1_opt
#print axioms Hpbf.Chain.o1_canon
#print axioms Hpbf.Chain.o1Range
