/-
C17 — tape growth failure aborts cleanly instead of corrupting memory.
-/
import Hpbf.Alloc

namespace Hpbf
namespace C17

open Alloc

variable {w : Nat}

/-- Growth is needed for the requested range. -/
def NeedsGrowth (m : Mem w) (a b : Int) : Prop := ¬ ((m.growth a b).1 = 0 ∧ (m.growth a b).2.1 = 0)

/-- With the current code a failed allocation always ends in the allocation-failure abort: no memory
state is returned, so nothing can be read or written afterwards. -/
theorem alloc_fail_aborts (m : Mem w) (a b : Int) (h : NeedsGrowth m a b) :
    makeAccessible true false m a b = .aborted := by
  unfold makeAccessible
  simp only [NeedsGrowth] at h
  simp [h]

/-- A write that needs growth aborts as well when the allocation fails; it never reports undefined
behaviour and never continues. -/
theorem write_alloc_fail_aborts (m : Mem w) (off : Int) (v : BitVec w)
    (hoob : ¬ wrapU64 (m.offset + off) < m.size) (h : NeedsGrowth m off (off + 1)) :
    write true false m off v = .aborted := by
  unfold write
  simp [hoob, alloc_fail_aborts m off (off + 1) h]

/-- The allocator is not consulted when the range is already accessible. -/
theorem no_growth_no_alloc (fixed allocOk : Bool) (m : Mem w) (a b : Int) (h : ¬ NeedsGrowth m a b) :
    makeAccessible fixed allocOk m a b = .ok m := by
  unfold makeAccessible
  simp only [NeedsGrowth, Classical.not_not] at h
  simp [h]

/-- When the allocation succeeds the fallible version is the ordinary `Mem.makeAccessible`. -/
theorem alloc_ok_eq (fixed : Bool) (m : Mem w) (a b : Int) :
    makeAccessible fixed true m a b = .ok (m.makeAccessible a b) := by
  unfold makeAccessible Mem.makeAccessible
  by_cases h : (m.growth a b).1 = 0 ∧ (m.growth a b).2.1 = 0
  · simp [h]
  · simp [h]

/-- The original code (before the repair): a failed growth of a non-empty tape copies the old contents
through a null-derived pointer. Witness: an 8-bit tape of one cell, growing to the right. -/
def isUb : Outcome w → Bool | .ub => true | _ => false
def isAborted : Outcome w → Bool | .aborted => true | _ => false

theorem original_code_ub :
    isUb (makeAccessible (w := 8) false false (Mem.new.write 0 1#8) 1 2) = true := by decide

/-- …whereas the current code aborts on the same request. -/
theorem repaired_code_aborts :
    isAborted (makeAccessible (w := 8) true false (Mem.new.write 0 1#8) 1 2) = true := by decide

/-- Non-vacuity: the witness state indeed needs growth. -/
example : NeedsGrowth (w := 8) (Mem.new.write 0 1#8) 1 2 := by unfold NeedsGrowth; decide

end C17
end Hpbf

#print axioms Hpbf.C17.alloc_fail_aborts
#print axioms Hpbf.C17.write_alloc_fail_aborts
#print axioms Hpbf.C17.no_growth_no_alloc
#print axioms Hpbf.C17.alloc_ok_eq
#print axioms Hpbf.C17.original_code_ub
#print axioms Hpbf.C17.repaired_code_aborts
