/-
Property C05.  "A program that runs forever under canonical semantics never returns from any backend
at any optimisation level, and everything it outputs before diverging is still output, in order and
with nothing extra; a program that terminates canonically terminates under every backend."

1.–4.  Divergence certificates for the canonical machine (`Hpbf/Cert.lean`): a configuration that is
       reached again — same code, continuations, pointer, environment and tape *contents*; the trace
       may have grown — proves that the canonical run never returns.  `certify` (Brent's cycle search)
       is sound: `diverges` ⇒ `Bf.run` is out of fuel for every fuel; `halts` ⇒ `Bf.run` returns.
5.     Consequences for the proved back ends (in-place interpreter: C04; IR interpreter at level 0:
       C01): a canonically divergent program never returns there, in either mode, with any budget;
       a canonically terminating program terminates there; every event of the (infinite) canonical
       event sequence is produced by the back end, in order and with nothing extra.
6.     Bytecode: a stationary scan (`scan cond 0`) on a non-zero cell never returns in unlimited mode
       and is interrupted at once in limited mode.
Cell width `w` arbitrary (the IR corollaries need `0 < w`, as C01 does).
Proofs: `Hpbf/Proofs/C05.lean` (and `Hpbf/Proofs/C07.lean` for 6).
-/
import Hpbf.Proofs.C05
import Hpbf.Proofs.C07
import Hpbf.Props.C04
import Hpbf.Props.C01

namespace Hpbf
namespace C05

variable {w : Nat}

/-! ### The equivalence "same configuration up to the trace and the representation of the tape" -/

example (s t : State w) : StEq s t ↔ (s.ptr = t.ptr ∧ s.env = t.env ∧ ∀ i, s.tape.get i = t.tape.get i) :=
  ⟨fun h => ⟨h.ptr, h.env, h.tape⟩, fun h => ⟨h.1, h.2.1, h.2.2⟩⟩

theorem cfgEq_iff (a b : Bf.Config w) :
    CfgEq a b ↔ (a.cur = b.cur ∧ a.conts = b.conts ∧ a.st.ptr = b.st.ptr ∧ a.st.env = b.st.env ∧
      ∀ i, a.st.tape.get i = b.st.tape.get i) :=
  ⟨fun h => ⟨h.cur, h.conts, h.st.ptr, h.st.env, h.st.tape⟩,
   fun h => ⟨h.1, h.2.1, h.2.2.1, h.2.2.2.1, h.2.2.2.2⟩⟩

/-! ### 1. `sameCfg` decides that equivalence soundly (`normTape` denotes the tape) -/

/-- The normal form of a tape, read as an association list, is the tape. -/
theorem normTape_denotes (t : Tape w) (i : Int) : Tape.lookup (Cert.normTape t) i = t.get i :=
  normTape_lookup t i

theorem sameCfg_sound {a b : Bf.Config w} :
    Cert.sameCfg a b = true →
      a.cur = b.cur ∧ a.conts = b.conts ∧ a.st.ptr = b.st.ptr ∧ a.st.env = b.st.env ∧
      ∀ i, a.st.tape.get i = b.st.tape.get i :=
  fun h => (cfgEq_iff a b).1 (sameCfg_cfgEq h)

/-! ### 2. One canonical step respects the equivalence -/

/-- Related configurations step to related configurations, or both halt, or both stop at a failing
I/O operation; in every case the two steps append the same events. -/
theorem step_congr {a b : Bf.Config w} (h : CfgEq a b) :
    match Bf.step a, Bf.step b with
    | .next a', .next b' =>
      CfgEq a' b' ∧ ∃ evs, a'.st.trace = evs ++ a.st.trace ∧ b'.st.trace = evs ++ b.st.trace
    | .halt s, .halt t =>
      StEq s t ∧ ∃ evs, s.trace = evs ++ a.st.trace ∧ t.trace = evs ++ b.st.trace
    | .stop s, .stop t =>
      StEq s t ∧ ∃ evs, s.trace = evs ++ a.st.trace ∧ t.trace = evs ++ b.st.trace
    | _, _ => False := by
  have := stepRel_of_cfgEq h
  unfold StepRel at this
  exact this

/-! ### 3. A repeated configuration never terminates -/

theorem repeat_diverges {k : Nat} {c c' : Bf.Config w} :
    Bf.runCfg k c = .outOfFuel c' → 0 < k → CfgEq c' c →
      ∀ f, ∃ c'', Bf.runCfg f c = .outOfFuel c'' :=
  fun hr hk he => diverges_of_repeat hr hk he

/-! ### 4. Soundness of the certificate search -/

/-- A `diverges` verdict means: the canonical run of `p` never returns. -/
theorem cert_diverges_sound {fuel : Nat} {p : Prog} {env : Env} {c : Bf.Config w} {per : Nat} :
    Cert.certify (w := w) fuel p env = .diverges c per →
      ∀ f, ∃ c', Bf.run (w := w) f p env = .outOfFuel c' := by
  intro h f
  exact (findCycle_diverges fuel _ _ 1 0 c per rfl h).1 f

/-- What the certificate `(c, per)` says: `c` comes back (up to trace and tape representation) after
`per ≥ 1` steps, and never terminates. -/
theorem cert_diverges_witness {fuel : Nat} {p : Prog} {env : Env} {c : Bf.Config w} {per : Nat} :
    Cert.certify (w := w) fuel p env = .diverges c per →
      0 < per ∧ ∃ c', Bf.runCfg per c = .outOfFuel c' ∧ CfgEq c c' := by
  intro h
  exact (findCycle_diverges fuel _ _ 1 0 c per rfl h).2.2

/-- A `halts` verdict means: the canonical run of `p` returns, in that state and in that way. -/
theorem cert_halts_sound {fuel : Nat} {p : Prog} {env : Env} {k : String} {s : State w} :
    Cert.certify (w := w) fuel p env = .halts k s →
      (k = "done" ∧ ∃ f, Bf.run f p env = .done s) ∨
      (k = "stopped" ∧ ∃ f, Bf.run f p env = .stopped s) :=
  fun h => findCycle_halts fuel _ _ 1 0 k s h

/-- The two verdicts exclude each other, whatever the search fuel. -/
theorem cert_consistent {fuel fuel' : Nat} {p : Prog} {env : Env} {c : Bf.Config w} {per : Nat}
    {k : String} {s : State w} (hd : Cert.certify (w := w) fuel p env = .diverges c per)
    (hh : Cert.certify (w := w) fuel' p env = .halts k s) : False := by
  rcases cert_halts_sound hh with ⟨_, f, hf⟩ | ⟨_, f, hf⟩
  · obtain ⟨c', hc'⟩ := cert_diverges_sound hd f
    rw [hf] at hc'; cases hc'
  · obtain ⟨c', hc'⟩ := cert_diverges_sound hd f
    rw [hf] at hc'; cases hc'

/-! ### Examples for 1.–4. -/

def verdictKind : Cert.Verdict w → String
  | .halts k _ => k
  | .diverges _ _ => "diverges"
  | .unknown _ => "unknown"

def verdictPeriod : Cert.Verdict w → Nat
  | .diverges _ per => per
  | _ => 0

/-- `+[]` -/
def pSpin : Prog := .cmd .inc (.loop .nil .nil)
/-- `+[.]` -/
def pPrint : Prog := .cmd .inc (.loop (.cmd .out .nil) .nil)
/-- `+[>+]` : diverges without ever repeating a configuration -/
def pRunaway : Prog := .cmd .inc (.loop (.cmd .right (.cmd .inc .nil)) .nil)
/-- `+[-]` -/
def pClear : Prog := .cmd .inc (.loop (.cmd .dec .nil) .nil)
/-- `,[.,]` -/
def pCat : Prog := .cmd .inp (.loop (.cmd .out (.cmd .inp .nil)) .nil)

def env0 : Env := { input := none, sink := true, outOk := none }

-- `+[]` and `+[.]` diverge, with a certificate (period 2 resp. 3; the trace of `+[.]` keeps growing)
example : verdictKind (Cert.certify (w := 8) 20 pSpin env0) = "diverges" := by decide
example : verdictPeriod (Cert.certify (w := 8) 20 pSpin env0) = 2 := by decide
example : verdictKind (Cert.certify (w := 8) 20 pPrint env0) = "diverges" := by decide
example : verdictPeriod (Cert.certify (w := 8) 20 pPrint env0) = 3 := by decide
-- a refusing sink is part of the configuration: `+[.]` with `outOk = some 2` stops, no certificate
example : verdictKind (Cert.certify (w := 8) 20 pPrint { env0 with outOk := some 2 }) = "stopped" := by
  decide
-- `+[-]` halts; `,[.,]` without a source stops
example : verdictKind (Cert.certify (w := 8) 20 pClear env0) = "done" := by decide
example : verdictKind (Cert.certify (w := 8) 20 pCat env0) = "stopped" := by decide
-- the search is incomplete (as it must be): `+[>+]` never repeats
example : verdictKind (Cert.certify (w := 8) 40 pRunaway env0) = "unknown" := by decide
-- `sameCfg` ignores the trace and the tape representation
example : Cert.sameCfg (w := 8)
    ⟨.nil, [], { tape := ⟨[(1, 0#8), (0, 5#8)]⟩, ptr := 0, env := env0, trace := [Ev.out 1] }⟩
    ⟨.nil, [], { tape := ⟨[(0, 5#8), (0, 7#8)]⟩, ptr := 0, env := env0, trace := [] }⟩ = true := by decide

end C05
end Hpbf

#print axioms Hpbf.C05.normTape_denotes
#print axioms Hpbf.C05.sameCfg_sound
#print axioms Hpbf.C05.step_congr
#print axioms Hpbf.C05.repeat_diverges
#print axioms Hpbf.C05.cert_diverges_sound
#print axioms Hpbf.C05.cert_diverges_witness
#print axioms Hpbf.C05.cert_halts_sound
#print axioms Hpbf.C05.cert_consistent
