/-
Property C05.  "A program that runs forever under canonical semantics never returns from any backend
at any optimisation level, and everything it outputs before diverging is still output, in order and
with nothing extra; a program that terminates canonically terminates under every backend."

1.–4.  Divergence certificates for the canonical machine (`Hpbf/Cert.lean`): a configuration that is
       reached again — same code, continuations, pointer, environment and tape *contents*; the trace
       may have grown — proves that the canonical run never returns.  `certify` (Brent's cycle search)
       is sound: `diverges` ⇒ `Bf.run` is out of fuel for every fuel; `halts` ⇒ `Bf.run` returns.
5.     Consequences for the proved back ends (in-place interpreter: C04; IR interpreter at level 0:
       C01): a canonically divergent program never returns there, in either mode, with any budget;
       a canonically terminating program terminates there; every event of the (infinite) canonical
       event sequence is produced by the back end, in order and with nothing extra.
6.     Bytecode: a stationary scan (`scan cond 0`) on a non-zero cell never returns in unlimited mode
       and is interrupted at once in limited mode.
Cell width `w` arbitrary (the IR corollaries need `0 < w`, as C01 does).
Proofs: `Hpbf/Proofs/C05.lean` (and `Hpbf/Proofs/C07.lean` for 6).
-/
import Hpbf.Proofs.C05
import Hpbf.Props.C07
import Hpbf.Props.C04
import Hpbf.Props.C01

namespace Hpbf
namespace C05

variable {w : Nat}

/-! ### The equivalence "same configuration up to the trace and the representation of the tape" -/

example (s t : State w) : StEq s t ↔ (s.ptr = t.ptr ∧ s.env = t.env ∧ ∀ i, s.tape.get i = t.tape.get i) :=
  ⟨fun h => ⟨h.ptr, h.env, h.tape⟩, fun h => ⟨h.1, h.2.1, h.2.2⟩⟩

theorem cfgEq_iff (a b : Bf.Config w) :
    CfgEq a b ↔ (a.cur = b.cur ∧ a.conts = b.conts ∧ a.st.ptr = b.st.ptr ∧ a.st.env = b.st.env ∧
      ∀ i, a.st.tape.get i = b.st.tape.get i) :=
  ⟨fun h => ⟨h.cur, h.conts, h.st.ptr, h.st.env, h.st.tape⟩,
   fun h => ⟨h.1, h.2.1, h.2.2.1, h.2.2.2.1, h.2.2.2.2⟩⟩

/-! ### 1. `sameCfg` decides that equivalence soundly (`normTape` denotes the tape) -/

/-- The normal form of a tape, read as an association list, is the tape. -/
theorem normTape_denotes (t : Tape w) (i : Int) : Tape.lookup (Cert.normTape t) i = t.get i :=
  normTape_lookup t i

theorem sameCfg_sound {a b : Bf.Config w} :
    Cert.sameCfg a b = true →
      a.cur = b.cur ∧ a.conts = b.conts ∧ a.st.ptr = b.st.ptr ∧ a.st.env = b.st.env ∧
      ∀ i, a.st.tape.get i = b.st.tape.get i :=
  fun h => (cfgEq_iff a b).1 (sameCfg_cfgEq h)

/-! ### 2. One canonical step respects the equivalence -/

/-- Related configurations step to related configurations, or both halt, or both stop at a failing
I/O operation; in every case the two steps append the same events. -/
theorem step_congr {a b : Bf.Config w} (h : CfgEq a b) :
    match Bf.step a, Bf.step b with
    | .next a', .next b' =>
      CfgEq a' b' ∧ ∃ evs, a'.st.trace = evs ++ a.st.trace ∧ b'.st.trace = evs ++ b.st.trace
    | .halt s, .halt t =>
      StEq s t ∧ ∃ evs, s.trace = evs ++ a.st.trace ∧ t.trace = evs ++ b.st.trace
    | .stop s, .stop t =>
      StEq s t ∧ ∃ evs, s.trace = evs ++ a.st.trace ∧ t.trace = evs ++ b.st.trace
    | _, _ => False := by
  have := stepRel_of_cfgEq h
  unfold StepRel at this
  exact this

/-! ### 3. A repeated configuration never terminates -/

theorem repeat_diverges {k : Nat} {c c' : Bf.Config w} :
    Bf.runCfg k c = .outOfFuel c' → 0 < k → CfgEq c' c →
      ∀ f, ∃ c'', Bf.runCfg f c = .outOfFuel c'' :=
  fun hr hk he => diverges_of_repeat hr hk he

/-! ### 4. Soundness of the certificate search -/

/-- A `diverges` verdict means: the canonical run of `p` never returns. -/
theorem cert_diverges_sound {fuel : Nat} {p : Prog} {env : Env} {c : Bf.Config w} {per : Nat} :
    Cert.certify (w := w) fuel p env = .diverges c per →
      ∀ f, ∃ c', Bf.run (w := w) f p env = .outOfFuel c' := by
  intro h f
  exact (findCycle_diverges fuel _ _ 1 0 c per rfl h).1 f

/-- What the certificate `(c, per)` says: `c` comes back (up to trace and tape representation) after
`per ≥ 1` steps, and never terminates. -/
theorem cert_diverges_witness {fuel : Nat} {p : Prog} {env : Env} {c : Bf.Config w} {per : Nat} :
    Cert.certify (w := w) fuel p env = .diverges c per →
      0 < per ∧ ∃ c', Bf.runCfg per c = .outOfFuel c' ∧ CfgEq c c' := by
  intro h
  exact (findCycle_diverges fuel _ _ 1 0 c per rfl h).2.2

/-- A `halts` verdict means: the canonical run of `p` returns, in that state and in that way. -/
theorem cert_halts_sound {fuel : Nat} {p : Prog} {env : Env} {k : String} {s : State w} :
    Cert.certify (w := w) fuel p env = .halts k s →
      (k = "done" ∧ ∃ f, Bf.run f p env = .done s) ∨
      (k = "stopped" ∧ ∃ f, Bf.run f p env = .stopped s) :=
  fun h => findCycle_halts fuel _ _ 1 0 k s h

/-- The two verdicts exclude each other, whatever the search fuel. -/
theorem cert_consistent {fuel fuel' : Nat} {p : Prog} {env : Env} {c : Bf.Config w} {per : Nat}
    {k : String} {s : State w} (hd : Cert.certify (w := w) fuel p env = .diverges c per)
    (hh : Cert.certify (w := w) fuel' p env = .halts k s) : False := by
  rcases cert_halts_sound hh with ⟨_, f, hf⟩ | ⟨_, f, hf⟩
  · obtain ⟨c', hc'⟩ := cert_diverges_sound hd f
    rw [hf] at hc'; cases hc'
  · obtain ⟨c', hc'⟩ := cert_diverges_sound hd f
    rw [hf] at hc'; cases hc'

/-! ### Examples for 1.–4. -/

def verdictKind : Cert.Verdict w → String
  | .halts k _ => k
  | .diverges _ _ => "diverges"
  | .unknown _ => "unknown"

def verdictPeriod : Cert.Verdict w → Nat
  | .diverges _ per => per
  | _ => 0

/-- `+[]` -/
def pSpin : Prog := .cmd .inc (.loop .nil .nil)
/-- `+[.]` -/
def pPrint : Prog := .cmd .inc (.loop (.cmd .out .nil) .nil)
/-- `+[>+]` : diverges without ever repeating a configuration -/
def pRunaway : Prog := .cmd .inc (.loop (.cmd .right (.cmd .inc .nil)) .nil)
/-- `+[-]` -/
def pClear : Prog := .cmd .inc (.loop (.cmd .dec .nil) .nil)
/-- `,[.,]` -/
def pCat : Prog := .cmd .inp (.loop (.cmd .out (.cmd .inp .nil)) .nil)

def env0 : Env := { input := none, sink := true, outOk := none }

-- `+[]` and `+[.]` diverge, with a certificate (period 2 resp. 3; the trace of `+[.]` keeps growing)
example : verdictKind (Cert.certify (w := 8) 20 pSpin env0) = "diverges" := by decide
example : verdictPeriod (Cert.certify (w := 8) 20 pSpin env0) = 2 := by decide
example : verdictKind (Cert.certify (w := 8) 20 pPrint env0) = "diverges" := by decide
example : verdictPeriod (Cert.certify (w := 8) 20 pPrint env0) = 3 := by decide
-- a refusing sink is part of the configuration: `+[.]` with `outOk = some 2` stops, no certificate
example : verdictKind (Cert.certify (w := 8) 20 pPrint { env0 with outOk := some 2 }) = "stopped" := by
  decide
-- `+[-]` halts; `,[.,]` without a source stops
example : verdictKind (Cert.certify (w := 8) 20 pClear env0) = "done" := by decide
example : verdictKind (Cert.certify (w := 8) 20 pCat env0) = "stopped" := by decide
-- the search is incomplete (as it must be): `+[>+]` never repeats
example : verdictKind (Cert.certify (w := 8) 40 pRunaway env0) = "unknown" := by decide
-- `sameCfg` ignores the trace and the tape representation
example : Cert.sameCfg (w := 8)
    ⟨.nil, [], { tape := ⟨[(1, 0#8), (0, 5#8)]⟩, ptr := 0, env := env0, trace := [Ev.out 1] }⟩
    ⟨.nil, [], { tape := ⟨[(0, 5#8), (0, 7#8)]⟩, ptr := 0, env := env0, trace := [] }⟩ = true := by decide

/-! ### 5. Consequences for the proved back ends -/

/-- The canonical run of `p` in `env` never returns. -/
def BfDiverges (w : Nat) (p : Prog) (env : Env) : Prop :=
  ∀ f, ∃ c' : Bf.Config w, Bf.run f p env = .outOfFuel c'

theorem cert_gives_BfDiverges {fuel : Nat} {p : Prog} {env : Env} {c : Bf.Config w} {per : Nat}
    (h : Cert.certify (w := w) fuel p env = .diverges c per) : BfDiverges w p env :=
  cert_diverges_sound h

def isDiverges : Cert.Verdict w → Bool
  | .diverges _ _ => true
  | _ => false

theorem diverges_of_isDiverges {fuel : Nat} {p : Prog} {env : Env}
    (h : isDiverges (Cert.certify (w := w) fuel p env) = true) : BfDiverges w p env := by
  cases hc : Cert.certify (w := w) fuel p env with
  | diverges c per => exact cert_gives_BfDiverges hc
  | halts k s => rw [hc] at h; cases h
  | unknown c => rw [hc] at h; cases h

section Inplace
variable (code : Array Kind) (p : Prog) (h : Bf.tree code.toList = some p) (env : Env)
include h

/-- A canonically divergent program never returns from the in-place interpreter: neither mode, no
budget, no number of steps gives "finished" (at the end of the text or at a failing I/O operation). -/
theorem inplace_never_returns (hdiv : BfDiverges w p env) :
    ∀ (limited : Bool) (b f' : Nat) (c : Inplace.Cfg w),
      Inplace.run code limited b f' env ≠ .finished c ∧ Inplace.run code limited b f' env ≠ .stopped c := by
  intro limited b f' c
  constructor
  · intro hr
    have : ∃ f, Bf.run f p env = .done c.st := by
      cases limited with
      | false => exact C04.inplace_backward code p h env b f' c hr
      | true =>
        have := C04.inplace_limited (w := w) code p h env b f'
        rw [hr] at this; exact this
    obtain ⟨f, hf⟩ := this
    obtain ⟨c', hc'⟩ := hdiv f
    rw [hf] at hc'; cases hc'
  · intro hr
    have : ∃ f, Bf.run f p env = .stopped c.st := by
      cases limited with
      | false => exact C04.inplace_backward_stopped code p h env b f' c hr
      | true =>
        have := C04.inplace_limited (w := w) code p h env b f'
        rw [hr] at this; exact this
    obtain ⟨f, hf⟩ := this
    obtain ⟨c', hc'⟩ := hdiv f
    rw [hf] at hc'; cases hc'

/-- Unlimited mode: after any number of steps the in-place interpreter is still running. -/
theorem inplace_runs_forever (hdiv : BfDiverges w p env) :
    ∀ (b f' : Nat), ∃ c : Inplace.Cfg w, Inplace.run code false b f' env = .outOfFuel c := by
  intro b f'
  have hn := inplace_never_returns code p h env hdiv false b f'
  cases hr : Inplace.run (w := w) code false b f' env with
  | outOfFuel c => exact ⟨c, rfl⟩
  | finished c => exact ((hn c).1 hr).elim
  | stopped c => exact ((hn c).2 hr).elim
  | interrupted c => exact (C04.inplace_never_interrupted_unlimited code p h env b f' c hr).elim
  | notOpened pos c => exact (C04.inplace_never_notOpened code p h env false b f' pos c hr).elim

/-- Limited mode: the call comes back, and what it reports is "budget exhausted". -/
theorem inplace_limited_interrupted (hdiv : BfDiverges w p env) :
    ∀ (b f' : Nat), (b + 1) * (code.size + 2) ≤ f' →
      ∃ c : Inplace.Cfg w, Inplace.run code true b f' env = .interrupted c := by
  intro b f' hf
  have hn := inplace_never_returns code p h env hdiv true b f'
  cases hr : Inplace.run (w := w) code true b f' env with
  | outOfFuel c => exact (C04.inplace_limited_terminates code p h env b f' hf c hr).elim
  | finished c => exact ((hn c).1 hr).elim
  | stopped c => exact ((hn c).2 hr).elim
  | interrupted c => exact ⟨c, rfl⟩
  | notOpened pos c => exact (C04.inplace_never_notOpened code p h env true b f' pos c hr).elim

/-- A canonically terminating program terminates in the in-place interpreter, in the same state
(unlimited mode; for limited mode with enough budget see `C04.inplace_limited_enough`). -/
theorem inplace_terminates (b : Nat) :
    (∀ (f : Nat) (s : State w), Bf.run f p env = .done s →
      ∃ f' c, Inplace.run code false b f' env = .finished c ∧ c.st = s) ∧
    (∀ (f : Nat) (s : State w), Bf.run f p env = .stopped s →
      ∃ f' c, Inplace.run code false b f' env = .stopped c ∧ c.st = s) :=
  ⟨C04.inplace_forward code p h env b, C04.inplace_forward_stopped code p h env b⟩

/-- Everything a divergent program outputs is output by the in-place interpreter, in order and with
nothing extra: both run forever, every event sequence reached by the canonical run is reached by the
interpreter, and the interpreter reaches no other. -/
theorem inplace_divergent_output (hdiv : BfDiverges w p env) (b : Nat) :
    (∀ f, ∃ f' c c', Bf.run (w := w) f p env = .outOfFuel c ∧
      Inplace.run (w := w) code false b f' env = .outOfFuel c' ∧ c'.st.trace = c.st.trace) ∧
    (∀ f', ∃ f c c', Inplace.run (w := w) code false b f' env = .outOfFuel c' ∧
      Bf.run (w := w) f p env = .outOfFuel c ∧ c'.st.trace = c.st.trace) := by
  constructor
  · intro f
    obtain ⟨c, hc⟩ := hdiv f
    obtain ⟨f', hf'⟩ := C04.inplace_prefix_conv (w := w) code p h env b f
    obtain ⟨c', hc'⟩ := inplace_runs_forever code p h env hdiv b f'
    rw [hc, hc'] at hf'
    exact ⟨f', c, c', hc, hc', hf'.symm⟩
  · intro f'
    obtain ⟨c', hc'⟩ := inplace_runs_forever code p h env hdiv b f'
    obtain ⟨f, hf⟩ := C04.inplace_prefix (w := w) code p h env b f'
    obtain ⟨c, hc⟩ := hdiv f
    rw [hc, hc'] at hf
    exact ⟨f, c, c', hc', hc, hf⟩

/-- The same without assuming divergence (restating `C04.inplace_prefix_conv` / `inplace_prefix`):
cut off anywhere, neither machine has emitted anything the other does not emit. -/
theorem inplace_output_agrees (b : Nat) :
    (∀ f, ∃ f', C04.traceOfBf (Bf.run (w := w) f p env) =
      C04.traceOf (Inplace.run (w := w) code false b f' env)) ∧
    (∀ f', ∃ f, C04.traceOf (Inplace.run (w := w) code false b f' env) =
      C04.traceOfBf (Bf.run (w := w) f p env)) :=
  ⟨C04.inplace_prefix_conv code p h env b, C04.inplace_prefix code p h env b⟩

end Inplace

section IrLevel0
variable (hw : 0 < w) {src : List Kind} {p : Prog} (hp : Bf.tree src = some p) {blk : Ir.Block w}
  (hb : Ir.parse (w := w) src = .ok blk) (env : Env)
include hw hp hb

/-- A canonically divergent program never returns from the IR interpreter (level 0): unlimited mode,
and limited mode with any budget. -/
theorem ir_never_returns (hdiv : BfDiverges w p env) :
    (∀ (f' : Nat) (c : Ir.Cfg w),
      Ir.run blk false 0 f' env ≠ .done c ∧ Ir.run blk false 0 f' env ≠ .stopped c) ∧
    (∀ (b f' : Nat) (c : Ir.Cfg w),
      Ir.run blk true b f' env ≠ .done c ∧ Ir.run blk true b f' env ≠ .stopped c) := by
  have hunl : ∀ (f' : Nat) (c : Ir.Cfg w),
      Ir.run blk false 0 f' env ≠ .done c ∧ Ir.run blk false 0 f' env ≠ .stopped c := by
    intro f' c
    constructor
    · intro hr
      obtain ⟨f, s, hf, _⟩ := (C01.parse_backward hw hp hb env).1 f' c hr
      obtain ⟨c', hc'⟩ := hdiv f
      rw [hf] at hc'; cases hc'
    · intro hr
      obtain ⟨f, s, hf, _⟩ := (C01.parse_backward hw hp hb env).2 f' c hr
      obtain ⟨c', hc'⟩ := hdiv f
      rw [hf] at hc'; cases hc'
  refine ⟨hunl, ?_⟩
  apply C07.ir_divergent_never_finished
  intro g
  cases hr : Ir.run blk false 0 g env with
  | outOfFuel c => exact ⟨c, rfl⟩
  | done c => exact ((hunl g c).1 hr).elim
  | stopped c => exact ((hunl g c).2 hr).elim
  | interrupted c => exact (C01.parse_never_interrupted blk g env c hr).elim

/-- Unlimited mode: after any number of steps the IR interpreter is still running. -/
theorem ir_runs_forever (hdiv : BfDiverges w p env) :
    ∀ f', ∃ c : Ir.Cfg w, Ir.run blk false 0 f' env = .outOfFuel c := by
  intro f'
  have hn := (ir_never_returns hw hp hb env hdiv).1 f'
  cases hr : Ir.run blk false 0 f' env with
  | outOfFuel c => exact ⟨c, rfl⟩
  | done c => exact ((hn c).1 hr).elim
  | stopped c => exact ((hn c).2 hr).elim
  | interrupted c => exact (C01.parse_never_interrupted blk f' env c hr).elim

/-- Limited mode: the call comes back within `(b+1)·(size+1)` steps and reports "budget exhausted". -/
theorem ir_limited_interrupted (hdiv : BfDiverges w p env) :
    ∀ (b f' : Nat), (b + 1) * (C07.irSizeL blk.insts + 1) ≤ f' →
      ∃ c : Ir.Cfg w, Ir.run blk true b f' env = .interrupted c := by
  intro b f' hf
  have hn := (ir_never_returns hw hp hb env hdiv).2 b f'
  cases hr : Ir.run blk true b f' env with
  | outOfFuel c => exact (C07.ir_limited_terminates blk env b f' hf c hr).elim
  | done c => exact ((hn c).1 hr).elim
  | stopped c => exact ((hn c).2 hr).elim
  | interrupted c => exact ⟨c, rfl⟩

/-- A canonically terminating program terminates in the IR interpreter with the same events
(unlimited mode, and limited mode with any sufficiently large budget). -/
theorem ir_terminates :
    (∀ (f : Nat) (s : State w), Bf.run f p env = .done s →
      ∃ f' c, Ir.run blk false 0 f' env = .done c ∧ c.st.trace = s.trace) ∧
    (∀ (f : Nat) (s : State w), Bf.run f p env = .stopped s →
      ∃ f' c, Ir.run blk false 0 f' env = .stopped c ∧ c.st.trace = s.trace) ∧
    (∀ (f : Nat) (s : State w), Bf.run f p env = .done s →
      ∃ g, ∀ b, g ≤ b → ∃ f' c, Ir.run blk true b f' env = .done c ∧ c.st.trace = s.trace) := by
  refine ⟨(C01.parse_forward hw hp hb env).1, (C01.parse_forward hw hp hb env).2, ?_⟩
  intro f s hr
  obtain ⟨g, c, hc, ht⟩ := (C01.parse_forward hw hp hb env).1 f s hr
  refine ⟨g, fun b hgb => ?_⟩
  obtain ⟨f', c', hc', hst⟩ := C07.ir_limited_enough blk env g c hc b hgb
  exact ⟨f', c', hc', by rw [hst]; exact ht⟩

/-- Everything a divergent program outputs is output by the IR interpreter, in order and with nothing
extra. -/
theorem ir_divergent_output (hdiv : BfDiverges w p env) :
    (∀ f, ∃ f' c c', Bf.run (w := w) f p env = .outOfFuel c ∧
      Ir.run blk false 0 f' env = .outOfFuel c' ∧ c'.st.trace = c.st.trace) ∧
    (∀ f', ∃ f c c', Ir.run blk false 0 f' env = .outOfFuel c' ∧
      Bf.run (w := w) f p env = .outOfFuel c ∧ c'.st.trace = c.st.trace) := by
  constructor
  · intro f
    obtain ⟨c, hc⟩ := hdiv f
    obtain ⟨f', hf'⟩ := (C01.parse_prefix hw hp hb env).2 f
    obtain ⟨c', hc'⟩ := ir_runs_forever hw hp hb env hdiv f'
    rw [hc, hc'] at hf'
    exact ⟨f', c, c', hc, hc', hf'⟩
  · intro f'
    obtain ⟨c', hc'⟩ := ir_runs_forever hw hp hb env hdiv f'
    obtain ⟨f, hf⟩ := (C01.parse_prefix hw hp hb env).1 f'
    obtain ⟨c, hc⟩ := hdiv f
    rw [hc, hc'] at hf
    exact ⟨f, c, c', hc', hc, hf⟩

/-- The same without assuming divergence (restating `C01.parse_prefix`). -/
theorem ir_output_agrees :
    (∀ f, ∃ f', C01.traceOf (Ir.run blk false 0 f' env) = C01.traceOfBf (Bf.run (w := w) f p env)) ∧
    (∀ f', ∃ f, C01.traceOf (Ir.run blk false 0 f' env) = C01.traceOfBf (Bf.run (w := w) f p env)) :=
  ⟨(C01.parse_prefix hw hp hb env).2, (C01.parse_prefix hw hp hb env).1⟩

end IrLevel0

/-! ### 6. Bytecode: a stationary scan on a non-zero cell -/

/-- `scan cond 0` on a non-zero cell: the unlimited machine stays in this very configuration for ever
(no event, no return); the limited machine is interrupted at once, whatever the budget, with no
event added. -/
theorem stationary_scan_diverges {p : Bc.Program w} {c : Bc.Cfg w} {cond : Int}
    (hi : p.insts[c.pc]? = some (.scan cond 0)) (hz : c.st.rd cond ≠ 0#w) :
    (∀ f, ∃ c', Bc.runCfg p false f c = .outOfFuel c') ∧
    (∀ f, Bc.runCfg p false f c = .outOfFuel c) ∧
    (∀ f, Bc.runCfg p true (f + 1) c = .interrupted { c with budget := 0 }) :=
  ⟨fun f => ⟨c, C07.bc_stationary_scan_spins hi hz f⟩, C07.bc_stationary_scan_spins hi hz,
   fun f => C07.bc_run_interrupted (C07.bc_stationary_scan_step hi hz).2 f⟩

/-! ### Examples for 5. and 6. -/

/-- `+[.]` as text -/
def cPrint : Array Kind := #[.inc, .open, .out, .close]
example : Bf.tree cPrint.toList = some pPrint := by decide
example : BfDiverges 8 pPrint env0 := diverges_of_isDiverges (fuel := 20) (by decide)
-- the in-place interpreter and the IR interpreter are still running after 30 steps, having printed
example : C04.traceOf (Inplace.run (w := 8) cPrint false 0 6 env0) = [Ev.out 1, Ev.out 1] := by decide
example : C04.isInterrupted (Inplace.run (w := 8) cPrint true 2 ((2 + 1) * (4 + 2)) env0) = true := by
  decide
example : (match Ir.parse (w := 8) cPrint.toList with
    | .ok blk => C01.traceOf (Ir.run blk false 0 6 env0) | .error _ => []) = [Ev.out 1, Ev.out 1] := by
  decide
-- bytecode `+; scan 0 0`
def bcSpin : Bc.Program 8 :=
  { temps := 0, minAcc := 0, maxAcc := 0, live := #[],
    insts := #[.add (.mem 0) (.mem 0) (.imm 1#8), .scan 0 0] }
example : (match Bc.run bcSpin false 0 50 env0 with | .outOfFuel c => c.pc | _ => 99) = 1 := by decide
example : (match Bc.run bcSpin true 1000 50 env0 with | .interrupted c => c.budget | _ => 99) = 0 := by
  decide

end C05
end Hpbf

#print axioms Hpbf.C05.normTape_denotes
#print axioms Hpbf.C05.sameCfg_sound
#print axioms Hpbf.C05.step_congr
#print axioms Hpbf.C05.repeat_diverges
#print axioms Hpbf.C05.cert_diverges_sound
#print axioms Hpbf.C05.cert_diverges_witness
#print axioms Hpbf.C05.cert_halts_sound
#print axioms Hpbf.C05.cert_consistent
#print axioms Hpbf.C05.inplace_never_returns
#print axioms Hpbf.C05.inplace_runs_forever
#print axioms Hpbf.C05.inplace_limited_interrupted
#print axioms Hpbf.C05.inplace_terminates
#print axioms Hpbf.C05.inplace_divergent_output
#print axioms Hpbf.C05.inplace_output_agrees
#print axioms Hpbf.C05.ir_never_returns
#print axioms Hpbf.C05.ir_runs_forever
#print axioms Hpbf.C05.ir_limited_interrupted
#print axioms Hpbf.C05.ir_terminates
#print axioms Hpbf.C05.ir_divergent_output
#print axioms Hpbf.C05.ir_output_agrees
#print axioms Hpbf.C05.stationary_scan_diverges
