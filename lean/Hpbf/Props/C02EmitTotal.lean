/-
C02 / C13: the emission phase of the bytecode generator (`bc::CodeGen::emit_block` with global value
numbering, up to and excluding `dead_store_elim`) is TOTAL: for every IR block, at every cell width and
for both values of `fuse`, none of its modelled panic sites is reachable.

Property theorems only; lemmas in `Hpbf/Proofs/C02EmitTotal{Base,Expr,Loop,Block}.lean`.
The proof is a forward induction over `emitInsts` with the success invariant `emitTotal_Inv`:
every value number recorded in the table `values` or in `outer_accessed` is below `ranges.len()`, and
`current_start ≤ insts.len()`.

The panic sites of `BcGen.lean` lines 150–410 and how each is discharged:
* `range_extend_to:ranges-index`, `range_extend:ranges-index` – `read`/`range_extend` are only called
  with operands of a GVN expression, with results of `calcValues`, or with entries of `outer_accessed`;
  all are below `ranges.len()` (`emitTotal_rangeExtend`, `emitTotal_read`, `emitTotal_getValue`,
  `emitTotal_getExprValue`, `emitTotal_memWrite`);
* `emit_block:outer_accessed-loop-fuel` – the potential `(|outer_accessed| - i) + #stale values`
  decreases in every iteration (`emitTotal_outerLoop`), so `|outer_accessed| + |ranges| + 1` suffices;
* `emit_block:outer_accessed-index` – guarded by `i < len`; `emit_block:ranges-index` – invariant;
* `emit_block:start_instr-1-underflow` – the placeholder has just been pushed (`emitTotal_emitLoop/If`);
* `emit_block:insts-index` – the instruction list only grows during the body;
* `emit_block:sub_anal-index` – `Analysis::analyze` records one entry per loop/if (`analyze_subAnal`).
No site is reachable.
-/
import Hpbf.Proofs.C02EmitTotalBlock
import Hpbf.Props.C02Emit

namespace Hpbf
namespace C02
open BcGen C02Emit

variable {w : Nat}

/-! ### 1. Totality -/

/-- `emit_block` on a whole program never panics. -/
theorem emit_total (blk : Ir.Block w) (fuse : Bool) : ∃ s, emitState blk fuse = .ok s :=
  emitTotal_emitState blk fuse

theorem emitOnly_total (blk : Ir.Block w) (fuse : Bool) : ∃ p, emitOnly blk fuse = .ok p := by
  obtain ⟨s, hs⟩ := emit_total blk fuse
  exact ⟨_, by unfold emitOnly; rw [hs]⟩

/-- The statement left open in `Props/C02Emit.lean`. -/
theorem emit_total_full_holds : emit_total_full := fun _ blk fuse => emitOnly_total blk fuse

/-- In terms of the generator itself: the run of `emitInsts` that `translateE` starts with succeeds. -/
theorem emit_total_run (blk : Ir.Block w) (fuse : Bool) :
    ∃ s, (emitInsts fuse 0 blk.insts (analyze blk).subAnal).run ({} : St w) = .ok ((), s) := by
  obtain ⟨s, hs⟩ := emit_total blk fuse
  unfold emitState at hs
  cases hr : (emitInsts fuse 0 blk.insts (analyze blk).subAnal).run ({} : St w) with
  | error e => rw [hr] at hs; cases hs
  | ok p => exact ⟨p.2, rfl⟩

/-- The invariant holds in the state handed to `dead_store_elim`: every value number in `values` and
`outer_accessed` exists, and `current_start ≤ insts.len()`. -/
theorem emit_total_inv (blk : Ir.Block w) (fuse : Bool) :
    ∃ s, emitState blk fuse = .ok s ∧ (∀ p ∈ s.values, p.2 < s.ranges.size) ∧
      (∀ (i x : Nat), s.outerAccessed[i]? = some x → x < s.ranges.size) ∧ s.currentStart ≤ s.insts.size := by
  obtain ⟨s', h, hi, _⟩ := emitTotal_emitInsts fuse _ blk.insts (Nat.le_refl _) 0 ({} : St w)
    emitTotal_init (Nat.zero_le _)
  refine ⟨s', ?_, hi.vals, hi.oa, hi.cs⟩
  unfold emitState
  rw [analyze_subAnal]
  have : (emitInsts fuse 0 blk.insts (subsOf blk.insts)).run ({} : St w) = .ok ((), s') := h
  rw [this]

/-! ### 2. The semantic theorems without the success hypothesis -/

theorem emit_forward' (blk : Ir.Block w) (fuse : Bool) (env : Env) (ho : OnceOk blk env) :
    ∃ p, emitOnly blk fuse = .ok p ∧
    (∀ f (c : Ir.Cfg w), Ir.run blk false 0 f env = .done c →
      ∃ f' c', Bc.run p false 0 f' env = .done c' ∧ c'.st.trace = c.st.trace ∧
        (∀ i, c'.st.tape.get i = c.st.tape.get i) ∧ c'.st.ptr = c.st.ptr ∧ c'.st.env = c.st.env) ∧
    (∀ f (c : Ir.Cfg w), Ir.run blk false 0 f env = .stopped c →
      ∃ f' c', Bc.run p false 0 f' env = .stopped c' ∧ c'.st.trace = c.st.trace ∧
        (∀ i, c'.st.tape.get i = c.st.tape.get i) ∧ c'.st.ptr = c.st.ptr ∧ c'.st.env = c.st.env) := by
  obtain ⟨p, hp⟩ := emitOnly_total blk fuse
  exact ⟨p, hp, emit_forward env hp ho⟩

theorem emit_backward' (blk : Ir.Block w) (fuse : Bool) (env : Env) (ho : OnceOk blk env) :
    ∃ p, emitOnly blk fuse = .ok p ∧
    (∀ f' (c' : Bc.Cfg w), Bc.run p false 0 f' env = .done c' →
      ∃ f c, Ir.run blk false 0 f env = .done c ∧ c.st.trace = c'.st.trace ∧
        (∀ i, c.st.tape.get i = c'.st.tape.get i) ∧ c.st.ptr = c'.st.ptr ∧ c.st.env = c'.st.env) ∧
    (∀ f' (c' : Bc.Cfg w), Bc.run p false 0 f' env = .stopped c' →
      ∃ f c, Ir.run blk false 0 f env = .stopped c ∧ c.st.trace = c'.st.trace ∧
        (∀ i, c.st.tape.get i = c'.st.tape.get i) ∧ c.st.ptr = c'.st.ptr ∧ c.st.env = c'.st.env) := by
  obtain ⟨p, hp⟩ := emitOnly_total blk fuse
  exact ⟨p, hp, emit_backward env hp ho⟩

theorem emit_prefix' (blk : Ir.Block w) (fuse : Bool) (env : Env) (ho : OnceOk blk env) :
    ∃ p, emitOnly blk fuse = .ok p ∧
    (∀ f', ∃ f, C01.traceOf (Ir.run blk false 0 f env) = C07.traceOfBc (Bc.run p false 0 f' env)) ∧
    (∀ f, ∃ f', C07.traceOfBc (Bc.run p false 0 f' env) = C01.traceOf (Ir.run blk false 0 f env)) := by
  obtain ⟨p, hp⟩ := emitOnly_total blk fuse
  exact ⟨p, hp, emit_prefix env hp ho⟩

end C02
end Hpbf

#print axioms Hpbf.C02.emit_total
#print axioms Hpbf.C02.emitOnly_total
#print axioms Hpbf.C02.emit_total_full_holds
#print axioms Hpbf.C02.emit_total_run
#print axioms Hpbf.C02.emit_total_inv
#print axioms Hpbf.C02.emit_forward'
#print axioms Hpbf.C02.emit_backward'
#print axioms Hpbf.C02.emit_prefix'
