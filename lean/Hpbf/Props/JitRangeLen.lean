/-
JitRangeLen: the `shift` field of `JitRange` follows from the length of the source text.

`JitRange` (`Proofs/ChainTotalJit.lean`) is the bundle of range hypotheses of the end-to-end machine-code theorems
(`Props/ChainFinal2.lean`).  Its window fields `win`, `dispMin`, `dispMax`, `dispNeg` were already derived from
`bytes * length(source) < 2^31` (`jitRange_window_of_length_final2`).  This file discharges the remaining
length-dependent field

    shift : ∀ i sh, p.insts[i]? = some (Bc.Instr.mov sh) → DispOk sz sh

from the same hypothesis, for EVERY optimisation level, every oracle, both optimizers (`OptFix.optimizeF`, the one the
final theorems use, and `Opt.optimize`), every register count, fusion on or off.  NOTHING IS PARTIAL: no `_partial`
theorem was needed.

How:
1. `OptOffs.shiftsOf b` = the shift of `b` and of every loop/if block nested anywhere in it;
2. `translateE_mov_is_block_shift`: every `mov sh` of `translateE b' numRegs fuse` has `sh ∈ shiftsOf b'` (indeed one of
   the NESTED shifts; the top-level shift is never emitted) — the predicate "every `mov` carries a shift satisfying
   `B`" pushed through emission (`ClosedI`), `dead_store_elim`, `allocate_temps`, `parameter_reordering`,
   `zeroing_move_detection`, `strip_noops` (`Proofs/JitShiftBc.lean`);
3. `optimizedF_shifts_le_length`: every element of `shiftsOf b'` is at most `length src`: the nested ones are bounded by
   the drift `driftL` (sum of `|shift|` over all nested blocks), the drift never grows under the optimizer (the slack
   conjunct of `rebuildInsts_step`; dead store elimination keeps it) and is at most the number of `<`/`>` for the
   parser's output (`Proofs/JitShiftIr.lean`); the top-level one is `optimizedF_shift_le_length`.
Bonus: `jitRange_fields_of_length` (all five length-dependent fields from `hlen`), `jitRange_of_length` (a `JitRange`
from `hlen` and the length-independent fields only).
Property theorems only (short wrappers); proofs in `Hpbf/Proofs/JitShift{Ir,Bc,Top}.lean`.
-/
import Hpbf.Proofs.JitShiftTop

namespace Hpbf
namespace Chain

open Bc BcGen C02 C03 OptOffs Asm

variable {w : Nat}

/-! ## 0. the notions, spelled out -/

example (sz : Size) (x : Int) :
    DispOk sz x ↔ (-2147483648 ≤ (sz.bytes : Int) * x ∧ (sz.bytes : Int) * x < 2147483648) := Iff.rfl

example (c sh : Int) (body rest : List (Ir.Instr w)) (once : Bool) (o : Int) (cs : List (Int × Expr w))
    (i : Ir.Instr w) (b : Ir.Block w) :
    shiftsI (.loop c sh body once) = sh :: shiftsL body ∧ shiftsI (.ifnz c sh body) = sh :: shiftsL body ∧
    shiftsI (.output o : Ir.Instr w) = [] ∧ shiftsI (.input o : Ir.Instr w) = [] ∧
    shiftsI (.calc cs : Ir.Instr w) = [] ∧
    shiftsL ([] : List (Ir.Instr w)) = [] ∧ shiftsL (i :: rest) = shiftsI i ++ shiftsL rest ∧
    shiftsOf b = b.shift :: shiftsL b.insts := by
  refine ⟨?_, ?_, ?_, ?_, ?_, ?_, ?_, ?_⟩ <;> simp [shiftsI, shiftsL, shiftsOf]

/-! ## 1. every `mov` of the bytecode is a block shift of the IR -/

/-- Every `mov sh` of a translated program (any register count, fusion on/off) carries the shift of a block of the
IR it was translated from. -/
theorem translateE_mov_is_block_shift {blk : Ir.Block w} {numRegs : Nat} {fuse : Bool} {p : Bc.Program w}
    (ht : translateE blk numRegs fuse = .ok p) :
    ∀ (i : Nat) (sh : Int), p.insts[i]? = some (Bc.Instr.mov sh) → sh ∈ shiftsOf blk :=
  translateE_mov_shiftsOf ht

/-- The `shift` field from ANY bound `R` on the block shifts of the IR (no parser, no optimizer). -/
theorem jitRange_shift_of_shiftBound {blk : Ir.Block w} {numRegs : Nat} {fuse : Bool} {p : Bc.Program w}
    {sz : Size} {R : Nat} (ht : translateE blk numRegs fuse = .ok p)
    (hs : ∀ s ∈ shiftsOf blk, s.natAbs ≤ R) (hR : (sz.bytes : Int) * R < 2147483648) :
    ∀ (i : Nat) (sh : Int), p.insts[i]? = some (Bc.Instr.mov sh) → DispOk sz sh :=
  shift_of_shiftBound ht hs hR

/-! ## 2. the block shifts of optimized IR are bounded by the length of the source -/

theorem optimizedF_shifts_le_length {src : List Kind} {b b' : Ir.Block w} {level : Nat} {orders : Opt.Orders}
    (hp : Ir.parse (w := w) src = .ok b) (h : OptFix.optimizeF b level orders = .ok b') :
    ∀ s ∈ shiftsOf b', s.natAbs ≤ src.length :=
  optimizedF_shiftsOf_le_length hp h

theorem optimized_shifts_le_length {src : List Kind} {b b' : Ir.Block w} {level : Nat} {orders : Opt.Orders}
    (hp : Ir.parse (w := w) src = .ok b) (h : Opt.optimize b level orders = .ok b') :
    ∀ s ∈ shiftsOf b', s.natAbs ≤ src.length :=
  optimized_shiftsOf_le_length hp h

/-- The measure behind it: the drift (sum of `|shift|` over all nested blocks) never grows under either optimizer and
is, together with the final shift, at most the number of `<`/`>` for the parser's output. -/
example {b b' : Ir.Block w} {level : Nat} {orders : Opt.Orders} (h : OptFix.optimizeF b level orders = .ok b') :
    driftL b'.insts ≤ driftL b.insts := optimizeF_drift h
example {b b' : Ir.Block w} {level : Nat} {orders : Opt.Orders} (h : Opt.optimize b level orders = .ok b') :
    driftL b'.insts ≤ driftL b.insts := optimize_drift h
example {src : List Kind} {b : Ir.Block w} (h : Ir.parse (w := w) src = .ok b) :
    driftL b.insts + b.shift.natAbs ≤ src.length :=
  Nat.le_trans (parse_drift_le_moves h) (C10.moves_le_length src)
example (l : List (Ir.Instr w)) : ∀ s ∈ shiftsL l, s.natAbs ≤ driftL l := shiftsL_le_drift l

/-! ## 3. the `shift` field of `JitRange` from the length of the source -/

/-- **The target.**  Repaired optimizer (the one of `Props/ChainFinal2.lean`), any level, any oracle, any register
count, fusion on/off: `bytes * length(source) < 2^31` makes `bytes * shift` of every `mov` an `i32`. -/
theorem jitRange_shift_of_length {src : List Kind} {b b' : Ir.Block w} {level : Nat} {orders : Opt.Orders}
    {p : Bc.Program w} {numRegs : Nat} {fuse : Bool} {sz : Size}
    (hp : Ir.parse (w := w) src = .ok b) (h : OptFix.optimizeF b level orders = .ok b')
    (ht : translateE b' numRegs fuse = .ok p)
    (hlen : (sz.bytes : Int) * src.length < 2147483648) :
    ∀ (i : Nat) (sh : Int), p.insts[i]? = some (Bc.Instr.mov sh) → DispOk sz sh :=
  shift_of_length_F hp h ht hlen

/-- The same for the original optimizer `Opt.optimize`. -/
theorem jitRange_shift_of_length_opt {src : List Kind} {b b' : Ir.Block w} {level : Nat} {orders : Opt.Orders}
    {p : Bc.Program w} {numRegs : Nat} {fuse : Bool} {sz : Size}
    (hp : Ir.parse (w := w) src = .ok b) (h : Opt.optimize b level orders = .ok b')
    (ht : translateE b' numRegs fuse = .ok p)
    (hlen : (sz.bytes : Int) * src.length < 2147483648) :
    ∀ (i : Nat) (sh : Int), p.insts[i]? = some (Bc.Instr.mov sh) → DispOk sz sh :=
  shift_of_length_O hp h ht hlen

/-- The form for the total generator `translate`. -/
theorem jitRange_shift_of_length_translate {src : List Kind} {b b' : Ir.Block w} {level : Nat}
    {orders : Opt.Orders} (numRegs : Nat) (fuse : Bool) {sz : Size}
    (hp : Ir.parse (w := w) src = .ok b) (h : OptFix.optimizeF b level orders = .ok b')
    (hlen : (sz.bytes : Int) * src.length < 2147483648) :
    ∀ (i : Nat) (sh : Int), (translate b' numRegs fuse).insts[i]? = some (Bc.Instr.mov sh) → DispOk sz sh :=
  shift_of_length_F hp h (translate_ok b' numRegs fuse) hlen

/-! ## 4. bonus: all length-dependent fields of `JitRange` from the single hypothesis `hlen` -/

/-- `win`, `dispMin`, `dispMax`, both parts of `dispNeg`, and `shift`. -/
theorem jitRange_fields_of_length {src : List Kind} {b b' : Ir.Block w} {level : Nat} {orders : Opt.Orders}
    {p : Bc.Program w} {numRegs : Nat} {fuse : Bool} {sz : Size}
    (hp : Ir.parse (w := w) src = .ok b) (h : OptFix.optimizeF b level orders = .ok b')
    (ht : translateE b' numRegs fuse = .ok p) (hlen : (sz.bytes : Int) * src.length < 2147483648) :
    (-2147483648 < p.minAcc ∧ p.maxAcc < 2147483648) ∧ DispOk sz p.minAcc ∧ DispOk sz p.maxAcc ∧
    (DispOk sz (-p.minAcc) ∧ DispOk sz (-p.maxAcc)) ∧
    ∀ (i : Nat) (sh : Int), p.insts[i]? = some (Bc.Instr.mov sh) → DispOk sz sh :=
  fields_of_length_F hp h ht hlen

section
open JitGen X86Sem X86Prog

/-- A `JitRange` from `hlen` and the length-INDEPENDENT fields only: cell width, decoding, code size, the three
runtime addresses, frame size, stack alignment, budget, and (bounds-checked code) no allocation beyond `2^40` cells. -/
theorem jitRange_of_length {src : List Kind} {b b' : Ir.Block w} {level : Nat} {orders : Opt.Orders}
    {p : Bc.Program w} {numRegs : Nat} {fuse : Bool} {sz : Size}
    (hp : Ir.parse (w := w) src = .ok b) (h : OptFix.optimizeF b level orders = .ok b')
    (ht : translateE b' numRegs fuse = .ok p) (hlen : (sz.bytes : Int) * src.length < 2147483648)
    {limited safe : Bool} {cfg : X86Prog.Cfg} {buf0 rsp0 ra : BitVec 64} {budget : Nat} {env : Env}
    (width : Size.ofBits? w = some sz)
    (fetch : cfg.fetch = fetchFast (fetchTable (jitCode p limited safe cfg)))
    (small : sizeAll (jitCode p limited safe cfg) < 2 ^ 31)
    (addrIO : cfg.aI ≠ cfg.aO) (addrEI : cfg.aE ≠ cfg.aI) (addrEO : cfg.aE ≠ cfg.aO)
    (temps : alignedTemps p.temps * 8 < 2147483648)
    (rsp : rsp0.toNat % 16 = 8) (budgetLt : budget < 2 ^ 64) (lim : (limited && budget == 0) = false)
    (noOOM : safe = true → ∀ n s',
      steps cfg n (initState (w := w) cfg buf0 rsp0 ra p.minAcc p.maxAcc budget env) = some s' → Bnd s') :
    JitRange sz p limited safe cfg buf0 rsp0 ra budget env := by
  obtain ⟨a1, a2, a3, a4, a5⟩ := fields_of_length_F hp h ht hlen
  exact { width := width, fetch := fetch, small := small, addrIO := addrIO, addrEI := addrEI, addrEO := addrEO,
          win := a1, dispMin := a2, dispMax := a3, dispNeg := fun _ => a4, temps := temps, shift := a5,
          rsp := rsp, budgetLt := budgetLt, lim := lim, noOOM := noOOM }

end

/-! ## 5. non-vacuity: concrete programs at `w = 8` -/

def okE {ε α : Type} : Except ε α → Bool
  | .ok _ => true
  | .error _ => false

def exIr (s : String) : Ir.Block 8 :=
  match Ir.parse (w := 8) (OptOffs.kinds s) with
  | .ok b => b
  | .error _ => { shift := 0, insts := [] }

def exOpt (s : String) (level : Nat) : Ir.Block 8 :=
  match OptFix.optimizeF (exIr s) level [] with
  | .ok b => b
  | .error _ => exIr s

theorem parse_exIr {s : String} (h : okE (Ir.parse (w := 8) (OptOffs.kinds s)) = true) :
    Ir.parse (w := 8) (OptOffs.kinds s) = .ok (exIr s) := by
  unfold exIr
  cases hq : Ir.parse (w := 8) (OptOffs.kinds s) with
  | ok b => rfl
  | error e => rw [hq] at h; cases h

theorem opt_exOpt {s : String} {level : Nat} (h : okE (OptFix.optimizeF (exIr s) level []) = true) :
    OptFix.optimizeF (exIr s) level [] = .ok (exOpt s level) := by
  unfold exOpt
  cases hq : OptFix.optimizeF (exIr s) level [] with
  | ok b => rfl
  | error e => rw [hq] at h; cases h

/-- `>+[>+<-]` (the suggested program; its loop has shift 0, so there is no `mov`), level 0 and level 1: all
hypotheses of `jitRange_shift_of_length` hold, so does its conclusion. -/
example : ∀ (i : Nat) (sh : Int),
    (translate (exOpt ">+[>+<-]" 0) 11 false).insts[i]? = some (Bc.Instr.mov sh) → DispOk Size.b8 sh :=
  jitRange_shift_of_length (src := OptOffs.kinds ">+[>+<-]") (level := 0) (orders := [])
    (parse_exIr (by decide +kernel)) (opt_exOpt (by decide +kernel)) (translate_ok _ 11 false) (by decide)

example : ∀ (i : Nat) (sh : Int),
    (translate (exOpt ">+[>+<-]" 1) 11 false).insts[i]? = some (Bc.Instr.mov sh) → DispOk Size.b8 sh :=
  jitRange_shift_of_length (src := OptOffs.kinds ">+[>+<-]") (level := 1) (orders := [])
    (parse_exIr (by decide +kernel)) (opt_exOpt (by decide +kernel)) (translate_ok _ 11 false) (by decide)

/-- `+[>+[>>]<]`: the inner block has shift `2`, the outer one `0` (`>` … `<`; the inner block's shift is not counted),
the top level `0`.  The IR has these shifts, the bytecode has a `mov 2`, and the theorem bounds it. -/
example : shiftsOf (exOpt "+[>+[>>]<]" 0) = [0, 0, 2] := by decide +kernel

example : (translate (exOpt "+[>+[>>]<]" 0) 11 false).insts.toList.contains (Bc.Instr.mov 2) = true := by
  decide +kernel

example : ∀ (i : Nat) (sh : Int),
    (translate (exOpt "+[>+[>>]<]" 0) 11 false).insts[i]? = some (Bc.Instr.mov sh) → DispOk Size.b64 sh :=
  jitRange_shift_of_length (src := OptOffs.kinds "+[>+[>>]<]") (level := 0) (orders := [])
    (parse_exIr (by decide +kernel)) (opt_exOpt (by decide +kernel)) (translate_ok _ 11 false) (by decide)

/-- `>+[>+<-]>[>>>]` (the suggested program followed by a block with shift `3`) at level 3, empty oracle: the
optimizer succeeds, the optimized IR keeps a block with shift `3`, the unfused bytecode has a `mov 3` (fused: a
`scan 2 3`), and the theorem bounds it. -/
example : shiftsOf (exOpt ">+[>+<-]>[>>>]" 3) = [0, 3] := by decide +kernel

example : (translate (exOpt ">+[>+<-]>[>>>]" 3) 11 false).insts.toList.contains (Bc.Instr.mov 3) = true := by
  decide +kernel

example : ∀ (i : Nat) (sh : Int),
    (translate (exOpt ">+[>+<-]>[>>>]" 3) 11 false).insts[i]? = some (Bc.Instr.mov sh) → DispOk Size.b8 sh :=
  jitRange_shift_of_length (src := OptOffs.kinds ">+[>+<-]>[>>>]") (level := 3) (orders := [])
    (parse_exIr (by decide +kernel)) (opt_exOpt (by decide +kernel)) (translate_ok _ 11 false) (by decide)

end Chain
end Hpbf

#print axioms Hpbf.Chain.translateE_mov_is_block_shift
#print axioms Hpbf.Chain.jitRange_shift_of_shiftBound
#print axioms Hpbf.Chain.optimizedF_shifts_le_length
#print axioms Hpbf.Chain.optimized_shifts_le_length
#print axioms Hpbf.Chain.jitRange_shift_of_length
#print axioms Hpbf.Chain.jitRange_shift_of_length_opt
#print axioms Hpbf.Chain.jitRange_shift_of_length_translate
#print axioms Hpbf.Chain.jitRange_fields_of_length
#print axioms Hpbf.Chain.jitRange_of_length
