/-
C18 — "For every sequence of pushes, extends, clears, retains, dedups, sorts, clones, comparisons,
by-value and by-reference iteration (including abandoning a by-value iterator midway), the inline
small vector exposes the same contents as a standard vector subjected to the same sequence, and every
element is dropped exactly once."

Model: `Hpbf/SmallVec.lean` (ownership explicit: reading an uninitialised / moved-out slot is
`Except.error`, overwriting an initialised slot is reported in `leaked`, every operation reports
what it drops).  Lemmas: `Hpbf/Proofs/C18.lean`.

All theorems are for an arbitrary element type, an arbitrary inline capacity `N = s.cap` and an
arbitrary state satisfying the representation invariant `SV.Inv` (inline or heap), so histories cross
the inline/heap boundary wherever the code does.  `retainMut true` / `dedup true` is the repaired
Rust code; `retain_original_leaks` / `dedup_original_leaks` show that the property is false for the
original code (`false`).

"Dropped exactly once" is read as: along any history nothing is ever leaked, no uninitialised slot
is ever read (no double drop / use after move: that would be `Except.error`), and the drop log of
the small vector (including the final `Drop`, or the by-value iterator's yields and `Drop`) is
*equal, element for element and in order*, to the drop log of the `Vec` run; the `Vec` run's log
plus final contents is a permutation of everything that was ever put in.
-/
import Hpbf.Proofs.C18

namespace Hpbf
namespace SmallVec

variable {α : Type}

/-! ### Vocabulary of the history theorems -/

/-- Mutating operations on one vector.  `mapSlice g` is any length-preserving rewrite of the slice
obtained through `DerefMut` (`sort`, `sort_by`, `swap`, `reverse`, `iter_mut` assignments, …). -/
inductive Op (α : Type) where
  | push (x : α)
  | extend (xs : List α)
  | clear
  | retainMut (f : α → α × Bool)
  | dedup (eq : α → α → Bool)
  | mapSlice (g : List α → List α) (hg : ∀ l, (g l).length = l.length)

/-- One operation on the small vector (current Rust code). -/
def SV.step (s : SV α) : Op α → Except UB (R α)
  | .push x => push s x
  | .extend xs => extend s xs
  | .clear => clear s
  | .retainMut f => retainMut true s f
  | .dedup eq => dedup true s eq
  | .mapSlice g _ =>
    match mapSlice s g with
    | .error e => .error e
    | .ok s' => .ok { sv := s' }

/-- The same operation on a standard vector: (new contents, values dropped in order). -/
def specStep (l : List α) : Op α → List α × List α
  | .push x => (l ++ [x], [])
  | .extend xs => (l ++ xs, [])
  | .clear => ([], l)
  | .retainMut f => vecRetainMut f l
  | .dedup eq => vecDedup eq l
  | .mapSlice g _ => (g l, [])

/-- Run a history on the small vector: final vector, accumulated drop log, accumulated leaks. -/
def runOps (s : SV α) : List (Op α) → Except UB (SV α × List α × List α)
  | [] => .ok (s, [], [])
  | op :: ops =>
    match s.step op with
    | .error e => .error e
    | .ok r =>
      match runOps r.sv ops with
      | .error e => .error e
      | .ok (s', d, lk) => .ok (s', r.dropped ++ d, r.leaked ++ lk)

/-- Run a history on a standard vector: final contents and accumulated drop log. -/
def specRun (l : List α) : List (Op α) → List α × List α
  | [] => (l, [])
  | op :: ops =>
    ((specRun (specStep l op).1 ops).1, (specStep l op).2 ++ (specRun (specStep l op).1 ops).2)

/-- Elements an operation inserts. -/
def Op.inserted : Op α → List α
  | .push x => [x]
  | .extend xs => xs
  | _ => []

/-- Elements a history inserts. -/
def inserted : List (Op α) → List α
  | [] => []
  | op :: ops => op.inserted ++ inserted ops

/-- The contents as seen by an operation after its own in-place mutation: `retain_mut`'s predicate
may rewrite each element before deciding, a slice rewrite replaces `l` by `g l`. -/
def Op.mutated : Op α → List α → List α
  | .retainMut f, l => l.map (fun x => (f x).1)
  | .mapSlice g _, l => g l
  | _, l => l

/-- Operations that do not change element identities: `retain` (non-mutating predicate) and slice
rewrites that are permutations (`sort`, `swap`, `reverse`, …). -/
def Op.Pure : Op α → Prop
  | .retainMut f => ∀ x, (f x).1 = x
  | .mapSlice g _ => ∀ l, (g l).Perm l
  | _ => True

/-- Any read-only use of the slice (`==`, `cmp`, `hash`, `len`, indexing, `iter()`, `for x in &v`). -/
def viewWith {β : Type} (k : List α → β) (s : SV α) : Except UB β :=
  match view s with
  | .error e => .error e
  | .ok l => .ok (k l)

/-- Any read-only use of two slices (`PartialEq::eq`, `Ord::cmp`). -/
def viewWith₂ {β : Type} (k : List α → List α → β) (s t : SV α) : Except UB β :=
  match view s, view t with
  | .error e, _ => .error e
  | _, .error e => .error e
  | .ok a, .ok b => .ok (k a b)

/-! ### Constructors -/

/-- `new`, `from_vec`, `with_capacity` establish the invariant with the expected contents, for every `N`. -/
theorem sv_constructors (cap n : Nat) (v : List α) :
    ((new cap : SV α).Inv ∧ (new cap : SV α).toList = []) ∧
    ((fromVec cap v).Inv ∧ (fromVec cap v).toList = v) ∧
    ((withCapacity cap n : SV α).Inv ∧ (withCapacity cap n : SV α).toList = []) :=
  ⟨⟨(new_spec cap).1, (new_spec cap).2.1⟩, ⟨inv_fromVec _ _, toList_fromVec _ _⟩,
   ⟨(withCapacity_spec cap n).1, (withCapacity_spec cap n).2.1⟩⟩

/-! ### Same contents as a standard vector -/

/-- `as_slice` reads no uninitialised slot and exposes exactly the abstract contents. -/
theorem sv_view_eq {s : SV α} (h : s.Inv) : view s = .ok s.toList := view_eq h

/-- One step: no UB, invariant and `N` kept, contents and drop log equal to the `Vec` step, no leak. -/
theorem sv_step_refines {s : SV α} (h : s.Inv) (op : Op α) :
    ∃ r, s.step op = .ok r ∧ r.sv.Inv ∧ r.sv.cap = s.cap ∧
      r.sv.toList = (specStep s.toList op).1 ∧ r.dropped = (specStep s.toList op).2 ∧
      r.leaked = [] := by
  cases op with
  | push x => exact push_spec h x
  | extend xs => exact extend_spec xs h
  | clear => exact clear_spec h
  | retainMut f => exact retainMut_spec h f
  | dedup eq => exact dedup_spec h eq
  | mapSlice g hg =>
    obtain ⟨s', hs', hinv, hcap, hl⟩ := mapSlice_spec h g (hg _)
    exact ⟨{ sv := s' }, by simp only [SV.step, hs'], hinv, hcap, hl, rfl, rfl⟩

/-- **C18, contents.**  For every history and every start state satisfying the invariant (any `N`,
inline or heap): the run hits no UB, leaks nothing, keeps the invariant, and the final contents,
the slice view and the drop log (in order) are exactly those of the `Vec` run. -/
theorem sv_refines_vec (ops : List (Op α)) : ∀ (s : SV α), s.Inv →
    ∃ s' dropped, runOps s ops = .ok (s', dropped, []) ∧ s'.Inv ∧ s'.cap = s.cap ∧
      s'.toList = (specRun s.toList ops).1 ∧ view s' = .ok (specRun s.toList ops).1 ∧
      dropped = (specRun s.toList ops).2 := by
  induction ops with
  | nil => intro s h; exact ⟨s, [], rfl, h, rfl, rfl, view_eq h, rfl⟩
  | cons op ops ih =>
    intro s h
    obtain ⟨r, hr, hinv, hcap, hl, hd, hk⟩ := sv_step_refines h op
    obtain ⟨s', d, hrun, hinv', hcap', hl', hv', hd'⟩ := ih r.sv hinv
    refine ⟨s', r.dropped ++ d, ?_, hinv', by rw [hcap', hcap], ?_, ?_, ?_⟩
    · simp only [runOps, hr, hrun, hk, List.append_nil]
    · rw [hl', hl]; rfl
    · rw [hv', hl]; rfl
    · rw [hd', hd, hl]; rfl

/-! ### Every element is dropped exactly once -/

/-- One `Vec` step conserves elements: what it drops plus what it keeps is a permutation of the
(mutated) old contents plus what it inserts. -/
theorem specStep_conserves (l : List α) (op : Op α) :
    ((specStep l op).2 ++ (specStep l op).1).Perm (op.mutated l ++ op.inserted) := by
  cases op with
  | push x => exact List.Perm.refl _
  | extend xs => exact List.Perm.refl _
  | clear => simp [specStep, Op.mutated, Op.inserted]
  | retainMut f => simpa [specStep, Op.mutated, Op.inserted] using vecRetainMut_perm f l
  | dedup eq => simpa [specStep, Op.mutated, Op.inserted] using vecDedup_perm eq l
  | mapSlice g hg => simp [specStep, Op.mutated, Op.inserted]

/-- A `Vec` history of identity-preserving operations conserves elements. -/
theorem specRun_conserves (ops : List (Op α)) : ∀ (l : List α), (∀ op ∈ ops, op.Pure) →
    ((specRun l ops).2 ++ (specRun l ops).1).Perm (l ++ inserted ops) := by
  induction ops with
  | nil => intro l _; simp [specRun, inserted]
  | cons op ops ih =>
    intro l hp
    have hstep : ((specStep l op).2 ++ (specStep l op).1).Perm (l ++ op.inserted) := by
      have h := specStep_conserves l op
      have hpure := hp op (by simp)
      cases op with
      | retainMut f =>
        have : l.map (fun x => (f x).1) = l := by
          simp only [Op.Pure] at hpure
          simp [hpure]
        simpa [Op.mutated, this] using h
      | mapSlice g hg =>
        exact h.trans (List.Perm.append_right _ (hpure l))
      | push x => exact h
      | extend xs => exact h
      | clear => exact h
      | dedup eq => exact h
    have hrest := ih (specStep l op).1 (fun o ho => hp o (by simp [ho]))
    simp only [specRun, inserted]
    calc ((specStep l op).2 ++ (specRun (specStep l op).1 ops).2) ++ (specRun (specStep l op).1 ops).1
        = (specStep l op).2 ++ ((specRun (specStep l op).1 ops).2 ++ (specRun (specStep l op).1 ops).1) := by
          simp
      _ |>.Perm ((specStep l op).2 ++ ((specStep l op).1 ++ inserted ops)) := List.Perm.append_left _ hrest
      _ = ((specStep l op).2 ++ (specStep l op).1) ++ inserted ops := by simp
      _ |>.Perm ((l ++ op.inserted) ++ inserted ops) := List.Perm.append_right _ hstep
      _ = l ++ (op.inserted ++ inserted ops) := by simp

/-- **C18, drops (exact form).**  Run any history, then drop the vector: no UB, nothing leaked at
any point, nothing owned afterwards, and the complete drop log is the `Vec` run's drop log followed
by the `Vec`'s final contents — each element the `Vec` would drop is dropped, once, in the same order. -/
theorem sv_drop_once_exact (ops : List (Op α)) (s : SV α) (h : s.Inv) :
    ∃ s' dropped rf, runOps s ops = .ok (s', dropped, []) ∧ dropAll s' = .ok rf ∧
      rf.leaked = [] ∧ rf.sv.Inv ∧ rf.sv.toList = [] ∧
      dropped ++ rf.dropped = (specRun s.toList ops).2 ++ (specRun s.toList ops).1 := by
  obtain ⟨s', d, hrun, hinv, _, hl, _, hd⟩ := sv_refines_vec ops s h
  obtain ⟨rf, hrf, hinvf, hlf, hdf, hkf⟩ := dropAll_spec hinv
  exact ⟨s', d, rf, hrun, hrf, hkf, hinvf, hlf, by rw [hd, hdf, hl]⟩

/-- **C18, drops.**  For histories of identity-preserving operations (`retain` rather than a
mutating `retain_mut`; `sort`/permutations as slice rewrites), the complete drop log after the final
`Drop` is a permutation of the initial contents plus everything inserted: every element exactly
once, none leaked.  (For mutating `retain_mut` see `specStep_conserves` and `sv_drop_once_exact`:
the element dropped is the mutated one.) -/
theorem sv_drop_once (ops : List (Op α)) (s : SV α) (h : s.Inv) (hp : ∀ op ∈ ops, op.Pure) :
    ∃ s' dropped rf, runOps s ops = .ok (s', dropped, []) ∧ dropAll s' = .ok rf ∧
      rf.leaked = [] ∧ rf.sv.toList = [] ∧
      (dropped ++ rf.dropped).Perm (s.toList ++ inserted ops) := by
  obtain ⟨s', d, rf, hrun, hrf, hk, _, hl, heq⟩ := sv_drop_once_exact ops s h
  exact ⟨s', d, rf, hrun, hrf, hk, hl, heq ▸ specRun_conserves ops s.toList hp⟩

/-! ### By-value iteration, including abandoning the iterator midway -/

/-- Turn a vector into a by-value iterator, call `next` any number `n` of times, then drop the
iterator: no UB; the calls yield exactly the first `n` elements in order (and nothing else, nothing
after exhaustion); the iterator's `Drop` drops exactly the remaining ones and leaks nothing.  So
yielded ++ dropped is the contents: each element is handed out or dropped exactly once. -/
theorem sv_into_iter (s : SV α) (h : s.Inv) (n : Nat) :
    ∃ it', Iter.nexts n (intoIter s) = .ok (s.toList.take n, it') ∧
      it'.dropRest = .ok (s.toList.drop n, []) ∧
      s.toList.take n ++ s.toList.drop n = s.toList := by
  obtain ⟨it', h1, h2⟩ := Iter.nexts_owns n (intoIter_owns h)
  exact ⟨it', h1, Iter.dropRest_owns h2, List.take_append_drop n _⟩

/-- History, then by-value iteration abandoned after `n` calls: the drop log of the history, the
yielded elements and the iterator's drops together are the `Vec` run's drop log and final contents. -/
theorem sv_history_then_iter (ops : List (Op α)) (s : SV α) (h : s.Inv) (n : Nat) :
    ∃ s' dropped it' yielded rest, runOps s ops = .ok (s', dropped, []) ∧
      Iter.nexts n (intoIter s') = .ok (yielded, it') ∧ it'.dropRest = .ok (rest, []) ∧
      yielded = (specRun s.toList ops).1.take n ∧
      dropped ++ (yielded ++ rest) = (specRun s.toList ops).2 ++ (specRun s.toList ops).1 := by
  obtain ⟨s', d, hrun, hinv, _, hl, _, hd⟩ := sv_refines_vec ops s h
  obtain ⟨it', h1, h2, h3⟩ := sv_into_iter s' hinv n
  exact ⟨s', d, it', _, _, hrun, h1, h2, by rw [hl], by rw [h3, hd, hl]⟩

/-! ### Two-vector facts: clone, comparisons, hashing, by-reference iteration -/

/-- `clone` yields an independent vector with the same `N` holding the element-wise clones; it
drops and leaks nothing, and the source still exposes its contents. -/
theorem sv_clone {s : SV α} (h : s.Inv) (cl : α → α) :
    ∃ r, clone s cl = .ok r ∧ r.sv.Inv ∧ r.sv.cap = s.cap ∧ r.sv.toList = s.toList.map cl ∧
      view r.sv = .ok (s.toList.map cl) ∧ r.dropped = [] ∧ r.leaked = [] ∧
      view s = .ok s.toList := by
  obtain ⟨r, hr, hinv, hcap, hl, hd, hk⟩ := clone_spec h cl
  exact ⟨r, hr, hinv, hcap, hl, hl ▸ view_eq hinv, hd, hk, view_eq h⟩

/-- Anything computed from the slice (`hash`, `len`, indexing, `iter()`, `for x in &v`) is computed
from the abstract contents. -/
theorem sv_viewWith {β : Type} (k : List α → β) {s : SV α} (h : s.Inv) :
    viewWith k s = .ok (k s.toList) := by
  simp only [viewWith, view_eq h]

/-- `==` / `cmp` on two small vectors (of possibly different representations) agree with the same
function on the two `Vec`s. -/
theorem sv_viewWith₂ {β : Type} (k : List α → List α → β) {s t : SV α} (hs : s.Inv) (ht : t.Inv) :
    viewWith₂ k s t = .ok (k s.toList t.toList) := by
  simp only [viewWith₂, view_eq hs, view_eq ht]

/-! ### The repaired defect: the property is false for the original `retain` / `dedup` -/

/-- Original `retain`/`retain_mut` (`dropRejected = false`): on the inline vector `[1, 2]` (`N = 2`)
with a predicate rejecting everything, the two elements are neither in the result nor in the drop
log; they stay in slots `≥ size`, the result violates the invariant, and the vector's own `Drop`
does not drop them either (the model reports them as leaked there).  The repaired code drops both. -/
theorem retain_original_leaks :
    ∃ (s : SV Nat) (f : Nat → Nat × Bool) (r : R Nat), s.Inv ∧ s.toList = [1, 2] ∧
      retainMut false s f = .ok r ∧ r.sv.toList = [] ∧ r.dropped = [] ∧
      r.sv.arr = [some 1, some 2] ∧ ¬ r.sv.Inv ∧
      (∃ rf, dropAll r.sv = .ok rf ∧ rf.dropped = [] ∧ rf.leaked = [1, 2]) ∧
      (∃ r', retainMut true s f = .ok r' ∧ r'.sv.toList = [] ∧ r'.dropped = [1, 2] ∧ r'.leaked = []) := by
  refine ⟨leakWitness, fun x => (x, false),
    { sv := { cap := 2, size := 0, arr := [some 1, some 2], vec := [] } },
    leakWitness_inv, rfl, rfl, rfl, rfl, rfl, ?_, ⟨_, rfl, rfl, rfl⟩, ⟨_, rfl, rfl, rfl, rfl⟩⟩
  exact not_inv_of_dead_slot (v := 1) 0 (Nat.le_refl _) (by decide) rfl

/-- Original `dedup`: on the inline vector `[1, 1]` (`N = 2`) the duplicate is neither kept nor
dropped.  The repaired code drops it. -/
theorem dedup_original_leaks :
    ∃ (s : SV Nat) (r : R Nat), s.Inv ∧ s.toList = [1, 1] ∧
      dedup false s (fun a b => a == b) = .ok r ∧ r.sv.toList = [1] ∧ r.dropped = [] ∧
      r.sv.arr = [some 1, some 1] ∧ ¬ r.sv.Inv ∧
      (∃ rf, dropAll r.sv = .ok rf ∧ rf.dropped = [1] ∧ rf.leaked = [1]) ∧
      (∃ r', dedup true s (fun a b => a == b) = .ok r' ∧ r'.sv.toList = [1] ∧ r'.dropped = [1] ∧
        r'.leaked = []) := by
  refine ⟨leakWitnessDedup,
    { sv := { cap := 2, size := 1, arr := [some 1, some 1], vec := [] } },
    leakWitnessDedup_inv, rfl, rfl, rfl, rfl, rfl, ?_, ⟨_, rfl, rfl, rfl⟩, ⟨_, rfl, rfl, rfl, rfl⟩⟩
  exact not_inv_of_dead_slot (v := 1) 1 (Nat.le_refl _) (by decide) rfl

/-! ### Non-vacuity -/

/-- `N = 1`: `push 5; push 6` crosses from inline to heap. -/
example : runOps (new 1 : SV Nat) [.push 5, .push 6] = .ok (fromVec 1 [5, 6], [], []) := rfl
example : (new 1 : SV Nat).Inv ∧ (fromVec 1 [5, 6] : SV Nat).Inv := ⟨(new_spec 1).1, inv_fromVec _ _⟩
example : isInline (new 1 : SV Nat) = true ∧ isInline (fromVec 1 [5, 6] : SV Nat) = false := by decide
/-- `N = 2`: a history staying inline, with drops. -/
example : runOps (new 2 : SV Nat) [.push 1, .push 1, .dedup (· == ·), .push 3, .retainMut (fun x => (x + 1, x != 1))]
    = .ok (inl 2 [4], [1, 2], []) := rfl
/-- `N = 1`: crossing, then `retain` and `clear` on the heap representation. -/
example : runOps (new 1 : SV Nat) [.extend [1, 2, 3], .retainMut (fun x => (x, x != 2)), .clear]
    = .ok (fromVec 1 [], [2, 1, 3], []) := by
  simp [runOps, SV.step, extend, push, new, slotWrite, slotsTake, slotTake, retainMut, vecRetainMut, clear, fromVec]
/-- Heap back to inline: cloning a heap vector with few elements gives an inline vector. -/
example : (clone (fromVec 1 [5] : SV Nat) id).map (·.sv) = .ok (inl 1 [5]) := rfl
/-- Abandoning a by-value iterator midway (`N = 2`, inline `[1, 2]`): one element yielded, one dropped. -/
example : (Iter.nexts 1 (intoIter (inl 2 [1, 2] : SV Nat))).map (·.1) = .ok [1] := rfl
example : Iter.dropRest (.small [none, some 2] 1 2 : Iter Nat) = .ok ([2], []) := rfl
/-- UB is observable in the model: reading a moved-out slot is an error. -/
example : view ({ cap := 1, size := 1, arr := [none], vec := [] } : SV Nat) = .error (.readUninit 0) := rfl

end SmallVec
end Hpbf

#print axioms Hpbf.SmallVec.sv_constructors
#print axioms Hpbf.SmallVec.sv_view_eq
#print axioms Hpbf.SmallVec.sv_step_refines
#print axioms Hpbf.SmallVec.sv_refines_vec
#print axioms Hpbf.SmallVec.specStep_conserves
#print axioms Hpbf.SmallVec.specRun_conserves
#print axioms Hpbf.SmallVec.sv_drop_once_exact
#print axioms Hpbf.SmallVec.sv_drop_once
#print axioms Hpbf.SmallVec.sv_into_iter
#print axioms Hpbf.SmallVec.sv_history_then_iter
#print axioms Hpbf.SmallVec.sv_clone
#print axioms Hpbf.SmallVec.sv_viewWith
#print axioms Hpbf.SmallVec.sv_viewWith₂
#print axioms Hpbf.SmallVec.retain_original_leaks
#print axioms Hpbf.SmallVec.dedup_original_leaks
