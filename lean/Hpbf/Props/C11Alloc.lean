/-
Property C11 (part: the clauses of the bytecode contract that `allocate_temps` is responsible for).
"… no temporary is read before it is written on any path, and every register temporary whose value is still
needed after a non-branch instruction (the ones that may call the runtime or reuse an operand register) is declared
live across it."

`BcWf.check p numRegs = localOk p && initOk p (initSolve p) && liveOk p numRegs (liveSolve p)` decides the contract
per program (`Props/C11.lean` proves the checker sound).  This file proves that the second and the third conjunct
are `true` for every program the generator produces, so they need not be tested per program:

* §1  the dataflow solvers of the checker are COMPLETE: if any array is accepted by `initOk` (`liveOk`), the computed
      array `initSolve p` (`liveSolve p`) is accepted, provided the temporaries read by `p` are below `p.temps`
      (fixpoint iteration: greatest / least solution, reached within the fixed number of rounds);
* §2  the solution for the output of `allocate_temps`: `Held s tr k r` – before instruction `k` the replacement
      table of the pass maps a still needed virtual temporary to the physical temporary `r` – is closed under the
      control flow of the OUTPUT code, contains everything the output instruction reads, is empty at the entry, and
      the registers in it after a non-branch instruction are in the bitmap pushed in that round or written by it;
* §3  hence `initOk` and `liveOk` (with the checker's own arrays) hold for the output of the pass on every input
      satisfying `AllocPre` whose branches stay inside the code, in particular in the pipeline
      (`emitState` ; `deadStoreElim` ; `allocateTemps`, all IR programs, both values of `fuse`, every `numRegs`);
* §4  the late passes carry solutions along (`parameter_reordering`, `zeroing_move_detection`: same positions,
      each instruction reads a subset and writes the same temporaries; `strip_noops`: the solution restricted to the
      kept positions), so
* §5  `translateE prog numRegs fuse = .ok p → initOk p (initSolve p) = true ∧ liveOk p numRegs (liveSolve p) = true`,
      and, semantically, no instruction of `p` ever reads a temporary that was not written before on the path taken.
* §6  evaluation on concrete outputs, and a witness that the precondition (`flow`) is needed for the liveness
      clause.

Proofs: `Hpbf/Proofs/C11Alloc{Solve,Mask,Sets,Ok,Late,Strip,Top,Ex}.lean`; the theorems below are those theorems,
restated as `example`s.  `localOk` (operand window, declared counts, destination kinds, branch targets) is not
treated here, except for the declared temporary count (`translateE_temps_lt`).

No defect was found: there is no state reachable from emission where a live register is missing from a bitmap
or a physical temporary is read uninitialised (that would contradict §5).
-/
import Hpbf.Proofs.C11AllocEx

namespace Hpbf
namespace C02

open Bc BcWf BcGen C11 Alloc Alloc.Wf

variable {w : Nat}

/-! ### 1. The solvers of the checker are complete -/

/-- `initOk` / `liveOk` are exactly the fact bundles used by the soundness proofs of `Props/C11.lean`. -/
example (p : Program w) (I : Array (List Nat)) : initOk p I = true ↔ InitFacts p I :=
  ⟨initOk_facts, alloc_initOk_of_facts⟩
example (p : Program w) (numRegs : Nat) (O : Array (List Nat)) : liveOk p numRegs O = true ↔ LiveFacts p numRegs O :=
  ⟨liveOk_facts, alloc_liveOk_of_facts⟩

example (p : Program w) (T : Nat) : UsesLt p T ↔
    ∀ (i : Nat) (ins : Instr w), p.insts[i]? = some ins → ∀ t ∈ BcWf.uses ins, t < T := Iff.rfl

example (p : Program w) (I : Array (List Nat)) (hI : initOk p I = true) (hu : UsesLt p p.temps) :
    initOk p (initSolve p) = true := alloc_initOk_of_facts (alloc_initSolve_facts' (initOk_facts hI) hu)
example (p : Program w) (I : Array (List Nat)) (hI : initOk p I = true)
    (hb : ∀ i t, t ∈ BcWf.getD I i → t < p.temps) : initOk p (initSolve p) = true :=
  alloc_initSolve_complete hI hb
example (p : Program w) (numRegs : Nat) (O : Array (List Nat)) (hO : liveOk p numRegs O = true)
    (hu : UsesLt p p.temps) : liveOk p numRegs (liveSolve p) = true := alloc_liveSolve_complete hO hu

/-! ### 2. The sets of physical temporaries that hold a needed value -/

example (s : St w) (tr : Nat → ASt w) (k r : Nat) : Held s tr k r ↔
    ∃ t, alGet (tr k).repl t = some (.tmp r) ∧ LiveAt s k (tr k) t := Iff.rfl
example (s : St w) (k : Nat) (a : ASt w) (t : Nat) : LiveAt s k a t ↔
    ((∃ (r : RangeInfo) (L : Nat), s.ranges[t]? = some r ∧ r.lastUse = some L ∧ k ≤ L) ∨
     (∃ f op m t' s0 s1, Fused s k a f op m t' s0 s1 ∧ (s0 = .tmp t ∨ s1 = .tmp t))) := Iff.rfl

section
variable {s : St w} {numRegs : Nat} {tr : Nat → ASt w} (hp : AllocPre s) (T : Trace s numRegs tr)
include hp T

/-- `q` is the final instruction at `k` (`final_inst`: the one left by round `k`). -/
example {k : Nat} (hk : k < s.insts.size) : (tr s.insts.size).st.insts[k]? = (tr (k + 1)).st.insts[k]? :=
  final_inst hp T hk
example (r : Nat) : ¬ Held s tr 0 r := held_zero T r
example {k : Nat} (hk : k < s.insts.size) {q : Instr w} (hq : (tr (k + 1)).st.insts[k]? = some q) {r : Nat}
    (hr : r ∈ BcWf.uses q) : Held s tr k r := held_uses hp T hk hq hr
example {k : Nat} (hk : k < s.insts.size) {q : Instr w} (hq : (tr (k + 1)).st.insts[k]? = some q) {r : Nat}
    (h : Held s tr (k + 1) r) : Held s tr k r ∨ r ∈ BcWf.defs q := held_succ hp T hk hq h
example {k k' : Nat} (hk : k < s.insts.size) (hk' : k' ≤ s.insts.size) {x : Instr w} {off : Int}
    (hx : s.insts[k]? = some x) (hoff : branchOff? x = some off) (hkk : (k : Int) + off = (k' : Int)) {r : Nat}
    (h : Held s tr k' r) : Held s tr k r := held_jump hp T hk hk' hx hoff hkk h
/-- The bitmap: a register held after instruction `k` is written by it or has its bit set in `live[k]`. -/
example {k : Nat} (hk : k < s.insts.size) {q : Instr w} (hq : (tr (k + 1)).st.insts[k]? = some q) {r : Nat}
    (h : Held s tr (k + 1) r) (h1 : r < numRegs) (h2 : r < 16) :
    r ∈ BcWf.defs q ∨ (((tr s.insts.size).st.live[k]?).getD 0).testBit r = true := held_mask hp T hk hq h h1 h2
end

/-- `liveMask`: the bit of every register below `min numRegs 16` that is not free is set. -/
example (numRegs : Nat) (F : List Nat) (live : Nat) (h : liveMask numRegs F = .ok live) (hn : F.Nodup) (r : Nat)
    (h1 : r < numRegs) (h2 : r < 16) (hr : r ∉ F) : live.testBit r = true := liveMask_testBit h hn h1 h2 hr

/-! ### 3. The output of `allocate_temps` -/

example (insts : Array (Instr w)) (Tn : Nat) : TempsBelow insts Tn ↔
    ∀ (i : Nat) (q : Instr w), insts[i]? = some q → ∀ t ∈ BcWf.uses q, t < Tn := Iff.rfl
example (insts : Array (Instr w)) : TempsBelow insts (countTemps insts) := tempsBelow_countTemps insts

/-- For EVERY input satisfying `AllocPre` whose branches stay inside the code. -/
example (s s' : St w) (numRegs : Nat) (hp : AllocPre s) (hT : TargetsOk s.insts)
    (h : allocateTemps numRegs s = .ok s') (Tn : Nat) (mn mx : Int) (hb : TempsBelow s'.insts Tn) :
    initOk (progOf s' Tn mn mx) (initSolve (progOf s' Tn mn mx)) = true :=
  allocateTemps_initOk s s' numRegs hp hT h Tn mn mx hb
example (s s' : St w) (numRegs : Nat) (hp : AllocPre s) (hT : TargetsOk s.insts)
    (h : allocateTemps numRegs s = .ok s') (Tn : Nat) (mn mx : Int) (hb : TempsBelow s'.insts Tn) :
    liveOk (progOf s' Tn mn mx) numRegs (liveSolve (progOf s' Tn mn mx)) = true :=
  allocateTemps_liveOk s s' numRegs hp hT h Tn mn mx hb

/-- In the pipeline: every IR program, both values of `fuse`, every `numRegs`. -/
example (prog : Ir.Block w) (fuse : Bool) (numRegs : Nat) (s1 s2 s3 : St w)
    (h1 : emitState prog fuse = .ok s1) (h2 : deadStoreElim s1 = .ok s2)
    (h3 : allocateTemps numRegs s2 = .ok s3) (Tn : Nat) (mn mx : Int) (hb : TempsBelow s3.insts Tn) :
    initOk (progOf s3 Tn mn mx) (initSolve (progOf s3 Tn mn mx)) = true :=
  allocateTemps_initOk_of_emit h1 h2 h3 Tn mn mx hb
example (prog : Ir.Block w) (fuse : Bool) (numRegs : Nat) (s1 s2 s3 : St w)
    (h1 : emitState prog fuse = .ok s1) (h2 : deadStoreElim s1 = .ok s2)
    (h3 : allocateTemps numRegs s2 = .ok s3) (Tn : Nat) (mn mx : Int) (hb : TempsBelow s3.insts Tn) :
    liveOk (progOf s3 Tn mn mx) numRegs (liveSolve (progOf s3 Tn mn mx)) = true :=
  allocateTemps_liveOk_of_emit h1 h2 h3 Tn mn mx hb
example (prog : Ir.Block w) (fuse : Bool) (numRegs : Nat) (s1 s2 s3 : St w)
    (h1 : emitState prog fuse = .ok s1) (h2 : deadStoreElim s1 = .ok s2)
    (h3 : allocateTemps numRegs s2 = .ok s3) (mn mx : Int) :
    initOk (progOf s3 (countTemps s3.insts) mn mx) (initSolve (progOf s3 (countTemps s3.insts) mn mx)) = true ∧
    liveOk (progOf s3 (countTemps s3.insts) mn mx) numRegs (liveSolve (progOf s3 (countTemps s3.insts) mn mx)) = true :=
  allocateTemps_contract_of_emit h1 h2 h3 mn mx

/-! ### 4. The late passes -/

example (x x' : Instr w) : TmpSim x x' ↔
    ((∀ t, t ∈ BcWf.uses x' → t ∈ BcWf.uses x) ∧ (∀ t, t ∈ BcWf.defs x' ↔ t ∈ BcWf.defs x) ∧
     isBranch x' = isBranch x ∧ ∀ n i, BcWf.succs n i x' = BcWf.succs n i x) :=
  ⟨fun h => ⟨h.uses, h.defs, h.branch, h.succs⟩, fun ⟨a, b, c, d⟩ => ⟨a, b, c, d⟩⟩
example (B B' : Array (Instr w)) : InstsSim B B' ↔
    (B'.size = B.size ∧ ∀ (i : Nat) (x' : Instr w), B'[i]? = some x' → ∃ x, B[i]? = some x ∧ TmpSim x x') := Iff.rfl
example (x : Instr w) : TmpSim x (reorderInst x) := tmpSim_reorderInst x
example (s : St w) : InstsSim s.insts (parameterReordering s).insts := instsSim_parameterReordering s
example (s : St w) (h : ZmdPre s) (s' : St w) (hz : zeroingMoveDetection s = .ok s') :
    InstsSim s.insts s'.insts ∧ s'.live = s.live := zeroingMoveDetection_sim s h hz
example (p p' : Program w) (I : Array (List Nat)) (h : InitFacts p I) (hs : InstsSim p.insts p'.insts) :
    InitFacts p' I := initFacts_of_sim h hs
example (p p' : Program w) (numRegs : Nat) (O : Array (List Nat)) (h : LiveFacts p numRegs O)
    (hs : InstsSim p.insts p'.insts) (hl : p'.live = p.live) : LiveFacts p' numRegs O := liveFacts_of_sim h hs hl

/-- `strip_noops`: instructions as in `Stripped`, and the bitmaps move with the instructions. -/
example (s s' : St w) (hl : s.live.size = s.insts.size) (hT : TargetsOk s.insts) (h : stripNoops s = .ok s')
    (i : Nat) (x : Instr w) (hx : s.insts[i]? = some x) (hk : keep x = true) :
    s'.live[pos s.insts i]? = s.live[i]? :=
  (stripNoops_rel s s' hl hT h 0 0 0 0 0 0).live i x hx hk
example (p q : Program w) (R : StripRel p q) (I : Array (List Nat)) (h : InitFacts p I) :
    InitFacts q (stripArr I p.insts) := initFacts_strip R h
example (p q : Program w) (numRegs : Nat) (R : StripRel p q) (O : Array (List Nat)) (h : LiveFacts p numRegs O) :
    LiveFacts q numRegs (stripArr O p.insts) := liveFacts_strip R h

example (s s4 : St w) (h : LatePre s) (fuse : Bool) (h4 : latePasses fuse s = .ok s4) (t : Nat) (mn mx : Int)
    (I : Array (List Nat)) (hI : InitFacts (progOf s t mn mx) I) (t' : Nat) (mn' mx' : Int) :
    ∃ I', InitFacts (progOf s4 t' mn' mx') I' := latePasses_initFacts s s4 h fuse h4 hI t' mn' mx'
example (s s4 : St w) (h : LatePre s) (fuse : Bool) (h4 : latePasses fuse s = .ok s4) (numRegs t : Nat)
    (mn mx : Int) (O : Array (List Nat)) (hO : LiveFacts (progOf s t mn mx) numRegs O) (t' : Nat) (mn' mx' : Int) :
    ∃ O', LiveFacts (progOf s4 t' mn' mx') numRegs O' := latePasses_liveFacts s s4 h fuse h4 hO t' mn' mx'

/-! ### 5. The program returned by `translate` -/

example (prog : Ir.Block w) (numRegs : Nat) (fuse : Bool) (p : Program w)
    (h : translateE prog numRegs fuse = .ok p) :
    initOk p (initSolve p) = true ∧ liveOk p numRegs (liveSolve p) = true := translateE_initOk_liveOk h

/-- Hence `check` reduces to `localOk`. -/
example (prog : Ir.Block w) (numRegs : Nat) (fuse : Bool) (p : Program w)
    (h : translateE prog numRegs fuse = .ok p) : check p numRegs = localOk p := by
  obtain ⟨h1, h2⟩ := translateE_initOk_liveOk h
  simp [check, h1, h2]

example (prog : Ir.Block w) (numRegs : Nat) (fuse : Bool) (p : Program w)
    (h : translateE prog numRegs fuse = .ok p) (limited : Bool) (c : Cfg w) (W : List Nat) (ins : Instr w)
    (hw : Wr p limited c W) (hi : p.insts[c.pc]? = some ins) : ∀ t ∈ BcWf.uses ins, t ∈ W :=
  translateE_no_uninit_read h hw hi
example (prog : Ir.Block w) (numRegs : Nat) (fuse : Bool) (p : Program w)
    (h : translateE prog numRegs fuse = .ok p) (i : Nat) (ins : Instr w) (hi : p.insts[i]? = some ins) :
    ∀ t ∈ BcWf.uses ins ++ BcWf.defs ins, t < p.temps := translateE_temps_lt h hi

/-! ### 6. Evaluation -/

example (numRegs : Nat) (s : St 8) : allocContract numRegs s =
    (allocateTemps numRegs s).toOption.map (fun s' =>
      (initOk (progOf s' (countTemps s'.insts) (-8) 8) (initSolve (progOf s' (countTemps s'.insts) (-8) 8)),
       liveOk (progOf s' (countTemps s'.insts) (-8) 8) numRegs (liveSolve (progOf s' (countTemps s'.insts) (-8) 8)))) :=
  rfl
example : allocContract 2 exFuseGood = some (true, true) ∧ allocContract 0 exFuseGood = some (true, true) ∧
    allocContract 1 exFlowGood = some (true, true) := alloc_contract_examples
/-- Without `flow` the liveness clause fails (the pass succeeds and the checker rejects its output). -/
example : comps exFlowBad = [true, true, true, true, false, true, true, true, true] ∧
    allocContract 1 exFlowBad = some (true, false) := alloc_flow_needed_for_liveOk
example (numRegs : Nat) (s' : St 8) (h : allocateTemps numRegs exFuseGood = .ok s') :
    initOk (progOf s' (countTemps s'.insts) 0 0) (initSolve (progOf s' (countTemps s'.insts) 0 0)) = true ∧
    liveOk (progOf s' (countTemps s'.insts) 0 0) numRegs (liveSolve (progOf s' (countTemps s'.insts) 0 0)) = true :=
  alloc_contract_exFuseGood numRegs s' h

end C02
end Hpbf

#print axioms Hpbf.C02.Alloc.alloc_initOk_of_facts
#print axioms Hpbf.C02.Alloc.alloc_liveOk_of_facts
#print axioms Hpbf.C02.Alloc.alloc_initSolve_complete
#print axioms Hpbf.C02.Alloc.alloc_initSolve_facts'
#print axioms Hpbf.C02.Alloc.alloc_liveSolve_complete
#print axioms Hpbf.C02.Alloc.liveMask_testBit
#print axioms Hpbf.C02.Alloc.alloc_step_mask
#print axioms Hpbf.C02.Alloc.held_zero
#print axioms Hpbf.C02.Alloc.held_uses
#print axioms Hpbf.C02.Alloc.held_succ
#print axioms Hpbf.C02.Alloc.held_jump
#print axioms Hpbf.C02.Alloc.held_mask
#print axioms Hpbf.C02.Alloc.alloc_initFacts
#print axioms Hpbf.C02.Alloc.alloc_liveFacts
#print axioms Hpbf.C02.allocateTemps_initOk
#print axioms Hpbf.C02.allocateTemps_liveOk
#print axioms Hpbf.C02.allocateTemps_initOk_of_emit
#print axioms Hpbf.C02.allocateTemps_liveOk_of_emit
#print axioms Hpbf.C02.allocateTemps_contract_of_emit
#print axioms Hpbf.C02.Alloc.tmpSim_reorderInst
#print axioms Hpbf.C02.Alloc.zeroingMoveDetection_sim
#print axioms Hpbf.C02.Alloc.initFacts_of_sim
#print axioms Hpbf.C02.Alloc.liveFacts_of_sim
#print axioms Hpbf.C02.Alloc.stripNoops_rel
#print axioms Hpbf.C02.Alloc.initFacts_strip
#print axioms Hpbf.C02.Alloc.liveFacts_strip
#print axioms Hpbf.C02.latePasses_initFacts
#print axioms Hpbf.C02.latePasses_liveFacts
#print axioms Hpbf.C02.translateE_initOk_liveOk
#print axioms Hpbf.C02.translateE_no_uninit_read
#print axioms Hpbf.C02.translateE_temps_lt
#print axioms Hpbf.C02.alloc_contract_examples
#print axioms Hpbf.C02.alloc_flow_needed_for_liveOk
#print axioms Hpbf.C02.alloc_contract_exFuseGood
