/-
C09 — "For every sequence of pointer moves, writes, reads, accessibility requests and bounds
queries on a tape object, each read returns the value most recently written to that logical cell
(0 if never written), reads never allocate, a requested range is reported accessible afterwards,
and growth in either direction preserves both contents and the logical pointer."

Property theorems only; definitions and lemmas are in `Hpbf/Proofs/C09.lean`, the model of
`runtime::Memory<C>` is `Hpbf/Mem.lean`.

Vocabulary (all from `Hpbf/Proofs/C09.lean`):
* `WF m        := m.size = m.buf.size ∧ m.offset < 2^64`             representation invariant
* `Small m     := m.size < 2^59 ∧ -2^59 < (m.offset as isize) < 2^59` range guard on a state
* `SmallArg x  := -2^59 < x < 2^59`                                    range guard on an argument
* `m.cell off`  the logical cell at `off` from the pointer: the buffer element at
  `(offset as isize) + off` if that lies in `[0, size)`, else `0`
* `Spec`        abstract tape `Int → BitVec w` plus pointer; `Abs m s := ∀ off, m.cell off =
  s.tape (s.ptr + off)`
* `Guard m op := Small m ∧ (arguments of op are SmallArg)`; `GuardAll m ops` = `Guard` at every
  intermediate state of the concrete run.
Outside the guard no claim is made (the model says what wraps there).  Why `2^59` covers what the
real code can reach before the allocator fails is explained at the top of `Proofs/C09.lean`.

Each implication is followed by an `example` of a non-trivial state/arguments satisfying its
hypotheses (the state after `write (-100) 1` on `Memory::new()`: size 100, offset 100).
-/
import Hpbf.Proofs.C09

namespace Hpbf.C09
open Hpbf Hpbf.Mem

variable {w : Nat}

/-- Witness state used by the `example`s: `Memory::<u8>::new()` after `write(-100, 1)`. -/
def witness : Mem 8 := (Mem.new : Mem 8).write (-100) 1#8

example : witness.size = 100 ∧ witness.offset = 100 ∧ WF witness ∧ Small witness := by decide

/-! ## 1. read / check -/

/-- A read returns the logical cell. -/
theorem read_eq_cell {m : Mem w} {off : Int} (hs : Small m) (ho : SmallArg off) :
    m.read off = m.cell off :=
  read_eq_cell' hs ho

example : Small witness ∧ SmallArg (-100) := by decide
example : Small witness ∧ SmallArg 1000000000000 := by decide

/-- Reads never allocate.  Remark: `Mem.read : Mem w → Int → BitVec w` is a pure function that
returns only a value, so there is no state it could change; as a statement about the step
function used in the history theorem: the state after a `read` step (and after a `check` step) is
the state before it, buffer, size and offset included. -/
theorem read_no_alloc (m : Mem w) (off : Int) :
    (m.apply (.read off)).1 = m ∧ (m.apply (.check off)).1 = m :=
  ⟨rfl, rfl⟩

/-- `check` answers exactly "the logical position is inside the allocation". -/
theorem check_iff {m : Mem w} {off : Int} (hs : Small m) (ho : SmallArg off) :
    m.check off = true ↔ 0 ≤ asI64 m.offset + off ∧ asI64 m.offset + off < m.size :=
  check_iff' hs ho

example : Small witness ∧ SmallArg (-101) := by decide

/-! ## 2. mov -/

/-- Moving the pointer by `d` shifts the logical view by `d` (for every `off`, however far). -/
theorem mov_cell {m : Mem w} {d : Int} (hs : Small m) (hd : SmallArg d) (off : Int) :
    (m.mov d).cell off = m.cell (off + d) :=
  mov_cell' hs hd off

theorem mov_wf {m : Mem w} (d : Int) (hwf : WF m) : WF (m.mov d) :=
  Mem.mov_wf d hwf

example : WF witness ∧ Small witness ∧ SmallArg (-123456789012345) := by decide

/-! ## 3. write (including `write_out_of_bounds`) -/

/-- A write changes exactly the addressed logical cell; every other cell and the logical pointer
are preserved, whether or not the write had to grow the allocation. -/
theorem write_cell {m : Mem w} {off : Int} (v : BitVec w) (hwf : WF m) (hs : Small m)
    (ho : SmallArg off) (off' : Int) :
    (m.write off v).cell off' = if off' = off then v else m.cell off' :=
  write_cell' v hwf hs ho off'

theorem write_wf {m : Mem w} {off : Int} (v : BitVec w) (hwf : WF m) (hs : Small m)
    (ho : SmallArg off) : WF (m.write off v) :=
  write_wf' v hwf hs ho

-- an out-of-bounds write above and one below the allocation of the witness state
example : WF witness ∧ Small witness ∧ SmallArg 5000 ∧ witness.check 5000 = false := by decide
example : WF witness ∧ Small witness ∧ SmallArg (-5000) ∧ witness.check (-5000) = false := by decide

/-! ## 4. make_accessible -/

/-- The numbers computed by the model's `make_accessible` are, under the guard, the wrap-free
`neededBelow = max 0 (-(offset + a))`, `neededAbove = max 0 (offset + b - size)`,
`newSize = size + max (size / 2) (neededBelow + neededAbove)` and the three-case `addedBelow`. -/
theorem makeAccessible_growth {m : Mem w} {a b : Int} (hs : Small m)
    (ha : SmallArg a) (hb : SmallArg b) :
    m.growth a b = (m.neededBelow a, m.neededAbove b, m.newSize a b, m.addedBelow a b) :=
  growth_eq hs (Int.le_of_lt ha.1) (Int.le_of_lt ha.2) (Int.le_of_lt hb.1) (Int.le_of_lt hb.2)

/-- Growth in either or both directions preserves every logical cell (contents) … -/
theorem makeAccessible_cell {m : Mem w} {a b : Int} (hwf : WF m) (hs : Small m)
    (ha : SmallArg a) (hb : SmallArg b) (off : Int) :
    (m.makeAccessible a b).cell off = m.cell off :=
  makeAccessible_cell' hwf hs (Int.le_of_lt ha.1) (Int.le_of_lt ha.2) (Int.le_of_lt hb.1)
    (Int.le_of_lt hb.2) off

/-- … and the logical pointer: the physical offset moves up by exactly the number of cells added
below (`0` when nothing is needed). -/
theorem makeAccessible_offset {m : Mem w} {a b : Int} (hwf : WF m) (hs : Small m)
    (ha : SmallArg a) (hb : SmallArg b) :
    asI64 (m.makeAccessible a b).offset =
      asI64 m.offset + (if NoGrowth m a b then 0 else m.addedBelow a b : Nat) :=
  (makeAccessible_grown hwf hs (Int.le_of_lt ha.1) (Int.le_of_lt ha.2) (Int.le_of_lt hb.1)
    (Int.le_of_lt hb.2)).offset

theorem makeAccessible_wf {m : Mem w} {a b : Int} (hwf : WF m) (hs : Small m)
    (ha : SmallArg a) (hb : SmallArg b) : WF (m.makeAccessible a b) :=
  makeAccessible_wf' hwf hs (Int.le_of_lt ha.1) (Int.le_of_lt ha.2) (Int.le_of_lt hb.1)
    (Int.le_of_lt hb.2)

/-- A requested range is reported accessible afterwards. -/
theorem makeAccessible_check {m : Mem w} {a b i : Int} (hwf : WF m) (hs : Small m)
    (ha : SmallArg a) (hb : SmallArg b) (hi1 : a ≤ i) (hi2 : i < b) :
    (m.makeAccessible a b).check i = true :=
  makeAccessible_check' hwf hs (Int.le_of_lt ha.1) (Int.le_of_lt ha.2) (Int.le_of_lt hb.1)
    (Int.le_of_lt hb.2) hi1 hi2

/-- The new size: unchanged when nothing is needed (`NoGrowth m a b ↔ 0 ≤ offset + a ∧ offset + b ≤
size`, `noGrowth_iff`), otherwise exactly `size + max (size / 2) (neededBelow + neededAbove)`. -/
theorem makeAccessible_size {m : Mem w} {a b : Int} (hs : Small m)
    (ha : SmallArg a) (hb : SmallArg b) :
    (m.makeAccessible a b).size =
      if NoGrowth m a b then m.size
      else m.size + max (m.size / 2) (m.neededBelow a + m.neededAbove b) :=
  makeAccessible_size' hs (Int.le_of_lt ha.1) (Int.le_of_lt ha.2) (Int.le_of_lt hb.1)
    (Int.le_of_lt hb.2)

/-- The form asked for: unchanged, or at least `size + max (size / 2) (needed)`. -/
theorem makeAccessible_size_ge {m : Mem w} {a b : Int} (hs : Small m)
    (ha : SmallArg a) (hb : SmallArg b) :
    (NoGrowth m a b ∧ (m.makeAccessible a b).size = m.size) ∨
    (¬ NoGrowth m a b ∧
      (m.makeAccessible a b).size ≥ m.size + max (m.size / 2) (m.neededBelow a + m.neededAbove b)) := by
  rw [makeAccessible_size hs ha hb]
  by_cases h : NoGrowth m a b
  · exact Or.inl ⟨h, by rw [if_pos h]⟩
  · exact Or.inr ⟨h, by rw [if_neg h]; exact Nat.le_refl _⟩

/-- What the three-case `match` for `added_below` guarantees (no hypotheses: pure arithmetic on the
wrap-free quantities): always `neededBelow ≤ addedBelow ≤ (newSize - size) - neededAbove`;
`(0, _) ⇒ 0`; `(_, 0) ⇒` all new cells go below; otherwise it is the larger of `neededBelow` and
half the new cells, capped by `(newSize - size) - neededAbove`. -/
theorem makeAccessible_addedBelow (m : Mem w) (a b : Int) :
    m.neededBelow a ≤ m.addedBelow a b ∧
    m.addedBelow a b + m.neededAbove b ≤ m.newSize a b - m.size ∧
    (m.neededBelow a = 0 → m.addedBelow a b = 0) ∧
    (m.neededBelow a ≠ 0 → m.neededAbove b = 0 → m.addedBelow a b = m.newSize a b - m.size) ∧
    (m.neededBelow a ≠ 0 → m.neededAbove b ≠ 0 →
      m.addedBelow a b = max (m.neededBelow a) ((m.newSize a b - m.size) / 2) ∨
      m.addedBelow a b = m.newSize a b - m.size - m.neededAbove b) :=
  addedBelow_bounds m a b

-- a range that extends below and above the allocation of the witness state at once
example : WF witness ∧ Small witness ∧ SmallArg (-3000) ∧ SmallArg 7000 ∧
    witness.neededBelow (-3000) = 2900 ∧ witness.neededAbove 7000 = 7000 ∧
    ¬ NoGrowth witness (-3000) 7000 ∧ witness.addedBelow (-3000) 7000 = 2900 := by decide
-- a range that needs nothing
example : NoGrowth witness (-100) 0 := by decide

/-! ## 5. byte pointers (`current_ptr`, `set_current_ptr`, `check_ptr`) -/

/-- `set_current_ptr(current_ptr())` is the identity, for the four Rust cell widths. -/
theorem setCurrentPtr_currentPtr {m : Mem w} (hw : w = 8 ∨ w = 16 ∨ w = 32 ∨ w = 64)
    (hwf : WF m) (hs : Small m) :
    m.setCurrentPtr m.currentPtr = m :=
  setCurrentPtr_currentPtr' hw hwf hs

/-- `check_ptr(current_ptr().wrapping_offset(off))` is `check(off)`. -/
theorem checkPtr_currentPtr {m : Mem w} {off : Int} (hw : w = 8 ∨ w = 16 ∨ w = 32 ∨ w = 64)
    (hwf : WF m) (hs : Small m) (ho : SmallArg off) :
    m.checkPtr (wrapU64 ((m.currentPtr : Int) + off * (cellBytes w : Int))) = m.check off :=
  checkPtr_currentPtr' hw hwf hs ho

-- a state with a negative `offset as isize` (pointer moved far below the allocation), 64-bit cells
example : let m : Mem 64 := ((Mem.new : Mem 64).write 3 5#64).mov (-1000000)
    WF m ∧ Small m ∧ asI64 m.offset = -1000000 ∧ m.size = 4 ∧ SmallArg (-77) := by decide

-- the guard is not gratuitous: with 8-byte cells and `offset = 2^60` the byte pointer wraps in an
-- `isize` and `set_current_ptr(current_ptr())` lands on a different offset (`2^64 - 2^60`)
example : let m : Mem 64 := { buf := #[], size := 0, offset := 2 ^ 60 }
    WF m ∧ ¬ Small m ∧ (m.setCurrentPtr m.currentPtr).offset = 2 ^ 64 - 2 ^ 60 := by decide

/-! ## 6. every call history -/

/-- The history theorem: along any finite sequence of mov / read / write / make_accessible / check
calls whose intermediate states and arguments stay inside the range guard, the model of `Memory`
refines the abstract unbounded tape: the outputs (one slot per call, the value for reads) are
equal, the final states are related, and the representation invariant holds. -/
theorem history_refines (ops : List (MemOp w)) (m : Mem w) (s : Spec w)
    (hwf : WF m) (habs : Abs m s) (hg : GuardAll m ops) :
    let (m', outs) := m.run ops
    let (s', outs') := s.run ops
    outs = outs' ∧ Abs m' s' ∧ WF m' :=
  history_refines' ops m s hwf habs hg

/-- Corollary, from `Memory::new()`: every read returns the value most recently written to that
logical cell, `0` if it was never written.  `pre` is the history before the read, `post` anything
after it (unconstrained); `MemOp.ptrAfter 0 pre` is the logical pointer (sum of the moves) and
`MemOp.lastWrite 0 pos pre` the last value written to logical position `pos` by `pre`, if any. -/
theorem history_reads (pre post : List (MemOp w)) (off : Int)
    (hg : GuardAll (Mem.new : Mem w) (pre ++ [MemOp.read off])) :
    ((Mem.new : Mem w).run (pre ++ MemOp.read off :: post)).2[pre.length]? =
      some (some ((MemOp.lastWrite 0 (MemOp.ptrAfter 0 pre + off) pre).getD 0#w)) := by
  have e : pre ++ MemOp.read off :: post = (pre ++ [MemOp.read off]) ++ post := by simp
  rw [e, run_prefix_out _ _ _ _ (by simp)]
  rw [(history_refines' _ _ _ wf_new abs_new hg).1]
  exact Spec.run_read_out pre [] off

/-- A history with growth below, far moves, growth on both sides at once, and revisits. -/
def sampleOps : List (MemOp 8) :=
  [.write (-100) 1#8, .mov 1000000, .read (-1000100), .makeAccessible (-2000000) 50, .check (-5),
   .write 7 3#8, .mov (-1000000), .read 1000007, .read (-100), .mov (-123456789012345), .read 9]

example : WF (Mem.new : Mem 8) ∧ Abs (Mem.new : Mem 8) Spec.zero ∧
    GuardAll (Mem.new : Mem 8) sampleOps :=
  ⟨wf_new, abs_new, by decide⟩

-- what the abstract side says about that history (reads: 1, 3, 1, 0)
example : ((Spec.zero : Spec 8).run sampleOps).2 =
    [none, none, some 1#8, none, none, none, none, some 3#8, some 1#8, none, some 0#8] := by decide

end Hpbf.C09

#print axioms Hpbf.C09.read_eq_cell
#print axioms Hpbf.C09.read_no_alloc
#print axioms Hpbf.C09.check_iff
#print axioms Hpbf.C09.mov_cell
#print axioms Hpbf.C09.mov_wf
#print axioms Hpbf.C09.write_cell
#print axioms Hpbf.C09.write_wf
#print axioms Hpbf.C09.makeAccessible_growth
#print axioms Hpbf.C09.makeAccessible_cell
#print axioms Hpbf.C09.makeAccessible_offset
#print axioms Hpbf.C09.makeAccessible_wf
#print axioms Hpbf.C09.makeAccessible_check
#print axioms Hpbf.C09.makeAccessible_size
#print axioms Hpbf.C09.makeAccessible_size_ge
#print axioms Hpbf.C09.makeAccessible_addedBelow
#print axioms Hpbf.C09.setCurrentPtr_currentPtr
#print axioms Hpbf.C09.checkPtr_currentPtr
#print axioms Hpbf.C09.history_refines
#print axioms Hpbf.C09.history_reads
