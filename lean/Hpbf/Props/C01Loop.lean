/-
C01, loop optimisations of the optimizer model `Hpbf/Opt.lean` (`analyzeLoop`, `constantsAmong`, `linearAmong`,
`loopMotion`, `splitAlong`, `reduceConst`, and the loop of `finishLoop` that calls them): the PURE ALGEBRA,
over memories `Mem w = Int → BitVec w` and simultaneous assignments (`Hpbf/Proofs/OptSem.lean`).
Property theorems only; definitions and lemmas are in `Hpbf/Proofs/OptLoop*.lean` (namespace `Hpbf.OptLoop`).

Vocabulary (all defined in the `Proofs` files, restated here by their defining equations or unfolded):

* `run body P m0 k`   – memory at the start of round `k` of the loop whose round is
                        `m ↦ Mem.par P (body k m)`: the emitted instructions of the body (`body k`, an arbitrary
                        memory transformer, possibly different in every round) followed by the pending simultaneous
                        assignment `P`.  `mid body P m0 k = body k (run body P m0 k)`.
                        With `body = fun _ m => m` this is `Mem.iter P k m0`.
* `RunsExactly cv n`  – for the sequence `cv` of values of the condition cell at the successive tests: the first `n`
                        tests succeed and the next one fails.  `Diverges cv`: no test fails.  `Live cv k`: round `k` runs.
* `LoopMeaning L cv cond` – the meaning of the flags and of the trip-count expression of an `OptLoop`.
* `Good s ps sub C c` – `c` passed the `compare` tests of `constants_among` and every variable of its written/pending
                        expression is `c` itself or in `C`.
* `MotionCase …`      – the six outcomes of `loopMotion`.   `MovedSem`: meaning of a moved variable.
* `MotionAll … B D A` – the three assignments (before / during / after) agree with `loopMotion` variable by variable.

Sections: D expression lemmas, B trip counts and `analyzeLoop`, A `constantsAmong` / `linearAmong`,
C `loopMotion` (one variable, all variables, link to `finishLoop`), examples.
-/
import Hpbf.Proofs.OptLoopTop

namespace Hpbf.C01Loop
open Hpbf Opt OptSem Expr OptLoop

variable {w : Nat}

/-! ### 0. Vocabulary -/

theorem run_zero (body : Nat → Mem w → Mem w) (P : List (Int × Expr w)) (m0 : Mem w) :
    run body P m0 0 = m0 := rfl
theorem run_succ (body : Nat → Mem w → Mem w) (P : List (Int × Expr w)) (m0 : Mem w) (k : Nat) :
    run body P m0 (k + 1) = Mem.par P (body k (run body P m0 k)) := rfl
theorem mid_eq (body : Nat → Mem w → Mem w) (P : List (Int × Expr w)) (m0 : Mem w) (k : Nat) :
    mid body P m0 k = body k (run body P m0 k) := rfl
/-- Without emitted instructions the rounds are `Mem.iter`. -/
theorem run_id (P : List (Int × Expr w)) (m0 : Mem w) (k : Nat) :
    run (fun _ m => m) P m0 k = Mem.iter P k m0 := OptLoop.run_id P m0 k

theorem runsExactly_iff (cv : Nat → BitVec w) (n : Nat) :
    RunsExactly cv n ↔ (∀ k, k < n → cv k ≠ 0#w) ∧ cv n = 0#w := Iff.rfl
theorem diverges_iff (cv : Nat → BitVec w) : Diverges cv ↔ ∀ k, cv k ≠ 0#w := Iff.rfl
theorem live_iff (cv : Nat → BitVec w) (k : Nat) : Live cv k ↔ ∀ j, j ≤ k → cv j ≠ 0#w := Iff.rfl
theorem runsExactly_unique {cv : Nat → BitVec w} {n n' : Nat} (h : RunsExactly cv n)
    (h' : RunsExactly cv n') : n = n' := OptLoop.runsExactly_unique h h'

theorem accN_zero (g : Nat → BitVec w) : accN g 0 = 0#w := rfl
theorem accN_succ (g : Nat → BitVec w) (n : Nat) : accN g (n + 1) = accN g n + g n := rfl
theorem sumL_nil {α : Type} (g : α → BitVec w) : sumL g [] = 0#w := rfl
theorem sumL_cons {α : Type} (g : α → BitVec w) (a : α) (l : List α) :
    sumL g (a :: l) = g a + sumL g l := rfl

/-! ### D. Expression lemmas -/

/-- The value of an expression only depends on the variables that occur in it. -/
theorem ev_congr (e : Expr w) (m m' : Mem w) (h : ∀ v ∈ Expr.variables e, m v = m' v) :
    ev e m = ev e m' := OptLoop.ev_congr e m m' h

/-- Substitution does not invent variables. -/
theorem symbEvaluate_varsIn {S : Int → Prop} (g : Int → Option (Expr w)) (e r : Expr w)
    (hg : ∀ v ∈ Expr.variables e, ∀ e', g v = some e' → ∀ x ∈ Expr.variables e', S x)
    (h : symbEvaluate e g = some r) : ∀ x ∈ Expr.variables r, S x :=
  varsIn_iff.1 (OptLoop.symbEvaluate_varsIn g e r (fun v hv e' he' => varsIn_iff.2 (hg v hv e' he')) h)

theorem groupedVars_eq (e : Expr w) : groupedVars e = e.map (·.vars) := rfl
theorem mem_variables_iff_groupedVars (e : Expr w) (v : Int) :
    v ∈ Expr.variables e ↔ ∃ g ∈ groupedVars e, v ∈ g := OptLoop.mem_variables_iff_groupedVars e v

/-- `shiftVars`: renaming every variable `v` to `v + shift`. -/
theorem shiftVars_value (e : Expr w) (shift : Int) (m : Mem w) :
    ev (shiftVars e shift) m = ev e (fun v => m (v + shift)) := ev_shiftVars e shift m
theorem shiftVars_variables (e : Expr w) (shift : Int) :
    Expr.variables (shiftVars e shift) = (Expr.variables e).map (· + shift) :=
  OptLoop.shiftVars_variables e shift
theorem shiftVars_zero (e : Expr w) : shiftVars e 0 = e := OptLoop.shiftVars_zero e

/-- `reduceConst` never fails … -/
theorem reduceConst_total (s : Rebuild w) (ps : List (Rebuild w)) (e : Expr w) (constant : List Int) :
    ∃ e', reduceConst s ps e constant = .ok e' := OptLoop.reduceConst_total s ps e constant
/-- … keeps the value on every memory in which the known constants occurring in `e` have their known values … -/
theorem reduceConst_value (s : Rebuild w) (ps : List (Rebuild w)) (e e' : Expr w) (constant : List Int)
    (h : reduceConst s ps e constant = .ok e') (f : Mem w)
    (hf : ∀ i ∈ Expr.variables e, constant.contains i = true →
      ∀ c, getConstant s ps i = some c → f i = c) :
    ev e' f = ev e f := OptLoop.reduceConst_value s ps e e' constant h f hf
/-- … does not invent variables and keeps the normal form. -/
theorem reduceConst_varsIn (s : Rebuild w) (ps : List (Rebuild w)) (e e' : Expr w) (constant : List Int)
    (h : reduceConst s ps e constant = .ok e') :
    ∀ x ∈ Expr.variables e', x ∈ Expr.variables e := OptLoop.reduceConst_varsIn s ps e e' constant h
theorem reduceConst_canon (s : Rebuild w) (ps : List (Rebuild w)) (e e' : Expr w) (constant : List Int)
    (h : reduceConst s ps e constant = .ok e') (hc : Canon e) : Canon e' :=
  OptLoop.reduceConst_canon s ps e e' constant h hc

/-- `splitAlong`: the expression is the sum of the constant part, the other part and the linear parts (their
`initial` components); the constant part is over constants; every part comes from the expression; every linear
part is a `LinPart`. -/
theorem splitAlong_recompose (e : Expr w) (constant : List Int) (linear : List (Int × Expr w))
    (cst other : Expr w) (lins : List (Expr w × Expr w))
    (h : splitAlong e constant linear = .ok (cst, other, lins)) :
    (∀ f : Mem w, ev e f = ev cst f + ev other f + sumL (fun il => ev il.1 f) lins) ∧
    (∀ x ∈ Expr.variables cst, constant.contains x = true) ∧
    (∀ p ∈ cst, p ∈ e) ∧ (∀ p ∈ other, p ∈ e) ∧
    (∀ il ∈ lins, LinPart constant linear e il) :=
  OptLoop.splitAlong_recompose e constant linear cst other lins h

/-- A linear part `(initial, increment)`: `initial` is one part of the expression with exactly one non-constant
variable `lv`, which is linear with increment `l`; `initial = lv * rest`, `increment = rest * l`, `rest` over
constants. -/
theorem linPart_value {constant : List Int} {linear : List (Int × Expr w)} {e : Expr w}
    {il : Expr w × Expr w} (h : LinPart constant linear e il) :
    ∃ (part : Part w) (lv : Int) (l : Expr w),
      part ∈ e ∧ il.1 = [part] ∧ lv ∈ part.vars ∧ constant.contains lv = false ∧
      mGet linear lv = some l ∧
      (∀ x ∈ part.vars, x = lv ∨ constant.contains x = true) ∧
      ∀ f : Mem w,
        ev il.1 f = f lv * ev [incPart part lv] f ∧
        ev il.2 f = ev [incPart part lv] f * ev l f := OptLoop.linPart_value h

/-! ### B. Trip counts and `analyzeLoop` -/

/-- Constant step, `tripCount = some n`: exactly `n.toNat` rounds. -/
theorem tripCount_runs (hw : 0 < w) (cv : Nat → BitVec w) (inc n : BitVec w)
    (hrec : ∀ k, Live cv k → cv (k + 1) = cv k + inc)
    (h : OptArith.tripCount (cv 0) inc = some n) : RunsExactly cv n.toNat :=
  OptLoop.tripCount_runs hw cv inc n hrec h

/-- Constant step, `tripCount = none`: the loop never leaves. -/
theorem tripCount_diverges (hw : 0 < w) (cv : Nat → BitVec w) (inc : BitVec w)
    (hrec : ∀ k, Live cv k → cv (k + 1) = cv k + inc)
    (h : OptArith.tripCount (cv 0) inc = none) : Diverges cv :=
  OptLoop.tripCount_diverges hw cv inc hrec h

/-- Odd constant step: `(inv * x).toNat` rounds from the initial value `x`. -/
theorem tripInv_runs (hw : 0 < w) (cv : Nat → BitVec w) (inc inv : BitVec w)
    (hrec : ∀ k, Live cv k → cv (k + 1) = cv k + inc)
    (h : OptArith.tripInv inc = some inv) : RunsExactly cv (inv * cv 0).toNat :=
  OptLoop.tripInv_runs hw cv inc inv hrec h

/-- The same for `Mem.iter` (balanced loop, no emitted instructions). -/
theorem tripCount_iter (hw : 0 < w) (P : List (Int × Expr w)) (cond : Int) (c n : BitVec w) (m0 : Mem w)
    (hstep : ∀ m : Mem w, Mem.par P m cond = m cond + c)
    (h : OptArith.tripCount (m0 cond) c = some n) :
    RunsExactly (fun k => Mem.iter P k m0 cond) n.toNat :=
  OptLoop.tripCount_iter hw P cond c n m0 hstep h
theorem tripCount_iter_none (hw : 0 < w) (P : List (Int × Expr w)) (cond : Int) (c : BitVec w) (m0 : Mem w)
    (hstep : ∀ m : Mem w, Mem.par P m cond = m cond + c)
    (h : OptArith.tripCount (m0 cond) c = none) :
    Diverges (fun k => Mem.iter P k m0 cond) :=
  OptLoop.tripCount_iter_none hw P cond c m0 hstep h
theorem tripInv_iter (hw : 0 < w) (P : List (Int × Expr w)) (cond : Int) (c inv : BitVec w) (m0 : Mem w)
    (hstep : ∀ m : Mem w, Mem.par P m cond = m cond + c)
    (h : OptArith.tripInv c = some inv) :
    RunsExactly (fun k => Mem.iter P k m0 cond) (inv * m0 cond).toNat :=
  OptLoop.tripInv_iter hw P cond c inv m0 hstep h

/-- The fields of `LoopMeaning`. -/
theorem loopMeaning_iff (L : OptLoop w) (cv : Nat → BitVec w) (cond : Int) :
    LoopMeaning L cv cond ↔
      (L.never = true → cv 0 = 0#w) ∧
      (L.atLeastOnce = true → cv 0 ≠ 0#w) ∧
      (L.atMostOnce = true → cv 0 = 0#w ∨ cv 1 = 0#w) ∧
      (L.finite = true → ∃ n, RunsExactly cv n) ∧
      (L.noContinue = true → Diverges cv) ∧
      (L.noEffect = true → cv 0 = 0#w ∨ Diverges cv) ∧
      (∀ e, L.expr = some e →
        ((∃ c, e = Expr.val c) ∨
          (∃ inv, Cell.isOdd inv = true ∧ e = Expr.mul (Expr.val inv) (Expr.var cond))) ∧
        ∀ m0 : Mem w, m0 cond = cv 0 →
          ∃ n, RunsExactly cv n ∧ n < 2 ^ w ∧ ev e m0 = BitVec.ofNat w n) :=
  ⟨fun h => ⟨h.never, h.atLeastOnce, h.atMostOnce, h.finite, h.noContinue, h.noEffect, h.expr⟩,
   fun h => ⟨h.1, h.2.1, h.2.2.1, h.2.2.2.1, h.2.2.2.2.1, h.2.2.2.2.2.1, h.2.2.2.2.2.2⟩⟩

/-- **`analyzeLoop` is sound** for a loop (or `if`) whose body returns, given the meaning of its queries
(`CondFacts`: `getConstant`/`isNonZero` on the parent at loop entry, `getConstant`/`getBoth` on the body state
for the condition cell). -/
theorem analyzeLoop_sound (hw : 0 < w) (s : Rebuild w) (ps : List (Rebuild w)) (sub : Rebuild w)
    (cond : Int) (isLoop : Bool) (cv : Nat → BitVec w) (hf : CondFacts s ps sub cond isLoop cv)
    (hnr : sub.noReturn = false) :
    LoopMeaning (analyzeLoop s ps sub cond isLoop) cv cond :=
  OptLoop.analyzeLoop_sound hw s ps sub cond isLoop cv hf hnr

/-- The fields of `CondFacts`. -/
theorem condFacts_iff (s : Rebuild w) (ps : List (Rebuild w)) (sub : Rebuild w) (cond : Int) (isLoop : Bool)
    (cv : Nat → BitVec w) :
    CondFacts s ps sub cond isLoop cv ↔
      (∀ c, getConstant s ps cond = some c → cv 0 = c) ∧
      (isNonZero s ps cond = true → cv 0 ≠ 0#w) ∧
      (isLoop = false → cv 0 ≠ 0#w → cv 1 = 0#w) ∧
      (∀ c, getConstant sub (s :: ps) (cond + sub.shift - s.shift) = some c →
        ∀ k, Live cv k → cv (k + 1) = c) ∧
      (∀ e, getBoth sub (s :: ps) (cond + sub.shift - s.shift) = some e →
        ∀ k, Live cv k → ∃ f : Mem w, f cond = cv k ∧ cv (k + 1) = ev e f) :=
  ⟨fun h => ⟨h.init, h.nz, h.ifOnce, h.stored, h.both⟩,
   fun h => ⟨h.1, h.2.1, h.2.2.1, h.2.2.2.1, h.2.2.2.2⟩⟩

/-- The body does not return: `OptLoop::no_return`, unless the loop is known not to be entered. -/
theorem analyzeLoop_noReturn (s : Rebuild w) (ps : List (Rebuild w)) (sub : Rebuild w)
    (cond : Int) (isLoop : Bool) (hnr : sub.noReturn = true) :
    (getConstant s ps cond = some 0#w ∧ analyzeLoop s ps sub cond isLoop = OptLoop.ofExpr (Expr.val 0#w)) ∨
    (getConstant s ps cond ≠ some 0#w ∧
      analyzeLoop s ps sub cond isLoop = OptLoop.noReturn (isNonZero s ps cond)) :=
  OptLoop.analyzeLoop_noReturn s ps sub cond isLoop hnr

theorem toAtLeastOnce_meaning {L : OptLoop w} {cv : Nat → BitVec w} {cond : Int}
    (h : LoopMeaning L cv cond) (h0 : cv 0 ≠ 0#w) : LoopMeaning L.toAtLeastOnce cv cond :=
  OptLoop.toAtLeastOnce_meaning h h0

/-- From the meaning of the analysis to the trip-count hypotheses of `loopMotion_all_sound`. -/
theorem tripFacts_of_meaning (hw : 0 < w) {L : OptLoop w} {cv : Nat → BitVec w} {cond : Int}
    (h : LoopMeaning L cv cond) (m0 : Mem w) (hm0 : m0 cond = cv 0) (n : Nat) (hn : RunsExactly cv n) :
    TripFacts L n m0 ∧ (L.atMostOnce = true → n ≤ 1) ∧ (L.noEffect = true → n = 0) :=
  OptLoop.tripFacts_of_meaning hw h m0 hm0 n hn

theorem tripFacts_iff (L : OptLoop w) (n : Nat) (m0 : Mem w) :
    TripFacts L n m0 ↔ ∀ expr, L.expr = some expr →
      ev expr m0 = BitVec.ofNat w n ∧ n < 2 ^ w ∧
      ∀ initial increment before r b, OptArith.triStep expr initial increment before = (b, r) → b ≠ 0 →
        ev r m0 = ev before m0 + C01Opt.tri (ev initial m0) (ev increment m0) n := Iff.rfl

/-! ### A. `constantsAmong`, `linearAmong` -/

/-- `Good`, unfolded. -/
theorem good_iff (s : Rebuild w) (ps : List (Rebuild w)) (sub : Rebuild w) (C : List Int) (c : Int) :
    Good s ps sub C c ↔ ∃ vs, IsCand s ps sub c vs ∧ ∀ x ∈ vs, x = c ∨ x ∈ C := Iff.rfl

theorem isCand_iff (s : Rebuild w) (ps : List (Rebuild w)) (sub : Rebuild w) (var : Int) (vs : List Int) :
    IsCand s ps sub var vs ↔
      match mGet sub.written var with
      | some (.known wr) =>
        compare s ps (Expr.var var) wr = .ok true ∧
          (match mGet sub.pending var with
           | some p => compare s ps (Expr.var var) p = .ok true ∧ vs = Expr.variables wr ++ Expr.variables p
           | none => vs = Expr.variables wr)
      | some _ => False
      | none =>
        match mGet sub.pending var with
        | some p => compare s ps (Expr.var var) p = .ok true ∧ vs = Expr.variables p
        | none => vs = [] := Iff.rfl

/-- **`constantsAmong`, syntactically** (the invariant of the work-list algorithm). -/
theorem constantsAmong_good (s : Rebuild w) (ps : List (Rebuild w)) (sub : Rebuild w) (vars : List Int)
    (C : List Int) (hnd : vars.Nodup) (h : constantsAmong s ps sub vars = .ok C) :
    ∀ c ∈ C, Good s ps sub C c := OptLoop.constantsAmong_good s ps sub vars C hnd h

/-- **`constantsAmong_sound`**: every variable of the result has, at the start and in the middle of every round,
the value it has at loop entry — if `compare s ps (var v) e = ok true` means that `e` has the value of `v` at loop
entry, and `sub.written` is right about the emitted instructions (`BodyFacts`). -/
theorem constantsAmong_sound (s : Rebuild w) (ps : List (Rebuild w)) (sub : Rebuild w) (vars : List Int)
    (C : List Int) (m0 : Mem w) (body : Nat → Mem w → Mem w)
    (hC : constantsAmong s ps sub vars = .ok C) (hnd : vars.Nodup)
    (hcmp : ∀ v e, compare s ps (Expr.var v) e = .ok true → ev e m0 = m0 v)
    (hb : BodyFacts sub body (run body sub.pending m0)) :
    ∀ k, ∀ c ∈ C, run body sub.pending m0 k c = m0 c ∧ mid body sub.pending m0 k c = m0 c :=
  OptLoop.constantsAmong_sound s ps sub vars C m0 body hC hnd hcmp hb

theorem bodyFacts_iff (sub : Rebuild w) (body : Nat → Mem w → Mem w) (M : Nat → Mem w) :
    BodyFacts sub body M ↔
      (∀ k v, mGet sub.written v = none → body k (M k) v = M k v) ∧
      (∀ k v e, mGet sub.written v = some (.known e) → body k (M k) v = ev e (M k)) :=
  ⟨fun h => ⟨h.unwritten, h.known⟩, fun h => ⟨h.1, h.2⟩⟩

/-- The simplest version: no emitted instructions, `n`-fold repetition of the pending assignment. -/
theorem constantsAmong_sound_iter (s : Rebuild w) (ps : List (Rebuild w)) (sub : Rebuild w)
    (vars : List Int) (C : List Int) (m0 : Mem w)
    (hC : constantsAmong s ps sub vars = .ok C) (hnd : vars.Nodup) (hwr : sub.written = [])
    (hcmp : ∀ v e, compare s ps (Expr.var v) e = .ok true → ev e m0 = m0 v) :
    ∀ n, ∀ c ∈ C, Mem.iter sub.pending n m0 c = m0 c :=
  OptLoop.constantsAmong_sound_iter s ps sub vars C m0 hC hnd hwr hcmp

/-- **`linearAmong`, syntactically.** -/
theorem linearAmong_spec (s : Rebuild w) (ps : List (Rebuild w)) (sub : Rebuild w) (constant : List Int)
    (vars : List Int) (v : Int) (inc : Expr w)
    (h : mGet (linearAmong s ps sub constant vars) v = some inc) :
    v ∈ vars ∧ mGet sub.written v = none ∧
    ∃ complete, getBoth sub (s :: ps) v = some complete ∧ Expr.incOf complete v = some inc ∧
      ∀ x ∈ Expr.variables inc, constant.contains x = true :=
  OptLoop.linearAmong_spec s ps sub constant vars v inc h

/-- **`linearAmong_sound`**: a linear variable is not written by the emitted instructions, its increment is over
constants and does not mention it, and `k` rounds add `k` times the value of the increment at loop entry — if
`getBoth` on the body state is the total effect of a round (`GetBothFacts`) and the constants are constant. -/
theorem linearAmong_sound (s : Rebuild w) (ps : List (Rebuild w)) (sub : Rebuild w) (C : List Int)
    (vars : List Int) (M : Nat → Mem w)
    (hgb : ∀ v e, getBoth sub (s :: ps) v = some e → WeakCanon e ∧ ∀ k, M (k + 1) v = ev e (M k))
    (hconst : ∀ k, ∀ c ∈ C, M k c = M 0 c)
    (v : Int) (inc : Expr w) (h : mGet (linearAmong s ps sub C vars) v = some inc) :
    mGet sub.written v = none ∧
    (∀ x ∈ Expr.variables inc, C.contains x = true) ∧
    v ∉ Expr.variables inc ∧
    (∀ k, M (k + 1) v = M k v + ev inc (M k)) ∧
    (∀ k, M k v = M 0 v + BitVec.ofNat w k * ev inc (M 0)) :=
  let r := OptLoop.linearAmong_sound s ps sub C vars M hgb hconst v inc h
  ⟨r.unwritten, r.overConst, r.fresh, r.step, r.closed⟩

/-! ### C. `loopMotion` -/

/-- The six outcomes of `loopMotion` (see `MotionCase` for the conditions attached to each). -/
theorem loopMotion_cases (s : Rebuild w) (ps : List (Rebuild w)) (var : Int) (p : Expr w)
    (complete : Bool) (reads C : List Int) (lin : List (Int × Expr w)) (otherPending : List Int)
    (L : OptLoop w) (r : Option (Expr w) × Option (Expr w) × Option (Expr w))
    (h : loopMotion s ps var p complete reads C lin otherPending L = .ok r) :
    MotionCase s ps var p complete reads C lin otherPending L r :=
  OptLoop.loopMotion_cases s ps var p complete reads C lin otherPending L r h

/-- The loop over the linear parts: moved parts add their triangular sum to `before`, the others stay. -/
theorem triFold_spec (expr : Expr w) (n : Nat) (m0 : Mem w) (E : Nat → Mem w) (htri : TriOk expr n m0)
    (linears : List (Expr w × Expr w))
    (hlin : ∀ il ∈ linears, ∀ k, ev il.1 (E k) = ev il.1 m0 + BitVec.ofNat w k * ev il.2 m0)
    (ba0 : Expr w × Expr w) :
    ev (linears.foldl (triFoldStep expr) ba0).1 m0
        + accN (fun k => ev (linears.foldl (triFoldStep expr) ba0).2 (E k)) n
      = ev ba0.1 m0 + accN (fun k => ev ba0.2 (E k)) n
        + sumL (fun il => C01Opt.tri (ev il.1 m0) (ev il.2 m0) n) linears :=
  (OptLoop.triFold_spec expr n m0 E htri linears hlin ba0).1

/-- `MovedSem`, unfolded. -/
theorem movedSem_iff (sub : Rebuild w) (body : Nat → Mem w → Mem w) (m0 : Mem w) (n : Nat) (var : Int)
    (p b : Expr w) (d : Option (Expr w)) :
    MovedSem sub body m0 n var p b d ↔
      ∃ dinc : Expr w,
        (d = some (Expr.add (Expr.var var) dinc) ∨ (d = none ∧ dinc = [])) ∧
        (∀ x ∈ Expr.variables dinc, x ∈ Expr.variables p ∧ x ≠ var) ∧
        ev b m0 + accN (fun k => ev dinc (mid body sub.pending m0 k)) n
          = run body sub.pending m0 n var := Iff.rfl

/-- **`loopMotion_sound`** (one variable, every outcome with a `before` expression: constant part times the trip
count, triangular sums, geometric closed forms): the value after `n` rounds of the original loop is `before`
evaluated at loop entry plus what `during` still adds, summed over the rounds. -/
theorem loopMotion_sound (hw : 0 < w) {s : Rebuild w} {ps : List (Rebuild w)} {sub : Rebuild w}
    {C : List Int} {lin : List (Int × Expr w)} {m0 : Mem w} {body : Nat → Mem w → Mem w}
    (ctx : MotionCtx s ps sub C lin m0 body) {var : Int}
    {p : Expr w} {complete : Bool} {reads otherPending : List Int} {L : OptLoop w} {n : Nat}
    {b : Expr w} {d a : Option (Expr w)}
    (hp : mGet sub.pending var = some p) (hcomp : complete = true → mGet sub.written var = none)
    (hcanon : Canon p) (htrip : TripFacts L n m0)
    (h : loopMotion s ps var p complete reads C lin otherPending L = .ok (some b, d, a)) :
    a = none ∧ reads.contains var = false ∧ complete = true ∧ C.contains var = false ∧
      MovedSem sub body m0 n var p b d :=
  loopMotion_moved_sound hw ctx hp hcomp hcanon htrip
    (OptLoop.loopMotion_cases s ps var p complete reads C lin otherPending L _ h)

theorem motionCtx_iff (s : Rebuild w) (ps : List (Rebuild w)) (sub : Rebuild w) (C : List Int)
    (lin : List (Int × Expr w)) (m0 : Mem w) (body : Nat → Mem w → Mem w) :
    MotionCtx s ps sub C lin m0 body ↔
      (∀ k c, C.contains c = true →
        run body sub.pending m0 k c = m0 c ∧ mid body sub.pending m0 k c = m0 c) ∧
      (∀ i c, C.contains i = true → getConstant s ps i = some c → m0 i = c) ∧
      (∀ v inc, mGet lin v = some inc → LinSound sub C (run body sub.pending m0) v inc) ∧
      BodyFacts sub body (run body sub.pending m0) :=
  ⟨fun h => ⟨h.const, h.known, h.lin, h.body⟩, fun h => ⟨h.1, h.2.1, h.2.2.1, h.2.2.2⟩⟩

/-- **`loopMotion_all_sound`**: all pending variables at once.  Original loop `M k = run body P m0 k`
(`P = sub.pending`); new loop `M' k = run body D (Mem.par B m0) k`.  The runs agree on everything that is read and
on every cell that is neither moved nor (non-constant and) assigned after the loop; after `n ≥ 1` rounds
`Mem.par A (M' n) = M n`; if the loop is not entered, `before` changes nothing. -/
theorem loopMotion_all_sound (hw : 0 < w) {s : Rebuild w} {ps : List (Rebuild w)} {sub : Rebuild w}
    {reads C : List Int} {lin : List (Int × Expr w)} {otherPending : List Int} {L : OptLoop w} {n : Nat}
    {B D A : List (Int × Expr w)} {m0 : Mem w} {body : Nat → Mem w → Mem w}
    (ctx : MotionCtx s ps sub C lin m0 body)
    (htrip : TripFacts L n m0)
    (hcanon : ∀ v p, mGet sub.pending v = some p → Canon p)
    (hall : MotionAll s ps sub reads C lin otherPending L n B D A)
    (hrf : ReadFacts sub reads body (run body sub.pending m0))
    (hop : ∀ x, otherPending.contains x = false → mGet sub.pending x = none ∨ C.contains x = true)
    (hamo : L.atMostOnce = true → n ≤ 1) :
    (∀ k, k < n → ∀ r, reads.contains r = true →
      run body D (Mem.par B m0) k r = run body sub.pending m0 k r) ∧
    (∀ k, k ≤ n → ∀ v, ¬ (mGet B v ≠ none ∨ (mGet A v ≠ none ∧ C.contains v = false)) →
      run body D (Mem.par B m0) k v = run body sub.pending m0 k v) ∧
    (∀ v, mGet A v = none → run body D (Mem.par B m0) n v = run body sub.pending m0 n v) ∧
    (0 < n → Mem.par A (run body D (Mem.par B m0) n) = run body sub.pending m0 n) ∧
    (n = 0 → Mem.par B m0 = m0) :=
  OptLoop.loopMotion_all_sound hw ctx htrip hcanon hall hrf hop hamo

theorem readFacts_iff (sub : Rebuild w) (reads : List Int) (body : Nat → Mem w → Mem w) (M : Nat → Mem w) :
    ReadFacts sub reads body M ↔
      (∀ v p x, mGet sub.pending v = some p → x ∈ Expr.variables p → x ≠ v → reads.contains x = true) ∧
      (∀ k (m' : Mem w) (Z : Int → Prop), (∀ z, Z z → reads.contains z = false) →
        (∀ v, ¬ Z v → m' v = M k v) → ∀ v, ¬ Z v → body k m' v = body k (M k) v) ∧
      (∀ k (m' : Mem w) v, mGet sub.written v = none → body k m' v = m' v) :=
  ⟨fun h => ⟨h.pendReads, h.bodyNI, h.frame⟩, fun h => ⟨h.1, h.2.1, h.2.2⟩⟩

theorem motionAll_iff (s : Rebuild w) (ps : List (Rebuild w)) (sub : Rebuild w) (reads C : List Int)
    (lin : List (Int × Expr w)) (otherPending : List Int) (L : OptLoop w) (n : Nat)
    (B D A : List (Int × Expr w)) :
    MotionAll s ps sub reads C lin otherPending L n B D A ↔
      (∀ var p, mGet sub.pending var = some p →
        ∃ b d a, MotionCase s ps var p (!mHas sub.written var) reads C lin otherPending L (b, d, a) ∧
          mGet B var = b ∧ mGet D var = d ∧ (mGet A var = a ∨ (n = 0 ∧ mGet A var = none))) ∧
      (∀ var, mGet sub.pending var = none →
        mGet B var = none ∧ mGet D var = none ∧ mGet A var = none) :=
  ⟨fun h => ⟨h.pend, h.nopend⟩, fun h => ⟨h.1, h.2⟩⟩

/-- The loop of `finishLoop` over the pending variables (`motionStepM`, see `OptLoop.finishLoop_eq`) yields
`MotionAll`, and does not consume the oracle. -/
theorem motionFold_spec (s : Rebuild w) (ps : List (Rebuild w)) (sub : Rebuild w) (R C : List Int)
    (lin : List (Int × Expr w)) (pset : List Int) (L : OptLoop w) (pending : List Int) (n : Nat)
    (sub' : Rebuild w) (B D A : List (Int × Expr w)) (os os' : Orders)
    (hnd : pending.Nodup) (hkeys : ∀ v p, mGet sub.pending v = some p → v ∈ pending)
    (hne : L.noEffect = true → n = 0)
    (h : pending.foldlM (motionStepM s ps R C lin pset L) (sub, [], [], []) os = .ok ((sub', B, D, A), os')) :
    os' = os ∧ MotionAll s ps sub R C lin pset L n B D A :=
  OptLoop.motionFold_spec s ps sub R C lin pset L pending n sub' B D A os os' hnd hkeys hne h

/-- **Everything together, for the values `finishLoop` computes.** -/
theorem finishLoop_motion_sound (hw : 0 < w) (s : Rebuild w) (ps : List (Rebuild w)) (sub sub' : Rebuild w)
    (cond : Int) (L : OptLoop w) (C : List Int) (B D A : List (Int × Expr w)) (os os' : Orders)
    (m0 : Mem w) (body : Nat → Mem w → Mem w) (n : Nat)
    (hC : constantsAmong s ps sub (sIns (possibleReads sub) cond ++
      (pendingSorted sub sub).filter (fun x => !(sIns (possibleReads sub) cond).contains x)) = .ok C)
    (hfold : (pendingSorted sub sub).foldlM
      (motionStepM s ps (sIns (possibleReads sub) cond) C
        (linearAmong s ps sub C (sIns (possibleReads sub) cond ++ pendingSorted sub sub))
        ((pendingSorted sub sub).filter (fun x => !C.contains x)) L) (sub, [], [], []) os
      = .ok ((sub', B, D, A), os'))
    (hreadsAsc : sub.reads.Pairwise (· < ·)) (hpendAsc : (sub.pending.map (·.1)).Pairwise (· < ·))
    (hcanon : ∀ v p, mGet sub.pending v = some p → Canon p)
    (hcmp : ∀ v e, compare s ps (Expr.var v) e = .ok true → ev e m0 = m0 v)
    (hknown : ∀ i c, getConstant s ps i = some c → m0 i = c)
    (hbody : BodyFacts sub body (run body sub.pending m0))
    (hgb : ∀ v e, getBoth sub (s :: ps) v = some e →
      WeakCanon e ∧ ∀ k, run body sub.pending m0 (k + 1) v = ev e (run body sub.pending m0 k))
    (hNI : ∀ k (m' : Mem w) (Z : Int → Prop),
      (∀ z, Z z → (sIns (possibleReads sub) cond).contains z = false) →
      (∀ v, ¬ Z v → m' v = run body sub.pending m0 k v) →
      ∀ v, ¬ Z v → body k m' v = body k (run body sub.pending m0 k) v)
    (hframe : ∀ k (m' : Mem w) v, mGet sub.written v = none → body k m' v = m' v)
    (htrip : TripFacts L n m0) (hamo : L.atMostOnce = true → n ≤ 1) (hne : L.noEffect = true → n = 0) :
    os' = os ∧
    (∀ k, k < n → ∀ r, (sIns (possibleReads sub) cond).contains r = true →
      run body D (Mem.par B m0) k r = run body sub.pending m0 k r) ∧
    (∀ k, k ≤ n → ∀ v, ¬ (mGet B v ≠ none ∨ (mGet A v ≠ none ∧ C.contains v = false)) →
      run body D (Mem.par B m0) k v = run body sub.pending m0 k v) ∧
    (∀ v, mGet A v = none → run body D (Mem.par B m0) n v = run body sub.pending m0 n v) ∧
    (0 < n → Mem.par A (run body D (Mem.par B m0) n) = run body sub.pending m0 n) ∧
    (n = 0 → Mem.par B m0 = m0) :=
  OptLoop.finishLoop_motion_sound hw s ps sub sub' cond L C B D A os os' m0 body n hC hfold hreadsAsc
    hpendAsc hcanon hcmp hknown hbody hgb hNI hframe htrip hamo hne

/-- Syntactic facts about `possibleReads` and `pendingSet` (hypotheses `pendReads` and `hop` above). -/
theorem pendReads_possibleReads (sub : Rebuild w) (cond : Int) (v : Int) (p : Expr w) (x : Int)
    (hp : mGet sub.pending v = some p) (hx : x ∈ Expr.variables p) (hne : x ≠ v) :
    (sIns (possibleReads sub) cond).contains x = true :=
  OptLoop.pendReads_possibleReads sub cond v p x hp hx hne
theorem reads_possibleReads (sub : Rebuild w) (cond : Int) (x : Int) (hx : x ∈ sub.reads) :
    (sIns (possibleReads sub) cond).contains x = true := OptLoop.reads_possibleReads sub cond x hx
theorem cond_possibleReads (sub : Rebuild w) (cond : Int) :
    (sIns (possibleReads sub) cond).contains cond = true := OptLoop.cond_possibleReads sub cond
theorem pendingSet_spec (sub : Rebuild w) (C : List Int) (x : Int)
    (h : ((pendingSorted sub sub).filter (fun x => !C.contains x)).contains x = false) :
    mGet sub.pending x = none ∨ C.contains x = true := OptLoop.pendingSet_spec sub C x h

/-! ### Examples (w = 8)

The loop `x0 -= 1; x1 += x2; x2 += 2` (what the body of `[->>++<[… x1 += x2 …]<]`-like code leaves pending), three
rounds from `x0 = 3, x1 = 5, x2 = 7`. -/

section Examples

private def s0 : Rebuild 8 := Rebuild.new 0 none .unknown none
private def P1 : List (Int × Expr 8) :=
  [(0, Expr.add (Expr.var 0) (Expr.val 255#8)), (1, Expr.add (Expr.var 1) (Expr.var 2)),
   (2, Expr.add (Expr.var 2) (Expr.val 2#8))]
private def sub1 : Rebuild 8 := { (Rebuild.new 0 (some 0) .parent none : Rebuild 8) with pending := P1 }
/-- trip count `1 * x0` (step `-1`) -/
private def L1 : OptLoop 8 := OptLoop.ofExpr (Expr.mul (Expr.val 1#8) (Expr.var 0))
private def lin1 : List (Int × Expr 8) := [(0, [⟨255#8, []⟩]), (2, [⟨2#8, []⟩])]
private def m1 : Mem 8 := fun v => if v = 0 then 3#8 else if v = 1 then 5#8 else if v = 2 then 7#8 else 0#8
/-- `x1 + x0*x2 + x0*(x0 - 1)` -/
private def before1 : Expr 8 := [⟨255#8, [0]⟩, ⟨1#8, [0, 0]⟩, ⟨1#8, [0, 2]⟩, ⟨1#8, [1]⟩]

/- B: the analysis of this loop, and its three rounds -/
example : (analyzeLoop s0 [] sub1 0 true).expr = some (Expr.mul (Expr.val 1#8) (Expr.var 0)) := by
  decide +kernel
example : RunsExactly (fun k => Mem.iter P1 k m1 0) 3 :=
  OptLoop.tripInv_iter (by decide) P1 0 255#8 1#8 m1
    (fun m => by rw [par_of_get P1 m 0 _ rfl, ev_add, ev_var, ev_val]) (by decide)
example : Mem.iter P1 3 m1 0 = 0#8 ∧ Mem.iter P1 2 m1 0 ≠ 0#8 := by decide +kernel

/- A: nothing pending is constant; a cell without operation is; `x0` and `x2` are linear -/
example : constantsAmong s0 [] sub1 [0, 2, 1, 5] = .ok [5] := by decide +kernel
example : linearAmong s0 [] sub1 [] [0, 2, 0, 1, 2] = lin1 := by decide +kernel

/- D: the increment `x2` of `x1` is one linear part with increment `1 * 2` -/
example : splitAlong (Expr.var 2 : Expr 8) [] lin1
    = .ok ([], [], [(Expr.var 2, Expr.mul [⟨1#8, []⟩] [⟨2#8, []⟩])]) := by decide +kernel
example : reduceConst s0 [] (Expr.var 2 : Expr 8) [] = .ok (Expr.var 2) := by decide +kernel

/- C: `x1` is moved (triangular sum, alternative 1 of `triStep`), `x2` stays -/
example : loopMotion s0 [] 1 (Expr.add (Expr.var 1) (Expr.var 2)) true [0, 2] [] lin1 [0, 1, 2] L1
    = .ok (some before1, some (Expr.var 1), none) := by decide +kernel
example : loopMotion s0 [] 2 (Expr.add (Expr.var 2) (Expr.val 2#8)) true [0, 2] [] lin1 [0, 1, 2] L1
    = .ok (none, some (Expr.add (Expr.var 2) (Expr.val 2#8)), none) := by decide +kernel
/- 5 + 7 + 9 + 11 -/
example : Mem.iter P1 3 m1 1 = 32#8 ∧ ev before1 m1 = 32#8 := by decide +kernel

/- geometric closed form: `x3 = 3*x3 + 1`, four rounds from `x3 = 2`: `81*2 + 40 = 202` -/
private def P2 : List (Int × Expr 8) :=
  [(0, Expr.add (Expr.var 0) (Expr.val 255#8)),
   (3, Expr.add (Expr.mul (Expr.val 3#8) (Expr.var 3)) (Expr.val 1#8))]
private def m2 : Mem 8 := fun v => if v = 0 then 4#8 else if v = 3 then 2#8 else 0#8
example : loopMotion s0 [] 3 (Expr.add (Expr.mul (Expr.val 3#8) (Expr.var 3)) (Expr.val 1#8)) true [0] [] []
    [0, 3] (OptLoop.ofExpr (Expr.val 4#8))
    = .ok (some [⟨40#8, []⟩, ⟨81#8, [3]⟩], none, none) := by decide +kernel
example : Mem.iter P2 4 m2 3 = 202#8 ∧ ev ([⟨40#8, []⟩, ⟨81#8, [3]⟩] : Expr 8) m2 = 202#8 := by
  decide +kernel

/- computed from a constant (`x5`) only and not read in the loop: performed after the loop -/
example : loopMotion s0 [] 4 (Expr.add (Expr.var 5) (Expr.val 1#8)) true [0] [5] [] [0, 4]
    (OptLoop.ofExpr (Expr.var 0))
    = .ok (none, none, some (Expr.add (Expr.var 5) (Expr.val 1#8))) := by decide +kernel

end Examples

end Hpbf.C01Loop

#print axioms Hpbf.C01Loop.ev_congr
#print axioms Hpbf.C01Loop.symbEvaluate_varsIn
#print axioms Hpbf.C01Loop.shiftVars_value
#print axioms Hpbf.C01Loop.reduceConst_total
#print axioms Hpbf.C01Loop.reduceConst_value
#print axioms Hpbf.C01Loop.reduceConst_varsIn
#print axioms Hpbf.C01Loop.reduceConst_canon
#print axioms Hpbf.C01Loop.splitAlong_recompose
#print axioms Hpbf.C01Loop.linPart_value
#print axioms Hpbf.C01Loop.tripCount_runs
#print axioms Hpbf.C01Loop.tripCount_diverges
#print axioms Hpbf.C01Loop.tripInv_runs
#print axioms Hpbf.C01Loop.tripCount_iter
#print axioms Hpbf.C01Loop.tripCount_iter_none
#print axioms Hpbf.C01Loop.tripInv_iter
#print axioms Hpbf.C01Loop.analyzeLoop_sound
#print axioms Hpbf.C01Loop.analyzeLoop_noReturn
#print axioms Hpbf.C01Loop.tripFacts_of_meaning
#print axioms Hpbf.C01Loop.constantsAmong_good
#print axioms Hpbf.C01Loop.constantsAmong_sound
#print axioms Hpbf.C01Loop.constantsAmong_sound_iter
#print axioms Hpbf.C01Loop.linearAmong_spec
#print axioms Hpbf.C01Loop.linearAmong_sound
#print axioms Hpbf.C01Loop.loopMotion_cases
#print axioms Hpbf.C01Loop.triFold_spec
#print axioms Hpbf.C01Loop.loopMotion_sound
#print axioms Hpbf.C01Loop.loopMotion_all_sound
#print axioms Hpbf.C01Loop.motionFold_spec
#print axioms Hpbf.C01Loop.finishLoop_motion_sound
#print axioms Hpbf.OptLoop.finishLoop_eq
#print axioms Hpbf.C01Loop.pendReads_possibleReads
#print axioms Hpbf.C01Loop.pendingSet_spec
