/-
ChainFinal: the end-to-end statements at EVERY optimisation level for the REPAIRED optimizer, WITHOUT test

    source text ──parse──▶ b ──OptFix.optimizeF(level) (oracle `orders`)──▶ b' ──IR interpreter
                                                                           └─translate──▶ bytecode interpreter
                                                                                          └─compileX86──▶ x86-64

against canonical Brainfuck semantics, and the final headline `all_levels_all_backends`.
`OptFix.optimizeF` (`Hpbf/OptFix.lean`) is the official model of the Rust optimizer after the repair of defect F13
(found by the proof effort; `Props/C01Full.lean`): `Opt.optimizeOnce` followed by `fixClob`.  Property theorems only,
restated as `example`s; proofs in `Hpbf/Proofs/ChainFinal.lean` (instances of the generic composition
`Proofs/ChainO1Gen.lean`, `allBackends_of_agrees` of `Proofs/ChainOn.lean`).

Ingredients: `OptProof.optimizeF_preserves_all_levels'`, `OptProof.optimizeF_onceOk_all_levels'`
(`Props/C01Full.lean`), and everything `Props/ChainOn.lean` uses except the test.

Hypotheses that REMAIN:
* `0 < w`, balancedness of the source;
* `hopt : OptFix.optimizeF b level orders = .ok b'` – success of the model of the repaired optimizer for the given
  oracle; the oracle is ARBITRARY (universally quantified).  Totality / panic-freedom of `optimizeF`
  (`Props/C01Fixed.lean`: `optimizeF_total`, `optimizeF_no_panic`) was NOT available when this file was built, so
  the corollary `all_levels_exists` ("a fitting oracle exists, no oracle makes it panic") is not stated here; for
  the unrepaired model the corresponding facts are `OptTotal.optimize_total'`, `optimize_no_panic'` (`anylevel_exists`).
* `JitRange` for the two machine-code conjuncts.
GONE compared with `Props/ChainOn.lean`: the per-environment test `OptCheck.optimizeCheck … = true` (levels ≥ 2).
Level 0 needs no separate treatment: `OptFix.optimizeF b 0 orders = .ok b'` forces `b' = b` (`optimizeF_zero`).
-/
import Hpbf.Proofs.ChainFinal

namespace Hpbf
namespace Chain

open Asm JitGen X86Sem X86Prog C03 BcGen C02

variable {w : Nat}

/-! ## 0. Level 0 -/

example (b b' : Ir.Block w) (orders : Opt.Orders) (h : OptFix.optimizeF b 0 orders = .ok b') :
    b' = b ∧ orders = [] := optimizeF_zero h
example (b : Ir.Block w) : OptFix.optimizeF b 0 [] = .ok b := optimizeF_zero_ok b

section Final
variable (hw : 0 < w) (src : List Kind) (prog : Prog) (hp : Bf.tree src = some prog)
  (b b' : Ir.Block w) (hb : Ir.parse (w := w) src = .ok b) (level : Nat) (orders : Opt.Orders)
  (hopt : OptFix.optimizeF b level orders = .ok b') (env : Env) (numRegs : Nat) (fuse : Bool)

/-! ## 1. The IR block, the IR interpreter, the bytecode interpreter -/

example : OptProof.BehEq b b' env := behEq_final hw hb hopt env
example : OnceOk b' env := onceOk_final hw hb hopt env
example : IrAgrees prog b' env := irAgrees_final hw hp hb hopt env
example : BcAgrees prog (translate b' numRegs fuse) env := bcAgrees_final hw hp hb hopt env numRegs fuse

/-- **`ir_final`** -/
example :
    ((∀ f (s : State w), Bf.run f prog env = .done s →
        ∃ f' c, Ir.run b' false 0 f' env = .done c ∧ c.st.trace = s.trace) ∧
     (∀ f (s : State w), Bf.run f prog env = .stopped s →
        ∃ f' c, Ir.run b' false 0 f' env = .stopped c ∧ c.st.trace = s.trace)) ∧
    ((∀ f' (c : Ir.Cfg w), Ir.run b' false 0 f' env = .done c →
        ∃ (f : Nat) (s : State w), Bf.run f prog env = .done s ∧ s.trace = c.st.trace) ∧
     (∀ f' (c : Ir.Cfg w), Ir.run b' false 0 f' env = .stopped c →
        ∃ (f : Nat) (s : State w), Bf.run f prog env = .stopped s ∧ s.trace = c.st.trace)) ∧
    ((∀ f', ∃ f, C01.traceOf (Ir.run b' false 0 f' env) = C01.traceOfBf (Bf.run (w := w) f prog env)) ∧
     (∀ f, ∃ f', C01.traceOf (Ir.run b' false 0 f' env) = C01.traceOfBf (Bf.run (w := w) f prog env))) :=
  ir_final hw hp hb hopt env

/-- **`bytecode_final`** (release dispatch) -/
example :
    ((∀ f (s : State w), Bf.run f prog env = .done s →
        ∃ f' c', Bc.run (translate b' numRegs fuse) false 0 f' env = .done c' ∧ c'.st.trace = s.trace) ∧
     (∀ f (s : State w), Bf.run f prog env = .stopped s →
        ∃ f' c', Bc.run (translate b' numRegs fuse) false 0 f' env = .stopped c' ∧ c'.st.trace = s.trace)) ∧
    ((∀ f' (c' : Bc.Cfg w), Bc.run (translate b' numRegs fuse) false 0 f' env = .done c' →
        ∃ (f : Nat) (s : State w), Bf.run f prog env = .done s ∧ s.trace = c'.st.trace) ∧
     (∀ f' (c' : Bc.Cfg w), Bc.run (translate b' numRegs fuse) false 0 f' env = .stopped c' →
        ∃ (f : Nat) (s : State w), Bf.run f prog env = .stopped s ∧ s.trace = c'.st.trace)) ∧
    ((∀ f', ∃ f, C07.traceOfBc (Bc.run (translate b' numRegs fuse) false 0 f' env) =
        C01.traceOfBf (Bf.run (w := w) f prog env)) ∧
     (∀ f, ∃ f', C07.traceOfBc (Bc.run (translate b' numRegs fuse) false 0 f' env) =
        C01.traceOfBf (Bf.run (w := w) f prog env))) :=
  bytecode_final hw hp hb hopt env numRegs fuse

/-- **`bytecode_final_debug`** -/
example :
    ((∀ f (s : State w), Bf.run f prog env = .done s →
        ∃ f' c', runDebug (translate b' numRegs fuse) false 0 f' env = .done c' ∧ c'.st.trace = s.trace) ∧
     (∀ f (s : State w), Bf.run f prog env = .stopped s →
        ∃ f' c', runDebug (translate b' numRegs fuse) false 0 f' env = .stopped c' ∧ c'.st.trace = s.trace)) ∧
    ((∀ f' (c' : Bc.Cfg w), runDebug (translate b' numRegs fuse) false 0 f' env = .done c' →
        ∃ (f : Nat) (s : State w), Bf.run f prog env = .done s ∧ s.trace = c'.st.trace) ∧
     (∀ f' (c' : Bc.Cfg w), runDebug (translate b' numRegs fuse) false 0 f' env = .stopped c' →
        ∃ (f : Nat) (s : State w), Bf.run f prog env = .stopped s ∧ s.trace = c'.st.trace)) ∧
    ((∀ f', ∃ f, C07.traceOfBc (runDebug (translate b' numRegs fuse) false 0 f' env) =
        C01.traceOfBf (Bf.run (w := w) f prog env)) ∧
     (∀ f, ∃ f', C07.traceOfBc (runDebug (translate b' numRegs fuse) false 0 f' env) =
        C01.traceOfBf (Bf.run (w := w) f prog env))) :=
  bytecode_final_debug hw hp hb hopt env numRegs fuse

/-- Never malformed bytecode, never interrupted when unlimited: `bytecode_anylevel_proper` (every block, no hypothesis). -/
example :
    (∀ (l : Bool) (bd f' : Nat) (c' : Bc.Cfg w), Bc.run (translate b' numRegs fuse) l bd f' env ≠ .bad c') ∧
    (∀ (f' : Nat) (c' : Bc.Cfg w), Bc.run (translate b' numRegs fuse) false 0 f' env ≠ .interrupted c') :=
  bytecode_anylevel_proper b' numRegs fuse env

/-! ### C05 / C07 / C08 -/

example (hdiv : C05.BfDiverges w prog env) :
    (∀ (f' : Nat) (c : Bc.Cfg w),
      Bc.run (translate b' numRegs fuse) false 0 f' env ≠ .done c ∧
      Bc.run (translate b' numRegs fuse) false 0 f' env ≠ .stopped c) ∧
    (∀ (bd f' : Nat) (c : Bc.Cfg w),
      Bc.run (translate b' numRegs fuse) true bd f' env ≠ .done c ∧
      Bc.run (translate b' numRegs fuse) true bd f' env ≠ .stopped c) :=
  bc_never_returns_final hw hp hb hopt env numRegs fuse hdiv

example (hdiv : C05.BfDiverges w prog env) :
    ∀ f', ∃ c : Bc.Cfg w, Bc.run (translate b' numRegs fuse) false 0 f' env = .outOfFuel c :=
  bc_runs_forever_final hw hp hb hopt env numRegs fuse hdiv

example (hdiv : C05.BfDiverges w prog env) :
    ∀ bd, ∃ f' c, Bc.run (translate b' numRegs fuse) true bd f' env = .interrupted c :=
  bc_limited_interrupted_final hw hp hb hopt env numRegs fuse hdiv

example (hdiv : C05.BfDiverges w prog env) :
    (∀ f, ∃ f' c c', Bf.run (w := w) f prog env = .outOfFuel c ∧
      Bc.run (translate b' numRegs fuse) false 0 f' env = .outOfFuel c' ∧ c'.st.trace = c.st.trace) ∧
    (∀ f', ∃ f c c', Bc.run (translate b' numRegs fuse) false 0 f' env = .outOfFuel c' ∧
      Bf.run (w := w) f prog env = .outOfFuel c ∧ c'.st.trace = c.st.trace) :=
  bc_divergent_output_final hw hp hb hopt env numRegs fuse hdiv

example :
    (∀ (bd f' : Nat) (c : Bc.Cfg w), Bc.run (translate b' numRegs fuse) true bd f' env = .done c →
      ∃ (f : Nat) (s : State w), Bf.run f prog env = .done s ∧ s.trace = c.st.trace) ∧
    (∀ (bd f' : Nat) (c : Bc.Cfg w), Bc.run (translate b' numRegs fuse) true bd f' env = .stopped c →
      ∃ (f : Nat) (s : State w), Bf.run f prog env = .stopped s ∧ s.trace = c.st.trace) :=
  bc_limited_finished_final hw hp hb hopt env numRegs fuse

example : ∀ bd f', ∃ f, ∀ g, f ≤ g →
    C07.traceOfBc (Bc.run (translate b' numRegs fuse) true bd f' env) <:+
      C01.traceOfBf (Bf.run (w := w) g prog env) :=
  bc_limited_prefix_final hw hp hb hopt env numRegs fuse

example :
    (∀ (f : Nat) (s : State w), Bf.run f prog env = .done s →
      ∃ g, ∀ bd, g ≤ bd →
        ∃ f' c, Bc.run (translate b' numRegs fuse) true bd f' env = .done c ∧ c.st.trace = s.trace) ∧
    (∀ (f : Nat) (s : State w), Bf.run f prog env = .stopped s →
      ∃ g, ∀ bd, g ≤ bd →
        ∃ f' c, Bc.run (translate b' numRegs fuse) true bd f' env = .stopped c ∧ c.st.trace = s.trace) :=
  bc_limited_enough_final hw hp hb hopt env numRegs fuse

example : ∀ (f : Nat) (s : State w), Bf.run f prog env = .stopped s →
    ∃ f' c, (∀ k, Bc.run (translate b' numRegs fuse) false 0 (f' + k) env = .stopped c) ∧
      c.st.trace = s.trace :=
  bc_stops_like_canonical_final hw hp hb hopt env numRegs fuse

example : ∀ (l : Bool) (bd f' : Nat) (c : Bc.Cfg w),
    Bc.run (translate b' numRegs fuse) l bd f' env = .stopped c → (l = false → bd = 0) →
    ∃ (f : Nat) (s : State w), Bf.run f prog env = .stopped s ∧ s.trace = c.st.trace :=
  bc_stops_only_like_canonical_final hw hp hb hopt env numRegs fuse

/-! ## `jit_final_*` (`JitRange` as in `Props/ChainTotal.lean` §3) -/

variable (sz : Size) (safe : Bool) (cfg : X86Prog.Cfg) (buf0 rsp0 ra : BitVec 64)

example (R : JitRange sz (translate b' 11 false) false safe cfg buf0 rsp0 ra 0 env) :
    let p := translate b' 11 false
    let s0 : PState w := initState cfg buf0 rsp0 ra p.minAcc p.maxAcc 0 env
    (∀ f (s : State w), Bf.run f prog env = .done s →
      ∃ n s', X86Prog.run cfg n s0 = .ret s' ∧ s'.regs.rax = 1 ∧ s'.trace = s.trace) ∧
    (∀ f (s : State w), Bf.run f prog env = .stopped s →
      ∃ n s', X86Prog.run cfg n s0 = .ret s' ∧ s'.regs.rax = 0 ∧ s'.trace = s.trace) :=
  jit_final_forward hw hp hb hopt env R

example (R : JitRange sz (translate b' 11 false) false safe cfg buf0 rsp0 ra 0 env) :
    let p := translate b' 11 false
    let s0 : PState w := initState cfg buf0 rsp0 ra p.minAcc p.maxAcc 0 env
    (∀ f (s : State w), Bf.run f prog env = .done s →
      ∀ n s', X86Prog.run cfg n s0 = .ret s' → s'.regs.rax = 1 ∧ s'.trace = s.trace) ∧
    (∀ f (s : State w), Bf.run f prog env = .stopped s →
      ∀ n s', X86Prog.run cfg n s0 = .ret s' → s'.regs.rax = 0 ∧ s'.trace = s.trace) :=
  jit_final_unique hw hp hb hopt env R

example (R : JitRange sz (translate b' 11 false) false safe cfg buf0 rsp0 ra 0 env) :
    let p := translate b' 11 false
    let s0 : PState w := initState cfg buf0 rsp0 ra p.minAcc p.maxAcc 0 env
    ∀ f, ∃ n s', (steps cfg n s0 = some s' ∨ X86Prog.run cfg n s0 = .ret s') ∧
      s'.trace = C01.traceOfBf (Bf.run (w := w) f prog env) :=
  jit_final_prefix hw hp hb hopt env R

example (R : JitRange sz (translate b' 11 false) false safe cfg buf0 rsp0 ra 0 env)
    (hdiv : C05.BfDiverges w prog env) :
    let p := translate b' 11 false
    let s0 : PState w := initState cfg buf0 rsp0 ra p.minAcc p.maxAcc 0 env
    ∀ f, ∃ n s', steps cfg n s0 = some s' ∧ s'.trace = C01.traceOfBf (Bf.run (w := w) f prog env) :=
  jit_final_divergent hw hp hb hopt env R hdiv

example (bd : Nat) (R : JitRange sz (translate b' 11 false) true safe cfg buf0 rsp0 ra bd env) :
    let p := translate b' 11 false
    let s0 : PState w := initState cfg buf0 rsp0 ra p.minAcc p.maxAcc bd env
    ∃ n s', X86Prog.run cfg n s0 = .ret s' ∧
      (∀ n2 s2, X86Prog.run cfg n2 s0 = .ret s2 → s2 = s') ∧
      (s'.regs.rax = 1 ∨ s'.regs.rax = 0) ∧
      (s'.regs.rax = 1 → ∃ (f : Nat) (s : State w), Bf.run f prog env = .done s ∧ s.trace = s'.trace) ∧
      (∃ f, ∀ g, f ≤ g → s'.trace <:+ C01.traceOfBf (Bf.run (w := w) g prog env)) :=
  jit_final_limited hw hp hb hopt env R

example :
    let p := translate b' 11 false
    (∀ f (s : State w), Bf.run f prog env = .done s → ∃ g, ∀ bd, g ≤ bd →
      JitRange sz p true safe cfg buf0 rsp0 ra bd env →
      ∃ n s', X86Prog.run cfg n (initState (w := w) cfg buf0 rsp0 ra p.minAcc p.maxAcc bd env) = .ret s' ∧
        s'.regs.rax = 1 ∧ s'.trace = s.trace) ∧
    (∀ f (s : State w), Bf.run f prog env = .stopped s → ∃ g, ∀ bd, g ≤ bd →
      JitRange sz p true safe cfg buf0 rsp0 ra bd env →
      ∃ n s', X86Prog.run cfg n (initState (w := w) cfg buf0 rsp0 ra p.minAcc p.maxAcc bd env) = .ret s' ∧
        s'.regs.rax = 0 ∧ s'.trace = s.trace) :=
  jit_final_limited_enough hw hp hb hopt env

end Final

/-! ## 2. The final headline -/

/-- **`all_levels_all_backends`** (ASSUMED / CONCLUDED docstring at the theorem, `Proofs/ChainFinal.lean`;
`AllBackends` is spelled out in `Props/ChainOn.lean` §2). -/
example (hw : 0 < w) (code : Array Kind) (prog : Prog) (hp : Bf.tree code.toList = some prog) (level : Nat)
    (orders : Opt.Orders) (b' : Ir.Block w)
    (hopt : OptFix.optimizeF (irOf w code.toList) level orders = .ok b') (env : Env)
    (numRegs : Nat) (fuse : Bool) : AllBackends code prog b' numRegs fuse env :=
  all_levels_all_backends hw code prog hp level orders b' hopt env numRegs fuse

/-- The conclusion once more, in full. -/
example (hw : 0 < w) (code : Array Kind) (prog : Prog) (hp : Bf.tree code.toList = some prog) (level : Nat)
    (orders : Opt.Orders) (b' : Ir.Block w)
    (hopt : OptFix.optimizeF (irOf w code.toList) level orders = .ok b') (env : Env)
    (numRegs : Nat) (fuse : Bool) :
    let canon : Nat → Fin := fun f => finBf (Bf.run (w := w) f prog env)
    let p : Bc.Program w := translate b' numRegs fuse
    let pj : Bc.Program w := translate b' 11 false
    SameResults canon (fun f => finInplace (Inplace.run (w := w) code false 0 f env)) ∧
    SameResults canon (fun f => finIr (Ir.run b' false 0 f env)) ∧
    SameResults canon (fun f => finBc (Bc.run p false 0 f env)) ∧
    SameResults canon (fun f => finBc (C02.runDebug p false 0 f env)) ∧
    (∀ (sz : Size) (safe : Bool) (cfg : X86Prog.Cfg) (buf0 rsp0 ra : BitVec 64),
      JitRange sz pj false safe cfg buf0 rsp0 ra 0 env →
      ∀ r, (∃ f, canon f = some r) →
        ∃ n, finX86 (X86Prog.run cfg n (initState (w := w) cfg buf0 rsp0 ra pj.minAcc pj.maxAcc 0 env))
          = some r) ∧
    (∀ (sz : Size) (safe : Bool) (cfg : X86Prog.Cfg) (buf0 rsp0 ra : BitVec 64) (bd : Nat),
      JitRange sz pj true safe cfg buf0 rsp0 ra bd env →
      ∃ n r, finX86 (X86Prog.run cfg n (initState (w := w) cfg buf0 rsp0 ra pj.minAcc pj.maxAcc bd env))
          = some r ∧
        (r.1 = true → ∃ f, canon f = some r) ∧
        ∃ f, ∀ g, f ≤ g → r.2 <:+ C01.traceOfBf (Bf.run (w := w) g prog env)) :=
  all_levels_all_backends hw code prog hp level orders b' hopt env numRegs fuse

/-! ## 3. Non-vacuity (kernel evaluation): the F13 witness, a 481-character Brainfuck program that the
UNREPAIRED optimizer miscompiles at level 2 -/

def finCode : Array Kind := OptProof.F13.f13Bf.toArray
def finProg : Prog := (Bf.tree finCode.toList).getD .nil
/-- input 3, 2 -/
def finEnv : Env := OptProof.F13.f13Env
def finB (level : Nat) : Ir.Block 8 :=
  match OptFix.optimizeF (irOf 8 finCode.toList) level [] with
  | .ok b => b
  | .error _ => ⟨0, []⟩
/-- The canonical events (most recent first). -/
def finTrace : List Ev :=
  [.out 1, .out 3, .out 0, .out 0, .out 1, .out 3, .out 0, .out 0, .inp 2, .inp 3, .out 3]

set_option maxRecDepth 100000

theorem fin_tree : Bf.tree finCode.toList = some finProg := by
  have h : (Bf.tree finCode.toList).isSome = true := by decide +kernel
  unfold finProg
  cases ht : Bf.tree finCode.toList with
  | none => rw [ht] at h; cases h
  | some p => rfl

theorem fin_opt (level : Nat)
    (h : (match OptFix.optimizeF (irOf 8 finCode.toList) level [] with | .ok _ => true | .error _ => false) = true) :
    OptFix.optimizeF (irOf 8 finCode.toList) level [] = .ok (finB level) := by
  unfold finB
  cases ho : OptFix.optimizeF (irOf 8 finCode.toList) level [] with
  | error e => rw [ho] at h; cases h
  | ok b => rfl

/-- The repaired optimizer succeeds at levels 2 and 3 with the empty oracle. -/
theorem fin_opt2 : OptFix.optimizeF (irOf 8 finCode.toList) 2 [] = .ok (finB 2) := fin_opt 2 (by decide +kernel)
theorem fin_opt3 : OptFix.optimizeF (irOf 8 finCode.toList) 3 [] = .ok (finB 3) := fin_opt 3 (by decide +kernel)

theorem fin_canon : finBf (Bf.run (w := 8) 3000 finProg finEnv) = some (true, finTrace) := by decide +kernel

/-- By the theorem: at levels 2 and 3 the IR interpreter and the bytecode interpreter (both dispatch modes) on the
code the repaired optimizer produces give exactly the canonical result … -/
example :
    (∃ f, finIr (Ir.run (finB 2) false 0 f finEnv) = some (true, finTrace)) ∧
    (∃ f, finBc (Bc.run (translate (finB 2) 4 true) false 0 f finEnv) = some (true, finTrace)) ∧
    (∃ f, finBc (C02.runDebug (translate (finB 3) 11 false) false 0 f finEnv) = some (true, finTrace)) := by
  have A := all_levels_all_backends (w := 8) (by decide) finCode finProg fin_tree 2 [] _ fin_opt2 finEnv 4 true
  have B := all_levels_all_backends (w := 8) (by decide) finCode finProg fin_tree 3 [] _ fin_opt3 finEnv 11 false
  exact ⟨(A.2.1 _).1 ⟨3000, fin_canon⟩, (A.2.2.1 _).1 ⟨3000, fin_canon⟩, (B.2.2.2.1 _).1 ⟨3000, fin_canon⟩⟩

/-- … also by evaluation … -/
example : finBc (Bc.run (translate (finB 2) 4 true) false 0 2000 finEnv) = some (true, finTrace) := by
  decide +kernel

/-- … whereas the UNREPAIRED optimizer's level-2 code prints `1` where the canonical run prints `3` (defect F13,
`OptProof.f13_miscompile_bf'`): the hypothesis `optimizeF` (not `Opt.optimize`) of the headline theorem matters. -/
example : (match Opt.optimize (irOf 8 finCode.toList) 2 [] with
    | .ok b => C07.traceOfBc (Bc.run (translate b 4 true) false 0 2000 finEnv)
    | .error _ => []) =
    [.out 1, .out 1, .out 0, .out 0, .out 1, .out 3, .out 0, .out 0, .inp 2, .inp 3, .out 3] := by
  decide +kernel

end Chain
end Hpbf

#print axioms Hpbf.Chain.optimizeF_zero
#print axioms Hpbf.Chain.behEq_final
#print axioms Hpbf.Chain.onceOk_final
#print axioms Hpbf.Chain.irAgrees_final
#print axioms Hpbf.Chain.bcAgrees_final
#print axioms Hpbf.Chain.ir_final
#print axioms Hpbf.Chain.bytecode_final
#print axioms Hpbf.Chain.bytecode_final_debug
#print axioms Hpbf.Chain.bc_never_returns_final
#print axioms Hpbf.Chain.bc_runs_forever_final
#print axioms Hpbf.Chain.bc_limited_interrupted_final
#print axioms Hpbf.Chain.bc_divergent_output_final
#print axioms Hpbf.Chain.bc_limited_finished_final
#print axioms Hpbf.Chain.bc_limited_prefix_final
#print axioms Hpbf.Chain.bc_limited_enough_final
#print axioms Hpbf.Chain.bc_stops_like_canonical_final
#print axioms Hpbf.Chain.bc_stops_only_like_canonical_final
#print axioms Hpbf.Chain.jit_final_forward
#print axioms Hpbf.Chain.jit_final_unique
#print axioms Hpbf.Chain.jit_final_prefix
#print axioms Hpbf.Chain.jit_final_divergent
#print axioms Hpbf.Chain.jit_final_limited
#print axioms Hpbf.Chain.jit_final_limited_enough
#print axioms Hpbf.Chain.all_levels_all_backends
#print axioms Hpbf.Chain.fin_opt2
#print axioms Hpbf.Chain.fin_opt3
#print axioms Hpbf.Chain.fin_canon
