/-
Property C13 ("compilation is total"), part: the OPTIMIZER `Program::optimize` (`src/opt.rs`, model `Hpbf/Opt.lean`).

The model turns every Rust panic site into `Except.error "panic: …"`, the two fuel-bounded recursions into
`"model: …"`, and a non-fitting oracle of hash iteration orders into `"order-mismatch …"`. Proved here, for every IR
block `b` with canonical right-hand sides (`CanonL b.insts`: satisfied by parser output and by optimizer output),
every `level` and EVERY oracle `orders`:

    optimize_no_panic  :  optimize b level orders = .error e → isOracleError e = true
                          (never `panic: …`, never `model: …`: `oracle_error_not_panic`)
    optimize_total     :  ∃ orders b', optimize b level orders = .ok b'
    optimize_canonL    :  optimize b level orders = .ok b' → CanonL b'.insts
    compile_pipeline_no_panic : balanced source ⇒ parse ok; optimize never panics and succeeds for some oracle;
                          whatever it returns is translated to bytecode that passes the contract check; the baseline
                          JIT's code generation succeeds given the operand ranges.

Since the iteration order a real hash set yields is SOME permutation of its elements, and the oracle check accepts
every permutation, the Rust optimizer cannot panic (modulo what the port does not model: `isize`/`usize` overflow
checks of a debug build on offsets near 2^63, `Opt.README.md` §2 last row).

Error sites of `Hpbf/Opt.lean` (all of them: `grep 'throw\|\.error' Hpbf/Opt.lean`) and what excludes them:

| site (Opt.lean)                    | Rust                                        | excluded by                                         |
|------------------------------------|---------------------------------------------|-----------------------------------------------------|
| `splitAlong` find                  | ir.rs `find(..).unwrap()`                   | local: the `count == 1` test (`splitStep_ok`)       |
| `splitAlong` linear                | ir.rs `linear[lin_var]`                     | local: the `all(constant ∨ linear)` test            |
| `evalPending`                      | `symb_evaluate(..).unwrap()` (600)          | closure never `None` (`evalPending_ok`)             |
| `reduceConst`                      | `symb_evaluate(..).unwrap()` (573)          | same (`OptLoop.reduceConst_total`)                  |
| `compare*`                         | only through `evalPending`                  | `compare_ok` (recursion along the parent chain)     |
| `popComp`                          | `stack.pop().unwrap()` (431)                | the DFS stack never shrinks below the caller's length (`popComp_total`, `DStep`) |
| `gatherToEmitDfs` fuel             | — (model)                                   | `Wf`: users in `reverse` are pending keys; every call visits an unvisited key or root: `mu ≤ fuel` (`dfs_ok`) |
| `constDeps` get_mut                | `depends_on.get_mut(&dep).unwrap()` (1118)  | counting invariant `count + occ ≤ cnt` (`constDeps_ok`); needs `vars.Nodup` (`nodup_constVars`: `reads` ascending, pending keys distinct) |
| `constDeps` underflow              | `*v -= 1` (1119, debug build; defect F3)    | same                                                |
| `constLoop` fuel                   | — (model)                                   | potential `stack.length + #positive counters` (`constLoop_ok`) |
| `finishLoop` removePending         | `remove_pending(var).unwrap()` (1286)       | `var` ranges over the distinct pending keys, each step removes only `var` (`motionFold_safe`) |
| `loopMotion`                       | only `reduceConst`, `splitAlong`            | `loopMotion_ok`                                     |
| `popSubAnal`                       | `sub_blocks.pop()` → `None`                 | no error site (less precise, never a panic)         |
| `deadStoreElimination`             | `sub_blocks[block_idx]` (1418)              | `eliminate = none` only on shape mismatch; a round's analysis matches its output (`dse_total_after_round`) |
| `takeOrder`, `takeInlineOrder`, `optimize` "unused" | — (oracle diagnostics)     | these ARE the oracle errors (`order-mismatch …`)    |

Proofs: `Hpbf/Proofs/OptTotal{Defs,Pure,Const,Dfs,Emit,Loop,Main}.lean`; they reuse the structural invariants of the
rebuild-round proof (`Wf`, `CanonSt`, `CStep`, `Child`, `SAsc reads`). No reachable panic site was found.
-/
import Hpbf.Proofs.OptTotalMain
import Hpbf.Proofs.OptRbEx
import Hpbf.Props.C02AllocTotal
import Hpbf.Props.C03Total
import Hpbf.Props.C12

namespace Hpbf
namespace OptTotal
open Opt OptProof Ir

variable {w : Nat}

/-! ### 1. Vocabulary -/

/-- Oracle errors are recognised by the literal prefix of the diagnostics of `takeOrder` / `takeInlineOrder` /
the final "all orders consumed" check. -/
example (e : String) : isOracleError e = "order-mismatch ".toList.isPrefixOf e.toList := rfl

example : isOracleError "order-mismatch missing 1" = true := by decide
example : isOracleError "order-mismatch set 1 model [2] recorded [3]" = true := by decide
example : isOracleError "order-mismatch unused inline" = true := by decide
/-- None of the panic / fuel messages of the model is an oracle error. -/
example :
    isOracleError "panic: split_along: find(..).unwrap()" = false ∧
    isOracleError "panic: split_along: linear[lin_var]" = false ∧
    isOracleError "panic: eval_pending: symb_evaluate(..).unwrap()" = false ∧
    isOracleError "panic: reduce_const: symb_evaluate(..).unwrap()" = false ∧
    isOracleError "panic: gather_to_emit_dfs: stack.pop().unwrap()" = false ∧
    isOracleError "model: gather_to_emit_dfs fuel" = false ∧
    isOracleError "panic: constants_among: depends_on.get_mut(&dep).unwrap()" = false ∧
    isOracleError "panic: constants_among: *v -= 1 underflow" = false ∧
    isOracleError "model: constants_among fuel" = false ∧
    isOracleError "panic: rebuild_block: remove_pending(var).unwrap()" = false ∧
    isOracleError "panic: eliminate_in_block: sub_blocks index" = false := by decide

/-- An oracle error is not a `panic: …` and not a `model: …` message. -/
theorem oracle_error_not_panic (e : String) (h : isOracleError e = true) :
    "panic: ".toList.isPrefixOf e.toList = false ∧ "model: ".toList.isPrefixOf e.toList = false :=
  isOracle_not_panic e h

/-- `NoPanic` / `Total` / `Safe` of a computation in the oracle monad. -/
example {α : Type} (x : M α) : NoPanic x ↔ ∀ os e, x.run os = .error e → isOracleError e = true := Iff.rfl
example {α : Type} (x : M α) : Total x ↔ ∃ pre a, ∀ rest, x.run (pre ++ rest) = .ok (a, rest) := Iff.rfl
example {α : Type} (x : M α) : Safe x ↔ NoPanic x ∧ Total x := ⟨fun h => ⟨h.1, h.2⟩, fun h => ⟨h.1, h.2⟩⟩

/-- The syntactic precondition: every right-hand side of every `calc` (at any depth) is in normal form. -/
example (g : List (Int × Expr w)) : CanonL [Instr.calc g] ↔ ∀ ve ∈ g, Expr.Canon ve.2 := canonL_calc
example (c sh : Int) (body : List (Instr w)) (o : Bool) : CanonL [Instr.loop c sh body o] ↔ CanonL body :=
  canonL_loop
example (i : Instr w) (l : List (Instr w)) : CanonL (i :: l) ↔ CanonI i ∧ CanonL l := canonL_cons

/-- Parser output satisfies it … -/
theorem parse_canonL' {src : List Kind} {b : Block w} (h : Ir.parse (w := w) src = .ok b) : CanonL b.insts :=
  parse_canonL h

/-- … and so does optimizer output (so the theorems apply again to it). -/
theorem optimize_canonL' {b b' : Block w} {level : Nat} {orders : Orders} (hcl : CanonL b.insts)
    (h : Opt.optimize b level orders = .ok b') : CanonL b'.insts :=
  optimize_canonL hcl h

/-! ### 2. The optimizer never panics -/

/-- Every level of the state machine is `Safe`: one round with any previous analysis … -/
theorem optimizeOnce_safe' (b : Block w) (prevAnal : OptAnalysis w) (hcl : CanonL b.insts) :
    Safe (optimizeOnce b prevAnal) :=
  optimizeOnce_safe b prevAnal hcl

/-- … and the whole `Program::optimize` in the oracle monad. -/
theorem optimizeM_safe' (b : Block w) (level : Nat) (hcl : CanonL b.insts) : Safe (optimizeM b level) :=
  optimizeM_safe b level hcl

/-- **`optimize_no_panic`**: for every block with canonical right-hand sides, every level and EVERY oracle, an
error of `optimize` is an oracle error ("the supplied orders do not fit"). -/
theorem optimize_no_panic' (b : Block w) (level : Nat) (orders : Orders) (hcl : CanonL b.insts) :
    ∀ e, Opt.optimize b level orders = .error e → isOracleError e = true :=
  optimize_no_panic b level orders hcl

/-- In particular never a `panic: …` and never a `model: …` (fuel) error. -/
theorem optimize_never_panics (b : Block w) (level : Nat) (orders : Orders) (hcl : CanonL b.insts) (e : String)
    (h : Opt.optimize b level orders = .error e) :
    "panic: ".toList.isPrefixOf e.toList = false ∧ "model: ".toList.isPrefixOf e.toList = false :=
  isOracle_not_panic e (optimize_no_panic b level orders hcl e h)

/-- The same from Brainfuck source. -/
theorem optimize_no_panic_parse {src : List Kind} {b : Block w} (hp : Ir.parse (w := w) src = .ok b)
    (level : Nat) (orders : Orders) :
    ∀ e, Opt.optimize b level orders = .error e → isOracleError e = true :=
  optimize_no_panic b level orders (parse_canonL hp)

/-! ### 3. A fitting oracle exists -/

/-- **`optimize_total`**: some oracle makes `optimize` succeed (answer every query with the model's own set, in the
model's ascending order: `takeOrder_safe`, `takeInlineOrder_safe`). -/
theorem optimize_total' (b : Block w) (level : Nat) (hcl : CanonL b.insts) :
    ∃ orders b', Opt.optimize b level orders = .ok b' :=
  optimize_total b level hcl

theorem optimize_total_parse {src : List Kind} {b : Block w} (hp : Ir.parse (w := w) src = .ok b) (level : Nat) :
    ∃ orders b', Opt.optimize b level orders = .ok b' :=
  optimize_total b level (parse_canonL hp)

/-- The canonical answers of the two oracle readers. -/
example (var : Int) (next : List Int) (rest : Orders) :
    (takeOrder var next).run ((toString var, next) :: rest) = .ok (next, rest) := by
  simp [StateT.run, takeOrder]

/-! ### 4. The pieces (what excludes which panic site) -/

section pieces
open OptLoop in
example (s : Rebuild w) (ps : List (Rebuild w)) (shift : Int) (e : Expr w) : Ok (evalPending s ps shift e) :=
  evalPending_ok s ps shift e
example (s : Rebuild w) (ps : List (Rebuild w)) (a b : Expr w) : Ok (Opt.compare s ps a b) := compare_ok ps s a b
example (e : Expr w) (C : List Int) (lin : List (Int × Expr w)) : Ok (splitAlong e C lin) := splitAlong_ok e C lin
example (s : Rebuild w) (ps : List (Rebuild w)) (var : Int) (p : Expr w) (complete : Bool) (reads C : List Int)
    (lin : List (Int × Expr w)) (other : List Int) (L : OptLoop w) :
    Ok (loopMotion s ps var p complete reads C lin other L) := loopMotion_ok s ps var p complete reads C lin other L
/-- `constants_among` on a duplicate-free list (F3 was a violation of exactly this precondition). -/
example (s : Rebuild w) (ps : List (Rebuild w)) (sub : Rebuild w) (vars : List Int) (hnd : vars.Nodup) :
    Ok (constantsAmong s ps sub vars) := constantsAmong_ok s ps sub vars hnd (compare_ok ps s)
/-- The DFS of `gather_for_emit` on a well-formed state, for any list of roots. -/
example {s : Rebuild w} (hwf : Wf s) (emit : List Int) : Safe (gatherForEmit s emit) := gatherForEmit_safe hwf emit
example {s : Rebuild w} {ps : List (Rebuild w)} {sub : Rebuild w} {cond : Int} {isLoop : Bool} (hwf : Wf s)
    (hc : CanonSt s) (hsub : Child sub) (hr : OptLoop.SAsc sub.reads) : Safe (finishLoop s ps sub cond isLoop) :=
  finishLoop_safe hwf hc hsub hr
/-- Dead store elimination after a round never fails. -/
example {b : Block w} {prevAnal : OptAnalysis w} {os os' : Orders} {b1 : Block w} {anal1 : OptAnalysis w}
    (hr : (optimizeOnce b prevAnal).run os = .ok ((b1, anal1), os')) (hcl : CanonL b.insts) :
    Ok (deadStoreElimination b1 anal1) := dse_total_after_round hr hcl
end pieces

/-! ### 5. The whole compile pipeline -/

/-- **`compile_pipeline_no_panic`.** For a bracket-balanced source and every optimization level: the parser
accepts; the optimizer never panics (every oracle) and succeeds for some oracle; every block it returns is
translated by the bytecode generator (any number of registers, both fusion settings) to a program that passes the
bytecode contract check; and the baseline JIT (`translate(.., 11, false)`) generates machine code as soon as the
operand ranges fit (`DispOk`: `bytes * offset` is an `i32`). -/
theorem compile_pipeline_no_panic (src : List Kind) (hbal : C12.Balanced src) (level : Nat) :
    ∃ b : Block w, Ir.parse (w := w) src = .ok b ∧
      (∀ orders e, Opt.optimize b level orders = .error e → isOracleError e = true) ∧
      (∃ orders b', Opt.optimize b level orders = .ok b') ∧
      (∀ orders b', Opt.optimize b level orders = .ok b' →
        (∀ numRegs fuse, ∃ p, BcGen.translateE b' numRegs fuse = .ok p ∧ BcWf.check p numRegs = true) ∧
        (∃ p, BcGen.translateE b' 11 false = .ok p ∧ BcWf.check p 11 = true ∧
          ∀ (limited safe : Bool) (aE aI aO : Nat) (sz : Asm.Size), Asm.Size.ofBits? w = some sz →
            C03.DispOk sz p.minAcc → C03.DispOk sz p.maxAcc → 8 * p.temps < 2147483648 →
            (∀ (i : Nat) (sh : Int), p.insts[i]? = some (.mov sh) → C03.DispOk sz sh) →
            (safe = true → C03.DispOk sz (-p.minAcc) ∧ C03.DispOk sz (-p.maxAcc)) →
            ∃ code, JitGen.compileX86 w p limited safe aE aI aO = some code)) := by
  obtain ⟨b, hp⟩ := (C12.parse_ok_iff_balanced (w := w) src).2 hbal
  refine ⟨b, hp, optimize_no_panic_parse hp level, optimize_total_parse hp level, ?_⟩
  intro orders b' _
  refine ⟨fun numRegs fuse => C02.translateE_total_check b' numRegs fuse, ?_⟩
  obtain ⟨p, hpt, hchk⟩ := C02.translateE_total_check b' 11 false
  refine ⟨p, hpt, hchk, ?_⟩
  intro limited safe aE aI aO sz hsz hlo hhi htemps hmov hneg
  have hloc : BcWf.localOk p = true := by
    unfold BcWf.check at hchk
    simp only [Bool.and_eq_true] at hchk
    exact hchk.1.1
  exact C03.translate_compile_of_localOk hpt hloc limited safe aE aI aO hsz hlo hhi htemps hmov hneg

/-! ### 6. Examples -/

namespace Examples

/-- `,>,<[>[->+<]<-]>>.` : the inner loop's pending operations depend on each other, so `gather_to_emit_dfs`
consults the oracle once (variable 1, users `{2}`). -/
def exSrc : List Kind :=
  [.inp, .right, .inp, .left, .open, .right, .open, .dec, .right, .inc, .left, .close, .left, .dec, .close,
   .right, .right, .out]

def exB : Block 8 :=
  { shift := 2,
    insts := [.input 0, .input 1,
      .loop 0 0 [.loop 1 0 [.calc [(1, [⟨0xff#8, []⟩, ⟨1#8, [1]⟩])], .calc [(2, [⟨1#8, []⟩, ⟨1#8, [2]⟩])]] false,
                 .calc [(0, [⟨0xff#8, []⟩, ⟨1#8, [0]⟩])]] false,
      .output 2] }

def exB' : Block 8 :=
  { shift := 0,
    insts := [.input 0, .input 1, .calc [(2, [])],
      .loop 0 0 [.calc [(2, [⟨1#8, [1]⟩, ⟨1#8, [2]⟩])], .calc [(1, [])],
                 .calc [(0, [⟨0xff#8, []⟩, ⟨1#8, [0]⟩])]] false,
      .output 2] }

/-- The error message of a failing run (`none` = success). -/
def optimizeErr (b : Block w) (level : Nat) (orders : Orders) : Option String :=
  match Opt.optimize b level orders with
  | .error e => some e
  | .ok _ => none

example : Ir.parse (w := 8) exSrc = .ok exB := parse_of_check (by decide +kernel)
/-- With the fitting oracle the optimizer succeeds … -/
example : Opt.optimize exB 1 [("1", [2])] = .ok exB' := optimize_of_check (by decide +kernel)
/-- … without it, with a wrong set, or with a superfluous entry it reports an oracle error, never a panic. -/
example : (optimizeErr exB 1 []).map isOracleError = some true := by decide +kernel
example : (optimizeErr exB 1 [("1", [3])]).map isOracleError = some true := by decide +kernel
example : (optimizeErr exB 1 [("1", [2]), ("2", [1])]).map isOracleError = some true := by decide +kernel
example : (optimizeErr exB 3 [("1", [2])]).map isOracleError = some true := by decide +kernel

end Examples

end OptTotal
end Hpbf

#print axioms Hpbf.OptTotal.oracle_error_not_panic
#print axioms Hpbf.OptTotal.parse_canonL'
#print axioms Hpbf.OptTotal.optimize_canonL'
#print axioms Hpbf.OptTotal.optimizeOnce_safe'
#print axioms Hpbf.OptTotal.optimizeM_safe'
#print axioms Hpbf.OptTotal.optimize_no_panic'
#print axioms Hpbf.OptTotal.optimize_never_panics
#print axioms Hpbf.OptTotal.optimize_no_panic_parse
#print axioms Hpbf.OptTotal.optimize_total'
#print axioms Hpbf.OptTotal.optimize_total_parse
#print axioms Hpbf.OptTotal.compile_pipeline_no_panic
