/-
Property C03 / C13, "compilation is total" for the baseline JIT: the instruction selector of `emit_program`
(`src/exec/basejit/codegen.rs`, ported as `JitGen.emitInstrRaw`) has an arm for every instruction the bytecode
generator produces in the JIT's setting (`translate(&program, 11, false)`: eleven register temporaries, no
fusion), so `compile_program` never reaches `unimplemented!(..)`, never panics in `emit_pre_call`
(`Reg::tmp(l).unwrap()`), and `fix_relocations` never indexes outside `locations`.  What remains of the
hypothesis `compileX86 … = some code` is the operand-range test (`X86.fits`: a debug build's "attempt to multiply
with overflow" on offsets beyond ±2^28), stated as an arithmetic condition on the program.

Models (frozen): `Hpbf/JitGen.lean`, `Hpbf/BcGen.lean` (`translateE`), `Hpbf/BcWf.lean`.  Proofs:
`Hpbf/Proofs/C03Total{Form,Shape,Translate,Fits,Compile}.lean`.

Vocabulary (transparent, see the `example`s):
* `JitForm ins`   – the instruction forms with a selector arm (independent of width, live bitmap, offsets):
  everything except `scan`; `copy`: destination cell/temporary, source cell/temporary/immediate; `sub`:
  destination cell/temporary, first source cell/temporary/immediate, second source cell/temporary; `add`/`mul`
  (`commForm`): the first source is a cell or a temporary, an immediate only as second source, and
  `(tmp, cell)` sources only together with a cell destination … precisely the table below; no `memZero` anywhere.
* `needsCall safe ins` – `inp`, `out`, and `mov` in bounds-checked mode: the instructions that save registers.
* `shape ins`     – the forms present BEFORE `parameter_reordering` (no `scan`, no `memZero`, destination
  cell/temporary, sources cell/temporary/immediate).
* `InstrFits sz safe minAcc maxAcc ins` – the operand-range condition: `bytes * offset` of every tape operand and
  `8 * t` of every temporary are `i32`s; for `mov`, `bytes * shift` and (bounds-checked) `± bytes * probe`.
-/
import Hpbf.Proofs.C03TotalCompile

namespace Hpbf
namespace C03

open Asm JitGen

variable {w : Nat}

/-! ## 1. The forms with a selector arm -/

example (m : Int) (t : Nat) (c : BitVec w) :
    isMT (.mem m : Bc.Loc w) = true ∧ isMT (.tmp t : Bc.Loc w) = true ∧ isMT (.imm c) = false ∧
    isMT (.memZero m : Bc.Loc w) = false ∧ isMTI (.imm c) = true ∧ isMTI (.memZero m : Bc.Loc w) = false :=
  ⟨rfl, rfl, rfl, rfl, rfl, rfl⟩
example (d s : Bc.Loc w) : JitForm (.copy d s) = (isMT d && isMTI s) := rfl
example (d a b : Bc.Loc w) : JitForm (.sub d a b) = (isMT d && isMTI a && isMT b) := rfl
example (d a b : Bc.Loc w) : JitForm (.add d a b) = commForm d a b ∧ JitForm (.mul d a b) = commForm d a b :=
  ⟨rfl, rfl⟩
/-- The table of `Add` / `Mul`. -/
example (m m' m'' : Int) (t t' t'' : Nat) (c : BitVec w) :
    commForm (.mem m) (.mem m') (.mem m'' : Bc.Loc w) = true ∧ commForm (.mem m) (.mem m') (.tmp t : Bc.Loc w) = true ∧
    commForm (.mem m) (.mem m') (.imm c) = true ∧ commForm (.mem m) (.tmp t) (.tmp t' : Bc.Loc w) = true ∧
    commForm (.mem m) (.tmp t) (.imm c) = true ∧ commForm (.mem m) (.tmp t) (.mem m' : Bc.Loc w) = false ∧
    commForm (.tmp t) (.mem m) (.mem m' : Bc.Loc w) = true ∧ commForm (.tmp t) (.mem m) (.tmp t' : Bc.Loc w) = true ∧
    commForm (.tmp t) (.mem m) (.imm c) = true ∧ commForm (.tmp t) (.tmp t') (.tmp t'' : Bc.Loc w) = true ∧
    commForm (.tmp t) (.tmp t') (.imm c) = true ∧
    commForm (.tmp t) (.tmp t') (.mem m : Bc.Loc w) = (t == t') ∧
    commForm (.mem m) (.imm c) (.mem m') = false ∧ commForm (.tmp t) (.imm c) (.tmp t') = false :=
  ⟨rfl, rfl, rfl, rfl, rfl, rfl, rfl, rfl, rfl, rfl, rfl, rfl, rfl, rfl⟩
example (c s : Int) : JitForm (.scan c s : Bc.Instr w) = false := rfl
example (c o : Int) : JitForm (.brz c o : Bc.Instr w) = true ∧ JitForm (.brnz c o : Bc.Instr w) = true ∧
    JitForm (.mov c : Bc.Instr w) = true ∧ JitForm (.inp c : Bc.Instr w) = true ∧
    JitForm (.out c : Bc.Instr w) = true ∧ JitForm (.noop : Bc.Instr w) = true := ⟨rfl, rfl, rfl, rfl, rfl, rfl⟩
example (safe : Bool) (m : Int) : needsCall safe (.inp m : Bc.Instr w) = true ∧
    needsCall safe (.out m : Bc.Instr w) = true ∧ needsCall safe (.mov m : Bc.Instr w) = safe ∧
    needsCall safe (.brz m m : Bc.Instr w) = false := ⟨rfl, rfl, rfl, rfl⟩

/-- The four selectors are defined exactly on their tables (every width, every live bitmap). -/
theorem total_emitCopy (sz : Size) (d s : Bc.Loc w) : (emitCopy sz d s).isSome = (isMT d && isMTI s) :=
  emitCopy_isSome sz d s
theorem total_emitAdd (sz : Size) (live : Nat) (d a b : Bc.Loc w) :
    (emitAdd sz live d a b).isSome = commForm d a b := emitAdd_isSome sz live d a b
theorem total_emitSub (sz : Size) (live : Nat) (d a b : Bc.Loc w) :
    (emitSub sz live d a b).isSome = subForm d a b := emitSub_isSome sz live d a b
theorem total_emitMul (sz : Size) (live : Nat) (d a b : Bc.Loc w) :
    (emitMul sz live d a b).isSome = commForm d a b := emitMul_isSome sz live d a b

/-- **`JitForm` is exact.** The loop body of `emit_program` (before the operand-range test) succeeds iff the
instruction is a `JitForm` and, if it saves registers, `emit_pre_call` finds a register for every live bit
4..15 (`savedRegs`). -/
theorem total_selector_iff (sz : Size) (limited safe : Bool) (mn mx : Int) (aE aI aO i live : Nat)
    (ins : Bc.Instr w) :
    (emitInstrRaw sz limited safe mn mx aE aI aO i live ins).isSome =
      (JitForm ins && (!needsCall safe ins || (savedRegs live).isSome)) :=
  selector_isSome sz limited safe mn mx aE aI aO i live ins

/-- `selector_total`: every `JitForm` has an arm, for every width, mode, window, runtime addresses, position
and every live bitmap below `2^11`. -/
theorem selector_total {ins : Bc.Instr w} (hf : JitForm ins = true) {live : Nat} (hl : live < 2 ^ 11)
    (sz : Size) (limited safe : Bool) (mn mx : Int) (aE aI aO i : Nat) :
    emitInstrRaw sz limited safe mn mx aE aI aO i live ins ≠ none :=
  selector_total' hf hl sz limited safe mn mx aE aI aO i

/-- … and conversely: the loop body fails only on a non-`JitForm`, or in `emit_pre_call`. -/
theorem selector_total_converse (sz : Size) (limited safe : Bool) (mn mx : Int) (aE aI aO i live : Nat)
    (ins : Bc.Instr w) :
    emitInstrRaw sz limited safe mn mx aE aI aO i live ins = none ↔
      (JitForm ins = false ∨ (needsCall safe ins = true ∧ savedRegs live = none)) :=
  selector_none_iff sz limited safe mn mx aE aI aO i live ins

theorem total_savedRegs {live : Nat} (h : live < 2 ^ 11) : (savedRegs live).isSome = true := savedRegs_of_lt h
/-- A live bit 11..15 does make `emit_pre_call` panic (`Reg::tmp(11).unwrap()`). -/
example : savedRegs (2 ^ 11) = none := by decide

/-! ## 2. Every instruction `translate` produces for the JIT is a `JitForm` -/

example (x : Bc.Instr w) : shape x =
    (match x with
     | .scan _ _ => false
     | .copy d s => isMT d && isMTI s
     | .add d a b => isMT d && isMTI a && isMTI b
     | .sub d a b => isMT d && isMTI a && isMTI b
     | .mul d a b => isMT d && isMTI a && isMTI b
     | _ => true) := by cases x <;> rfl

/-- The emission phase without fusion produces shapes only (in particular no `scan`: `emit_block` emits it only
when `fuse`) … -/
theorem total_emit_shape {prog : Ir.Block w} {s : BcGen.St w} (h : BcGen.emitState prog false = Except.ok s) :
    ∀ (i : Nat) (x : Bc.Instr w), s.insts[i]? = some x → shape x = true := emit_allQ emitClosed_shape h

/-- … `allocate_temps` keeps them (operands are replaced by cells, temporaries and immediates only), and
records live bitmaps below `2^numRegs`; … -/
theorem total_alloc_shape {numRegs : Nat} {s s' : BcGen.St w} (h : BcGen.allocateTemps numRegs s = .ok s')
    (hs : ∀ (i : Nat) (x : Bc.Instr w), s.insts[i]? = some x → shape x = true) (hl : s.live.size = 0) :
    (∀ (i : Nat) (x : Bc.Instr w), s'.insts[i]? = some x → shape x = true) ∧
    ∀ (j l : Nat), s'.live[j]? = some l → l < (if numRegs < 16 then 2 ^ numRegs else 65536) :=
  allocateTemps_shape h hs hl

/-- … and `parameter_reordering` (constants folded into `copy`, `sub x imm ↦ add x (-imm)`, immediates second,
a temporary before a cell only with an equal destination) maps every shape to a `JitForm`. -/
theorem total_reorder_jitForm {x : Bc.Instr w} (h : shape x = true) : JitForm (BcGen.reorderInst x) = true :=
  reorderInst_jitForm h

/-- Without the reordering pass the selector would NOT be total: shapes the allocation produces that have no arm. -/
example : shape (.add (.mem 0) (.imm 1#8) (.mem 1) : Bc.Instr 8) = true ∧
    JitForm (.add (.mem 0) (.imm 1#8) (.mem 1) : Bc.Instr 8) = false ∧
    shape (.sub (.mem 0) (.mem 1) (.imm 1#8) : Bc.Instr 8) = true ∧
    JitForm (.sub (.mem 0) (.mem 1) (.imm 1#8) : Bc.Instr 8) = false ∧
    shape (.add (.mem 0) (.tmp 0) (.mem 1) : Bc.Instr 8) = true ∧
    JitForm (.add (.mem 0) (.tmp 0) (.mem 1) : Bc.Instr 8) = false := ⟨rfl, rfl, rfl, rfl, rfl, rfl⟩

/-- `translate_jitForm`: for every IR block, in the JIT's setting. Also: every live bitmap is below `2^11` and
every branch target lies in `[0, n]` (`TargetsOk` of the FINAL program, from `emit_targetsOk` and the
preservation lemmas of the later passes). -/
theorem translate_jitForm {blk : Ir.Block w} {p : Bc.Program w} (h : BcGen.translateE blk 11 false = .ok p) :
    (∀ (i : Nat) (ins : Bc.Instr w), p.insts[i]? = some ins → JitForm ins = true) ∧
    (∀ (j l : Nat), p.live[j]? = some l → l < 2 ^ 11) ∧
    (∀ (i : Nat) (ins : Bc.Instr w) (off : Int), p.insts[i]? = some ins → BcGen.branchOff? ins = some off →
      0 ≤ (i : Int) + off ∧ (i : Int) + off ≤ p.insts.size) := by
  obtain ⟨h1, h2, h3⟩ := translate_jitForm' h
  exact ⟨h1, fun j l hj => by have := h2 j l hj; simpa [liveBound] using this, h3⟩

/-- The general form (every `numRegs`; the fusing setting `fuse = true` of the threaded interpreter does produce
`scan` and `memZero`, which the JIT has no arm for – it never asks for it). -/
theorem translate_jitForm_numRegs {blk : Ir.Block w} {numRegs : Nat} {p : Bc.Program w}
    (h : BcGen.translateE blk numRegs false = .ok p) :
    (∀ (i : Nat) (ins : Bc.Instr w), p.insts[i]? = some ins → JitForm ins = true) ∧
    (∀ (j l : Nat), p.live[j]? = some l → l < (if numRegs < 16 then 2 ^ numRegs else 65536)) ∧
    C02.TargetsOk p.insts := translate_jitForm' h

/-! ## 3. Compilation succeeds, modulo the operand-range test -/

example (sz : Size) (idx : Int) : DispOk sz idx ↔
    (-2147483648 ≤ (sz.bytes : Int) * idx ∧ (sz.bytes : Int) * idx < 2147483648) := Iff.rfl
example (sz : Size) (m : Int) (t : Nat) (c : BitVec w) :
    (LocFits sz (.mem m : Bc.Loc w) ↔ DispOk sz m) ∧ (LocFits sz (.tmp t : Bc.Loc w) ↔ 8 * t < 2147483648) ∧
    (LocFits sz (.imm c) ↔ True) := ⟨Iff.rfl, Iff.rfl, Iff.rfl⟩
example (sz : Size) (safe : Bool) (mn mx : Int) (d a b : Bc.Loc w) (m o sh : Int) :
    (InstrFits sz safe mn mx (.add d a b) ↔ (LocFits sz d ∧ LocFits sz a ∧ LocFits sz b)) ∧
    (InstrFits sz safe mn mx (.copy d a) ↔ (LocFits sz d ∧ LocFits sz a)) ∧
    (InstrFits sz safe mn mx (.brz m o : Bc.Instr w) ↔ DispOk sz m) ∧
    (InstrFits sz safe mn mx (.inp m : Bc.Instr w) ↔ DispOk sz m) ∧
    (InstrFits sz safe mn mx (.mov sh : Bc.Instr w) ↔ (DispOk sz sh ∧
      (safe = true → DispOk sz (if sh < 0 then mn else mx) ∧ DispOk sz (-(if sh < 0 then mn else mx))))) :=
  ⟨Iff.rfl, Iff.rfl, Iff.rfl, Iff.rfl, Iff.rfl⟩

/-- The four arithmetic / copy selectors emit only encodable operands when the bytecode operands are. -/
theorem total_arith_fits (sz : Size) (live : Nat) {d a b : Bc.Loc w} {xs : List X86} (hd : LocFits sz d)
    (ha : LocFits sz a) (hb : LocFits sz b) :
    (emitCopy sz d a = some xs → xs.all X86.fits = true) ∧ (emitAdd sz live d a b = some xs → xs.all X86.fits = true) ∧
    (emitSub sz live d a b = some xs → xs.all X86.fits = true) ∧
    (emitMul sz live d a b = some xs → xs.all X86.fits = true) :=
  ⟨fun h => emitCopy_fits sz h hd ha, fun h => emitAdd_fits sz live h hd ha hb,
   fun h => emitSub_fits sz live h hd ha hb, fun h => emitMul_fits sz live h hd ha hb⟩

/-- One instruction: form, live bitmap and operand ranges give a successful `emitInstr`. -/
theorem total_emitInstr {sz : Size} {limited safe : Bool} {mn mx : Int} {aE aI aO i live : Nat}
    {ins : Bc.Instr w} (hform : JitForm ins = true) (hlive : live < 2 ^ 11)
    (hfit : InstrFits sz safe mn mx ins) :
    (emitInstr sz limited safe mn mx aE aI aO i live ins).isSome = true := emitInstr_total hform hlive hfit

/-- `compile_total_modulo_fits`. `TargetsOk` makes relocation succeed: `jccInstr` items come only from
`brz`/`brnz`, with target `i + off`. -/
theorem compile_total_modulo_fits (p : Bc.Program w) (limited safe : Bool) (aE aI aO : Nat) {sz : Size}
    (hsz : Size.ofBits? w = some sz) (hsize : p.live.size = p.insts.size)
    (hform : ∀ (i : Nat) (ins : Bc.Instr w), p.insts[i]? = some ins → JitForm ins = true)
    (hlive : ∀ (j l : Nat), p.live[j]? = some l → l < 2 ^ 11)
    (hT : C02.TargetsOk p.insts)
    (hfit : ∀ (i : Nat) (ins : Bc.Instr w), p.insts[i]? = some ins → InstrFits sz safe p.minAcc p.maxAcc ins) :
    ∃ code, compileX86 w p limited safe aE aI aO = some code :=
  compile_total_modulo_fits' p limited safe aE aI aO hsz hsize hform hlive hT hfit

example (w : Nat) : (∃ sz, Size.ofBits? w = some sz) ↔ (w = 8 ∨ w = 16 ∨ w = 32 ∨ w = 64) := by
  unfold Size.ofBits?
  constructor
  · rintro ⟨sz, h⟩; split at h <;> first | omega | cases h
  · rintro (rfl | rfl | rfl | rfl) <;> exact ⟨_, rfl⟩

/-- The arithmetic condition on the program that gives `InstrFits` for its instructions. -/
theorem total_fits_of_bounds {sz : Size} {safe : Bool} (p : Bc.Program w) {ins : Bc.Instr w}
    (hlo : DispOk sz p.minAcc) (hhi : DispOk sz p.maxAcc)
    (hwin : ∀ o ∈ BcWf.memOps ins, p.minAcc ≤ o ∧ o ≤ p.maxAcc)
    (htmp : ∀ t ∈ BcWf.uses ins ++ BcWf.defs ins, t < p.temps) (htemps : 8 * p.temps < 2147483648)
    (hmov : ∀ sh, ins = .mov sh → DispOk sz sh)
    (hneg : safe = true → DispOk sz (-p.minAcc) ∧ DispOk sz (-p.maxAcc)) :
    InstrFits sz safe p.minAcc p.maxAcc ins := instrFits_of_bounds p hlo hhi hwin htmp htemps hmov hneg

/-- For `translate` output nothing but the operand-range condition remains. -/
theorem translate_compile {blk : Ir.Block w} {p : Bc.Program w}
    (h : BcGen.translateE blk 11 false = .ok p) (limited safe : Bool) (aE aI aO : Nat) {sz : Size}
    (hsz : Size.ofBits? w = some sz)
    (hfit : ∀ (i : Nat) (ins : Bc.Instr w), p.insts[i]? = some ins → InstrFits sz safe p.minAcc p.maxAcc ins) :
    ∃ code, compileX86 w p limited safe aE aI aO = some code :=
  translate_compile_total h limited safe aE aI aO hsz hfit

/-- With the window clause of the bytecode contract (`BcWf.localOk`, part of `BcWf.check`): the condition is on
`minAcc`, `maxAcc`, `temps` and the `mov` shifts only. -/
theorem translate_compile_of_localOk {blk : Ir.Block w} {p : Bc.Program w}
    (h : BcGen.translateE blk 11 false = .ok p) (hloc : BcWf.localOk p = true) (limited safe : Bool)
    (aE aI aO : Nat) {sz : Size} (hsz : Size.ofBits? w = some sz)
    (hlo : DispOk sz p.minAcc) (hhi : DispOk sz p.maxAcc) (htemps : 8 * p.temps < 2147483648)
    (hmov : ∀ (i : Nat) (sh : Int), p.insts[i]? = some (.mov sh) → DispOk sz sh)
    (hneg : safe = true → DispOk sz (-p.minAcc) ∧ DispOk sz (-p.maxAcc)) :
    ∃ code, compileX86 w p limited safe aE aI aO = some code := by
  have L := C11.localOk_facts hloc
  refine translate_compile_total h limited safe aE aI aO hsz ?_
  intro i ins hi
  exact instrFits_of_bounds p hlo hhi (fun o ho => L.window hi o ho) (fun t ht => L.temps hi t ht) htemps
    (fun sh e => hmov i sh (e ▸ hi)) hneg

/-! ## 4. Non-vacuity -/

/-- `,[. x -= 1; y += 3x]` as IR: input, output, a loop, sums and a product that need temporaries. -/
def exBlk : Ir.Block 8 :=
  { shift := 0,
    insts := [.input 0,
      .loop 0 0 [.output 0,
        .calc [(0, [{ coef := 1#8, vars := [0] }, { coef := 255#8, vars := [] }]),
               (1, [{ coef := 1#8, vars := [1] }, { coef := 3#8, vars := [0] }])]] false] }

/-- The translation succeeds, every instruction is a `JitForm`, and the JIT compiles it (by evaluation) – as the
theorems say. -/
example : ((BcGen.translateE exBlk 11 false).toOption.map fun p =>
    (p.insts.size, p.insts.toList.all JitForm, p.live.toList.all (· < 2 ^ 11),
     (compileX86 8 p true true 1 2 3).isSome)) = some (8, true, true, true) := by decide +kernel

/-- With fusion (the threaded interpreter's setting) the same source produces a `scan`, for which the JIT has no
arm; the JIT never translates with fusion. -/
example : ((BcGen.translateE ({ shift := 0, insts := [.loop 0 1 [] false] } : Ir.Block 8) 11 true).toOption.map
    fun p => p.insts.toList.all JitForm) = some false := by decide +kernel
example : ((BcGen.translateE ({ shift := 0, insts := [.loop 0 1 [] false] } : Ir.Block 8) 11 false).toOption.map
    fun p => p.insts.toList.all JitForm) = some true := by decide +kernel

end C03
end Hpbf

#print axioms Hpbf.C03.total_emitCopy
#print axioms Hpbf.C03.total_emitAdd
#print axioms Hpbf.C03.total_emitSub
#print axioms Hpbf.C03.total_emitMul
#print axioms Hpbf.C03.total_selector_iff
#print axioms Hpbf.C03.selector_total
#print axioms Hpbf.C03.selector_total_converse
#print axioms Hpbf.C03.total_savedRegs
#print axioms Hpbf.C03.total_emit_shape
#print axioms Hpbf.C03.total_alloc_shape
#print axioms Hpbf.C03.total_reorder_jitForm
#print axioms Hpbf.C03.translate_jitForm
#print axioms Hpbf.C03.translate_jitForm_numRegs
#print axioms Hpbf.C03.total_arith_fits
#print axioms Hpbf.C03.total_emitInstr
#print axioms Hpbf.C03.compile_total_modulo_fits
#print axioms Hpbf.C03.total_fits_of_bounds
#print axioms Hpbf.C03.translate_compile
#print axioms Hpbf.C03.translate_compile_of_localOk
