/-
Property C03.  "For every valid program, input stream, cell width and optimisation level, the x86-64
baseline JIT produces exactly the input/output event sequence of canonical Brainfuck semantics whenever
the canonical run terminates, including programs that keep more values alive than there are registers and
programs whose constants do not fit a 32-bit immediate."

This file: the per-instruction simulation theorem for the ARITHMETIC / COPY forms of the instruction
selector (`Instr::Copy/Add/Sub/Mul` arms of `emit_program`), the part where the two clauses "more values
alive than there are registers" (destination / source temporaries on the stack) and "constants that do
not fit a 32-bit immediate" (`mov r, imm64` forms) are decided.

Models (frozen, tied to the Rust by differential suites): `Hpbf/Asm.lean` (`X86`, `encode`),
`Hpbf/JitGen.lean` (`emitCopy/emitAdd/emitSub/emitMul`, `emitInstr`: byte-for-byte equal to
`codegen.rs` + `asm.rs` on the `jitgen` suite), `Hpbf/Bc.lean` (`Bc.step`, `binop`, `readLoc`, `writeLoc`:
the threaded interpreter, `bcrun` suite). Instruction semantics: `Hpbf/X86Sem.lean` (`exec`, `execAll`),
tied to the PROCESSOR by the `jitsem` request (`Hpbf/Driver6.lean`): the harness runs `encode (emit…)` on
the CPU for every operand-kind combination of the four operations (22 864 experiments, 4 widths, all
sources live / nothing live, small / negative / > 32-bit immediates, memory / register / stack operands)
and the replies of `execAll` on the same abstract instructions are compared line by line.

Vocabulary (`Hpbf/Proofs/C03Base.lean`), all transparent (see the `example`s below):
* `lo v`            – the low `w` bits of a 64-bit value.
* `Rel c m`         – bytecode configuration `c` and machine state `m` agree on every register temporary
                      (`t < 11`, low `w` bits of `tmpReg t`), every stack temporary (`t ≥ 11`, low `w` bits
                      of the slot `[rsp + 8t]`) and every tape cell (offset `o` from the pointer = cell `o`
                      relative to `rbp`).
* `Rel' live d c m` – the same, except that register temporaries that are neither declared live
                      (`live.testBit t`) nor the destination `d` are unconstrained: the selector may use
                      them as scratch (`can_use_as_scratch`).
* `RelOn S c m`     – the general form: agreement on the register temporaries in the set `S`, all stack
                      temporaries, the tape. `Rel = RelOn (fun _ => True)`, `Rel' live d = RelOn (live ∪ {d})`.
                      `Post S live d` = `(S ∩ live) ∪ {d}` is the set after an instruction; `SrcOk S l`:
                      a source operand that is a register temporary is in `S`. With these the theorems
                      compose along straight-line code (`block_sound`), which is the form the
                      liveness contract of C11 feeds.
* `LocOk l`         – a tape offset / temporary number is a value of `i32` (so `idx as i32` and
                      `tmp as i32` in `mem_param` / `tmp_param` do not wrap); no condition on immediates.
* hypotheses of every theorem: the selector produced code (`emit… = some xs`), every emitted instruction
  has operands inside the emitter's parameter types (`xs.all X86.fits`; `emitInstr` tests exactly this,
  so at the `emitInstr` level the hypothesis disappears), operands `LocOk`, `Rel c m`, and the bytecode
  instruction executes (`Bc.binop … = some c'` / `Bc.step … = .next c'`). `memZero` operands need no
  hypothesis: the selectors have no arm for them (`emit… = none`).
* conclusion: the code runs inside the modelled subset (`execAll xs m = some m'`), `Rel' live d c' m'`,
  and `rbx`, `rbp`, `rsp` are unchanged.
-/
import Hpbf.Proofs.C03

namespace Hpbf
namespace C03

open Asm JitGen X86Sem

variable {w : Nat}

/-! ### The vocabulary is transparent -/

example (v : BitVec 64) : (lo v : BitVec w) = v.setWidth w := rfl

example (c : Bc.Cfg w) (m : MState w) : Rel c m ↔
    ((∀ t r, tmpReg t = some r → (m.regs r).setWidth w = Bc.tget c.temps t) ∧
     (∀ t, 11 ≤ t → (m.stack t).setWidth w = Bc.tget c.temps t) ∧
     (∀ o, m.tape o = c.st.rd o)) := Iff.rfl

example (live : Nat) (d : Bc.Loc w) (c : Bc.Cfg w) (m : MState w) : Rel' live d c m ↔
    ((∀ t r, tmpReg t = some r → (live.testBit t = true ∨ d = .tmp t) →
        (m.regs r).setWidth w = Bc.tget c.temps t) ∧
     (∀ t, 11 ≤ t → (m.stack t).setWidth w = Bc.tget c.temps t) ∧
     (∀ o, m.tape o = c.st.rd o)) := Iff.rfl

/-- The register temporaries are exactly the temporaries below 11. -/
example (t : Nat) : (∃ r, tmpReg t = some r) ↔ t < 11 :=
  ⟨fun ⟨_, h⟩ => (tmpReg_eq_some.1 h).1, fun h => ⟨_, tmpReg_lt h⟩⟩

/-- The temporaries `Rel'` leaves unconstrained are those the selector may clobber. -/
example (live t : Nat) (d : Bc.Loc w) (r : Reg) (h : tmpReg t = some r) :
    (live.testBit t = true ∨ d = .tmp t) ↔ (canScratch live t = false ∨ d = .tmp t) := by
  have := (tmpReg_eq_some.1 h).1
  simp [canScratch, this]

example (idx : Int) : LocOk (w := w) (.mem idx) ↔ (-2147483648 ≤ idx ∧ idx < 2147483648) := Iff.rfl
example (t : Nat) : LocOk (w := w) (.tmp t) ↔ t < 2147483648 := Iff.rfl
example (v : BitVec w) : LocOk (.imm v) ↔ True := Iff.rfl

example (live : Nat) (d : Bc.Loc w) (c' : Bc.Cfg w) (m : MState w) (xs : List X86) : Sim live d c' m xs ↔
    ∃ m', execAll xs m = some m' ∧ Rel' live d c' m' ∧
      m'.regs .rbx = m.regs .rbx ∧ m'.regs .rbp = m.regs .rbp ∧ m'.regs .rsp = m.regs .rsp := Iff.rfl

example (S : Nat → Prop) (c : Bc.Cfg w) (m : MState w) : RelOn S c m ↔
    ((∀ t r, tmpReg t = some r → S t → (m.regs r).setWidth w = Bc.tget c.temps t) ∧
     (∀ t, 11 ≤ t → (m.stack t).setWidth w = Bc.tget c.temps t) ∧
     (∀ o, m.tape o = c.st.rd o)) := Iff.rfl
example (S : Nat → Prop) (live t : Nat) (d : Bc.Loc w) :
    Post S live d t ↔ ((S t ∧ live.testBit t = true) ∨ d = .tmp t) := Iff.rfl
example (S : Nat → Prop) (t : Nat) : SrcOk (w := w) S (.tmp t) ↔ (t < 11 → S t) := Iff.rfl
example (S : Nat → Prop) (i : Int) : SrcOk (w := w) S (.mem i) ↔ True := Iff.rfl
example (S : Nat → Prop) (v : BitVec w) : SrcOk S (.imm v) ↔ True := Iff.rfl
example (c : Bc.Cfg w) (m : MState w) : Rel c m ↔ RelOn (fun _ => True) c m := rel_iff_relOn c m
example (live : Nat) (d : Bc.Loc w) (c : Bc.Cfg w) (m : MState w) :
    Rel' live d c m ↔ RelOn (fun t => live.testBit t = true ∨ d = .tmp t) c m := Iff.rfl
example (S : Nat → Prop) (live : Nat) (d : Bc.Loc w) (c' : Bc.Cfg w) (m : MState w) (xs : List X86) :
    SimOn S live d c' m xs ↔
    ∃ m', execAll xs m = some m' ∧ RelOn (Post S live d) c' m' ∧
      m'.regs .rbx = m.regs .rbx ∧ m'.regs .rbp = m.regs .rbp ∧ m'.regs .rsp = m.regs .rsp := Iff.rfl

/-- `Rel` is satisfiable for every configuration; `Rel` gives every `Rel'`; with all eleven register
temporaries live `Rel'` is `Rel`. -/
theorem rel_satisfiable (hw : w ≤ 64) (c : Bc.Cfg w) : ∃ m : MState w, Rel c m := ⟨_, rel_stateOf hw c⟩

theorem rel'_iff_rel_all_live (d : Bc.Loc w) (c : Bc.Cfg w) (m : MState w) : Rel' 2047 d c m ↔ Rel c m :=
  ⟨rel_of_rel'_all, rel'_of_rel⟩

/-! ### The selector theorems -/

/-- `Instr::Copy`: all arms. -/
theorem selector_sound_copy {sz : Size} (hsz : Size.ofBits? w = some sz) (live : Nat) (d s : Bc.Loc w)
    {xs : List X86} (h : emitCopy sz d s = some xs) (hfit : xs.all X86.fits = true)
    (hd : LocOk d) (hs : LocOk s)
    {c : Bc.Cfg w} {m : MState w} (hrel : Rel c m) {c' : Bc.Cfg w}
    (hc : Bc.writeLoc (Bc.readLoc c s).2 (Bc.readLoc c s).1 d = some c') :
    ∃ m', execAll xs m = some m' ∧ Rel' live d c' m' ∧
      m'.regs .rbx = m.regs .rbx ∧ m'.regs .rbp = m.regs .rbp ∧ m'.regs .rsp = m.regs .rsp :=
  sel_copy (ofBits_eq.1 hsz) live d s h hfit hd hs hrel hc

/-- `Instr::Add`: all arms (including the scratch-register arms selected by the live bitmap). -/
theorem selector_sound_add {sz : Size} (hsz : Size.ofBits? w = some sz) (live : Nat) (d a b : Bc.Loc w)
    {xs : List X86} (h : emitAdd sz live d a b = some xs) (hfit : xs.all X86.fits = true)
    (hd : LocOk d) (ha : LocOk a) (hb : LocOk b)
    {c : Bc.Cfg w} {m : MState w} (hrel : Rel c m) {c' : Bc.Cfg w}
    (hc : Bc.binop (· + ·) c d a b = some c') :
    ∃ m', execAll xs m = some m' ∧ Rel' live d c' m' ∧
      m'.regs .rbx = m.regs .rbx ∧ m'.regs .rbp = m.regs .rbp ∧ m'.regs .rsp = m.regs .rsp :=
  sel_add (ofBits_eq.1 hsz) live d a b h hfit hd ha hb hrel hc

/-- `Instr::Sub`: all arms. -/
theorem selector_sound_sub {sz : Size} (hsz : Size.ofBits? w = some sz) (live : Nat) (d a b : Bc.Loc w)
    {xs : List X86} (h : emitSub sz live d a b = some xs) (hfit : xs.all X86.fits = true)
    (hd : LocOk d) (ha : LocOk a) (hb : LocOk b)
    {c : Bc.Cfg w} {m : MState w} (hrel : Rel c m) {c' : Bc.Cfg w}
    (hc : Bc.binop (fun x y => x + (-y)) c d a b = some c') :
    ∃ m', execAll xs m = some m' ∧ Rel' live d c' m' ∧
      m'.regs .rbx = m.regs .rbx ∧ m'.regs .rbp = m.regs .rbp ∧ m'.regs .rsp = m.regs .rsp :=
  sel_sub (ofBits_eq.1 hsz) live d a b h hfit hd ha hb hrel hc

/-- `Instr::Mul`: all arms. -/
theorem selector_sound_mul {sz : Size} (hsz : Size.ofBits? w = some sz) (live : Nat) (d a b : Bc.Loc w)
    {xs : List X86} (h : emitMul sz live d a b = some xs) (hfit : xs.all X86.fits = true)
    (hd : LocOk d) (ha : LocOk a) (hb : LocOk b)
    {c : Bc.Cfg w} {m : MState w} (hrel : Rel c m) {c' : Bc.Cfg w}
    (hc : Bc.binop (· * ·) c d a b = some c') :
    ∃ m', execAll xs m = some m' ∧ Rel' live d c' m' ∧
      m'.regs .rbx = m.regs .rbx ∧ m'.regs .rbp = m.regs .rbp ∧ m'.regs .rsp = m.regs .rsp :=
  sel_mul (ofBits_eq.1 hsz) live d a b h hfit hd ha hb hrel hc

example (d s : Bc.Loc w) : ArithOk (.copy d s) ↔ (LocOk d ∧ LocOk s) := Iff.rfl
example (d a b : Bc.Loc w) : ArithOk (.add d a b) ↔ (LocOk d ∧ LocOk a ∧ LocOk b) := Iff.rfl
example (d a b : Bc.Loc w) : ArithOk (.sub d a b) ↔ (LocOk d ∧ LocOk a ∧ LocOk b) := Iff.rfl
example (d a b : Bc.Loc w) : ArithOk (.mul d a b) ↔ (LocOk d ∧ LocOk a ∧ LocOk b) := Iff.rfl
example (i : Int) : ¬ ArithOk (w := w) (.out i) := id
example (d a b : Bc.Loc w) : dstOf (.add d a b) = d := rfl

/-- The combined statement at the level of `emit_program`'s loop body and `Bc.step`: whenever the JIT
produces code for an arithmetic / copy instruction (for any mode, shim addresses and instruction index)
and the threaded interpreter executes that instruction from `c` to `c'`, the code consists of plain
instructions that run from any related machine state to one related to `c'`. The `fits` hypothesis is
discharged by `emitInstr`'s own test. -/
theorem selector_sound {sz : Size} (hsz : Size.ofBits? w = some sz) (limited safe : Bool)
    (minAcc maxAcc : Int) (addrExtend addrInput addrOutput i live : Nat) (ins : Bc.Instr w)
    (hok : ArithOk ins) {its : List Item}
    (h : emitInstr sz limited safe minAcc maxAcc addrExtend addrInput addrOutput i live ins = some its)
    (p : Bc.Program w) (lim : Bool) {c : Bc.Cfg w} (hins : p.insts[c.pc]? = some ins)
    {m : MState w} (hrel : Rel c m) {c' : Bc.Cfg w} (hstep : Bc.step p lim c = .next c') :
    ∃ xs, its = plains xs ∧ ∃ m', execAll xs m = some m' ∧ Rel' live (dstOf ins) c' m' ∧
      m'.regs .rbx = m.regs .rbx ∧ m'.regs .rbp = m.regs .rbp ∧ m'.regs .rsp = m.regs .rsp :=
  sel_instr (ofBits_eq.1 hsz) limited safe minAcc maxAcc addrExtend addrInput addrOutput i live ins hok h
    p lim hins hrel hstep

/-! ### The compositional form -/

example (c : Bc.Cfg w) (d s : Bc.Loc w) :
    arith c (.copy d s) = Bc.writeLoc (Bc.readLoc c s).2 (Bc.readLoc c s).1 d := rfl
example (c : Bc.Cfg w) (d a b : Bc.Loc w) : arith c (.add d a b) = Bc.binop (· + ·) c d a b := rfl
example (c : Bc.Cfg w) (d a b : Bc.Loc w) :
    arith c (.sub d a b) = Bc.binop (fun x y => x + (-y)) c d a b := rfl
example (c : Bc.Cfg w) (d a b : Bc.Loc w) : arith c (.mul d a b) = Bc.binop (· * ·) c d a b := rfl
example (sz : Size) (live : Nat) (d a b : Bc.Loc w) : emitArith sz live (.add d a b) =
    (emitAdd sz live d a b).bind fun xs => if xs.all X86.fits then some xs else none := rfl
example (S : Nat → Prop) (d a b : Bc.Loc w) : SrcsOk S (.add d a b) ↔ (SrcOk S a ∧ SrcOk S b) := Iff.rfl
example (S : Nat → Prop) (d s : Bc.Loc w) : SrcsOk S (.copy d s) ↔ SrcOk S s := Iff.rfl

/-- `arith` is what `Bc.step` does on an arithmetic / copy instruction. -/
theorem step_is_arith (p : Bc.Program w) (lim : Bool) {c : Bc.Cfg w} {ins : Bc.Instr w}
    (hins : p.insts[c.pc]? = some ins) (hok : ArithOk ins) :
    Bc.step p lim c =
      match arith c ins with
      | some c' => .next { c' with pc := c'.pc + 1 }
      | none => .bad c := step_arith p lim hins hok

/-- All four selectors, with agreement required only on the register temporaries in `S` (which must
contain the register temporaries the instruction reads): afterwards the live ones of `S` and the
destination agree. -/
theorem selector_sound_on {sz : Size} (hsz : Size.ofBits? w = some sz) (S : Nat → Prop) (live : Nat)
    (ins : Bc.Instr w) (hok : ArithOk ins) (hsrc : SrcsOk S ins) {xs : List X86}
    (h : emitArith sz live ins = some xs)
    {c : Bc.Cfg w} {m : MState w} (hrel : RelOn S c m) {c' : Bc.Cfg w} (hc : arith c ins = some c') :
    ∃ m', execAll xs m = some m' ∧ RelOn (Post S live (dstOf ins)) c' m' ∧
      m'.regs .rbx = m.regs .rbx ∧ m'.regs .rbp = m.regs .rbp ∧ m'.regs .rsp = m.regs .rsp :=
  arith_sound (ofBits_eq.1 hsz) S live ins hok hsrc h hrel hc

example (S : Nat → Prop) (ins : Bc.Instr w) (live : Nat) (rest : List (Bc.Instr w × Nat)) :
    Chain S ((ins, live) :: rest) ↔
      (ArithOk ins ∧ SrcsOk S ins ∧ Chain (Post S live (dstOf ins)) rest) := Iff.rfl
example (S : Nat → Prop) (ins : Bc.Instr w) (live : Nat) (rest : List (Bc.Instr w × Nat)) :
    SetAfter S ((ins, live) :: rest) = SetAfter (Post S live (dstOf ins)) rest := rfl
example (sz : Size) (ins : Bc.Instr w) (live : Nat) (rest : List (Bc.Instr w × Nat)) :
    blockCode sz ((ins, live) :: rest) =
      (emitArith sz live ins).bind fun xs => (blockCode sz rest).map fun ys => xs ++ ys := rfl
example (c : Bc.Cfg w) (ins : Bc.Instr w) (live : Nat) (rest : List (Bc.Instr w × Nat)) :
    arithAll ((ins, live) :: rest) c = (arith c ins).bind (arithAll rest) := rfl

/-- Straight-line blocks: if every instruction reads only register temporaries that were written or kept
live since the block started from the set `S` (`Chain`: the liveness contract), the concatenated code
simulates the block, with temporaries spilled to the stack and clobbered scratch registers alike. -/
theorem block_sound {sz : Size} (hsz : Size.ofBits? w = some sz) (prog : List (Bc.Instr w × Nat))
    (S : Nat → Prop) (hchain : Chain S prog) {code : List X86} (hcode : blockCode sz prog = some code)
    {c : Bc.Cfg w} {m : MState w} (hrel : RelOn S c m) {c' : Bc.Cfg w} (hc : arithAll prog c = some c') :
    ∃ m', execAll code m = some m' ∧ RelOn (SetAfter S prog) c' m' ∧
      m'.regs .rbx = m.regs .rbx ∧ m'.regs .rbp = m.regs .rbp ∧ m'.regs .rsp = m.regs .rsp :=
  block_sound' (ofBits_eq.1 hsz) prog S hchain hcode hrel hc

/-- Straight-line code composes. -/
theorem execAll_app (xs ys : List X86) (m : MState w) :
    execAll (xs ++ ys) m = (execAll xs m).bind (execAll ys) := execAll_append xs ys m

/-- Every instruction has at least one byte of machine code. -/
theorem encode_ne_nil (x : X86) : encode x ≠ [] := encode_ne_nil' x

/-! ### The repaired defect (finding F6): the ORIGINAL arms do not simulate the instruction

The five arms of `codegen.rs` before the fix `f9fc599`, as functions of their operands, and for each a
concrete related pair (`cfgOf temps cells`, `stateOf` of it: `Rel` by `rel_stateOf`) from which the
original code ends in a state that is NOT related to the bytecode result, while the arm of the (repaired)
model does. -/

/-- `Add(Tmp t0, Tmp t1, Imm v)`, `t0 ≠ t1`, `v` an `i32`, `t0` on the stack: `add [t0], rax`. -/
def origAddStackImm (t0 t1 : Nat) (v : Int) : List X86 :=
  [mov64 scr0 (tmpParam t1), addImm64 (.reg scr0) v, .addRmR .b64 (tmpParam t0) scr0]

/-- `Add(Tmp t0, Tmp t1, Imm v)`, `t0 ≠ t1`, `v` outside `i32`, `t0` in register `r0`: `mov; mov`. -/
def origAddBigImmReg (r0 : Reg) (t1 : Nat) (v : Int) : List X86 :=
  [.movRImm64 r0 v, mov64 r0 (tmpParam t1)]

/-- The same with `t0` on the stack. -/
def origAddBigImmStack (t0 t1 : Nat) (v : Int) : List X86 :=
  [.movRImm64 scr0 v, mov64 scr0 (tmpParam t1), st64 (tmpParam t0) scr0]

/-- `Mul(Tmp t, Mem idx0, Mem idx1)`, `t` on the stack: `idx0` loaded twice. -/
def origMulStackMemMem (sz : Size) (t : Nat) (idx0 _idx1 : Int) : List X86 :=
  [load sz idx0 scr0, load sz idx0 scr1, .imulRRm scr0 (.reg scr1), st64 (tmpParam t) scr0]

/-- `Mul(Tmp t0, Tmp t0, Tmp t2)`, `t0` on the stack: `add` instead of `imul`. -/
def origMulStackSelf (t0 t2 : Nat) : List X86 :=
  [mov64 scr0 (tmpParam t2), .addRmR .b64 (tmpParam t0) scr0]

/-- `add t11 t0 7` at width 8 with `t11 = 1`, `t0 = 0`: the original leaves `8` in `t11`. -/
theorem f6_add_stack_imm_wrong :
    ∃ c', Bc.binop (· + ·) (cfgOf [(11, 1#8)] []) (.tmp 11) (.tmp 0) (.imm 7#8) = some c' ∧
      ¬ Sim 0 (.tmp 11) c' (stateOf (cfgOf [(11, 1#8)] [])) (origAddStackImm 11 0 7) :=
  ⟨_, rfl, not_sim_of_stack 11 (by decide) 8#8 (by decide) (by decide)⟩

/-- `add t0 t4 4886718345` at width 64 with `t4 = 5`: the original leaves `5` in `t0`. -/
theorem f6_add_big_imm_reg_wrong :
    ∃ c', Bc.binop (· + ·) (cfgOf [(4, 5#64)] []) (.tmp 0) (.tmp 4) (.imm 4886718345#64) = some c' ∧
      ¬ Sim 0 (.tmp 0) c' (stateOf (cfgOf [(4, 5#64)] [])) (origAddBigImmReg .r12 4 4886718345) :=
  ⟨_, rfl, not_sim_of_dst_reg 0 .r12 rfl 5#64 (by decide) (by decide)⟩

/-- `add t11 t4 4886718345` at width 64 with `t4 = 5`: the original leaves `5` in `t11`. -/
theorem f6_add_big_imm_stack_wrong :
    ∃ c', Bc.binop (· + ·) (cfgOf [(4, 5#64)] []) (.tmp 11) (.tmp 4) (.imm 4886718345#64) = some c' ∧
      ¬ Sim 0 (.tmp 11) c' (stateOf (cfgOf [(4, 5#64)] [])) (origAddBigImmStack 11 4 4886718345) :=
  ⟨_, rfl, not_sim_of_stack 11 (by decide) 5#64 (by decide) (by decide)⟩

/-- `mul t11 m0 m3` at width 8 with cells `2` and `3`: the original leaves `4` in `t11`. -/
theorem f6_mul_stack_mem_mem_wrong :
    ∃ c', Bc.binop (· * ·) (cfgOf [] [(0, 2#8), (3, 3#8)]) (.tmp 11) (.mem 0) (.mem 3) = some c' ∧
      ¬ Sim 0 (.tmp 11) c' (stateOf (cfgOf [] [(0, 2#8), (3, 3#8)])) (origMulStackMemMem .b8 11 0 3) :=
  ⟨_, rfl, not_sim_of_stack 11 (by decide) 4#8 (by decide) (by decide)⟩

/-- `mul t11 t11 t0` at width 8 with `t11 = 2`, `t0 = 3`: the original leaves `5` in `t11`. -/
theorem f6_mul_stack_self_wrong :
    ∃ c', Bc.binop (· * ·) (cfgOf [(11, 2#8), (0, 3#8)] []) (.tmp 11) (.tmp 11) (.tmp 0) = some c' ∧
      ¬ Sim 0 (.tmp 11) c' (stateOf (cfgOf [(11, 2#8), (0, 3#8)] [])) (origMulStackSelf 11 0) :=
  ⟨_, rfl, not_sim_of_stack 11 (by decide) 5#8 (by decide) (by decide)⟩

/-- The model's (repaired) arms for the same five instructions differ from the originals exactly as the
fix commit does … -/
example : emitAdd .b8 0 (.tmp 11) (.tmp 0) (.imm 7#8) =
    some [mov64 scr0 (tmpParam 0), addImm64 (.reg scr0) 7, st64 (tmpParam 11) scr0] := by decide
example : emitAdd .b64 0 (.tmp 0) (.tmp 4) (.imm 4886718345#64) =
    some [.movRImm64 .r12 4886718345, add64 .r12 (tmpParam 4)] := by decide
example : emitAdd .b64 0 (.tmp 11) (.tmp 4) (.imm 4886718345#64) =
    some [.movRImm64 scr0 4886718345, add64 scr0 (tmpParam 4), st64 (tmpParam 11) scr0] := by decide
example : emitMul (w := 8) .b8 0 (.tmp 11) (.mem 0) (.mem 3) =
    some [load .b8 0 scr0, load .b8 3 scr1, .imulRRm scr0 (.reg scr1), st64 (tmpParam 11) scr0] := by
  decide
example : emitMul (w := 8) .b8 0 (.tmp 11) (.tmp 11) (.tmp 0) =
    some [mov64 scr0 (tmpParam 0), .imulRRm scr0 (tmpParam 11), st64 (tmpParam 11) scr0] := by decide

/-- … and from the same states they end with the value of the bytecode instruction. -/
example : (execAll ((emitAdd .b8 0 (.tmp 11) (.tmp 0) (.imm 7#8)).getD [])
    (stateOf (cfgOf [(11, 1#8)] []))).map (fun m' => (lo (m'.stack 11) : BitVec 8)) = some 7#8 := by decide
example : (execAll ((emitAdd .b64 0 (.tmp 0) (.tmp 4) (.imm 4886718345#64)).getD [])
    (stateOf (cfgOf [(4, 5#64)] []))).map (fun m' => (lo (m'.regs .r12) : BitVec 64)) =
    some 4886718350#64 := by decide
example : (execAll ((emitAdd .b64 0 (.tmp 11) (.tmp 4) (.imm 4886718345#64)).getD [])
    (stateOf (cfgOf [(4, 5#64)] []))).map (fun m' => (lo (m'.stack 11) : BitVec 64)) =
    some 4886718350#64 := by decide
example : (execAll ((emitMul (w := 8) .b8 0 (.tmp 11) (.mem 0) (.mem 3)).getD [])
    (stateOf (cfgOf [] [(0, 2#8), (3, 3#8)]))).map (fun m' => (lo (m'.stack 11) : BitVec 8)) =
    some 6#8 := by decide
example : (execAll ((emitMul (w := 8) .b8 0 (.tmp 11) (.tmp 11) (.tmp 0)).getD [])
    (stateOf (cfgOf [(11, 2#8), (0, 3#8)] []))).map (fun m' => (lo (m'.stack 11) : BitVec 8)) =
    some 6#8 := by decide

/-! ### Non-vacuity: the hypotheses are satisfiable and the conclusion says something -/

/-- A concrete instance of every hypothesis of `selector_sound_sub`, hence of its conclusion: 16-bit
`sub m1 t3 t12` with `t3 = 5` (not live: used as scratch), `t12 = 7` on the stack. -/
example : ∃ m', execAll [sub64 .r15 (tmpParam 12), storeReg .b16 1 .r15]
      (stateOf (cfgOf [(3, 5#16), (12, 7#16)] [])) = some m' ∧
    m'.tape 1 = 65534#16 ∧ (lo (m'.stack 12) : BitVec 16) = 7#16 := by
  have h : emitSub (w := 16) .b16 0 (.mem 1) (.tmp 3) (.tmp 12) =
      some [sub64 .r15 (tmpParam 12), storeReg .b16 1 .r15] := by decide
  obtain ⟨c', hc⟩ : ∃ c', Bc.binop (fun x y => x + (-y)) (cfgOf [(3, 5#16), (12, 7#16)] [])
      (.mem 1) (.tmp 3) (.tmp 12) = some c' := ⟨_, rfl⟩
  obtain ⟨m', hx, hr, -⟩ := selector_sound_sub (w := 16) rfl 0 _ _ _ h (by decide)
    (by simp [LocOk]) (by simp [LocOk]) (by simp [LocOk]) (rel_stateOf (by decide) _) hc
  refine ⟨m', hx, ?_, ?_⟩
  · rw [hr.2.2 1]; cases hc; decide
  · rw [hr.2.1 12 (by decide)]; cases hc; decide

/-- One evaluation per operation (width 32, destination cell 2, sources a stack temporary and an
immediate / cell), checked against the bytecode value. -/
example : (execAll ((emitCopy (w := 32) .b32 (.mem 2) (.tmp 13)).getD [])
    (stateOf (cfgOf [(13, 4000000000#32)] []))).map (fun m' => m'.tape 2) = some 4000000000#32 := by decide
example : (execAll ((emitAdd (w := 32) .b32 2047 (.mem 2) (.tmp 13) (.imm 4000000000#32)).getD [])
    (stateOf (cfgOf [(13, 4000000000#32)] []))).map (fun m' => m'.tape 2) =
    some (4000000000#32 + 4000000000#32) := by decide
example : (execAll ((emitSub (w := 32) .b32 2047 (.mem 2) (.imm 1#32) (.tmp 13)).getD [])
    (stateOf (cfgOf [(13, 4000000000#32)] []))).map (fun m' => m'.tape 2) =
    some (1#32 - 4000000000#32) := by decide
example : (execAll ((emitMul (w := 32) .b32 2047 (.mem 2) (.mem 0) (.tmp 13)).getD [])
    (stateOf (cfgOf [(13, 4000000000#32)] [(0, 3#32)]))).map (fun m' => m'.tape 2) =
    some (3#32 * 4000000000#32) := by decide

/-- `block_sound` on a two-instruction block at width 8 starting from NO agreeing register temporary
except `t0`, `t1`: `add m0 t0 t1` with only `t1` live (so `t0`'s register is used as scratch and then
dropped from the set), then `copy m1 t1`. -/
example : ∃ m', execAll [add64 .r12 (tmpParam 1), storeReg .b8 0 .r12, storeReg .b8 1 .r13]
      (stateOf (cfgOf [(0, 200#8), (1, 100#8)] [])) = some m' ∧
    m'.tape 0 = 44#8 ∧ m'.tape 1 = 100#8 := by
  let prog : List (Bc.Instr 8 × Nat) := [(.add (.mem 0) (.tmp 0) (.tmp 1), 2), (.copy (.mem 1) (.tmp 1), 0)]
  have hcode : blockCode .b8 prog =
      some [add64 .r12 (tmpParam 1), storeReg .b8 0 .r12, storeReg .b8 1 .r13] := by decide
  have hchain : Chain (fun t => t = 0 ∨ t = 1) prog := by
    refine ⟨⟨by simp [LocOk], by simp [LocOk], by simp [LocOk]⟩, ⟨fun _ => Or.inl rfl, fun _ => Or.inr rfl⟩,
      ⟨by simp [LocOk], by simp [LocOk]⟩, fun _ => Or.inl ⟨Or.inr rfl, by decide⟩, trivial⟩
  obtain ⟨c', hc⟩ : ∃ c', arithAll prog (cfgOf [(0, 200#8), (1, 100#8)] []) = some c' := ⟨_, rfl⟩
  obtain ⟨m', hx, hr, -⟩ := block_sound (w := 8) rfl prog _ hchain hcode
    (relOn_mono ((rel_iff_relOn ..).1 (rel_stateOf (by decide) _)) (fun _ _ => trivial)) hc
  refine ⟨m', hx, ?_, ?_⟩
  · rw [hr.2.2 0]; cases hc; decide
  · rw [hr.2.2 1]; cases hc; decide

/-- Outside the subset the semantics answers `none` (it does not silently accept): a write to `rbp`, an
access to the context, a tape access of the wrong size, an unencodable displacement. -/
example : exec (w := 8) (addImm64 (.reg .rbp) 1) MState.zero = none := rfl
example : exec (w := 8) (mov64 .rax (.mem (some .rbx) none 1 24)) MState.zero = none := rfl
example : exec (w := 8) (load .b16 0 .rax) MState.zero = none := rfl
example : exec (w := 16) (load .b16 1073741824 .rax) MState.zero = none := by decide

end C03
end Hpbf

#print axioms Hpbf.C03.selector_sound_copy
#print axioms Hpbf.C03.selector_sound_add
#print axioms Hpbf.C03.selector_sound_sub
#print axioms Hpbf.C03.selector_sound_mul
#print axioms Hpbf.C03.selector_sound
#print axioms Hpbf.C03.selector_sound_on
#print axioms Hpbf.C03.block_sound
#print axioms Hpbf.C03.step_is_arith
#print axioms Hpbf.C03.rel_satisfiable
#print axioms Hpbf.C03.rel'_iff_rel_all_live
#print axioms Hpbf.C03.execAll_app
#print axioms Hpbf.C03.encode_ne_nil
#print axioms Hpbf.C03.f6_add_stack_imm_wrong
#print axioms Hpbf.C03.f6_add_big_imm_reg_wrong
#print axioms Hpbf.C03.f6_add_big_imm_stack_wrong
#print axioms Hpbf.C03.f6_mul_stack_mem_mem_wrong
#print axioms Hpbf.C03.f6_mul_stack_self_wrong
