/-
Property C04.  "For every valid program, input stream and cell width, the in-place interpreter
produces exactly the input/output event sequence of canonical Brainfuck semantics whenever the
canonical run terminates."

`code : Array Kind` is the classified source text, valid = `Bf.tree code.toList = some p`
(bracket-balanced; `p` is the bracket tree), `w` the cell width, `env` the environment (input
stream, sink behaviour).  `Inplace.run code limited budget fuel env` models
`InplaceInterpreter::execute_in::<LIMITED>`, `Bf.run fuel p env` is the canonical semantics.
The states of the two machines (tape, pointer, environment, events so far) are *equal*, not merely
the event sequences.  Proofs: `Hpbf/Proofs/Tree.lean`, `Hpbf/Proofs/C04.lean`.
-/
import Hpbf.Proofs.C04

namespace Hpbf
namespace C04

variable {w : Nat}

/-! `traceOf` / `traceOfBf` (defined in `Proofs/C04.lean`) extract the events produced so far (most
recent first) from an outcome of either machine, whatever the outcome: -/
example (c : Inplace.Cfg w) : traceOf (.finished c) = c.st.trace := rfl
example (c : Inplace.Cfg w) : traceOf (.stopped c) = c.st.trace := rfl
example (c : Inplace.Cfg w) : traceOf (.interrupted c) = c.st.trace := rfl
example (c : Inplace.Cfg w) (pos : Nat) : traceOf (.notOpened pos c) = c.st.trace := rfl
example (c : Inplace.Cfg w) : traceOf (.outOfFuel c) = c.st.trace := rfl
example (s : State w) : traceOfBf (.done s) = s.trace := rfl
example (s : State w) : traceOfBf (.stopped s) = s.trace := rfl
example (c : Bf.Config w) : traceOfBf (.outOfFuel c) = c.st.trace := rfl

/-! ### Concrete programs used by the satisfiability examples -/

/-- `+[-]` -/
def exClear : Array Kind := #[.inc, .open, .dec, .close]
/-- `,[.,]` -/
def exCat : Array Kind := #[.inp, .open, .out, .inp, .close]
/-- `+[]` (diverges) -/
def exSpin : Array Kind := #[.inc, .open, .close]
/-- no source, present sink that never refuses -/
def exEnv0 : Env := { input := none, sink := true, outOk := none }
/-- input `A`, then end of input -/
def exEnvA : Env := { input := some [.byte 65], sink := true, outOk := none }

def isDone : Bf.Outcome w → Bool
  | .done _ => true
  | _ => false
def isStopped : Bf.Outcome w → Bool
  | .stopped _ => true
  | _ => false
def isFinished : Inplace.Outcome w → Bool
  | .finished _ => true
  | _ => false
def isStoppedI : Inplace.Outcome w → Bool
  | .stopped _ => true
  | _ => false
def isInterrupted : Inplace.Outcome w → Bool
  | .interrupted _ => true
  | _ => false

example : Bf.tree exClear.toList = some (.cmd .inc (.loop (.cmd .dec .nil) .nil)) := by decide
example : Bf.tree exCat.toList =
    some (.cmd .inp (.loop (.cmd .out (.cmd .inp .nil)) .nil)) := by decide
example : Bf.tree exSpin.toList = some (.cmd .inc (.loop .nil .nil)) := by decide

section
variable (code : Array Kind) (p : Prog) (h : Bf.tree code.toList = some p) (env : Env)
include h

/-! ### 1. Forward: what the canonical run does, the in-place interpreter does -/

/-- If the canonical run ends normally in state `s`, the in-place interpreter finishes in `s`. -/
theorem inplace_forward (b : Nat) :
    ∀ (f : Nat) (s : State w), Bf.run f p env = .done s →
      ∃ f' c, Inplace.run code false b f' env = .finished c ∧ c.st = s := by
  intro f s hr
  have := fwd_run (w := w) h false b f env (by simp)
  rw [hr] at this
  exact this

/-- If the canonical run stops at a failing I/O operation in state `s`, so does the in-place
interpreter. -/
theorem inplace_forward_stopped (b : Nat) :
    ∀ (f : Nat) (s : State w), Bf.run f p env = .stopped s →
      ∃ f' c, Inplace.run code false b f' env = .stopped c ∧ c.st = s := by
  intro f s hr
  have := fwd_run (w := w) h false b f env (by simp)
  rw [hr] at this
  exact this

/-- C04 as worded: whenever the canonical run terminates, the in-place interpreter terminates with
exactly the same event sequence. -/
theorem inplace_events_eq (b : Nat) :
    ∀ (f : Nat), (∃ s, Bf.run (w := w) f p env = .done s) ∨ (∃ s, Bf.run (w := w) f p env = .stopped s) →
      ∃ f', (Inplace.run (w := w) code false b f' env).Halted ∧
        traceOf (Inplace.run (w := w) code false b f' env) = traceOfBf (Bf.run (w := w) f p env) := by
  intro f hr
  rcases hr with ⟨s, hr⟩ | ⟨s, hr⟩
  · obtain ⟨f', c, hc, hs⟩ := inplace_forward code p h env b f s hr
    exact ⟨f', by rw [hc]; trivial, by rw [hc, hr]; simp [traceOf, traceOfBf, hs]⟩
  · obtain ⟨f', c, hc, hs⟩ := inplace_forward_stopped code p h env b f s hr
    exact ⟨f', by rw [hc]; trivial, by rw [hc, hr]; simp [traceOf, traceOfBf, hs]⟩

/-! ### 2. Backward: termination reflection, and no `LoopNotOpened` -/

/-- The in-place interpreter finishes only if the canonical run ends normally, in the same state. -/
theorem inplace_backward (b : Nat) :
    ∀ (f' : Nat) (c : Inplace.Cfg w), Inplace.run code false b f' env = .finished c →
      ∃ f, Bf.run f p env = .done c.st := by
  intro f' c hr
  have := back_run (w := w) h false b f' env
  rw [hr] at this
  exact this

/-- The in-place interpreter stops at a failing I/O operation only if the canonical run does. -/
theorem inplace_backward_stopped (b : Nat) :
    ∀ (f' : Nat) (c : Inplace.Cfg w), Inplace.run code false b f' env = .stopped c →
      ∃ f, Bf.run f p env = .stopped c.st := by
  intro f' c hr
  have := back_run (w := w) h false b f' env
  rw [hr] at this
  exact this

/-- On a balanced program the in-place interpreter never reports `LoopNotOpened`, in either mode. -/
theorem inplace_never_notOpened :
    ∀ (limited : Bool) (b f' pos : Nat) (c : Inplace.Cfg w),
      Inplace.run code limited b f' env ≠ .notOpened pos c := by
  intro limited b f' pos c hr
  have := back_run (w := w) h limited b f' env
  rw [hr] at this
  exact this

/-- In unlimited mode the in-place interpreter never reports an exhausted budget. -/
theorem inplace_never_interrupted_unlimited :
    ∀ (b f' : Nat) (c : Inplace.Cfg w), Inplace.run code false b f' env ≠ .interrupted c := by
  intro b f' c hr
  have := back_run (w := w) h false b f' env
  rw [hr] at this
  exact Bool.noConfusion this.1

/-! ### 3. Prefix: nothing extra is ever printed, and nothing is withheld -/

/-- Whatever the in-place interpreter has done after any number of steps (also when it has not
returned yet) is what the canonical run has done after some number of steps. -/
theorem inplace_prefix (b : Nat) :
    ∀ f', ∃ f, traceOf (Inplace.run (w := w) code false b f' env) =
      traceOfBf (Bf.run (w := w) f p env) := by
  intro f'
  have hb := back_run (w := w) h false b f' env
  unfold Bf.run
  cases hr : Inplace.run (w := w) code false b f' env with
  | finished c => rw [hr] at hb; obtain ⟨f, hf⟩ := hb; exact ⟨f, by rw [hf]; rfl⟩
  | stopped c => rw [hr] at hb; obtain ⟨f, hf⟩ := hb; exact ⟨f, by rw [hf]; rfl⟩
  | interrupted c => rw [hr] at hb; exact Bool.noConfusion hb.1
  | notOpened pos c => rw [hr] at hb; exact hb.elim
  | outOfFuel c =>
    rw [hr] at hb
    obtain ⟨f, c', hf, hrel⟩ := hb
    exact ⟨f, by rw [hf]; simp [traceOf, traceOfBf, hrel.1]⟩

/-- Conversely, whatever the canonical run has done after any number of steps, the in-place
interpreter has done after some number of steps. -/
theorem inplace_prefix_conv (b : Nat) :
    ∀ f, ∃ f', traceOfBf (Bf.run (w := w) f p env) =
      traceOf (Inplace.run (w := w) code false b f' env) := by
  intro f
  have hf := fwd_run (w := w) h false b f env (by simp)
  cases hr : Bf.run (w := w) f p env with
  | done s =>
    rw [hr] at hf; obtain ⟨f', c, hc, hs⟩ := hf
    exact ⟨f', by rw [hc]; simp [traceOf, traceOfBf, hs]⟩
  | stopped s =>
    rw [hr] at hf; obtain ⟨f', c, hc, hs⟩ := hf
    exact ⟨f', by rw [hc]; simp [traceOf, traceOfBf, hs]⟩
  | outOfFuel cfg =>
    rw [hr] at hf; obtain ⟨f', c, hc, hs⟩ := hf
    exact ⟨f', by rw [hc]; simp [traceOf, traceOfBf, hs]⟩

/-- Literally a prefix: the events of the in-place interpreter after `f'` steps are an initial part
of the canonical event sequence after `g` steps for every sufficiently large `g` (traces are most
recent first, so "initial part" is `<:+`). In particular for a terminating canonical run they are an
initial part of its complete event sequence. -/
theorem inplace_output_is_canonical_prefix (b : Nat) :
    ∀ f', ∃ f, ∀ g, f ≤ g →
      traceOf (Inplace.run (w := w) code false b f' env) <:+ traceOfBf (Bf.run (w := w) g p env) := by
  intro f'
  obtain ⟨f, hf⟩ := inplace_prefix code p h env b f'
  refine ⟨f, fun g hg => ?_⟩
  obtain ⟨k, rfl⟩ : ∃ k, g = f + k := ⟨g - f, by omega⟩
  rw [hf]
  exact bf_trace_add f k _

/-! ### 4. Limited mode -/

/-- Every outcome of the limited run is a canonical outcome or a canonical prefix. -/
theorem inplace_limited :
    ∀ (b f' : Nat),
      match Inplace.run (w := w) code true b f' env with
      | .finished c => ∃ f, Bf.run f p env = .done c.st
      | .stopped c => ∃ f, Bf.run f p env = .stopped c.st
      | .interrupted c => ∃ f, traceOfBf (Bf.run (w := w) f p env) = c.st.trace
      | .notOpened _ _ => False
      | .outOfFuel c => ∃ f, traceOfBf (Bf.run (w := w) f p env) = c.st.trace := by
  intro b f'
  have hb := back_run (w := w) h true b f' env
  unfold Bf.run
  cases hr : Inplace.run (w := w) code true b f' env with
  | finished c => rw [hr] at hb; exact hb
  | stopped c => rw [hr] at hb; exact hb
  | interrupted c =>
    rw [hr] at hb
    obtain ⟨_, f, c', hf, hs⟩ := hb
    exact ⟨f, by rw [hf]; simp [traceOfBf, hs]⟩
  | notOpened pos c => rw [hr] at hb; exact hb
  | outOfFuel c =>
    rw [hr] at hb
    obtain ⟨f, c', hf, hrel⟩ := hb
    exact ⟨f, by rw [hf]; simp [traceOfBf, hrel.1]⟩

/-- For every budget the limited run returns within `(b + 1) * (code.size + 2)` steps. -/
theorem inplace_limited_terminates :
    ∀ (b f' : Nat), (b + 1) * (code.size + 2) ≤ f' →
      ∀ c, Inplace.run (w := w) code true b f' env ≠ .outOfFuel c := by
  intro b f' hf c hr
  have := limited_run_halted (w := w) h b f' env hf
  rw [hr] at this
  exact this

/-- If the canonical run ends normally within `f` steps, then with any budget `b ≥ f` the limited
run reports completion in the same state (within `(b + 1) * (code.size + 2)` steps). -/
theorem inplace_limited_enough :
    ∀ (f : Nat) (s : State w), Bf.run f p env = .done s → ∀ b, f ≤ b →
      ∃ c, Inplace.run code true b ((b + 1) * (code.size + 2)) env = .finished c ∧ c.st = s := by
  intro f s hr b hb
  have hf := fwd_run (w := w) h true b f env (fun _ => hb)
  rw [hr] at hf
  obtain ⟨f', c, hc, hs⟩ := hf
  refine ⟨c, ?_, hs⟩
  have hh := limited_run_halted (w := w) h b _ env (Nat.le_refl _)
  have hh' : (Inplace.run (w := w) code true b f' env).Halted := by rw [hc]; trivial
  have := Inplace.runCfg_det hh hh'
  unfold Inplace.run at hc ⊢
  rw [this, hc]

/-- The same for a canonical run that stops at a failing I/O operation. -/
theorem inplace_limited_enough_stopped :
    ∀ (f : Nat) (s : State w), Bf.run f p env = .stopped s → ∀ b, f ≤ b →
      ∃ c, Inplace.run code true b ((b + 1) * (code.size + 2)) env = .stopped c ∧ c.st = s := by
  intro f s hr b hb
  have hf := fwd_run (w := w) h true b f env (fun _ => hb)
  rw [hr] at hf
  obtain ⟨f', c, hc, hs⟩ := hf
  refine ⟨c, ?_, hs⟩
  have hh := limited_run_halted (w := w) h b _ env (Nat.le_refl _)
  have hh' : (Inplace.run (w := w) code true b f' env).Halted := by rw [hc]; trivial
  have := Inplace.runCfg_det hh hh'
  unfold Inplace.run at hc ⊢
  rw [this, hc]

end

/-! ### Satisfiability of the hypotheses on concrete programs (kernel evaluation) -/

-- `inplace_forward`: the canonical run of `+[-]` ends normally after 6 steps ...
example : isDone (Bf.run (w := 8) 6 (.cmd .inc (.loop (.cmd .dec .nil) .nil)) exEnv0) = true := by
  decide
-- ... and the in-place run finishes after 5.
example : isFinished (Inplace.run (w := 8) exClear false 0 5 exEnv0) = true := by decide
-- `inplace_forward_stopped` / `inplace_backward_stopped`: `,[.,]` without an input source stops.
example : isStopped (Bf.run (w := 8) 1 (.cmd .inp (.loop (.cmd .out (.cmd .inp .nil)) .nil))
    exEnv0) = true := by decide
example : isStoppedI (Inplace.run (w := 8) exCat false 0 1 exEnv0) = true := by decide
-- `,[.,]` on input `A`: both print `A` (events: read 65, write 65, read 0 at end of input).
example : traceOfBf (Bf.run (w := 8) 8 (.cmd .inp (.loop (.cmd .out (.cmd .inp .nil)) .nil))
    exEnvA) = [Ev.inp 0, Ev.out 65, Ev.inp 65] := by decide
example : traceOf (Inplace.run (w := 8) exCat false 0 6 exEnvA) =
    [Ev.inp 0, Ev.out 65, Ev.inp 65] := by decide
example : isFinished (Inplace.run (w := 8) exCat false 0 6 exEnvA) = true := by decide
-- `inplace_limited`: `+[]` with budget 2 is interrupted; `+[-]` with budget 6 completes.
example : isInterrupted (Inplace.run (w := 8) exSpin true 2 7 exEnv0) = true := by decide
example : isFinished (Inplace.run (w := 8) exClear true 6 ((6 + 1) * (exClear.size + 2)) exEnv0)
    = true := by decide

/-! ### Fuel monotonicity and determinism of the two machines (used by other properties) -/

/-- More fuel gives the same proper (not `outOfFuel`) canonical result. -/
theorem bf_fuel_mono {f f' : Nat} {c : Bf.Config w} {r : Bf.Outcome w}
    (hr : Bf.runCfg f c = r) (hne : ∀ c', r ≠ .outOfFuel c') (hf : f ≤ f') :
    Bf.runCfg f' c = r := by
  subst hr
  refine Bf.runCfg_mono ?_ hf
  cases hr : Bf.runCfg f c with
  | outOfFuel c' => exact (hne c' hr).elim
  | done s => trivial
  | stopped s => trivial

/-- Two proper canonical results of the same configuration coincide. -/
theorem bf_deterministic {f f' : Nat} {c : Bf.Config w} {r r' : Bf.Outcome w}
    (hr : Bf.runCfg f c = r) (hne : ∀ c', r ≠ .outOfFuel c')
    (hr' : Bf.runCfg f' c = r') (hne' : ∀ c', r' ≠ .outOfFuel c') : r = r' := by
  rcases Nat.le_total f f' with hle | hle
  · rw [← hr', bf_fuel_mono hr hne hle]
  · rw [← hr, bf_fuel_mono hr' hne' hle]

/-- The canonical event sequence only grows with the number of steps. -/
theorem bf_trace_mono {f f' : Nat} (hf : f ≤ f') (c : Bf.Config w) :
    traceOfBf (Bf.runCfg f c) <:+ traceOfBf (Bf.runCfg f' c) := by
  obtain ⟨k, rfl⟩ : ∃ k, f' = f + k := ⟨f' - f, by omega⟩
  exact bf_trace_add f k c

/-- More fuel gives the same proper in-place result. -/
theorem inplace_fuel_mono {code : Array Kind} {limited : Bool} {f f' : Nat} {c : Inplace.Cfg w}
    {r : Inplace.Outcome w} (hr : Inplace.runCfg code limited f c = r)
    (hne : ∀ c', r ≠ .outOfFuel c') (hf : f ≤ f') : Inplace.runCfg code limited f' c = r := by
  subst hr
  refine Inplace.runCfg_mono ?_ hf
  cases hr : Inplace.runCfg code limited f c with
  | outOfFuel c' => exact (hne c' hr).elim
  | finished _ => trivial
  | stopped _ => trivial
  | interrupted _ => trivial
  | notOpened _ _ => trivial

/-- Two proper in-place results of the same configuration coincide. -/
theorem inplace_deterministic {code : Array Kind} {limited : Bool} {f f' : Nat}
    {c : Inplace.Cfg w} {r r' : Inplace.Outcome w}
    (hr : Inplace.runCfg code limited f c = r) (hne : ∀ c', r ≠ .outOfFuel c')
    (hr' : Inplace.runCfg code limited f' c = r') (hne' : ∀ c', r' ≠ .outOfFuel c') : r = r' := by
  rcases Nat.le_total f f' with hle | hle
  · rw [← hr', inplace_fuel_mono hr hne hle]
  · rw [← hr, inplace_fuel_mono hr' hne' hle]

end C04
end Hpbf

#print axioms Hpbf.C04.inplace_forward
#print axioms Hpbf.C04.inplace_forward_stopped
#print axioms Hpbf.C04.inplace_events_eq
#print axioms Hpbf.C04.inplace_backward
#print axioms Hpbf.C04.inplace_backward_stopped
#print axioms Hpbf.C04.inplace_never_notOpened
#print axioms Hpbf.C04.inplace_never_interrupted_unlimited
#print axioms Hpbf.C04.inplace_prefix
#print axioms Hpbf.C04.inplace_prefix_conv
#print axioms Hpbf.C04.inplace_output_is_canonical_prefix
#print axioms Hpbf.C04.inplace_limited
#print axioms Hpbf.C04.inplace_limited_terminates
#print axioms Hpbf.C04.inplace_limited_enough
#print axioms Hpbf.C04.inplace_limited_enough_stopped
#print axioms Hpbf.C04.bf_fuel_mono
#print axioms Hpbf.C04.bf_deterministic
#print axioms Hpbf.C04.bf_trace_mono
#print axioms Hpbf.C04.inplace_fuel_mono
#print axioms Hpbf.C04.inplace_deterministic
