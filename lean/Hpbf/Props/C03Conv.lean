/-
Property C03, the converse direction for the baseline JIT: "the machine code returns ⇒ the bytecode run has
ended (with the corresponding verdict)", and "a bytecode run that never ends is executed by machine code that never
returns".  `Props/C03Flow.lean` (`prog_run`) gives the forward direction; its `.outOfFuel` clause only exhibits
SOME reachable machine state, without a lower bound on the number of machine steps.  Here the bound is supplied:
every continuing bytecode step costs the machine at least one step (`conv_progress`), the machine is
deterministic, hence `f` bytecode steps need at least `f` machine steps (`conv_steps`), and the two statements
follow (`conv_diverges`, `conv_run`).

Hypotheses: those of `prog_run`, plus `NoNoop p` – the program contains no `noop` (a `noop` is compiled to no
code, so a step over it costs the machine nothing; every program `translate` returns is `noop`-free:
`Chain.translate_shape`).  Both limited and unlimited mode are covered.

Why progress is not automatic: the empty loop `[]`, compiled without fusion, is `brz c 2; brnz c 0` – on a
non-zero cell the `brnz` jumps to itself and the bytecode configuration does not change at all (unlimited mode),
while the machine executes `cmp; jne` over and over.  For this case the proof runs the compare-and-jump pair
(`branch_tail_inv`, two machine steps); for all other instructions progress follows from the simulation relation
alone: a non-branch moves the program counter to `locs[pc + 1] > locs[pc]` (every instruction but `noop` has at
least one byte of code: `conv_code_nonempty`), and a branch in limited mode changes the budget cell.

Proofs: `Hpbf/Proofs/C03Conv{Step,Run}.lean`.
-/
import Hpbf.Proofs.C03ConvRun

namespace Hpbf
namespace C03

open Asm JitGen X86Sem X86Prog

variable {w : Nat}

example (p : Bc.Program w) : NoNoop p ↔ ∀ i : Nat, p.insts[i]? ≠ some Bc.Instr.noop := Iff.rfl
example (cfg : Cfg) (n : Nat) (s : PState w) : Running cfg n s ↔ ∃ x, run cfg n s = .fuel x := Iff.rfl
example (cfg : Cfg) (n : Nat) (s : PState w) :
    Running cfg n s ↔ ((∀ r, run cfg n s ≠ .ret r) ∧ ∀ f r, run cfg n s ≠ .fault f r) := running_iff

/-- Only `noop` is compiled to nothing; the code of every other instruction occupies at least one byte. -/
theorem conv_code_nonempty (K : Ctx w) {i : Nat} {ins : Bc.Instr w} (hi : K.p.insts[i]? = some ins)
    (hn : ins ≠ .noop) : K.loc i < K.loc (i + 1) := K.loc_succ_lt hi hn

/-- `conv_progress`: the `.next` clause of `prog_simulation` with AT LEAST ONE machine step. -/
theorem conv_progress (K : Ctx w) (G : Good K) (hnn : NoNoop K.p) {fr : Frame} (h7 : fr.saved.length = 7)
    {c : Bc.Cfg w} {s : PState w} (hbnd : K.safe = true → Bnd s) (hsh : Sh K fr c s) {c' : Bc.Cfg w}
    (hstep : Bc.step K.p K.limited c = .next c') :
    ∃ n s', 0 < n ∧ steps K.cfg n s = some s' ∧ Sh K fr c' s' := conv_progress' K G hnn h7 hbnd hsh hstep

/-- Without the hypothesis the claim is false: a `noop` is compiled to nothing (`locs[i + 1] = locs[i]`). -/
example (sz : Size) (limited safe : Bool) (mn mx : Int) (aE aI aO i live : Nat) :
    emitInstrRaw (w := w) sz limited safe mn mx aE aI aO i live .noop = some [] := rfl

/-- The machine is deterministic: a return is unique and stable under more fuel, and a run that ends within `m`
steps cannot make `m` or more continuing steps. -/
theorem conv_ret_unique {cfg : Cfg} {n1 n2 : Nat} {s a b : PState w} (h1 : run cfg n1 s = .ret a)
    (h2 : run cfg n2 s = .ret b) : a = b := run_ret_unique h1 h2
theorem conv_run_more {cfg : Cfg} (n : Nat) {s r : PState w} (j : Nat) (h : run cfg n s = .ret r) :
    run cfg (n + j) s = .ret r := run_more n j h
theorem conv_steps_lt {cfg : Cfg} (n : Nat) {m : Nat} {s s' : PState w} (h : steps cfg n s = some s')
    (hr : ∀ x, run cfg m s ≠ .fuel x) : n < m := steps_lt_of_run n h hr

/-- `f` continuing bytecode steps need at least `f` machine steps. -/
theorem conv_steps (K : Ctx w) (G : Good K) (hnn : NoNoop K.p) {fr : Frame} (h7 : fr.saved.length = 7)
    (f : Nat) {c cf : Bc.Cfg w} {s : PState w} (hoom : NoOOM K s) (hsh : Sh K fr c s)
    (h : Bc.runCfg K.p K.limited f c = .outOfFuel cf) :
    ∃ n s', f ≤ n ∧ steps K.cfg n s = some s' ∧ Sh K fr cf s' := conv_steps_ge K G hnn h7 f hoom hsh h

/-- `conv_run`: if the compiled function, called as `enter_jit_code` calls it, returns, then the bytecode run
(`Bc.run`: the threaded interpreter from zeroed temporaries) ends for some fuel – normally iff `rax = 1`, by a
failing I/O operation or an exhausted budget iff `rax = 0` – with the same event trace, environment, tape and
budget cell (`Result`), the callee-saved registers restored. -/
theorem conv_run (p : Bc.Program w) (limited safe : Bool) (cfg : Cfg) {code : List X86}
    (hcomp : compileX86 w p limited safe cfg.aE.toNat cfg.aI.toNat cfg.aO.toNat = some code)
    (hfetch : cfg.fetch = fetchFast (fetchTable code)) (hsmall : sizeAll code < 2 ^ 31)
    (hIO : cfg.aI ≠ cfg.aO) (hEI : cfg.aE ≠ cfg.aI) (hEO : cfg.aE ≠ cfg.aO)
    (hchk : BcWf.check p 11 = true) (hwin : -2147483648 < p.minAcc ∧ p.maxAcc < 2147483648)
    (htemps : alignedTemps p.temps * 8 < 2147483648)
    (hshift : ∀ (i : Nat) (sh : Int), p.insts[i]? = some (Bc.Instr.mov sh) → -2147483648 ≤ sh ∧ sh < 2147483648)
    (hnn : NoNoop p)
    (buf0 rsp0 ra : BitVec 64) (hrsp : rsp0.toNat % 16 = 8)
    (budget : Nat) (hb : budget < 2 ^ 64) (hlim : (limited && budget == 0) = false) (env : Env)
    (hoom : safe = true → ∀ n s', steps cfg n (initState (w := w) cfg buf0 rsp0 ra p.minAcc p.maxAcc budget env)
      = some s' → Bnd s')
    {n : Nat} {s' : PState w}
    (hret : run cfg n (initState cfg buf0 rsp0 ra p.minAcc p.maxAcc budget env) = .ret s') :
    ∃ fuel c',
      ((Bc.run p limited budget fuel env = .done c' ∧ s'.regs.rax = 1 ∧ s'.budget.toNat = c'.budget) ∨
       (Bc.run p limited budget fuel env = .stopped c' ∧ s'.regs.rax = 0 ∧ s'.budget.toNat = c'.budget) ∨
       (Bc.run p limited budget fuel env = .interrupted c' ∧ s'.regs.rax = 0 ∧ s'.budget.toNat < 2 ∧
          c'.budget = 0)) ∧
      Result (initState cfg buf0 rsp0 ra p.minAcc p.maxAcc budget env) s' c' :=
  conv_run_compiled p limited safe cfg hcomp hfetch hsmall hIO hEI hEO hchk hwin htemps hshift hnn buf0 rsp0 ra
    hrsp budget hb hlim env hoom hret

/-- In particular the traces agree (`Result.trace`), and in unlimited mode a returned 1 means the bytecode run
ran to its end: -/
example (s0 s' : PState w) (c' : Bc.Cfg w) (h : Result s0 s' c') :
    s'.trace = c'.st.trace ∧ s'.env = c'.st.env ∧ s'.regs.rsp = s0.regs.rsp + 8 ∧ s'.regs.rbx = s0.regs.rbx :=
  ⟨h.trace, h.env, h.rsp, h.rbx⟩

/-- `conv_diverges`: if the bytecode run is `.outOfFuel` for every fuel, the machine code is still running after
every number of steps: it never returns and never leaves the modelled subset. -/
theorem conv_diverges (p : Bc.Program w) (limited safe : Bool) (cfg : Cfg) {code : List X86}
    (hcomp : compileX86 w p limited safe cfg.aE.toNat cfg.aI.toNat cfg.aO.toNat = some code)
    (hfetch : cfg.fetch = fetchFast (fetchTable code)) (hsmall : sizeAll code < 2 ^ 31)
    (hIO : cfg.aI ≠ cfg.aO) (hEI : cfg.aE ≠ cfg.aI) (hEO : cfg.aE ≠ cfg.aO)
    (hchk : BcWf.check p 11 = true) (hwin : -2147483648 < p.minAcc ∧ p.maxAcc < 2147483648)
    (htemps : alignedTemps p.temps * 8 < 2147483648)
    (hshift : ∀ (i : Nat) (sh : Int), p.insts[i]? = some (Bc.Instr.mov sh) → -2147483648 ≤ sh ∧ sh < 2147483648)
    (hnn : NoNoop p)
    (buf0 rsp0 ra : BitVec 64) (hrsp : rsp0.toNat % 16 = 8)
    (budget : Nat) (hb : budget < 2 ^ 64) (hlim : (limited && budget == 0) = false) (env : Env)
    (hoom : safe = true → ∀ n s', steps cfg n (initState (w := w) cfg buf0 rsp0 ra p.minAcc p.maxAcc budget env)
      = some s' → Bnd s')
    (hdiv : ∀ fuel, ∃ c, Bc.run p limited budget fuel env = .outOfFuel c) (n : Nat) :
    (∀ r, run cfg n (initState (w := w) cfg buf0 rsp0 ra p.minAcc p.maxAcc budget env) ≠ .ret r) ∧
    (∀ f r, run cfg n (initState (w := w) cfg buf0 rsp0 ra p.minAcc p.maxAcc budget env) ≠ .fault f r) :=
  conv_diverges_compiled p limited safe cfg hcomp hfetch hsmall hIO hEI hEO hchk hwin htemps hshift hnn buf0 rsp0
    ra hrsp budget hb hlim env hoom hdiv n

/-- The versions for an arbitrary entry state (`Entry`), as `prog_run'`. -/
theorem conv_run_entry (K : Ctx w) (G : Good K) (hnn : NoNoop K.p) {s0 : PState w} {ra : BitVec 64}
    (hE : Entry K s0 ra) {env : Env} (henv : s0.env = env) (htr : s0.trace = []) {budget : Nat}
    (hb : s0.budget.toNat = budget) (hlim : (K.limited && budget == 0) = false) (hoom : NoOOM K s0)
    {n : Nat} {s' : PState w} (hret : run K.cfg n s0 = .ret s') :
    ∃ fuel c',
      ((Bc.run K.p K.limited budget fuel env = .done c' ∧ s'.regs.rax = 1 ∧ s'.budget.toNat = c'.budget) ∨
       (Bc.run K.p K.limited budget fuel env = .stopped c' ∧ s'.regs.rax = 0 ∧ s'.budget.toNat = c'.budget) ∨
       (Bc.run K.p K.limited budget fuel env = .interrupted c' ∧ s'.regs.rax = 0 ∧ s'.budget.toNat < 2 ∧
          c'.budget = 0)) ∧
      Result s0 s' c' := conv_run' K G hnn hE henv htr hb hlim hoom hret

theorem conv_diverges_entry (K : Ctx w) (G : Good K) (hnn : NoNoop K.p) {s0 : PState w} {ra : BitVec 64}
    (hE : Entry K s0 ra) {env : Env} (henv : s0.env = env) (htr : s0.trace = []) {budget : Nat}
    (hb : s0.budget.toNat = budget) (hlim : (K.limited && budget == 0) = false) (hoom : NoOOM K s0)
    (hdiv : ∀ fuel, ∃ c, Bc.run K.p K.limited budget fuel env = .outOfFuel c) (n : Nat) :
    Running K.cfg n s0 := conv_diverges' K G hnn hE henv htr hb hlim hoom hdiv n

/-! ### Non-vacuity -/

/-- The empty loop without fusion: `brz 0 2; brnz 0 0` – a branch to itself. On a non-zero cell the bytecode
configuration is a fixed point of `Bc.step` in unlimited mode, which is why progress needs an argument. -/
def exSelfLoop : Bc.Program 8 :=
  { temps := 0, minAcc := 0, maxAcc := 0, live := #[0, 0, 0],
    insts := #[.copy (.mem 0) (.imm 1#8), .brz 0 2, .brnz 0 0] }

example : BcWf.check exSelfLoop 11 = true := by decide +kernel
example : NoNoop exSelfLoop := by
  intro i h
  rcases i with _|_|_|i <;> simp [exSelfLoop] at h
/-- The bytecode run never ends (the configuration after the first two steps repeats) … -/
example : (match Bc.runCfg exSelfLoop false 7 { pc := 0, temps := [], budget := 0, st := State.init default } with
    | .outOfFuel c => c.pc == 2
    | _ => false) = true := by decide +kernel
/-- … and the compiled code is the two-instruction loop `cmp byte [rbp], 0; jne -10` after the store. -/
example : ((compileX86 8 exSelfLoop false false 1 2 3).map fun code => (code.drop 10).take 4) =
    some [cmpZero .b8 0, .jccRel32 .equal 10, cmpZero .b8 0, .jccRel32 .notEqual (-10)] := by decide +kernel

end C03
end Hpbf

#print axioms Hpbf.C03.conv_code_nonempty
#print axioms Hpbf.C03.conv_progress
#print axioms Hpbf.C03.conv_ret_unique
#print axioms Hpbf.C03.conv_run_more
#print axioms Hpbf.C03.conv_steps_lt
#print axioms Hpbf.C03.conv_steps
#print axioms Hpbf.C03.conv_run
#print axioms Hpbf.C03.conv_diverges
#print axioms Hpbf.C03.conv_run_entry
#print axioms Hpbf.C03.conv_diverges_entry
