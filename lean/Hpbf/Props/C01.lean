/-
C01 (level-0 part: the IR produced by `Program::parse`, unoptimised).
"For every valid program, input stream and cell width, running it through the IR interpreter yields
exactly the interleaved sequence of one-byte input requests and output bytes that canonical Brainfuck
semantics yields, whenever the canonical run terminates" — plus reflection of termination and the
prefix property (needed for the divergence property C05).

Property theorems only.  The proof is a simulation "up to chunks" between the two continuation
machines (`Hpbf/Proofs/C01Sim.lean` generic part; `C01Comp` parser = recursion over the bracket tree;
`C01Exec`/`C01Rel`/`C01Struct` buffers, state relation, structural facts; `C01Special` the folded
loops `[-]`; `C01Parse` the simulation relation and the case analysis; `C01Arith` the arithmetic).

Conventions: `src : List Kind` classified source text, `p` its bracket tree (`Bf.tree`), `b` the
block returned by `Ir.parse` at cell width `w > 0`; the IR interpreter runs unlimited
(`limited = false`, budget `0`); `env` is an arbitrary environment (input replies incl. EOF and errors,
absent source, absent/refusing sink).  Traces are lists of events, most recent first.
-/
import Hpbf.Proofs.C01Parse

namespace Hpbf
namespace C01
open Ir

variable {w : Nat}

/-! ### 5. A balanced text is accepted by the parser -/

theorem C01_parse_ok_of_tree {src : List Kind} {p : Prog} (hp : Bf.tree src = some p) :
    ∃ b, Ir.parse (w := w) src = .ok b :=
  parse_ok_of_tree hp

/-! ### 1. Forward: a terminating canonical run is reproduced by the IR interpreter -/

/-- Same events, same kind of ending (ran off the end / stopped at a failing I/O operation). -/
theorem parse_forward (hw : 0 < w) {src : List Kind} {p : Prog} (hp : Bf.tree src = some p)
    {b : Block w} (hb : Ir.parse (w := w) src = .ok b) (env : Env) :
    (∀ f (s : State w), Bf.run f p env = .done s →
      ∃ f' c, Ir.run b false 0 f' env = .done c ∧ c.st.trace = s.trace) ∧
    (∀ f (s : State w), Bf.run f p env = .stopped s →
      ∃ f' c, Ir.run b false 0 f' env = .stopped c ∧ c.st.trace = s.trace) :=
  ⟨forward_done hw hp hb env, forward_stopped hw hp hb env⟩

/-! ### 2. Backward: the IR run terminates only if the canonical run does -/

theorem parse_backward (hw : 0 < w) {src : List Kind} {p : Prog} (hp : Bf.tree src = some p)
    {b : Block w} (hb : Ir.parse (w := w) src = .ok b) (env : Env) :
    (∀ f' (c : Ir.Cfg w), Ir.run b false 0 f' env = .done c →
      ∃ (f : Nat) (s : State w), Bf.run f p env = .done s ∧ s.trace = c.st.trace) ∧
    (∀ f' (c : Ir.Cfg w), Ir.run b false 0 f' env = .stopped c →
      ∃ (f : Nat) (s : State w), Bf.run f p env = .stopped s ∧ s.trace = c.st.trace) :=
  ⟨backward_done hw hp hb env, backward_stopped hw hp hb env⟩

/-- The unlimited IR interpreter is never interrupted. -/
theorem parse_never_interrupted (b : Block w) (f' : Nat) (env : Env) (c : Ir.Cfg w) :
    Ir.run b false 0 f' env ≠ .interrupted c :=
  runCfg_not_interrupted _ _ _

/-! ### 3. Prefix: cut off anywhere, neither machine has emitted anything the other does not emit -/

theorem parse_prefix (hw : 0 < w) {src : List Kind} {p : Prog} (hp : Bf.tree src = some p)
    {b : Block w} (hb : Ir.parse (w := w) src = .ok b) (env : Env) :
    (∀ f', ∃ f, traceOf (Ir.run b false 0 f' env) = traceOfBf (Bf.run (w := w) f p env)) ∧
    (∀ f, ∃ f', traceOf (Ir.run b false 0 f' env) = traceOfBf (Bf.run (w := w) f p env)) :=
  ⟨prefix_ir_bf hw hp hb env, prefix_bf_ir hw hp hb env⟩

/-! ### 4. Folding `[-]`, `[+]`, `[---]`, … -/

/-- An odd step is a unit modulo `2^w`: `while x ≠ 0 { x += k }` reaches `x = 0` from every `x`. -/
theorem C01_odd_step_reaches_zero (hw : 0 < w) (k x : BitVec w) (hk : Cell.isOdd k = true) :
    ∃ n, x + BitVec.ofNat w n * k = 0#w :=
  odd_step_reaches_zero hw k x hk

/-- The canonical machine on `[body]rest` where `body` consists of `+`/`-` only (comments are not part
of the tree) with odd net sum: from any state and any continuation stack it reaches `rest` after at
least one step, with the current cell zeroed, the same pointer, environment and trace, and every
other cell unchanged. -/
theorem canonical_odd_loop_zeroes (hw : 0 < w) (body rest : Prog) (hb : OnlyIncDec body)
    (hodd : Cell.isOdd (netSum (w := w) body) = true) (ks : List Prog) (sb : State w) :
    ∃ m sb', Sim.Steps (BfM w) (m + 1) ⟨.loop body rest, ks, sb⟩ ⟨rest, ks, sb'⟩ ∧
      sb'.ptr = sb.ptr ∧ sb'.env = sb.env ∧ sb'.trace = sb.trace ∧
      ∀ x, sb'.tape.get x = if x = sb.ptr then 0#w else sb.tape.get x :=
  incdec_loop_zero hw body rest hb hodd ks sb

/-- Source-level form: the text `src[i..j)` of the body consists of `+`, `-` and comments only. -/
theorem canonical_odd_loop_zeroes_src (hw : 0 < w) {src : List Kind} {i j : Nat} {body : Prog}
    (hrepr : Repr src i j body)
    (hchars : ∀ m, i ≤ m → m < j →
      src[m]? = some .inc ∨ src[m]? = some .dec ∨ src[m]? = some .comment)
    (rest : Prog) (hodd : Cell.isOdd (netSum (w := w) body) = true) (ks : List Prog) (sb : State w) :
    ∃ m sb', Sim.Steps (BfM w) (m + 1) ⟨.loop body rest, ks, sb⟩ ⟨rest, ks, sb'⟩ ∧
      sb'.ptr = sb.ptr ∧ sb'.env = sb.env ∧ sb'.trace = sb.trace ∧
      ∀ x, sb'.tape.get x = if x = sb.ptr then 0#w else sb.tape.get x :=
  incdec_loop_zero hw body rest (onlyIncDec_of_repr hrepr hchars) hodd ks sb

/-- The same for the bodies the parser actually folds (no I/O, no loops, no net movement, only the
loop cell changes, by an odd amount `c`): stated via the frame computed by the parser. -/
theorem canonical_folded_loop_zeroes (hw : 0 < w) (body rest : Prog) (sh : Int) (c : BitVec w)
    (hodd : Cell.isOdd c = true)
    (hib : (comp (w := w) body (fresh sh)).1 = [])
    (hshift : (comp (w := w) body (fresh sh)).2.shift = sh)
    (hpend : ∀ a, pend (comp (w := w) body (fresh sh)).2.buff a = if a = sh then c else 0#w)
    (ks : List Prog) (sb : State w) :
    ∃ m sb', Sim.Steps (BfM w) (m + 1) ⟨.loop body rest, ks, sb⟩ ⟨rest, ks, sb'⟩ ∧ ZeroedFrom sb sb' :=
  loop_zero_of_iter hw c hodd body rest (special_iter hib hshift hpend) ks sb

/-! ### Examples: the hypotheses are satisfiable and both machines agree -/

/-- Both runs finish within `fuel` steps with the same kind of ending and the same events. -/
def agrees (w : Nat) (src : List Kind) (env : Env) (fuel : Nat) : Bool :=
  match Bf.tree src, Ir.parse (w := w) src with
  | some p, .ok b =>
    match Bf.run (w := w) fuel p env, Ir.run b false 0 fuel env with
    | .done s, .done c => decide (s.trace = c.st.trace)
    | .stopped s, .stopped c => decide (s.trace = c.st.trace)
    | _, _ => false
  | _, _ => false

def envAB : Env := { input := some [.byte 65, .byte 66, .eof], sink := true, outOk := none }
def envRefuse : Env := { input := some [.byte 65, .byte 66, .eof], sink := true, outOk := some 1 }

/-- `+[-]` -/
def ex1 : List Kind := [.inc, .open, .dec, .close]
/-- `,[.,]` -/
def ex2 : List Kind := [.inp, .open, .out, .inp, .close]
/-- `+[>+<-]>.` -/
def ex3 : List Kind := [.inc, .open, .right, .inc, .left, .dec, .close, .right, .out]

example : Bf.tree ex1 = some (.cmd .inc (.loop (.cmd .dec .nil) .nil)) := by decide
example : ∃ b, Ir.parse (w := 8) ex1 = .ok b := ⟨_, rfl⟩
example : agrees 8 ex1 envAB 50 = true := by decide
example : agrees 8 ex2 envAB 50 = true := by decide
example : agrees 8 ex2 envRefuse 50 = true := by decide
example : agrees 16 ex3 envAB 50 = true := by decide
example : (match Ir.parse (w := 8) ex3 with
    | .ok b => traceOf (Ir.run b false 0 50 envAB) | .error _ => []) = [Ev.out 1] := by decide
example : (match Ir.parse (w := 8) ex2 with
    | .ok b => traceOf (Ir.run b false 0 50 envAB) | .error _ => []) =
    [Ev.inp 0, Ev.out 66, Ev.inp 66, Ev.out 65, Ev.inp 65] := by decide
/-- The folded loop really is a single `load 0` (the pending `+` is dropped: it is overwritten). -/
example : (match Ir.parse (w := 8) ex1 with | .ok b => b.insts.length | .error _ => 0) = 1 := by
  decide

end C01
end Hpbf

#print axioms Hpbf.C01.C01_parse_ok_of_tree
#print axioms Hpbf.C01.parse_forward
#print axioms Hpbf.C01.parse_backward
#print axioms Hpbf.C01.parse_never_interrupted
#print axioms Hpbf.C01.parse_prefix
#print axioms Hpbf.C01.C01_odd_step_reaches_zero
#print axioms Hpbf.C01.canonical_odd_loop_zeroes
#print axioms Hpbf.C01.canonical_odd_loop_zeroes_src
#print axioms Hpbf.C01.canonical_folded_loop_zeroes
