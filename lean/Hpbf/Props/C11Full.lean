/-
Property C11, in full, for the bytecode generator.
"For every valid program, width, level and generator setting, the bytecode program is self-consistent: every
branch lands on an instruction boundary inside the program, every tape operand lies inside the declared access
window (which contains 0), every temporary index is below the declared count, no temporary is read before it is
written on any path, and every register temporary whose value is still needed after a non-branch instruction is
declared live across it."

`Props/C11.lean` proves the executable checker `BcWf.check` sound.  This file proves that the checker ACCEPTS every
program the generator returns:

    translateE prog numRegs fuse = .ok p  →  BcWf.check p numRegs = true        (`translateE_check`)

for every IR block `prog` (not only parser output: no well-formedness or size hypothesis), every `numRegs`, both
values of `fuse`.  With `Props/C11Alloc.lean` (`initOk`, `liveOk`) what is added here is `localOk`:
* the access window `[minAcc, maxAcc]` of `Analysis::analyze` contains `0` and every tape offset the IR mentions
  (`analyze_covers`; `irOffsL`: operands of `output`/`input`, targets and variables of `calc`, loop/`if` conditions,
  recursively – bytecode operands are relative to the current pointer exactly like IR offsets, and a sub-block's
  window is absorbed unchanged into the enclosing one);
* every tape operand of the emitted code is such an offset and every destination is a cell or a temporary
  (`emit_allGood`), and `dead_store_elim`, `allocate_temps` (operands only move between instructions: forwarded
  `mem` sources, the cell of a store that receives a moved computation), `parameter_reordering`,
  `zeroing_move_detection` (`mem ↦ memZero` of the same cell) and `strip_noops` keep this (`AllGood`);
* the branches of the final program stay inside it (`targetsOk_strip` with `Chain.emit_targetsOk` and the passes);
* one bitmap per instruction (`Chain.translate_shape`), temporaries below `count_temps` (`translateE_temps_lt`).
No IR block with an operand outside the declared window exists (the window clause holds for ALL blocks), so no
defect of C11/C06 was found here.  Consequences (§2) are the theorems of `Props/C11.lean` without the hypothesis
`check p numRegs = true`.

Proofs: `Hpbf/Proofs/C11Local{Emit,Passes,Top}.lean`.
-/
import Hpbf.Proofs.C11LocalTop
import Hpbf.Props.C11

namespace Hpbf
namespace C02

open Bc BcWf BcGen C11 Alloc Local

variable {w : Nat}

/-! ### 1. The checker accepts the output of `translate` -/

/-- The offsets of an IR program. -/
example (src dst cond shift : Int) (calcs : List (Int × Expr w)) (body rest : List (Ir.Instr w)) (once : Bool)
    (i : Ir.Instr w) :
    irOffs (.output src : Ir.Instr w) = [src] ∧ irOffs (.input dst : Ir.Instr w) = [dst] ∧
    irOffs (.calc calcs) = calcs.flatMap (fun c => c.1 :: Expr.variables c.2) ∧
    irOffs (.loop cond shift body once) = cond :: irOffsL body ∧
    irOffs (.ifnz cond shift body) = cond :: irOffsL body ∧
    irOffsL ([] : List (Ir.Instr w)) = [] ∧ irOffsL (i :: rest) = irOffs i ++ irOffsL rest := by
  refine ⟨?_, ?_, ?_, ?_, ?_, ?_, ?_⟩ <;> simp [irOffs, irOffsL]

example (prog : Ir.Block w) :
    (analyze prog).minAcc ≤ 0 ∧ 0 ≤ (analyze prog).maxAcc ∧
    ∀ o ∈ irOffsL prog.insts, (analyze prog).minAcc ≤ o ∧ o ≤ (analyze prog).maxAcc := analyze_covers prog

example (P : Int → Prop) (insts : Array (Instr w)) : AllGood P insts ↔
    ∀ (i : Nat) (x : Instr w), insts[i]? = some x → (∀ o ∈ memOps x, P o) ∧ dstOk x = true := Iff.rfl

example (prog : Ir.Block w) (fuse : Bool) (s : St w) (h : emitState prog fuse = .ok s) :
    AllGood (fun o => o ∈ irOffsL prog.insts) s.insts := emit_allGood h
example (P : Int → Prop) (s s' : St w) (numRegs : Nat) (hp : AllocPre s) (h : allocateTemps numRegs s = .ok s')
    (hg : AllGood P s.insts) : AllGood P s'.insts := allGood_allocateTemps hp h hg
example (P : Int → Prop) (s s4 : St w) (h : LatePre s) (fuse : Bool) (h4 : latePasses fuse s = .ok s4)
    (hg : AllGood P s.insts) : AllGood P s4.insts ∧ TargetsOk s4.insts := latePasses_good s s4 h fuse h4 hg

example (p : Program w) : localOk p = true ↔ LocalFacts p := ⟨localOk_facts, local_localOk_of_facts⟩

example (prog : Ir.Block w) (numRegs : Nat) (fuse : Bool) (p : Program w)
    (h : translateE prog numRegs fuse = .ok p) : LocalFacts p := translateE_localFacts h
example (prog : Ir.Block w) (numRegs : Nat) (fuse : Bool) (p : Program w)
    (h : translateE prog numRegs fuse = .ok p) : localOk p = true := translateE_localOk h

/-- **C11 for the generator.** -/
example (prog : Ir.Block w) (numRegs : Nat) (fuse : Bool) (p : Program w)
    (h : translateE prog numRegs fuse = .ok p) : check p numRegs = true := translateE_check h

/-! ### 2. Consequences: the theorems of `Props/C11.lean` for generator output -/

section
variable {prog : Ir.Block w} {numRegs : Nat} {fuse : Bool} {p : Program w}
  (h : translateE prog numRegs fuse = .ok p)
include h

/-- Never "malformed bytecode", for every fuel, budget, mode and environment. -/
example (limited : Bool) (b fuel : Nat) (env : Env) : ∀ c', Bc.run p limited b fuel env ≠ .bad c' :=
  check_run_not_bad (translateE_check h) limited b fuel env
example {i : Nat} {cond off : Int}
    (hi : p.insts[i]? = some (.brz cond off) ∨ p.insts[i]? = some (.brnz cond off)) :
    0 ≤ (i : Int) + off ∧ (i : Int) + off ≤ p.insts.size := check_branch_target (translateE_check h) hi
example {i : Nat} {ins : Instr w} {o : Int} (hi : p.insts[i]? = some ins) (ho : o ∈ memOps ins) :
    p.minAcc ≤ o ∧ o ≤ p.maxAcc := check_window (translateE_check h) hi ho
example : p.minAcc ≤ 0 ∧ 0 ≤ p.maxAcc := check_window_zero (translateE_check h)
/-- A step changes no cell outside `[ptr + minAcc, ptr + maxAcc]`. -/
example (limited : Bool) (c : Cfg w) {x : Int} (hx : x < c.st.ptr + p.minAcc ∨ c.st.ptr + p.maxAcc < x) :
    (Bc.step p limited c).cfg.st.tape.get x = c.st.tape.get x := check_step_window (translateE_check h) c hx
/-- The run does not depend on the initial contents of the temporaries (the JIT starts with garbage registers). -/
example (limited : Bool) (fuel b : Nat) (s : State w) (t0 t0' : Temps w) :
    ObsEq (Bc.runCfg p limited fuel { pc := 0, temps := t0, budget := b, st := s })
      (Bc.runCfg p limited fuel { pc := 0, temps := t0', budget := b, st := s }) :=
  check_init_independent (translateE_check h) limited fuel b s t0 t0'
/-- A register that is neither written by a non-branch instruction nor in its bitmap is dead after it. -/
example {limited : Bool} {i : Nat} {ins : Instr w} {t : Nat} (hi : p.insts[i]? = some ins)
    (hb : isBranch ins = false) (hr : t < numRegs) (h16 : t < 16) (hd : t ∉ defs ins)
    (hbit : ((p.live[i]?).getD 0).testBit t = false) {c c' : Cfg w} (hc : Reach p limited c) (hpc : c.pc = i)
    (hs : Bc.step p limited c = .next c') (v : BitVec w) (fuel : Nat) :
    ObsEq (Bc.runCfg p limited fuel c') (Bc.runCfg p limited fuel { c' with temps := tset c'.temps t v }) :=
  check_live_dead (translateE_check h) hi hb hr h16 hd hbit hc hpc hs v fuel
end

end C02
end Hpbf

#print axioms Hpbf.C02.Local.analyze_covers
#print axioms Hpbf.C02.Local.emit_allGood
#print axioms Hpbf.C02.Local.allGood_dseLike
#print axioms Hpbf.C02.Local.allGood_allocateTemps
#print axioms Hpbf.C02.Local.allGood_parameterReordering
#print axioms Hpbf.C02.Local.allGood_zeroingMoveDetection
#print axioms Hpbf.C02.Local.allGood_strip
#print axioms Hpbf.C02.Local.targetsOk_strip
#print axioms Hpbf.C02.Local.latePasses_good
#print axioms Hpbf.C02.local_localOk_of_facts
#print axioms Hpbf.C02.translateE_localFacts
#print axioms Hpbf.C02.translateE_localOk
#print axioms Hpbf.C02.translateE_check
