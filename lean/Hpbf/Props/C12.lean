/-
C12. "Every executor that parses its source accepts a string iff its brackets are balanced; otherwise
it reports 'loop not opened' at the character index of the first unmatched ']' or else 'loop not
closed' at the character index of the innermost unclosed '['. Inserting or deleting non-command
characters (including multi-byte UTF-8) never changes acceptance or the behaviour of any back end, and
no source string of moderate nesting depth makes parsing or the in-place interpreter panic."

Property theorems only; the bracket spec (`depthScan`, `Balanced`, `firstUnmatchedClose`,
`innermostUnclosed`, `strip`) and all lemmas are in `Hpbf/Proofs/C12.lean`.
`src : List Kind` is the list of classified CHARACTERS of the source (`Kind.ofChar`), so positions are
character indices, as in `program.chars().enumerate()` of `Program::parse`. Arbitrary cell width `w`.
-/
import Hpbf.Proofs.C12

namespace Hpbf
namespace C12
open Ir

variable {w : Nat}

/-! ### 0. The spec is the intended one (positional readings of the three spec functions) -/

/-- Balanced = no unmatched `]` and no unclosed `[`. -/
theorem spec_balanced_iff (src : List Kind) :
    Balanced src ↔ firstUnmatchedClose src = none ∧ innermostUnclosed src = none :=
  balanced_iff src

/-- `firstUnmatchedClose src = some i` iff character `i` is a `]` and the text before it is balanced
(scans from depth 0 back to depth 0 without going negative): the FIRST `]` without partner. -/
theorem spec_firstUnmatchedClose (src : List Kind) (i : Nat) :
    firstUnmatchedClose src = some i ↔ src[i]? = some Kind.close ∧ Balanced (src.take i) :=
  firstUnmatchedClose_iff src i

/-- When no `]` is unmatched, `innermostUnclosed src = some j` iff character `j` is a `[` and the text
after it is balanced: the LAST `[` that is never closed. -/
theorem spec_innermostUnclosed (src : List Kind) (j : Nat) (h : firstUnmatchedClose src = none) :
    innermostUnclosed src = some j ↔ src[j]? = some Kind.open ∧ Balanced (src.drop (j + 1)) :=
  innermostUnclosed_iff src j h

/-! ### 1–2. Acceptance ⇔ balanced (parser and canonical tree) -/

/-- The parser accepts exactly the balanced texts. -/
theorem parse_ok_iff_balanced (src : List Kind) :
    (∃ b, Ir.parse (w := w) src = .ok b) ↔ Balanced src := by
  have h := parse_spec (w := w) src
  cases hp : Ir.parse (w := w) src with
  | ok b => rw [hp] at h; simpa using h
  | error e => rw [hp] at h; simpa using h.1

/-- The canonical bracket tree is defined exactly for the balanced texts. -/
theorem tree_isSome_iff_balanced (src : List Kind) : (Bf.tree src).isSome ↔ Balanced src := by
  unfold Bf.tree Balanced
  rw [treeRev_isSome]
  exact (depthScan_reverse src 0 0).symm

/-- Hence the parser and the canonical tree agree on validity. -/
theorem parse_ok_iff_tree_isSome (src : List Kind) :
    (∃ b, Ir.parse (w := w) src = .ok b) ↔ (Bf.tree src).isSome := by
  rw [parse_ok_iff_balanced, tree_isSome_iff_balanced]

/-! ### 3. The reported error -/

/-- An error is `loopNotOpened` at the first unmatched `]` if there is one, else `loopNotClosed` at
the innermost unclosed `[`. -/
theorem parse_error_spec (src : List Kind) (e : ParseErr) (h : Ir.parse (w := w) src = .error e) :
    match firstUnmatchedClose src with
    | some i => e = ⟨.loopNotOpened, i⟩
    | none => ∃ j, innermostUnclosed src = some j ∧ e = ⟨.loopNotClosed, j⟩ := by
  have hs := parse_spec (w := w) src
  rw [h] at hs
  exact hs.2.2

/-- Conversely the spec determines the result on every unbalanced text. -/
theorem parse_error_of_unbalanced (src : List Kind) (h : ¬ Balanced src) :
    Ir.parse (w := w) src = .error (specError src) := by
  have hs := parse_spec (w := w) src
  cases hp : Ir.parse (w := w) src with
  | ok b => rw [hp] at hs; exact absurd hs h
  | error e => rw [hp] at hs; rw [hs.2.1]

/-- Exact characterisation of every error. -/
theorem parse_error_iff (src : List Kind) (e : ParseErr) :
    Ir.parse (w := w) src = .error e ↔ ¬ Balanced src ∧ e = specError src := by
  constructor
  · intro h
    have hs := parse_spec (w := w) src
    rw [h] at hs
    exact ⟨hs.1, hs.2.1⟩
  · rintro ⟨h, rfl⟩
    exact parse_error_of_unbalanced src h

/-! ### 4. Comment insensitivity -/

/-- Removing all non-command characters yields the SAME block. -/
theorem parse_strip_ok (src : List Kind) (b : Block w) :
    Ir.parse (w := w) (strip src) = .ok b ↔ Ir.parse src = .ok b := by
  rw [parse_strip]
  cases Ir.parse (w := w) src <;> simp [mapErr]

/-- ... and the same error kind; the position moves by the number of removed characters before it. -/
theorem parse_strip_err (src : List Kind) (k : ErrKind) (i : Nat)
    (h : Ir.parse (w := w) src = .error ⟨k, i⟩) :
    Ir.parse (w := w) (strip src) = .error ⟨k, (strip (src.take i)).length⟩ := by
  rw [parse_strip, h]
  rfl

/-- Both at once: the result for the stripped text is the result for the text with the error
position renamed. -/
theorem parse_strip_eq (src : List Kind) :
    Ir.parse (w := w) (strip src) =
      match Ir.parse (w := w) src with
      | .ok b => .ok b
      | .error e => .error ⟨e.kind, (strip (src.take e.position)).length⟩ := by
  rw [parse_strip]
  cases Ir.parse (w := w) src <;> rfl

/-- The canonical tree ignores non-command characters. -/
theorem tree_strip (src : List Kind) : Bf.tree (strip src) = Bf.tree src := by
  unfold Bf.tree
  rw [← strip_reverse, treeRev_strip]

/-- Inserting / deleting non-command characters anywhere (two texts with the same command
skeleton): same acceptance, same IR block, same error kind, same canonical tree. -/
theorem parse_ok_congr (a b : List Kind) (h : strip a = strip b) (blk : Block w) :
    Ir.parse (w := w) a = .ok blk ↔ Ir.parse b = .ok blk := by
  rw [← parse_strip_ok a, ← parse_strip_ok b, h]

theorem parse_err_kind_congr (a b : List Kind) (h : strip a = strip b) (k : ErrKind) :
    (∃ i, Ir.parse (w := w) a = .error ⟨k, i⟩) ↔ (∃ i, Ir.parse (w := w) b = .error ⟨k, i⟩) := by
  have ha := parse_strip_eq (w := w) a
  have hb := parse_strip_eq (w := w) b
  rw [h] at ha
  rw [ha] at hb
  cases hpa : Ir.parse (w := w) a <;> cases hpb : Ir.parse (w := w) b <;> rw [hpa, hpb] at hb <;>
    simp_all
  rename_i e1 e2
  obtain ⟨k1, p1⟩ := e1
  obtain ⟨k2, p2⟩ := e2
  obtain ⟨hk, -⟩ := hb
  simp only at hk
  subst hk
  simp only [ParseErr.mk.injEq]
  constructor <;> rintro ⟨_, rfl, _⟩ <;> exact ⟨_, rfl, rfl⟩

theorem tree_congr (a b : List Kind) (h : strip a = strip b) : Bf.tree a = Bf.tree b := by
  rw [← tree_strip a, ← tree_strip b, h]

/-! ### 5. UTF-8: the bytes the in-place interpreter reads vs the characters the parser reads -/

/-- Per character: no byte of a multi-byte UTF-8 sequence is classified as a command, and an ASCII
character classifies identically as a byte. -/
theorem utf8_kinds_char' (c : Char) :
    strip ((String.utf8EncodeChar c).map Kind.ofByte) = strip [Kind.ofChar c] :=
  utf8_kinds_char c

/-- Whole strings: the command skeleton of the byte view equals that of the character view. -/
theorem utf8_kinds (s : String) :
    strip ((s.toUTF8.toList).map Kind.ofByte) = strip (s.toList.map Kind.ofChar) := by
  rw [toUTF8_toList, utf8_kinds_list]

/-- So the canonical program of the byte view (what the in-place interpreter executes, by C04) is the
canonical program of the character view (what the parser compiles). -/
theorem tree_bytes_eq_tree_chars (s : String) :
    Bf.tree ((s.toUTF8.toList).map Kind.ofByte) = Bf.tree (s.toList.map Kind.ofChar) :=
  tree_congr _ _ (utf8_kinds s)

/-! ### 6. Totality

`Ir.parse : List Kind → Except ParseErr (Block w)` and `Inplace.run` are total Lean functions; their
result types have no panic outcome (`ParseErr.kind` is one of the two `ErrKind`s; `Inplace.Outcome` is
finished / stopped / interrupted / notOpened / outOfFuel). What has to be checked is that the two arms
of the model standing for `stack.pop().unwrap()` / `stack.last_mut().unwrap()` on an empty frame stack
and `positions.last().unwrap()` on an empty `positions` are never taken: -/

/-- `parse_invariant`: one suspended frame per recorded open position, along `parseLoop`. -/
theorem parse_invariant (src : List Kind) (i : Nat) (ps ps' : PState w)
    (h : ps.positions.length = ps.rest.length) (hl : parseLoop src i ps = .ok ps') :
    ps'.positions.length = ps'.rest.length :=
  (parseLoop_inv (Eq.symm h) hl).symm

/-- The state in which the parser meets the character at index `n` never selects the arm
`| _ :: _, []` of `parseStep` (`stack.pop().unwrap()` with only the root frame left). -/
theorem parseStep_unreachable_arm (src : List Kind) (n : Nat) (ps : PState w)
    (h : parseLoop (src.take n) 0 (ps0 : PState w) = .ok ps) :
    ¬ (ps.positions ≠ [] ∧ ps.rest = []) := by
  have hi : ps.rest.length = ps.positions.length := parseLoop_inv inv_ps0 h
  rintro ⟨h1, h2⟩
  rw [h2] at hi
  exact h1 (List.eq_nil_of_length_eq_zero hi.symm)

/-- The final state never selects the arm `| _ :: _, []` of `parse`
(`positions.last().unwrap()` on an empty vector). -/
theorem parse_unreachable_arm (src : List Kind) (ps : PState w)
    (h : parseLoop src 0 (ps0 : PState w) = .ok ps) :
    ¬ (ps.rest ≠ [] ∧ ps.positions = []) := by
  have hi : ps.rest.length = ps.positions.length := parseLoop_inv inv_ps0 h
  rintro ⟨h1, h2⟩
  rw [h2] at hi
  exact h1 (List.eq_nil_of_length_eq_zero hi)

/-! ### Examples -/

example : kindsOfString "a[b]c" = [.comment, .open, .comment, .close, .comment] := by decide
example : errOf (Ir.parse (w := 8) (kindsOfString "+[>")) = some ⟨.loopNotClosed, 1⟩ := by decide
example : errOf (Ir.parse (w := 8) (kindsOfString "][")) = some ⟨.loopNotOpened, 0⟩ := by decide
example : errOf (Ir.parse (w := 8) (kindsOfString "a[b]c")) = none := by decide
example : errOf (Ir.parse (w := 8) (kindsOfString "é[[]")) = some ⟨.loopNotClosed, 1⟩ := by decide
example : errOf (Ir.parse (w := 8) (kindsOfString "[[]")) = some ⟨.loopNotClosed, 0⟩ := by decide
example : errOf (Ir.parse (w := 8) (kindsOfString "[[]]]é]")) = some ⟨.loopNotOpened, 4⟩ := by decide
example : ¬ Balanced (kindsOfString "+[>") := by decide
example : ¬ Balanced (kindsOfString "][") := by decide
example : Balanced (kindsOfString "a[b]c") := by decide
example : firstUnmatchedClose (kindsOfString "][") = some 0 := by decide
example : innermostUnclosed (kindsOfString "+[>") = some 1 := by decide
example : innermostUnclosed (kindsOfString "[a[b[]") = some 2 := by decide
example : Bf.tree (kindsOfString "a[b]c") = some (.loop .nil .nil) := by decide
example : Bf.tree (kindsOfString "][") = none := by decide
example : strip (kindsOfString "a[bé]c") = [.open, .close] := by decide
example : strip (kindsOfBytes "a[bé]c") = [.open, .close] := by
  unfold kindsOfBytes; rw [utf8_kinds]; decide

end C12
end Hpbf

#print axioms Hpbf.C12.spec_balanced_iff
#print axioms Hpbf.C12.spec_firstUnmatchedClose
#print axioms Hpbf.C12.spec_innermostUnclosed
#print axioms Hpbf.C12.parse_ok_iff_balanced
#print axioms Hpbf.C12.tree_isSome_iff_balanced
#print axioms Hpbf.C12.parse_ok_iff_tree_isSome
#print axioms Hpbf.C12.parse_error_spec
#print axioms Hpbf.C12.parse_error_of_unbalanced
#print axioms Hpbf.C12.parse_error_iff
#print axioms Hpbf.C12.parse_strip_ok
#print axioms Hpbf.C12.parse_strip_err
#print axioms Hpbf.C12.parse_strip_eq
#print axioms Hpbf.C12.tree_strip
#print axioms Hpbf.C12.parse_ok_congr
#print axioms Hpbf.C12.parse_err_kind_congr
#print axioms Hpbf.C12.tree_congr
#print axioms Hpbf.C12.utf8_kinds_char'
#print axioms Hpbf.C12.utf8_kinds
#print axioms Hpbf.C12.tree_bytes_eq_tree_chars
#print axioms Hpbf.C12.parse_invariant
#print axioms Hpbf.C12.parseStep_unreachable_arm
#print axioms Hpbf.C12.parse_unreachable_arm
