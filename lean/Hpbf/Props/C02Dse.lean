/-
Property C02 (part: the pass `dead_store_elim` of the bytecode generator, `BcGen.deadStoreElim`).

The pass scans the code backwards with a set `dead` of tape offsets that are certainly overwritten before any
read, branch, `mov`, `scan`, or the end; a store (`copy`/`add`/`sub`/`mul` with a `mem` destination) into a dead
cell becomes `noop` and the `num_uses` of its source temporaries are decremented; an arithmetic instruction whose
destination temporary has `num_uses == 0` becomes `noop` as well.  `dead` is reset at every branch, `mov`, `scan`
(NOT at branch targets – none is needed: the tapes are equal whenever a branch executes) and starts EMPTY at the
end of the program (the end does not make stores dead: `done` outcomes have the same tape).

(A) `deadStoreElim_preserves`: for every generator state satisfying `DsePre`, the pass succeeds, changes only
    `insts` and `ranges` (sizes unchanged; every instruction is kept or replaced by `noop`), re-establishes
    `DsePre` (so: no `memZero`), keeps branch targets in range, and the program before and after are `BehEqIO` –
    in fact they run in LOCKSTEP: the same fuel and the same budget on both sides (`noop` costs one step of fuel
    and no budget, exactly like the store it replaces; only branches and stationary scans touch the budget).
    `BehEqIO`, not `BehEq`: a run that STOPS at a failing I/O operation (or is cut by fuel) between a removed store
    and the overwriting one has the same events, pointer and environment but a different tape
    (`dse_stopped_tape_differs`, also on a state reachable from emission; `dse_not_obsEq'`).
(B) `dsePre_of_emit`: the state produced by the emission phase satisfies `DsePre` – both the structural part and
    the `ranges` bookkeeping part (the `num_uses` counters dominate the actual number of reads).
(C) Both parts of `DsePre` are necessary (`dse_noMemZero_necessary`, `dse_bookkeeping_necessary`): without them
    the pass changes the OUTPUT of a program, or fails.

The proofs are in `Hpbf/Proofs/C02Dse{Sim,Pass,Ex,Emit}.lean`; the theorems below are those theorems (same names,
namespace `Hpbf.C02`), restated as `example`s so that the exact statements are checked in this file.
-/
import Hpbf.Proofs.C02DseEmit
import Hpbf.Proofs.C02DseEx

namespace Hpbf
namespace C02

open Bc BcWf BcGen C11

variable {w : Nat}

/-! ### vocabulary (transparent) -/

/-- `DsePre`: (structural) no `memZero` operand; (bookkeeping) for every temporary `t` the number of source
operands `tmp t` in the code, with multiplicity, is at most `ranges[t].numUses` (0 outside the table), and the
destination temporaries of arithmetic instructions index `ranges`. -/
example (s : St w) : DsePre s ↔
    ((∀ ins ∈ s.insts, NoMemZero ins) ∧
     (∀ t, dseUseCount s.insts t ≤ dseNuse s.ranges t) ∧
     (∀ (i : Nat) (op : BcGen.Op) (t : Nat) (a b : Loc w),
        s.insts[i]? = some (mkArith op (.tmp t) a b) → t < s.ranges.size)) :=
  ⟨fun h => ⟨h.noZero, h.uses, h.dst⟩, fun ⟨a, b, c⟩ => ⟨a, b, c⟩⟩
example (I : Array (Instr w)) (t : Nat) : dseUseCount I t = (I.toList.map (fun ins => (uses ins).count t)).sum := rfl
example (rs : Array RangeInfo) (t : Nat) :
    dseNuse rs t = (match rs[t]? with | some r => r.numUses | none => 0) := rfl
/-- It is decidable (a boolean test over the finitely many instructions and table entries). -/
example (s : St w) : DsePre s ↔ dsePreCheck s = true := dsePre_iff_check s
example (s : St w) : Decidable (DsePre s) := inferInstance

/-! ### (A) the pass preserves behaviour -/

example (s : St w) (h : DsePre s) :
    ∃ s', deadStoreElim s = .ok s' ∧ s'.insts.size = s.insts.size ∧ s'.ranges.size = s.ranges.size ∧
      s' = { s with insts := s'.insts, ranges := s'.ranges } ∧ s'.live = s.live ∧
      (∀ (j : Nat) (ins' : Instr w), s'.insts[j]? = some ins' → ins' = .noop ∨ s.insts[j]? = some ins') ∧
      DsePre s' ∧ (∀ ins ∈ s'.insts, NoMemZero ins) ∧ (TargetsOk s.insts → TargetsOk s'.insts) ∧
      (∀ (t : Nat) (mn mx : Int), BehEqIO (progOf s t mn mx) (progOf s' t mn mx)) ∧
      ∀ (t : Nat) (mn mx : Int) (limited : Bool) (b fuel : Nat) (env : Env),
        ObsEqIO (Bc.run (progOf s t mn mx) limited b fuel env) (Bc.run (progOf s' t mn mx) limited b fuel env) :=
  deadStoreElim_preserves s h

/-- The semantic core: a certificate `D` (dead offsets per pc) with a local condition at every index. -/
example (P Q : Program w) (D : Nat → List Int) (hc : DseCert P.insts Q.insts D) (limited : Bool) (b fuel : Nat)
    (env : Env) : ObsEqIO (Bc.run P limited b fuel env) (Bc.run Q limited b fuel env) :=
  dse_run hc limited b fuel env
example (P Q : Array (Instr w)) (D : Nat → List Int) : DseCert P Q D ↔
    (Q.size = P.size ∧ (∀ ins ∈ P, NoMemZero ins) ∧ D P.size = [] ∧
     ∀ (i : Nat) (ins ins' : Instr w), P[i]? = some ins → Q[i]? = some ins' →
       DseStepOk Q ins ins' (D i) (D (i + 1))) :=
  ⟨fun h => ⟨h.size, h.noZero, h.last, h.step⟩, fun ⟨a, b, c, d⟩ => ⟨a, b, c, d⟩⟩
example (Q : Array (Instr w)) (ins ins' : Instr w) (Db Da : List Int) : DseStepOk Q ins ins' Db Da ↔
    ((ins' = ins ∧ (∀ o ∈ dseReadMems ins, o ∉ Db) ∧ (dseIsCtl ins = true → Db = []) ∧
      (∀ o ∈ Db, o ∈ Da ∨ o ∈ dseWriteMems ins)) ∨
     (ins' = .noop ∧ Db = Da ∧ ∃ d, DseKillOf ins d ∧
      ((∃ m, d = .mem m ∧ m ∈ Da) ∨
       (∃ t, d = .tmp t ∧ ¬ ∃ (j : Nat) (x : Instr w), Q[j]? = some x ∧ t ∈ uses x)))) := Iff.rfl
example (s : St w) (h : DsePre s) :
    ∃ (I' : Array (Instr w)) (R' : Array RangeInfo),
      deadStoreElim s = .ok { s with ranges := R', insts := I' } ∧ I'.size = s.insts.size ∧
      R'.size = s.ranges.size ∧ DseInv I' R' ∧
      (∀ (j : Nat) (ins' : Instr w), I'[j]? = some ins' → ins' = .noop ∨ s.insts[j]? = some ins') ∧
      ∃ D, DseCert s.insts I' D := deadStoreElim_cert s h

/-! ### (B) the emission phase establishes the precondition -/

example (prog : Ir.Block w) (fuse : Bool) (s : St w) (h : emitState prog fuse = .ok s) : DsePre s :=
  dsePre_of_emit h

example (prog : Ir.Block w) (fuse : Bool) (s : St w) (h : emitState prog fuse = .ok s) :
    ∃ s', deadStoreElim s = .ok s' ∧ s'.insts.size = s.insts.size ∧ s'.live = s.live ∧ DsePre s' ∧
      (TargetsOk s.insts → TargetsOk s'.insts) ∧
      ∀ (t : Nat) (mn mx : Int), BehEqIO (progOf s t mn mx) (progOf s' t mn mx) :=
  deadStoreElim_preserves_of_emit h

/-! ### non-vacuity, the weaker observation, necessity of the precondition (all by `decide`) -/

example : DsePre exDse := exDse_pre
example : (deadStoreElim exDse).toOption.map (fun s => (s.insts, s.ranges.toList.map (·.numUses))) =
    some (#[.noop, .noop, .copy (.tmp 1) (.imm 5#8), .copy (.mem 1) (.tmp 1), .copy (.mem 0) (.tmp 1), .out 1,
            .copy (.mem 2) (.imm 9#8)], [0, 2]) := exDse_result

/-- `ObsEq'`/`BehEq` fail: a refused output between the removed store and the overwriting one. -/
example : DsePre exDseStop ∧
    (deadStoreElim exDseStop).toOption.map (·.insts) = some #[.noop, .out 1, .copy (.mem 0) (.imm 3#8)] ∧
    (let o1 := Bc.run (progOf exDseStop 0 0 1) false 0 10 dseEnvRefuse
     let o2 := Bc.run ({ temps := 0, minAcc := 0, maxAcc := 1, live := #[],
                         insts := #[.noop, .out 1, .copy (.mem 0) (.imm 3#8)] } : Program 8) false 0 10
                  dseEnvRefuse
     o1.tag = 1 ∧ o2.tag = 1 ∧ o1.cfg.st.trace = [Ev.outFail 0] ∧ o2.cfg.st.trace = [Ev.outFail 0] ∧
     o1.cfg.st.tape.get 0 = 7#8 ∧ o2.cfg.st.tape.get 0 = 0#8) := dse_stopped_tape_differs
example : ¬ ∃ fuel', ObsEq' (Bc.run (progOf exDseStop 0 0 1) false 0 10 dseEnvRefuse)
    (Bc.run exDseStopQ false 0 fuel' dseEnvRefuse) := dse_not_obsEq'
/-- … and on the state emitted for the IR program `[0] := 7; output [1]; [0] := 3`. -/
example : (emitState exDseIr false).toOption.map (·.insts) = some exDseIrP ∧
    ((emitState exDseIr false).toOption.bind (fun s => (deadStoreElim s).toOption)).map (·.insts)
      = some exDseIrQ ∧
    (let o1 := Bc.run ({ temps := 2, minAcc := 0, maxAcc := 1, live := #[], insts := exDseIrP } : Program 8)
        false 0 10 dseEnvRefuse
     let o2 := Bc.run ({ temps := 2, minAcc := 0, maxAcc := 1, live := #[], insts := exDseIrQ } : Program 8)
        false 0 10 dseEnvRefuse
     o1.tag = 1 ∧ o2.tag = 1 ∧ o1.cfg.st.trace = [Ev.outFail 0] ∧ o2.cfg.st.trace = [Ev.outFail 0] ∧
     o1.cfg.st.tape.get 0 = 7#8 ∧ o2.cfg.st.tape.get 0 = 0#8) := dse_stopped_tape_differs_reachable

/-- (C) without "no `memZero`" the pass changes the output (7 ↦ 0). -/
example : ¬ DsePre exDseZero ∧
    (deadStoreElim exDseZero).toOption.map (·.insts) =
      some #[.noop, .copy (.mem 1) (.memZero 0), .copy (.mem 0) (.imm 3#8), .out 1] ∧
    (Bc.run (progOf exDseZero 0 0 1) false 0 10 dseEnvSink).cfg.st.trace = [Ev.out 7] ∧
    (Bc.run ({ temps := 0, minAcc := 0, maxAcc := 1, live := #[],
               insts := #[.noop, .copy (.mem 1) (.memZero 0), .copy (.mem 0) (.imm 3#8), .out 1] } : Program 8)
      false 0 10 dseEnvSink).cfg.st.trace = [Ev.out 0] := dse_noMemZero_necessary

/-- (C) without the bookkeeping the pass changes the output (3 ↦ 0) or fails. -/
example : ¬ DsePre exDseBook ∧
    (deadStoreElim exDseBook).toOption.map (·.insts) = some #[.noop, .copy (.mem 0) (.tmp 0), .out 0] ∧
    (Bc.run (progOf exDseBook 1 0 0) false 0 10 dseEnvSink).cfg.st.trace = [Ev.out 3] ∧
    (Bc.run ({ temps := 1, minAcc := 0, maxAcc := 0, live := #[],
               insts := #[.noop, .copy (.mem 0) (.tmp 0), .out 0] } : Program 8)
      false 0 10 dseEnvSink).cfg.st.trace = [Ev.out 0] ∧
    dseErr (deadStoreElim { exDseBook with ranges := #[] }) = some "dead_store_elim:ranges-index" ∧
    dseErr (deadStoreElim
      ({ insts := #[.copy (.mem 0) (.tmp 0), .copy (.mem 0) (.imm 1#8)], ranges := #[dseR 0] } : St 8))
      = some "dead_store_elim:num_uses-underflow" := dse_bookkeeping_necessary

end C02
end Hpbf

#print axioms Hpbf.C02.dse_run
#print axioms Hpbf.C02.dse_behEqIO
#print axioms Hpbf.C02.deadStoreElim_cert
#print axioms Hpbf.C02.deadStoreElim_preserves
#print axioms Hpbf.C02.dsePre_iff_check
#print axioms Hpbf.C02.dsePre_of_emit
#print axioms Hpbf.C02.deadStoreElim_preserves_of_emit
#print axioms Hpbf.C02.exDse_pre
#print axioms Hpbf.C02.exDse_result
#print axioms Hpbf.C02.dse_stopped_tape_differs
#print axioms Hpbf.C02.dse_not_obsEq'
#print axioms Hpbf.C02.dse_stopped_tape_differs_reachable
#print axioms Hpbf.C02.dse_noMemZero_necessary
#print axioms Hpbf.C02.dse_bookkeeping_necessary
