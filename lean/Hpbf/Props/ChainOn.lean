/-
ChainOn: the end-to-end statements at EVERY optimisation level

    source text ──parse──▶ b ──Program::optimize(level) (oracle `orders`)──▶ b' ──IR interpreter
                                                                            └─translate──▶ bytecode interpreter
                                                                                           └─compileX86──▶ x86-64

against canonical Brainfuck semantics, and the headline theorems `anylevel_all_backends`, `anylevel_exists`.
Property theorems only, restated as `example`s; proofs in `Hpbf/Proofs/ChainOn.lean` (instances of the generic
composition `Proofs/ChainO1Gen.lean`).

Ingredients: `OptProof.optimize_preserves_of_check_light'`, `OptProof.optimize_onceOk_of_check_light'`,
`OptProof.optimizeCheck_light'` (`Props/C01Rounds.lean`), `OptTotal.optimize_total'`,
`OptTotal.optimize_no_panic'` (`Props/C13Opt.lean`), and everything `Props/ChainO1.lean` uses.

Hypotheses that REMAIN:
* `0 < w`, balancedness of the source;
* `hopt : Opt.optimize b level orders = .ok b'` – success of the optimizer model for the given (arbitrary)
  oracle.  By C13Opt the model never panics on parser output, an error is always an oracle mismatch, and a fitting
  oracle exists for every level (`anylevel_exists`);
* `hc : OptCheck.optimizeCheck N b level orders env = true` – the per-environment test, a hypothesis for levels ≥ 2
  only: at levels 0 and 1 it is `true` by computation (`optimizeCheck_level_le_one`), and the headline theorem takes
  it in the form `2 ≤ level → …`.  It stands for the one fact about the optimizer that is not proved in general
  (`PrevAnalSound`: the analysis a later round starts from is sound for the dead-store-eliminated program on the
  run from `env`); where the test fails the theorems are silent.
* `JitRange` for the machine-code statements.
Level 0 needs no separate treatment: `Opt.optimize b 0 orders = .ok b'` forces `b' = b` (and `orders = []`,
`optimize_zero`), the test is `true`, and `OnceOk` comes from `parse_noOnce`; the statements then coincide with
those of `Props/ChainTotal.lean`.
-/
import Hpbf.Proofs.ChainOn

namespace Hpbf
namespace Chain

open Asm JitGen X86Sem X86Prog C03 BcGen C02

variable {w : Nat}

/-! ## 0. Levels 0 and 1, and the test -/

example (b b' : Ir.Block w) (orders : Opt.Orders) (h : Opt.optimize b 0 orders = .ok b') :
    b' = b ∧ orders = [] := optimize_zero h
example (b : Ir.Block w) : Opt.optimize b 0 [] = .ok b := optimize_zero_ok b

/-- The test (light module `Hpbf/OptCheck.lean`) is the proof-side test, whose definition is transparent … -/
example (N : Nat) (b : Ir.Block w) (level : Nat) (orders : Opt.Orders) (env : Env) :
    OptCheck.optimizeCheck N b level orders env =
      (if level = 0 then true
       else
         match (Opt.optimizeOnce b (Opt.topAnalysis [] [])).run orders with
         | .ok ((prog, anal), os1) => OptProof.roundsCheck N env (min level 3 - 1) prog anal os1
         | .error _ => true) := by
  rw [OptProof.optimizeCheck_light']; rfl

/-- … and void at levels 0 and 1. -/
example (N : Nat) (b : Ir.Block w) (level : Nat) (hl : level ≤ 1) (orders : Opt.Orders) (env : Env) :
    OptCheck.optimizeCheck N b level orders env = true := optimizeCheck_level_le_one N b hl orders env

section AnyLevel
variable (hw : 0 < w) (src : List Kind) (prog : Prog) (hp : Bf.tree src = some prog)
  (b b' : Ir.Block w) (hb : Ir.parse (w := w) src = .ok b) (level : Nat) (orders : Opt.Orders)
  (hopt : Opt.optimize b level orders = .ok b') (N : Nat) (env : Env)
  (hc : OptCheck.optimizeCheck N b level orders env = true) (numRegs : Nat) (fuse : Bool)

/-! ## 1. The IR block, the IR interpreter, the bytecode interpreter -/

example : OptProof.BehEq b b' env := behEq_anylevel hw hb hopt N env hc
example : OnceOk b' env := onceOk_anylevel hw hb hopt N env hc
example : IrAgrees prog b' env := irAgrees_anylevel hw hp hb hopt N env hc
example : BcAgrees prog (translate b' numRegs fuse) env := bcAgrees_anylevel hw hp hb hopt N env hc numRegs fuse

/-- **`ir_anylevel`** -/
example :
    ((∀ f (s : State w), Bf.run f prog env = .done s →
        ∃ f' c, Ir.run b' false 0 f' env = .done c ∧ c.st.trace = s.trace) ∧
     (∀ f (s : State w), Bf.run f prog env = .stopped s →
        ∃ f' c, Ir.run b' false 0 f' env = .stopped c ∧ c.st.trace = s.trace)) ∧
    ((∀ f' (c : Ir.Cfg w), Ir.run b' false 0 f' env = .done c →
        ∃ (f : Nat) (s : State w), Bf.run f prog env = .done s ∧ s.trace = c.st.trace) ∧
     (∀ f' (c : Ir.Cfg w), Ir.run b' false 0 f' env = .stopped c →
        ∃ (f : Nat) (s : State w), Bf.run f prog env = .stopped s ∧ s.trace = c.st.trace)) ∧
    ((∀ f', ∃ f, C01.traceOf (Ir.run b' false 0 f' env) = C01.traceOfBf (Bf.run (w := w) f prog env)) ∧
     (∀ f, ∃ f', C01.traceOf (Ir.run b' false 0 f' env) = C01.traceOfBf (Bf.run (w := w) f prog env))) :=
  ir_anylevel hw hp hb hopt N env hc

/-- **`bytecode_anylevel`** (release dispatch) -/
example :
    ((∀ f (s : State w), Bf.run f prog env = .done s →
        ∃ f' c', Bc.run (translate b' numRegs fuse) false 0 f' env = .done c' ∧ c'.st.trace = s.trace) ∧
     (∀ f (s : State w), Bf.run f prog env = .stopped s →
        ∃ f' c', Bc.run (translate b' numRegs fuse) false 0 f' env = .stopped c' ∧ c'.st.trace = s.trace)) ∧
    ((∀ f' (c' : Bc.Cfg w), Bc.run (translate b' numRegs fuse) false 0 f' env = .done c' →
        ∃ (f : Nat) (s : State w), Bf.run f prog env = .done s ∧ s.trace = c'.st.trace) ∧
     (∀ f' (c' : Bc.Cfg w), Bc.run (translate b' numRegs fuse) false 0 f' env = .stopped c' →
        ∃ (f : Nat) (s : State w), Bf.run f prog env = .stopped s ∧ s.trace = c'.st.trace)) ∧
    ((∀ f', ∃ f, C07.traceOfBc (Bc.run (translate b' numRegs fuse) false 0 f' env) =
        C01.traceOfBf (Bf.run (w := w) f prog env)) ∧
     (∀ f, ∃ f', C07.traceOfBc (Bc.run (translate b' numRegs fuse) false 0 f' env) =
        C01.traceOfBf (Bf.run (w := w) f prog env))) :=
  bytecode_anylevel hw hp hb hopt N env hc numRegs fuse

/-- **`bytecode_anylevel_debug`** -/
example :
    ((∀ f (s : State w), Bf.run f prog env = .done s →
        ∃ f' c', runDebug (translate b' numRegs fuse) false 0 f' env = .done c' ∧ c'.st.trace = s.trace) ∧
     (∀ f (s : State w), Bf.run f prog env = .stopped s →
        ∃ f' c', runDebug (translate b' numRegs fuse) false 0 f' env = .stopped c' ∧ c'.st.trace = s.trace)) ∧
    ((∀ f' (c' : Bc.Cfg w), runDebug (translate b' numRegs fuse) false 0 f' env = .done c' →
        ∃ (f : Nat) (s : State w), Bf.run f prog env = .done s ∧ s.trace = c'.st.trace) ∧
     (∀ f' (c' : Bc.Cfg w), runDebug (translate b' numRegs fuse) false 0 f' env = .stopped c' →
        ∃ (f : Nat) (s : State w), Bf.run f prog env = .stopped s ∧ s.trace = c'.st.trace)) ∧
    ((∀ f', ∃ f, C07.traceOfBc (runDebug (translate b' numRegs fuse) false 0 f' env) =
        C01.traceOfBf (Bf.run (w := w) f prog env)) ∧
     (∀ f, ∃ f', C07.traceOfBc (runDebug (translate b' numRegs fuse) false 0 f' env) =
        C01.traceOfBf (Bf.run (w := w) f prog env))) :=
  bytecode_anylevel_debug hw hp hb hopt N env hc numRegs fuse

/-- **`bytecode_anylevel_proper`** (no hypothesis at all). -/
example :
    (∀ (l : Bool) (bd f' : Nat) (c' : Bc.Cfg w), Bc.run (translate b' numRegs fuse) l bd f' env ≠ .bad c') ∧
    (∀ (f' : Nat) (c' : Bc.Cfg w), Bc.run (translate b' numRegs fuse) false 0 f' env ≠ .interrupted c') :=
  bytecode_anylevel_proper b' numRegs fuse env

/-! ### C05 / C07 / C08 -/

example (hdiv : C05.BfDiverges w prog env) :
    (∀ (f' : Nat) (c : Bc.Cfg w),
      Bc.run (translate b' numRegs fuse) false 0 f' env ≠ .done c ∧
      Bc.run (translate b' numRegs fuse) false 0 f' env ≠ .stopped c) ∧
    (∀ (bd f' : Nat) (c : Bc.Cfg w),
      Bc.run (translate b' numRegs fuse) true bd f' env ≠ .done c ∧
      Bc.run (translate b' numRegs fuse) true bd f' env ≠ .stopped c) :=
  bc_never_returns_anylevel hw hp hb hopt N env hc numRegs fuse hdiv

example (hdiv : C05.BfDiverges w prog env) :
    ∀ f', ∃ c : Bc.Cfg w, Bc.run (translate b' numRegs fuse) false 0 f' env = .outOfFuel c :=
  bc_runs_forever_anylevel hw hp hb hopt N env hc numRegs fuse hdiv

example (hdiv : C05.BfDiverges w prog env) :
    ∀ bd, ∃ f' c, Bc.run (translate b' numRegs fuse) true bd f' env = .interrupted c :=
  bc_limited_interrupted_anylevel hw hp hb hopt N env hc numRegs fuse hdiv

example (hdiv : C05.BfDiverges w prog env) :
    (∀ f, ∃ f' c c', Bf.run (w := w) f prog env = .outOfFuel c ∧
      Bc.run (translate b' numRegs fuse) false 0 f' env = .outOfFuel c' ∧ c'.st.trace = c.st.trace) ∧
    (∀ f', ∃ f c c', Bc.run (translate b' numRegs fuse) false 0 f' env = .outOfFuel c' ∧
      Bf.run (w := w) f prog env = .outOfFuel c ∧ c'.st.trace = c.st.trace) :=
  bc_divergent_output_anylevel hw hp hb hopt N env hc numRegs fuse hdiv

example :
    (∀ (bd f' : Nat) (c : Bc.Cfg w), Bc.run (translate b' numRegs fuse) true bd f' env = .done c →
      ∃ (f : Nat) (s : State w), Bf.run f prog env = .done s ∧ s.trace = c.st.trace) ∧
    (∀ (bd f' : Nat) (c : Bc.Cfg w), Bc.run (translate b' numRegs fuse) true bd f' env = .stopped c →
      ∃ (f : Nat) (s : State w), Bf.run f prog env = .stopped s ∧ s.trace = c.st.trace) :=
  bc_limited_finished_anylevel hw hp hb hopt N env hc numRegs fuse

example : ∀ bd f', ∃ f, ∀ g, f ≤ g →
    C07.traceOfBc (Bc.run (translate b' numRegs fuse) true bd f' env) <:+
      C01.traceOfBf (Bf.run (w := w) g prog env) :=
  bc_limited_prefix_anylevel hw hp hb hopt N env hc numRegs fuse

example :
    (∀ (f : Nat) (s : State w), Bf.run f prog env = .done s →
      ∃ g, ∀ bd, g ≤ bd →
        ∃ f' c, Bc.run (translate b' numRegs fuse) true bd f' env = .done c ∧ c.st.trace = s.trace) ∧
    (∀ (f : Nat) (s : State w), Bf.run f prog env = .stopped s →
      ∃ g, ∀ bd, g ≤ bd →
        ∃ f' c, Bc.run (translate b' numRegs fuse) true bd f' env = .stopped c ∧ c.st.trace = s.trace) :=
  bc_limited_enough_anylevel hw hp hb hopt N env hc numRegs fuse

example : ∀ (f : Nat) (s : State w), Bf.run f prog env = .stopped s →
    ∃ f' c, (∀ k, Bc.run (translate b' numRegs fuse) false 0 (f' + k) env = .stopped c) ∧
      c.st.trace = s.trace :=
  bc_stops_like_canonical_anylevel hw hp hb hopt N env hc numRegs fuse

example : ∀ (l : Bool) (bd f' : Nat) (c : Bc.Cfg w),
    Bc.run (translate b' numRegs fuse) l bd f' env = .stopped c → (l = false → bd = 0) →
    ∃ (f : Nat) (s : State w), Bf.run f prog env = .stopped s ∧ s.trace = c.st.trace :=
  bc_stops_only_like_canonical_anylevel hw hp hb hopt N env hc numRegs fuse

/-! ## `jit_anylevel_*` (`JitRange` as in `Props/ChainTotal.lean` §3) -/

variable (sz : Size) (safe : Bool) (cfg : X86Prog.Cfg) (buf0 rsp0 ra : BitVec 64)

example (R : JitRange sz (translate b' 11 false) false safe cfg buf0 rsp0 ra 0 env) :
    let p := translate b' 11 false
    let s0 : PState w := initState cfg buf0 rsp0 ra p.minAcc p.maxAcc 0 env
    (∀ f (s : State w), Bf.run f prog env = .done s →
      ∃ n s', X86Prog.run cfg n s0 = .ret s' ∧ s'.regs.rax = 1 ∧ s'.trace = s.trace) ∧
    (∀ f (s : State w), Bf.run f prog env = .stopped s →
      ∃ n s', X86Prog.run cfg n s0 = .ret s' ∧ s'.regs.rax = 0 ∧ s'.trace = s.trace) :=
  jit_anylevel_forward hw hp hb hopt N env hc R

example (R : JitRange sz (translate b' 11 false) false safe cfg buf0 rsp0 ra 0 env) :
    let p := translate b' 11 false
    let s0 : PState w := initState cfg buf0 rsp0 ra p.minAcc p.maxAcc 0 env
    (∀ f (s : State w), Bf.run f prog env = .done s →
      ∀ n s', X86Prog.run cfg n s0 = .ret s' → s'.regs.rax = 1 ∧ s'.trace = s.trace) ∧
    (∀ f (s : State w), Bf.run f prog env = .stopped s →
      ∀ n s', X86Prog.run cfg n s0 = .ret s' → s'.regs.rax = 0 ∧ s'.trace = s.trace) :=
  jit_anylevel_unique hw hp hb hopt N env hc R

example (R : JitRange sz (translate b' 11 false) false safe cfg buf0 rsp0 ra 0 env) :
    let p := translate b' 11 false
    let s0 : PState w := initState cfg buf0 rsp0 ra p.minAcc p.maxAcc 0 env
    ∀ f, ∃ n s', (steps cfg n s0 = some s' ∨ X86Prog.run cfg n s0 = .ret s') ∧
      s'.trace = C01.traceOfBf (Bf.run (w := w) f prog env) :=
  jit_anylevel_prefix hw hp hb hopt N env hc R

example (R : JitRange sz (translate b' 11 false) false safe cfg buf0 rsp0 ra 0 env)
    (hdiv : C05.BfDiverges w prog env) :
    let p := translate b' 11 false
    let s0 : PState w := initState cfg buf0 rsp0 ra p.minAcc p.maxAcc 0 env
    ∀ f, ∃ n s', steps cfg n s0 = some s' ∧ s'.trace = C01.traceOfBf (Bf.run (w := w) f prog env) :=
  jit_anylevel_divergent hw hp hb hopt N env hc R hdiv

example (bd : Nat) (R : JitRange sz (translate b' 11 false) true safe cfg buf0 rsp0 ra bd env) :
    let p := translate b' 11 false
    let s0 : PState w := initState cfg buf0 rsp0 ra p.minAcc p.maxAcc bd env
    ∃ n s', X86Prog.run cfg n s0 = .ret s' ∧
      (∀ n2 s2, X86Prog.run cfg n2 s0 = .ret s2 → s2 = s') ∧
      (s'.regs.rax = 1 ∨ s'.regs.rax = 0) ∧
      (s'.regs.rax = 1 → ∃ (f : Nat) (s : State w), Bf.run f prog env = .done s ∧ s.trace = s'.trace) ∧
      (∃ f, ∀ g, f ≤ g → s'.trace <:+ C01.traceOfBf (Bf.run (w := w) g prog env)) :=
  jit_anylevel_limited hw hp hb hopt N env hc R

example :
    let p := translate b' 11 false
    (∀ f (s : State w), Bf.run f prog env = .done s → ∃ g, ∀ bd, g ≤ bd →
      JitRange sz p true safe cfg buf0 rsp0 ra bd env →
      ∃ n s', X86Prog.run cfg n (initState (w := w) cfg buf0 rsp0 ra p.minAcc p.maxAcc bd env) = .ret s' ∧
        s'.regs.rax = 1 ∧ s'.trace = s.trace) ∧
    (∀ f (s : State w), Bf.run f prog env = .stopped s → ∃ g, ∀ bd, g ≤ bd →
      JitRange sz p true safe cfg buf0 rsp0 ra bd env →
      ∃ n s', X86Prog.run cfg n (initState (w := w) cfg buf0 rsp0 ra p.minAcc p.maxAcc bd env) = .ret s' ∧
        s'.regs.rax = 0 ∧ s'.trace = s.trace) :=
  jit_anylevel_limited_enough hw hp hb hopt N env hc

end AnyLevel

/-! ## 2. All backends -/

/-- The conclusion, spelled out. -/
example (code : Array Kind) (prog : Prog) (b' : Ir.Block w) (numRegs : Nat) (fuse : Bool) (env : Env) :
    AllBackends code prog b' numRegs fuse env ↔
    (let canon : Nat → Fin := fun f => finBf (Bf.run (w := w) f prog env)
     let p : Bc.Program w := translate b' numRegs fuse
     let pj : Bc.Program w := translate b' 11 false
     SameResults canon (fun f => finInplace (Inplace.run (w := w) code false 0 f env)) ∧
     SameResults canon (fun f => finIr (Ir.run b' false 0 f env)) ∧
     SameResults canon (fun f => finBc (Bc.run p false 0 f env)) ∧
     SameResults canon (fun f => finBc (C02.runDebug p false 0 f env)) ∧
     (∀ (sz : Size) (safe : Bool) (cfg : X86Prog.Cfg) (buf0 rsp0 ra : BitVec 64),
       JitRange sz pj false safe cfg buf0 rsp0 ra 0 env →
       ∀ r, (∃ f, canon f = some r) →
         ∃ n, finX86 (X86Prog.run cfg n (initState (w := w) cfg buf0 rsp0 ra pj.minAcc pj.maxAcc 0 env))
           = some r) ∧
     (∀ (sz : Size) (safe : Bool) (cfg : X86Prog.Cfg) (buf0 rsp0 ra : BitVec 64) (bd : Nat),
       JitRange sz pj true safe cfg buf0 rsp0 ra bd env →
       ∃ n r, finX86 (X86Prog.run cfg n (initState (w := w) cfg buf0 rsp0 ra pj.minAcc pj.maxAcc bd env))
           = some r ∧
         (r.1 = true → ∃ f, canon f = some r) ∧
         ∃ f, ∀ g, f ≤ g → r.2 <:+ C01.traceOfBf (Bf.run (w := w) g prog env))) := Iff.rfl

/-- **`anylevel_all_backends`** (docstring at the theorem, `Proofs/ChainOn.lean`). -/
example (hw : 0 < w) (code : Array Kind) (prog : Prog) (hp : Bf.tree code.toList = some prog) (level : Nat)
    (orders : Opt.Orders) (b' : Ir.Block w)
    (hopt : Opt.optimize (irOf w code.toList) level orders = .ok b') (N : Nat) (env : Env)
    (hc : 2 ≤ level → OptCheck.optimizeCheck N (irOf w code.toList) level orders env = true)
    (numRegs : Nat) (fuse : Bool) : AllBackends code prog b' numRegs fuse env :=
  anylevel_all_backends hw code prog hp level orders b' hopt N env hc numRegs fuse

/-- **`anylevel_exists`**: the optimizer never panics, a fitting oracle exists, and for it all backends agree
wherever the test passes. -/
example (hw : 0 < w) (code : Array Kind) (prog : Prog) (hp : Bf.tree code.toList = some prog) (level : Nat) :
    (∀ orders e, Opt.optimize (irOf w code.toList) level orders = .error e →
      OptTotal.isOracleError e = true) ∧
    ∃ orders b', Opt.optimize (irOf w code.toList) level orders = .ok b' ∧
      ∀ (N : Nat) (env : Env),
        (2 ≤ level → OptCheck.optimizeCheck N (irOf w code.toList) level orders env = true) →
        ∀ (numRegs : Nat) (fuse : Bool), AllBackends code prog b' numRegs fuse env :=
  anylevel_exists hw code prog hp level
example (e : String) : OptTotal.isOracleError e = "order-mismatch ".toList.isPrefixOf e.toList := rfl

/-- Levels 0 and 1: no test. -/
example (hw : 0 < w) (code : Array Kind) (prog : Prog) (hp : Bf.tree code.toList = some prog) (level : Nat)
    (hl : level ≤ 1) (orders : Opt.Orders) (b' : Ir.Block w)
    (hopt : Opt.optimize (irOf w code.toList) level orders = .ok b') (env : Env) (numRegs : Nat) (fuse : Bool) :
    AllBackends code prog b' numRegs fuse env :=
  level_le_one_all_backends hw code prog hp level hl orders b' hopt env numRegs fuse

/-! ## 3. Non-vacuity (kernel evaluation): multiplication `,>,<[>[>+>+<<-]>>[<<+>>-]<<<-]>>.` at LEVEL 3 -/

def onCode : Array Kind := OptProof.RoundsEx.mulSrc.toArray
def onProg : Prog := (Bf.tree onCode.toList).getD .nil
/-- input 3, 2 -/
def onEnv : Env := OptProof.RoundsEx.mulEnv
def onB3 : Ir.Block 8 :=
  match Opt.optimize (irOf 8 onCode.toList) 3 [] with
  | .ok b => b
  | .error _ => ⟨0, []⟩

set_option maxRecDepth 100000

theorem on_tree : Bf.tree onCode.toList = some onProg := by
  have h : (Bf.tree onCode.toList).isSome = true := by decide +kernel
  unfold onProg
  cases ht : Bf.tree onCode.toList with
  | none => rw [ht] at h; cases h
  | some p => rfl

/-- All three rounds succeed with the empty oracle … -/
theorem on_opt : Opt.optimize (irOf 8 onCode.toList) 3 [] = .ok onB3 := by
  have h : (match Opt.optimize (irOf 8 onCode.toList) 3 [] with | .ok _ => true | .error _ => false) = true := by
    decide +kernel
  unfold onB3
  cases ho : Opt.optimize (irOf 8 onCode.toList) 3 [] with
  | error e => rw [ho] at h; cases h
  | ok b => rfl

/-- … and the test passes for the environment "input 3, 2" (replay fuel 400). -/
theorem on_check : OptCheck.optimizeCheck 400 (irOf 8 onCode.toList) 3 [] onEnv = true := by decide +kernel

/-- The canonical run: reads 3 and 2, prints 6. -/
theorem on_canon : finBf (Bf.run (w := 8) 300 onProg onEnv) = some (true, [Ev.out 6, Ev.inp 2, Ev.inp 3]) := by
  decide +kernel

/-- By the theorem: the IR interpreter on the level-3 block and the bytecode interpreter (both dispatch modes)
on its translation produce exactly that. -/
example :
    (∃ f, finIr (Ir.run onB3 false 0 f onEnv) = some (true, [Ev.out 6, Ev.inp 2, Ev.inp 3])) ∧
    (∃ f, finBc (Bc.run (translate onB3 4 true) false 0 f onEnv) =
      some (true, [Ev.out 6, Ev.inp 2, Ev.inp 3])) ∧
    (∃ f, finBc (C02.runDebug (translate onB3 4 true) false 0 f onEnv) =
      some (true, [Ev.out 6, Ev.inp 2, Ev.inp 3])) := by
  have A := anylevel_all_backends (w := 8) (by decide) onCode onProg on_tree 3 [] onB3 on_opt 400 onEnv
    (fun _ => on_check) 4 true
  exact ⟨(A.2.1 _).1 ⟨300, on_canon⟩, (A.2.2.1 _).1 ⟨300, on_canon⟩, (A.2.2.2.1 _).1 ⟨300, on_canon⟩⟩

/-- … and by evaluation. -/
example : finBc (Bc.run (translate onB3 4 true) false 0 100 onEnv) =
    some (true, [Ev.out 6, Ev.inp 2, Ev.inp 3]) := by decide +kernel

/-- The same source at level 0 and level 1 needs no test (here by `level_le_one_all_backends`). -/
example : ∃ f, finBc (Bc.run (translate (irOf 8 onCode.toList) 4 false) false 0 f onEnv) =
    some (true, [Ev.out 6, Ev.inp 2, Ev.inp 3]) :=
  ((level_le_one_all_backends (w := 8) (by decide) onCode onProg on_tree 0 (by decide) [] _
    (optimize_zero_ok _) onEnv 4 false).2.2.1 _).1 ⟨300, on_canon⟩

end Chain
end Hpbf

#print axioms Hpbf.Chain.optimize_zero
#print axioms Hpbf.Chain.optimizeCheck_level_le_one
#print axioms Hpbf.Chain.optimizeCheck_of_ge_two
#print axioms Hpbf.Chain.behEq_anylevel
#print axioms Hpbf.Chain.onceOk_anylevel
#print axioms Hpbf.Chain.irAgrees_anylevel
#print axioms Hpbf.Chain.bcAgrees_anylevel
#print axioms Hpbf.Chain.ir_anylevel
#print axioms Hpbf.Chain.bytecode_anylevel
#print axioms Hpbf.Chain.bytecode_anylevel_debug
#print axioms Hpbf.Chain.bytecode_anylevel_proper
#print axioms Hpbf.Chain.bc_never_returns_anylevel
#print axioms Hpbf.Chain.bc_runs_forever_anylevel
#print axioms Hpbf.Chain.bc_limited_interrupted_anylevel
#print axioms Hpbf.Chain.bc_divergent_output_anylevel
#print axioms Hpbf.Chain.bc_limited_finished_anylevel
#print axioms Hpbf.Chain.bc_limited_prefix_anylevel
#print axioms Hpbf.Chain.bc_limited_enough_anylevel
#print axioms Hpbf.Chain.bc_stops_like_canonical_anylevel
#print axioms Hpbf.Chain.bc_stops_only_like_canonical_anylevel
#print axioms Hpbf.Chain.jit_anylevel_forward
#print axioms Hpbf.Chain.jit_anylevel_unique
#print axioms Hpbf.Chain.jit_anylevel_prefix
#print axioms Hpbf.Chain.jit_anylevel_divergent
#print axioms Hpbf.Chain.jit_anylevel_limited
#print axioms Hpbf.Chain.jit_anylevel_limited_enough
#print axioms Hpbf.Chain.allBackends_of_agrees
#print axioms Hpbf.Chain.anylevel_all_backends
#print axioms Hpbf.Chain.anylevel_exists
#print axioms Hpbf.Chain.level_le_one_all_backends
#print axioms Hpbf.Chain.on_opt
#print axioms Hpbf.Chain.on_check
#print axioms Hpbf.Chain.on_canon
