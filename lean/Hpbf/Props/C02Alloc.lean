/-
Property C02 (part: the pass `allocate_temps` of the bytecode generator).
"For every valid program, input stream, cell width and optimisation level, the bytecode interpreter produces
exactly the input/output event sequence of canonical Brainfuck semantics whenever the canonical run terminates."

`BcGen.translateE` (an exact port of `bc::CodeGen::translate`) is
    emission ; `deadStoreElim` ; `allocateTemps numRegs` ; late passes
(`translateE_factors`, `translateE_eq_latePasses`).  The emission is covered by `Props/C02Emit.lean`, the late
passes by `Props/C02.lean`.  This file states that `allocateTemps` – physical temporaries for the virtual ones
(registers and spill slots from min-heaps, released at the recorded end of the range), forwarding of copied
operands, moving a computation to the store that is its first use, the `live` bitmaps – preserves the behaviour
of the program under `Bc.step`/`Bc.run` for EVERY generator state that satisfies the explicit precondition
`AllocPre` (not only for generator output), in limited and unlimited mode, whenever the pass does not hit one
of its (modelled) panic sites.  The proofs are in `Hpbf/Proofs/C02Alloc*.lean`; the theorems below are those
theorems (namespace `Hpbf.C02`), restated as `example`s so that the exact statements are checked here.

Vocabulary: `StEq`, `ObsEq'`, `BehEq`, `progOf`, `TargetsOk`, `NoMemZero`, `LatePre` as in `Props/C02.lean`.

`AllocPre s` (everything about the INPUT of the pass; `InRange s t k` := the range table has an entry for `t`
with `created < k ≤ lastUse`):
* `live0`   – no bitmap recorded yet;
* `noZero`  – no read-and-clear operand;
* `defs`    – a temporary is written only by the instruction at its `created` position;
* `uses`    – an instruction at `j` reads `t` only if `InRange s t j`;
* `flow`    – for every branch `j → k'`: `InRange s t k' → InRange s t j`  (back edge: a value that enters a loop
              body stays in range up to the loop end – this is what `outerLoop`/`rangeExtend` provide; forward
              edge: a value created in the skipped region is not in range after it);
* `ptr`     – no `mov` and no moving `scan` at a position where some temporary is in range;
* `writes`  – every instruction at `j` that writes cell `m` is listed in `writes[m]`;
* `firstLt` – the recorded first use of a computed value lies after the computation;
* `fuse`    – if the recorded first use `f` of `insts[i] = op (tmp t) a b` is a store `copy (mem m) src`, then
              `src = tmp t`, the instructions strictly between are straight-line (`plain`) and do not read `t`,
              and no branch lands in `(i, f]`.
Use counts (`numUses`) do not occur: they only steer heuristics, and a wrong count makes the pass fail
(`replacements.get.unwrap`), not produce wrong code.  Every component except `live0`, `noZero`, `defs`, `uses`
is shown necessary by a concrete state on which the pass succeeds and changes the behaviour (§3).

Findings recorded here:
* `alloc_shrunk_extension_panics`: `range_extend_to` OVERWRITES `last_use`; when two computations that share an
  operand are moved to stores in the opposite order, the second move shrinks the extension made by the first, the
  operand is released too early, and rewriting the moved instruction panics.  The state is not reachable from
  `emit_block` (computations of one `calc` precede its stores, in the same order); the theorem shows that this
  can only end in a panic, never in wrong code.
* No state satisfying `AllocPre` on which the pass changes behaviour exists (`allocateTemps_preserves`), and
  16 800 generator states produced by the Rust `bcgen`/`irgen` suites satisfy the executable form `allocPreB`
  of `AllocPre` before and after `deadStoreElim` (run outside the kernel; `allocPreB_sound` is proved).
* `AllocPre` is PROVED for the input the pass receives in `translateE` (§4): for every IR program and both values
  of `fuse`, the state after `emitState` and `deadStoreElim` satisfies it (`allocPre_of_emit`), so in the pipeline
  the pass preserves behaviour unconditionally (`allocateTemps_of_emit`).  No hypothesis on the IR program is
  needed (no well-formedness, no bound).  The proof goes through invariants of the emission:
  `LInv` (local facts), `RInv` (every computed value is read before its `calc` ends; straight-line region),
  `FInv` (loop frames and `outer_accessed`: back edges), `VInv` (only values that are visible – created after
  the last table reset, not inside a closed conditional block, after every pointer move – are ever read: forward
  edges and pointer moves).
-/
import Hpbf.Proofs.C02AllocEx
import Hpbf.Proofs.C02AllocEmitAll

namespace Hpbf
namespace C02

open Bc BcWf BcGen C11 Alloc

variable {w : Nat}

/-! ### 0. The precondition is transparent -/

example (s : St w) (t k : Nat) : InRange s t k ↔
    ∃ (r : RangeInfo) (L : Nat), s.ranges[t]? = some r ∧ r.lastUse = some L ∧ r.created < k ∧ k ≤ L := Iff.rfl

example (s : St w) (i : Nat) (op : BcGen.Op) (t : Nat) (s0 s1 : Loc w) (f : Nat) (m : Int) (src : Loc w) :
    Cand s i op t s0 s1 f m src ↔
      (s.insts[i]? = some (mkArith op (.tmp t) s0 s1) ∧
       (∃ (r : RangeInfo) (L : Nat), s.ranges[t]? = some r ∧ r.firstUse = some f ∧ r.lastUse = some L) ∧
       s.insts[f]? = some (.copy (.mem m) src)) :=
  ⟨fun h => ⟨h.inst, h.first, h.store⟩, fun ⟨a, b, c⟩ => ⟨a, b, c⟩⟩

example (s : St w) : AllocPre s ↔
    (s.live.size = 0 ∧
     (∀ (j : Nat) (ins : Instr w), s.insts[j]? = some ins → NoMemZero ins) ∧
     (∀ (j : Nat) (ins : Instr w) (t : Nat), s.insts[j]? = some ins → t ∈ BcWf.defs ins →
        ∃ r : RangeInfo, s.ranges[t]? = some r ∧ r.created = j) ∧
     (∀ (j : Nat) (ins : Instr w) (t : Nat), s.insts[j]? = some ins → t ∈ BcWf.uses ins → InRange s t j) ∧
     (∀ (j : Nat) (ins : Instr w) (off : Int) (k' : Nat), s.insts[j]? = some ins → branchOff? ins = some off →
        (j : Int) + off = (k' : Int) → ∀ t, InRange s t k' → InRange s t j) ∧
     (∀ (t j : Nat) (ins : Instr w), InRange s t j → s.insts[j]? = some ins → ptrStable ins = true) ∧
     (∀ (j : Nat) (ins : Instr w) (m : Int), s.insts[j]? = some ins → m ∈ memDefs ins →
        ∃ ws, alGet s.writes m = some ws ∧ j ∈ ws) ∧
     (∀ (i : Nat) (op : BcGen.Op) (t : Nat) (s0 s1 : Loc w) (r : RangeInfo) (f : Nat),
        s.insts[i]? = some (mkArith op (.tmp t) s0 s1) → s.ranges[t]? = some r → r.firstUse = some f → i < f) ∧
     (∀ (i : Nat) (op : BcGen.Op) (t : Nat) (s0 s1 : Loc w) (f : Nat) (m : Int) (src : Loc w),
        Cand s i op t s0 s1 f m src →
        src = .tmp t ∧
        (∀ (j : Nat) (x : Instr w), i < j → j < f → s.insts[j]? = some x → plain x = true ∧ t ∉ BcWf.uses x) ∧
        (∀ (j : Nat) (x : Instr w) (off : Int), s.insts[j]? = some x → branchOff? x = some off →
          ¬ ((i : Int) < (j : Int) + off ∧ (j : Int) + off ≤ (f : Int))))) :=
  ⟨fun h => ⟨h.live0, h.noZero, h.defs, h.uses, h.flow, h.ptr, h.writes, h.firstLt, h.fuse⟩,
   fun ⟨a, b, c, d, e, f, g, h, i⟩ => ⟨a, b, c, d, e, f, g, h, i⟩⟩

example (x : Instr w) : plain x = true ↔
    (x = .noop ∨ (∃ d a b, x = .add d a b) ∨ (∃ d a b, x = .sub d a b) ∨ (∃ d a b, x = .mul d a b) ∨
      ∃ d a, x = .copy d a) := by
  cases x <;> simp [plain]
example (sh : Int) (c : Int) : ptrStable (.mov sh : Instr w) = false ∧
    (ptrStable (.scan c sh : Instr w) = true ↔ sh = 0) ∧ ptrStable (.inp c : Instr w) = true := by
  simp [ptrStable]
example (d a b : Loc w) (m : Int) : memDefs (.add d a b) = locMem d ∧ memDefs (.copy d a) = locMem d ∧
    memDefs (.inp m : Instr w) = [m] ∧ memDefs (.out m : Instr w) = [] := ⟨rfl, rfl, rfl, rfl⟩

/-- The precondition can be checked by running `allocPreB`. -/
example (s : St w) (h : allocPreB s = true) : AllocPre s := allocPreB_sound h

/-! ### 1. `allocate_temps` preserves behaviour -/

example (s s' : St w) (numRegs : Nat) (hp : AllocPre s) (h : allocateTemps numRegs s = .ok s') :
    s'.insts.size = s.insts.size ∧ s'.live.size = s'.insts.size ∧
    (TargetsOk s.insts → TargetsOk s'.insts) ∧ (∀ ins ∈ s'.insts, NoMemZero ins) ∧
    ∀ (t t' : Nat) (mn mx : Int), BehEq (progOf s t mn mx) (progOf s' t' mn mx) :=
  allocateTemps_preserves s s' numRegs hp h

/-- The output can be handed to the late passes (`late_passes_preserve`). -/
example (s s' : St w) (numRegs : Nat) (hp : AllocPre s) (hT : TargetsOk s.insts)
    (h : allocateTemps numRegs s = .ok s') : LatePre s' := allocateTemps_latePre s s' numRegs hp hT h

/-- The two runs proceed in lockstep (same fuel): the simulation relation `Rel` relates configurations with the
same pc, state and budget whose temporaries correspond through the replacement table of the pass. -/
example (s : St w) (numRegs : Nat) (tr : Nat → ASt w) (hp : AllocPre s) (T : Trace s numRegs tr)
    (P Q : Program w) (hP : P.insts = s.insts) (hQ : Q.insts = (tr s.insts.size).st.insts) (lim : Bool)
    (c1 c2 : Cfg w) (hR : Rel s tr c1 c2) :
    StepRel (Rel s tr) CfgEq CfgEq (step P lim c1) (step Q lim c2) := sim_step hp T hP hQ lim c1 c2 hR

example (s : St w) (tr : Nat → ASt w) (c1 c2 : Cfg w) : Rel s tr c1 c2 ↔
    (c2.pc = c1.pc ∧ c1.pc ≤ s.insts.size ∧ c2.st = c1.st ∧ c2.budget = c1.budget ∧
     (∀ t l, alGet (tr c1.pc).repl t = some l → LiveAt s c1.pc (tr c1.pc) t → ¬ PendDst s c1.pc (tr c1.pc) t →
        tget c1.temps t = rdVal c2 l) ∧
     (∀ f op m t s0 s1, Fused s c1.pc (tr c1.pc) f op m t s0 s1 →
        tget c1.temps t = opFun op (rdVal c1 s0) (rdVal c1 s1))) :=
  ⟨fun h => ⟨h.pc, h.le, h.st, h.budget, h.v.val, h.v.pend⟩, fun ⟨a, b, c, d, e, f⟩ => ⟨a, b, c, d, ⟨e, f⟩⟩⟩

/-! ### 2. The loop invariant -/

/-- The sequence of states before each round of the loop. -/
example (s s' : St w) (numRegs : Nat) (h : allocateTemps numRegs s = .ok s') :
    ∃ tr, Trace s numRegs tr ∧ (tr s.insts.size).st = s' := trace_of_allocateTemps h

example (s : St w) (numRegs : Nat) (tr : Nat → ASt w) (hp : AllocPre s) (T : Trace s numRegs tr) (k : Nat)
    (hk : k ≤ s.insts.size) : PassInv s k (tr k) := trace_inv hp T k hk

/-- The part of the invariant that excludes two live values in one physical temporary. -/
example (s : St w) (k : Nat) (a : ASt w) (h : PassInv s k a) (t t' r : Nat)
    (h1 : alGet a.repl t = some (.tmp r)) (h2 : alGet a.repl t' = some (.tmp r)) : t = t' :=
  h.regs.inj t t' r h1 h2
example (s : St w) (k : Nat) (a : ASt w) (h : PassInv s k a) (t r : Nat)
    (h1 : alGet a.repl t = some (.tmp r)) : r ∉ a.freeRegs ∧ r ∉ a.freeTemps ∧ r < a.nextFresh :=
  h.regs.notFree t r h1

/-- The location of a temporary is the same at all positions of its range. -/
example (s : St w) (numRegs : Nat) (tr : Nat → ASt w) (hp : AllocPre s) (T : Trace s numRegs tr) (t : Nat)
    (r : RangeInfo) (L : Nat) (hr : s.ranges[t]? = some r) (hL : r.lastUse = some L) (k1 k2 : Nat)
    (h1 : r.created < k1) (h12 : k1 ≤ k2) (h2 : k2 ≤ L) (hn : k2 ≤ s.insts.size) :
    alGet (tr k2).repl t = alGet (tr k1).repl t := repl_stable hp T hr hL h1 k2 h12 h2 hn

/-! ### 3. Non-vacuity and necessity of the precondition (all by `decide`) -/

example : AllocPre exFlowGood := exFlowGood_pre
example : AllocPre exWritesGood := exWritesGood_pre
example : AllocPre exFuseGood := exFuseGood_pre
/-- On `exFuseGood` the pass allocates, forwards and moves a computation. -/
example : allocInsts 0 exFuseGood = some #[.noop, .noop, .add (.mem 0) (.mem 1) (.imm 5), .noop,
    .add (.mem 2) (.mem 0) (.mem 1), .out 0, .out 2] := exFuseGood_out0
example : allocInsts 2 exFuseGood = some #[.copy (.tmp 0) (.mem 1), .add (.tmp 1) (.tmp 0) (.imm 5),
    .copy (.mem 0) (.tmp 1), .noop, .add (.mem 2) (.tmp 1) (.tmp 0), .out 0, .out 2] := exFuseGood_out2

/-- `comps s` lists the results of the component checks
`[live0, noZero, defs, uses, flow, ptr, writes, firstLt, fuse]`. -/
example (s : St 8) : comps s = [s.live.size == 0, chkNoZero s, chkDefs s, chkUses s, chkFlow s, chkPtr s,
    chkWrites s, chkFirstLt s, chkFuse s] := rfl

/-- `flow`: a value used inside a loop whose range is not extended to the loop end loses its register. -/
example : comps exFlowBad = [true, true, true, true, false, true, true, true, true] ∧
    traceOf exFlowBad.insts = [Ev.out 10] ∧ (allocInsts 1 exFlowBad).map traceOf = some [Ev.out 6] ∧
    (allocInsts 1 exFlowGood).map traceOf = some [Ev.out 10] := alloc_flow_necessary
/-- `ptr`: a forwarded memory operand is read after a pointer move. -/
example : comps exPtrBad = [true, true, true, true, true, false, true, true, true] ∧
    allocInsts 2 exPtrBad = some #[.copy (.mem 1) (.imm 7), .noop, .mov 1, .copy (.mem 0) (.mem 1), .out 0] ∧
    traceOf exPtrBad.insts = [Ev.out 7] ∧ (allocInsts 2 exPtrBad).map traceOf = some [Ev.out 0] :=
  alloc_ptr_necessary
/-- `writes`: a forwarded memory operand is read after an unrecorded write. -/
example : comps exWritesBad = [true, true, true, true, true, true, false, true, true] ∧
    traceOf exWritesBad.insts = [Ev.out 7] ∧ (allocInsts 2 exWritesBad).map traceOf = some [Ev.out 9] ∧
    (allocInsts 2 exWritesGood).map traceOf = some [Ev.out 7] := alloc_writes_necessary
/-- `fuse` (first use): the moved computation is read before its new position. -/
example : comps exFuseBad = [true, true, true, true, true, true, true, true, false] ∧
    allocInsts 0 exFuseBad = some #[.noop, .add (.mem 2) (.mem 0) (.imm 1), .add (.mem 0) (.mem 1) (.imm 5), .out 2,
      .out 0] ∧
    traceOf exFuseBad.insts = [Ev.out 5, Ev.out 6] ∧
    (allocInsts 0 exFuseBad).map traceOf = some [Ev.out 5, Ev.out 1] := alloc_fuse_first_use_necessary
/-- `fuse` (no branch into the region): the moved computation is repeated in a loop. -/
example : comps exJumpBad = [true, true, true, true, true, true, true, true, false] ∧
    traceOf exJumpBad.insts = [Ev.out 5] ∧ (allocInsts 2 exJumpBad).map traceOf = some [Ev.out 6] :=
  alloc_fuse_nojump_necessary
/-- `firstLt`: the pass overwrites an instruction it has already finished. -/
example : chkFirstLt exFirstBad = false ∧
    allocInsts 2 exFirstBad = some #[.add (.mem 0) (.mem 1) (.imm 5), .noop, .copy (.mem 2) (.mem 0), .out 0, .out 2] ∧
    traceOf exFirstBad.insts = [Ev.out 5, Ev.out 3] ∧
    (allocInsts 2 exFirstBad).map traceOf = some [Ev.out 5, Ev.out 5] := alloc_firstLt_necessary
/-- The finding about `range_extend_to`: a panic, although `AllocPre` holds. -/
example : AllocPre exMonoBad := exMonoBad_pre
example : allocErr 1 exMonoBad = some "allocate_temps:replace:replacements.get.unwrap" :=
  alloc_shrunk_extension_panics

/-! ### 4. The precondition holds in the pipeline -/

section pipeline
open AEmit

/-- `dead_store_elim` only blanks straight-line instructions and changes use counts … -/
example (s s' : St w) (h : deadStoreElim s = .ok s') :
    s'.live = s.live ∧ s'.writes = s.writes ∧
    (∀ j : Nat, s'.insts[j]? = s.insts[j]? ∨
      (s'.insts[j]? = some Instr.noop ∧ ∃ x, s.insts[j]? = some x ∧ plain x = true)) ∧
    (∀ t : Nat, (s'.ranges[t]? = none ∧ s.ranges[t]? = none) ∨
      ∃ r r', s.ranges[t]? = some r ∧ s'.ranges[t]? = some r' ∧
        r'.created = r.created ∧ r'.firstUse = r.firstUse ∧ r'.lastUse = r.lastUse) :=
  let d := deadStoreElim_dseLike h
  ⟨d.live, d.writes, d.insts, d.ranges⟩
/-- … and such changes keep `AllocPre`. -/
example (s s' : St w) (hp : AllocPre s) (h : DseLike s s') : AllocPre s' := allocPre_of_dseLike hp h

/-- Loop back edges (`brnz`) of generator output. -/
example (prog : Ir.Block w) (fuse : Bool) (s : St w) (h : emitState prog fuse = .ok s) (j : Nat) (cnd off : Int)
    (k' : Nat) (hj : s.insts[j]? = some (.brnz cnd off)) (hk : (j : Int) + off = (k' : Int)) (t : Nat)
    (ht : InRange s t k') : InRange s t j := flowBack_of_emit h j cnd off k' hj hk t ht
/-- Forward edges (`brz`) of generator output. -/
example (prog : Ir.Block w) (fuse : Bool) (s : St w) (h : emitState prog fuse = .ok s) (j : Nat) (cnd off : Int)
    (k' : Nat) (hj : s.insts[j]? = some (.brz cnd off)) (hk : (j : Int) + off = (k' : Int)) (t : Nat)
    (ht : InRange s t k') : InRange s t j := flowFwd_of_emit h j cnd off k' hj hk t ht
/-- No temporary is in range at a pointer move of generator output. -/
example (prog : Ir.Block w) (fuse : Bool) (s : St w) (h : emitState prog fuse = .ok s) (t j : Nat) (ins : Instr w)
    (ht : InRange s t j) (hj : s.insts[j]? = some ins) : ptrStable ins = true := ptr_of_emit h t j ins ht hj
/-- Between a computation and the store that is its recorded first use there is only straight-line code, and no
branch lands there. -/
example (prog : Ir.Block w) (fuse : Bool) (s : St w) (h : emitState prog fuse = .ok s)
    (i : Nat) (op : BcGen.Op) (t : Nat) (s0 s1 : Loc w) (f : Nat) (m : Int) (src : Loc w)
    (hc : Cand s i op t s0 s1 f m src) :
    (∀ (j : Nat) (x : Instr w), i < j → j < f → s.insts[j]? = some x → plain x = true) ∧
    (∀ (j : Nat) (x : Instr w) (off : Int), s.insts[j]? = some x → branchOff? x = some off →
      ¬ ((i : Int) < (j : Int) + off ∧ (j : Int) + off ≤ (f : Int))) :=
  region_of_emit h i op t s0 s1 f m src hc

/-- **Generator output satisfies the precondition**, before … -/
example (prog : Ir.Block w) (fuse : Bool) (s : St w) (h : emitState prog fuse = .ok s) : AllocPre s :=
  allocPre_of_emitState h
/-- … and after `dead_store_elim`. -/
example (prog : Ir.Block w) (fuse : Bool) (s1 s2 : St w) (h1 : emitState prog fuse = .ok s1)
    (h2 : deadStoreElim s1 = .ok s2) : AllocPre s2 := allocPre_of_emit h1 h2

/-- **`allocate_temps` as used by `translateE` preserves behaviour**, for every IR program. -/
example (prog : Ir.Block w) (fuse : Bool) (numRegs : Nat) (s1 s2 s3 : St w)
    (h1 : emitState prog fuse = .ok s1) (h2 : deadStoreElim s1 = .ok s2)
    (h3 : allocateTemps numRegs s2 = .ok s3) :
    s3.insts.size = s2.insts.size ∧ s3.live.size = s3.insts.size ∧ (∀ ins ∈ s3.insts, NoMemZero ins) ∧
    (TargetsOk s2.insts → TargetsOk s3.insts) ∧
    ∀ (t t' : Nat) (mn mx : Int), BehEq (progOf s2 t mn mx) (progOf s3 t' mn mx) :=
  allocateTemps_of_emit h1 h2 h3

end pipeline

end C02
end Hpbf

#print axioms Hpbf.C02.allocateTemps_preserves
#print axioms Hpbf.C02.allocateTemps_latePre
#print axioms Hpbf.C02.Alloc.sim_step
#print axioms Hpbf.C02.Alloc.trace_of_allocateTemps
#print axioms Hpbf.C02.Alloc.trace_inv
#print axioms Hpbf.C02.Alloc.repl_stable
#print axioms Hpbf.C02.Alloc.allocPreB_sound
#print axioms Hpbf.C02.Alloc.exFlowGood_pre
#print axioms Hpbf.C02.Alloc.exWritesGood_pre
#print axioms Hpbf.C02.Alloc.exFuseGood_pre
#print axioms Hpbf.C02.Alloc.exFuseGood_out0
#print axioms Hpbf.C02.Alloc.exFuseGood_out2
#print axioms Hpbf.C02.Alloc.alloc_flow_necessary
#print axioms Hpbf.C02.Alloc.alloc_ptr_necessary
#print axioms Hpbf.C02.Alloc.alloc_writes_necessary
#print axioms Hpbf.C02.Alloc.alloc_fuse_first_use_necessary
#print axioms Hpbf.C02.Alloc.alloc_fuse_nojump_necessary
#print axioms Hpbf.C02.Alloc.alloc_firstLt_necessary
#print axioms Hpbf.C02.Alloc.exMonoBad_pre
#print axioms Hpbf.C02.Alloc.alloc_shrunk_extension_panics
#print axioms Hpbf.C02.Alloc.allocPre_of_dseLike
#print axioms Hpbf.C02.Alloc.deadStoreElim_dseLike
#print axioms Hpbf.C02.AEmit.linv_of_emit
#print axioms Hpbf.C02.AEmit.region_of_emit
#print axioms Hpbf.C02.AEmit.flowBack_of_emit
#print axioms Hpbf.C02.AEmit.flowFwd_of_emit
#print axioms Hpbf.C02.AEmit.ptr_of_emit
#print axioms Hpbf.C02.AEmit.emitRest_of_emit
#print axioms Hpbf.C02.AEmit.allocPre_of_emitState
#print axioms Hpbf.C02.AEmit.allocPre_of_emit
#print axioms Hpbf.C02.AEmit.allocateTemps_of_emit
