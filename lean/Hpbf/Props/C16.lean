/-
C16 — "The hpbf binary executes the concatenation, in order, of all code given by -f files and bare
arguments, with the cell width, backend, optimisation level, limit and static mode selected by its
flags (defaults: 8 bit, baseline JIT on x86-64, level 2), reading stdin and writing stdout as the
canonical run does. It exits 0 on success, exits 1 with a diagnostic on stderr when a parsing back end
is given unbalanced brackets or a file cannot be read, and the print options print without executing
or consuming input."

Property theorems only.  The model of `/repo/src/bin/hpbf.rs` is `Hpbf/Cli.lean` (`Cli.step` = one
iteration of the argument loop, `Cli.parseArgs` = the loop plus the two trailing diagnostics,
`Cli.action` = what `main` does afterwards).  `Hpbf/Gen/CliTable.lean` is regenerated from the Rust
source on every check run.  Specification vocabulary and lemmas are in `Hpbf/Proofs/C16.lean`.

Scope.  This file is about the front end: which code, which executor and which options are handed to
`execute_code`, what is written to stderr by the argument loop, and the dispatch on help / file error /
print / execute.  That the selected executor then behaves as the canonical run (stdin, stdout, bracket
errors of the parsing back ends) is the subject of the executor properties (C01, C05 …); the model only
records which kinds parse up front (`Cli.parses`) and the text of the two bracket diagnostics
(`Cli.bracketDiag`), see §6.

Vocabulary (all from `Hpbf/Proofs/C16.lean`, none of it mentions `Cli.step`):
* `Role := flag | fileOperand | limitOperand | code`
* `flagNames`   the 27 strings recognised as options (keys of the three tables, help flags, file flags,
                `--limit`, `--static`, `--time`); `isFlag a := flagNames.contains a`,
                `isFileFlag a := Cli.fileFlags.contains a`, `isLimitFlag a := a == "--limit"`,
                `plainRole a := if isFlag a then .flag else .code`
* `roles`       by structural recursion looking one argument ahead (defining equations restated in §2)
* `tagged args := args.zip (roles args)`; `sel r l` = the arguments of `l` with role `r`, in order;
  `flagArgs`, `fileOperands`, `limitOperands`, `codeArgs` = `sel _ (tagged args)`
* `contrib fs args := (tagged args).flatMap (contrib1 fs)`, where `contrib1` is `[a]` for `(a, code)`,
  `[content]` for `(a, fileOperand)` with `fs a = .ok content`, `[]` otherwise
* `lastOf table dflt l := l.foldl (fun acc a => (table.lookup a).getD acc) dflt`
* `lastLimit ops := (ops.filterMap Cli.parseUsize).getLast?`
* `diagnostics fs args := (tagged args).flatMap (diag1 fs) ++ trailing args`
-/
import Hpbf.Proofs.C16

namespace Hpbf.C16
open Hpbf Hpbf.Cli

/-! ## 1. The tables and defaults of the model are those of the source -/

/-- The option tables of the model are the ones the translator extracts from `hpbf.rs`.  Proved by
evaluation: a regenerated, different table breaks this theorem. -/
theorem table_matches_source :
    Cli.kindFlags = Gen.kindFlags ∧ Cli.optFlags = Gen.optFlags ∧ Cli.bitsFlags = Gen.bitsFlags ∧
    Cli.helpFlags = Gen.helpFlags ∧ Cli.fileFlags = Gen.fileFlags := by
  decide

theorem defaults_match_source :
    ({} : Cli.Cfg).bits = Gen.defaultBits ∧ ({} : Cli.Cfg).opt = Gen.defaultOpt ∧
    ({} : Cli.Cfg).kind = Gen.defaultKind ∧ ({} : Cli.Cfg).safe = Gen.defaultSafe := by
  decide

/-- The only two `exit(..)` calls in the source. -/
theorem exit_codes_in_source : Gen.exitCodes = [1, 0] := by decide

theorem bits_table : Cli.bitsFlags = [("-i8", 8), ("-i16", 16), ("-i32", 32), ("-i64", 64)] := rfl

theorem opt_table :
    Cli.optFlags = [("-O0", 0), ("-O1", 1), ("-O2", 2), ("-O3", 3), ("-O4", 4), ("-O5", 5)] := rfl

theorem kind_table :
    Cli.kindFlags =
      [("--print-ir", .printIr), ("--print-bc", .printBc), ("--print-jit-bc", .printBc2),
       ("--inplace", .inplace), ("--ir-int", .irInt), ("--bc-int", .bcInt),
       ("--print-jit-mc", .printMc), ("--base-jit", .baseJit)] := rfl

theorem help_file_tables :
    Cli.helpFlags = ["-h", "-help", "--help"] ∧ Cli.fileFlags = ["-f", "-file", "--file"] :=
  ⟨rfl, rfl⟩

/-- Defaults: 8 bit, baseline JIT, level 2, bounds checked, no limit, nothing to run. -/
theorem defaults :
    ({} : Cli.Cfg).bits = 8 ∧ ({} : Cli.Cfg).kind = .baseJit ∧ ({} : Cli.Cfg).opt = 2 ∧
    ({} : Cli.Cfg).safe = true ∧ ({} : Cli.Cfg).limit = none ∧ ({} : Cli.Cfg).code = "" :=
  ⟨rfl, rfl, rfl, rfl, rfl, rfl⟩

/-- Without arguments the configuration is the default one. -/
theorem no_args (fs : String → FileRes) : Cli.parseArgs fs [] = {} := rfl

/-- The 27 option strings, spelled out. -/
theorem flagNames_eq :
    flagNames =
      ["--print-ir", "--print-bc", "--print-jit-bc", "--inplace", "--ir-int", "--bc-int",
       "--print-jit-mc", "--base-jit", "-O0", "-O1", "-O2", "-O3", "-O4", "-O5",
       "-i8", "-i16", "-i32", "-i64", "-h", "-help", "--help", "-f", "-file", "--file",
       "--limit", "--static", "--time"] := by
  decide

/-- No string is in two tables, so the order of the `match` arms in the source is immaterial. -/
theorem flag_tables_disjoint : flagNames.Nodup := flagNames_nodup

/-! ## 2. The argument grammar -/

theorem roles_nil : roles [] = [] := rfl

theorem roles_single (a : String) : roles [a] = [if isFlag a then .flag else .code] := rfl

/-- Whatever follows a file flag is a file name, even if it looks like a flag. -/
theorem roles_file (a b : String) (rest : List String) (h : a ∈ Cli.fileFlags) :
    roles (a :: b :: rest) = .flag :: .fileOperand :: roles rest := by
  simp [roles, isFileFlag, h]

/-- Whatever follows `--limit` is the limit operand. -/
theorem roles_limit (b : String) (rest : List String) :
    roles ("--limit" :: b :: rest) = .flag :: .limitOperand :: roles rest := by
  have h1 : isFileFlag "--limit" = false := by decide
  have h2 : isLimitFlag "--limit" = true := by decide
  simp [roles, h1, h2]

/-- Any other known option is a flag; anything else, including `-O9` or `-x`, is code. -/
theorem roles_plain (a : String) (rest : List String) (h1 : a ∉ Cli.fileFlags) (h2 : a ≠ "--limit") :
    roles (a :: rest) = (if a ∈ flagNames then .flag else .code) :: roles rest := by
  cases rest with
  | nil => simp [roles, plainRole, isFlag]
  | cons b rest => simp [roles, isFileFlag, isLimitFlag, h1, h2, plainRole, isFlag]

theorem roles_length (args : List String) : (roles args).length = args.length :=
  roles_length_aux args

example : isFlag "-O9" = false ∧ isFlag "-x" = false ∧ isFlag "-O5" = true := by decide

/-- The executed code is the concatenation, in order, of the `-f` file contents and the bare
arguments. -/
theorem code_is_concat (fs : String → FileRes) (args : List String) :
    (Cli.parseArgs fs args).code = String.join (contrib fs args) := by
  rw [(parseArgs_fields fs args).2.2.2.2.2.2.2.2.1, loop_eq, fold_code]
  rfl

/-! ## 3. The last flag of each family wins -/

/-- `lastOf` picks the value of the last element that is in the table. -/
theorem lastOf_is_last {α : Type} (table : List (String × α)) (dflt : α) (l : List String) :
    lastOf table dflt l = ((l.filterMap (table.lookup ·)).getLast?).getD dflt :=
  lastOf_eq_getLast table dflt l

theorem last_flag_wins (fs : String → FileRes) (args : List String) :
    (Cli.parseArgs fs args).kind = lastOf Cli.kindFlags .baseJit (flagArgs args) ∧
    (Cli.parseArgs fs args).opt = lastOf Cli.optFlags 2 (flagArgs args) ∧
    (Cli.parseArgs fs args).bits = lastOf Cli.bitsFlags 8 (flagArgs args) := by
  obtain ⟨hb, -, hk, ho, -⟩ := parseArgs_fields fs args
  rw [hb, hk, ho, loop_eq, fold_kind, fold_opt, fold_bits]
  exact ⟨rfl, rfl, rfl⟩

/-- The limit is the last limit operand that parses as a `usize`; operands that do not parse are
ignored (with a diagnostic, see `stderr_spec`). -/
theorem limit_spec (fs : String → FileRes) (args : List String) :
    (Cli.parseArgs fs args).limit = lastLimit (limitOperands args) := by
  rw [(parseArgs_fields fs args).2.2.2.2.1, loop_eq, fold_limit]
  rfl

theorem safe_spec (fs : String → FileRes) (args : List String) :
    (Cli.parseArgs fs args).safe = false ↔ "--static" ∈ flagArgs args := by
  rw [(parseArgs_fields fs args).2.2.2.2.2.1, loop_eq, fold_safe]
  simp [flagArgs]

theorem help_spec (fs : String → FileRes) (args : List String) :
    (Cli.parseArgs fs args).printHelp = true ↔ ∃ a ∈ flagArgs args, a ∈ Cli.helpFlags := by
  rw [(parseArgs_fields fs args).2.1, loop_eq, fold_printHelp]
  simp [flagArgs]

theorem time_spec (fs : String → FileRes) (args : List String) :
    (Cli.parseArgs fs args).time = true ↔ "--time" ∈ flagArgs args := by
  rw [(parseArgs_fields fs args).2.2.2.2.2.2.2.1, loop_eq, fold_time]
  simp [flagArgs]

/-! ## 4. File errors and diagnostics -/

theorem hasError_iff (fs : String → FileRes) (args : List String) :
    (Cli.parseArgs fs args).hasError = true ↔
      ∃ a ∈ fileOperands args, ∀ content, fs a ≠ .ok content := by
  rw [(parseArgs_fields fs args).2.2.2.2.2.2.1, loop_eq, fold_hasError]
  simp only [List.any_eq_true, fileOperands]
  constructor
  · rintro ⟨a, ha, hf⟩
    refine ⟨a, ha, fun content hc => ?_⟩
    simp [fileFails, hc] at hf
  · rintro ⟨a, ha, hf⟩
    refine ⟨a, ha, ?_⟩
    unfold fileFails
    cases h : fs a with
    | ok content => exact absurd h (hf content)
    | openFailed => rfl
    | notUtf8 => rfl

/-- The defining equations of `diagnostics`. -/
theorem diagnostics_def (fs : String → FileRes) (args : List String) :
    diagnostics fs args =
      ((args.zip (roles args)).flatMap fun
        | (a, .fileOperand) => match fs a with
          | .ok _ => []
          | .notUtf8 => ["error: failed to read file `" ++ a ++ "`"]
          | .openFailed => ["error: failed to open file `" ++ a ++ "`"]
        | (a, .limitOperand) => match Cli.parseUsize a with
          | some _ => []
          | none => [a ++ ": ignoring invalid limit"]
        | _ => []) ++
      (match (args.zip (roles args)).getLast? with
        | some (a, .flag) =>
          if a ∈ Cli.fileFlags then ["--file: ignoring missing file"]
          else if a = "--limit" then ["--limit: ignoring missing limit"]
          else []
        | _ => []) := by
  unfold diagnostics trailing tagged
  refine congr (congrArg HAppend.hAppend ?_) ?_
  · refine congrArg (fun f => List.flatMap f (args.zip (roles args))) ?_
    funext x
    obtain ⟨a, r⟩ := x
    cases r <;> rfl
  · generalize (args.zip (roles args)).getLast? = x
    rcases x with _ | ⟨a, r⟩
    · rfl
    · cases r <;> simp [isFileFlag, isLimitFlag]

/-- Everything the argument loop writes to stderr: every unreadable file contributes exactly its
message, every unparsable limit `<arg>: ignoring invalid limit`, in argument order, followed by the
diagnostic for a trailing `-f` / `--limit` without operand. -/
theorem stderr_spec (fs : String → FileRes) (args : List String) :
    (Cli.parseArgs fs args).stderr = diagnostics fs args := by
  rw [(parseArgs_fields fs args).2.2.2.2.2.2.2.2.2, loop_eq, fold_stderr,
    (fold_next fs (tagged args)).1, (fold_next fs (tagged args)).2]
  unfold diagnostics trailing
  rw [List.append_assoc]
  congr 1
  split
  · rename_i a _
    by_cases h : isFileFlag a = true
    · simp [h, isFileFlag_not_limit h]
    · simp [h]
  · simp

/-! ## 5. Exit status and dispatch -/

theorem action_spec (c : Cli.Cfg) :
    (c.printHelp = true → Cli.action c = .help (if c.hasError then 1 else 0)) ∧
    (c.printHelp = false → c.hasError = true → Cli.action c = .nothing 1) ∧
    (c.printHelp = false → c.hasError = false → Cli.isPrint c.kind = true →
      Cli.action c = .print c.kind) ∧
    (c.printHelp = false → c.hasError = false → Cli.isPrint c.kind = false →
      Cli.action c = .exec c.kind c.bits c.opt c.limit c.safe) := by
  refine ⟨?_, ?_, ?_, ?_⟩ <;> intros <;> simp_all [Cli.action]

theorem print_kinds_do_not_execute (c : Cli.Cfg) (h : Cli.isPrint c.kind = true) :
    ∀ k b o l s, Cli.action c ≠ .exec k b o l s := by
  intro k b o l s
  unfold Cli.action
  rw [if_pos h]
  split
  · simp
  · split <;> simp

theorem isPrint_iff (k : Cli.Kind) :
    Cli.isPrint k = true ↔ k = .printIr ∨ k = .printBc ∨ k = .printBc2 ∨ k = .printMc := by
  cases k <;> simp [Cli.isPrint]

/-- Help and file errors never execute or print anything either. -/
theorem help_or_error_does_nothing (c : Cli.Cfg) (h : c.printHelp = true ∨ c.hasError = true) :
    (∀ k b o l s, Cli.action c ≠ .exec k b o l s) ∧ (∀ k, Cli.action c ≠ .print k) := by
  unfold Cli.action
  rcases h with h | h
  · simp [h]
  · cases c.printHelp <;> simp [h]

/-- Every exit code the dispatch produces before running an executor is one of the two `exit(..)`
calls of the source, and it is 1 exactly when a file could not be read. -/
theorem action_exit_codes (c : Cli.Cfg) (n : Nat)
    (h : Cli.action c = .help n ∨ Cli.action c = .nothing n) :
    n ∈ Gen.exitCodes ∧ (n = 1 ↔ c.hasError = true) ∧ (n = 0 ↔ c.hasError = false) := by
  unfold Cli.action at h
  by_cases hp : c.printHelp = true
  · simp only [hp, if_true] at h
    cases he : c.hasError <;> simp [he] at h <;> subst h <;> simp [Gen.exitCodes]
  · rw [if_neg hp] at h
    by_cases he : c.hasError = true
    · simp [he] at h
      subst h
      simp [Gen.exitCodes, he]
    · rw [if_neg he] at h
      split at h <;> simp at h

/-- End to end: with no help flag and every named file readable, the front end hands exactly the
concatenated code to exactly the selected executor with the selected options; a print kind prints
and runs nothing. -/
theorem dispatch_spec (fs : String → FileRes) (args : List String)
    (hh : ∀ a ∈ flagArgs args, a ∉ Cli.helpFlags)
    (hf : ∀ a ∈ fileOperands args, ∃ content, fs a = .ok content) :
    let k := lastOf Cli.kindFlags .baseJit (flagArgs args)
    (Cli.parseArgs fs args).code = String.join (contrib fs args) ∧
    Cli.action (Cli.parseArgs fs args) =
      if Cli.isPrint k then .print k
      else .exec k (lastOf Cli.bitsFlags 8 (flagArgs args)) (lastOf Cli.optFlags 2 (flagArgs args))
        (lastLimit (limitOperands args)) (!(flagArgs args).contains "--static") := by
  intro k
  refine ⟨code_is_concat fs args, ?_⟩
  have h1 : (Cli.parseArgs fs args).printHelp = false := by
    cases h : (Cli.parseArgs fs args).printHelp
    · rfl
    · obtain ⟨a, ha, ha'⟩ := (help_spec fs args).1 h
      exact absurd ha' (hh a ha)
  have h2 : (Cli.parseArgs fs args).hasError = false := by
    cases h : (Cli.parseArgs fs args).hasError
    · rfl
    · obtain ⟨a, ha, ha'⟩ := (hasError_iff fs args).1 h
      obtain ⟨content, hc⟩ := hf a ha
      exact absurd hc (ha' content)
  obtain ⟨hk, ho, hb⟩ := last_flag_wins fs args
  have hs : (Cli.parseArgs fs args).safe = !(flagArgs args).contains "--static" := by
    cases h : (flagArgs args).contains "--static"
    · cases h' : (Cli.parseArgs fs args).safe
      · have := (safe_spec fs args).1 h'
        simp_all
      · rfl
    · have : "--static" ∈ flagArgs args := by simpa using h
      simpa using (safe_spec fs args).2 this
  simp only [Cli.action, h1, h2, hk, ho, hb, hs, limit_spec, k]
  simp

/-- A file that cannot be read: nothing runs, exit status 1 (or the help text with status 1), and the
diagnostic is on stderr. -/
theorem file_error_spec (fs : String → FileRes) (args : List String) (a : String)
    (ha : a ∈ fileOperands args) (hf : ∀ content, fs a ≠ .ok content) :
    (Cli.action (Cli.parseArgs fs args) = .nothing 1 ∨ Cli.action (Cli.parseArgs fs args) = .help 1) ∧
    (("error: failed to open file `" ++ a ++ "`") ∈ (Cli.parseArgs fs args).stderr ∨
     ("error: failed to read file `" ++ a ++ "`") ∈ (Cli.parseArgs fs args).stderr) := by
  have he : (Cli.parseArgs fs args).hasError = true := (hasError_iff fs args).2 ⟨a, ha, hf⟩
  constructor
  · cases hp : (Cli.parseArgs fs args).printHelp <;> simp [Cli.action, hp, he]
  · rw [stderr_spec]
    simp only [fileOperands, sel, List.mem_map, List.mem_filter] at ha
    obtain ⟨⟨a', r⟩, ⟨hm, hr⟩, rfl⟩ := ha
    simp only [decide_eq_true_eq] at hr
    subst hr
    simp only [diagnostics, List.mem_append, List.mem_flatMap]
    cases h : fs a' with
    | ok content => exact absurd h (hf content)
    | openFailed => exact Or.inl (Or.inl ⟨_, hm, by simp [diag1, h]⟩)
    | notUtf8 => exact Or.inr (Or.inl ⟨_, hm, by simp [diag1, h]⟩)

/-! ## 6. What the model records about bracket errors -/

/-- Every kind except the in-place interpreter parses the source up front. -/
theorem parses_iff (k : Cli.Kind) : Cli.parses k = true ↔ k ≠ .inplace := by
  cases k <;> simp [Cli.parses]

theorem bracketDiag_text :
    Cli.bracketDiag true = "error: unbalances brackets, loop not closed" ∧
    Cli.bracketDiag false = "error: unbalanced brackets, loop not opened" :=
  ⟨rfl, rfl⟩

/-! ## 7. Concrete argument lists -/

section examples

/-- A file system with a single readable file, perversely named `-i8`, and one that is not UTF-8. -/
def fsEx : String → FileRes := fun p =>
  if p = "-i8" then .ok ",[.,]" else if p = "bin" then .notUtf8 else .openFailed

def argsEx : List String := ["-i16", "-f", "-i8", "+.", "--limit", "x", "-O1", "-O3"]

example : roles argsEx = [.flag, .flag, .fileOperand, .code, .flag, .limitOperand, .flag, .flag] := by
  decide

example : flagArgs argsEx = ["-i16", "-f", "--limit", "-O1", "-O3"] ∧
    fileOperands argsEx = ["-i8"] ∧ limitOperands argsEx = ["x"] ∧ codeArgs argsEx = ["+."] := by
  decide

example : contrib fsEx argsEx = [",[.,]", "+."] := by decide

/-- `parseUsize` does not reduce in the kernel (it goes through `String.Slice` iterators), so the
configuration for `argsEx` (which contains `--limit x`) is computed by rewriting; the spec-side
quantities above are computed by `decide`. -/
theorem parseUsize_x : Cli.parseUsize "x" = none := by simp [Cli.parseUsize]

example : (Cli.parseArgs fsEx argsEx).code = ",[.,]+." := by
  rw [code_is_concat]; decide

example : (Cli.parseArgs fsEx argsEx).bits = 16 ∧ (Cli.parseArgs fsEx argsEx).opt = 3 ∧
    (Cli.parseArgs fsEx argsEx).kind = .baseJit := by
  obtain ⟨hk, ho, hb⟩ := last_flag_wins fsEx argsEx
  rw [hk, ho, hb]; decide

example : lastOf Cli.optFlags 2 (flagArgs argsEx) = 3 ∧ lastOf Cli.bitsFlags 8 (flagArgs argsEx) = 16 := by
  decide

example : diagnostics fsEx argsEx = ["x: ignoring invalid limit"] := by
  have hr : tagged argsEx =
      [("-i16", .flag), ("-f", .flag), ("-i8", .fileOperand), ("+.", .code), ("--limit", .flag),
       ("x", .limitOperand), ("-O1", .flag), ("-O3", .flag)] := by decide
  have hf : fsEx "-i8" = .ok ",[.,]" := by decide
  have h3 : isFileFlag "-O3" = false ∧ isLimitFlag "-O3" = false := by decide
  simp [diagnostics, trailing, hr, diag1, parseUsize_x, hf, h3]

/-- The whole configuration, directly from the model (not through the specification). -/
example : Cli.parseArgs fsEx argsEx =
    { bits := 16, opt := 3, code := ",[.,]+.", stderr := ["x: ignoring invalid limit"] } := by
  have hf : fsEx "-i8" = .ok ",[.,]" := by decide
  simp [Cli.parseArgs, argsEx, Cli.step, Cli.kindFlags, Cli.optFlags, Cli.bitsFlags, Cli.helpFlags,
    Cli.fileFlags, List.lookup, parseUsize_x, hf]

example : Cli.action (Cli.parseArgs fsEx argsEx) = .exec .baseJit 16 3 none true := by
  have : Cli.parseArgs fsEx argsEx =
      { bits := 16, opt := 3, code := ",[.,]+.", stderr := ["x: ignoring invalid limit"] } := by
    have hf : fsEx "-i8" = .ok ",[.,]" := by decide
    simp [Cli.parseArgs, argsEx, Cli.step, Cli.kindFlags, Cli.optFlags, Cli.bitsFlags, Cli.helpFlags,
      Cli.fileFlags, List.lookup, parseUsize_x, hf]
  rw [this]; decide

/-- Unreadable files, a help flag, unknown options as code, a trailing `-f`: everything by kernel
evaluation of the model. -/
def argsEx2 : List String := ["--bc-int", "-f", "gone", "-O9", "--file", "bin", "-x", "--static", "-f"]

example : Cli.parseArgs fsEx argsEx2 =
    { kind := .bcInt, safe := false, hasError := true, nextIsFile := true, code := "-O9-x",
      stderr := ["error: failed to open file `gone`", "error: failed to read file `bin`",
                 "--file: ignoring missing file"] } := by
  decide

example : roles argsEx2 =
    [.flag, .flag, .fileOperand, .code, .flag, .fileOperand, .code, .flag, .flag] := by decide

example : diagnostics fsEx argsEx2 =
    ["error: failed to open file `gone`", "error: failed to read file `bin`",
     "--file: ignoring missing file"] := by decide

example : Cli.action (Cli.parseArgs fsEx argsEx2) = .nothing 1 := by decide
example : Cli.action (Cli.parseArgs fsEx ("-h" :: argsEx2)) = .help 1 := by decide
example : Cli.action (Cli.parseArgs fsEx ["--help", "+"]) = .help 0 := by decide
example : Cli.action (Cli.parseArgs fsEx ["--print-ir", "-i32", "+", "--print-bc"]) = .print .printBc := by
  decide
example : Cli.action (Cli.parseArgs fsEx ["-i64", "--inplace", "-O0", ",.", "--static"]) =
    .exec .inplace 64 0 none false := by decide
/-- A trailing `--limit`. -/
example : (Cli.parseArgs fsEx ["+", "--limit"]).stderr = ["--limit: ignoring missing limit"] := by decide

end examples

/-! ## Axioms -/

#print axioms table_matches_source
#print axioms defaults_match_source
#print axioms exit_codes_in_source
#print axioms bits_table
#print axioms opt_table
#print axioms kind_table
#print axioms defaults
#print axioms flagNames_eq
#print axioms flag_tables_disjoint
#print axioms roles_file
#print axioms roles_limit
#print axioms roles_plain
#print axioms roles_length
#print axioms code_is_concat
#print axioms lastOf_is_last
#print axioms last_flag_wins
#print axioms limit_spec
#print axioms safe_spec
#print axioms help_spec
#print axioms time_spec
#print axioms hasError_iff
#print axioms diagnostics_def
#print axioms stderr_spec
#print axioms action_spec
#print axioms print_kinds_do_not_execute
#print axioms help_or_error_does_nothing
#print axioms action_exit_codes
#print axioms dispatch_spec
#print axioms file_error_spec
#print axioms parses_iff
#print axioms isPrint_iff
#print axioms no_args
#print axioms help_file_tables
#print axioms bracketDiag_text

end Hpbf.C16
