/-
Property C01 (part: the optimiser's REBUILD ROUND, `src/opt.rs` `OptRebuild`, `Program::optimize_once`,
`Program::optimize`; model `Hpbf/Opt.lean`, an exact port tied to the Rust on ~290 000 programs).

The optimizer re-executes the IR symbolically (`written` / `pending` / `reverse` maps) and emits a new IR.  The
hash-iteration orders the Rust uses are an ORACLE argument (`orders`): every theorem holds for EVERY oracle for
which the function returns `.ok`.

What is preserved is the OBSERVABLE BEHAVIOUR (`BehEq`): terminating runs correspond in both directions (same
kind of ending, same events, same environment), and runs that are cut off by the fuel have the same events.  The
final TAPE and POINTER are not preserved (pending operations at the end of the program are dropped,
`Program { shift: 0 }`): see `tape_not_preserved`.

STAGE 1: blocks without `loop` / `ifnz`.
* `optimizeOnce_straightline` : one round, any previous analysis, any oracle.
* `optimize_straightline_level1` : `Opt.optimize b 1 orders = .ok b'`.

STAGES 2-3: ALL blocks, one round started WITHOUT previous analysis (`topAnalysis [] []`), which is what
`Program::optimize` does first and all it does at level 1.  Hypotheses: the cell width is not `0`, and the
right-hand sides of the source block are in normal form (`CanonL`), which holds for the parser's output
(`parse_canonL'`) and for the optimizer's own output (`optimizeOnce_canonL'`).
* `optimizeOnce_preserves_level1`, `optimize_preserves_level1` : same observable behaviour.
* `optimizeOnce_onceOk_level1`, `optimize_onceOk_level1` : the `once` marks the optimizer puts on loops
  (`Loop { at_least_once }`, which the emitters turn into do-while loops) are justified: no run of the emitted
  block reaches a marked loop with a zero condition cell (`C02Emit.OnceOk`, the hypothesis of the emitter proofs).
* `optimize_parse_level1` : both, from Brainfuck source.
This covers nesting, `loop_or_if` (shifting and non-shifting children), `inline`, `loop_inside_if` (with the
`cond := 0` shortcut), the wrapping `if`, `analyze_loop`, `constants_among`, `linear_among`, `loop_motion`
(through the loop pack `Props/C01Loop.lean`, `Props/C01LoopH.lean`).
NOT yet covered (stage 4): rounds 2 and 3 (levels 2 and 3), where the round uses the analysis of the previous
round and is preceded by dead store elimination.

FINDINGS of the proof (both confirmed on the binary from Brainfuck source, fixed in /repo and in the port):
* F11: `loop_or_if` skipped the cells that the loop body writes but that `constants_among` had classified as
  constant: pending operations of the parent on such a cell were neither emitted nor dropped although the emitted
  loop overwrites the cell (all levels ≥ 1).
* F12: completion of F11: the cell has to be emitted AND read (`emit(var); read(var)`), otherwise a grandparent
  that knows the cell as a constant keeps forwarding the old value (levels 2, 3).

The proofs are in `Hpbf/Proofs/OptRb*.lean` (map: `Hpbf/Proofs/OptRb.README.md`).
-/
import Hpbf.Proofs.OptRbEx
import Hpbf.Proofs.OptRbTop1

namespace Hpbf
namespace OptProof
open Opt OptSem Ir

variable {w : Nat}

/-! ### vocabulary (transparent) -/

example (b b' : Block w) (env : Env) : BehEq b b' env ↔
    ((∀ f c, Ir.run b false 0 f env = .done c → ∃ f' c', Ir.run b' false 0 f' env = .done c' ∧
      c'.st.trace = c.st.trace ∧ c'.st.env = c.st.env) ∧
    (∀ f c, Ir.run b false 0 f env = .stopped c → ∃ f' c', Ir.run b' false 0 f' env = .stopped c' ∧
      c'.st.trace = c.st.trace ∧ c'.st.env = c.st.env) ∧
    (∀ f' c', Ir.run b' false 0 f' env = .done c' → ∃ f c, Ir.run b false 0 f env = .done c ∧
      c'.st.trace = c.st.trace ∧ c'.st.env = c.st.env) ∧
    (∀ f' c', Ir.run b' false 0 f' env = .stopped c' → ∃ f c, Ir.run b false 0 f env = .stopped c ∧
      c'.st.trace = c.st.trace ∧ c'.st.env = c.st.env) ∧
    (∀ f', ∃ f, C01.traceOf (Ir.run b false 0 f env) = C01.traceOf (Ir.run b' false 0 f' env)) ∧
    (∀ f, ∃ f', C01.traceOf (Ir.run b' false 0 f' env) = C01.traceOf (Ir.run b false 0 f env))) := Iff.rfl

example (b : Block w) : StraightLine b ↔ ∀ i ∈ b.insts, C01Dse.isBlock i = false := Iff.rfl

/-! ### stage 1: blocks without `loop` / `ifnz` -/

/-- One optimizer round (`Program::optimize_once`) on a block without `loop` / `ifnz`: for every previous
analysis, every oracle and every environment, the emitted block has the same observable behaviour. -/
theorem optimizeOnce_straightline {b : Block w} (hb : StraightLine b) (prevAnal : OptAnalysis w)
    {os os' : Orders} {b' : Block w} {anal' : OptAnalysis w}
    (hr : (optimizeOnce b prevAnal).run os = .ok ((b', anal'), os')) (env : Env) : BehEq b b' env :=
  rebuild_straightline hb prevAnal hr env

/-- `Program::optimize` at level 1 on a block without `loop` / `ifnz`. -/
theorem optimize_straightline_level1 {b b' : Block w} (hb : StraightLine b) {orders : Orders}
    (h : Opt.optimize b 1 orders = .ok b') (env : Env) : BehEq b b' env := by
  rw [optimize_ok_iff, optimizeM_one_ok] at h
  obtain ⟨anal, h⟩ := h
  exact rebuild_straightline hb _ h env

/-! ### stages 2-3: all blocks, first round (level 1) -/

/-- The normal-form hypothesis holds for everything the parser produces … -/
theorem parse_canonL' {src : List Kind} {b : Block w} (h : Ir.parse (w := w) src = .ok b) : CanonL b.insts :=
  parse_canonL h

/-- … and for everything the optimizer produces from such a block. -/
theorem optimizeOnce_canonL' {b : Block w} {prevAnal : OptAnalysis w} {os os' : Orders} {b' : Block w}
    {anal' : OptAnalysis w} (hr : (optimizeOnce b prevAnal).run os = .ok ((b', anal'), os'))
    (hcl : CanonL b.insts) : CanonL b'.insts :=
  optimizeOnce_canonL hr hcl

/-- One optimizer round started without previous analysis: same observable behaviour, for every oracle and
every environment. -/
theorem optimizeOnce_preserves_level1 (hw : 0 < w) {b : Block w} (hcl : CanonL b.insts)
    {os os' : Orders} {b' : Block w} {anal' : OptAnalysis w}
    (hr : (optimizeOnce b (topAnalysis [] [])).run os = .ok ((b', anal'), os')) (env : Env) :
    BehEq b b' env :=
  optimizeOnce_preserves_l1 hw hcl hr env

/-- … and the `once` marks of the emitted loops are justified. -/
theorem optimizeOnce_onceOk_level1 (hw : 0 < w) {b : Block w} (hcl : CanonL b.insts)
    {os os' : Orders} {b' : Block w} {anal' : OptAnalysis w}
    (hr : (optimizeOnce b (topAnalysis [] [])).run os = .ok ((b', anal'), os')) (env : Env) :
    C02Emit.OnceOk b' env :=
  optimizeOnce_onceOk_l1 hw hcl hr env

/-- `Program::optimize` at level 1. -/
theorem optimize_preserves_level1' (hw : 0 < w) {b b' : Block w} (hcl : CanonL b.insts) {orders : Orders}
    (h : Opt.optimize b 1 orders = .ok b') (env : Env) : BehEq b b' env :=
  optimize_preserves_level1 hw hcl h env

theorem optimize_onceOk_level1' (hw : 0 < w) {b b' : Block w} (hcl : CanonL b.insts) {orders : Orders}
    (h : Opt.optimize b 1 orders = .ok b') (env : Env) : C02Emit.OnceOk b' env :=
  optimize_onceOk_level1 hw hcl h env

/-- From Brainfuck source: parse, then optimize at level 1. -/
theorem optimize_parse_level1 (hw : 0 < w) {src : List Kind} {b b' : Block w}
    (hp : Ir.parse (w := w) src = .ok b) {orders : Orders} (h : Opt.optimize b 1 orders = .ok b')
    (env : Env) : BehEq b b' env ∧ C02Emit.OnceOk b' env :=
  ⟨optimize_preserves_level1 hw (parse_canonL hp) h env, optimize_onceOk_level1 hw (parse_canonL hp) h env⟩

/-! ### the hypotheses are satisfiable -/

section Examples

/-- `+>,<.>+.<+.` -/
def exSrc : List Kind := [.inc, .right, .inp, .left, .out, .right, .inc, .out, .left, .inc, .out]

def exB : Block 8 :=
  { shift := 0,
    insts := [.input 1, .calc [(0, [⟨1#8, []⟩, ⟨1#8, [0]⟩])], .output 0,
              .calc [(1, [⟨1#8, []⟩, ⟨1#8, [1]⟩])], .output 1,
              .calc [(0, [⟨1#8, []⟩, ⟨1#8, [0]⟩])], .output 0] }

/-- The optimizer has folded the constants: cell 0 is known to be 1, then 2. -/
def exB' : Block 8 :=
  { shift := 0,
    insts := [.input 1, .calc [(0, [⟨1#8, []⟩])], .output 0,
              .calc [(1, [⟨1#8, []⟩, ⟨1#8, [1]⟩])], .output 1,
              .calc [(0, [⟨2#8, []⟩])], .output 0] }

def envAB : Env := { input := some [.byte 65, .byte 66, .eof], sink := true, outOk := none }

instance (b : Block w) : Decidable (StraightLine b) := by
  unfold StraightLine StraightL; infer_instance

example : Ir.parse (w := 8) exSrc = .ok exB := parse_of_check (by decide +kernel)
example : StraightLine exB := by decide
example : Opt.optimize exB 1 [] = .ok exB' := optimize_of_check (by decide +kernel)
example : BehEq exB exB' envAB :=
  optimize_straightline_level1 (orders := []) (by decide) (optimize_of_check (by decide +kernel)) _
example : C01.traceOf (Ir.run exB false 0 20 envAB) = [.out 2, .out 66, .out 1, .inp 65] := by decide
example : C01.traceOf (Ir.run exB' false 0 20 envAB) = [.out 2, .out 66, .out 1, .inp 65] := by decide

/-- `,[->++<]>.` : the multiplication loop is replaced by `x1 := 2 * x0` (loop motion, then the `cond := 0`
shortcut; the final `x0 := 0` stays pending and is dropped). -/
def exMulSrc : List Kind := [.inp, .open, .dec, .right, .inc, .inc, .left, .close, .right, .out]

def exMul : Block 8 :=
  { shift := 1,
    insts := [.input 0,
      .loop 0 0 [.calc [(0, [⟨0xff#8, []⟩, ⟨1#8, [0]⟩])], .calc [(1, [⟨2#8, []⟩, ⟨1#8, [1]⟩])]] false,
      .output 1] }

def exMul' : Block 8 :=
  { shift := 0, insts := [.input 0, .calc [(1, [⟨2#8, [0]⟩])], .output 1] }

example : Ir.parse (w := 8) exMulSrc = .ok exMul := parse_of_check (by decide +kernel)
example : Opt.optimize exMul 1 [] = .ok exMul' := optimize_of_check (by decide +kernel)
example : BehEq exMul exMul' envAB ∧ C02Emit.OnceOk exMul' envAB :=
  optimize_parse_level1 (by decide) (src := exMulSrc) (parse_of_check (by decide +kernel)) (orders := [])
    (optimize_of_check (by decide +kernel)) _
example : C01.traceOf (Ir.run exMul false 0 400 envAB) = [.out 130, .inp 65] := by decide +kernel
example : C01.traceOf (Ir.run exMul' false 0 400 envAB) = [.out 130, .inp 65] := by decide +kernel

/-- The final tape is NOT preserved: the source program ends with `x0 = 0`, the optimized one with `x0 = 65`. -/
theorem tape_not_preserved : ∃ (b b' : Block 8) (env : Env) (c c' : Cfg 8),
    Opt.optimize b 1 [] = .ok b' ∧ Ir.run b false 0 400 env = .done c ∧ Ir.run b' false 0 400 env = .done c' ∧
    c.st.tape.get 0 = 0#8 ∧ c'.st.tape.get 0 = 65#8 := by
  cases h : Ir.run exMul false 0 400 envAB with
  | done c =>
    cases h' : Ir.run exMul' false 0 400 envAB with
    | done c' =>
      refine ⟨exMul, exMul', envAB, c, c', optimize_of_check (by decide +kernel), h, h', ?_, ?_⟩
      · have : (match Ir.run exMul false 0 400 envAB with | .done c => c.st.tape.get 0 | _ => 1#8) = 0#8 := by
          decide +kernel
        rw [h] at this; exact this
      · have : (match Ir.run exMul' false 0 400 envAB with | .done c => c.st.tape.get 0 | _ => 1#8) = 65#8 := by
          decide +kernel
        rw [h'] at this; exact this
    | stopped c' =>
      have : (match Ir.run exMul' false 0 400 envAB with | .done _ => true | _ => false) = true := by
        decide +kernel
      rw [h'] at this; cases this
    | interrupted c' =>
      have : (match Ir.run exMul' false 0 400 envAB with | .done _ => true | _ => false) = true := by
        decide +kernel
      rw [h'] at this; cases this
    | outOfFuel c' =>
      have : (match Ir.run exMul' false 0 400 envAB with | .done _ => true | _ => false) = true := by
        decide +kernel
      rw [h'] at this; cases this
  | stopped c =>
    have : (match Ir.run exMul false 0 400 envAB with | .done _ => true | _ => false) = true := by
      decide +kernel
    rw [h] at this; cases this
  | interrupted c =>
    have : (match Ir.run exMul false 0 400 envAB with | .done _ => true | _ => false) = true := by
      decide +kernel
    rw [h] at this; cases this
  | outOfFuel c =>
    have : (match Ir.run exMul false 0 400 envAB with | .done _ => true | _ => false) = true := by
      decide +kernel
    rw [h] at this; cases this

end Examples

end OptProof
end Hpbf

#print axioms Hpbf.OptProof.optimizeOnce_straightline
#print axioms Hpbf.OptProof.optimize_straightline_level1
#print axioms Hpbf.OptProof.optimizeOnce_preserves_level1
#print axioms Hpbf.OptProof.optimizeOnce_onceOk_level1
#print axioms Hpbf.OptProof.optimize_preserves_level1'
#print axioms Hpbf.OptProof.optimize_onceOk_level1'
#print axioms Hpbf.OptProof.optimize_parse_level1
#print axioms Hpbf.OptProof.tape_not_preserved
