/-
Property C01 (part: the optimiser's REBUILD ROUND, `src/opt.rs` `OptRebuild`, `Program::optimize_once`,
`Program::optimize`; model `Hpbf/Opt.lean`, an exact port tied to the Rust on ~290 000 programs).

The optimizer re-executes the IR symbolically (`written` / `pending` / `reverse` maps) and emits a new IR.  The
hash-iteration orders the Rust uses are an ORACLE argument (`orders`): every theorem holds for EVERY oracle for
which the function returns `.ok`.

What is preserved is the OBSERVABLE BEHAVIOUR (`BehEq`): terminating runs correspond in both directions (same
kind of ending, same events, same environment), and runs that are cut off by the fuel have the same events.  The
final TAPE and POINTER are not preserved (pending operations at the end of the program are dropped,
`Program { shift: 0 }`): see `tape_not_preserved`.

STAGE 1 (this file, so far): blocks without `loop` / `ifnz`.
* `optimizeOnce_straightline` : one round, any previous analysis, any oracle.
* `optimize_straightline_level1` : `Opt.optimize b 1 orders = .ok b'`.
The proofs are in `Hpbf/Proofs/OptRb*.lean` (map: `Hpbf/Proofs/OptRb.README.md`).
-/
import Hpbf.Proofs.OptRbEx

namespace Hpbf
namespace OptProof
open Opt OptSem Ir

variable {w : Nat}

/-! ### vocabulary (transparent) -/

example (b b' : Block w) (env : Env) : BehEq b b' env ↔
    ((∀ f c, Ir.run b false 0 f env = .done c → ∃ f' c', Ir.run b' false 0 f' env = .done c' ∧
      c'.st.trace = c.st.trace ∧ c'.st.env = c.st.env) ∧
    (∀ f c, Ir.run b false 0 f env = .stopped c → ∃ f' c', Ir.run b' false 0 f' env = .stopped c' ∧
      c'.st.trace = c.st.trace ∧ c'.st.env = c.st.env) ∧
    (∀ f' c', Ir.run b' false 0 f' env = .done c' → ∃ f c, Ir.run b false 0 f env = .done c ∧
      c'.st.trace = c.st.trace ∧ c'.st.env = c.st.env) ∧
    (∀ f' c', Ir.run b' false 0 f' env = .stopped c' → ∃ f c, Ir.run b false 0 f env = .stopped c ∧
      c'.st.trace = c.st.trace ∧ c'.st.env = c.st.env) ∧
    (∀ f', ∃ f, C01.traceOf (Ir.run b false 0 f env) = C01.traceOf (Ir.run b' false 0 f' env)) ∧
    (∀ f, ∃ f', C01.traceOf (Ir.run b' false 0 f' env) = C01.traceOf (Ir.run b false 0 f env))) := Iff.rfl

example (b : Block w) : StraightLine b ↔ ∀ i ∈ b.insts, C01Dse.isBlock i = false := Iff.rfl

/-! ### stage 1: blocks without `loop` / `ifnz` -/

/-- One optimizer round (`Program::optimize_once`) on a block without `loop` / `ifnz`: for every previous
analysis, every oracle and every environment, the emitted block has the same observable behaviour. -/
theorem optimizeOnce_straightline {b : Block w} (hb : StraightLine b) (prevAnal : OptAnalysis w)
    {os os' : Orders} {b' : Block w} {anal' : OptAnalysis w}
    (hr : (optimizeOnce b prevAnal).run os = .ok ((b', anal'), os')) (env : Env) : BehEq b b' env :=
  rebuild_straightline hb prevAnal hr env

/-- `Program::optimize` at level 1 on a block without `loop` / `ifnz`. -/
theorem optimize_straightline_level1 {b b' : Block w} (hb : StraightLine b) {orders : Orders}
    (h : Opt.optimize b 1 orders = .ok b') (env : Env) : BehEq b b' env := by
  rw [optimize_ok_iff, optimizeM_one_ok] at h
  obtain ⟨anal, h⟩ := h
  exact rebuild_straightline hb _ h env

/-! ### the hypotheses are satisfiable -/

section Examples

/-- `+>,<.>+.<+.` -/
def exSrc : List Kind := [.inc, .right, .inp, .left, .out, .right, .inc, .out, .left, .inc, .out]

def exB : Block 8 :=
  { shift := 0,
    insts := [.input 1, .calc [(0, [⟨1#8, []⟩, ⟨1#8, [0]⟩])], .output 0,
              .calc [(1, [⟨1#8, []⟩, ⟨1#8, [1]⟩])], .output 1,
              .calc [(0, [⟨1#8, []⟩, ⟨1#8, [0]⟩])], .output 0] }

/-- The optimizer has folded the constants: cell 0 is known to be 1, then 2. -/
def exB' : Block 8 :=
  { shift := 0,
    insts := [.input 1, .calc [(0, [⟨1#8, []⟩])], .output 0,
              .calc [(1, [⟨1#8, []⟩, ⟨1#8, [1]⟩])], .output 1,
              .calc [(0, [⟨2#8, []⟩])], .output 0] }

def envAB : Env := { input := some [.byte 65, .byte 66, .eof], sink := true, outOk := none }

instance (b : Block w) : Decidable (StraightLine b) := by
  unfold StraightLine StraightL; infer_instance

example : Ir.parse (w := 8) exSrc = .ok exB := parse_of_check (by decide +kernel)
example : StraightLine exB := by decide
example : Opt.optimize exB 1 [] = .ok exB' := optimize_of_check (by decide +kernel)
example : BehEq exB exB' envAB :=
  optimize_straightline_level1 (orders := []) (by decide) (optimize_of_check (by decide +kernel)) _
example : C01.traceOf (Ir.run exB false 0 20 envAB) = [.out 2, .out 66, .out 1, .inp 65] := by decide
example : C01.traceOf (Ir.run exB' false 0 20 envAB) = [.out 2, .out 66, .out 1, .inp 65] := by decide

end Examples

end OptProof
end Hpbf

#print axioms Hpbf.OptProof.optimizeOnce_straightline
#print axioms Hpbf.OptProof.optimize_straightline_level1
